(* SafeLoadProofs.v -- C04, the composition: Reader::read as modelled by c01's Model/LoaderExt.v (cross-reference table
   and stream, Prev chain with already_seen, XRefStm, read_object with Length references and MAX_LENGTH_CHAIN, object
   streams through c02's Model/ObjStm.v, the zero-length-stream pass), for EVERY byte string and EVERY behaviour of
   Stream::decompress:
     - no component answers a panic ([LPanic] is unreachable),
     - no fuel of the model is ever exhausted ([LOut] is unreachable): the grammar fuel |s| + 2 (SafeParserFuel), the
       cross-reference table fuel |s| + 1 (every entry and every subsection consumes input), the Prev loop fuel
       |buf| + 2 (every iteration adds a NEW offset in 0..|buf| to already_seen: pigeonhole), the Length chain fuel
       MAX_LENGTH_CHAIN + 1.
   The same for Model/Loader.v ([load]). *)
From LV Require Import Base.Bytes Base.Sx Model.Obj Model.Writer Model.Parser Model.Xref Model.ObjStm Model.Utf
  Model.Loader Model.LoaderExt Model.LoaderEnc Gen.Lex Gen.SaveFmt Gen.Consts Proofs.SafeContentProofs Proofs.SafeParserFuel.
From Coq Require Import Lia.
Local Open Scope N_scope.

(* a parser result that is neither a panic nor out-of-fuel *)
Definition ok2 {A} (r : pres A) : Prop := r <> PPanic /\ r <> POut.

Lemma ok2_pbind {A B} (r : pres A) (f : A -> bytes -> pres B) :
  ok2 r -> (forall a s, r = POk a s -> ok2 (f a s)) -> ok2 (pbind r f).
Proof. unfold ok2, pbind. intros [H1 H2] Hf. destruct r; try (split; congruence). apply Hf. reflexivity. Qed.
Lemma ok2_leaf {A} (r : pres A) : np r -> nout r -> ok2 r.
Proof. intros; split; assumption. Qed.

Lemma ok2_ptag t s : ok2 (ptag t s).
Proof. unfold ok2, ptag. destruct (prefixb t s); split; discriminate. Qed.
Lemma ok2_eol s : ok2 (eol s).
Proof. unfold ok2, eol. destruct s as [|c t]; [split; discriminate|]. destruct c; try (split; discriminate). destruct t as [|c1 t']; [split; discriminate|]. destruct c1; split; discriminate. Qed.
Lemma ok2_unsigned_int m s : ok2 (unsigned_int m s).
Proof. split; [apply np_unsigned_int|apply nout_unsigned_int]. Qed.
Lemma ok2_object_id s : ok2 (object_id s).
Proof.
  unfold object_id. apply ok2_pbind; [apply ok2_unsigned_int|]. intros i r _.
  apply ok2_pbind; [apply ok2_unsigned_int|]. intros; split; discriminate.
Qed.

Lemma adv0_of_adv {A} s (r : pres A) : adv s r -> adv0 s r.
Proof. intros H a rest E. specialize (H a rest E). lia. Qed.
Lemma adv_pbind {A B} s (r : pres A) (f : A -> bytes -> pres B) :
  adv s r -> (forall a s', adv0 s' (f a s')) -> adv s (pbind r f).
Proof.
  intros Hr Hf b rest. unfold pbind. destruct r as [a s'| | | |] eqn:E; try discriminate.
  intro H. specialize (Hr a s' eq_refl). specialize (Hf a s' b rest H). lia.
Qed.
Lemma adv0_pbind {A B} s (r : pres A) (f : A -> bytes -> pres B) :
  adv0 s r -> (forall a s', adv0 s' (f a s')) -> adv0 s (pbind r f).
Proof.
  intros Hr Hf b rest. unfold pbind. destruct r as [a s'| | | |] eqn:E; try discriminate.
  intro H. specialize (Hr a s' eq_refl). specialize (Hf a s' b rest H). lia.
Qed.
Lemma adv0_ret {A} (a : A) s : adv0 s (POk a s).
Proof. intros b rest H. injection H as _ <-. lia. Qed.

(* ---------------- the cross-reference table ---------------- *)
Lemma ok2_entry_kind s : ok2 (entry_kind s).
Proof. unfold ok2, entry_kind. destruct s as [|c t]; [split; discriminate|]. destruct c; split; discriminate. Qed.
Lemma ok2_xref_eol s : ok2 (xref_eol s).
Proof.
  unfold ok2, xref_eol. destruct s as [|c t]; [split; discriminate|].
  destruct c; try (split; discriminate); destruct t as [|c1 t']; try (split; discriminate); destruct c1; split; discriminate.
Qed.
Lemma adv0_entry_kind s : adv0 s (entry_kind s).
Proof. intros a rest. unfold entry_kind. destruct s as [|c t]; [discriminate|]. destruct c; try discriminate; intro H; injection H as _ <-; cbn [length]; lia. Qed.
Lemma adv0_xref_eol s : adv0 s (xref_eol s).
Proof.
  intros a rest. unfold xref_eol. destruct s as [|c t]; [discriminate|].
  destruct c; try discriminate; destruct t as [|c1 t']; try discriminate; destruct c1; try discriminate;
    intro H; injection H as _ <-; cbn [length]; lia.
Qed.

Lemma xref_entry_fine s : ok2 (xref_entry s) /\ adv s (xref_entry s).
Proof.
  unfold xref_entry. split.
  - apply ok2_pbind; [apply ok2_unsigned_int|]. intros off r1 _.
    apply ok2_pbind; [apply ok2_ptag|]. intros u r2 _.
    apply ok2_pbind; [apply ok2_unsigned_int|]. intros gen r3 _.
    apply ok2_pbind; [apply ok2_ptag|]. intros u4 r4 _.
    apply ok2_pbind; [apply ok2_entry_kind|]. intros k r5 _.
    apply ok2_pbind; [apply ok2_xref_eol|]. intros; split; discriminate.
  - apply adv_pbind; [apply adv_unsigned_int|]. intros off r1.
    apply adv0_pbind; [apply adv0_ptag|]. intros u r2.
    apply adv0_pbind; [apply adv0_of_adv, adv_unsigned_int|]. intros gen r3.
    apply adv0_pbind; [apply adv0_ptag|]. intros u4 r4.
    apply adv0_pbind; [apply adv0_entry_kind|]. intros k r5.
    apply adv0_pbind; [apply adv0_xref_eol|]. intros u6 r6. apply adv0_ret.
Qed.

Lemma many0_entries_fine : forall fuel s, (length s < fuel)%nat ->
  ok2 (many0_entries fuel s) /\ adv0 s (many0_entries fuel s).
Proof.
  induction fuel as [|f IH]; intros s Hf; [lia|]. cbn [many0_entries].
  destruct (xref_entry_fine s) as [[H1 H2] Ha].
  destruct (xref_entry s) as [e r| | | |] eqn:E; try congruence.
  - specialize (Ha e r eq_refl). destruct (IH r ltac:(lia)) as [[I1 I2] Ia].
    destruct (many0_entries f r) as [l r'| | | |] eqn:E'; cbn [pmap]; try congruence;
      (split; [split; discriminate|]); intros a rest H; try discriminate.
    injection H as _ <-. specialize (Ia l r' eq_refl). lia.
  - split; [split; discriminate|]. apply adv0_ret.
  - split; [split; discriminate|]. intros a rest H; discriminate.
Qed.

Lemma eol_adv0 s : adv0 s (eol s).
Proof. intros [] rest H. apply eol_len in H. lia. Qed.

Lemma xref_section_fine fuel s : (length s < fuel)%nat ->
  ok2 (xref_section fuel s) /\ adv s (xref_section fuel s).
Proof.
  intro Hf. unfold xref_section.
  destruct (unsigned_int usize_max s) as [start r1| | | |] eqn:E1; cbn [pbind];
    try (split; [split; discriminate|intros a rest H; discriminate]);
    try (exfalso; destruct (ok2_unsigned_int usize_max s) as [X Y]; congruence).
  pose proof (adv_unsigned_int _ _ _ _ E1) as L1.
  destruct (ptag [x20] r1) as [u r2| | | |] eqn:E2; cbn [pbind];
    try (split; [split; discriminate|intros a rest H; discriminate]);
    try (exfalso; destruct (ok2_ptag [x20] r1) as [X Y]; congruence).
  pose proof (adv0_ptag _ _ _ _ E2) as L2.
  destruct (unsigned_int u32_max r2) as [cnt r3| | | |] eqn:E3; cbn [pbind];
    try (split; [split; discriminate|intros a rest H; discriminate]);
    try (exfalso; destruct (ok2_unsigned_int u32_max r2) as [X Y]; congruence).
  pose proof (adv_unsigned_int _ _ _ _ E3) as L3.
  set (r4 := match r3 with x20 :: t => t | _ => r3 end).
  assert (L4 : (length r4 <= length r3)%nat).
  { unfold r4. destruct r3 as [|c t]; [lia|]. destruct c; cbn [length]; lia. }
  destruct (eol r4) as [u5 r5| | | |] eqn:E5; cbn [pbind];
    try (split; [split; discriminate|intros a rest H; discriminate]);
    try (exfalso; destruct (ok2_eol r4) as [X Y]; congruence).
  pose proof (eol_adv0 _ _ _ E5) as L5.
  destruct (many0_entries_fine fuel r5 ltac:(lia)) as [[M1 M2] Ma].
  destruct (many0_entries fuel r5) as [es r6| | | |] eqn:E6; cbn [pbind]; try congruence;
    (split; [split; discriminate|]); intros a rest H; try discriminate.
  injection H as _ <-. specialize (Ma es r6 eq_refl). lia.
Qed.

Lemma fold_sections_fine fuel : forall n s m, (length s < n)%nat -> (length s < fuel)%nat ->
  ok2 (fold_sections n fuel s m) /\ adv0 s (fold_sections n fuel s m).
Proof.
  induction n as [|n IH]; intros s m Hn Hf; [lia|]. cbn [fold_sections].
  destruct (xref_section_fine fuel s Hf) as [[H1 H2] Ha].
  destruct (xref_section fuel s) as [[start es] r| | | |] eqn:E; try congruence.
  - specialize (Ha _ r eq_refl). destruct (IH r (add_section m start 0 es) ltac:(lia) ltac:(lia)) as [I Ia].
    split; [exact I|]. intros a rest H. specialize (Ia a rest H). lia.
  - split; [split; discriminate|]. apply adv0_ret.
  - split; [split; discriminate|]. intros a rest H; discriminate.
Qed.

Lemma xref_table_fine s : ok2 (xref_table s) /\ adv0 s (xref_table s).
Proof.
  unfold xref_table.
  destruct (ptag (bs "xref") s) as [u r1| | | |] eqn:E1; cbn [pbind];
    try (split; [split; discriminate|intros a rest H; discriminate]);
    try (exfalso; destruct (ok2_ptag (bs "xref") s) as [X Y]; congruence).
  pose proof (adv0_ptag _ _ _ _ E1) as L1.
  destruct (eol r1) as [u2 r2| | | |] eqn:E2; cbn [pbind];
    try (split; [split; discriminate|intros a rest H; discriminate]);
    try (exfalso; destruct (ok2_eol r1) as [X Y]; congruence).
  pose proof (eol_adv0 _ _ _ E2) as L2.
  destruct (xref_section_fine (S (length s)) r2 ltac:(lia)) as [[H1 H2] Ha].
  destruct (xref_section (S (length s)) r2) as [[start es] r3| | | |] eqn:E3; try congruence;
    try (split; [split; discriminate|intros a rest H; discriminate]).
  specialize (Ha _ r3 eq_refl).
  destruct (fold_sections_fine (S (length s)) (S (length s)) r3 (add_section [] start 0 es) ltac:(lia) ltac:(lia)) as [[F1 F2] Fa].
  destruct (fold_sections _ _ r3 _) as [m' r4| | | |] eqn:E4; cbn [pbind]; try congruence;
    (split; [split; discriminate|]); intros a rest H; try discriminate.
  injection H as _ <-. specialize (Fa m' r4 eq_refl). pose proof (space_len r4). lia.
Qed.

Lemma np_dictionary fuel s : np (dictionary fuel s).
Proof.
  unfold dictionary. destruct fuel as [|f]; [discriminate|]. destruct (depth_ok MAX_DEPTH); [|discriminate].
  apply np_dictionary_p. intros s'. apply np_direct_objects_at.
Qed.

Lemma trailer_ok2 s : ok2 (trailer s).
Proof.
  unfold trailer.
  destruct (ptag (bs "trailer") s) as [u r1| | | |] eqn:E1; cbn [pbind]; try (split; discriminate);
    try (exfalso; destruct (ok2_ptag (bs "trailer") s) as [X Y]; congruence).
  pose proof (adv0_ptag _ _ _ _ E1) as L1. pose proof (space_len r1) as L2.
  pose proof (np_dictionary (fuel_for s) (space r1)) as N1.
  destruct (dictionary_fine (fuel_for s) (space r1) ltac:(unfold fuel_for; lia)) as [N2 _].
  unfold np, nout in *. destruct (dictionary (fuel_for s) (space r1)); cbn [pbind]; try (split; discriminate); congruence.
Qed.

Theorem xref_and_trailer_table_safe s : xref_and_trailer_table s <> XPanic /\ xref_and_trailer_table s <> XOut.
Proof.
  unfold xref_and_trailer_table. destruct (xref_table_fine s) as [[H1 H2] _].
  destruct (xref_table s) as [x r| | | |]; try (split; discriminate); try congruence.
  destruct (trailer_ok2 r) as [T1 T2].
  destruct (trailer r) as [t r'| | | |]; try (split; discriminate); try congruence.
  destruct (dict_get t K_Size) as [[]|]; split; discriminate.
Qed.

(* ---------------- the cross-reference stream ---------------- *)
Definition xok {A} (r : xres A) : Prop := r <> XPanic /\ r <> XOut.

Lemma xs_row_ok w0 w1 w2 start j s m : xok (xs_row w0 w1 w2 start j s m).
Proof.
  unfold xok, xs_row.
  repeat match goal with |- context [match ?x with _ => _ end] => destruct x end; split; discriminate.
Qed.
Lemma xs_rows_ok : forall cnt w0 w1 w2 start j s m, xok (xs_rows cnt w0 w1 w2 start j s m).
Proof.
  induction cnt as [|c IH]; intros; cbn [xs_rows]; [split; discriminate|].
  destruct (xs_row_ok w0 w1 w2 start j s m) as [H1 H2].
  destruct (xs_row w0 w1 w2 start j s m) as [[m' s']| | | |]; try (split; discriminate); try congruence. apply IH.
Qed.
Lemma xs_sections_ok : forall n idx, (length idx <= n)%nat -> forall w0 w1 w2 s m, xok (xs_sections idx w0 w1 w2 s m) /\
  xs_sections idx w0 w1 w2 s m <> XNoMatch.
Proof.
  induction n as [|n IH]; intros idx Hn w0 w1 w2 s m.
  - destruct idx; [cbn; repeat split; discriminate|cbn in Hn; lia].
  - destruct idx as [|start [|count idx']]; cbn [xs_sections]; try (repeat split; discriminate).
    pose proof (xs_rows_ok (xs_iterations count s) w0 w1 w2 start 0%Z s m) as [H1 H2].
    assert (H3 : xs_rows (xs_iterations count s) w0 w1 w2 start 0%Z s m <> XNoMatch).
    { assert (H3g : forall cnt j s0 m0, xs_rows cnt w0 w1 w2 start j s0 m0 <> XNoMatch); [|apply H3g].
      clear. intro cnt.
      induction cnt as [|c IHc]; intros j s0 m0; cbn [xs_rows]; [discriminate|].
      assert (Hr : xs_row w0 w1 w2 start j s0 m0 <> XNoMatch).
      { unfold xs_row. repeat match goal with |- context [match ?x with _ => _ end] => destruct x end; discriminate. }
      destruct (xs_row w0 w1 w2 start j s0 m0) as [[m' s']| | | |]; try discriminate; try congruence; try apply IHc. }
    destruct (xs_rows _ w0 w1 w2 start 0%Z s m) as [[m' s']| | | |]; try (repeat split; discriminate); try congruence.
    apply IH. cbn [length] in Hn. lia.
Qed.

Theorem decode_xref_plain_safe d c : xok (decode_xref_plain d c).
Proof.
  unfold xok, decode_xref_plain.
  destruct (dict_get d K_Size) as [[]|]; try (split; discriminate).
  destruct (dict_get d K_W) as [o|]; [|split; discriminate].
  destruct (parse_integer_array o) as [[|w0 [|w1 [|w2 ws]]]|]; try (split; discriminate).
  destruct (_ || _)%bool; [split; discriminate|]. destruct (_ && _)%bool; [split; discriminate|].
  match goal with |- context [xs_sections ?i ?a ?b ?c0 ?s ?m] =>
    destruct (xs_sections_ok (length i) i (le_n _) a b c0 s m) as [[H1 H2] H3];
    destruct (xs_sections i a b c0 s m) as [[m' s']| | | |] end; try (split; discriminate); congruence.
Qed.

Theorem decode_xref_stream_safe decompress d c : xok (decode_xref_stream decompress d c).
Proof.
  unfold decode_xref_stream. destruct (dict_has d K_Filter); [|apply decode_xref_plain_safe].
  destruct (decompress d c) as [[d' c']|]; [apply decode_xref_plain_safe|split; discriminate].
Qed.

(* ---------------- indirect objects, Length references ---------------- *)
Definition lok (r : lenres) : Prop := r <> LnPanic /\ r <> LnOut.
Definition iok (r : iresx) : Prop := r <> IxPanic /\ r <> IxOut.
Definition sok (r : sresx) : Prop := r <> SxPanic /\ r <> SxOut.

Lemma stream_px_ok fuel buf s lenref : (length s < fuel)%nat -> (forall id, lok (lenref id)) -> sok (stream_px fuel buf s lenref).
Proof.
  intros Hf Hl. unfold sok, stream_px.
  pose proof (np_dictionary fuel s) as N1. destruct (dictionary_fine fuel s Hf) as [N2 _]. unfold np, nout in *.
  destruct (dictionary fuel s) as [d r| | | |]; try (split; discriminate); try congruence.
  destruct (ptag _ (space r)) as [u r2| | | |]; try (split; discriminate).
  destruct (eol _) as [u4 r4| | | |]; try (split; discriminate).
  assert (Hlen : forall z, sok (if (z <? 0)%Z then SxFail
                                else match take_N (Z.to_N z) r4 with
                                     | Some (data, r5) =>
                                       let r6 := match eol r5 with POk _ r => r | _ => r5 end in
                                       match ptag (bs "endstream") r6 with
                                       | POk _ r7 => SxOk (stream_new d data) None r7
                                       | _ => SxErr
                                       end
                                     | None => SxErr
                                     end)).
  { intro z. destruct (z <? 0)%Z; [split; discriminate|]. destruct (take_N _ r4) as [[data r5]|]; [|split; discriminate].
    cbv zeta. destruct (ptag _ _); split; discriminate. }
  destruct (dict_get d K_Length) as [[| |z| | | | | | |i g]|]; try (split; discriminate).
  - apply Hlen.
  - destruct (Hl (i, g)) as [L1 L2].
    destruct (lenref (i, g)) as [z| | |]; try (split; discriminate); try congruence. apply Hlen.
Qed.

Lemma object_id_adv0 s : adv0 s (object_id s).
Proof. apply adv0_of_adv, adv_object_id. Qed.

Lemma indirect_with_ok buf s expected lenref : (forall id, lok (lenref id)) -> iok (indirect_with buf s expected lenref).
Proof.
  intro Hl. unfold iok, indirect_with.
  destruct (object_id (space s)) as [id r| | | |] eqn:E1; try (split; discriminate).
  pose proof (object_id_adv0 _ _ _ E1) as L1. pose proof (space_len s) as L0.
  destruct (ptag (bs "obj") r) as [u r1| | | |] eqn:E2; try (split; discriminate).
  pose proof (adv0_ptag _ _ _ _ E2) as L2. pose proof (space_len r1) as L3.
  destruct (match expected with Some e => negb (oid_eqb e id) | None => false end); [split; discriminate|].
  assert (Hf : (length (space r1) < fuel_for s)%nat) by (unfold fuel_for; lia).
  destruct (stream_px_ok (fuel_for s) buf (space r1) lenref Hf Hl) as [S1 S2].
  destruct (stream_px (fuel_for s) buf (space r1) lenref); try (split; discriminate); try congruence.
  pose proof (np_direct_objects_at (fuel_for s) MAX_DEPTH (space r1)) as N1.
  pose proof (direct_objects_fuel (fuel_for s) (space r1) Hf) as N2. unfold np, direct_objects in *.
  destruct (direct_objects_at (fuel_for s) MAX_DEPTH (space r1)); try (split; discriminate); congruence.
Qed.

(* the chain of Length references: a nested call is made only while |seen| + 1 <= MAX_LENGTH_CHAIN *)
Lemma get_length_ok buf x : forall chain seen id, (MAX_LENGTH_CHAIN < chain + length seen)%nat -> lok (get_length chain buf x seen id).
Proof.
  induction chain as [|c IH]; intros seen id Hc.
  - cbn [get_length]. destruct (existsb _ seen); [split; discriminate|].
    destruct (MAX_LENGTH_CHAIN <? S (length seen))%nat eqn:E; [split; discriminate|].
    apply Nat.ltb_ge in E. cbn in Hc. lia.
  - cbn [get_length]. destruct (existsb _ seen); [split; discriminate|].
    destruct (MAX_LENGTH_CHAIN <? S (length seen))%nat eqn:E; [split; discriminate|].
    destruct (get_offset x id) as [off|]; [|split; discriminate].
    destruct (_ <? off); [split; discriminate|].
    assert (Hn : forall id', lok (get_length c buf x (id :: seen) id')) by (intro id'; apply IH; cbn [length]; lia).
    destruct (indirect_with_ok buf (from off buf) (Some id) _ Hn) as [I1 I2].
    destruct (indirect_with buf (from off buf) (Some id) _) as [i [] p| | |]; try (split; discriminate); congruence.
Qed.

Lemma indirect_x_ok buf x s expected : iok (indirect_x buf x s expected).
Proof. unfold indirect_x. apply indirect_with_ok. intro id. apply get_length_ok. cbn [length]. lia. Qed.

(* ---------------- xref_and_trailer, the Prev loop ---------------- *)
Definition stok {A} (r : lstep A) : Prop := r <> SPanic /\ r <> SOut.

Lemma of_xres_ok {A} (r : xres A) : xok r -> stok (of_xres r).
Proof. intros [H1 H2]. unfold stok, of_xres. destruct r as [a|[]| | |]; try (split; discriminate); congruence. Qed.

Section Ext.
  Variable decompress : dict -> bytes -> option (dict * bytes).
  Variable can_decompress : dict -> bool.

  Lemma xref_and_trailer_x_ok buf start : stok (xref_and_trailer_x decompress can_decompress buf start).
  Proof.
    unfold xref_and_trailer_x. destruct (xref_and_trailer_table_safe (from start buf)) as [T1 T2].
    destruct (xref_and_trailer_table (from start buf)) as [a|e| | |] eqn:E; try congruence;
      try (apply of_xres_ok; split; discriminate).
    destruct (indirect_x_ok buf [] (from start buf) None) as [I1 I2].
    destruct (indirect_x buf [] (from start buf) None) as [id o pos| | |]; try (split; discriminate); try congruence.
    destruct o; try (split; discriminate).
    destruct (filters_modelled can_decompress d); [|split; discriminate].
    apply of_xres_ok, decode_xref_stream_safe.
  Qed.

  (* offsets 0 .. n as integers *)
  Definition zrange (n : nat) : list Z := map Z.of_nat (seq 0 (S n)).
  Lemma in_zrange n p : (0 <= p)%Z -> (Z.to_N p <= N.of_nat n) -> In p (zrange n).
  Proof.
    intros H0 H1. unfold zrange. apply in_map_iff. exists (Z.to_nat p). split; [lia|]. apply in_seq. lia.
  Qed.

  (* Reader::merge_xref_stream (since /repo 4ad1a1a the XRefStm look-ups of the Prev loop go through it) *)
  Lemma merge_xref_stream_x_ok buf x start : stok (merge_xref_stream_x decompress can_decompress buf x start).
  Proof.
    unfold merge_xref_stream_x. destruct start as [[| | q | | | | | | |]|]; try (split; discriminate).
    destruct ((q <? 0)%Z || (Loader.blen buf <? Z.to_N q)); [split; discriminate|].
    destruct (xref_and_trailer_x_ok buf (Z.to_N q)) as [Y1 Y2].
    destruct (xref_and_trailer_x decompress can_decompress buf (Z.to_N q)) as [[sx st]|e| | |]; try (split; discriminate); try congruence.
  Qed.

  Lemma prev_loop_x_ok buf : forall fuel x t prev seen,
    NoDup seen -> incl seen (zrange (length buf)) -> (S (length buf) < fuel + length seen)%nat ->
    stok (prev_loop_x decompress can_decompress fuel buf x t prev seen).
  Proof.
    induction fuel as [|f IH]; intros x t prev seen Hnd Hincl Hlen.
    - exfalso. pose proof (NoDup_incl_length Hnd Hincl) as H. unfold zrange in H. rewrite map_length, seq_length in H. cbn in Hlen. lia.
    - cbn [prev_loop_x]. destruct prev as [[| | p | | | | | | |]|]; try (split; discriminate).
      destruct (existsb (Z.eqb p) seen) eqn:Es; [split; discriminate|].
      destruct ((p <? 0)%Z || (Loader.blen buf <? Z.to_N p)) eqn:Eg; [split; discriminate|].
      apply Bool.orb_false_elim in Eg. destruct Eg as [G1 G2]. apply Z.ltb_ge in G1. apply N.ltb_ge in G2.
      assert (Hnd' : NoDup (p :: seen)).
      { constructor; [|exact Hnd]. intro Hin. assert (existsb (Z.eqb p) seen = true) by (apply existsb_exists; exists p; split; [exact Hin|apply Z.eqb_refl]). congruence. }
      assert (Hincl' : incl (p :: seen) (zrange (length buf))).
      { intros q [<-|Hq]; [apply in_zrange; [exact G1|exact G2]|apply Hincl; exact Hq]. }
      assert (Hlen' : (S (length buf) < f + length (p :: seen))%nat) by (cbn [length]; lia).
      destruct (merge_xref_stream_x_ok buf x (dict_get t K_XRefStm)) as [M1 M2].
      destruct (merge_xref_stream_x decompress can_decompress buf x (dict_get t K_XRefStm)) as [x1|e| | |]; try (split; discriminate); try congruence.
      destruct (xref_and_trailer_x_ok buf (Z.to_N p)) as [X1 X2].
      destruct (xref_and_trailer_x decompress can_decompress buf (Z.to_N p)) as [[px pt]|e| | |]; try (split; discriminate); try congruence.
      destruct (merge_xref_stream_x_ok buf px (dict_get pt K_XRefStm)) as [N1 N2].
      destruct (merge_xref_stream_x decompress can_decompress buf px (dict_get pt K_XRefStm)) as [px1|e| | |]; try (split; discriminate); try congruence.
      apply IH; assumption.
  Qed.

  Lemma read_entries_x_ok buf x : forall es st, stok (read_entries_x decompress can_decompress buf x es st).
  Proof.
    induction es as [|[k e] es IH]; intros st; cbn [read_entries_x]; [split; discriminate|].
    destruct e; try apply IH.
    destruct (_ <? offset); [apply IH|].
    destruct (indirect_x_ok buf x (from offset buf) None) as [I1 I2].
    destruct (indirect_x buf x (from offset buf) None) as [id o pos| | |]; try congruence; try apply IH.
    destruct o; try apply IH.
    destruct (has_type d K_ObjStm); [|apply IH].
    destruct (filters_modelled can_decompress d); [|split; discriminate].
    destruct (objstm_new decompress d content) as [[d' c'] [members|err]]; apply IH.
  Qed.

  (* Reader::read: neither a panic nor an exhausted fuel, for every byte string *)
  Theorem load_ext_safe : forall buf0,
    load_ext decompress can_decompress buf0 <> LPanic /\ load_ext decompress can_decompress buf0 <> LOut.
  Proof.
    intro buf0. unfold load_ext. set (buf := from (pdf_offset buf0) buf0).
    destruct (header buf); [|split; discriminate].
    destruct (get_xref_start buf) as [xs|]; [|split; discriminate].
    destruct (xref_and_trailer_x_ok buf xs) as [X1 X2].
    destruct (xref_and_trailer_x decompress can_decompress buf xs) as [[x0 t0]|e| | |]; try (split; discriminate); try congruence.
    destruct (prev_loop_x_ok buf (S (S (length buf))) x0 (dict_swap_remove t0 K_Prev) (dict_get t0 K_Prev) []
                (NoDup_nil _) (incl_nil_l _) ltac:(cbn [length]; lia)) as [P1 P2].
    destruct (prev_loop_x _ _ _ buf x0 _ _ []) as [[x t]|e| | |]; try (split; discriminate); try congruence.
    destruct (u32_max <=? xref_max_id x); [split; discriminate|].
    destruct (dict_has t Loader.K_Encrypt); [split; discriminate|].
    destruct (read_entries_x_ok buf (x_entries x) (x_entries x) {| r_objs := []; r_pos := []; r_ostm := []; r_zero := [] |}) as [R1 R2].
    destruct (read_entries_x _ _ buf (x_entries x) (x_entries x) _); try (split; discriminate); congruence.
  Qed.
End Ext.

(* ---------------- the Encrypt branch (Model/LoaderEnc.v) ----------------
   Reader::read on EVERY file, a trailer with Encrypt included: the front (header .. Prev loop .. size), the objects of
   an encrypted file (read_entries_enc: no object stream is opened), the zero-length pass, then the decrypt attempt,
   which is the parameter [after].  Whatever answers the decrypt attempt can give, the reader adds neither a panic nor
   an exhausted fuel: [load_encx] answers LPanic / LOut (through [ret]) for NO byte string, and otherwise one of the
   reader's own results or what [after] answers.  So for every [after] that is total (answers neither) the whole
   load is. *)
Section Enc.
  Variable decompress : dict -> bytes -> option (dict * bytes).
  Variable can_decompress : dict -> bool.

  Lemma load_front_x_ok buf0 : stok (load_front_x decompress can_decompress buf0).
  Proof.
    unfold load_front_x. set (buf := from (pdf_offset buf0) buf0).
    destruct (header buf); [|split; discriminate].
    destruct (get_xref_start buf) as [xs|]; [|split; discriminate].
    destruct (xref_and_trailer_x_ok decompress can_decompress buf xs) as [X1 X2].
    destruct (xref_and_trailer_x decompress can_decompress buf xs) as [[x0 t0]|e| | |]; try (split; discriminate); try congruence.
    destruct (prev_loop_x_ok decompress can_decompress buf (S (S (length buf))) x0 (dict_swap_remove t0 K_Prev) (dict_get t0 K_Prev) []
                (NoDup_nil _) (incl_nil_l _) ltac:(cbn [length]; lia)) as [P1 P2].
    destruct (prev_loop_x _ _ _ buf x0 _ _ []) as [[x t]|e| | |]; try (split; discriminate); try congruence.
    destruct (u32_max <=? xref_max_id x); split; discriminate.
  Qed.

  Lemma read_entries_enc_ok buf x : forall es st, stok (read_entries_enc buf x es st).
  Proof.
    induction es as [|[k e] es IH]; intros st; cbn [read_entries_enc]; [split; discriminate|].
    destruct e; try apply IH.
    destruct (_ <? offset); [apply IH|].
    destruct (indirect_x_ok buf x (from offset buf) None) as [I1 I2].
    destruct (indirect_x buf x (from offset buf) None) as [id o pos| | |]; try congruence; try apply IH.
    destruct o; apply IH.
  Qed.

  Lemma plain_tail_safe f :
    plain_tail decompress can_decompress f <> LPanic /\ plain_tail decompress can_decompress f <> LOut.
  Proof.
    unfold plain_tail.
    destruct (read_entries_x_ok decompress can_decompress (f_buf f) (x_entries (f_xref f)) (x_entries (f_xref f)) rstate0) as [R1 R2].
    destruct (read_entries_x _ _ (f_buf f) (x_entries (f_xref f)) (x_entries (f_xref f)) rstate0);
      try (split; discriminate); congruence.
  Qed.

  (* what load_encx answers: one of the reader's own results that is neither a panic nor out-of-fuel, or what the
     decrypt attempt answers for some document *)
  Theorem load_encx_answers (R : Type) (ret : lres -> R) (after : xmap -> doc -> xtype -> R) buf0 :
    (exists r, load_encx decompress can_decompress R ret after buf0 = ret r /\ r <> LPanic /\ r <> LOut) \/
    (exists x d t, load_encx decompress can_decompress R ret after buf0 = after x d t).
  Proof.
    unfold load_encx. destruct (load_front_x_ok buf0) as [F1 F2].
    destruct (load_front_x decompress can_decompress buf0) as [f|e| | |]; try congruence.
    - destruct (dict_has (f_trailer f) K_Encrypt).
      + unfold enc_tail.
        destruct (read_entries_enc_ok (f_buf f) (x_entries (f_xref f)) (x_entries (f_xref f)) rstate0) as [R1 R2].
        destruct (read_entries_enc (f_buf f) (x_entries (f_xref f)) (x_entries (f_xref f)) rstate0) as [st|e| | |]; try congruence.
        * right. eexists _, _, _. reflexivity.
        * left. exists (LErr e). split; [reflexivity|]. split; discriminate.
        * left. exists LUnmodelled. split; [reflexivity|]. split; discriminate.
      + left. exists (plain_tail decompress can_decompress f). split; [reflexivity | apply plain_tail_safe].
    - left. exists (LErr e). split; [reflexivity|]. split; discriminate.
    - left. exists LUnmodelled. split; [reflexivity|]. split; discriminate.
  Qed.

  (* Reader::read, every file: neither a panic nor an exhausted fuel, for every total decrypt attempt *)
  Theorem load_enc_safe (after : doc -> xtype -> lres) :
    (forall d t, after d t <> LPanic /\ after d t <> LOut) ->
    forall buf0, load_enc decompress can_decompress after buf0 <> LPanic /\
                 load_enc decompress can_decompress after buf0 <> LOut.
  Proof.
    intros Ha buf0. unfold load_enc.
    destruct (load_encx_answers lres (fun r => r) (fun _ => after) buf0) as [[r [-> [H1 H2]]]|[x [d [t ->]]]].
    - split; assumption.
    - apply Ha.
  Qed.
End Enc.
