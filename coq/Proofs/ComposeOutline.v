(* ComposeOutline.v -- C17 "reading the table of contents back -- also after saving and reloading", composed with C01_full.
   Part 1: the objects build_outline creates are objects save can write and load reads back: well-formed direct
           dictionaries over twelve keys (none of them Type / Linearized, so the writer keeps them), nested at most two
           levels, under fresh numbers with generation 0; together with the README's attach step the document stays in
           C01's domain [savable] and outside its known class ([build_attach_savable]).  The only reals are the colour
           components C (hypothesis [bm_ok]: the Display text of a finite f32, a type invariant).
   Part 2: [reads_back_after_save_load_*]: load (save xt d2) succeeds and get_toc of the loaded document is the preorder
           of the forest.  Table format: instance of C17's reload section at [nreal := norm_real].  Stream format: the
           loaded document holds one more object (the cross-reference stream), so get_pages is compared under C12's
           hypotheses on the page tree and the outline through the forward simulation of Proofs/ComposeReload.v. *)
From LV Require Import Base.Bytes Base.Sx Model.Obj Model.DocQ Model.PageTree Model.Writer Model.Parser Model.Save
  Model.Xref Model.Loader Model.Utf Gen.Lex Gen.Consts Spec.Dfs Proofs.PageTreeProofs
  Proofs.LexProofs Proofs.RealProofs Proofs.ObjectRtProofs Proofs.SaveProofs Proofs.FilterProofsDict Spec.SaveSpec
  Proofs.LoadProofs Proofs.LoadProofsFile Proofs.LoadProofsXref Proofs.LoadProofsTable Proofs.LoadProofsAgain
  Proofs.LoadProofsStream Proofs.LoadProofsFull.
From LV Require Import Model.Outline Model.Toc Gen.QueryC Spec.OutlineSpec Proofs.OutlineProofs
  Proofs.OutlineProofsRead Proofs.OutlineProofsOps Proofs.OutlineProofsMain Proofs.OutlineProofsReload
  Proofs.OutlineProofsPages Proofs.ComposeReload.

Local Open Scope N_scope.

(* ---------- dictionaries over the builder's keys ---------- *)
Definition OKEYS : list bytes :=
  [K_Parent; K_Title; K_A; K_F; K_C; Outline.K_Prev; K_Next; K_First; K_Last; K_Count; K_D; K_S].
Ltac inkeys := unfold OKEYS; cbn [In]; repeat (first [left; reflexivity | right]).

Definition optle (o : option N) (M : N) : Prop := match o with Some n => n <= M | None => True end.

(* a value the builder stores: a reference to an object it numbers (generation 0), or a well-formed direct object
   nested at most one level *)
Definition vok (M : N) (o : obj) : Prop :=
  match o with ORef i g => i <= M /\ g = 0 | _ => obj_wf o /\ (nest o <= 1)%nat end.

Lemma vok_wf M o : M <= u32_max -> vok M o -> obj_wf o /\ (nest o <= 1)%nat.
Proof.
  intros HM H. destruct o; try exact H. destruct H as [H1 ->]. split; [|cbn; lia].
  constructor; [lia | unfold u16_max; lia].
Qed.

Definition dok (M : N) (dd : dict) : Prop :=
  dict_wf dd /\ Forall (fun kv => In (fst kv) OKEYS /\ vok M (snd kv)) dd.

Lemma dict_set_forall (P : bytes * obj -> Prop) d k v : Forall P d -> P (k, v) -> Forall P (dict_set d k v).
Proof.
  induction d as [|[k' v'] d IH]; intros H Hp; cbn [dict_set]; [constructor; auto|].
  inversion H; subst. destruct (bytes_eqb k' k) eqn:E.
  - apply bytes_eqb_eq in E. subst k'. constructor; assumption.
  - constructor; [assumption | apply IH; assumption].
Qed.

Lemma dok_nil M : dok M [].
Proof. split; constructor. Qed.

Lemma dok_set M dd k v : dok M dd -> In k OKEYS -> vok M v -> dok M (dict_set dd k v).
Proof. intros [W F] Hk Hv. split; [apply dict_set_wf; exact W | apply dict_set_forall; [exact F | split; assumption]]. Qed.

Lemma dok_set_opt M dd k o : dok M dd -> In k OKEYS -> optle o M -> dok M (set_opt dd k o).
Proof. intros H Hk Ho. destruct o as [n|]; [|exact H]. apply dok_set; [exact H | exact Hk | split; [exact Ho | reflexivity]]. Qed.

Lemma not_in_okeys k : forallb (fun k' => negb (bytes_eqb k k')) OKEYS = true -> ~ In k OKEYS.
Proof.
  intros H Hin. rewrite forallb_forall in H. specialize (H k Hin). rewrite bytes_eqb_refl in H. discriminate.
Qed.

Lemma dok_get_none M dd k : dok M dd -> ~ In k OKEYS -> dict_get dd k = None.
Proof.
  intros [_ F] Hk. apply dict_get_None. intro Hin. apply Hk. unfold keys in Hin. apply in_map_iff in Hin as [kv [<- Hin]].
  rewrite Forall_forall in F. apply (F kv Hin).
Qed.

Lemma two_le_max_depth : (2 <= MAX_DEPTH)%nat.
Proof. vm_compute. lia. Qed.

Lemma dok_top M dd : M <= u32_max -> dok M dd ->
  top_wf (ODict dd) /\ skipped (ODict dd) = false /\ (nest (ODict dd) <= MAX_DEPTH)%nat.
Proof.
  intros HM H. pose proof H as [W F]. split; [|split].
  - cbn [top_wf]. constructor; [exact W|]. eapply Forall_impl; [|exact F]. intros kv [_ Hv]. apply (vok_wf M _ HM Hv).
  - unfold skipped, type_name, get_type, dict_has.
    rewrite (dok_get_none M dd K_Type H) by (apply not_in_okeys; reflexivity).
    rewrite (dok_get_none M dd K_Linearized H) by (apply not_in_okeys; reflexivity). reflexivity.
  - change (nest (ODict dd)) with (S (nest_dict dd)). pose proof two_le_max_depth.
    assert (nest_dict dd <= 1)%nat; [|lia]. apply nest_dict_bound.
    eapply Forall_impl; [|exact F]. intros kv [_ Hv]. apply (vok_wf M _ HM Hv).
Qed.

(* ---------- the bookmark table: what the Rust types guarantee ---------- *)
Definition bm_ok (bm : bookmark) : Prop :=
  real_wf (fst (fst (bm_color bm))) /\ real_wf (snd (fst (bm_color bm))) /\ real_wf (snd (bm_color bm)) /\   (* f32 Display *)
  in_i64 (Z.of_N (bm_format bm)) = true /\                                                                   (* u32 *)
  fst (bm_page bm) <= u32_max /\ snd (bm_page bm) <= u16_max /\                                              (* ObjectId *)
  in_i64 (Z.of_nat (length (bm_children bm))) = true.                                                        (* Vec::len *)
Definition tbl_ok (t : btable) : Prop := forall i bm, tbl_get t i = Some bm -> bm_ok bm.

Lemma child_base_dok M pid bm info : bm_ok bm -> pid <= M -> info <= M -> dok M (child_base pid bm info).
Proof.
  intros [H0 [H1 [H2 [H3 _]]]] Hp Hi. unfold child_base. destruct (bm_color bm) as [[c0 c1] c2]. cbn [fst snd] in *.
  repeat (apply dok_set; [| inkeys |]); try apply dok_nil.
  - split; [lia | reflexivity].
  - split; [constructor | cbn; lia].
  - split; [lia | reflexivity].
  - split; [constructor; exact H3 | cbn; lia].
  - split; [constructor; repeat constructor; assumption | cbn; lia].
Qed.

Lemma info_dict_dok M bm : bm_ok bm -> dok M (info_dict (bm_page bm)).
Proof.
  intros [_ [_ [_ [_ [H4 [H5 _]]]]]]. unfold info_dict.
  repeat (apply dok_set; [| inkeys |]); try apply dok_nil.
  - split; [|cbn; lia]. constructor. constructor; [constructor; assumption|]. constructor; [constructor|constructor].
  - split; [constructor | cbn; lia].
Qed.

(* ---------- the loop of outline_child ---------- *)
Lemma pm_get_in pm k v : pm_get pm k = Some v -> In (k, v) pm.
Proof.
  induction pm as [|[k' v'] pm IH]; cbn [pm_get]; [discriminate|]. destruct (k' =? k) eqn:E.
  - apply N.eqb_eq in E. subst. intro H. inversion H. left. reflexivity.
  - intro H. right. apply IH. exact H.
Qed.

Section Loop.
  Variable tbl : btable.
  Variables lo M : N.
  Hypothesis Htbl : tbl_ok tbl.

  Definition pm_ok (pm : pmap) : Prop := Forall (fun kv => lo < fst kv <= M /\ dok M (snd kv)) pm.

  Definition rec_spec (rec : N -> list N -> N -> pmap -> outcome oc_result) : Prop :=
    forall pid ids maxid pm f l mx pm',
      rec pid ids maxid pm = OOk (f, l, mx, pm') ->
      maxid <= mx /\
      (mx <= M -> lo <= maxid -> pid <= M -> pm_ok pm -> pm_ok pm' /\ optle f M /\ optle l M).

  Lemma loop_spec rec : rec_spec rec ->
    forall pid ids first last maxid pm f l mx pm',
      outline_loop rec tbl pid ids first last maxid pm = OOk (f, l, mx, pm') ->
      maxid <= mx /\
      (mx <= M -> lo <= maxid -> pid <= M -> optle first M -> optle last M -> pm_ok pm ->
       pm_ok pm' /\ optle f M /\ optle l M).
  Proof.
    intros Hrec pid ids. induction ids as [|i rest IH]; intros first last maxid pm f l mx pm' H.
    - cbn [outline_loop] in H. inversion H; subst. split; [lia|]. intros. auto.
    - cbn [outline_loop] in H. destruct (tbl_get tbl i) as [bm|] eqn:Eb; [|discriminate].
      destruct (link_prev first last (maxid + 1) (child_base pid bm (maxid + 2)) pm) as [[[first' child1] pm1]| |] eqn:El;
        try discriminate.
      destruct (with_children rec (maxid + 1) (maxid + 2) (bm_children bm) child1 pm1) as [[[child2 mx1] pm2]| |] eqn:Ew;
        try discriminate.
      apply IH in H. destruct H as [Hle Hcond].
      assert (Hw1 : maxid + 2 <= mx1).
      { unfold with_children in Ew. destruct (bm_children bm) as [|c cs].
        - inversion Ew; subst. lia.
        - destruct (rec (maxid + 1) (c :: cs) (maxid + 2) pm1) as [[[[cf cl] mxr] pmr]| |] eqn:Er; try discriminate.
          inversion Ew; subst. destruct (Hrec _ _ _ _ _ _ _ _ Er) as [Hm _]. exact Hm. }
      split; [lia|]. intros HmxM Hlo Hpid Hf Hl Hpm.
      pose proof (Htbl _ _ Eb) as Hbm.
      assert (Hcb : dok M (child_base pid bm (maxid + 2))) by (apply child_base_dok; [exact Hbm | exact Hpid | lia]).
      assert (Hlp : optle first' M /\ dok M child1 /\ pm_ok pm1).
      { unfold link_prev in El. destruct first as [fv|].
        - destruct last as [x|].
          + destruct (pm_get pm x) as [dx|] eqn:Ex; [|discriminate]. inversion El; subst.
            apply pm_get_in in Ex. unfold pm_ok in Hpm. rewrite Forall_forall in Hpm. destruct (Hpm _ Ex) as [Hx Hdx].
            cbn [fst snd] in Hx, Hdx.
            split; [exact Hf|]. split.
            * apply dok_set; [exact Hcb | inkeys | split; [exact Hl | reflexivity]].
            * apply Forall_forall. intros kv [<-|Hin]; [|apply Hpm; exact Hin]. cbn [fst snd].
              split; [exact Hx|]. apply dok_set; [exact Hdx | inkeys | split; [lia | reflexivity]].
          + inversion El; subst. auto.
        - inversion El; subst. split; [cbn; lia|]. auto. }
      destruct Hlp as [Hf' [Hc1 Hp1]].
      assert (Hwc : dok M child2 /\ pm_ok pm2).
      { unfold with_children in Ew. destruct (bm_children bm) as [|c cs] eqn:Ec.
        - inversion Ew; subst. auto.
        - destruct (rec (maxid + 1) (c :: cs) (maxid + 2) pm1) as [[[[cf cl] mxr] pmr]| |] eqn:Er; try discriminate.
          inversion Ew; subst. destruct (Hrec _ _ _ _ _ _ _ _ Er) as [_ Hc].
          destruct Hc as [Hp2 [Hcf Hcl]]; [lia | lia | lia | exact Hp1|].
          split; [|exact Hp2].
          apply dok_set; [apply dok_set_opt; [apply dok_set_opt; [exact Hc1 | inkeys | exact Hcf] | inkeys | exact Hcl] | inkeys |].
          split; [|cbn; lia]. constructor. destruct Hbm as [_ [_ [_ [_ [_ [_ Hlen]]]]]]. rewrite Ec in Hlen. exact Hlen. }
      destruct Hwc as [Hc2 Hp2].
      apply Hcond; try assumption; try lia.
      + cbn. lia.
      + constructor; [cbn [fst snd]; split; [lia | apply info_dict_dok; exact Hbm]|].
        constructor; [cbn [fst snd]; split; [lia | exact Hc2] | exact Hp2].
  Qed.

  Lemma child_spec : forall fuel, rec_spec (outline_child fuel tbl).
  Proof.
    induction fuel as [|fuel IH]; intros pid ids maxid pm f l mx pm' H; [discriminate|].
    cbn [outline_child] in H. apply (loop_spec _ IH) in H. destruct H as [H1 H2]. split; [exact H1|].
    intros. apply H2; try assumption; exact I.
  Qed.
End Loop.

(* ---------- the object map ---------- *)
Definition okobj (lo M : N) (io : oid * obj) : Prop :=
  fst (fst io) <= M /\ snd (fst io) <= u16_max /\ top_wf (snd io) /\ skipped (snd io) = false /\
  (nest (snd io) <= MAX_DEPTH)%nat /\ (lo < fst (fst io) -> snd (fst io) = 0).
Definition good (lo M : N) (m : objmap) : Prop := increasing 0 (obj_numbers m) /\ Forall (okobj lo M) m.

Lemma increasing_all : forall l lo, increasing lo l -> Forall (fun x => lo < x) l.
Proof.
  induction l as [|x l IH]; intros lo H; [constructor|]. destruct H as [H1 H2]. constructor; [exact H1|].
  eapply Forall_impl; [|apply (IH x H2)]. intros y Hy. cbn in Hy. lia.
Qed.

Lemma increasing_unique : forall (m : objmap) lo n g1 o1 g2 o2,
  increasing lo (obj_numbers m) -> In ((n, g1), o1) m -> In ((n, g2), o2) m -> g1 = g2.
Proof.
  induction m as [|[[i gi] oi] m IH]; intros lo n g1 o1 g2 o2 Hinc H1 H2; [destruct H1|].
  unfold obj_numbers in Hinc. cbn [map fst increasing] in Hinc. destruct Hinc as [_ Hinc].
  pose proof (increasing_all _ _ Hinc) as Hall. rewrite Forall_forall in Hall.
  assert (Hgt : forall g o, In ((n, g), o) m -> i < n).
  { intros g o Hin. apply Hall. apply in_map_iff. exists ((n, g), o). split; [reflexivity | exact Hin]. }
  destruct H1 as [E1|H1], H2 as [E2|H2].
  - inversion E1; inversion E2; subst. reflexivity.
  - inversion E1; subst. pose proof (Hgt _ _ H2). lia.
  - inversion E2; subst. pose proof (Hgt _ _ H1). lia.
  - apply (IH i n g1 o1 g2 o2 Hinc H1 H2).
Qed.

Lemma insert_increasing : forall (m : objmap) lo n g o,
  increasing lo (obj_numbers m) -> lo < n -> (forall g' o', In ((n, g'), o') m -> g' = g) ->
  increasing lo (obj_numbers (insert m (n, g) o)).
Proof.
  induction m as [|[[i gi] oi] m IH]; intros lo n g o Hinc Hlo Huniq; cbn [insert].
  - cbn. split; [exact Hlo | exact I].
  - unfold obj_numbers in Hinc. cbn [map fst increasing] in Hinc. destruct Hinc as [Hi Hinc].
    destruct (oid_eqb (i, gi) (n, g)) eqn:E1.
    + apply oid_eqb_eq in E1. inversion E1; subst. unfold obj_numbers. cbn [map fst increasing]. split; assumption.
    + assert (Hne : i <> n).
      { intro E. subst i. rewrite (Huniq gi oi (or_introl eq_refl)) in E1. rewrite oid_eqb_refl in E1. discriminate. }
      destruct (oid_ltb (n, g) (i, gi)) eqn:E2.
      * unfold oid_ltb in E2. cbn [fst snd] in E2. apply orb_true_iff in E2 as [E2|E2].
        -- apply N.ltb_lt in E2. unfold obj_numbers. cbn [map fst increasing]. repeat split; assumption.
        -- apply andb_true_iff in E2 as [E2 _]. apply N.eqb_eq in E2. congruence.
      * unfold oid_ltb in E2. cbn [fst snd] in E2. apply orb_false_iff in E2 as [E2 _]. apply N.ltb_ge in E2.
        unfold obj_numbers. cbn [map fst increasing]. split; [exact Hi|].
        apply IH; [exact Hinc | lia |]. intros g' o' Hin. apply (Huniq g' o'). right. exact Hin.
Qed.

Lemma insert_forall (P : oid * obj -> Prop) : forall (m : objmap) id o, Forall P m -> P (id, o) -> Forall P (insert m id o).
Proof.
  induction m as [|[i oi] m IH]; intros id o H Hp; cbn [insert]; [constructor; auto|].
  inversion H; subst. destruct (oid_eqb i id) eqn:E.
  - apply oid_eqb_eq in E. subst. constructor; assumption.
  - destruct (oid_ltb id i); [constructor; [exact Hp | exact H] | constructor; [assumption | apply IH; assumption]].
Qed.

Lemma good_insert_gen lo M m id o : good lo M m ->
  (forall g' o', In ((fst id, g'), o') m -> g' = snd id) -> 0 < fst id -> okobj lo M (id, o) -> good lo M (insert m id o).
Proof.
  intros [Hinc Hall] Huniq Hpos Hok. destruct id as [n g]. cbn [fst snd] in *. split.
  - apply insert_increasing; assumption.
  - apply insert_forall; assumption.
Qed.

Lemma good_insert_fresh lo M m k o : good lo M m -> lo < k -> k <= M ->
  top_wf o -> skipped o = false -> (nest o <= MAX_DEPTH)%nat -> good lo M (insert m (k, 0) o).
Proof.
  intros G Hlo HkM Hw Hs Hn. apply good_insert_gen; [exact G | | cbn; lia |].
  - intros g' o' Hin. destruct G as [_ Hall]. rewrite Forall_forall in Hall.
    destruct (Hall _ Hin) as [_ [_ [_ [_ [_ H]]]]]. cbn [fst snd] in *. apply H. exact Hlo.
  - unfold okobj. cbn [fst snd]. repeat split; try assumption. unfold u16_max. lia.
Qed.

Lemma good_install lo M pm m : M <= u32_max -> pm_ok lo M pm -> good lo M m -> good lo M (install pm m).
Proof.
  intros HM Hpm G. induction Hpm as [|[k dd] pm [Hk Hd] _ IH]; [exact G|].
  cbn [install fold_right fst snd] in *. fold (install pm m).
  destruct (dok_top M dd HM Hd) as [Hw [Hs Hn]]. apply good_insert_fresh; try assumption; lia.
Qed.

Lemma good_mono lo M M' m : M <= M' -> good lo M m -> good lo M' m.
Proof.
  intros HM [H1 H2]. split; [exact H1|]. eapply Forall_impl; [|exact H2].
  intros io [A [B [C [D [E F]]]]]. unfold okobj. repeat split; try assumption. lia.
Qed.

(* ---------- the rest of the document, and the way back to C01's domain ---------- *)
Definition frame_ok (d : doc) : Prop :=
  binary_mark_ok (d_binary_mark d) = true /\ no_eol (d_version d) /\ utf8_decode (d_version d) <> None /\
  obj_wf (ODict (d_trailer d)) /\ dict_has (d_trailer d) Save.K_Prev = false /\ dict_has (d_trailer d) K_Encrypt = false /\
  (MAX_DEPTH <? Nat.max 2 (nest (ODict (d_trailer d))))%nat = false.

Lemma in_lookup : forall (m : objmap) id o, In (id, o) m -> exists o', lookup m id = Some o'.
Proof.
  induction m as [|[i oi] m IH]; intros id o H; [destruct H|]. cbn [lookup]. destruct (oid_eqb i id) eqn:E; [eauto|].
  destruct H as [H|H]; [inversion H; subst; rewrite oid_eqb_refl in E; discriminate | eapply IH; exact H].
Qed.

Lemma lookup_In : forall (m : objmap) id o, lookup m id = Some o -> In (id, o) m.
Proof.
  induction m as [|[i oi] m IH]; intros id o H; [discriminate|]. cbn [lookup] in H. destruct (oid_eqb i id) eqn:E.
  - apply oid_eqb_eq in E. inversion H; subst. left. reflexivity.
  - right. apply IH. exact H.
Qed.

Lemma savable_good d : savable d -> known_deep d = false -> max_id_bounds d ->
  frame_ok d /\ good (d_max_id d) (d_max_id d) (d_objects d).
Proof.
  intros S K Hb. unfold known_deep in K. apply orb_false_iff in K as [K1 K2]. split.
  - repeat split; try apply S; exact K2.
  - split; [apply (sd_numbers d S)|]. pose proof (sd_objects d S) as Ho. rewrite Forall_forall in *.
    intros [id o] Hin. destruct (Ho _ Hin) as [H1 [H2 H3]]. cbn [fst snd] in *.
    assert (Hid : fst id <= d_max_id d). { destruct (in_lookup _ _ _ Hin) as [o' Hl]. apply (Hb _ _ Hl). }
    unfold okobj. cbn [fst snd]. repeat split; try assumption.
    + destruct (MAX_DEPTH <? nest o)%nat eqn:E; [|apply Nat.ltb_ge in E; exact E].
      exfalso. assert (existsb (fun io => (MAX_DEPTH <? nest (snd io))%nat) (d_objects d) = true); [|congruence].
      apply existsb_exists. exists (id, o). split; [exact Hin | exact E].
    + lia.
Qed.

Lemma good_savable lo d : frame_ok d -> good lo (d_max_id d) (d_objects d) -> d_max_id d + 2 < u32_mod ->
  savable d /\ known_deep d = false.
Proof.
  intros [F1 [F2 [F3 [F4 [F5 [F6 F7]]]]]] [G1 G2] Hm.
  assert (Hlast : last_number (d_objects d) <= d_max_id d).
  { unfold last_number. apply fold_max_le; [lia|]. eapply Forall_impl; [|exact G2]. intros io [H _]. exact H. }
  split.
  - constructor; try assumption.
    + lia.
    + eapply Forall_impl; [|exact G2]. intros io [_ [A [B [C _]]]]. auto.
  - unfold known_deep. apply orb_false_iff. split; [|exact F7].
    apply not_true_is_false. intro E. apply existsb_exists in E as [io [Hin E]]. apply Nat.ltb_lt in E.
    rewrite Forall_forall in G2. destruct (G2 _ Hin) as [_ [_ [_ [_ [H _]]]]]. lia.
Qed.

(* ---------- build_outline ---------- *)
Theorem build_good fuel b r b' :
  build_outline fuel b = OOk (Some r, b') ->
  tbl_ok (bookmark_table b) -> in_i64 (Z.of_nat (length (bookmarks b))) = true ->
  let d := base b in let d1 := base b' in
  frame_ok d -> good (d_max_id d) (d_max_id d) (d_objects d) ->
  d_max_id d <= d_max_id d1 /\ d_max_id d1 <= u32_max /\ frame_ok d1 /\ good (d_max_id d) (d_max_id d1) (d_objects d1).
Proof.
  intros H Ht Hr d d1 Hf G. subst d d1. unfold build_outline in H.
  destruct (bookmarks b) as [|r0 rs] eqn:Eb; [discriminate|].
  destruct (outline_child fuel (bookmark_table b) (d_max_id (base b) + 1) (r0 :: rs) (d_max_id (base b) + 1) [])
    as [[[[first last] maxid] pm]| |] eqn:Ec; try discriminate.
  destruct (U32_LIMIT <=? maxid) eqn:El; [discriminate|]. apply N.leb_gt in El.
  inversion H; subst. clear H. cbn [base with_base set_objects d_max_id d_objects d_trailer d_version d_binary_mark].
  set (m0 := d_max_id (base b)) in *.
  assert (HM : maxid <= u32_max) by (unfold U32_LIMIT in El; unfold u32_max; lia).
  destruct (child_spec (bookmark_table b) m0 maxid Ht fuel _ _ _ _ _ _ _ _ Ec) as [Hle Hcond].
  destruct Hcond as [Hpm [Hfi Hla]]; [lia | lia | lia | constructor|].
  split; [lia|]. split; [exact HM|]. split; [exact Hf|].
  assert (Hout : dok maxid (dict_set (set_opt (set_opt [] K_First first) K_Last last) K_Count (OInt (Z.of_nat (length (r0 :: rs)))))).
  { apply dok_set; [apply dok_set_opt; [apply dok_set_opt; [apply dok_nil | inkeys | exact Hfi] | inkeys | exact Hla] | inkeys |].
    split; [constructor; exact Hr | cbn; lia]. }
  destruct (dok_top maxid _ HM Hout) as [Hw [Hs Hn]].
  apply good_insert_fresh; try assumption; try lia.
  apply good_install; [exact HM | exact Hpm |]. apply (good_mono m0 m0 maxid); [lia | exact G].
Qed.

(* ---------- the attach step ---------- *)
Lemma K_Type_neq_Outlines : K_Type <> K_Outlines.
Proof. apply bytes_eqb_neq. reflexivity. Qed.
Lemma K_Lin_neq_Outlines : K_Linearized <> K_Outlines.
Proof. apply bytes_eqb_neq. reflexivity. Qed.

Lemma attach_good lo d1 cid rid cat n :
  root_id d1 = Some cid -> get_object_mut_id (d_objects d1) cid = Some (rid, ODict cat) ->
  n <= u32_max -> frame_ok d1 -> good lo (d_max_id d1) (d_objects d1) ->
  let d2 := attach d1 cid (n, 0) in
  d_max_id d2 = d_max_id d1 /\ frame_ok d2 /\ good lo (d_max_id d2) (d_objects d2).
Proof.
  intros Hroot Hget Hn Hf G d2. destruct (attach_catalog d1 cid rid cat (n, 0) Hroot Hget) as [Hatt [_ Hrid]].
  subst d2. rewrite Hatt. cbn [set_objects d_max_id d_objects d_trailer d_version d_binary_mark].
  split; [reflexivity|]. split; [exact Hf|].
  pose proof G as [Hinc Hall]. apply lookup_In in Hrid. rewrite Forall_forall in Hall.
  destruct (Hall _ Hrid) as [A [B [C [D [E F]]]]]. cbn [fst snd] in *.
  apply good_insert_gen; [exact G | | |].
  - intros g' o' Hin. destruct rid as [rn rg]. cbn [fst snd] in *. apply (increasing_unique _ _ _ _ _ _ _ Hinc Hin Hrid).
  - pose proof (increasing_all _ _ Hinc) as Hpos. rewrite Forall_forall in Hpos. apply Hpos.
    apply in_map_iff. exists (rid, ODict cat). split; [reflexivity | exact Hrid].
  - unfold okobj. cbn [fst snd]. split; [exact A|]. split; [exact B|]. split; [|split; [|split; [|exact F]]].
    + cbn [top_wf] in *. inversion C as [| | | | | | |tr W Fa|]; subst. unfold cat_with. cbn [fst snd]. constructor.
      * apply dict_set_wf. exact W.
      * apply dict_set_forall; [exact Fa|]. cbn [snd]. constructor; [exact Hn | unfold u16_max; lia].
    + unfold skipped, type_name, get_type, dict_has, cat_with in *.
      rewrite !dict_get_set_other by (exact K_Type_neq_Outlines || exact K_Lin_neq_Outlines). exact D.
    + change (nest (ODict (cat_with cat (n, 0)))) with (S (nest_dict (cat_with cat (n, 0)))).
      change (nest (ODict cat)) with (S (nest_dict cat)) in E. pose proof two_le_max_depth.
      assert (nest_dict (cat_with cat (n, 0%N)) <= MAX_DEPTH - 1)%nat; [|lia].
      apply nest_dict_bound. unfold cat_with. apply dict_set_forall; [apply nest_dict_bound; lia | cbn; lia].
Qed.

(* ---------- Part 1, result: build_outline + attach stay in C01's domain ---------- *)
Theorem build_attach_savable fuel b r b' cid rid cat :
  build_outline fuel b = OOk (Some (r, 0), b') ->
  let d := base b in
  savable d -> known_deep d = false -> max_id_bounds d ->
  tbl_ok (bookmark_table b) -> in_i64 (Z.of_nat (length (bookmarks b))) = true ->
  root_id (base b') = Some cid -> get_object_mut_id (d_objects (base b')) cid = Some (rid, ODict cat) ->
  r <= d_max_id (base b') -> d_max_id (base b') + 2 < u32_mod ->
  let d2 := attach (base b') cid (r, 0) in
  savable d2 /\ known_deep d2 = false /\ d_max_id d2 = d_max_id (base b').
Proof.
  intros Hb d S K Hmax Ht Hr Hroot Hget Hrle Hm d2.
  destruct (savable_good d S K Hmax) as [Hf G].
  destruct (build_good fuel b (r, 0) b' Hb Ht Hr Hf G) as [Hle [HM [Hf1 G1]]].
  destruct (attach_good (d_max_id d) (base b') cid rid cat r Hroot Hget ltac:(lia) Hf1 G1) as [Hmx [Hf2 G2]].
  fold d2 in Hmx, Hf2, G2.
  destruct (good_savable (d_max_id d) d2 Hf2 G2) as [S2 K2]; [rewrite Hmx; exact Hm|].
  split; [exact S2|]. split; [exact K2 | exact Hmx].
Qed.

(* ====================================================================================================
   Part 2: build_outline, attach, save, load, get_toc
   ==================================================================================================== *)
Lemma isize_pos t : (1 <= isize t)%nat.
Proof. destruct t. cbn. lia. Qed.

Lemma length_le_fsize (f : list itree) : (length f <= fsize f)%nat.
Proof. induction f as [|t f IH]; [cbn; lia|]. unfold fsize in *. cbn [length fold_right]. pose proof (isize_pos t). lia. Qed.

Lemma in_i64_small n : N.of_nat n < u32_mod -> in_i64 (Z.of_nat n) = true.
Proof. intro H. unfold in_i64, i64_min, i64_max, u32_mod in *. apply andb_true_iff. split; apply Z.leb_le; lia. Qed.

(* everything the two read-back theorems need about the built document *)
Lemma built_facts b f cid rid cat fuel :
  bookmarks b = map iid f -> f <> [] -> Forall (trepr (bookmark_table b)) f ->
  let d := base b in let m0 := d_max_id d in
  max_id_bounds d -> m0 + 1 + 2 * N.of_nat (fsize f) + 2 < u32_mod ->
  root_id d = Some cid -> get_object_mut_id (d_objects d) cid = Some (rid, ODict cat) -> no_name_trees cat ->
  (fheight f <= fuel)%nat ->
  exists b' f',
    numbered (m0 + 1) f f' (m0 + 1 + 2 * N.of_nat (fsize f)) /\
    build_outline fuel b = OOk (Some (m0 + 1, 0), b') /\
    let d2 := attach (base b') cid (m0 + 1, 0) in
    holds_outline d2 (m0 + 1) f' /\
    d_trailer d2 = d_trailer d /\
    (savable d -> known_deep d = false -> tbl_ok (bookmark_table b) -> savable d2 /\ known_deep d2 = false) /\
    (forall pcat i g ks, catalog d = Some pcat -> dict_get pcat K_Pages = Some (ORef i g) -> tree_wf d (PNode (i, g) ks) ->
       exists pcat', catalog d2 = Some pcat' /\ dict_get pcat' K_Pages = Some (ORef i g) /\ tree_wf d2 (PNode (i, g) ks)).
Proof.
  intros Hroots Hne Htr d m0 Hmax Hlim Hroot Hcat Hnn Hfuel.
  assert (Hlim' : m0 + 1 + 2 * N.of_nat (fsize f) < U32_LIMIT) by (unfold U32_LIMIT, u32_mod in *; lia).
  destruct (build_holds b f cid rid cat fuel Hroots Hne Htr Hmax Hlim' Hroot Hcat Hnn Hfuel) as [b' [f' [Hn [Hbuild Hholds]]]].
  fold d m0 in Hn, Hbuild, Hholds.
  exists b', f'. split; [exact Hn|]. split; [exact Hbuild|]. intro d2. split; [exact Hholds|].
  destruct (final_objects b f cid rid cat fuel b' Hroots Hne Htr Hmax Hlim' Hroot Hcat Hfuel Hbuild)
    as [Htrailer [Hrid [Hrid2 Hkeep]]]. fold d m0 d2 in Htrailer, Hrid, Hrid2, Hkeep.
  split; [exact Htrailer|]. split.
  - intros S K Ht.
    destruct (build_outline_ok b f fuel Hroots Hne Htr Hfuel Hlim')
      as [f'' [b'' [_ [Hbuild' [Hmax' [Htr' [_ [Hframe _]]]]]]]].
    fold d m0 in Hbuild', Hmax', Htr', Hframe. rewrite Hbuild in Hbuild'. inversion Hbuild'; subst b''. clear Hbuild'.
    assert (Hext : extends (d_objects d) (d_objects (base b'))).
    { intros id o Hl. rewrite Hframe; [exact Hl|]. intros [Hc _]. apply Hmax in Hl. fold m0 in Hl. lia. }
    assert (Hroot1 : root_id (base b') = Some cid) by (unfold root_id in *; rewrite Htr'; exact Hroot).
    assert (Hcat1 : get_object_mut_id (d_objects (base b')) cid = Some (rid, ODict cat)).
    { unfold get_object_mut_id in *. destruct (lookup (d_objects d) cid) as [o|] eqn:E; [|discriminate].
      rewrite (Hext _ _ E). unfold dereference in *.
      destruct (deref_aux (d_objects d) (N.to_nat DEREF_LIMIT) None o) as [r|] eqn:D; [|discriminate].
      rewrite (deref_extends _ _ Hext _ _ _ _ D). exact Hcat. }
    assert (Hr : in_i64 (Z.of_nat (length (bookmarks b))) = true).
    { apply in_i64_small. rewrite Hroots, map_length. pose proof (length_le_fsize f). lia. }
    destruct (build_attach_savable fuel b (m0 + 1) b' cid rid cat Hbuild S K Hmax Ht Hr Hroot1 Hcat1) as [S2 [K2 _]];
      [rewrite Hmax'; lia | rewrite Hmax'; exact Hlim | split; assumption].
  - intros pcat i g ks Hpcat Hpages [Hrep Hnd].
    pose proof (sim_cat_with cat (m0 + 1, 0)) as Hsim.
    assert (Hcat2 : exists pcat', catalog d2 = Some pcat' /\ sim_dict pcat pcat').
    { unfold catalog in *. rewrite Htrailer. destruct (dict_get (d_trailer d) K_Root) as [[]|]; try discriminate.
      apply (get_dictionary_final _ _ rid cat _ Hkeep Hrid Hrid2 Hsim _ _ Hpcat). }
    destruct Hcat2 as [pcat' [Hpcat' Sm]]. exists pcat'. split; [exact Hpcat'|]. split.
    + rewrite (Sm K_Pages) by discriminate. exact Hpages.
    + split; [|exact Hnd]. apply (represents_final _ _ rid cat _ Hkeep Hrid Hrid2 Hsim). exact Hrep.
Qed.

Lemma root_ref d cid : root_id d = Some cid -> dict_get (d_trailer d) K_Root = Some (ORef (fst cid) (snd cid)).
Proof. unfold root_id. destruct (dict_get (d_trailer d) K_Root) as [[]|]; try discriminate. intro H. inversion H. reflexivity. Qed.

(* TABLE format: no hypothesis on the page tree *)
Theorem reads_back_after_save_load_table b f cid rid cat fuel fuel2 :
  bookmarks b = map iid f -> f <> [] -> Forall (trepr (bookmark_table b)) f ->
  let d := base b in let m0 := d_max_id d in
  max_id_bounds d -> m0 + 1 + 2 * N.of_nat (fsize f) + 2 < u32_mod ->
  root_id d = Some cid -> get_object_mut_id (d_objects d) cid = Some (rid, ODict cat) -> no_name_trees cat ->
  distinct_titles f -> scalar_titles f -> N.of_nat (fheight f) <= OUTLINE_DEPTH_LIMIT + 1 ->
  (fheight f <= fuel)%nat -> (fsize f <= fuel2)%nat ->
  savable d -> known_deep d = false -> tbl_ok (bookmark_table b) ->
  exists b',
    build_outline fuel b = OOk (Some (m0 + 1, 0), b') /\
    let d2 := attach (base b') cid (m0 + 1, 0) in
    savable d2 /\ known_deep d2 = false /\
    (small_file XTable d2 -> targets_are_pages d2 f ->
     exists d', load (so_bytes (save XTable d2)) = LOk d' XTTable /\
                get_pages d' = get_pages d2 /\ get_toc fuel2 d' = TOk (expected_toc d2 f) 0).
Proof.
  intros Hroots Hne Htr d m0 Hmax Hlim Hroot Hcat Hnn Hdist Hscal Hdeep Hfuel Hfuel2 S K Ht.
  destruct (built_facts b f cid rid cat fuel Hroots Hne Htr Hmax Hlim Hroot Hcat Hnn Hfuel)
    as [b' [f' [Hn [Hbuild Hrest]]]]. fold d m0 in Hn, Hbuild, Hrest.
  exists b'. split; [exact Hbuild|]. intro d2. cbv zeta in Hrest. fold d2 in Hrest.
  destruct Hrest as [Hholds [Htrailer [Hsav _]]]. destruct (Hsav S K Ht) as [S2 K2].
  split; [exact S2|]. split; [exact K2|]. intros Hsmall Htargets.
  exists (reloaded XTable d2). split; [apply (load_save_one XTable d2 S2 K2 Hsmall)|].
  assert (C1 : dict_get (d_trailer (reloaded XTable d2)) K_Root = dict_get (d_trailer d2) K_Root).
  { apply (reloaded_root XTable d2 (fst cid) (snd cid) S2). rewrite Htrailer. apply root_ref. exact Hroot. }
  assert (C2 : forall id, lookup (d_objects (reloaded XTable d2)) id = option_map (nn norm_real) (lookup (d_objects d2) id)).
  { intro id. apply (reloaded_table_lookup d2 S2). }
  pose proof (reloaded_table_length d2 S2) as C3.
  pose proof (get_pages_reload norm_real norm_real_num d2 _ C1 C2 C3) as Hpages.
  split; [exact Hpages|].
  destruct (numbered_conditions _ _ _ _ fuel2 Hn Hdist Hscal Hdeep Hfuel2) as [Hrows [K1 [K2' K3]]].
  unfold expected_toc. rewrite <- Hrows, <- Hpages.
  apply (toc_of_holds _ (m0 + 1) f' fuel2 (holds_reload norm_real norm_real_num d2 _ C1 C2 C3 _ _ Hholds) K1 K2' K3).
  rewrite Hpages, Hrows. apply rows_ok; assumption.
Qed.

(* EITHER format, page trees meeting C12's hypotheses: page numbers of the ORIGINAL document *)
Theorem reads_back_after_save_load b f cid rid cat fuel fuel2 xt pcat i g ks :
  bookmarks b = map iid f -> f <> [] -> Forall (trepr (bookmark_table b)) f ->
  let d := base b in let m0 := d_max_id d in
  max_id_bounds d -> m0 + 1 + 2 * N.of_nat (fsize f) + 2 < u32_mod ->
  root_id d = Some cid -> get_object_mut_id (d_objects d) cid = Some (rid, ODict cat) -> no_name_trees cat ->
  distinct_titles f -> scalar_titles f -> N.of_nat (fheight f) <= OUTLINE_DEPTH_LIMIT + 1 ->
  (fheight f <= fuel)%nat -> (fsize f <= fuel2)%nat ->
  savable d -> known_deep d = false -> tbl_ok (bookmark_table b) ->
  catalog d = Some pcat -> dict_get pcat K_Pages = Some (ORef i g) ->
  tree_wf d (PNode (i, g) ks) -> (N.of_nat (height (PNode (i, g) ks)) <= PAGE_TREE_DEPTH_LIMIT + 1)%N ->
  exists b',
    build_outline fuel b = OOk (Some (m0 + 1, 0), b') /\
    let d2 := attach (base b') cid (m0 + 1, 0) in
    savable d2 /\ known_deep d2 = false /\
    (small_file xt d2 -> targets_are_pages d f ->
     exists d', load (so_bytes (save xt d2)) = LOk d' (xtype_of xt) /\
                get_pages d' = get_pages d /\ get_toc fuel2 d' = TOk (expected_toc d f) 0).
Proof.
  intros Hroots Hne Htr d m0 Hmax Hlim Hroot Hcat Hnn Hdist Hscal Hdeep Hfuel Hfuel2 S K Ht Hpcat Hpg Hwf Hh.
  destruct (built_facts b f cid rid cat fuel Hroots Hne Htr Hmax Hlim Hroot Hcat Hnn Hfuel)
    as [b' [f' [Hn [Hbuild Hrest]]]]. fold d m0 in Hn, Hbuild, Hrest.
  exists b'. split; [exact Hbuild|]. intro d2. cbv zeta in Hrest. fold d2 in Hrest.
  destruct Hrest as [Hholds [Htrailer [Hsav Htree]]]. destruct (Hsav S K Ht) as [S2 K2].
  split; [exact S2|]. split; [exact K2|]. intros Hsmall Htargets.
  destruct (Htree pcat i g ks Hpcat Hpg Hwf) as [pcat' [Hpcat' [Hpg' Hwf']]].
  set (d' := reloaded xt d2).
  exists d'. split; [apply (load_save_one xt d2 S2 K2 Hsmall)|].
  assert (C1 : dict_get (d_trailer d') K_Root = dict_get (d_trailer d2) K_Root).
  { apply (reloaded_root xt d2 (fst cid) (snd cid) S2). rewrite Htrailer. apply root_ref. exact Hroot. }
  (* pages: C12 on the three documents *)
  assert (P0 : page_iter d = leaves (PNode (i, g) ks)) by (apply (page_iter_dfs d pcat i g ks); assumption).
  destruct (page_iter_after_reload xt d2 pcat' i g ks S2 Hpcat' Hpg' Hwf' Hh) as [_ P2]. fold d' in P2.
  assert (Hpages : get_pages d' = get_pages d) by (unfold get_pages; rewrite P2, P0; reflexivity).
  split; [exact Hpages|].
  destruct (numbered_conditions _ _ _ _ fuel2 Hn Hdist Hscal Hdeep Hfuel2) as [Hrows [K1 [K2' K3]]].
  unfold expected_toc. rewrite <- Hrows, <- Hpages.
  assert (Hh' : holds_outline d' (m0 + 1) f').
  { apply (holds_fwd d2 d' (reloaded_lookup_fwd xt d2 S2) C1 (reloaded_length_le xt d2 S2)). exact Hholds. }
  apply (toc_of_holds d' (m0 + 1) f' fuel2 Hh' K1 K2' K3).
  rewrite Hpages, Hrows. apply rows_ok; assumption.
Qed.

(* ====================================================================================================
   Part 3: the same over add_bookmark calls (the shape of C17_reads_back)
   ==================================================================================================== *)
From LV Require Import Proofs.OutlineProofsProps.

(* what the Rust types of Bookmark::new's arguments guarantee: three finite f32 (their Display text), a u32, an ObjectId *)
Definition op_ok (o : bop) : Prop :=
  real_wf (fst (fst (op_color o))) /\ real_wf (snd (fst (op_color o))) /\ real_wf (snd (op_color o)) /\
  op_format o < u32_mod /\ fst (op_page o) <= u32_max /\ snd (op_page o) <= u16_max.

Lemma index_from_surj {A} : forall (l : list A) s i, s <= i < s + N.of_nat (length l) ->
  exists x, In (i, x) (index_from s l) /\ In x l.
Proof.
  induction l as [|y l IH]; intros s i H; cbn [length] in H; [lia|]. cbn [index_from].
  destruct (N.eq_dec i s) as [->|Hne].
  - exists y. split; left; reflexivity.
  - destruct (IH (s + 1) i) as [x [H1 H2]]; [lia|]. exists x. split; right; assumption.
Qed.

Lemma index_from_length {A} : forall (l : list A) s, length (index_from s l) = length l.
Proof. induction l as [|y l IH]; intro s; [reflexivity|]. cbn [index_from length]. rewrite IH. reflexivity. Qed.

Lemma filter_length_le' {A} (p : A -> bool) : forall l, (length (filter p l) <= length l)%nat.
Proof. induction l as [|x l IH]; [cbn; lia|]. cbn [filter]. destruct (p x); cbn [length]; lia. Qed.

Lemma add_all_tbl_ok d ops : Forall op_ok ops -> N.of_nat (length ops) < u32_mod ->
  tbl_ok (bookmark_table (add_all (fresh_bdoc d) ops)).
Proof.
  intros Hops Hlen i bm Hg. pose proof (add_all_inv d ops) as I.
  assert (Hi : 1 <= i < 1 + N.of_nat (length (map sop_of ops))).
  { rewrite map_length. destruct (N.eq_dec i 0) as [->|H0].
    - rewrite (inv_none _ _ _ I 0) in Hg by (left; reflexivity). discriminate.
    - destruct (N.lt_ge_cases (N.of_nat (length ops)) i) as [Hgt|Hle]; [|lia].
      rewrite (inv_none _ _ _ I i) in Hg by (right; exact Hgt). discriminate. }
  destruct (index_from_surj (map sop_of ops) 1 i Hi) as [s [Hin Hs]].
  apply in_map_iff in Hs as [o [<- Ho]]. rewrite Forall_forall in Hops. destruct (Hops o Ho) as [C0 [C1 [C2 [Hf [P1 P2]]]]].
  destruct (inv_tbl _ _ _ I i _ Hin) as [bm' [Hg' [_ [E2 [E3 [E4 E5]]]]]]. rewrite Hg in Hg'. inversion Hg'; subst bm'.
  unfold bm_ok. rewrite E2, E3, E4, E5. cbn [sop_of bdata_of fst b_format b_color b_page].
  repeat split; try assumption.
  - unfold in_i64, i64_min, i64_max, u32_mod in *. apply andb_true_iff. split; apply Z.leb_le; lia.
  - apply in_i64_small. rewrite map_length.
    pose proof (filter_length_le' (is_child_of i) (index_from 1 (map sop_of ops))) as Hle.
    rewrite index_from_length, map_length in Hle. lia.
Qed.

Theorem reads_back_ops_after_save_load_table d ops cid rid cat fuel2 :
  let b := add_all (fresh_bdoc d) ops in
  let f := forest_of_ops (map sop_of ops) in
  let m0 := d_max_id d in
  f <> [] -> max_id_bounds d -> m0 + 1 + 2 * N.of_nat (fsize f) + 2 < u32_mod ->
  root_id d = Some cid -> get_object_mut_id (d_objects d) cid = Some (rid, ODict cat) -> no_name_trees cat ->
  distinct_titles f -> scalar_titles f -> too_deep f = false -> (fsize f <= fuel2)%nat ->
  savable d -> known_deep d = false -> Forall op_ok ops -> N.of_nat (length ops) < u32_mod ->
  exists b',
    build_outline (default_fuel b) b = OOk (Some (m0 + 1, 0), b') /\
    let d2 := attach (base b') cid (m0 + 1, 0) in
    savable d2 /\ known_deep d2 = false /\
    (small_file XTable d2 -> targets_are_pages d2 f ->
     exists d', load (so_bytes (save XTable d2)) = LOk d' XTTable /\
                get_pages d' = get_pages d2 /\ get_toc fuel2 d' = TOk (expected_toc d2 f) 0).
Proof.
  intros b f m0 Hne Hmax Hlim Hroot Hcat Hnn Hdist Hscal Hdeep Hfuel2 S K Hops Hlen.
  destruct (add_all_repr d ops) as [Hbase [Hroots [Htr Hdf]]]. fold b f in Hbase, Hroots, Htr, Hdf.
  pose proof (reads_back_after_save_load_table b f cid rid cat (default_fuel b) fuel2 Hroots Hne Htr) as H.
  cbv zeta in H. rewrite Hbase in H. fold m0 in H.
  apply H; try assumption.
  - apply N.ltb_ge. exact Hdeep.
  - rewrite Hdf. apply forest_height.
  - apply add_all_tbl_ok; assumption.
Qed.

Theorem reads_back_ops_after_save_load d ops cid rid cat fuel2 xt pcat i g ks :
  let b := add_all (fresh_bdoc d) ops in
  let f := forest_of_ops (map sop_of ops) in
  let m0 := d_max_id d in
  f <> [] -> max_id_bounds d -> m0 + 1 + 2 * N.of_nat (fsize f) + 2 < u32_mod ->
  root_id d = Some cid -> get_object_mut_id (d_objects d) cid = Some (rid, ODict cat) -> no_name_trees cat ->
  distinct_titles f -> scalar_titles f -> too_deep f = false -> (fsize f <= fuel2)%nat ->
  savable d -> known_deep d = false -> Forall op_ok ops -> N.of_nat (length ops) < u32_mod ->
  catalog d = Some pcat -> dict_get pcat K_Pages = Some (ORef i g) ->
  tree_wf d (PNode (i, g) ks) -> (N.of_nat (height (PNode (i, g) ks)) <= PAGE_TREE_DEPTH_LIMIT + 1)%N ->
  exists b',
    build_outline (default_fuel b) b = OOk (Some (m0 + 1, 0), b') /\
    let d2 := attach (base b') cid (m0 + 1, 0) in
    savable d2 /\ known_deep d2 = false /\
    (small_file xt d2 -> targets_are_pages d f ->
     exists d', load (so_bytes (save xt d2)) = LOk d' (xtype_of xt) /\
                get_pages d' = get_pages d /\ get_toc fuel2 d' = TOk (expected_toc d f) 0).
Proof.
  intros b f m0 Hne Hmax Hlim Hroot Hcat Hnn Hdist Hscal Hdeep Hfuel2 S K Hops Hlen Hpcat Hpg Hwf Hh.
  destruct (add_all_repr d ops) as [Hbase [Hroots [Htr Hdf]]]. fold b f in Hbase, Hroots, Htr, Hdf.
  pose proof (reads_back_after_save_load b f cid rid cat (default_fuel b) fuel2 xt pcat i g ks Hroots Hne Htr) as H.
  cbv zeta in H. rewrite Hbase in H. fold m0 in H.
  apply H; try assumption.
  - apply N.ltb_ge. exact Hdeep.
  - rewrite Hdf. apply forest_height.
  - apply add_all_tbl_ok; assumption.
Qed.

(* ---------- non-vacuity: C17's example document and calls meet the additional hypotheses, in both formats ---------- *)
Lemma ex_savable : savable ex_doc.
Proof.
  constructor; cbn [ex_doc d_version d_binary_mark d_trailer d_objects d_max_id].
  - vm_compute. reflexivity.
  - reflexivity.
  - reflexivity.
  - vm_compute. discriminate.
  - cbn [obj_numbers map fst increasing]. repeat split; reflexivity.
  - repeat (apply Forall_cons; [cbn [fst snd]; split; [vm_compute; discriminate|]; split; [|reflexivity];
      cbn [top_wf ex_cat]; repeat (constructor; cbn; try (intuition discriminate)) |]); try apply Forall_nil.
    all: try (vm_compute; discriminate).
  - constructor; [repeat constructor; cbn; intuition discriminate|].
    constructor; [|constructor]. cbn [snd]. constructor; vm_compute; discriminate.
  - reflexivity.
  - reflexivity.
Qed.

Lemma real_wf_zero : real_wf (bs "0").
Proof. exists false, [x30], []. repeat split; try reflexivity. discriminate. Qed.

Theorem ex_after_save_load :
  savable ex_doc /\ known_deep ex_doc = false /\ Forall op_ok ex_ops /\ N.of_nat (length ex_ops) < u32_mod /\
  d_max_id ex_doc + 1 + 2 * N.of_nat (fsize ex_forest) + 2 < u32_mod /\
  small_file XTable ex_final /\ small_file XStream ex_final /\
  targets_are_pages ex_final ex_forest /\
  get_toc 4 (reloaded XTable ex_final) = TOk ex_toc 0 /\
  get_toc 4 (reloaded XStream ex_final) = TOk ex_toc 0 /\
  length (d_objects (reloaded XStream ex_final)) = S (length (d_objects ex_final)).
Proof.
  split; [exact ex_savable|]. split; [vm_compute; reflexivity|]. split.
  - repeat (apply Forall_cons; [unfold op_ok; cbn [op_color op_format op_page no_color fst snd];
      repeat split; try exact real_wf_zero; vm_compute; try reflexivity; discriminate|]). apply Forall_nil.
  - split; [vm_compute; reflexivity|]. split; [vm_compute; reflexivity|].
    split; [vm_compute; reflexivity|]. split; [vm_compute; reflexivity|].
    split; [apply ex_hyps|]. split; [vm_compute; reflexivity|]. split; vm_compute; reflexivity.
Qed.

(* ====================================================================================================
   Part 4: the same over the complete model of get_toc (Model/TocNamed.v: get_named_destinations is run first),
           for ANY catalog.  Whether the name tree is readable is decided on the document that is read:
           * table format: the loaded objects are the saved ones up to number normalisation and equally many, so
             get_named_destinations takes the same path ([readable_reload]) -- the statement is about d2 only;
           * stream format: the loaded document holds one object more (a larger kid budget, and a reference that
             dangled before may now resolve), so the condition is stated on the loaded document.
   ==================================================================================================== *)
From LV Require Model.TocNamed Proofs.OutlineProofsNamed.

Lemma built_facts_any b f cid rid cat fuel :
  bookmarks b = map iid f -> f <> [] -> Forall (trepr (bookmark_table b)) f ->
  let d := base b in let m0 := d_max_id d in
  max_id_bounds d -> m0 + 1 + 2 * N.of_nat (fsize f) + 2 < u32_mod ->
  root_id d = Some cid -> get_object_mut_id (d_objects d) cid = Some (rid, ODict cat) ->
  (fheight f <= fuel)%nat ->
  exists b' f',
    numbered (m0 + 1) f f' (m0 + 1 + 2 * N.of_nat (fsize f)) /\
    build_outline fuel b = OOk (Some (m0 + 1, 0), b') /\
    let d2 := attach (base b') cid (m0 + 1, 0) in
    holds_any d2 (m0 + 1) f' /\
    d_trailer d2 = d_trailer d /\
    (savable d -> known_deep d = false -> tbl_ok (bookmark_table b) -> savable d2 /\ known_deep d2 = false) /\
    (forall pcat i g ks, catalog d = Some pcat -> dict_get pcat K_Pages = Some (ORef i g) -> tree_wf d (PNode (i, g) ks) ->
       exists pcat', catalog d2 = Some pcat' /\ dict_get pcat' K_Pages = Some (ORef i g) /\ tree_wf d2 (PNode (i, g) ks)).
Proof.
  intros Hroots Hne Htr d m0 Hmax Hlim Hroot Hcat Hfuel.
  assert (Hlim' : m0 + 1 + 2 * N.of_nat (fsize f) < U32_LIMIT) by (unfold U32_LIMIT, u32_mod in *; lia).
  destruct (build_holds_any b f cid rid cat fuel Hroots Hne Htr Hmax Hlim' Hroot Hcat Hfuel) as [b' [f' [Hn [Hbuild [Hholds _]]]]].
  fold d m0 in Hn, Hbuild, Hholds.
  exists b', f'. split; [exact Hn|]. split; [exact Hbuild|]. intro d2. split; [exact Hholds|].
  destruct (final_objects b f cid rid cat fuel b' Hroots Hne Htr Hmax Hlim' Hroot Hcat Hfuel Hbuild)
    as [Htrailer [Hrid [Hrid2 Hkeep]]]. fold d m0 d2 in Htrailer, Hrid, Hrid2, Hkeep.
  split; [exact Htrailer|]. split.
  - intros S K Ht.
    destruct (build_outline_ok b f fuel Hroots Hne Htr Hfuel Hlim')
      as [f'' [b'' [_ [Hbuild' [Hmax' [Htr' [_ [Hframe _]]]]]]]].
    fold d m0 in Hbuild', Hmax', Htr', Hframe. rewrite Hbuild in Hbuild'. inversion Hbuild'; subst b''. clear Hbuild'.
    assert (Hext : extends (d_objects d) (d_objects (base b'))).
    { intros id o Hl. rewrite Hframe; [exact Hl|]. intros [Hc _]. apply Hmax in Hl. fold m0 in Hl. lia. }
    assert (Hroot1 : root_id (base b') = Some cid) by (unfold root_id in *; rewrite Htr'; exact Hroot).
    assert (Hcat1 : get_object_mut_id (d_objects (base b')) cid = Some (rid, ODict cat)).
    { unfold get_object_mut_id in *. destruct (lookup (d_objects d) cid) as [o|] eqn:E; [|discriminate].
      rewrite (Hext _ _ E). unfold dereference in *.
      destruct (deref_aux (d_objects d) (N.to_nat DEREF_LIMIT) None o) as [r|] eqn:D; [|discriminate].
      rewrite (deref_extends _ _ Hext _ _ _ _ D). exact Hcat. }
    assert (Hr : in_i64 (Z.of_nat (length (bookmarks b))) = true).
    { apply in_i64_small. rewrite Hroots, map_length. pose proof (length_le_fsize f). lia. }
    destruct (build_attach_savable fuel b (m0 + 1) b' cid rid cat Hbuild S K Hmax Ht Hr Hroot1 Hcat1) as [S2 [K2 _]];
      [rewrite Hmax'; lia | rewrite Hmax'; exact Hlim | split; assumption].
  - intros pcat i g ks Hpcat Hpages [Hrep Hnd].
    pose proof (sim_cat_with cat (m0 + 1, 0)) as Hsim.
    assert (Hcat2 : exists pcat', catalog d2 = Some pcat' /\ sim_dict pcat pcat').
    { unfold catalog in *. rewrite Htrailer. destruct (dict_get (d_trailer d) K_Root) as [[]|]; try discriminate.
      apply (get_dictionary_final _ _ rid cat _ Hkeep Hrid Hrid2 Hsim _ _ Hpcat). }
    destruct Hcat2 as [pcat' [Hpcat' Sm]]. exists pcat'. split; [exact Hpcat'|]. split.
    + rewrite (Sm K_Pages) by discriminate. exact Hpages.
    + split; [|exact Hnd]. apply (represents_final _ _ rid cat _ Hkeep Hrid Hrid2 Hsim). exact Hrep.
Qed.

(* the forward simulation of Proofs/ComposeReload.v for [holds_any] *)
Lemma holds_any_fwd d d' r f :
  (forall id o, lookup (d_objects d) id = Some o -> lookup (d_objects d') id = Some (norm_obj o)) ->
  dict_get (d_trailer d') K_Root = dict_get (d_trailer d) K_Root ->
  (length (d_objects d) <= length (d_objects d'))%nat ->
  holds_any d r f -> holds_any d' r f.
Proof.
  intros fwd root count [cat [H1 [H2 [H4 [H5 H6]]]]]. exists (norm_dict cat).
  split; [apply (catalog_fwd d d' fwd root); exact H1|].
  split; [rewrite dict_get_norm, H2; reflexivity|].
  split; [apply (outline_ok_fwd _ _ fwd); exact H4|].
  split; [exact H5 | lia].
Qed.

(* TABLE format, ANY catalog, no hypothesis on the page tree *)
Theorem reads_back_after_save_load_table_nm b f cid rid cat fuel fuel2 :
  bookmarks b = map iid f -> f <> [] -> Forall (trepr (bookmark_table b)) f ->
  let d := base b in let m0 := d_max_id d in
  max_id_bounds d -> m0 + 1 + 2 * N.of_nat (fsize f) + 2 < u32_mod ->
  root_id d = Some cid -> get_object_mut_id (d_objects d) cid = Some (rid, ODict cat) ->
  distinct_titles f -> scalar_titles f -> N.of_nat (fheight f) <= OUTLINE_DEPTH_LIMIT + 1 ->
  (fheight f <= fuel)%nat -> (fsize f <= fuel2)%nat ->
  savable d -> known_deep d = false -> tbl_ok (bookmark_table b) ->
  exists b',
    build_outline fuel b = OOk (Some (m0 + 1, 0), b') /\
    let d2 := attach (base b') cid (m0 + 1, 0) in
    savable d2 /\ known_deep d2 = false /\
    (small_file XTable d2 -> targets_are_pages d2 f ->
     exists d', load (so_bytes (save XTable d2)) = LOk d' XTTable /\
                get_pages d' = get_pages d2 /\
                TocNamed.name_tree_readable d' = TocNamed.name_tree_readable d2 /\
                TocNamed.get_toc fuel2 d' = OutlineProofsNamed.toc_or_err d2 f).
Proof.
  intros Hroots Hne Htr d m0 Hmax Hlim Hroot Hcat Hdist Hscal Hdeep Hfuel Hfuel2 S K Ht.
  destruct (built_facts_any b f cid rid cat fuel Hroots Hne Htr Hmax Hlim Hroot Hcat Hfuel)
    as [b' [f' [Hn [Hbuild Hrest]]]]. fold d m0 in Hn, Hbuild, Hrest.
  exists b'. split; [exact Hbuild|]. intro d2. cbv zeta in Hrest. fold d2 in Hrest.
  destruct Hrest as [Hholds [Htrailer [Hsav _]]]. destruct (Hsav S K Ht) as [S2 K2].
  split; [exact S2|]. split; [exact K2|]. intros Hsmall Htargets.
  exists (reloaded XTable d2). split; [apply (load_save_one XTable d2 S2 K2 Hsmall)|].
  assert (C1 : dict_get (d_trailer (reloaded XTable d2)) K_Root = dict_get (d_trailer d2) K_Root).
  { apply (reloaded_root XTable d2 (fst cid) (snd cid) S2). rewrite Htrailer. apply root_ref. exact Hroot. }
  assert (C2 : forall id, lookup (d_objects (reloaded XTable d2)) id = option_map (nn norm_real) (lookup (d_objects d2) id)).
  { intro id. apply (reloaded_table_lookup d2 S2). }
  pose proof (reloaded_table_length d2 S2) as C3.
  pose proof (get_pages_reload norm_real norm_real_num d2 _ C1 C2 C3) as Hpages.
  pose proof (readable_reload norm_real norm_real_num d2 _ C1 C2 C3) as Hread.
  split; [exact Hpages|]. split; [exact Hread|].
  destruct (numbered_conditions _ _ _ _ fuel2 Hn Hdist Hscal Hdeep Hfuel2) as [Hrows [K1 [K2' K3]]].
  unfold OutlineProofsNamed.toc_or_err, expected_toc. rewrite <- Hread, <- Hrows, <- Hpages.
  apply (OutlineProofsNamed.toc_of_holds_any _ (m0 + 1) f' fuel2
           (holds_any_reload norm_real norm_real_num d2 _ C1 C2 C3 _ _ Hholds) K1 K2' K3).
  rewrite Hpages, Hrows. apply rows_ok; assumption.
Qed.

(* EITHER format, ANY catalog, page trees meeting C12's hypotheses: page numbers of the ORIGINAL document *)
Theorem reads_back_after_save_load_nm b f cid rid cat fuel fuel2 xt pcat i g ks :
  bookmarks b = map iid f -> f <> [] -> Forall (trepr (bookmark_table b)) f ->
  let d := base b in let m0 := d_max_id d in
  max_id_bounds d -> m0 + 1 + 2 * N.of_nat (fsize f) + 2 < u32_mod ->
  root_id d = Some cid -> get_object_mut_id (d_objects d) cid = Some (rid, ODict cat) ->
  distinct_titles f -> scalar_titles f -> N.of_nat (fheight f) <= OUTLINE_DEPTH_LIMIT + 1 ->
  (fheight f <= fuel)%nat -> (fsize f <= fuel2)%nat ->
  savable d -> known_deep d = false -> tbl_ok (bookmark_table b) ->
  catalog d = Some pcat -> dict_get pcat K_Pages = Some (ORef i g) ->
  tree_wf d (PNode (i, g) ks) -> (N.of_nat (height (PNode (i, g) ks)) <= PAGE_TREE_DEPTH_LIMIT + 1)%N ->
  exists b',
    build_outline fuel b = OOk (Some (m0 + 1, 0), b') /\
    let d2 := attach (base b') cid (m0 + 1, 0) in
    savable d2 /\ known_deep d2 = false /\
    (small_file xt d2 -> targets_are_pages d f ->
     exists d', load (so_bytes (save xt d2)) = LOk d' (xtype_of xt) /\
                get_pages d' = get_pages d /\
                TocNamed.get_toc fuel2 d' = if TocNamed.name_tree_readable d' then TOk (expected_toc d f) 0 else TErr).
Proof.
  intros Hroots Hne Htr d m0 Hmax Hlim Hroot Hcat Hdist Hscal Hdeep Hfuel Hfuel2 S K Ht Hpcat Hpg Hwf Hh.
  destruct (built_facts_any b f cid rid cat fuel Hroots Hne Htr Hmax Hlim Hroot Hcat Hfuel)
    as [b' [f' [Hn [Hbuild Hrest]]]]. fold d m0 in Hn, Hbuild, Hrest.
  exists b'. split; [exact Hbuild|]. intro d2. cbv zeta in Hrest. fold d2 in Hrest.
  destruct Hrest as [Hholds [Htrailer [Hsav Htree]]]. destruct (Hsav S K Ht) as [S2 K2].
  split; [exact S2|]. split; [exact K2|]. intros Hsmall Htargets.
  destruct (Htree pcat i g ks Hpcat Hpg Hwf) as [pcat' [Hpcat' [Hpg' Hwf']]].
  set (d' := reloaded xt d2).
  exists d'. split; [apply (load_save_one xt d2 S2 K2 Hsmall)|].
  assert (C1 : dict_get (d_trailer d') K_Root = dict_get (d_trailer d2) K_Root).
  { apply (reloaded_root xt d2 (fst cid) (snd cid) S2). rewrite Htrailer. apply root_ref. exact Hroot. }
  assert (P0 : page_iter d = leaves (PNode (i, g) ks)) by (apply (page_iter_dfs d pcat i g ks); assumption).
  destruct (page_iter_after_reload xt d2 pcat' i g ks S2 Hpcat' Hpg' Hwf' Hh) as [_ P2]. fold d' in P2.
  assert (Hpages : get_pages d' = get_pages d) by (unfold get_pages; rewrite P2, P0; reflexivity).
  split; [exact Hpages|].
  destruct (numbered_conditions _ _ _ _ fuel2 Hn Hdist Hscal Hdeep Hfuel2) as [Hrows [K1 [K2' K3]]].
  unfold expected_toc. rewrite <- Hrows, <- Hpages.
  assert (Hh' : holds_any d' (m0 + 1) f').
  { apply (holds_any_fwd d2 d' _ _ (reloaded_lookup_fwd xt d2 S2) C1 (reloaded_length_le xt d2 S2)). exact Hholds. }
  apply (OutlineProofsNamed.toc_of_holds_any d' (m0 + 1) f' fuel2 Hh' K1 K2' K3).
  rewrite Hpages, Hrows. apply rows_ok; assumption.
Qed.

(* ---------- over add_bookmark calls ---------- *)
Theorem reads_back_ops_after_save_load_table_nm d ops cid rid cat fuel2 :
  let b := add_all (fresh_bdoc d) ops in
  let f := forest_of_ops (map sop_of ops) in
  let m0 := d_max_id d in
  f <> [] -> max_id_bounds d -> m0 + 1 + 2 * N.of_nat (fsize f) + 2 < u32_mod ->
  root_id d = Some cid -> get_object_mut_id (d_objects d) cid = Some (rid, ODict cat) ->
  distinct_titles f -> scalar_titles f -> too_deep f = false -> (fsize f <= fuel2)%nat ->
  savable d -> known_deep d = false -> Forall op_ok ops -> N.of_nat (length ops) < u32_mod ->
  exists b',
    build_outline (default_fuel b) b = OOk (Some (m0 + 1, 0), b') /\
    let d2 := attach (base b') cid (m0 + 1, 0) in
    savable d2 /\ known_deep d2 = false /\
    (small_file XTable d2 -> targets_are_pages d2 f ->
     exists d', load (so_bytes (save XTable d2)) = LOk d' XTTable /\
                get_pages d' = get_pages d2 /\
                TocNamed.name_tree_readable d' = TocNamed.name_tree_readable d2 /\
                TocNamed.get_toc fuel2 d' = OutlineProofsNamed.toc_or_err d2 f).
Proof.
  intros b f m0 Hne Hmax Hlim Hroot Hcat Hdist Hscal Hdeep Hfuel2 S K Hops Hlen.
  destruct (add_all_repr d ops) as [Hbase [Hroots [Htr Hdf]]]. fold b f in Hbase, Hroots, Htr, Hdf.
  pose proof (reads_back_after_save_load_table_nm b f cid rid cat (default_fuel b) fuel2 Hroots Hne Htr) as H.
  cbv zeta in H. rewrite Hbase in H. fold m0 in H.
  apply H; try assumption.
  - apply N.ltb_ge. exact Hdeep.
  - rewrite Hdf. apply forest_height.
  - apply add_all_tbl_ok; assumption.
Qed.

Theorem reads_back_ops_after_save_load_nm d ops cid rid cat fuel2 xt pcat i g ks :
  let b := add_all (fresh_bdoc d) ops in
  let f := forest_of_ops (map sop_of ops) in
  let m0 := d_max_id d in
  f <> [] -> max_id_bounds d -> m0 + 1 + 2 * N.of_nat (fsize f) + 2 < u32_mod ->
  root_id d = Some cid -> get_object_mut_id (d_objects d) cid = Some (rid, ODict cat) ->
  distinct_titles f -> scalar_titles f -> too_deep f = false -> (fsize f <= fuel2)%nat ->
  savable d -> known_deep d = false -> Forall op_ok ops -> N.of_nat (length ops) < u32_mod ->
  catalog d = Some pcat -> dict_get pcat K_Pages = Some (ORef i g) ->
  tree_wf d (PNode (i, g) ks) -> (N.of_nat (height (PNode (i, g) ks)) <= PAGE_TREE_DEPTH_LIMIT + 1)%N ->
  exists b',
    build_outline (default_fuel b) b = OOk (Some (m0 + 1, 0), b') /\
    let d2 := attach (base b') cid (m0 + 1, 0) in
    savable d2 /\ known_deep d2 = false /\
    (small_file xt d2 -> targets_are_pages d f ->
     exists d', load (so_bytes (save xt d2)) = LOk d' (xtype_of xt) /\
                get_pages d' = get_pages d /\
                TocNamed.get_toc fuel2 d' = if TocNamed.name_tree_readable d' then TOk (expected_toc d f) 0 else TErr).
Proof.
  intros b f m0 Hne Hmax Hlim Hroot Hcat Hdist Hscal Hdeep Hfuel2 S K Hops Hlen Hpcat Hpg Hwf Hh.
  destruct (add_all_repr d ops) as [Hbase [Hroots [Htr Hdf]]]. fold b f in Hbase, Hroots, Htr, Hdf.
  pose proof (reads_back_after_save_load_nm b f cid rid cat (default_fuel b) fuel2 xt pcat i g ks Hroots Hne Htr) as H.
  cbv zeta in H. rewrite Hbase in H. fold m0 in H.
  apply H; try assumption.
  - apply N.ltb_ge. exact Hdeep.
  - rewrite Hdf. apply forest_height.
  - apply add_all_tbl_ok; assumption.
Qed.

(* ---------- non-vacuity over the complete model: the example without a name tree, and the example whose catalog has a valid
   name tree (Proofs/OutlineProofsNamedEx.v), in both formats ---------- *)
From LV Require Proofs.OutlineProofsNamedEx.

Lemma nd_savable : savable OutlineProofsNamedEx.nd_doc.
Proof.
  constructor; cbn [OutlineProofsNamedEx.nd_doc OutlineProofsNamedEx.with_cat d_version d_binary_mark d_trailer d_objects d_max_id app].
  - vm_compute. reflexivity.
  - reflexivity.
  - reflexivity.
  - vm_compute. discriminate.
  - cbn [obj_numbers map fst increasing]. repeat split; reflexivity.
  - repeat (apply Forall_cons; [cbn [fst snd]; split; [vm_compute; discriminate|]; split; [|reflexivity];
      cbn [top_wf ex_cat OutlineProofsNamedEx.nd_cat app]; repeat (constructor; cbn; try (intuition discriminate)) |]); try apply Forall_nil.
    all: try (vm_compute; discriminate).
  - constructor; [repeat constructor; cbn; intuition discriminate|].
    constructor; [|constructor]. cbn [snd]. constructor; vm_compute; discriminate.
  - reflexivity.
  - reflexivity.
Qed.

Theorem ex_after_save_load_nm :
  savable ex_doc /\ known_deep ex_doc = false /\ Forall op_ok ex_ops /\ N.of_nat (length ex_ops) < u32_mod /\
  d_max_id ex_doc + 1 + 2 * N.of_nat (fsize ex_forest) + 2 < u32_mod /\
  small_file XTable ex_final /\ small_file XStream ex_final /\
  targets_are_pages ex_final ex_forest /\
  TocNamed.get_toc 4 (reloaded XTable ex_final) = TOk ex_toc 0 /\
  TocNamed.get_toc 4 (reloaded XStream ex_final) = TOk ex_toc 0 /\
  length (d_objects (reloaded XStream ex_final)) = S (length (d_objects ex_final)) /\
  (* with a name tree *)
  savable OutlineProofsNamedEx.nd_doc /\ known_deep OutlineProofsNamedEx.nd_doc = false /\
  d_max_id OutlineProofsNamedEx.nd_doc + 1 + 2 * N.of_nat (fsize ex_forest) + 2 < u32_mod /\
  small_file XTable OutlineProofsNamedEx.nd_final /\ small_file XStream OutlineProofsNamedEx.nd_final /\
  TocNamed.name_tree_readable (reloaded XTable OutlineProofsNamedEx.nd_final) = true /\
  TocNamed.name_tree_readable (reloaded XStream OutlineProofsNamedEx.nd_final) = true /\
  TocNamed.get_toc 4 (reloaded XTable OutlineProofsNamedEx.nd_final) = TOk ex_toc 0 /\
  TocNamed.get_toc 4 (reloaded XStream OutlineProofsNamedEx.nd_final) = TOk ex_toc 0.
Proof.
  destruct ex_after_save_load as (H1 & H2 & H3 & H4 & H5 & H6 & H7 & H8 & _ & _ & H11).
  split; [exact H1|]. split; [exact H2|]. split; [exact H3|]. split; [exact H4|]. split; [exact H5|].
  split; [exact H6|]. split; [exact H7|]. split; [exact H8|].
  split; [vm_compute; reflexivity|]. split; [vm_compute; reflexivity|]. split; [exact H11|].
  split; [exact nd_savable|].
  repeat (split; [vm_compute; reflexivity|]). vm_compute; reflexivity.
Qed.
