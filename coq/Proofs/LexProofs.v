(* LexProofs.v -- token-level round trips between Model/Writer.v and Model/Parser.v:
   decimal numbers, names, hexadecimal strings.  The byte-class facts are 256-case sweeps over
   the sets regenerated from the Rust source (Gen/Lex.v), so a change of a set that breaks a
   round trip breaks one of the [*_sweep] lemmas here. *)
From LV Require Import Base.Bytes Base.Sx Model.Obj Model.Writer Model.Parser Gen.Lex.
From Coq Require Import ZifyBool ZifyN.

Local Open Scope N_scope.
Ltac Zify.zify_post_hook ::= Z.div_mod_to_equations.

(* ---------- generic list facts ---------- *)

Definition starts_with (p : byte -> bool) (s : bytes) : bool :=
  match s with c :: _ => p c | [] => false end.

Lemma take_while_app p (l rest : bytes) :
  forallb p l = true -> starts_with p rest = false ->
  take_while p (l ++ rest) = (l, rest).
Proof.
  induction l as [|c l IH]; cbn [forallb app]; intros Hl Hr.
  - destruct rest as [|c r]; [reflexivity|]. cbn in *. rewrite Hr. reflexivity.
  - apply andb_true_iff in Hl as [Hc Hl]. cbn [take_while]. rewrite Hc, (IH Hl Hr). reflexivity.
Qed.

Lemma skip_while_app p (l rest : bytes) :
  forallb p l = true -> starts_with p rest = false ->
  skip_while p (l ++ rest) = rest.
Proof.
  induction l as [|c l IH]; cbn [forallb app]; intros Hl Hr.
  - destruct rest as [|c r]; [reflexivity|]. cbn in *. rewrite Hr. reflexivity.
  - apply andb_true_iff in Hl as [Hc Hl]. cbn [skip_while]. rewrite Hc. exact (IH Hl Hr).
Qed.

(* ---------- decimal numbers ---------- *)

Definition dstep (acc : N) (c : byte) : N := acc * 10 + (N_of_byte c - 48).

Lemma digits_val_fold ds : digits_val ds = fold_left dstep ds 0.
Proof. reflexivity. Qed.

Lemma N_of_digit_byte d : d < 10 -> N_of_byte (digit_byte d) = 48 + d.
Proof. intro H. unfold digit_byte. apply N_of_byte_of_N. lia. Qed.

Lemma digit_byte_is_digit d : d < 10 -> is_dec_digit (digit_byte d) = true.
Proof. intro H. unfold is_dec_digit. rewrite (N_of_digit_byte d H). lia. Qed.

Lemma dstep_digit acc d : d < 10 -> dstep acc (digit_byte d) = acc * 10 + d.
Proof. intro H. unfold dstep. rewrite (N_of_digit_byte d H). lia. Qed.

Lemma dec_digits_val : forall fuel n acc,
  n < 2 ^ N.of_nat fuel ->
  fold_left dstep (dec_digits fuel n acc) 0 = fold_left dstep acc n.
Proof.
  induction fuel as [|f IH]; intros n acc Hn.
  - cbn in Hn. assert (n = 0) by lia. subst. reflexivity.
  - cbn [dec_digits]. destruct (n <? 10) eqn:E.
    + cbn [fold_left]. rewrite dstep_digit by lia. f_equal.
    + rewrite IH.
      * cbn [fold_left]. rewrite dstep_digit by (apply N.mod_lt; lia). f_equal.
        pose proof (N.div_mod n 10). lia.
      * rewrite Nat2N.inj_succ, N.pow_succ_r' in Hn.
        assert (n / 10 <= n / 2) by (apply N.div_le_compat_l; lia).
        assert (n / 2 < 2 ^ N.of_nat f) by (apply N.div_lt_upper_bound; lia). lia.
Qed.

Lemma dec_digits_all_digits : forall fuel n acc,
  forallb is_dec_digit acc = true -> forallb is_dec_digit (dec_digits fuel n acc) = true.
Proof.
  induction fuel as [|f IH]; intros n acc Ha; cbn [dec_digits]; [exact Ha|].
  destruct (n <? 10) eqn:E.
  - cbn [forallb]. rewrite digit_byte_is_digit by lia. exact Ha.
  - apply IH. cbn [forallb]. rewrite digit_byte_is_digit by (apply N.mod_lt; lia). exact Ha.
Qed.

Lemma dec_digits_nonempty : forall fuel n acc, (0 < fuel)%nat -> dec_digits fuel n acc <> [].
Proof.
  induction fuel as [|f IH]; intros n acc Hf; [lia|]. cbn [dec_digits].
  destruct (n <? 10); [discriminate|].
  destruct f as [|f']; [cbn; discriminate|]. apply IH. lia.
Qed.

Lemma log2_fuel n : n < 2 ^ N.of_nat (S (N.to_nat (N.log2 n))).
Proof.
  rewrite Nat2N.inj_succ, N2Nat.id.
  destruct n as [|p]; [cbn; lia|]. apply N.log2_spec. lia.
Qed.

Lemma N_dec_val n : digits_val (N_dec n) = n.
Proof. unfold N_dec. rewrite digits_val_fold, dec_digits_val by apply log2_fuel. reflexivity. Qed.

Lemma N_dec_digits n : forallb is_dec_digit (N_dec n) = true.
Proof. apply dec_digits_all_digits. reflexivity. Qed.

Lemma N_dec_nonempty n : N_dec n <> [].
Proof. apply dec_digits_nonempty. lia. Qed.

Lemma N_dec_cons n : exists c t, N_dec n = c :: t /\ is_dec_digit c = true.
Proof.
  pose proof (N_dec_nonempty n) as Hne. pose proof (N_dec_digits n) as Hd.
  destruct (N_dec n) as [|c t]; [contradiction|]. exists c, t. split; [reflexivity|].
  cbn in Hd. apply andb_true_iff in Hd. tauto.
Qed.

(* a digit is neither a sign nor anything else the number parsers test for *)
Lemma digit_not_sign c : is_dec_digit c = true -> c <> x2d /\ c <> x2b.
Proof. intro H. split; intro E; subst; discriminate. Qed.

Lemma opt_sign_digit c t : is_dec_digit c = true -> opt_sign (c :: t) = (None, c :: t).
Proof.
  intro H. destruct (digit_not_sign c H) as [H1 H2].
  unfold opt_sign. destruct c; try reflexivity; contradiction.
Qed.

Lemma opt_sign_digits l rest :
  l <> [] -> forallb is_dec_digit l = true -> opt_sign (l ++ rest) = (None, l ++ rest).
Proof.
  intros Hne Hd. destruct l as [|c t]; [contradiction|]. cbn in Hd.
  apply andb_true_iff in Hd as [Hc _]. apply (opt_sign_digit c _ Hc).
Qed.

Lemma match_nonempty {A B} (l : list A) (x y : B) :
  l <> [] -> match l with [] => x | _ :: _ => y end = y.
Proof. destruct l; [contradiction|reflexivity]. Qed.

(* unsigned_int reads back what N_dec printed *)
Lemma unsigned_int_rt maxv n rest :
  n <= maxv -> starts_with is_dec_digit rest = false ->
  unsigned_int maxv (N_dec n ++ rest) = POk n rest.
Proof.
  intros Hn Hr. unfold unsigned_int.
  rewrite (take_while_app _ _ _ (N_dec_digits n) Hr).
  rewrite (match_nonempty _ _ _ (N_dec_nonempty n)), N_dec_val.
  assert (n <=? maxv = true) as -> by lia. reflexivity.
Qed.

(* integer reads back what Z_dec printed *)
Lemma integer_rt z rest :
  in_i64 z = true -> starts_with is_dec_digit rest = false ->
  integer (Z_dec z ++ rest) = POk z rest.
Proof.
  intros Hz Hr. unfold in_i64 in Hz. unfold integer, Z_dec.
  destruct z as [|p|p].
  - cbn. destruct rest as [|c r]; [reflexivity|]. cbn in Hr. cbn. rewrite Hr. reflexivity.
  - rewrite (opt_sign_digits _ _ (N_dec_nonempty _) (N_dec_digits _)).
    rewrite (take_while_app _ _ _ (N_dec_digits _) Hr).
    rewrite (match_nonempty _ _ _ (N_dec_nonempty _)), N_dec_val.
    cbn [Z.of_N]. rewrite Hz. reflexivity.
  - cbn [app opt_sign].
    rewrite (take_while_app _ _ _ (N_dec_digits _) Hr).
    rewrite (match_nonempty _ _ _ (N_dec_nonempty _)), N_dec_val.
    cbn [Z.of_N Z.opp]. rewrite Hz. reflexivity.
Qed.

(* ---------- hexadecimal digits ---------- *)

Definition nibble_ok (d : N) : bool :=
  match hex_val (hex_upper d) with Some v => v =? d | None => false end
  && negb (is_whitespace (hex_upper d)).

Lemma nibble_sweep : below_nat 16 nibble_ok = true.
Proof. vm_compute. reflexivity. Qed.

Lemma hex_upper_val d : d < 16 -> hex_val (hex_upper d) = Some d.
Proof.
  intro H. pose proof (below_nat_spec 16 _ nibble_sweep d H) as Hk.
  unfold nibble_ok in Hk. apply andb_true_iff in Hk as [Hk _].
  destruct (hex_val (hex_upper d)); [|discriminate]. apply N.eqb_eq in Hk. congruence.
Qed.

Lemma hex_upper_not_ws d : d < 16 -> is_whitespace (hex_upper d) = false.
Proof.
  intro H. pose proof (below_nat_spec 16 _ nibble_sweep d H) as Hk.
  unfold nibble_ok in Hk. apply andb_true_iff in Hk as [_ Hk].
  destruct (is_whitespace (hex_upper d)); [discriminate|reflexivity].
Qed.

Lemma byte_nibbles b : byte_of_N (N_of_byte b / 16 * 16 + N_of_byte b mod 16) = b.
Proof.
  replace (N_of_byte b / 16 * 16 + N_of_byte b mod 16) with (N_of_byte b)
    by (pose proof (N.div_mod (N_of_byte b) 16); lia).
  apply byte_of_N_of_byte.
Qed.

Lemma hi_lt b : N_of_byte b / 16 < 16.
Proof. pose proof (N_of_byte_lt b). apply N.div_lt_upper_bound; lia. Qed.
Lemma lo_lt b : N_of_byte b mod 16 < 16.
Proof. apply N.mod_lt. lia. Qed.

(* hexadecimal strings *)
Lemma hex_body_rt s rest :
  hex_body (flat_map hex2_upper s ++ x3e :: rest) None = (s, x3e :: rest).
Proof.
  induction s as [|b s IH]; cbn [flat_map app].
  - reflexivity.
  - unfold hex2_upper at 1. cbn [app hex_body].
    rewrite (hex_upper_not_ws _ (hi_lt b)), (hex_upper_val _ (hi_lt b)).
    rewrite (hex_upper_not_ws _ (lo_lt b)), (hex_upper_val _ (lo_lt b)).
    rewrite IH, byte_nibbles. reflexivity.
Qed.

Theorem hex_string_rt s rest :
  hexadecimal_string (write_hex s ++ rest) = POk s rest.
Proof.
  unfold hexadecimal_string, write_hex. cbn [app]. rewrite <- app_assoc. cbn [app].
  rewrite hex_body_rt. reflexivity.
Qed.

(* ---------- names ---------- *)

(* the sweep over the regenerated sets: an unescaped byte must be a regular byte other than '#' *)
Definition name_byte_ok (b : byte) : bool :=
  name_escaped b || (negb (byte_eqb b x23) && is_regular b).

Lemma name_byte_sweep : byte_forallb name_byte_ok = true.
Proof. vm_compute. reflexivity. Qed.

Lemma name_plain b : name_escaped b = false -> byte_eqb b x23 = false /\ is_regular b = true.
Proof.
  intro H. pose proof (byte_forallb_spec _ name_byte_sweep b) as Hk.
  unfold name_byte_ok in Hk. rewrite H in Hk. cbn [orb] in Hk.
  apply andb_true_iff in Hk as [H1 H2]. split; [|exact H2].
  destruct (byte_eqb b x23); [discriminate|reflexivity].
Qed.

(* what may follow a name: nothing, or a byte that is not regular (white space or delimiter) *)
Definition name_follow (rest : bytes) : bool := negb (starts_with is_regular rest).

Lemma name_body_stop rest : name_follow rest = true -> name_body rest = ([], rest).
Proof.
  unfold name_follow. destruct rest as [|c t]; [reflexivity|]. cbn [starts_with]. intro H.
  apply negb_true_iff in H. cbn [name_body].
  destruct (byte_eqb c x23) eqn:E.
  - apply byte_eqb_eq in E. subst c. discriminate.
  - rewrite H. reflexivity.
Qed.

Lemma name_body_rt n rest :
  name_follow rest = true ->
  name_body (flat_map write_name_byte n ++ rest) = (n, rest).
Proof.
  intro Hr. induction n as [|b n IH]; cbn [flat_map app].
  - exact (name_body_stop rest Hr).
  - unfold write_name_byte at 1. destruct (name_escaped b) eqn:E.
    + unfold hex2_upper. cbn [app name_body]. rewrite byte_eqb_refl.
      rewrite (hex_upper_val _ (hi_lt b)), (hex_upper_val _ (lo_lt b)), IH, byte_nibbles. reflexivity.
    + destruct (name_plain b E) as [H1 H2]. cbn [app name_body]. rewrite H1, H2, IH. reflexivity.
Qed.

Theorem name_rt n rest :
  name_follow rest = true -> name (write_name n ++ rest) = POk n rest.
Proof.
  intro Hr. unfold name, write_name. cbn [app]. rewrite (name_body_rt n rest Hr). reflexivity.
Qed.

(* the first byte of a written name is '/', a delimiter *)
Lemma write_name_head n : exists t, write_name n = x2f :: t.
Proof. eexists. reflexivity. Qed.
