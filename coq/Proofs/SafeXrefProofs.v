(* SafeXrefProofs.v -- C04 theorems for decode_xref_stream: no panic, every row consumes input (so the loop whose
   bound the file chooses runs at most content.len() + 1 times per section), allocation bounded by the content. *)
From LV Require Import Base.Bytes Model.Safe Model.SafeXref Proofs.SafeLemmas.
Local Open Scope N_scope.

Ltac csimp := cbn [steps max_alloc max_depth outcome fail ret tick request panic out_of_fuel fst snd c_steps c_alloc c_depth c0] in *.
Ltac inv_ret H := unfold outcome, ret in H; cbn in H; injection H as H; subst.
Ltac inv_ret' H := unfold outcome, ret in H; cbn in H; injection H as <-.

(* sread: never panics, requests nothing, and on success consumes exactly the buffer length *)
Lemma sread_spec b s :
  no_panic (sread b s) /\ terminates (sread b s) /\ max_alloc (sread b s) = 0
  /\ forall v s', outcome (sread b s) = SOk (v, s') -> blen s' + b = blen s.
Proof.
  unfold sread. destruct (blen s <? b) eqn:E.
  - repeat split; try discriminate. 
  - apply N.ltb_ge in E. repeat split; try discriminate.
    intros v s' H. rewrite outcome_bind in H. cbn [outcome tick fst] in H. inv_ret H.
    unfold blen in *. rewrite skipn_length. lia.
Qed.

Definition row_ok (b0 b1 b2 : N) (s : bytes) (m : M (bool * bytes)) : Prop :=
  no_panic m /\ terminates m /\ max_alloc m = 0
  /\ forall ins s', outcome m = SOk (ins, s') -> blen s' + 1 <= blen s.

Lemma sxrow_spec b0 b1 b2 s : 0 < b0 + b1 + b2 -> row_ok b0 b1 b2 s (sxrow b0 b1 b2 s).
Proof.
  intros Hpos. unfold sxrow, row_ok.
  (* the first field *)
  assert (H1 : forall t, outcome (if b0 =? 0 then ret (1, s) else sread b0 s) = SOk t ->
               (b0 = 0 /\ t = (1, s)) \/ (0 < b0 /\ blen (snd t) + b0 = blen s)).
  { intros [v s1] H. destruct (b0 =? 0) eqn:E0.
    - apply N.eqb_eq in E0. left. split; [exact E0|]. unfold outcome, ret in H; cbn in H. injection H as -> ->. reflexivity.
    - apply N.eqb_neq in E0. right. split; [lia|]. destruct (sread_spec b0 s) as [_ [_ [_ Hc]]]. apply (Hc v s1 H). }
  assert (Hf : no_panic (if b0 =? 0 then ret (1, s) else sread b0 s)
               /\ terminates (if b0 =? 0 then ret (1, s) else sread b0 s)
               /\ max_alloc (if b0 =? 0 then ret (1, s) else sread b0 s) = 0).
  { destruct (b0 =? 0); [repeat split; discriminate|]. destruct (sread_spec b0 s) as [A [B [C _]]]. auto. }
  destruct Hf as [Hnp [Htm Hal]].
  (* facts about a read used below *)
  pose proof (fun b s => proj1 (sread_spec b s)) as Rnp.
  pose proof (fun b s => proj1 (proj2 (sread_spec b s))) as Rtm.
  pose proof (fun b s => proj1 (proj2 (proj2 (sread_spec b s)))) as Ral.
  pose proof (fun b s => proj2 (proj2 (proj2 (sread_spec b s)))) as Rc.
  assert (Hopt : forall sx, no_panic (if b2 =? 0 then ret (0, sx) else sread b2 sx)
                 /\ terminates (if b2 =? 0 then ret (0, sx) else sread b2 sx)
                 /\ max_alloc (if b2 =? 0 then ret (0, sx) else sread b2 sx) = 0
                 /\ forall v s', outcome (if b2 =? 0 then ret (0, sx) else sread b2 sx) = SOk (v, s') -> blen s' + b2 = blen sx).
  { intros sx. destruct (b2 =? 0) eqn:E2.
    - apply N.eqb_eq in E2. repeat split; try discriminate. intros v s' H. inv_ret H. lia.
    - apply sread_spec. }
  repeat split.
  - (* no panic *)
    apply no_panic_bind; [exact Hnp|]. intros t Ht.
    destruct (fst t =? 0).
    { apply no_panic_bind; [apply Rnp|]. intros r1 _. apply no_panic_bind; [apply Rnp|]. intros r2 _. apply no_panic_ret. }
    destruct (fst t =? 1).
    { apply no_panic_bind; [apply Rnp|]. intros r1 _. apply no_panic_bind; [apply Hopt|]. intros r2 _. apply no_panic_ret. }
    destruct (fst t =? 2).
    { apply no_panic_bind; [apply Rnp|]. intros r1 _. apply no_panic_bind; [apply Rnp|]. intros r2 _. apply no_panic_ret. }
    apply no_panic_ret.
  - (* terminates *)
    apply terminates_bind; [exact Htm|]. intros t Ht.
    destruct (fst t =? 0).
    { apply terminates_bind; [apply Rtm|]. intros r1 _. apply terminates_bind; [apply Rtm|]. intros r2 _. discriminate. }
    destruct (fst t =? 1).
    { apply terminates_bind; [apply Rtm|]. intros r1 _. apply terminates_bind; [apply Hopt|]. intros r2 _. discriminate. }
    destruct (fst t =? 2).
    { apply terminates_bind; [apply Rtm|]. intros r1 _. apply terminates_bind; [apply Rtm|]. intros r2 _. discriminate. }
    discriminate.
  - (* no allocation *)
    apply N.le_antisymm; [|lia].
    apply alloc_bind_le; [lia|]. intros t Ht.
    destruct (fst t =? 0).
    { apply alloc_bind_le; [rewrite Ral; lia|]. intros r1 _. apply alloc_bind_le; [rewrite Ral; lia|]. intros r2 _. csimp. lia. }
    destruct (fst t =? 1).
    { apply alloc_bind_le; [rewrite Ral; lia|]. intros r1 _.
      apply alloc_bind_le; [destruct (Hopt (snd r1)) as [_ [_ [-> _]]]; lia|]. intros r2 _. csimp. lia. }
    destruct (fst t =? 2).
    { apply alloc_bind_le; [rewrite Ral; lia|]. intros r1 _. apply alloc_bind_le; [rewrite Ral; lia|]. intros r2 _. csimp. lia. }
    csimp. lia.
  - (* progress *)
    intros ins s' H. rewrite outcome_bind in H.
    destruct (outcome (if b0 =? 0 then ret (1, s) else sread b0 s)) as [t| | |] eqn:Et; try discriminate.
    specialize (H1 t eq_refl).
    destruct (fst t =? 0) eqn:T0.
    { rewrite outcome_bind in H. destruct (outcome (sread b1 (snd t))) as [[v1 s1]| | |] eqn:E1; try discriminate.
      apply Rc in E1. rewrite outcome_bind in H. cbn [snd] in H.
      destruct (outcome (sread b2 s1)) as [[v2 s2]| | |] eqn:E2; try discriminate.
      apply Rc in E2. inv_ret H. cbn [snd].
      destruct H1 as [[Hb0 ->]|[Hb0 Hl]]; [discriminate T0|]. cbn [snd] in *. lia. }
    destruct (fst t =? 1) eqn:T1.
    { rewrite outcome_bind in H. destruct (outcome (sread b1 (snd t))) as [[v1 s1]| | |] eqn:E1; try discriminate.
      apply Rc in E1. rewrite outcome_bind in H. cbn [snd] in H.
      destruct (outcome (if b2 =? 0 then ret (0, s1) else sread b2 s1)) as [[v2 s2]| | |] eqn:E2; try discriminate.
      destruct (Hopt s1) as [_ [_ [_ Hc2]]]. apply Hc2 in E2. inv_ret H. cbn [snd].
      destruct H1 as [[Hb0 ->]|[Hb0 Hl]]; cbn [snd] in *; lia. }
    destruct (fst t =? 2) eqn:T2.
    { rewrite outcome_bind in H. destruct (outcome (sread b1 (snd t))) as [[v1 s1]| | |] eqn:E1; try discriminate.
      apply Rc in E1. rewrite outcome_bind in H. cbn [snd] in H.
      destruct (outcome (sread b2 s1)) as [[v2 s2]| | |] eqn:E2; try discriminate.
      apply Rc in E2. inv_ret H. cbn [snd].
      destruct H1 as [[Hb0 ->]|[Hb0 Hl]]; [discriminate T1|]. cbn [snd] in *. lia. }
    inv_ret H. destruct H1 as [[Hb0 ->]|[Hb0 Hl]]; [discriminate T1|]. cbn [snd] in *. lia.
Qed.

(* the row loop: whatever `count` the file gives, it stops after at most blen s + 1 rows *)
Lemma sxrows_spec fuel : forall b0 b1 b2 start count j s n,
  0 < b0 + b1 + b2 -> (length s < fuel)%nat ->
  no_panic (sxrows fuel false b0 b1 b2 start count j s n)
  /\ terminates (sxrows fuel false b0 b1 b2 start count j s n)
  /\ max_alloc (sxrows fuel false b0 b1 b2 start count j s n) = 0
  /\ forall n' s', outcome (sxrows fuel false b0 b1 b2 start count j s n) = SOk (n', s') ->
       blen s' <= blen s /\ n' + blen s' <= n + blen s.
Proof.
  induction fuel as [|fuel IH]; intros b0 b1 b2 start count j s n Hpos Hf; [lia|].
  cbn [sxrows]. destruct (count <=? j)%Z.
  { repeat split; try discriminate. all: match goal with H : outcome _ = SOk _ |- _ => inv_ret H end; lia. }
  destruct (sxrow_spec b0 b1 b2 s Hpos) as [Rnp [Rtm [Ral Rpr]]].
  assert (Hk : forall b : bool, no_panic (if b then skey false start j else ret tt)
               /\ terminates (if b then skey false start j else ret tt)
               /\ max_alloc (if b then skey false start j else ret tt) = 0).
  { intros []; repeat split; discriminate. }
  assert (Hrec : forall r, outcome (sxrow b0 b1 b2 s) = SOk r -> (length (snd r) < fuel)%nat).
  { intros [ins s1] Hr. specialize (Rpr ins s1 Hr). unfold blen in Rpr. cbn [snd]. lia. }
  repeat split.
  - apply no_panic_bind; [apply no_panic_tick|]. intros _ _.
    apply no_panic_bind; [exact Rnp|]. intros r Hr.
    apply no_panic_bind; [apply Hk|]. intros _ _. apply IH; [exact Hpos|apply Hrec; exact Hr].
  - apply terminates_bind; [discriminate|]. intros _ _.
    apply terminates_bind; [exact Rtm|]. intros r Hr.
    apply terminates_bind; [apply Hk|]. intros _ _. apply IH; [exact Hpos|apply Hrec; exact Hr].
  - apply N.le_antisymm; [|lia].
    apply alloc_bind_le; [csimp; lia|]. intros _ _.
    apply alloc_bind_le; [lia|]. intros r Hr.
    apply alloc_bind_le; [destruct (Hk (fst r)) as [_ [_ ->]]; lia|]. intros _ _.
    destruct (IH b0 b1 b2 start count (j + 1)%Z (snd r) (if fst r then n + 1 else n) Hpos (Hrec r Hr)) as [_ [_ [-> _]]]. lia.
  - rewrite outcome_bind in H. cbn [outcome tick fst] in H.
    rewrite outcome_bind in H. destruct (outcome (sxrow b0 b1 b2 s)) as [[ins s1]| | |] eqn:Er; try discriminate.
    rewrite outcome_bind in H.
    assert (Ho : outcome (if fst (ins, s1) then skey false start j else ret tt) = SOk tt) by (destruct ins; reflexivity).
    rewrite Ho in H.
    destruct (IH b0 b1 b2 start count (j + 1)%Z s1 (if ins then n + 1 else n) Hpos (Hrec (ins, s1) eq_refl)) as [_ [_ [_ Hc]]].
    cbn [fst snd] in H. specialize (Hc n' s' H). specialize (Rpr ins s1 eq_refl).
    destruct ins; lia.
  - rewrite outcome_bind in H. cbn [outcome tick fst] in H.
    rewrite outcome_bind in H. destruct (outcome (sxrow b0 b1 b2 s)) as [[ins s1]| | |] eqn:Er; try discriminate.
    rewrite outcome_bind in H.
    assert (Ho : outcome (if fst (ins, s1) then skey false start j else ret tt) = SOk tt) by (destruct ins; reflexivity).
    rewrite Ho in H.
    destruct (IH b0 b1 b2 start count (j + 1)%Z s1 (if ins then n + 1 else n) Hpos (Hrec (ins, s1) eq_refl)) as [_ [_ [_ Hc]]].
    cbn [fst snd] in H. specialize (Hc n' s' H). specialize (Rpr ins s1 eq_refl).
    destruct ins; lia.
Qed.

Lemma sxsections_spec idx : forall b0 b1 b2 s n,
  0 < b0 + b1 + b2 ->
  no_panic (sxsections false ROW_FUEL idx b0 b1 b2 s n)
  /\ terminates (sxsections false ROW_FUEL idx b0 b1 b2 s n)
  /\ max_alloc (sxsections false ROW_FUEL idx b0 b1 b2 s n) = 0
  /\ forall n', outcome (sxsections false ROW_FUEL idx b0 b1 b2 s n) = SOk n' -> n' <= n + blen s.
Proof.
  (* induction on the list two elements at a time *)
  assert (Hgen : forall k idx, (length idx <= k)%nat -> forall b0 b1 b2 s n, 0 < b0 + b1 + b2 ->
    no_panic (sxsections false ROW_FUEL idx b0 b1 b2 s n)
    /\ terminates (sxsections false ROW_FUEL idx b0 b1 b2 s n)
    /\ max_alloc (sxsections false ROW_FUEL idx b0 b1 b2 s n) = 0
    /\ forall n', outcome (sxsections false ROW_FUEL idx b0 b1 b2 s n) = SOk n' -> n' <= n + blen s).
  { induction k as [|k IH]; intros idx0 Hl b0 b1 b2 s n Hpos.
    - destruct idx0; [|cbn in Hl; lia]. cbn [sxsections]. repeat split; try discriminate. intros n' H. inv_ret H. lia.
    - destruct idx0 as [|start [|count idx']]; cbn [sxsections].
      1,2: repeat split; try discriminate; intros n' H; inv_ret H; lia.
      assert (Hf : (length s < ROW_FUEL s)%nat) by (unfold ROW_FUEL; lia).
      destruct (sxrows_spec (ROW_FUEL s) b0 b1 b2 start count 0%Z s n Hpos Hf) as [Rnp [Rtm [Ral Rc]]].
      assert (Hl' : (length idx' <= k)%nat) by (cbn in Hl; lia).
      repeat split.
      + apply no_panic_bind; [apply no_panic_tick|]. intros _ _.
        apply no_panic_bind; [exact Rnp|]. intros r _. apply IH; assumption.
      + apply terminates_bind; [discriminate|]. intros _ _.
        apply terminates_bind; [exact Rtm|]. intros r _. apply IH; assumption.
      + apply N.le_antisymm; [|lia]. apply alloc_bind_le; [csimp; lia|]. intros _ _.
        apply alloc_bind_le; [lia|]. intros r _.
        destruct (IH idx' Hl' b0 b1 b2 (snd r) (fst r) Hpos) as [_ [_ [-> _]]]. lia.
      + intros n' H. rewrite outcome_bind in H. cbn [outcome tick fst] in H. rewrite outcome_bind in H.
        destruct (outcome (sxrows _ _ _ _ _ _ _ _ _ _)) as [[n1 s1]| | |] eqn:Er; try discriminate.
        destruct (Rc n1 s1 eq_refl) as [H1 H2].
        destruct (IH idx' Hl' b0 b1 b2 s1 n1 Hpos) as [_ [_ [_ Hc]]]. cbn [fst snd] in H. specialize (Hc n' H). lia. }
  intros. apply (Hgen (length idx) idx (le_n _)). assumption.
Qed.

Lemma as_usize_pos z : (0 < z)%Z -> (z <= I64_MAX)%Z -> as_usize z = Z.to_N z.
Proof. intros H1 H2. unfold as_usize, I64_MAX in *. rewrite Z.mod_small by lia. reflexivity. Qed.

Lemma as_usize_zero z : (0 <= z)%Z -> (z <= I64_MAX)%Z -> (as_usize z = 0 <-> z = 0%Z).
Proof.
  intros H1 H2. unfold as_usize, I64_MAX in *. rewrite Z.mod_small by lia. split; intros H; [lia|subst; reflexivity].
Qed.

(* decode_xref_stream, all W / Index / content.  [in_i64] : the integers come from Object::Integer(i64);
   a Vec<u8> is shorter than isize::MAX *)
Definition in_i64 (z : Z) : Prop := (I64_MIN <= z <= I64_MAX)%Z.

Theorem sxref_stream_safe : forall index ws content,
  Forall in_i64 ws -> blen content < ISIZE_MAX ->
  no_panic (sxref_stream index ws content)
  /\ terminates (sxref_stream index ws content)
  /\ max_alloc (sxref_stream index ws content) <= N.max (blen content + 1) (8 * N.max (N.of_nat (length index)) (N.of_nat (length ws)))
  /\ forall n, outcome (sxref_stream index ws content) = SOk n -> n <= blen content.
Proof.
  intros index ws content Hws Hlen. unfold sxref_stream, sxref_stream_gen.
  set (B := N.max (blen content + 1) (8 * N.max (N.of_nat (length index)) (N.of_nat (length ws)))).
  cbn [negb andb].
  destruct (N.of_nat (length ws) <? 3) eqn:E3.
  { split; [|split; [|split]].
    - apply no_panic_bind; [apply no_panic_request|]. intros _ _. apply no_panic_bind; [apply no_panic_request|]. intros _ _. apply no_panic_fail.
    - apply terminates_bind; [discriminate|]. intros _ _. apply terminates_bind; [discriminate|]. intros _ _. discriminate.
    - apply alloc_bind_le; [csimp; unfold B; lia|]. intros _ _. apply alloc_bind_le; [csimp; unfold B; lia|]. intros _ _. csimp. lia.
    - intros n H. rewrite outcome_bind in H. cbn [outcome request fst] in H. rewrite outcome_bind in H. discriminate H. }
  apply N.ltb_ge in E3.
  destruct ws as [|w0 [|w1 [|w2 wr]]]; try (cbn in E3; lia).
  inversion Hws as [|? ? I0 Hws1]; subst. inversion Hws1 as [|? ? I1 Hws2]; subst. inversion Hws2 as [|? ? I2 _]; subst.
  unfold in_i64, I64_MIN, I64_MAX in *.
  change (idx (w0 :: w1 :: w2 :: wr) 0) with (ret (A:=Z) w0).
  change (idx (w0 :: w1 :: w2 :: wr) 1) with (ret (A:=Z) w1).
  change (idx (w0 :: w1 :: w2 :: wr) 2) with (ret (A:=Z) w2).
  set (body := fun w0 w1 w2 : Z =>
    if ((w0 <? 0)%Z || (w1 <? 0)%Z || (w2 <? 0)%Z)%bool then fail
    else if ((w0 =? 0)%Z && (w1 =? 0)%Z && (w2 =? 0)%Z)%bool then fail
    else request_chosen (N.min (as_usize w0) (blen content + 1));;;
         request_chosen (N.min (as_usize w1) (blen content + 1));;;
         request_chosen (N.min (as_usize w2) (blen content + 1));;;
         sxsections false ROW_FUEL index (N.min (as_usize w0) (blen content + 1)) (N.min (as_usize w1) (blen content + 1))
           (N.min (as_usize w2) (blen content + 1)) content 0).
  assert (Hbody : no_panic (body w0 w1 w2) /\ terminates (body w0 w1 w2) /\ max_alloc (body w0 w1 w2) <= blen content + 1
                  /\ forall n, outcome (body w0 w1 w2) = SOk n -> n <= blen content).
  { unfold body.
    destruct ((w0 <? 0)%Z || (w1 <? 0)%Z || (w2 <? 0)%Z)%bool eqn:Eneg.
    { split; [|split; [|split]]; try discriminate; try reflexivity. csimp. lia. }
    apply orb_false_elim in Eneg. destruct Eneg as [Eneg N2]. apply orb_false_elim in Eneg. destruct Eneg as [N0 N1].
    apply Z.ltb_ge in N0. apply Z.ltb_ge in N1. apply Z.ltb_ge in N2.
    destruct ((w0 =? 0)%Z && (w1 =? 0)%Z && (w2 =? 0)%Z)%bool eqn:Ez.
    { split; [|split; [|split]]; try discriminate; try reflexivity. csimp. lia. }
    assert (Hpos : 0 < N.min (as_usize w0) (blen content + 1) + N.min (as_usize w1) (blen content + 1)
                       + N.min (as_usize w2) (blen content + 1)).
    { assert (Hnz : w0 <> 0%Z \/ w1 <> 0%Z \/ w2 <> 0%Z).
      { destruct (Z.eq_dec w0 0) as [->|]; [|auto]. destruct (Z.eq_dec w1 0) as [->|]; [|auto].
        destruct (Z.eq_dec w2 0) as [->|]; [|auto]. cbn in Ez. discriminate. }
      pose proof (as_usize_zero w0 N0 (proj2 I0)) as Z0. pose proof (as_usize_zero w1 N1 (proj2 I1)) as Z1.
      pose proof (as_usize_zero w2 N2 (proj2 I2)) as Z2. unfold I64_MAX in *.
      destruct Hnz as [H|[H|H]].
      - assert (as_usize w0 <> 0) by tauto. lia.
      - assert (as_usize w1 <> 0) by tauto. lia.
      - assert (as_usize w2 <> 0) by tauto. lia. }
    assert (Hrq : forall w, no_panic (request_chosen (N.min (as_usize w) (blen content + 1)))
                 /\ terminates (request_chosen (N.min (as_usize w) (blen content + 1)))
                 /\ max_alloc (request_chosen (N.min (as_usize w) (blen content + 1))) <= blen content + 1).
    { intros w. unfold request_chosen.
      assert (Hm : (ISIZE_MAX <? N.min (as_usize w) (blen content + 1)) = false) by (apply N.ltb_ge; lia).
      rewrite Hm. repeat split; try discriminate. csimp. lia. }
    destruct (sxsections_spec index _ _ _ content 0 Hpos) as [Snp [Stm [Sal Sc]]].
    split; [|split; [|split]].
    - apply no_panic_bind; [apply Hrq|]. intros _ _. apply no_panic_bind; [apply Hrq|]. intros _ _.
      apply no_panic_bind; [apply Hrq|]. intros _ _. exact Snp.
    - apply terminates_bind; [apply Hrq|]. intros _ _. apply terminates_bind; [apply Hrq|]. intros _ _.
      apply terminates_bind; [apply Hrq|]. intros _ _. exact Stm.
    - apply alloc_bind_le; [apply Hrq|]. intros _ _. apply alloc_bind_le; [apply Hrq|]. intros _ _.
      apply alloc_bind_le; [apply Hrq|]. intros _ _. rewrite Sal. lia.
    - intros n H. rewrite outcome_bind in H.
      destruct (outcome (request_chosen _)); try discriminate. rewrite outcome_bind in H.
      destruct (outcome (request_chosen _)); try discriminate. rewrite outcome_bind in H.
      destruct (outcome (request_chosen _)); try discriminate. specialize (Sc n H). lia. }
  destruct Hbody as [Bnp [Btm [Bal Bc]]].
  split; [|split; [|split]].
  - apply no_panic_bind; [apply no_panic_request|]. intros _ _. apply no_panic_bind; [apply no_panic_request|]. intros _ _.
    apply no_panic_bind; [apply no_panic_ret|]. intros a1 Ha1. inv_ret' Ha1.
    apply no_panic_bind; [apply no_panic_ret|]. intros a2 Ha2. inv_ret' Ha2.
    apply no_panic_bind; [apply no_panic_ret|]. intros a3 Ha3. inv_ret' Ha3. exact Bnp.
  - apply terminates_bind; [discriminate|]. intros _ _. apply terminates_bind; [discriminate|]. intros _ _.
    apply terminates_bind; [discriminate|]. intros a4 Ha4. inv_ret' Ha4.
    apply terminates_bind; [discriminate|]. intros a5 Ha5. inv_ret' Ha5.
    apply terminates_bind; [discriminate|]. intros a6 Ha6. inv_ret' Ha6. exact Btm.
  - apply alloc_bind_le; [csimp; unfold B; lia|]. intros _ _. apply alloc_bind_le; [csimp; unfold B; cbn [length]; lia|]. intros _ _.
    apply alloc_bind_le; [csimp; lia|]. intros a7 Ha7. inv_ret' Ha7.
    apply alloc_bind_le; [csimp; lia|]. intros a8 Ha8. inv_ret' Ha8.
    apply alloc_bind_le; [csimp; lia|]. intros a9 Ha9. inv_ret' Ha9. unfold B. fold (body w0 w1 w2). lia.
  - intros n H. rewrite outcome_bind in H. cbn [outcome request fst] in H. rewrite outcome_bind in H. cbn [outcome request fst] in H.
    rewrite outcome_bind in H. cbn [outcome ret fst] in H. rewrite outcome_bind in H. cbn [outcome ret fst] in H.
    rewrite outcome_bind in H. cbn [outcome ret fst] in H. apply Bc. exact H.
Qed.

(* ---------------- the code before the repairs ---------------- *)
Definition c3 : bytes := [x61; x62; x63].
Theorem sxref_stream_pinned_refuted :
  (* W [9223372036854775807 1 1]: a 2^63-1 byte buffer for a 3-byte stream (42cc00d) *)
  max_alloc (sxref_stream_pinned 10 [0; 3]%Z [9223372036854775807; 1; 1]%Z c3) = 9223372036854775807
  (* W [0 0 0], Index [0 4000000000]: the rows consume nothing; 1000 iterations later the loop is where it started (960142a) *)
  /\ outcome (sxref_stream_pinned 1000 [0; 4000000000]%Z [0; 0; 0]%Z c3) = SFuel
  (* Index [9223372036854775806 3]: start + j overflows an i64 (7320cb4) *)
  /\ outcome (sxref_stream_pinned 10 [9223372036854775806; 3]%Z [1; 1; 1]%Z
               [x01; x00; x00; x01; x00; x00; x01; x00; x00]) = SPanic ROverflow.
Proof. repeat split; vm_compute; reflexivity. Qed.

(* the same three inputs on the repaired code *)
Theorem sxref_stream_repaired_examples :
  outcome (sxref_stream [0; 3]%Z [9223372036854775807; 1; 1]%Z c3) = SErr
  /\ max_alloc (sxref_stream [0; 3]%Z [9223372036854775807; 1; 1]%Z c3) = 24
  /\ outcome (sxref_stream [0; 4000000000]%Z [0; 0; 0]%Z c3) = SErr
  /\ outcome (sxref_stream [9223372036854775806; 3]%Z [1; 1; 1]%Z [x01; x00; x00; x01; x00; x00; x01; x00; x00]) = SOk 3.
Proof. repeat split; vm_compute; reflexivity. Qed.

(* search_substring recurses once per occurrence of the pattern after the start position *)
Definition EOF5 : bytes := Eval cbv in bs "%%EOF".
Theorem ssearch_depth_example :
  let buf := EOF5 ++ [x0a] ++ EOF5 ++ [x0a] ++ EOF5 in
  outcome (ssearch 10 100 buf EOF5 0) = SOk (Some 12) /\ max_depth (ssearch 10 100 buf EOF5 0) = 3.
Proof. split; vm_compute; reflexivity. Qed.
