(* TextProofsBlocks.v -- C16 (3), several text objects: the font selected once -- before the first BT, or
   inside the first text object -- stays selected for every later BT .. ET, and extract_text returns the
   text of all of them (Spec/ShownBlocks.v). *)
From LV Require Import Base.Bytes Model.Utf Model.Obj Model.OneByte Model.TextExtract Gen.Tables
  Spec.ShownText Spec.ShownBlocks Proofs.TextProofsUtf Proofs.TextProofsTables Proofs.TextProofsExtract.
Local Open Scope N_scope.

Definition block_ops (t : table) (ps : list piece) : list op :=
  (K_BT, []) :: map (piece_op t) ps ++ [(K_ET, [])].

(* inside = false:  Tf  BT .. ET  BT .. ET ...        (font selected before the first text object)
   inside = true :  BT Tf .. ET  BT .. ET ...         (font selected in the first text object only) *)
Definition blocks_ops (inside : bool) (fname : bytes) (size : obj) (t : table) (bss : list (list piece)) : list op :=
  if inside then
    match bss with
    | [] => []
    | ps :: rest => show_ops fname size t ps ++ flat_map (block_ops t) rest
    end
  else (K_Tf, [OName fname; size]) :: flat_map (block_ops t) bss.

Definition page_blocks (inside : bool) (fname : bytes) (font : dict) (size : obj) (t : table) (bss : list (list piece)) : page :=
  {| p_fonts := [(fname, font)]; p_ops := blocks_ops inside fname size t bss |}.

Lemma step_BT encs s : step encs s (K_BT, []) = Ok s.
Proof. reflexivity. Qed.

Lemma step_ET encs s :
  step encs s (K_ET, []) =
  if ends_with_nl (cur_text s) then Ok s
  else Ok {| cur_enc := cur_enc s; cur_text := cur_text s ++ [10]; rchunks := rchunks s |}.
Proof. reflexivity. Qed.

Lemma step_Tf encs s fname size :
  step encs s (K_Tf, [OName fname; size]) =
  match cur_text s with
  | [] => Ok {| cur_enc := assoc_bytes fname encs; cur_text := []; rchunks := rchunks s |}
  | tx => Ok {| cur_enc := assoc_bytes fname encs; cur_text := []; rchunks := Ok tx :: rchunks s |}
  end.
Proof. reflexivity. Qed.

Lemma ends_with_nl_app acc body :
  body <> [] -> Forall (fun c => c <> 10) body -> ends_with_nl (acc ++ body) = false.
Proof.
  intros Hne Hnl. unfold ends_with_nl. rewrite rev_app_distr.
  destruct (rev body) as [|c r] eqn:E.
  - exfalso. apply Hne. apply (f_equal (@rev N)) in E. rewrite rev_involutive in E. exact E.
  - cbn [app]. apply N.eqb_neq. rewrite Forall_forall in Hnl. apply Hnl. apply in_rev. rewrite E. left. reflexivity.
Qed.

Section Blocks.
  Variable t : table.
  Hypothesis Ht : In t reachable_tables.
  Let enc := EncOneByte t.
  Let R := in_repertoire t.

  Lemma run_block encs acc chunks ps rest :
    Forall (piece_over R) ps -> block_shows ps ->
    run_ops encs {| cur_enc := Some enc; cur_text := acc; rchunks := chunks |} (block_ops t ps ++ rest) =
    run_ops encs {| cur_enc := Some enc; cur_text := acc ++ shown_text ps; rchunks := chunks |} rest.
  Proof.
    intros Hps Hne. unfold block_ops. cbn [app run_ops]. rewrite step_BT.
    rewrite <- app_assoc. fold enc. rewrite (run_pieces t Ht encs acc chunks ps _ Hps).
    cbn [app run_ops]. rewrite step_ET. cbn [cur_text cur_enc rchunks].
    rewrite (ends_with_nl_app acc _ Hne (pieces_no_nl t Ht ps Hps)).
    unfold shown_text. rewrite <- app_assoc. reflexivity.
  Qed.

  Lemma run_blocks encs chunks : forall bss acc rest,
    Forall (Forall (piece_over R)) bss -> Forall block_shows bss ->
    run_ops encs {| cur_enc := Some enc; cur_text := acc; rchunks := chunks |} (flat_map (block_ops t) bss ++ rest) =
    run_ops encs {| cur_enc := Some enc; cur_text := acc ++ shown_blocks bss; rchunks := chunks |} rest.
  Proof.
    induction bss as [|ps bss IH]; intros acc rest Hp Hs.
    - cbn. unfold shown_blocks. cbn. rewrite app_nil_r. reflexivity.
    - inversion Hp; inversion Hs; subst. cbn [flat_map]. rewrite <- app_assoc.
      rewrite run_block by assumption. rewrite IH by assumption.
      unfold shown_blocks. cbn [map concat]. rewrite <- app_assoc. reflexivity.
  Qed.

  Theorem extract_shown_blocks_table :
    forall inside fname font size bss,
      get_font_encoding font = Ok (EncOneByte t) ->
      Forall (Forall (piece_over R)) bss -> Forall block_shows bss ->
      extract_text [page_blocks inside fname font size t bss] [1] = Ok (shown_blocks bss).
  Proof.
    intros inside fname font size bss Hf Hp Hs.
    assert (Hc : page_chunks (page_blocks inside fname font size t bss) =
                 Ok (match shown_blocks bss with [] => [] | tx => [Ok tx] end)).
    { unfold page_chunks, page_blocks. cbn [p_fonts p_ops].
      change (sort_fonts [(fname, font)]) with [(fname, font)].
      cbn [page_encodings]. rewrite Hf. cbn [rev].
      destruct inside; unfold blocks_ops.
      - destruct bss as [|ps bss]; [reflexivity|].
        inversion Hp; inversion Hs; subst.
        unfold show_ops. cbn [app run_ops]. rewrite step_BT. rewrite step_Tf. cbn [cur_text rchunks].
        cbn [assoc_bytes]. rewrite bytes_eqb_refl. fold enc.
        rewrite <- app_assoc.
        rewrite (run_pieces t Ht _ [] [] ps _ H1). cbn [app run_ops]. rewrite step_ET. cbn [cur_text cur_enc rchunks].
        pose proof (ends_with_nl_app [] _ H5 (pieces_no_nl t Ht ps H1)) as E. cbn [app] in E. rewrite E. clear E.
        fold (shown_text ps).
        rewrite <- (app_nil_r (flat_map (block_ops t) bss)).
        rewrite (run_blocks _ [] bss (shown_text ps) [] H2 H6). cbn [run_ops cur_text rchunks rev].
        unfold shown_blocks. cbn [map concat]. fold (shown_blocks bss).
        destruct (shown_text ps ++ shown_blocks bss); reflexivity.
      - cbn [run_ops]. rewrite step_Tf. cbn [cur_text rchunks]. cbn [assoc_bytes]. rewrite bytes_eqb_refl. fold enc.
        rewrite <- (app_nil_r (flat_map (block_ops t) bss)).
        rewrite (run_blocks _ [] bss [] [] Hp Hs). cbn [app run_ops cur_text rchunks rev].
        destruct (shown_blocks bss); reflexivity. }
    unfold extract_text. cbn [extract_text_chunks].
    change (nth_page [page_blocks inside fname font size t bss] 1) with (Some (page_blocks inside fname font size t bss)).
    cbv iota. rewrite Hc. cbn [app]. destruct (shown_blocks bss); reflexivity.
  Qed.
End Blocks.

Theorem extract_shown_blocks :
  forall font t inside fname size bss,
    get_font_encoding font = Ok (EncOneByte t) ->
    Forall (Forall (piece_over (in_repertoire t))) bss -> Forall block_shows bss ->
    extract_text [page_blocks inside fname font size t bss] [1] = Ok (shown_blocks bss).
Proof.
  intros font t inside fname size bss Hf Hp Hs.
  exact (extract_shown_blocks_table t (font_encoding_reachable font t Hf) inside fname font size bss Hf Hp Hs).
Qed.

(* non-vacuity: two text objects, the font selected before the first / inside the first *)
Definition ex_blocks : list (list piece) := [ex_pieces; [PTj [111; 107] false]].

Lemma ex_blocks_shown :
  exists t, get_font_encoding ex_font = Ok (EncOneByte t) /\
            Forall (Forall (piece_over (in_repertoire t))) ex_blocks /\ Forall block_shows ex_blocks /\
            extract_text [page_blocks false (bs "F1") ex_font (OInt 12) t ex_blocks] [1] =
              Ok [72; 233; 108; 108; 111; 87; 32; 111; 114; 108; 100; 8364; 32; 10; 111; 107; 10] /\
            extract_text [page_blocks true (bs "F1") ex_font (OInt 12) t ex_blocks] [1] =
              Ok [72; 233; 108; 108; 111; 87; 32; 111; 114; 108; 100; 8364; 32; 10; 111; 107; 10].
Proof.
  destruct ex_shown as [t [Hf [Hp _]]].
  exists t. split; [exact Hf|]. split.
  - constructor; [exact Hp|]. constructor; [|constructor]. constructor; [|constructor].
    cbn [piece_over]. assert (E : Ok (EncOneByte t) = get_font_encoding ex_font) by (symmetry; exact Hf).
    vm_compute in E. inversion E; subst t.
    repeat constructor; [exists (byte_of_N 111) | exists (byte_of_N 107)]; vm_compute; reflexivity.
  - split; [repeat constructor; discriminate|].
    assert (E : Ok (EncOneByte t) = get_font_encoding ex_font) by (symmetry; exact Hf).
    vm_compute in E. inversion E; subst t. split; vm_compute; reflexivity.
Qed.
