(* OutlineProofsMain.v -- C17: producer and consumer put together.
   build_outline on a table holding forest f, the README's attach step, then get_toc: the result is
   the preorder of f (titles, level = depth + 1, page numbers), with explicit fuel bounds for both
   recursions.  Main results: [attach_catalog], [reads_back_forest], [reads_back_ops]. *)
From LV Require Import Base.Bytes Model.Obj Model.DocQ Model.PageTree Model.Outline Model.Toc Gen.QueryC
  Spec.OutlineSpec Proofs.OutlineProofs Proofs.OutlineProofsTitle Proofs.OutlineProofsRead
  Proofs.OutlineProofsOps.

Local Open Scope N_scope.

(* ---------- reference chains ---------- *)
Definition extends (m m' : objmap) : Prop := forall id o, lookup m id = Some o -> lookup m' id = Some o.

Definition is_ref (o : obj) : bool := match o with ORef _ _ => true | _ => false end.

Lemma deref_nonref m fuel last o : is_ref o = false -> deref_aux m fuel last o = Some (last, o).
Proof. destruct o; try discriminate; destruct fuel; reflexivity. Qed.

Lemma deref_ref m fuel last i g :
  deref_aux m fuel last (ORef i g) =
  match lookup m (i, g) with
  | None => None
  | Some o' => match fuel with O => None | S f => deref_aux m f (Some (i, g)) o' end
  end.
Proof. destruct fuel; reflexivity. Qed.

Lemma deref_extends m m' : extends m m' ->
  forall fuel last o r, deref_aux m fuel last o = Some r -> deref_aux m' fuel last o = Some r.
Proof.
  intro Hext. induction fuel as [|f IH]; intros last o r H.
  - destruct o; try exact H. rewrite deref_ref in *. destruct (lookup m (id, gen)) eqn:E; discriminate.
  - destruct o; try exact H. rewrite deref_ref in *.
    destruct (lookup m (id, gen)) as [o'|] eqn:E; [|discriminate].
    rewrite (Hext _ _ E). apply IH. exact H.
Qed.

(* where the chain ends, that object is stored *)
Lemma deref_final m : forall fuel last o rid o',
  deref_aux m fuel last o = Some (Some rid, o') -> (last = Some rid /\ o = o') \/ lookup m rid = Some o'.
Proof.
  induction fuel as [|f IH]; intros last o rid o' H.
  - destruct o; try (inversion H; left; split; reflexivity).
    rewrite deref_ref in H. destruct (lookup m (id, gen)); discriminate.
  - destruct o; try (inversion H; left; split; reflexivity).
    rewrite deref_ref in H. destruct (lookup m (id, gen)) as [o1|] eqn:E; [|discriminate].
    apply IH in H. destruct H as [[H1 H2]|H]; [|right; exact H].
    inversion H1; subst. right. exact E.
Qed.

Lemma deref_last_some m : forall f l o r x, deref_aux m f (Some l) o = Some (r, x) -> r = None -> False.
Proof.
  induction f as [|f IH]; intros l o r x H; destruct o; try (inversion H; discriminate);
    rewrite deref_ref in H; destruct (lookup m (id, gen)); try discriminate.
  exact (IH _ _ _ _ H).
Qed.

(* replacing the dictionary at the end of a chain by another dictionary *)
Lemma deref_insert_final m rid c c' : forall fuel last i g,
  deref_aux m fuel last (ORef i g) = Some (Some rid, ODict c) ->
  deref_aux (insert m rid (ODict c')) fuel last (ORef i g) = Some (Some rid, ODict c').
Proof.
  induction fuel as [|f IH]; intros last i g H; rewrite deref_ref in *.
  - destruct (lookup m (i, g)); discriminate.
  - destruct (lookup m (i, g)) as [o1|] eqn:E; [|discriminate].
    rewrite lookup_insert.
    destruct (is_ref o1) eqn:R.
    + destruct o1; try discriminate.
      pose proof (deref_final _ _ _ _ _ _ H) as [[_ X]|L]; [discriminate|].
      rewrite oid_eqb_neq by (intro; subst rid; congruence).
      rewrite E. apply IH. exact H.
    + rewrite deref_nonref in H by exact R. inversion H; subst.
      rewrite oid_eqb_refl. apply deref_nonref. reflexivity.
Qed.

(* ---------- the attach step ---------- *)
Definition cat_with (cat : dict) (n : oid) : dict := dict_set cat K_Outlines (ORef (fst n) (snd n)).

Lemma attach_catalog d cid rid cat n :
  root_id d = Some cid ->
  get_object_mut_id (d_objects d) cid = Some (rid, ODict cat) ->
  attach d cid n = set_objects d (insert (d_objects d) rid (ODict (cat_with cat n))) (d_max_id d) /\
  catalog (attach d cid n) = Some (cat_with cat n) /\
  lookup (d_objects d) rid = Some (ODict cat).
Proof.
  intros Hroot Hget.
  assert (Hatt : attach d cid n = set_objects d (insert (d_objects d) rid (ODict (cat_with cat n))) (d_max_id d)).
  { unfold attach. rewrite Hget. reflexivity. }
  split; [exact Hatt|]. rewrite Hatt.
  unfold root_id in Hroot. unfold catalog. cbn [d_trailer set_objects d_objects].
  destruct (dict_get (d_trailer d) K_Root) as [[]|]; try discriminate. inversion Hroot; subst cid. clear Hroot.
  unfold get_object_mut_id in Hget. set (m := d_objects d) in *.
  destruct (lookup m (id, gen)) as [o|] eqn:E; [|discriminate].
  unfold get_dictionary, get_object. rewrite lookup_insert.
  unfold dereference in *.
  destruct (is_ref o) eqn:R.
  - destruct o; try discriminate.
    destruct (deref_aux m (N.to_nat Gen.Consts.DEREF_LIMIT) None (ORef id0 gen0)) as [[[r|] o']|] eqn:D; try discriminate.
    + inversion Hget; subst r o'. clear Hget.
      pose proof (deref_final _ _ _ _ _ _ D) as [[X _]|L]; [discriminate|].
      rewrite oid_eqb_neq by (intro; subst rid; congruence).
      rewrite E. rewrite (deref_insert_final _ _ _ (cat_with cat n) _ _ _ _ D). split; [reflexivity | exact L].
    + exfalso. rewrite deref_ref in D. destruct (lookup m (id0, gen0)); [|discriminate].
      destruct (N.to_nat Gen.Consts.DEREF_LIMIT); [discriminate|].
      exact (deref_last_some _ _ _ _ _ _ D eq_refl).
  - rewrite deref_nonref in Hget by exact R. inversion Hget; subst rid o. clear Hget.
    rewrite oid_eqb_refl. cbn [option_map snd deref_aux]. split; [|exact E].
    rewrite deref_nonref by reflexivity. reflexivity.
Qed.

(* ---------- NoDup under a map that is injective on the list ---------- *)
Lemma NoDup_map_in {A B} (f : A -> B) (l : list A) :
  (forall x y, In x l -> In y l -> f x = f y -> x = y) -> NoDup l -> NoDup (map f l).
Proof.
  intros Hinj Hnd. induction Hnd as [|x l Hx Hnd IH]; [constructor|].
  cbn [map]. constructor.
  - intro Hin. apply in_map_iff in Hin. destruct Hin as [y [E Hy]].
    apply Hinj in E; [subst; contradiction | right; exact Hy | left; reflexivity].
  - apply IH. intros a b Ha Hb. apply Hinj; right; assumption.
Qed.

(* ---------- counting objects ---------- *)
Lemma lookup_In m id o : lookup m id = Some o -> In (id, o) m.
Proof.
  induction m as [|[i o'] m IH]; cbn [lookup]; [discriminate|].
  destruct (oid_eqb i id) eqn:E.
  - apply oid_eqb_eq in E. subst. intro H. inversion H. left. reflexivity.
  - intro H. right. apply IH. exact H.
Qed.

Lemma length_ge_ids (m : objmap) (ids : list oid) :
  NoDup ids -> (forall id, In id ids -> lookup m id <> None) -> (length ids <= length m)%nat.
Proof.
  intros Hnd Hall. rewrite <- (map_length fst m). apply NoDup_incl_length; [exact Hnd|].
  intros id Hin. specialize (Hall id Hin). destruct (lookup m id) as [o|] eqn:E; [|congruence].
  apply lookup_In in E. apply in_map_iff. exists (id, o). split; [reflexivity | exact E].
Qed.

Lemma numbered_ofheight m f f' m' : numbered m f f' m' -> ofheight f' = fheight f.
Proof.
  induction 1 as [m | m b d ks ks' m1 rest rest' m2 H1 IH1 H2 IH2]; [reflexivity|].
  rewrite ofheight_cons, oheight_node, fheight_cons, iheight_node. congruence.
Qed.

(* ---------- hypotheses of the read-back clause ---------- *)
(* "Current maximum object id within the document" *)
Definition max_id_bounds (d : doc) : Prop := forall id o, lookup (d_objects d) id = Some o -> fst id <= d_max_id d.

Definition row_title (r : row) : ustring := snd (fst r).
Definition distinct_titles (f : list itree) : Prop := NoDup (titles f).
Definition scalar_titles (f : list itree) : Prop := Forall (fun r => Forall scalar (row_title r)) (preorder f).
Definition targets_are_pages (d : doc) (f : list itree) : Prop :=
  Forall (fun r : row => exists n, page_num (get_pages d) (snd r) = Some n) (preorder f).

Definition expected_toc (d : doc) (f : list itree) : list toc_entry := map (entry_of (get_pages d)) (preorder f).

Lemma keys_distinct f : distinct_titles f -> scalar_titles f -> NoDup (map row_key (preorder f)).
Proof.
  intros Hd Hs. unfold distinct_titles, titles in Hd.
  replace (map row_key (preorder f)) with (map title_bytes (map (fun r : row => snd (fst r)) (preorder f)))
    by (rewrite map_map; reflexivity).
  apply NoDup_map_in; [|exact Hd].
  unfold scalar_titles in Hs. rewrite Forall_forall in Hs.
  intros x y Hx Hy. apply in_map_iff in Hx, Hy. destruct Hx as [rx [<- Hx]], Hy as [ry [<- Hy]].
  apply title_bytes_inj; [exact (Hs _ Hx) | exact (Hs _ Hy)].
Qed.

(* ---------- a document that holds the outline of a numbered forest, ready for get_toc ---------- *)
Definition holds_outline (d : doc) (root : N) (f' : list otree) : Prop :=
  exists cat,
    catalog d = Some cat /\ dict_get cat K_Outlines = Some (ORef root 0) /\ no_name_trees cat /\
    outline_ok (get_of (d_objects d)) root f' /\ f' <> [] /\
    (ofsize f' <= S (length (d_objects d)))%nat.

Lemma toc_of_holds d root f' fuel :
  holds_outline d root f' ->
  (ofsize f' <= fuel)%nat ->
  N.of_nat (ofheight f') <= OUTLINE_DEPTH_LIMIT + 1 ->
  NoDup (map row_key (flat_map (orows 1) f')) ->
  Forall (row_ok (get_pages d)) (flat_map (orows 1) f') ->
  get_toc fuel d = TOk (map (entry_of (get_pages d)) (flat_map (orows 1) f')) 0.
Proof.
  intros [cat [H1 [H2 [H3 [H4 [H5 H6]]]]]] Hfuel Hdeep Hnd Hrows.
  apply (toc_of_outline d cat root f' fuel); assumption.
Qed.

(* the same without the clause "the catalog has neither Dests nor Names": what the read-back theorems over the
   complete model (Model/TocNamed.v, get_toc with get_named_destinations) need -- Proofs/OutlineProofsNamed.v *)
Definition holds_any (d : doc) (root : N) (f' : list otree) : Prop :=
  exists cat,
    catalog d = Some cat /\ dict_get cat K_Outlines = Some (ORef root 0) /\
    outline_ok (get_of (d_objects d)) root f' /\ f' <> [] /\
    (ofsize f' <= S (length (d_objects d)))%nat.

Lemma holds_outline_any d root f' : holds_outline d root f' -> holds_any d root f'.
Proof. intros [cat [H1 [H2 [_ [H4 [H5 H6]]]]]]. exists cat. exact (conj H1 (conj H2 (conj H4 (conj H5 H6)))). Qed.

(* build_outline + attach produce such a document, whatever else the catalog holds *)
Theorem build_holds_any b f cid rid cat fuel :
  bookmarks b = map iid f -> f <> [] ->
  Forall (trepr (bookmark_table b)) f ->
  let d := base b in
  let m0 := d_max_id d in
  let m' := m0 + 1 + 2 * N.of_nat (fsize f) in
  max_id_bounds d ->
  m' < U32_LIMIT ->
  root_id d = Some cid ->
  get_object_mut_id (d_objects d) cid = Some (rid, ODict cat) ->
  (fheight f <= fuel)%nat ->
  exists b' f',
    numbered (m0 + 1) f f' m' /\
    build_outline fuel b = OOk (Some (m0 + 1, 0), b') /\
    holds_any (attach (base b') cid (m0 + 1, 0)) (m0 + 1) f' /\
    catalog (attach (base b') cid (m0 + 1, 0)) = Some (cat_with cat (m0 + 1, 0)).
Proof.
  intros Hroots Hne Htr d m0 m' Hmax Hlim Hroot Hcat Hfuel.
  destruct (build_outline_ok b f fuel Hroots Hne Htr Hfuel Hlim)
    as [f' [b' [Hnum [Hbuild [Hmax' [Htrailer [Hok [Hframe Hcreated]]]]]]]].
  fold d m0 in Hnum, Hbuild, Hmax', Hframe, Hcreated, Hok. fold m' in Hnum, Hmax', Hframe, Hcreated.
  exists b', f'. split; [exact Hnum|]. split; [exact Hbuild|].
  set (d2 := attach (base b') cid (m0 + 1, 0)).
  set (d1 := base b') in *.
  (* the old objects are still there *)
  assert (Hext : extends (d_objects d) (d_objects d1)).
  { intros id o Hl. rewrite Hframe; [exact Hl|]. intros [Hc _]. apply Hmax in Hl. fold m0 in Hl. lia. }
  assert (Hroot1 : root_id d1 = Some cid) by (unfold root_id in *; rewrite Htrailer; exact Hroot).
  assert (Hcat1 : get_object_mut_id (d_objects d1) cid = Some (rid, ODict cat)).
  { unfold get_object_mut_id in *. destruct (lookup (d_objects d) cid) as [o|] eqn:E; [|discriminate].
    rewrite (Hext _ _ E). unfold dereference in *.
    destruct (deref_aux (d_objects d) (N.to_nat Gen.Consts.DEREF_LIMIT) None o) as [r|] eqn:D; [|discriminate].
    rewrite (deref_extends _ _ Hext _ _ _ _ D). exact Hcat. }
  destruct (attach_catalog d cid rid cat (m0 + 1, 0) Hroot Hcat) as [_ [_ Hrid]].
  destruct (attach_catalog d1 cid rid cat (m0 + 1, 0) Hroot1 Hcat1) as [Hatt [Hcatalog _]].
  fold d2 in Hatt, Hcatalog.
  assert (Hrid_old : fst rid <= m0) by (apply (Hmax _ _ Hrid)).
  (* the outline objects are untouched by attach *)
  assert (Hlk2 : forall k, m0 < k -> lookup (d_objects d2) (k, 0) = lookup (d_objects d1) (k, 0)).
  { intros k Hk. rewrite Hatt. cbn [d_objects set_objects]. rewrite lookup_insert.
    rewrite oid_eqb_neq; [reflexivity|]. intro X. subst rid. cbn [fst] in Hrid_old. lia. }
  assert (Hget2 : forall k, m0 < k -> get_of (d_objects d2) k = get_of (d_objects d1) k).
  { intros k Hk. unfold get_of. rewrite Hlk2 by exact Hk. reflexivity. }
  (* the reference budget of get_outlines (= number of objects) covers the items *)
  assert (Hcount : (2 * fsize f <= length (d_objects d2))%nat).
  { pose proof (numbered_oids _ _ _ _ Hnum) as Eo.
    replace (2 * fsize f)%nat with (length (map (fun k : N => (k, 0)) (flat_map oids f')))
      by (rewrite map_length, Eo; clear; generalize (m0 + 1 + 1); induction (2 * fsize f)%nat; intro s; cbn [nseq length]; [reflexivity | rewrite IHn; reflexivity]).
    apply length_ge_ids.
    - apply NoDup_map_in; [intros x y _ _ E; inversion E; reflexivity|]. rewrite Eo. apply nseq_NoDup.
    - intros id Hin. apply in_map_iff in Hin. destruct Hin as [k [<- Hk]].
      pose proof (numbered_range _ _ _ _ k Hnum Hk) as Hr.
      rewrite Hlk2 by lia. destruct (Hcreated (k, 0)) as [dk Hdk]; [split; cbn [fst snd]; [lia | reflexivity]|].
      rewrite Hdk. discriminate. }
  split; [|exact Hcatalog].
  exists (cat_with cat (m0 + 1, 0)).
  split; [exact Hcatalog|].
  split; [unfold cat_with; rewrite dict_get_set, bytes_eqb_refl; reflexivity|].
  split.
  { destruct Hok as [Hitems [od Hod]]. constructor.
    - eapply items_ok_ext; [exact Hitems|]. intros k Hk. apply Hget2.
      pose proof (numbered_range _ _ _ _ k Hnum Hk). lia.
    - exists od. rewrite Hget2 by lia. exact Hod. }
  split.
  { intro X. apply numbered_length in Hnum. rewrite X in Hnum. destruct f; [congruence | discriminate]. }
  rewrite (numbered_ofsize _ _ _ _ Hnum). lia.
Qed.

(* ... and a catalog without name trees stays without them *)
Theorem build_holds b f cid rid cat fuel :
  bookmarks b = map iid f -> f <> [] ->
  Forall (trepr (bookmark_table b)) f ->
  let d := base b in
  let m0 := d_max_id d in
  let m' := m0 + 1 + 2 * N.of_nat (fsize f) in
  max_id_bounds d ->
  m' < U32_LIMIT ->
  root_id d = Some cid ->
  get_object_mut_id (d_objects d) cid = Some (rid, ODict cat) ->
  no_name_trees cat ->
  (fheight f <= fuel)%nat ->
  exists b' f',
    numbered (m0 + 1) f f' m' /\
    build_outline fuel b = OOk (Some (m0 + 1, 0), b') /\
    holds_outline (attach (base b') cid (m0 + 1, 0)) (m0 + 1) f'.
Proof.
  intros Hroots Hne Htr d m0 m' Hmax Hlim Hroot Hcat Hnn Hfuel.
  destruct (build_holds_any b f cid rid cat fuel Hroots Hne Htr Hmax Hlim Hroot Hcat Hfuel)
    as [b' [f' [Hnum [Hbuild [[cat' [H1 [H2 [H4 [H5 H6]]]]] Hcatalog]]]]].
  fold d m0 in Hnum, Hbuild, H1, H4, H6, Hcatalog. fold m' in Hnum.
  exists b', f'. split; [exact Hnum|]. split; [exact Hbuild|].
  exists cat'. split; [exact H1|]. split; [exact H2|]. split; [|exact (conj H4 (conj H5 H6))].
  rewrite Hcatalog in H1. inversion H1; subst cat'.
  destruct Hnn as [N1 N2]. unfold cat_with. split; rewrite dict_get_set.
  - change (bytes_eqb K_Outlines K_Dests) with false. exact N1.
  - change (bytes_eqb K_Outlines K_Names) with false. exact N2.
Qed.

(* the conditions of get_toc that depend on the titles and the height, on the numbered forest *)
Lemma numbered_conditions m f f' m' fuel2 :
  numbered m f f' m' ->
  distinct_titles f -> scalar_titles f ->
  N.of_nat (fheight f) <= OUTLINE_DEPTH_LIMIT + 1 ->
  (fsize f <= fuel2)%nat ->
  flat_map (orows 1) f' = preorder f /\
  (ofsize f' <= fuel2)%nat /\
  N.of_nat (ofheight f') <= OUTLINE_DEPTH_LIMIT + 1 /\
  NoDup (map row_key (flat_map (orows 1) f')).
Proof.
  intros Hnum Hdist Hscal Hdeep Hfuel2.
  pose proof (numbered_rows _ _ _ _ Hnum 1) as Hrows. fold (preorder f) in Hrows.
  split; [exact Hrows|].
  split; [rewrite (numbered_ofsize _ _ _ _ Hnum); exact Hfuel2|].
  split; [rewrite (numbered_ofheight _ _ _ _ Hnum); exact Hdeep|].
  rewrite Hrows. apply keys_distinct; assumption.
Qed.

Lemma rows_ok d f : scalar_titles f -> targets_are_pages d f -> Forall (row_ok (get_pages d)) (preorder f).
Proof.
  unfold scalar_titles, targets_are_pages. rewrite !Forall_forall.
  intros Hs Ht r Hr. split; [exact (Hs r Hr) | exact (Ht r Hr)].
Qed.

(* ---------- main theorem over a represented forest ---------- *)
Theorem reads_back_forest b f cid rid cat fuel fuel2 :
  bookmarks b = map iid f -> f <> [] ->
  Forall (trepr (bookmark_table b)) f ->
  let d := base b in
  let m0 := d_max_id d in
  max_id_bounds d ->
  m0 + 1 + 2 * N.of_nat (fsize f) < U32_LIMIT ->
  root_id d = Some cid ->
  get_object_mut_id (d_objects d) cid = Some (rid, ODict cat) ->
  no_name_trees cat ->
  distinct_titles f -> scalar_titles f ->
  N.of_nat (fheight f) <= OUTLINE_DEPTH_LIMIT + 1 ->
  (fheight f <= fuel)%nat ->
  (fsize f <= fuel2)%nat ->
  exists b',
    build_outline fuel b = OOk (Some (m0 + 1, 0), b') /\
    let d2 := attach (base b') cid (m0 + 1, 0) in
    (targets_are_pages d2 f -> get_toc fuel2 d2 = TOk (expected_toc d2 f) 0).
Proof.
  intros Hroots Hne Htr d m0 Hmax Hlim Hroot Hcat Hnn Hdist Hscal Hdeep Hfuel Hfuel2.
  destruct (build_holds b f cid rid cat fuel Hroots Hne Htr Hmax Hlim Hroot Hcat Hnn Hfuel)
    as [b' [f' [Hnum [Hbuild Hholds]]]].
  fold d m0 in Hnum, Hbuild, Hholds.
  exists b'. split; [exact Hbuild|]. intros d2 Htargets.
  destruct (numbered_conditions _ _ _ _ fuel2 Hnum Hdist Hscal Hdeep Hfuel2) as [Hrows [C1 [C2 C3]]].
  unfold expected_toc. rewrite <- Hrows.
  apply (toc_of_holds d2 (m0 + 1) f' fuel2 Hholds C1 C2 C3).
  rewrite Hrows. apply rows_ok; assumption.
Qed.

(* no root bookmark: nothing is built *)
Lemma build_outline_empty fuel b : bookmarks b = [] -> build_outline fuel b = OOk (None, b).
Proof. intro H. unfold build_outline. rewrite H. reflexivity. Qed.

(* ---------- main theorem over add_bookmark calls ---------- *)
Theorem reads_back_ops d ops cid rid cat fuel2 :
  let b := add_all (fresh_bdoc d) ops in
  let f := forest_of_ops (map sop_of ops) in
  let m0 := d_max_id d in
  f <> [] ->
  max_id_bounds d ->
  m0 + 1 + 2 * N.of_nat (fsize f) < U32_LIMIT ->
  root_id d = Some cid ->
  get_object_mut_id (d_objects d) cid = Some (rid, ODict cat) ->
  no_name_trees cat ->
  distinct_titles f -> scalar_titles f ->
  N.of_nat (fheight f) <= OUTLINE_DEPTH_LIMIT + 1 ->
  (fsize f <= fuel2)%nat ->
  exists b',
    build_outline (default_fuel b) b = OOk (Some (m0 + 1, 0), b') /\
    let d2 := attach (base b') cid (m0 + 1, 0) in
    (targets_are_pages d2 f -> get_toc fuel2 d2 = TOk (expected_toc d2 f) 0).
Proof.
  intros b f m0 Hne Hmax Hlim Hroot Hcat Hnn Hdist Hscal Hdeep Hfuel2.
  destruct (add_all_repr d ops) as [Hbase [Hroots [Htr Hdf]]]. fold b f in Hbase, Hroots, Htr, Hdf.
  rewrite Hdf.
  pose proof (reads_back_forest b f cid rid cat (S (length ops)) fuel2 Hroots Hne Htr) as H.
  cbv zeta in H. rewrite Hbase in H. fold m0 in H.
  apply H; try assumption. apply forest_height.
Qed.
