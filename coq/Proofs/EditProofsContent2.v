(* EditProofsContent2.v -- C11, part 5: I_content for change_content_stream, change_page_content (the code after the repairs of
   C11-content-indirect and C11-content-shared) and add_to_page_content, on EVERY shape of the page and of its Contents entry
   (the page possibly behind reference objects; Contents a stream or an array, items and entry possibly behind references, or
   something else altogether), with the frame of each call. *)
From LV Require Import Base.Bytes Model.Obj Model.DocQ Model.PageTree Model.Traverse Model.Edit Model.StreamFilt
  Model.Writer Gen.Consts Spec.RenumberSpec Spec.AbstractDoc Proofs.RenumberProofsMap Proofs.EditProofs
  Proofs.EditProofsContent.

(* ---------- change_content_stream: the frame ---------- *)
Definition rewritten_stream (O : oracles) (sd : dict) (c0 c : bytes) : stream :=
  compress (o_deflate O) (set_plain_content {| s_dict := sd; s_content := c0 |} c).

Lemma ccs_stream O d id c sd c0 :
  lookup (d_objects d) id = Some (OStream sd c0) ->
  change_content_stream O d id c = with_objs d (update (d_objects d) id (stream_obj (rewritten_stream O sd c0 c))).
Proof. intro L. unfold change_content_stream. rewrite L. reflexivity. Qed.

Lemma ccs_not_stream O d id c :
  (forall sd c0, lookup (d_objects d) id <> Some (OStream sd c0)) -> change_content_stream O d id c = d.
Proof.
  intro H. unfold change_content_stream. destruct (lookup (d_objects d) id) as [[| | | | | | | |sd c0|]|] eqn:E; try reflexivity.
  exfalso. exact (H sd c0 eq_refl).
Qed.

(* nothing but the named object changes, and that only when it is a stream *)
Theorem ccs_frame O d id c :
  let d' := change_content_stream O d id c in
  d_trailer d' = d_trailer d /\ d_max_id d' = d_max_id d /\ map fst (d_objects d') = map fst (d_objects d) /\
  (forall x, x <> id -> lookup (d_objects d') x = lookup (d_objects d) x) /\
  (forall sd c0, lookup (d_objects d) id = Some (OStream sd c0) ->
                 lookup (d_objects d') id = Some (stream_obj (rewritten_stream O sd c0 c))) /\
  ((forall sd c0, lookup (d_objects d) id <> Some (OStream sd c0)) -> d' = d).
Proof.
  cbn zeta. unfold change_content_stream.
  destruct (lookup (d_objects d) id) as [[| | | | | | | |sd c0|]|] eqn:E;
    try (repeat split; try reflexivity; [intros sd0 c1 H; discriminate]).
  cbn [d_trailer d_max_id d_objects with_objs]. repeat split.
  - apply keys_update.
  - intros x Hx. rewrite lookup_update. replace (oid_eqb id x) with false; [reflexivity|].
    symmetry. apply oid_eqb_neq. congruence.
  - intros sd0 c1 H. inversion H; subst. rewrite lookup_update, oid_eqb_refl, E. reflexivity.
  - intro H. exfalso. exact (H sd c0 eq_refl).
Qed.

Lemma existsb_false_in {A} (f : A -> bool) l x : existsb f l = false -> In x l -> f x = false.
Proof.
  intros H Hin. destruct (f x) eqn:E; [|reflexivity].
  assert (existsb f l = true) by (apply existsb_exists; exists x; split; assumption). congruence.
Qed.

(* the stream a page shows alone is a stream object *)
Lemma stream_id_of_is_stream m x sid : stream_id_of m x = Some sid -> exists sd c0, lookup m sid = Some (OStream sd c0).
Proof.
  unfold stream_id_of. destruct (dereference m x) as [[[r0|] [| | | | | | | |sd b0|]]|] eqn:D; try discriminate.
  intro H; inversion H; subst r0. exists sd, b0. eapply dereference_ends; exact D.
Qed.

Lemma single_stream_is_stream m x sid : single_stream m x = Some sid -> exists sd c0, lookup m sid = Some (OStream sd c0).
Proof.
  unfold single_stream. destruct (dereference m x) as [[r y]|]; [|apply stream_id_of_is_stream].
  destruct y as [| | | | | |l| | |]; try apply stream_id_of_is_stream.
  destruct l as [|x1 [|x2 l]]; try discriminate. apply stream_id_of_is_stream.
Qed.

Section Content2.
  Variable decode : dict -> bytes -> bytes.

  (* I_content for change_content_stream (any page, any shape): a page that does not show the stream keeps its content; a
     page that shows this stream alone shows exactly the new data; a page whose content is an array shows its items with
     every item that leads to the stream replaced by the new data ([expect]) *)
  Theorem ccs_content O d id c sd c0 :
    lookup (d_objects d) id = Some (OStream sd c0) ->
    let s' := rewritten_stream O sd c0 c in
    let d' := change_content_stream O d id c in
    let nd := decode (s_dict s') (s_content s') in
    (forall q b, page_shows_stream (d_objects d) id q = false ->
                 page_content decode (d_objects d) q = Some b -> page_content decode (d_objects d') q = Some b) /\
    (forall q qd x, get_dictionary (d_objects d) q = Some qd -> dict_get qd K_Contents = Some x ->
                    single_stream (d_objects d) x = Some id -> page_content decode (d_objects d') q = Some nd) /\
    (forall q qd x r l b, get_dictionary (d_objects d) q = Some qd -> dict_get qd K_Contents = Some x ->
                          dereference (d_objects d) x = Some (r, OArr l) -> page_content decode (d_objects d) q = Some b ->
                          page_content decode (d_objects d') q = expect decode (d_objects d) id nd l).
  Proof.
    intros L s' d' nd. unfold d'. rewrite (ccs_stream O d id c sd c0 L). fold s'. cbn [d_objects with_objs].
    unfold stream_obj. set (m := d_objects d) in *.
    pose proof (grows_update m id (OStream sd c0) (OStream (s_dict s') (s_content s')) L I I) as G.
    split; [|split].
    - intros q b Hs Hb. exact (page_content_unshown decode m _ id sd c0 _ _ G q b Hs Hb).
    - intros q qd x Gq Ec Hs. exact (page_content_single decode m _ id sd c0 _ _ G q qd x Gq Ec Hs).
    - intros q qd x r l b Gq Ec D Hb. exact (page_content_inplace_array decode m _ id sd c0 _ _ G q qd x r l b Gq Ec D Hb).
  Qed.

  (* ---------- change_page_content ---------- *)
  (* the page gets a new stream as its Contents *)
  Lemma replace_page_content_content d page pd t c :
    alloc_ok d -> (d_max_id d < Renumber.U32_MAX)%N ->
    get_dictionary (d_objects d) page = Some pd -> get_object_mut_id (d_objects d) page = Some t ->
    lookup (d_objects d) t = Some (ODict pd) ->
    exists d',
      replace_page_content d page c = (d', OOk) /\
      page_content decode (d_objects d') page = Some (decode (new_dict c) c) /\
      (forall q b, get_object_mut_id (d_objects d) q <> Some t ->
                   page_content decode (d_objects d) q = Some b -> page_content decode (d_objects d') q = Some b) /\
      d_trailer d' = d_trailer d.
  Proof.
    intros A Hmax Gp Tp Lt. set (m := d_objects d) in *.
    set (v := ORef (d_max_id d + 1) 0).
    destruct (add_then_set d page pd t v c A Hmax Gp Tp Lt) as [Ha [Hs [G Ln]]].
    cbv zeta in Ha, Hs, G, Ln. fold m in Ha, Hs, G, Ln.
    set (m2 := update (insert m ((d_max_id d + 1)%N, 0%N) (new_stream c)) t (ODict (dict_set pd K_Contents v))) in *.
    assert (Ns : forall sd c1, ODict pd <> OStream sd c1) by (intros; discriminate).
    assert (Na : forall l, ODict pd <> OArr l) by (intros; discriminate).
    eexists. split; [|split; [|split]].
    - unfold replace_page_content. rewrite Ha. cbn [fst snd]. fold v. rewrite Hs. reflexivity.
    - cbn [d_objects with_objs]. unfold page_content.
      destruct (get_dictionary_grows_at m m2 t _ _ page pd G Gp Tp) as [-> _].
      change S_Contents with K_Contents. rewrite dict_get_set_same. unfold v.
      rewrite (dereference_one_hop m2 (d_max_id d + 1)%N 0%N (new_stream c) Ln I). reflexivity.
    - intros q b Hq Hb. cbn [d_objects with_objs]. apply (page_content_keeps decode m m2 t _ _ G Ns Na); assumption.
    - reflexivity.
  Qed.

  (* I_content for change_page_content on ANY page that has a Contents entry, whatever the entry is: the call succeeds; the
     page then shows exactly what the ONE stream written decodes to -- the stream the page showed alone, rewritten in place by
     set_plain_content + compress (only when no other page of the document shows that stream), or a fresh uncompressed stream
     holding the content; every OTHER page of the document (a page whose dictionary is another object) with a defined content
     shows what it showed before; the trailer is unchanged *)
  Theorem cpc_content O d page pd c x :
    alloc_ok d -> (d_max_id d < Renumber.U32_MAX)%N ->
    get_dictionary (d_objects d) page = Some pd -> dict_get pd K_Contents = Some x ->
    exists d' sd' c',
      change_page_content O d page c = (d', OOk) /\
      ((exists id sd c0, single_stream (d_objects d) x = Some id /\ is_content_stream_of_another_page d id page = false /\
                         lookup (d_objects d) id = Some (OStream sd c0) /\
                         OStream sd' c' = stream_obj (rewritten_stream O sd c0 c)) \/
       OStream sd' c' = new_stream c) /\
      page_content decode (d_objects d') page = Some (decode sd' c') /\
      (forall q b, In q (page_iter d) -> get_object_mut_id (d_objects d) q <> get_object_mut_id (d_objects d) page ->
                   page_content decode (d_objects d) q = Some b -> page_content decode (d_objects d') q = Some b) /\
      d_trailer d' = d_trailer d.
  Proof.
    intros A Hmax Gp Ec. set (m := d_objects d) in *.
    destruct (get_dictionary_target m page pd Gp) as [t [Tp Lt]].
    assert (New : exists d' sd' c',
              replace_page_content d page c = (d', OOk) /\
              ((exists id sd c0, single_stream m x = Some id /\ is_content_stream_of_another_page d id page = false /\
                                 lookup m id = Some (OStream sd c0) /\
                                 OStream sd' c' = stream_obj (rewritten_stream O sd c0 c)) \/
               OStream sd' c' = new_stream c) /\
              page_content decode (d_objects d') page = Some (decode sd' c') /\
              (forall q b, In q (page_iter d) -> get_object_mut_id m q <> get_object_mut_id m page ->
                           page_content decode m q = Some b -> page_content decode (d_objects d') q = Some b) /\
              d_trailer d' = d_trailer d).
    { destruct (replace_page_content_content d page pd t c A Hmax Gp Tp Lt) as [d' [H1 [H2 [H3 H4]]]].
      exists d', (new_dict c), c. split; [exact H1|]. split; [right; reflexivity|]. split; [exact H2|]. split; [|exact H4].
      intros q b _ Hq Hb. apply H3; [|exact Hb]. fold m. rewrite <- Tp. exact Hq. }
    unfold change_page_content. fold m. rewrite Gp, Ec.
    destruct (single_stream m x) as [sid|] eqn:Hs; [|exact New].
    destruct (is_content_stream_of_another_page d sid page) eqn:Hsh; [exact New|]. clear New.
    destruct (single_stream_is_stream m x sid Hs) as [sd [c0 Ls]].
    set (s' := rewritten_stream O sd c0 c).
    destruct (ccs_content O d sid c sd c0 Ls) as [K1 [K2 _]]. fold s' in K1, K2. fold m in K1, K2.
    exists (change_content_stream O d sid c), (s_dict s'), (s_content s').
    split; [reflexivity|]. split; [left; exists sid, sd, c0; repeat split; assumption|].
    split; [exact (K2 page pd x Gp Ec Hs)|]. split; [|apply ccs_frame].
    intros q b Hin Hq Hb. apply K1; [|exact Hb].
    unfold is_content_stream_of_another_page in Hsh. pose proof (existsb_false_in _ _ q Hsh Hin) as Hf. cbn beta in Hf.
    fold m in Hf. destruct (oid_eqb q page) eqn:E; [|exact Hf]. apply oid_eqb_eq in E. subst q. exfalso. apply Hq. reflexivity.
  Qed.

  (* a page without a Contents entry: change_page_content reports an error and changes nothing *)
  Theorem cpc_no_contents O d page pd c :
    get_dictionary (d_objects d) page = Some pd -> dict_get pd K_Contents = None ->
    change_page_content O d page c = (d, OErr).
  Proof. intros G E. unfold change_page_content. rewrite G, E. reflexivity. Qed.

  (* ---------- add_to_page_content = add_page_contents of the encoded operations ---------- *)
  Theorem atpc_content d page ops old :
    alloc_ok d -> (d_max_id d < Renumber.U32_MAX)%N ->
    page_content decode (d_objects d) page = Some old ->
    let c := encode_content ops in
    exists d',
      add_to_page_content d page ops = (d', OOk) /\
      page_content decode (d_objects d') page = Some (old ++ decode (new_dict c) c) /\
      (forall q b, get_object_mut_id (d_objects d) q <> get_object_mut_id (d_objects d) page ->
                   page_content decode (d_objects d) q = Some b -> page_content decode (d_objects d') q = Some b) /\
      d_trailer d' = d_trailer d.
  Proof. intros A Hmax H c. unfold add_to_page_content. apply (add_page_contents_content decode d page c old); assumption. Qed.
End Content2.
