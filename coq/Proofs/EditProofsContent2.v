(* EditProofsContent2.v -- C11, part 5: I_content for change_content_stream, change_page_content and
   add_to_page_content on "plain" pages (direct dictionary objects whose Contents is absent, a reference that directly
   names a stream, or a direct array of such references: the complement of the class C11-content-indirect), with the
   frame of each call.  A page that shares the rewritten stream is the class C11-content-shared: the theorems say which
   pages are unaffected (those that do not name the rewritten stream) and what the others show. *)
From LV Require Import Base.Bytes Model.Obj Model.DocQ Model.PageTree Model.Traverse Model.Edit Model.StreamFilt
  Model.Writer Gen.Consts Spec.RenumberSpec Spec.AbstractDoc Proofs.RenumberProofsMap Proofs.EditProofs
  Proofs.EditProofsContent.

(* ---------- change_content_stream: the frame ---------- *)
Definition rewritten_stream (O : oracles) (sd : dict) (c0 c : bytes) : stream :=
  compress (o_deflate O) (set_plain_content {| s_dict := sd; s_content := c0 |} c).

Lemma ccs_stream O d id c sd c0 :
  lookup (d_objects d) id = Some (OStream sd c0) ->
  change_content_stream O d id c = with_objs d (update (d_objects d) id (stream_obj (rewritten_stream O sd c0 c))).
Proof. intro L. unfold change_content_stream. rewrite L. reflexivity. Qed.

Lemma ccs_not_stream O d id c :
  (forall sd c0, lookup (d_objects d) id <> Some (OStream sd c0)) -> change_content_stream O d id c = d.
Proof.
  intro H. unfold change_content_stream. destruct (lookup (d_objects d) id) as [[| | | | | | | |sd c0|]|] eqn:E; try reflexivity.
  exfalso. exact (H sd c0 eq_refl).
Qed.

(* nothing but the named object changes, and that only when it is a stream *)
Theorem ccs_frame O d id c :
  let d' := change_content_stream O d id c in
  d_trailer d' = d_trailer d /\ d_max_id d' = d_max_id d /\ map fst (d_objects d') = map fst (d_objects d) /\
  (forall x, x <> id -> lookup (d_objects d') x = lookup (d_objects d) x) /\
  (forall sd c0, lookup (d_objects d) id = Some (OStream sd c0) ->
                 lookup (d_objects d') id = Some (stream_obj (rewritten_stream O sd c0 c))) /\
  ((forall sd c0, lookup (d_objects d) id <> Some (OStream sd c0)) -> d' = d).
Proof.
  cbn zeta. unfold change_content_stream.
  destruct (lookup (d_objects d) id) as [[| | | | | | | |sd c0|]|] eqn:E;
    try (repeat split; try reflexivity; [intros sd0 c1 H; discriminate]).
  cbn [d_trailer d_max_id d_objects with_objs]. repeat split.
  - apply keys_update.
  - intros x Hx. rewrite lookup_update. replace (oid_eqb id x) with false; [reflexivity|].
    symmetry. apply oid_eqb_neq. congruence.
  - intros sd0 c1 H. inversion H; subst. rewrite lookup_update, oid_eqb_refl, E. reflexivity.
  - intro H. exfalso. exact (H sd c0 eq_refl).
Qed.

Section Content2.
  Variable decode : dict -> bytes -> bytes.

  (* what a list of content items shows when the stream [id] now decodes to [nd] and every other stream is as in [m] *)
  Fixpoint expect (m : objmap) (id : oid) (nd : bytes) (l : list obj) : option bytes :=
    match l with
    | [] => Some []
    | x :: l' =>
      match (if is_ref_to id x then Some nd else stream_data decode m x), expect m id nd l' with
      | Some a, Some b => Some (a ++ b)
      | _, _ => None
      end
    end.

  Lemma expect_unused m id nd l :
    ~ In (ORef (fst id) (snd id)) l -> expect m id nd l = concat_streams decode m l.
  Proof.
    induction l as [|x l IH]; intro H; cbn [expect concat_streams]; [reflexivity|].
    rewrite IH by (intro Hin; apply H; right; exact Hin).
    replace (is_ref_to id x) with false; [reflexivity|].
    symmetry. destruct x as [| | | | | | | | |i g]; try reflexivity. cbn [is_ref_to].
    apply oid_eqb_neq. intro E. apply H. left. subst id. reflexivity.
  Qed.

  Lemma expect_single m id nd : expect m id nd [ORef (fst id) (snd id)] = Some nd.
  Proof.
    cbn [expect is_ref_to]. destruct id as [i g]. cbn [fst snd]. rewrite oid_eqb_refl, app_nil_r. reflexivity.
  Qed.

  (* the stream [id] of [m] is replaced by (sd', c') *)
  Lemma concat_streams_update m id sd c0 sd' c' l :
    lookup m id = Some (OStream sd c0) -> Forall (stream_ref m) l ->
    concat_streams decode (update m id (OStream sd' c')) l = expect m id (decode sd' c') l.
  Proof.
    intros L F. induction F as [|x l [i [g [sd1 [c1 [-> L1]]]]] F IH]; cbn [concat_streams expect]; [reflexivity|].
    rewrite IH. cbn [is_ref_to]. destruct (oid_eqb (i, g) id) eqn:E.
    - apply oid_eqb_eq in E. subst id.
      rewrite (stream_data_ref decode _ i g sd' c'); [reflexivity|].
      rewrite lookup_update, oid_eqb_refl, L. reflexivity.
    - rewrite (stream_data_ref decode _ i g sd1 c1), (stream_data_ref decode m i g sd1 c1 L1); [reflexivity|].
      rewrite lookup_update. rewrite oid_eqb_sym, E. exact L1.
  Qed.

  (* I_content for change_content_stream: every plain page shows its items with the rewritten stream decoding to the new
     stream; pages that do not name it are unchanged, a page whose only item it is shows exactly that *)
  Theorem ccs_content O d id c sd c0 :
    lookup (d_objects d) id = Some (OStream sd c0) ->
    let s' := rewritten_stream O sd c0 c in
    let d' := change_content_stream O d id c in
    forall q qd, lookup (d_objects d) q = Some (ODict qd) -> plain_contents (d_objects d) qd ->
      lookup (d_objects d') q = Some (ODict qd) /\
      page_content decode (d_objects d') q = expect (d_objects d) id (decode (s_dict s') (s_content s')) (cur_list qd) /\
      (~ In (ORef (fst id) (snd id)) (cur_list qd) ->
         page_content decode (d_objects d') q = page_content decode (d_objects d) q) /\
      (cur_list qd = [ORef (fst id) (snd id)] ->
         page_content decode (d_objects d') q = Some (decode (s_dict s') (s_content s'))).
  Proof.
    intros L s' d' q qd Lq Pq. unfold d'. rewrite (ccs_stream O d id c sd c0 L). fold s'.
    cbn [d_objects with_objs]. set (m := d_objects d) in *. unfold stream_obj.
    assert (Hq : q <> id) by (intro E; subst q; congruence).
    assert (Lq' : lookup (update m id (OStream (s_dict s') (s_content s'))) q = Some (ODict qd)).
    { rewrite lookup_update. replace (oid_eqb id q) with false; [exact Lq|]. symmetry. apply oid_eqb_neq. congruence. }
    assert (Hmain : page_content decode (update m id (OStream (s_dict s') (s_content s'))) q =
                    expect m id (decode (s_dict s') (s_content s')) (cur_list qd)).
    { unfold page_content. rewrite (get_dictionary_direct _ q qd Lq'). change S_Contents with K_Contents.
      pose proof (cur_list_plain m qd Pq) as Hcur. unfold cur_list in *. unfold plain_contents in Pq.
      destruct (dict_get qd K_Contents) as [x|]; [|reflexivity].
      destruct x as [| | | | | |l| | |i g]; try (destruct Pq as [i0 [g0 [sd1 [c1 [Ex _]]]]]; discriminate).
      - rewrite dereference_nonref by exact I. apply (concat_streams_update m id sd c0); assumption.
      - destruct Pq as [i0 [g0 [sd1 [c1 [Ex Ls]]]]]. inversion Ex; subst i0 g0.
        cbn [expect is_ref_to]. destruct (oid_eqb (i, g) id) eqn:E.
        + apply oid_eqb_eq in E. subst id.
          rewrite (dereference_one_hop _ i g (OStream (s_dict s') (s_content s'))); [rewrite app_nil_r; reflexivity| |exact I].
          rewrite lookup_update, oid_eqb_refl, L. reflexivity.
        + rewrite (dereference_one_hop _ i g (OStream sd1 c1)); [|rewrite lookup_update, oid_eqb_sym, E; exact Ls | exact I].
          rewrite (stream_data_ref decode m i g sd1 c1 Ls), app_nil_r. reflexivity. }
    split; [exact Lq'|]. split; [exact Hmain|]. split.
    - intro Hn. rewrite Hmain, (expect_unused m id _ _ Hn). symmetry. apply page_content_cur; assumption.
    - intro Hc. rewrite Hmain, Hc. apply expect_single.
  Qed.

  (* ---------- change_page_content ---------- *)
  (* the stream change_page_content rewrites in place, if any *)
  Definition rewritten (pd : dict) : option oid :=
    match dict_get pd K_Contents with
    | Some (ORef i g) => Some (i, g)
    | Some (OArr [ORef i g]) => Some (i, g)
    | _ => None
    end.

  Definition unshared (pd qd : dict) : Prop :=
    match rewritten pd with Some id => ~ In (ORef (fst id) (snd id)) (cur_list qd) | None => True end.

  (* I_content for change_page_content on a plain page that has a Contents entry: the call succeeds; the page then shows
     exactly what the ONE stream that was written decodes to (that stream is either the old one rewritten by
     set_plain_content + compress, or a fresh uncompressed stream holding the content); every other plain page that does
     not name the rewritten stream shows what it showed before; the trailer is unchanged. *)
  Theorem cpc_content O d page pd c x :
    doc_wf d -> alloc_ok d -> (d_max_id d < Renumber.U32_MAX)%N ->
    lookup (d_objects d) page = Some (ODict pd) -> plain_contents (d_objects d) pd ->
    dict_get pd K_Contents = Some x ->
    exists d' sd' c',
      change_page_content O d page c = (d', OOk) /\
      ((exists id sd c0, rewritten pd = Some id /\ lookup (d_objects d) id = Some (OStream sd c0) /\
                         OStream sd' c' = stream_obj (rewritten_stream O sd c0 c)) \/
       (rewritten pd = None /\ OStream sd' c' = new_stream c)) /\
      page_content decode (d_objects d') page = Some (decode sd' c') /\
      (forall q qd, q <> page -> lookup (d_objects d) q = Some (ODict qd) -> plain_contents (d_objects d) qd ->
                    unshared pd qd ->
                    page_content decode (d_objects d') q = page_content decode (d_objects d) q) /\
      d_trailer d' = d_trailer d.
  Proof.
    intros W A Hmax L P Ec. remember (d_objects d) as m eqn:Em.
    (* the in-place case, shared by Contents = reference and Contents = [reference] *)
    assert (InPlace : forall i g, rewritten pd = Some (i, g) -> cur_list pd = [ORef i g] ->
              stream_ref m (ORef i g) ->
              change_page_content O d page c = (change_content_stream O d (i, g) c, OOk) ->
              exists d' sd' c',
                change_page_content O d page c = (d', OOk) /\
                ((exists id sd c0, rewritten pd = Some id /\ lookup m id = Some (OStream sd c0) /\
                                   OStream sd' c' = stream_obj (rewritten_stream O sd c0 c)) \/
                 (rewritten pd = None /\ OStream sd' c' = new_stream c)) /\
                page_content decode (d_objects d') page = Some (decode sd' c') /\
                (forall q qd, q <> page -> lookup m q = Some (ODict qd) -> plain_contents m qd -> unshared pd qd ->
                              page_content decode (d_objects d') q = page_content decode m q) /\
                d_trailer d' = d_trailer d).
    { intros i g Hr Hc [i0 [g0 [sd [c0 [Ex Ls]]]]] Hrun. inversion Ex; subst i0 g0.
      set (s' := rewritten_stream O sd c0 c).
      exists (change_content_stream O d (i, g) c), (s_dict s'), (s_content s').
      split; [exact Hrun|]. split; [left; exists (i, g), sd, c0; repeat split; assumption|].
      rewrite Em in Ls, L.
      destruct (ccs_content O d (i, g) c sd c0 Ls page pd L ltac:(rewrite <- Em; exact P)) as [_ [_ [_ H4]]].
      split; [apply H4; exact Hc|]. split.
      - intros q qd Hq Lq Pq Hu. rewrite Em in Lq.
        destruct (ccs_content O d (i, g) c sd c0 Ls q qd Lq ltac:(rewrite <- Em; exact Pq)) as [_ [_ [H3 _]]].
        rewrite Em. apply H3. unfold unshared in Hu. rewrite Hr in Hu. exact Hu.
      - apply ccs_frame. }
    (* the fresh-stream case *)
    assert (Fresh : rewritten pd = None -> (exists l, x = OArr l) ->
              change_page_content O d page c =
                (match add_object d (new_stream c) with
                 | None => (d, OPanic)
                 | Some (d1, nid) =>
                   match set_page_entry (d_objects d1) page K_Contents (ORef (fst nid) (snd nid)) with
                   | Some m2 => (with_objs d1 m2, OOk)
                   | None => (d1, OOk)
                   end
                 end) ->
              exists d' sd' c',
                change_page_content O d page c = (d', OOk) /\
                ((exists id sd c0, rewritten pd = Some id /\ lookup m id = Some (OStream sd c0) /\
                                   OStream sd' c' = stream_obj (rewritten_stream O sd c0 c)) \/
                 (rewritten pd = None /\ OStream sd' c' = new_stream c)) /\
                page_content decode (d_objects d') page = Some (decode sd' c') /\
                (forall q qd, q <> page -> lookup m q = Some (ODict qd) -> plain_contents m qd -> unshared pd qd ->
                              page_content decode (d_objects d') q = page_content decode m q) /\
                d_trailer d' = d_trailer d).
    { intros Hr _ Hrun.
      set (nid := ((d_max_id d + 1)%N, 0%N)).
      assert (Hfresh : forall y, has_obj m y -> y <> nid).
      { intros y Hy E. subst y m. apply A in Hy. cbn [fst nid] in Hy. lia. }
      set (m1 := insert m nid (new_stream c)).
      set (d1 := with_objs (with_max d (d_max_id d + 1)) m1).
      assert (Hadd : add_object d (new_stream c) = Some (d1, nid)).
      { unfold add_object, new_object_id. apply N.ltb_lt in Hmax. rewrite Hmax. unfold d1, m1. rewrite Em. reflexivity. }
      assert (L1 : forall y, y <> nid -> lookup m1 y = lookup m y).
      { intros y Hy. unfold m1. rewrite lookup_insert. replace (oid_eqb nid y) with false; [reflexivity|].
        symmetry. apply oid_eqb_neq. congruence. }
      assert (Hpn : page <> nid) by (apply Hfresh; eapply lookup_has; exact L).
      set (pd' := dict_set pd K_Contents (ORef (fst nid) (snd nid))).
      set (m2 := update m1 page (ODict pd')).
      assert (Lp1 : lookup m1 page = Some (ODict pd)) by (rewrite L1 by exact Hpn; exact L).
      assert (Lp2 : lookup m2 page = Some (ODict pd')).
      { unfold m2. rewrite lookup_update, oid_eqb_refl, Lp1. reflexivity. }
      assert (L2 : forall y, y <> page -> y <> nid -> lookup m2 y = lookup m y).
      { intros y Hy Hn. unfold m2. rewrite lookup_update. replace (oid_eqb page y) with false; [apply L1; exact Hn|].
        symmetry. apply oid_eqb_neq. congruence. }
      assert (Lsm : forall i g sd c0, lookup m (i, g) = Some (OStream sd c0) -> lookup m2 (i, g) = Some (OStream sd c0)).
      { intros i g sd c0 H. rewrite L2; [exact H| |].
        - intro E. rewrite E in H. congruence.
        - apply Hfresh. eapply lookup_has; exact H. }
      assert (Ln : lookup m2 nid = Some (new_stream c)).
      { unfold m2. rewrite lookup_update. replace (oid_eqb page nid) with false by (symmetry; apply oid_eqb_neq; exact Hpn).
        unfold m1. rewrite lookup_insert, oid_eqb_refl. reflexivity. }
      exists (with_objs d1 m2), (new_dict c), c.
      split.
      { rewrite Hrun, Hadd. unfold set_page_entry. change (d_objects d1) with m1.
        rewrite (get_object_mut_id_direct m1 page pd Lp1), Lp1. reflexivity. }
      split; [right; split; [exact Hr | reflexivity]|]. split; [|split; [|reflexivity]].
      - change (d_objects (with_objs d1 m2)) with m2. unfold page_content.
        rewrite (get_dictionary_direct m2 page pd' Lp2). change S_Contents with K_Contents.
        unfold pd'. rewrite dict_get_set_same.
        replace (ORef (fst nid) (snd nid)) with (ORef (d_max_id d + 1) 0) by reflexivity.
        rewrite (dereference_one_hop m2 (d_max_id d + 1)%N 0%N (new_stream c) Ln I). reflexivity.
      - intros q qd Hq Lq Pq _. change (d_objects (with_objs d1 m2)) with m2.
        assert (Hqn : q <> nid) by (apply Hfresh; eapply lookup_has; exact Lq).
        apply (page_content_agree decode m m2 q qd Lq); [rewrite L2 by assumption; exact Lq | exact Pq | exact Lsm]. }
    (* case analysis on the Contents entry *)
    assert (Hgd : get_dictionary m page = Some pd) by (apply get_dictionary_direct; exact L).
    unfold plain_contents in P. rewrite Ec in P.
    destruct x as [| | | | | |l| | |i g]; try (destruct P as [i0 [g0 [sd [c0 [Ex _]]]]]; discriminate).
    - (* an array *)
      destruct l as [|x1 [|x2 l]].
      + apply Fresh; [unfold rewritten; rewrite Ec; reflexivity | eexists; reflexivity|].
        unfold change_page_content. rewrite <- Em, Hgd, Ec. reflexivity.
      + apply Forall_inv in P. destruct P as [i [g [sd [c0 [-> Ls]]]]].
        apply (InPlace i g).
        * unfold rewritten. rewrite Ec. reflexivity.
        * unfold cur_list. rewrite Ec. reflexivity.
        * exists i, g, sd, c0. split; [reflexivity | exact Ls].
        * unfold change_page_content. rewrite <- Em, Hgd, Ec. reflexivity.
      + apply Fresh; [unfold rewritten; rewrite Ec; destruct x1; reflexivity | eexists; reflexivity|].
        unfold change_page_content. rewrite <- Em, Hgd, Ec. destruct x1; reflexivity.
    - (* a reference to a stream *)
      apply (InPlace i g).
      + unfold rewritten. rewrite Ec. reflexivity.
      + unfold cur_list. rewrite Ec. reflexivity.
      + exact P.
      + unfold change_page_content. rewrite <- Em, Hgd, Ec. reflexivity.
  Qed.

  (* a page without a Contents entry: change_page_content reports an error and changes nothing *)
  Theorem cpc_no_contents O d page pd c :
    lookup (d_objects d) page = Some (ODict pd) -> dict_get pd K_Contents = None ->
    change_page_content O d page c = (d, OErr).
  Proof.
    intros L E. unfold change_page_content. rewrite (get_dictionary_direct _ page pd L), E. reflexivity.
  Qed.

  (* ---------- add_to_page_content = add_page_contents of the encoded operations ---------- *)
  Theorem atpc_content d page pd ops :
    doc_wf d -> alloc_ok d -> (d_max_id d < Renumber.U32_MAX)%N ->
    lookup (d_objects d) page = Some (ODict pd) -> plain_contents (d_objects d) pd ->
    let c := encode_content ops in
    exists d' old,
      add_to_page_content d page ops = (d', OOk) /\
      page_content decode (d_objects d) page = Some old /\
      page_content decode (d_objects d') page = Some (old ++ decode (new_dict c) c) /\
      (forall q qd, q <> page -> lookup (d_objects d) q = Some (ODict qd) -> plain_contents (d_objects d) qd ->
                    page_content decode (d_objects d') q = page_content decode (d_objects d) q) /\
      d_trailer d' = d_trailer d.
  Proof. intros W A Hmax L P c. unfold add_to_page_content. apply (add_page_contents_plain decode d page pd c); assumption. Qed.
End Content2.
