(* IsoProofsObj.v -- C06: "what is encrypted".  lopdf's encrypt_object writes, for every indirect object, exactly
   what the standard's writer writes (Iso.encrypt_indirect): the same strings and streams are encrypted --
   including the strings of stream dictionaries --, with the same method, key and IV; the same objects are
   exempt.  With C05's object_rt it follows that lopdf decrypts what the standard's writer wrote.
   Domain: direct objects contain no stream (ISO 32000 7.3.8: all streams shall be indirect objects). *)
From LV Require Import Base.Bytes Base.Sx Model.Obj Model.DocQ Gen.Crypto
  Model.Crypto.Word Model.Crypto.RC4 Model.Crypto.PKCS5 Model.Crypto.Handler
  Spec.Crypto.Iso Spec.Crypto.IsoConcrete
  Proofs.CryptoProofs Proofs.CryptoProofsFilter Proofs.CryptoProofsObject Proofs.IsoProofs Proofs.IsoProofsData.
Local Open Scope N_scope.

Fixpoint no_streams (o : obj) : Prop :=
  match o with
  | OStream _ _ => False
  | OArr l => (fix go (l : list obj) : Prop := match l with [] => True | x :: r => no_streams x /\ go r end) l
  | ODict d => (fix go (d : dict) : Prop := match d with [] => True | (_, x) :: r => no_streams x /\ go r end) d
  | _ => True
  end.
Fixpoint no_streams_dict (d : dict) : Prop :=
  match d with [] => True | (_, x) :: r => no_streams x /\ no_streams_dict r end.
Fixpoint no_streams_list (l : list obj) : Prop :=
  match l with [] => True | x :: r => no_streams x /\ no_streams_list r end.

(* an indirect object of a well-formed file: a stream whose dictionary holds no stream, or a direct object
   holding no stream *)
(* the Filter entry of a stream is well formed (7.3.8.2, Table 5): a name, or an array of names; a stream whose only
   filter is Crypt, given as a name, has its decode parameters as a dictionary, not as an array; and crypt filters are
   a feature of V 4 and 5 *)
Definition all_names (l : list obj) : Prop := Forall (fun o => match o with OName _ => True | _ => False end) l.
Definition stream_ok (ip : iparams) (sd : dict) : Prop :=
  (match dict_get sd iK_Filter with
   | Some (OArr l) => all_names l
   | Some (OName f) => bytes_eqb f iN_Crypt = true ->
                       match dict_get sd iK_DecodeParms with Some (OArr _) => False | _ => True end
   | _ => True
   end) /\
  ((ip_V ip <? 4)%Z = true -> crypt_filter_name sd = None).

Definition indirect_ok (ip : iparams) (o : obj) : Prop :=
  match o with OStream sd _ => no_streams_dict sd /\ stream_ok ip sd | _ => no_streams o end.

Section Obj.
Variable P : prims.
Hypothesis md5_len : forall m, length (p_md5 P m) = 16%nat.
Let I := iprims_of P.

(* the state lopdf encrypts / decrypts with describes the same choices as the standard's parameters *)
Record agree (st : estate) (ip : iparams) (fek : bytes) : Prop := {
  ag_key : es_key st = fek;
  ag_key_len : (1 <= length fek)%nat;
  ag_em : es_encrypt_metadata st = ip_EncryptMetadata ip;
  ag_str : string_filter st = meth_cfm (string_method ip);
  ag_str_ok : method_ok (string_method ip) fek;
  ag_stm : forall sd c, stream_ok ip sd -> stream_cf st (OStream sd c) = meth_cfm (stream_method ip sd);
  ag_stm_ok : forall sd, method_ok (stream_method ip sd) fek;
}.

(* ---------- the standard's nested loops as top-level functions ---------- *)
Fixpoint iso_list (ip : iparams) (fek : bytes) (id : oid) (l : list obj) (ivs : list bytes) : list obj * list bytes :=
  match l with
  | [] => ([], ivs)
  | x :: l' => let r1 := encrypt_strings I ip fek id x ivs in
               let r2 := iso_list ip fek id l' (snd r1) in (fst r1 :: fst r2, snd r2)
  end.
Fixpoint iso_dict (ip : iparams) (fek : bytes) (id : oid) (d : dict) (ivs : list bytes) : dict * list bytes :=
  match d with
  | [] => ([], ivs)
  | (k, x) :: d' => let r1 := encrypt_strings I ip fek id x ivs in
                    let r2 := iso_dict ip fek id d' (snd r1) in ((k, fst r1) :: fst r2, snd r2)
  end.

Lemma encrypt_strings_arr ip fek id l ivs :
  encrypt_strings I ip fek id (OArr l) ivs = (OArr (fst (iso_list ip fek id l ivs)), snd (iso_list ip fek id l ivs)).
Proof.
  cbn [encrypt_strings]. cbv zeta.
  match goal with |- (OArr (fst ?a), snd ?a) = (OArr (fst ?b), snd ?b) => assert (E : a = b) end.
  { revert ivs. induction l as [|x l IH]; intro ivs; [reflexivity|]. cbn [iso_list]. cbv zeta. rewrite IH. reflexivity. }
  rewrite E. reflexivity.
Qed.

Lemma encrypt_strings_dict ip fek id d ivs :
  encrypt_strings I ip fek id (ODict d) ivs = (ODict (fst (iso_dict ip fek id d ivs)), snd (iso_dict ip fek id d ivs)).
Proof.
  cbn [encrypt_strings]. cbv zeta.
  match goal with |- (ODict (fst ?a), snd ?a) = (ODict (fst ?b), snd ?b) => assert (E : a = b) end.
  { revert ivs. induction d as [|[k x] d IH]; intro ivs; [reflexivity|]. cbn [iso_dict]. cbv zeta. rewrite IH. reflexivity. }
  rewrite E. reflexivity.
Qed.

Lemma encrypt_dict_strings_eq ip fek id d ivs : encrypt_dict_strings I ip fek id d ivs = iso_dict ip fek id d ivs.
Proof.
  unfold encrypt_dict_strings. rewrite encrypt_strings_dict. symmetry. apply surjective_pairing.
Qed.

Lemma skip_non_stream st o : (match o with OStream _ _ => False | _ => True end) -> skip_object st o = false.
Proof. destruct o; intro H; try reflexivity. destruct H. Qed.

Lemma no_streams_arr l : no_streams (OArr l) <-> no_streams_list l.
Proof. induction l as [|x l IH]; [reflexivity|]. cbn [no_streams no_streams_list] in *. rewrite IH. reflexivity. Qed.
Lemma no_streams_dict_eq d : no_streams (ODict d) <-> no_streams_dict d.
Proof. induction d as [|[k x] d IH]; [reflexivity|]. cbn [no_streams no_streams_dict] in *. rewrite IH. reflexivity. Qed.

Lemma iso_step_str ip fek id s h ivs :
  encrypt_strings I ip fek id (OStr s h) ivs =
  (OStr (fst (iso_enc_step P (string_method ip) fek id s ivs)) h, snd (iso_enc_step P (string_method ip) fek id s ivs)).
Proof.
  cbn [encrypt_strings]. cbv zeta. unfold iso_enc_step. fold I.
  destruct (uses_iv (string_method ip)); [destruct (next_iv ivs)|]; reflexivity.
Qed.

(* direct objects *)
Theorem encrypt_strings_refines st ip fek id : agree st ip fek ->
  forall o, no_streams o -> forall ivs, encrypt_object P st id o ivs = Ok (encrypt_strings I ip fek id o ivs).
Proof.
  intros AG.
  induction o as [|b|z|r|n|s h|l Hl|d Hd|d c Hd|i g] using obj_ind5; intros NS ivs;
    try (rewrite encrypt_object_eq, skip_non_stream by exact Logic.I; reflexivity).
  - rewrite encrypt_object_eq, skip_non_stream by exact Logic.I. cbn [enc_body]. cbv zeta.
    rewrite (ag_str _ _ _ AG), (ag_key _ _ _ AG).
    rewrite (data_encrypt_refines P md5_len _ _ _ _ _ (ag_str_ok _ _ _ AG) (ag_key_len _ _ _ AG)). cbn [rbind].
    rewrite iso_step_str. reflexivity.
  - rewrite encrypt_object_eq, skip_non_stream by exact Logic.I. cbn [enc_body].
    rewrite encrypt_strings_arr. apply no_streams_arr in NS.
    assert (G : forall ivs, enc_list P st id l ivs = Ok (iso_list ip fek id l ivs)).
    { induction Hl as [|x l Hx _ IH]; intro ivs0; [reflexivity|]. destruct NS as [N1 N2].
      cbn [enc_list iso_list]. rewrite (Hx N1). cbn [rbind fst snd]. rewrite (IH N2). reflexivity. }
    rewrite G. reflexivity.
  - rewrite encrypt_object_eq, skip_non_stream by exact Logic.I. cbn [enc_body].
    rewrite encrypt_strings_dict. apply no_streams_dict_eq in NS.
    assert (G : forall ivs, enc_dict P st id d ivs = Ok (iso_dict ip fek id d ivs)).
    { induction Hd as [|[k x] d Hx _ IH]; intro ivs0; [reflexivity|]. destruct NS as [N1 N2]. cbn [snd] in Hx.
      cbn [enc_dict iso_dict]. rewrite (Hx N1). cbn [rbind fst snd]. rewrite (IH N2). reflexivity. }
    rewrite G. reflexivity.
  - destruct NS.
Qed.

Lemma enc_dict_refines st ip fek id : agree st ip fek ->
  forall d, no_streams_dict d -> forall ivs, enc_dict P st id d ivs = Ok (iso_dict ip fek id d ivs).
Proof.
  intros AG. induction d as [|[k x] d IH]; intros NS ivs; [reflexivity|]. destruct NS as [N1 N2].
  cbn [enc_dict iso_dict]. rewrite (encrypt_strings_refines st ip fek id AG x N1). cbn [rbind fst snd].
  rewrite (IH N2). reflexivity.
Qed.

Lemma exempt_eq st ip fek o : agree st ip fek -> skip_object st o = exempt ip o.
Proof.
  intro AG. unfold skip_object, exempt. rewrite (ag_em _ _ _ AG). destruct o; reflexivity.
Qed.

(* every indirect object: what lopdf writes is what the standard's writer writes *)
Theorem encrypt_object_refines st ip fek id o ivs : agree st ip fek -> indirect_ok ip o ->
  encrypt_object P st id o ivs = Ok (encrypt_indirect I ip fek id o ivs).
Proof.
  intros AG OKo. unfold encrypt_indirect.
  destruct o as [|b|z|r|n|s h|l|d|sd c|i g];
    try (rewrite <- (exempt_eq st ip fek _ AG), skip_non_stream by exact Logic.I;
         apply (encrypt_strings_refines st ip fek id AG); exact OKo).
  rewrite encrypt_object_eq, (exempt_eq st ip fek _ AG).
  destruct (exempt ip (OStream sd c)); [reflexivity|].
  cbn [enc_body]. cbv zeta. cbn [indirect_ok] in OKo. destruct OKo as [OKd OKs].
  rewrite (enc_dict_refines st ip fek id AG sd OKd). cbn [rbind].
  rewrite (ag_stm _ _ _ AG _ _ OKs), (ag_key _ _ _ AG).
  rewrite (data_encrypt_refines P md5_len _ _ _ _ _ (ag_stm_ok _ _ _ AG sd) (ag_key_len _ _ _ AG)). cbn [rbind].
  rewrite encrypt_dict_strings_eq. unfold iso_enc_step. fold I.
  destruct (iso_dict ip fek id sd ivs) as [sd' ivs1]. cbn [fst snd].
  destruct (uses_iv (stream_method ip sd)); [destruct (next_iv ivs1)|]; reflexivity.
Qed.

(* ---------- written by the standard's writer, decrypted by lopdf ---------- *)
Theorem iso_encrypt_lopdf_decrypt_object st ip fek id o ivs : aes_ok P -> agree st ip fek -> indirect_ok ip o ->
  decrypt_object P st id (fst (encrypt_indirect I ip fek id o ivs)) = Ok (norm_len st o).
Proof.
  intros HA AG OKo.
  apply (object_rt P st id HA o ivs _ (snd (encrypt_indirect I ip fek id o ivs))).
  rewrite (encrypt_object_refines st ip fek id o ivs AG OKo), <- surjective_pairing. reflexivity.
Qed.

(* the whole object map: Document::encrypt's loop against the standard's *)
Theorem encrypt_objects_refines st ip fek : agree st ip fek ->
  forall m, Forall (fun io => indirect_ok ip (snd io)) m -> forall ivs,
  Handler.encrypt_objects P st m ivs = Ok (Iso.encrypt_objects I ip fek m ivs).
Proof.
  intros AG m Hm. induction Hm as [|[id o] m Ho _ IH]; intro ivs; [reflexivity|]. cbn [snd] in Ho.
  cbn [Handler.encrypt_objects Iso.encrypt_objects].
  rewrite (encrypt_object_refines st ip fek id o ivs AG Ho). cbn [rbind fst snd]. rewrite IH. reflexivity.
Qed.

End Obj.
