(* OutlineProofsRead.v -- C17, consumer side: on any object graph that holds the outline of a
   forest ([outline_ok] of Spec/OutlineSpec.v) get_outlines terminates within |forest| units of fuel
   and get_toc returns the preorder of the forest.
   Main results: [walk_items], [setup_outs], [toc_of_outline]. *)
From LV Require Import Base.Bytes Model.Obj Model.DocQ Model.PageTree Model.Outline Model.Toc
  Spec.OutlineSpec Proofs.OutlineProofs Proofs.OutlineProofsTitle.

Local Open Scope N_scope.

(* ---------- object access ---------- *)
Lemma dereference_dict m d : dereference m (ODict d) = Some (None, ODict d).
Proof. reflexivity. Qed.

Lemma get_dictionary_of m n d : get_of m n = Some d -> get_dictionary m (n, 0) = Some d.
Proof.
  unfold get_of, get_dictionary, get_object. destruct (lookup m (n, 0)) as [[]|]; try discriminate.
  intro E. inversion E. subst. reflexivity.
Qed.

Lemma gdd_ref m node k n d :
  dict_get node k = Some (ORef n 0) -> get_of m n = Some d -> get_dict_in_dict m node k = Some d.
Proof. intros E G. unfold get_dict_in_dict. rewrite E. apply get_dictionary_of. exact G. Qed.

Lemma gdd_none m node k : dict_get node k = None -> get_dict_in_dict m node k = None.
Proof. intro E. unfold get_dict_in_dict. rewrite E. reflexivity. Qed.

(* ---------- what get_outlines returns for a forest ---------- *)
Definition dest_of (bd : bdata) : outline :=
  ODest (OStr (title_bytes (b_title bd)) false) (ORef (fst (b_page bd)) (snd (b_page bd))) (OName K_Fit).

Definition wrap (l : list outline) : list outline := match l with [] => [] | s => [OSub s] end.

Fixpoint outs_of (t : otree) : list outline :=
  match t with ONode _ _ bd ks => dest_of bd :: wrap (flat_map outs_of ks) end.

Lemma wrap_cons t ks : wrap (flat_map outs_of (t :: ks)) = [OSub (flat_map outs_of (t :: ks))].
Proof. destruct t. reflexivity. Qed.

Lemma get_outline_item m d parent prev next info bd kids a :
  item_ok d parent prev next info bd kids -> get_of m info = Some a -> action_ok a bd ->
  get_outline m d = ROk (Some (dest_of bd)).
Proof.
  intros Hi Ha Hao. unfold get_outline.
  rewrite (gdd_ref m d K_A info a (io_a _ _ _ _ _ _ _ Hi) Ha).
  rewrite (ao_s _ _ Hao). change (bytes_eqb K_GoTo K_GoTo) with true. cbn [orb].
  rewrite (io_title _ _ _ _ _ _ _ Hi), (ao_d _ _ Hao). reflexivity.
Qed.

Lemma items_ok_head get p prev t r : items_ok get p prev (t :: r) -> exists d, get (o_id t) = Some d.
Proof. intro H. inversion H; subst. eexists; eassumption. Qed.

Lemma walk_S f m node :
  walk (S f) m node =
    match get_outline m node with
    | RPanic => WPanic
    | r =>
      let item := match r with ROk (Some o) => [o] | _ => [] end in
      let sub : wres (list outline) :=
        match dict_get node K_First with
        | None => WOk []
        | Some first =>
          let fd := match first with
                    | ODict d => Some d
                    | ORef i g => get_dictionary m (i, g)
                    | _ => None
                    end in
          match fd with
          | None => WErr
          | Some d =>
            match walk f m d with
            | WOk [] => WOk []
            | WOk subs => WOk [OSub subs]
            | e => e
            end
          end
        end in
      match sub with
      | WOk s =>
        match get_dict_in_dict m node K_Next with
        | Some n =>
          match walk f m n with
          | WOk r => WOk (item ++ s ++ r)
          | e => e
          end
        | None => WOk (item ++ s)
        end
      | e => e
      end
    end.
Proof. reflexivity. Qed.

Lemma ofsize_cons t r : ofsize (t :: r) = (osize t + ofsize r)%nat.
Proof. reflexivity. Qed.
Lemma osize_node i a bd ks : osize (ONode i a bd ks) = S (ofsize ks).
Proof. reflexivity. Qed.

(* the First/Next walk started at the head of a sibling list returns the outlines of the whole
   list; one unit of fuel per item suffices *)
Lemma walk_items m : forall fuel l p prev,
  items_ok (get_of m) p prev l -> (ofsize l <= fuel)%nat ->
  match l with
  | [] => True
  | t :: _ => forall d, get_of m (o_id t) = Some d -> walk fuel m d = WOk (flat_map outs_of l)
  end.
Proof.
  induction fuel as [|f IH]; intros l p prev Hio Hsz.
  - destruct l as [|[i a bd ks] r]; [exact I|]. rewrite ofsize_cons, osize_node in Hsz. lia.
  - destruct l as [|[id info bd kids] rest]; [exact I|]. intros d Hd.
    inversion Hio as [|parent prev0 id0 info0 bd0 kids0 rest0 d0 a Hd0 Hi Ha Hao Hk Hr]; subst.
    cbn [o_id] in Hd. rewrite Hd0 in Hd. inversion Hd; subst d0. clear Hd.
    rewrite ofsize_cons, osize_node in Hsz.
    rewrite walk_S, (get_outline_item m d _ _ _ _ _ _ a Hi Ha Hao). cbv zeta.
    rewrite (io_first _ _ _ _ _ _ _ Hi).
    (* children *)
    assert (Hsub : match oref (head_id kids) with
                   | None => WOk []
                   | Some first =>
                     match match first with ODict d => Some d | ORef i g => get_dictionary m (i, g) | _ => None end with
                     | None => WErr
                     | Some d => match walk f m d with WOk [] => WOk [] | WOk subs => WOk [OSub subs] | e => e end
                     end
                   end = WOk (wrap (flat_map outs_of kids))).
    { destruct kids as [|k ks]; [reflexivity|].
      destruct (items_ok_head _ _ _ _ _ Hk) as [dk Hdk].
      cbn [head_id oref option_map]. rewrite (get_dictionary_of _ _ _ Hdk).
      pose proof (IH (k :: ks) id None Hk ltac:(lia) dk Hdk) as W. rewrite W.
      rewrite wrap_cons. destruct k. reflexivity. }
    rewrite Hsub.
    (* next sibling *)
    destruct rest as [|n r].
    + rewrite (gdd_none m d K_Next) by (rewrite (io_next _ _ _ _ _ _ _ Hi); reflexivity).
      cbn [flat_map outs_of]. rewrite app_nil_r. reflexivity.
    + destruct (items_ok_head _ _ _ _ _ Hr) as [dn Hdn].
      rewrite (gdd_ref m d K_Next (o_id n) dn) by (rewrite ?(io_next _ _ _ _ _ _ _ Hi); first [reflexivity | exact Hdn]).
      pose proof (IH (n :: r) p (Some id) Hr ltac:(lia) dn Hdn) as W. rewrite W.
      reflexivity.
Qed.

(* ---------- setup_outline_page_ids ---------- *)
Definition row := (N * ustring * oid)%type.
Definition row_key (r : row) : bytes := title_bytes (snd (fst r)).
Definition row_val (r : row) : oid * N := (snd r, fst (fst r)).
Definition ix_all (acc : page_ids) (rows : list row) : page_ids :=
  fold_left (fun a r => ix_insert a (row_key r) (row_val r)) rows acc.

Fixpoint orows (level : N) (t : otree) : list row :=
  match t with ONode _ _ bd ks => (level, b_title bd, b_page bd) :: flat_map (orows (level + 1)) ks end.

Lemma setup_sub l : forall acc level, setup_one (OSub l) acc level = setup_all l acc (level + 1).
Proof.
  induction l as [|o l IH]; intros acc level; [reflexivity|].
  cbn [setup_one setup_all]. destruct (setup_one o acc (level + 1)) as [a|]; [|reflexivity].
  exact (IH a level).
Qed.

Lemma setup_all_app l1 : forall l2 acc level,
  setup_all (l1 ++ l2) acc level =
  match setup_all l1 acc level with Some a => setup_all l2 a level | None => None end.
Proof.
  induction l1 as [|o l1 IH]; intros l2 acc level; [reflexivity|].
  cbn [app setup_all]. destruct (setup_one o acc level); [apply IH | reflexivity].
Qed.

Lemma ix_all_app acc r1 r2 : ix_all acc (r1 ++ r2) = ix_all (ix_all acc r1) r2.
Proof. unfold ix_all. apply fold_left_app. Qed.

Lemma setup_outs : forall n l acc level, (ofsize l <= n)%nat ->
  setup_all (flat_map outs_of l) acc level = Some (ix_all acc (flat_map (orows level) l)).
Proof.
  induction n as [|n IH]; intros l acc level Hsz.
  - destruct l as [|[i a bd ks] r]; [reflexivity|]. rewrite ofsize_cons, osize_node in Hsz. lia.
  - destruct l as [|[i a bd ks] r]; [reflexivity|]. rewrite ofsize_cons, osize_node in Hsz.
    cbn [flat_map outs_of orows app].
    unfold dest_of at 1. cbn [setup_all setup_one].
    replace (fst (b_page bd), snd (b_page bd)) with (b_page bd) by (destruct (b_page bd); reflexivity).
    change (ix_all acc ((level, b_title bd, b_page bd) :: flat_map (orows (level + 1)) ks ++ flat_map (orows level) r))
      with (ix_all (ix_insert acc (title_bytes (b_title bd)) (b_page bd, level))
                   (flat_map (orows (level + 1)) ks ++ flat_map (orows level) r)).
    rewrite setup_all_app, ix_all_app.
    set (acc1 := ix_insert acc _ _).
    assert (Hk : setup_all (wrap (flat_map outs_of ks)) acc1 level
                 = Some (ix_all acc1 (flat_map (orows (level + 1)) ks))).
    { destruct ks as [|k ks]; [reflexivity|].
      rewrite wrap_cons. cbn [setup_all]. rewrite setup_sub, IH by lia. reflexivity. }
    rewrite Hk. apply IH. lia.
Qed.

(* ---------- distinct keys: the IndexMap is the list of rows ---------- *)
Lemma ix_insert_fresh acc k v : ~ In k (map fst acc) -> ix_insert acc k v = acc ++ [(k, v)].
Proof.
  induction acc as [|[k' v'] acc IH]; intro Hn; [reflexivity|].
  cbn [ix_insert map fst In] in *.
  destruct (bytes_eqb k' k) eqn:E; [apply bytes_eqb_eq in E; tauto|].
  cbn [app]. f_equal. apply IH. tauto.
Qed.

Lemma ix_all_distinct rows : forall acc,
  NoDup (map fst acc ++ map row_key rows) ->
  ix_all acc rows = acc ++ map (fun r => (row_key r, row_val r)) rows.
Proof.
  induction rows as [|r rows IH]; intros acc Hnd; [cbn; rewrite app_nil_r; reflexivity|].
  cbn [map] in Hnd. unfold ix_all. cbn [fold_left]. fold (ix_all (ix_insert acc (row_key r) (row_val r)) rows).
  assert (Hfresh : ~ In (row_key r) (map fst acc)).
  { intro Hin. apply NoDup_remove_2 in Hnd. apply Hnd. apply in_or_app. left. exact Hin. }
  rewrite ix_insert_fresh by exact Hfresh.
  rewrite IH.
  - rewrite <- app_assoc. reflexivity.
  - rewrite map_app. cbn [map fst]. rewrite <- app_assoc. exact Hnd.
Qed.

(* ---------- rows of the table of contents ---------- *)
Definition pn (pages : list (N * oid)) (p : oid) : N :=
  match page_num pages p with Some n => n | None => 0 end.
Definition entry_of (pages : list (N * oid)) (r : row) : toc_entry :=
  {| te_level := fst (fst r); te_title := snd (fst r); te_page := pn pages (snd r) |}.

Lemma toc_rows_ok pages rows :
  Forall (fun r : row => Forall scalar (snd (fst r)) /\ exists n, page_num pages (snd r) = Some n) rows ->
  toc_rows pages (map (fun r => (row_key r, row_val r)) rows) = (map (entry_of pages) rows, 0).
Proof.
  induction 1 as [|r rows [Hs [n Hn]] Hrows IH]; [reflexivity|].
  cbn [map toc_rows]. unfold row_val at 1. rewrite IH. cbn [fst snd]. rewrite Hn.
  unfold row_key. rewrite decode_title_bytes by exact Hs.
  unfold entry_of at 2, pn. rewrite Hn. reflexivity.
Qed.

(* ---------- numbering does not change the rows ---------- *)
Lemma numbered_rows m f f' m' : numbered m f f' m' ->
  forall level, flat_map (orows level) f' = flat_map (rows level) f.
Proof.
  induction 1 as [m | m b d ks ks' m1 rest rest' m2 H1 IH1 H2 IH2]; intro level; [reflexivity|].
  cbn [flat_map orows rows]. rewrite IH1, IH2. reflexivity.
Qed.

Lemma numbered_ofsize m f f' m' : numbered m f f' m' -> ofsize f' = fsize f.
Proof.
  induction 1 as [m | m b d ks ks' m1 rest rest' m2 H1 IH1 H2 IH2]; [reflexivity|].
  unfold ofsize, fsize in *. cbn [fold_right osize isize]. lia.
Qed.

(* ---------- get_toc on a document that holds an outline ---------- *)
Definition no_name_trees (cat : dict) : Prop := dict_get cat K_Dests = None /\ dict_get cat K_Names = None.

Definition row_ok (pages : list (N * oid)) (r : row) : Prop :=
  Forall scalar (snd (fst r)) /\ exists n, page_num pages (snd r) = Some n.

Theorem toc_of_outline d cat root (f : list otree) fuel :
  catalog d = Some cat ->
  dict_get cat K_Outlines = Some (ORef root 0) ->
  no_name_trees cat ->
  outline_ok (get_of (d_objects d)) root f ->
  f <> [] ->
  (ofsize f <= fuel)%nat ->
  NoDup (map row_key (flat_map (orows 1) f)) ->
  Forall (row_ok (get_pages d)) (flat_map (orows 1) f) ->
  get_toc fuel d = TOk (map (entry_of (get_pages d)) (flat_map (orows 1) f)) 0.
Proof.
  intros Hcat Hout [Hd Hn] [Hitems [od [Hod [Hfirst _]]]] Hne Hfuel Hnd Hrows.
  unfold get_toc, get_outlines_top. rewrite Hcat.
  rewrite (gdd_ref _ cat K_Outlines root od Hout Hod).
  destruct f as [|t r]; [congruence|].
  destruct (items_ok_head _ _ _ _ _ Hitems) as [dt Hdt].
  rewrite (gdd_ref _ od K_First (o_id t) dt Hfirst Hdt).
  unfold named_tree. rewrite (gdd_none _ cat K_Dests Hd), (gdd_none _ cat K_Names Hn).
  rewrite (walk_items (d_objects d) fuel (t :: r) root None Hitems Hfuel dt Hdt).
  rewrite (setup_outs (ofsize (t :: r)) (t :: r) [] 1 (le_n _)).
  rewrite ix_all_distinct by exact Hnd. cbn [app].
  rewrite (toc_rows_ok _ _ Hrows). reflexivity.
Qed.
