(* OutlineProofsRead.v -- C17, consumer side: on any object graph that holds the outline of a
   forest ([outline_ok] of Spec/OutlineSpec.v) get_outlines terminates within |forest| units of fuel
   and get_toc returns the preorder of the forest.
   Main results: [walk_items], [setup_outs], [toc_of_outline]. *)
From LV Require Import Base.Bytes Model.Obj Model.DocQ Model.PageTree Model.Outline Model.Toc Gen.QueryC
  Spec.OutlineSpec Proofs.OutlineProofs Proofs.OutlineProofsTitle.

Local Open Scope N_scope.

(* ---------- object access ---------- *)
Lemma dereference_dict m d : dereference m (ODict d) = Some (None, ODict d).
Proof. reflexivity. Qed.

Lemma get_dictionary_of m n d : get_of m n = Some d -> get_dictionary m (n, 0) = Some d.
Proof.
  unfold get_of, get_dictionary, get_object. destruct (lookup m (n, 0)) as [[]|]; try discriminate.
  intro E. inversion E. subst. reflexivity.
Qed.

Lemma gdd_ref m node k n d :
  dict_get node k = Some (ORef n 0) -> get_of m n = Some d -> get_dict_in_dict m node k = Some d.
Proof. intros E G. unfold get_dict_in_dict. rewrite E. apply get_dictionary_of. exact G. Qed.

Lemma gdd_none m node k : dict_get node k = None -> get_dict_in_dict m node k = None.
Proof. intro E. unfold get_dict_in_dict. rewrite E. reflexivity. Qed.

(* ---------- what get_outlines returns for a forest ---------- *)
Definition dest_of (bd : bdata) : outline :=
  ODest (OStr (title_bytes (b_title bd)) false) (ORef (fst (b_page bd)) (snd (b_page bd))) (OName K_Fit).

Definition wrap (l : list outline) : list outline := match l with [] => [] | s => [OSub s] end.

Fixpoint outs_of (t : otree) : list outline :=
  match t with ONode _ _ bd ks => dest_of bd :: wrap (flat_map outs_of ks) end.

Lemma wrap_cons t ks : wrap (flat_map outs_of (t :: ks)) = [OSub (flat_map outs_of (t :: ks))].
Proof. destruct t. reflexivity. Qed.

Lemma get_outline_item m d parent prev next info bd kids a :
  item_ok d parent prev next info bd kids -> get_of m info = Some a -> action_ok a bd ->
  get_outline m d = ROk (Some (dest_of bd)).
Proof.
  intros Hi Ha Hao. unfold get_outline.
  rewrite (gdd_ref m d K_A info a (io_a _ _ _ _ _ _ _ Hi) Ha).
  rewrite (ao_s _ _ Hao). change (bytes_eqb K_GoTo K_GoTo) with true. cbn [orb].
  rewrite (io_title _ _ _ _ _ _ _ Hi), (ao_d _ _ Hao). reflexivity.
Qed.

Lemma items_ok_head get p prev t r : items_ok get p prev (t :: r) -> exists d, get (o_id t) = Some d.
Proof. intro H. inversion H; subst. eexists; eassumption. Qed.

Definition walk_sub (f : nat) (m : objmap) (node : dict) (budget depth : N) : wres (list outline * N) :=
  match dict_get node K_First with
  | None => WOk ([], budget)
  | Some first =>
    if (OUTLINE_DEPTH_LIMIT <=? depth)%N then WErr
    else
      let fd : option (dict * N) :=
        match first with
        | ODict d => Some (d, budget)
        | ORef i g =>
          match follow_ref budget with
          | None => None
          | Some b1 => match get_dictionary m (i, g) with Some d => Some (d, b1) | None => None end
          end
        | _ => None
        end in
      match fd with
      | None => WErr
      | Some (d, b1) =>
        match walk f m d b1 (depth + 1) with
        | WOk ([], b2) => WOk ([], b2)
        | WOk (subs, b2) => WOk ([OSub subs], b2)
        | e => e
        end
      end
  end.

Definition walk_rest (f : nat) (m : objmap) (node : dict) (item : list outline) (depth : N)
           (sub : wres (list outline * N)) : wres (list outline * N) :=
  match sub with
  | WOk (s, b2) =>
    let nb : option N :=
      match dict_get node K_Next with
      | Some (ORef _ _) => follow_ref b2
      | _ => Some b2
      end in
    match nb with
    | None => WErr
    | Some b3 =>
      match get_dict_in_dict m node K_Next with
      | Some n =>
        match walk f m n b3 depth with
        | WOk (r, b4) => WOk (item ++ s ++ r, b4)
        | e => e
        end
      | None => WOk (item ++ s, b3)
      end
    end
  | e => e
  end.

Lemma walk_S f m node budget depth :
  walk (S f) m node budget depth =
  walk_rest f m node (match get_outline m node with ROk (Some o) => [o] | _ => [] end) depth
            (walk_sub f m node budget depth).
Proof. reflexivity. Qed.

Lemma ofsize_cons t r : ofsize (t :: r) = (osize t + ofsize r)%nat.
Proof. reflexivity. Qed.
Lemma osize_node i a bd ks : osize (ONode i a bd ks) = S (ofsize ks).
Proof. reflexivity. Qed.

(* height of the numbered forest: a single item has height 1 *)
Fixpoint oheight (t : otree) : nat :=
  match t with ONode _ _ _ ks => S (fold_right (fun k acc => Nat.max (oheight k) acc) 0%nat ks) end.
Definition ofheight (l : list otree) : nat := fold_right (fun k acc => Nat.max (oheight k) acc) 0%nat l.
Lemma ofheight_cons t r : ofheight (t :: r) = Nat.max (oheight t) (ofheight r).
Proof. reflexivity. Qed.
Lemma oheight_node i a bd ks : oheight (ONode i a bd ks) = S (ofheight ks).
Proof. reflexivity. Qed.

Lemma follow_ref_pos b : 0 < b -> follow_ref b = Some (b - 1).
Proof. intro H. unfold follow_ref. replace (b =? 0) with false by (symmetry; apply N.eqb_neq; lia). reflexivity. Qed.

(* the First/Next walk started at the head of a sibling list returns the outlines of the whole
   list.  One unit of fuel per item suffices; every item but the head costs one reference of the
   budget; the nesting stays within OUTLINE_DEPTH_LIMIT when the forest is not higher than
   OUTLINE_DEPTH_LIMIT + 1 - depth. *)
Lemma walk_items m : forall fuel l p prev budget depth,
  items_ok (get_of m) p prev l -> (ofsize l <= fuel)%nat ->
  N.of_nat (ofsize l) <= budget + 1 ->
  depth + N.of_nat (ofheight l) <= OUTLINE_DEPTH_LIMIT + 1 ->
  match l with
  | [] => True
  | t :: _ => forall d, get_of m (o_id t) = Some d ->
                        walk fuel m d budget depth = WOk (flat_map outs_of l, budget + 1 - N.of_nat (ofsize l))
  end.
Proof.
  induction fuel as [|f IH]; intros l p prev budget depth Hio Hsz Hbud Hdep.
  - destruct l as [|[i a bd ks] r]; [exact I|]. rewrite ofsize_cons, osize_node in Hsz. lia.
  - destruct l as [|[id info bd kids] rest]; [exact I|]. intros d Hd.
    inversion Hio as [|parent prev0 id0 info0 bd0 kids0 rest0 d0 a Hd0 Hi Ha Hao Hk Hr]; subst.
    cbn [o_id] in Hd. rewrite Hd0 in Hd. inversion Hd; subst d0. clear Hd.
    rewrite ofsize_cons, osize_node in Hsz, Hbud.
    rewrite ofheight_cons, oheight_node in Hdep.
    rewrite walk_S, (get_outline_item m d _ _ _ _ _ _ a Hi Ha Hao).
    (* children *)
    assert (Hsub : walk_sub f m d budget depth
                   = WOk (wrap (flat_map outs_of kids), budget - N.of_nat (ofsize kids))).
    { unfold walk_sub. rewrite (io_first _ _ _ _ _ _ _ Hi).
      destruct kids as [|k ks]; [cbn [head_id oref option_map flat_map wrap ofsize fold_right]; rewrite N.sub_0_r; reflexivity|].
      destruct (items_ok_head _ _ _ _ _ Hk) as [dk Hdk].
      assert (Hpos : (1 <= ofsize (k :: ks))%nat) by (destruct k; rewrite ofsize_cons, osize_node; lia).
      assert (Hh : (1 <= ofheight (k :: ks))%nat) by (destruct k; rewrite ofheight_cons, oheight_node; lia).
      cbn [head_id oref option_map].
      replace (OUTLINE_DEPTH_LIMIT <=? depth) with false by (symmetry; apply N.leb_gt; lia).
      cbv zeta. rewrite follow_ref_pos by lia. rewrite (get_dictionary_of _ _ _ Hdk).
      assert (A1 : (ofsize (k :: ks) <= f)%nat) by lia.
      assert (A2 : N.of_nat (ofsize (k :: ks)) <= budget - 1 + 1) by lia.
      assert (A3 : depth + 1 + N.of_nat (ofheight (k :: ks)) <= OUTLINE_DEPTH_LIMIT + 1) by lia.
      pose proof (IH (k :: ks) id None (budget - 1) (depth + 1) Hk A1 A2 A3 dk Hdk) as W.
      rewrite W. rewrite wrap_cons. destruct k. cbn [flat_map outs_of app]. f_equal. f_equal. lia. }
    rewrite Hsub. unfold walk_rest. rewrite (io_next _ _ _ _ _ _ _ Hi).
    (* next sibling *)
    destruct rest as [|n r].
    + cbn [head_id oref option_map].
      rewrite (gdd_none m d K_Next) by (rewrite (io_next _ _ _ _ _ _ _ Hi); reflexivity).
      cbn [flat_map outs_of ofsize fold_right]. rewrite app_nil_r, osize_node. f_equal. f_equal. lia.
    + destruct (items_ok_head _ _ _ _ _ Hr) as [dn Hdn].
      assert (Hpos : (1 <= ofsize (n :: r))%nat) by (destruct n; rewrite ofsize_cons, osize_node; lia).
      cbn [head_id oref option_map]. rewrite follow_ref_pos by lia.
      rewrite (gdd_ref m d K_Next (o_id n) dn) by (rewrite ?(io_next _ _ _ _ _ _ _ Hi); first [reflexivity | exact Hdn]).
      assert (A1 : (ofsize (n :: r) <= f)%nat) by lia.
      assert (A2 : N.of_nat (ofsize (n :: r)) <= budget - N.of_nat (ofsize kids) - 1 + 1) by lia.
      assert (A3 : depth + N.of_nat (ofheight (n :: r)) <= OUTLINE_DEPTH_LIMIT + 1) by lia.
      pose proof (IH (n :: r) p (Some id) (budget - N.of_nat (ofsize kids) - 1) depth Hr A1 A2 A3 dn Hdn) as W.
      rewrite W. cbn [flat_map outs_of app]. f_equal. f_equal.
      rewrite (ofsize_cons (ONode id info bd kids) (n :: r)), osize_node. lia.
Qed.

(* ---------- setup_outline_page_ids ---------- *)
Definition row := (N * ustring * oid)%type.
Definition row_key (r : row) : bytes := title_bytes (snd (fst r)).
Definition row_val (r : row) : oid * N := (snd r, fst (fst r)).
Definition ix_all (acc : page_ids) (rows : list row) : page_ids :=
  fold_left (fun a r => ix_insert a (row_key r) (row_val r)) rows acc.

Fixpoint orows (level : N) (t : otree) : list row :=
  match t with ONode _ _ bd ks => (level, b_title bd, b_page bd) :: flat_map (orows (level + 1)) ks end.

Lemma setup_sub l : forall acc level, setup_one (OSub l) acc level = setup_all l acc (level + 1).
Proof.
  induction l as [|o l IH]; intros acc level; [reflexivity|].
  cbn [setup_one setup_all]. destruct (setup_one o acc (level + 1)) as [a|]; [|reflexivity].
  exact (IH a level).
Qed.

Lemma setup_all_app l1 : forall l2 acc level,
  setup_all (l1 ++ l2) acc level =
  match setup_all l1 acc level with Some a => setup_all l2 a level | None => None end.
Proof.
  induction l1 as [|o l1 IH]; intros l2 acc level; [reflexivity|].
  cbn [app setup_all]. destruct (setup_one o acc level); [apply IH | reflexivity].
Qed.

Lemma ix_all_app acc r1 r2 : ix_all acc (r1 ++ r2) = ix_all (ix_all acc r1) r2.
Proof. unfold ix_all. apply fold_left_app. Qed.

Lemma setup_outs : forall n l acc level, (ofsize l <= n)%nat ->
  setup_all (flat_map outs_of l) acc level = Some (ix_all acc (flat_map (orows level) l)).
Proof.
  induction n as [|n IH]; intros l acc level Hsz.
  - destruct l as [|[i a bd ks] r]; [reflexivity|]. rewrite ofsize_cons, osize_node in Hsz. lia.
  - destruct l as [|[i a bd ks] r]; [reflexivity|]. rewrite ofsize_cons, osize_node in Hsz.
    cbn [flat_map outs_of orows app].
    unfold dest_of at 1. cbn [setup_all setup_one].
    replace (fst (b_page bd), snd (b_page bd)) with (b_page bd) by (destruct (b_page bd); reflexivity).
    change (ix_all acc ((level, b_title bd, b_page bd) :: flat_map (orows (level + 1)) ks ++ flat_map (orows level) r))
      with (ix_all (ix_insert acc (title_bytes (b_title bd)) (b_page bd, level))
                   (flat_map (orows (level + 1)) ks ++ flat_map (orows level) r)).
    rewrite setup_all_app, ix_all_app.
    set (acc1 := ix_insert acc _ _).
    assert (Hk : setup_all (wrap (flat_map outs_of ks)) acc1 level
                 = Some (ix_all acc1 (flat_map (orows (level + 1)) ks))).
    { destruct ks as [|k ks]; [reflexivity|].
      rewrite wrap_cons. cbn [setup_all]. rewrite setup_sub, IH by lia. reflexivity. }
    rewrite Hk. apply IH. lia.
Qed.

(* ---------- distinct keys: the IndexMap is the list of rows ---------- *)
Lemma ix_insert_fresh acc k v : ~ In k (map fst acc) -> ix_insert acc k v = acc ++ [(k, v)].
Proof.
  induction acc as [|[k' v'] acc IH]; intro Hn; [reflexivity|].
  cbn [ix_insert map fst In] in *.
  destruct (bytes_eqb k' k) eqn:E; [apply bytes_eqb_eq in E; tauto|].
  cbn [app]. f_equal. apply IH. tauto.
Qed.

Lemma ix_all_distinct rows : forall acc,
  NoDup (map fst acc ++ map row_key rows) ->
  ix_all acc rows = acc ++ map (fun r => (row_key r, row_val r)) rows.
Proof.
  induction rows as [|r rows IH]; intros acc Hnd; [cbn; rewrite app_nil_r; reflexivity|].
  cbn [map] in Hnd. unfold ix_all. cbn [fold_left]. fold (ix_all (ix_insert acc (row_key r) (row_val r)) rows).
  assert (Hfresh : ~ In (row_key r) (map fst acc)).
  { intro Hin. apply NoDup_remove_2 in Hnd. apply Hnd. apply in_or_app. left. exact Hin. }
  rewrite ix_insert_fresh by exact Hfresh.
  rewrite IH.
  - rewrite <- app_assoc. reflexivity.
  - rewrite map_app. cbn [map fst]. rewrite <- app_assoc. exact Hnd.
Qed.

(* ---------- rows of the table of contents ---------- *)
Definition pn (pages : list (N * oid)) (p : oid) : N :=
  match page_num pages p with Some n => n | None => 0 end.
Definition entry_of (pages : list (N * oid)) (r : row) : toc_entry :=
  {| te_level := fst (fst r); te_title := snd (fst r); te_page := pn pages (snd r) |}.

Lemma toc_rows_ok pages rows :
  Forall (fun r : row => Forall scalar (snd (fst r)) /\ exists n, page_num pages (snd r) = Some n) rows ->
  toc_rows pages (map (fun r => (row_key r, row_val r)) rows) = (map (entry_of pages) rows, 0).
Proof.
  induction 1 as [|r rows [Hs [n Hn]] Hrows IH]; [reflexivity|].
  cbn [map toc_rows]. unfold row_val at 1. rewrite IH. cbn [fst snd]. rewrite Hn.
  unfold row_key. rewrite decode_title_bytes by exact Hs.
  unfold entry_of at 2, pn. rewrite Hn. reflexivity.
Qed.

(* ---------- numbering does not change the rows ---------- *)
Lemma numbered_rows m f f' m' : numbered m f f' m' ->
  forall level, flat_map (orows level) f' = flat_map (rows level) f.
Proof.
  induction 1 as [m | m b d ks ks' m1 rest rest' m2 H1 IH1 H2 IH2]; intro level; [reflexivity|].
  cbn [flat_map orows rows]. rewrite IH1, IH2. reflexivity.
Qed.

Lemma numbered_ofsize m f f' m' : numbered m f f' m' -> ofsize f' = fsize f.
Proof.
  induction 1 as [m | m b d ks ks' m1 rest rest' m2 H1 IH1 H2 IH2]; [reflexivity|].
  unfold ofsize, fsize in *. cbn [fold_right osize isize]. lia.
Qed.

(* ---------- get_toc on a document that holds an outline ---------- *)
Definition no_name_trees (cat : dict) : Prop := dict_get cat K_Dests = None /\ dict_get cat K_Names = None.

Definition row_ok (pages : list (N * oid)) (r : row) : Prop :=
  Forall scalar (snd (fst r)) /\ exists n, page_num pages (snd r) = Some n.

Theorem toc_of_outline d cat root (f : list otree) fuel :
  catalog d = Some cat ->
  dict_get cat K_Outlines = Some (ORef root 0) ->
  no_name_trees cat ->
  outline_ok (get_of (d_objects d)) root f ->
  f <> [] ->
  (ofsize f <= fuel)%nat ->
  (ofsize f <= S (length (d_objects d)))%nat ->
  (N.of_nat (ofheight f) <= OUTLINE_DEPTH_LIMIT + 1) ->
  NoDup (map row_key (flat_map (orows 1) f)) ->
  Forall (row_ok (get_pages d)) (flat_map (orows 1) f) ->
  get_toc fuel d = TOk (map (entry_of (get_pages d)) (flat_map (orows 1) f)) 0.
Proof.
  intros Hcat Hout [Hd Hn] [Hitems [od [Hod [Hfirst _]]]] Hne Hfuel Hbud Hdep Hnd Hrows.
  unfold get_toc, get_outlines_top. rewrite Hcat.
  rewrite (gdd_ref _ cat K_Outlines root od Hout Hod).
  destruct f as [|t r]; [congruence|].
  destruct (items_ok_head _ _ _ _ _ Hitems) as [dt Hdt].
  rewrite (gdd_ref _ od K_First (o_id t) dt Hfirst Hdt).
  unfold named_tree. rewrite (gdd_none _ cat K_Dests Hd), (gdd_none _ cat K_Names Hn).
  rewrite (walk_items (d_objects d) fuel (t :: r) root None (N.of_nat (length (d_objects d))) 0 Hitems Hfuel
             ltac:(lia) ltac:(lia) dt Hdt).
  rewrite (setup_outs (ofsize (t :: r)) (t :: r) [] 1 (le_n _)).
  rewrite ix_all_distinct by exact Hnd. cbn [app].
  rewrite (toc_rows_ok _ _ Hrows). reflexivity.
Qed.
