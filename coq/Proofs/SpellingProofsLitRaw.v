(* SpellingProofsLitRaw.v -- rung 2 of C02, literal strings with parentheses left RAW: when the parentheses the
   style leaves unescaped are balanced (Spec/RefWriter.v raw_parens_balanced) the writer keeps them raw, and the
   parser (Model/Parser.v inner_literal) reads the string back through its nested_literal_string recursion, as
   long as they nest at most MAX_BRACKET deep (beyond: open finding C02-deep-parens).  Together with
   SpellingProofsLit (every escape form, continuations) this removes the hypothesis [no_raw_paren].
   Method: the string is zipped with its (padded) style; a balanced zipped list splits at the parenthesis that
   closes the first one ([rz_split]); each part is handled by induction on the length, the nesting by the same
   composition c14's LitStringProofs.inner_emit uses for E_nest. *)
From LV Require Import Base.Bytes Base.Sx Model.Obj Model.Writer Model.Parser Gen.Lex
  Spec.XrefSpec Spec.RefWriter Proofs.LexProofs Proofs.LitStringProofs Proofs.SpellingProofsLit.
From Coq Require Import Lia.
Local Open Scope nat_scope.

Definition dflt : lpos := {| l_cont := []; l_ch := LRaw |}.
Notation zitem := (byte * lpos)%type.

Fixpoint zip_st (s : bytes) (st : list lpos) : list zitem :=
  match s with
  | [] => []
  | b :: s' => match st with [] => (b, dflt) :: zip_st s' [] | p :: t => (b, p) :: zip_st s' t end
  end.

Fixpoint wz (ok : bool) (z : list zitem) (tail : bytes) : bytes :=
  match z with
  | [] => tail
  | (b, p) :: z' =>
    let rest := wz ok z' tail in
    let me := w_lit_byte ok b (l_ch p) rest in
    w_conts (l_cont p) (me ++ rest) ++ me ++ rest
  end.

Definition is_raw (p : lpos) : bool := match l_ch p with LRaw => true | _ => false end.

(* raw_parens_balanced on the zipped list *)
Fixpoint rz (z : list zitem) (depth : nat) : bool :=
  match z with
  | [] => Nat.eqb depth 0
  | (b, p) :: z' =>
    if is_raw p then
      if byte_eqb b x28 then rz z' (S depth)
      else if byte_eqb b x29 then match depth with O => false | S d => rz z' d end
      else rz z' depth
    else rz z' depth
  end.

(* no LF written as raw CR / CR LF *)
Fixpoint ncr (z : list zitem) : bool :=
  match z with
  | [] => true
  | (b, p) :: z' => negb (byte_eqb b x0a && match l_ch p with LRawCR | LRawCRLF => true | _ => false end) && ncr z'
  end.

(* the raw parentheses never nest deeper than d, starting from level k *)
Fixpoint rdok (z : list zitem) (k d : nat) : bool :=
  match z with
  | [] => true
  | (b, p) :: z' =>
    if is_raw p then
      if byte_eqb b x28 then (S k <=? d) && rdok z' (S k) d
      else if byte_eqb b x29 then rdok z' (pred k) d
      else rdok z' k d
    else rdok z' k d
  end.

Lemma wz_eq ok : forall s st tail, w_lit_body ok s st tail = wz ok (zip_st s st) tail.
Proof.
  induction s as [|b s IH]; intros st tail; [reflexivity|].
  cbn [w_lit_body zip_st]. destruct st as [|p t]; cbn [wz]; rewrite IH; reflexivity.
Qed.

Lemma rz_eq : forall s st k, raw_parens_balanced s st k = rz (zip_st s st) k.
Proof.
  induction s as [|b s IH]; intros st k; [reflexivity|].
  cbn [raw_parens_balanced zip_st]. destruct st as [|p t]; cbn [rz]; unfold is_raw.
  - cbn [dflt l_ch]. destruct (byte_eqb b x28); [apply IH|].
    destruct (byte_eqb b x29); [destruct k; [reflexivity|apply IH]|apply IH].
  - destruct (l_ch p); try apply IH.
    destruct (byte_eqb b x28); [apply IH|].
    destruct (byte_eqb b x29); [destruct k; [reflexivity|apply IH]|apply IH].
Qed.

Lemma ncr_eq : forall s st, no_raw_cr s st = ncr (zip_st s st).
Proof.
  induction s as [|b s IH]; intro st; [reflexivity|].
  cbn [no_raw_cr zip_st]. destruct st as [|p t]; cbn [ncr]; rewrite IH; reflexivity.
Qed.

Lemma zip_fst : forall s st, map fst (zip_st s st) = s.
Proof. induction s as [|b s IH]; intro st; [reflexivity|]. cbn [zip_st]. destruct st; cbn [map fst]; rewrite IH; reflexivity. Qed.

Lemma wz_app ok : forall z1 z2 tail, wz ok (z1 ++ z2) tail = wz ok z1 (wz ok z2 tail).
Proof. induction z1 as [|[b p] z1 IH]; intros z2 tail; [reflexivity|]. cbn [app wz]. rewrite IH. reflexivity. Qed.

(* a balanced prefix does not change the level *)
Lemma rz_app_bal : forall m X a j, rz m a = true -> rz (m ++ X) (a + j) = rz X j.
Proof.
  induction m as [|[b p] m IH]; intros X a j H.
  - cbn [rz] in H. apply Nat.eqb_eq in H. subst a. reflexivity.
  - cbn [rz app] in *. destruct (is_raw p); [|apply IH; exact H].
    destruct (byte_eqb b x28); [apply (IH X (S a) j H)|].
    destruct (byte_eqb b x29); [|apply IH; exact H].
    destruct a as [|a']; [discriminate H|]. cbn [Nat.add]. apply IH. exact H.
Qed.

(* the parenthesis that closes level S k *)
Lemma rz_split : forall n z k, length z <= n -> rz z (S k) = true ->
  exists mid p post, z = mid ++ (x29, p) :: post /\ is_raw p = true /\ rz mid 0 = true /\ rz post k = true.
Proof.
  induction n as [|n IH]; intros z k Hl H.
  - destruct z; [discriminate H|cbn in Hl; lia].
  - destruct z as [|[b p] z']; [discriminate H|]. cbn [length] in Hl. cbn [rz] in H.
    assert (Hother : (is_raw p = false \/ (byte_eqb b x28 = false /\ byte_eqb b x29 = false)) -> rz z' (S k) = true ->
              exists mid p0 post, (b, p) :: z' = mid ++ (x29, p0) :: post /\ is_raw p0 = true /\ rz mid 0 = true /\ rz post k = true).
    { intros Hc H'. destruct (IH z' k ltac:(lia) H') as [mid [p0 [post [E [R1 [R2 R3]]]]]].
      exists ((b, p) :: mid), p0, post. split; [rewrite E; reflexivity|]. split; [exact R1|]. split; [|exact R3].
      cbn [rz]. destruct Hc as [Hc|[Hc1 Hc2]]; [rewrite Hc; exact R2|]. rewrite Hc1, Hc2. destruct (is_raw p); exact R2. }
    destruct (is_raw p) eqn:Er; [|apply Hother; [left; reflexivity|exact H]].
    destruct (byte_eqb b x28) eqn:E28.
    + destruct (IH z' (S k) ltac:(lia) H) as [m1 [p1 [q1 [E1 [R1 [R2 R3]]]]]].
      assert (Hq : length q1 <= n).
      { rewrite E1 in Hl. rewrite app_length in Hl. cbn [length] in Hl. lia. }
      destruct (IH q1 k Hq R3) as [m2 [p2 [q2 [E2 [S1 [S2 S3]]]]]].
      exists ((b, p) :: m1 ++ (x29, p1) :: m2), p2, q2. split.
      * rewrite E1, E2. cbn [app]. rewrite <- app_assoc. reflexivity.
      * split; [exact S1|]. split; [|exact S3].
        cbn [rz]. rewrite Er, E28. change 1 with (0 + 1). rewrite (rz_app_bal m1 _ 0 1 R2).
        cbn [rz]. rewrite R1. change (byte_eqb x29 x28) with false. change (byte_eqb x29 x29) with true. exact S2.
    + destruct (byte_eqb b x29) eqn:E29.
      * apply byte_eqb_eq in E29. subst b. exists [], p, z'. split; [reflexivity|]. split; [exact Er|]. split; [reflexivity|exact H].
      * apply Hother; [right; split; reflexivity|exact H].
Qed.

(* depth bookkeeping across a balanced part *)
Lemma rdok_split : forall m X a k d, rz m a = true ->
  rdok (m ++ X) (S k + a) (S d) = true -> rdok m (k + a) d = true /\ rdok X (S k) (S d) = true.
Proof.
  induction m as [|[b p] m IH]; intros X a k d H R.
  - cbn [rz] in H. apply Nat.eqb_eq in H. subst a. rewrite Nat.add_0_r in R. split; [reflexivity|exact R].
  - cbn [rz app rdok] in *. destruct (is_raw p); [|apply IH; assumption].
    destruct (byte_eqb b x28).
    + apply andb_true_iff in R as [R1 R2]. replace (S (S k + a)) with (S k + S a) in R2 by lia.
      destruct (IH X (S a) k d H R2) as [A B]. split; [|exact B].
      apply andb_true_iff. split; [apply Nat.leb_le; apply Nat.leb_le in R1; lia|].
      replace (S (k + a)) with (k + S a) by lia. exact A.
    + destruct (byte_eqb b x29); [|apply IH; assumption].
      destruct a as [|a']; [discriminate H|].
      replace (pred (S k + S a')) with (S k + a') in R by lia.
      destruct (IH X a' k d H R) as [A B]. split; [|exact B].
      replace (pred (k + S a')) with (k + a') by lia. exact A.
Qed.

(* ---------- parser steps ---------- *)
Lemma inner_open f d T nested r1 out r :
  inner_literal f d T = Some (nested, x29 :: r1) -> inner_literal f (S d) r1 = Some (out, r) ->
  inner_literal (S f) (S d) (x28 :: T) = Some (x28 :: nested ++ x29 :: out, r).
Proof.
  intros H1 H2. cbn [inner_literal]. destruct direct_facts as [_ [F2 _]]. rewrite F2.
  change (byte_eqb x28 x5c) with false. change (byte_eqb x28 x0d) with false.
  change (byte_eqb x28 x0a) with false. change (byte_eqb x28 x28) with true. cbv iota.
  rewrite H1. change (byte_eqb x29 x29) with true. cbv iota. rewrite H2. reflexivity.
Qed.

Lemma raw_paren_byte b next : is_paren b = true -> w_lit_byte true b LRaw next = [b].
Proof.
  intro H. unfold w_lit_byte. rewrite H.
  assert (byte_eqb b x5c || byte_eqb b x0d = false) as ->.
  { unfold is_paren in H. apply orb_true_iff in H as [H|H]; apply byte_eqb_eq in H; subst b; reflexivity. }
  reflexivity.
Qed.

Theorem wz_parse : forall n z, length z <= n -> rz z 0 = true -> ncr z = true ->
  forall d tail f out r, rdok z 0 d = true -> inner_literal f d tail = Some (out, r) ->
  exists f', inner_literal f' d (wz true z tail) = Some (map fst z ++ out, r).
Proof.
  induction n as [|n IH]; intros z Hl Hb Hc d tail f out r Hd Ht.
  - destruct z; [exists f; exact Ht|cbn in Hl; lia].
  - destruct z as [|[b p] z']; [exists f; exact Ht|]. cbn [length] in Hl.
    cbn [ncr] in Hc. apply andb_true_iff in Hc as [Hc1 Hc2].
    assert (Hplain : (is_raw p = false \/ is_paren b = false) -> rz z' 0 = true -> rdok z' 0 d = true ->
              exists f', inner_literal f' d (wz true ((b, p) :: z') tail) = Some (map fst ((b, p) :: z') ++ out, r)).
    { intros Hnp Hb' Hd'. destruct (IH z' ltac:(lia) Hb' Hc2 d tail f out r Hd' Ht) as [f1 H1].
      cbn [wz map fst app].
      assert (Hp1 : true = false \/ negb (is_paren b && match l_ch p with LRaw => true | _ => false end) = true).
      { right. destruct Hnp as [Hnp|Hnp]; [unfold is_raw in Hnp; rewrite Hnp, andb_false_r|rewrite Hnp]; reflexivity. }
      destruct (w_lit_byte_parse true b (l_ch p) _ f1 d _ r Hp1 Hc1 H1) as [f2 H2].
      exact (w_conts_parse (l_cont p) _ f2 d _ r H2). }
    cbn [rz] in Hb. cbn [rdok] in Hd.
    destruct (is_raw p) eqn:Er; [|apply Hplain; [left; reflexivity|exact Hb|exact Hd]].
    destruct (byte_eqb b x28) eqn:E28.
    + (* a raw opening parenthesis *)
      apply byte_eqb_eq in E28. subst b. apply andb_true_iff in Hd as [Hd1 Hd2].
      destruct d as [|d']; [discriminate Hd1|].
      destruct (rz_split n z' 0 ltac:(lia) Hb) as [mid [p1 [post [E [R1 [R2 R3]]]]]]. subst z'.
      rewrite app_length in Hl. cbn [length] in Hl.
      (* depth of the parts *)
      pose proof (rdok_split mid ((x29, p1) :: post) 0 0 d' R2) as Hs. cbn [Nat.add] in Hs.
      destruct (Hs Hd2) as [Dm Dp]. cbn [rdok] in Dp. rewrite R1 in Dp.
      change (byte_eqb x29 x28) with false in Dp. change (byte_eqb x29 x29) with true in Dp. cbn [pred] in Dp.
      (* ncr of the parts *)
      assert (Hcm : ncr mid = true /\ ncr post = true).
      { clear - Hc2. induction mid as [|[b0 p0] mid IHm]; cbn [app ncr] in Hc2.
        - apply andb_true_iff in Hc2 as [_ H]. split; [reflexivity|exact H].
        - apply andb_true_iff in Hc2 as [H1 H2]. destruct (IHm H2) as [A B]. split; [cbn [ncr]; rewrite H1, A; reflexivity|exact B]. }
      destruct Hcm as [Cm Cp].
      assert (Lp : length post <= n /\ length mid <= n) by (clear - Hl; lia). destruct Lp as [Lp Lm].
      destruct (IH post Lp R3 Cp (S d') tail f out r Dp Ht) as [f2 H2].
      set (rest2 := wz true post tail) in *.
      assert (Hstop : inner_literal 1 d' (x29 :: rest2) = Some ([], x29 :: rest2)) by reflexivity.
      destruct (w_conts_parse (l_cont p1) (x29 :: rest2) 1 d' [] (x29 :: rest2) Hstop) as [f3 H3].
      destruct (IH mid Lm R2 Cm d' _ f3 [] (x29 :: rest2) Dm H3) as [f4 H4].
      rewrite app_nil_r in H4.
      assert (Ez : wz true ((x28, p) :: mid ++ (x29, p1) :: post) tail =
                   w_conts (l_cont p) (x28 :: wz true mid (w_conts (l_cont p1) (x29 :: rest2) ++ x29 :: rest2)) ++
                   x28 :: wz true mid (w_conts (l_cont p1) (x29 :: rest2) ++ x29 :: rest2)).
      { cbn [wz]. rewrite wz_app. cbn [wz]. fold rest2. unfold is_raw in Er, R1.
        destruct (l_ch p); try discriminate Er. destruct (l_ch p1); try discriminate R1.
        rewrite !raw_paren_byte by reflexivity. reflexivity. }
      rewrite Ez.
      pose proof (inner_open (Nat.max f4 f2) d' _ _ _ _ _
                    (inner_mono _ _ _ _ H4 (Nat.max f4 f2) ltac:(lia))
                    (inner_mono _ _ _ _ H2 (Nat.max f4 f2) ltac:(lia))) as H5.
      destruct (w_conts_parse (l_cont p) _ _ (S d') _ r H5) as [f6 H6].
      exists f6. rewrite H6. f_equal. f_equal.
      cbn [map fst app]. rewrite map_app. cbn [map fst]. rewrite <- app_assoc. reflexivity.
    + destruct (byte_eqb b x29) eqn:E29; [discriminate Hb|].
      apply Hplain; [right; unfold is_paren; rewrite E28, E29; reflexivity|exact Hb|exact Hd].
Qed.

(* ---------- the theorem: every spelling of a literal string ---------- *)
Definition raw_depth_ok (s : bytes) (st : list lpos) : bool := rdok (zip_st s st) 0 MAXB.

Theorem literal_any_spelling : forall s (st : list lpos) (tc : list eolk) rest fuel,
  no_raw_cr s st = true -> raw_depth_ok s st = true ->
  length (w_literal s st tc ++ rest) <= fuel ->
  literal_string fuel (w_literal s st tc ++ rest) = POk s rest.
Proof.
  intros s st tc rest fuel Hc Hd Hf.
  destruct (raw_parens_balanced s st 0) eqn:Hok.
  2:{ apply literal_any_spelling_partial; [left; exact Hok|exact Hc|exact Hf]. }
  unfold w_literal in *. rewrite Hok in *. cbn [app] in *.
  assert (Htl : w_conts tc [x29] ++ [x29] <> []) by (apply app_ne_r; discriminate).
  destruct (w_lit_body_app s st true _ rest Htl) as [E _]. rewrite E in *. clear E.
  rewrite <- app_assoc in *. cbn [app] in *.
  replace (w_conts tc [x29]) with (w_conts tc ([x29] ++ rest)) in * by (apply w_conts_ext; discriminate).
  cbn [app] in *.
  unfold literal_string. change (byte_eqb x28 x28) with true. cbv iota.
  assert (Hstop : inner_literal 1 MAXB (x29 :: rest) = Some ([], x29 :: rest)) by reflexivity.
  destruct (w_conts_parse tc (x29 :: rest) 1 MAXB [] (x29 :: rest) Hstop) as [f0 H0].
  rewrite wz_eq in *. rewrite rz_eq in Hok. rewrite ncr_eq in Hc.
  destruct (wz_parse (length (zip_st s st)) _ (le_n _) Hok Hc MAXB _ f0 [] (x29 :: rest) Hd H0) as [f' Hf'].
  rewrite app_nil_r, zip_fst in Hf'.
  set (body := wz true (zip_st s st) (w_conts tc (x29 :: rest) ++ x29 :: rest)) in *.
  destruct (inner_enough fuel MAXB body) as [o [r [Eo _]]]; [cbn [length] in Hf; lia|].
  pose proof (inner_mono _ _ _ _ Hf' (Nat.max f' fuel) ltac:(lia)) as M1.
  pose proof (inner_mono _ _ _ _ Eo (Nat.max f' fuel) ltac:(lia)) as M2.
  rewrite M1 in M2. inversion M2; subst o r.
  fold MAXB. rewrite Eo. change (byte_eqb x29 x29) with true. reflexivity.
Qed.
