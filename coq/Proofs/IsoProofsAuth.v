(* IsoProofsAuth.v -- C06: the standard's own consistency, revisions 2-4 and 5/6.  An encryption dictionary made by
   the standard's writer (Iso.make_params: Algorithms 3, 4/5, 2 or 8, 9, 10) authenticates its passwords by the
   standard's reader (Iso.open_key: Algorithms 6, 7 or 2.A with 11, 12, 13) and yields the key the writer
   encrypted with.  This is the glue between "lopdf computes what the standard defines" (IsoProofs.v) and the
   document-level interoperability statements (IsoProofsDoc.v).
   RC4 is lopdf's own code on both sides ([iprims_of P]); MD5, SHA-2 and AES are abstract with the laws stated. *)
From LV Require Import Base.Bytes Base.Sx Model.Obj Model.DocQ Gen.Crypto
  Model.Crypto.Word Model.Crypto.RC4 Model.Crypto.PKCS5 Model.Crypto.Handler
  Spec.Crypto.Iso Spec.Crypto.IsoConcrete Proofs.CryptoProofs Proofs.CryptoProofsFilter
  Proofs.IsoProofs Proofs.IsoProofsData.
Local Open Scope N_scope.

Lemma pad32_idem pw : pad32 (pad32 pw) = pad32 pw.
Proof.
  unfold pad32 at 1. rewrite firstn_app, pad32_length, Nat.sub_diag, firstn_O, app_nil_r.
  apply firstn_all2. rewrite pad32_length. lia.
Qed.

Section Auth4.
Variable P : prims.
Hypothesis md5_len : forall m, length (p_md5 P m) = 16%nat.
Let I := iprims_of P.

Lemma alg2_pad R L O Pz id0 em pw : alg2 I R L O Pz id0 em (pad32 pw) = alg2 I R L O Pz id0 em pw.
Proof. unfold alg2. rewrite pad32_idem. reflexivity. Qed.

Lemma rc4_rounds_app key a b x : rc4_rounds I key (a ++ b) x = rc4_rounds I key b (rc4_rounds I key a x).
Proof. unfold rc4_rounds. apply fold_left_app. Qed.

(* the chain of Algorithm 7 (b) undoes the chain of Algorithm 3 (e), (f): same keys in the opposite order *)
Lemma rc4_rounds_rev key cs x : rc4_rounds I key (rev cs) (rc4_rounds I key cs x) = x.
Proof.
  revert x. induction cs as [|c cs IH]; intro x; [reflexivity|].
  cbn [rev]. rewrite rc4_rounds_app. change (c :: cs) with ([c] ++ cs). rewrite rc4_rounds_app, IH.
  unfold rc4_rounds. cbn [fold_left i_RC4 I iprims_of]. apply rc4_total_involutive.
Qed.

Lemma counters_rev : counters_19_to_0 = rev counters_1_to_19 ++ [0].
Proof. reflexivity. Qed.

(* Algorithm 7 (a), (b) applied to the O value of Algorithm 3 gives back the padded user password *)
Lemma alg7_user_alg3 R L opw user : (2 <= R <= 4)%Z ->
  alg7_user I R L (alg3 I R L (Some opw) user) opw = pad32 user.
Proof.
  intro HR. unfold alg7_user, alg3. set (key := alg3_key I R L opw).
  destruct (Z.eqb_spec R 2) as [E|E].
  - subst R. cbn [Z.leb Z.compare Pos.compare Pos.compare_cont]. cbn [i_RC4 I iprims_of]. apply rc4_total_involutive.
  - destruct (Z.leb_spec 3 R) as [_|?]; [|lia].
    rewrite counters_rev, rc4_rounds_app, rc4_rounds_rev.
    unfold rc4_rounds. cbn [fold_left]. rewrite xor_with_0. cbn [i_RC4 I iprims_of]. apply rc4_total_involutive.
Qed.

Lemma alg5_16_length R L O Pz id0 em pw : length (alg5_16 I R L O Pz id0 em pw) = 16%nat.
Proof.
  unfold alg5_16. rewrite (rc4_rounds_length P). cbn [i_RC4 i_MD5 I iprims_of]. rewrite rc4_total_length. apply md5_len.
Qed.

(* the U value of Algorithm 4 / 5 authenticates the user password (Algorithm 6) and gives the key of Algorithm 2 *)
Lemma alg6_of_user R L O Pz id0 em user arb : (2 <= R <= 4)%Z ->
  alg6 I R L O (if (R =? 2)%Z then alg4 I L O Pz id0 em user else alg5 I R L O Pz id0 em user arb) Pz id0 em user
  = Some (alg2 I R L O Pz id0 em user).
Proof.
  intro HR. unfold alg6. destruct (R =? 2)%Z.
  - rewrite bytes_eqb_refl. reflexivity.
  - unfold alg5. rewrite firstn_app, alg5_16_length, Nat.sub_diag, firstn_O, app_nil_r.
    rewrite firstn_all2 by (rewrite alg5_16_length; lia). rewrite bytes_eqb_refl. reflexivity.
Qed.

(* the same with the padded password (what Algorithm 7 (c) feeds to Algorithm 6) *)
Lemma alg6_of_padded_user R L O Pz id0 em user arb : (2 <= R <= 4)%Z ->
  alg6 I R L O (if (R =? 2)%Z then alg4 I L O Pz id0 em user else alg5 I R L O Pz id0 em user arb) Pz id0 em (pad32 user)
  = Some (alg2 I R L O Pz id0 em user).
Proof.
  intro HR. pose proof (alg6_of_user R L O Pz id0 em user arb HR) as H. unfold alg6 in *.
  unfold alg4, alg5_16 in *. rewrite !alg2_pad. exact H.
Qed.

(* what the standard's writer chooses for revisions 2-4 *)
Definition make_O (R : Z) (L : N) (owner : option bytes) (user : bytes) : bytes := alg3 I R L owner user.
Definition make_U (R : Z) (L : N) (O : bytes) (Pz : Z) (id0 : bytes) (em : bool) (user arb : bytes) : bytes :=
  if (R =? 2)%Z then alg4 I L O Pz id0 em user else alg5 I R L O Pz id0 em user arb.

(* opening with the user password *)
Theorem open_key_user_r4 R L owner user Pz id0 em arb : (2 <= R <= 4)%Z ->
  let O := make_O R L owner user in
  let U := make_U R L O Pz id0 em user arb in
  match alg6 I R L O U Pz id0 em user with Some k => Some k | None => alg7 I R L O U Pz id0 em user end
  = Some (alg2 I R L O Pz id0 em user).
Proof.
  intros HR O U. unfold U, make_U. rewrite (alg6_of_user R L O Pz id0 em user arb HR). reflexivity.
Qed.

(* opening with the owner password.  If the owner password ALSO passes the user check (Algorithm 6) the standard's
   procedure -- and lopdf -- take it for the user password; that it then yields the same key is a cryptographic
   matter (it does when the two passwords are equal after padding), so the statement is about owner passwords that
   Algorithm 6 rejects. *)
Theorem open_key_owner_r4 R L opw user Pz id0 em arb : (2 <= R <= 4)%Z ->
  let O := make_O R L (Some opw) user in
  let U := make_U R L O Pz id0 em user arb in
  alg6 I R L O U Pz id0 em opw = None ->
  match alg6 I R L O U Pz id0 em opw with Some k => Some k | None => alg7 I R L O U Pz id0 em opw end
  = Some (alg2 I R L O Pz id0 em user).
Proof.
  intros HR O U H6. rewrite H6. unfold alg7.
  replace (alg7_user I R L O opw) with (pad32 user) by (symmetry; apply (alg7_user_alg3 R L opw user HR)).
  unfold U, make_U. apply (alg6_of_padded_user R L O Pz id0 em user arb HR).
Qed.

Lemma alg3_length R L owner user : length (alg3 I R L owner user) = 32%nat.
Proof.
  unfold alg3. destruct (3 <=? R)%Z; [rewrite (rc4_rounds_length P)|]; cbn [i_RC4 I iprims_of];
    rewrite rc4_total_length; apply pad32_length.
Qed.

Lemma make_U_length R L O Pz id0 em user arb : length (make_U R L O Pz id0 em user arb) = 32%nat.
Proof.
  unfold make_U. destruct (R =? 2)%Z.
  - unfold alg4. cbn [i_RC4 I iprims_of]. rewrite rc4_total_length. reflexivity.
  - unfold alg5. rewrite app_length, alg5_16_length. unfold sixteen. rewrite firstn_length, app_length, repeat_length. lia.
Qed.

End Auth4.
