(* LoaderEncProofs.v -- Model/LoaderEnc.v against Model/Loader.v and Model/LoaderExt.v:
     load_front_eq, load_ext_front_eq    the two older readers ARE the fronts followed by their tails;
     load_front_x_agrees                 the extended front answers what the plain front answers (LoaderExtProofs);
     load_enc_agrees                     no Encrypt entry in the trailer: load_encx = load_ext, for EVERY [after];
     load_enc_conservative               wherever load_ext answers, load_encx answers the same;
     load_encx_of_front                  a file whose plain front answers, whose trailer has Encrypt and whose
                                         entries Loader.read_entries reads: the decrypt attempt gets exactly the
                                         document with these objects (no object stream, nothing for the zero pass);
     load_encx_cases                     load_encx answers one of the reader's own results, never LPanic / LOut
                                         unless the front or read_entries_enc do, or whatever [after] answers. *)
From LV Require Import Base.Bytes Base.Sx Model.Obj Model.Writer Model.Parser Model.Xref Model.ObjStm Model.Utf
  Model.Loader Model.LoaderExt Model.LoaderEnc Gen.Lex Gen.SaveFmt Gen.Consts Proofs.LoaderExtProofs.

Local Open Scope N_scope.

Definition of_front (r : lstep front) (k : front -> lres) : lres :=
  match r with
  | SOk f => k f
  | SErr e => LErr e
  | SPanic => LPanic
  | SOut => LOut
  | SUnm => LUnmodelled
  end.

Lemma load_front_eq b : load b = of_front (load_front b) load_tail.
Proof.
  unfold load, load_front, of_front, load_tail, doc_of.
  destruct (header (from (pdf_offset b) b)) as [version|]; [|reflexivity].
  destruct (get_xref_start (from (pdf_offset b) b)) as [xs|]; [|reflexivity].
  destruct (xref_and_trailer (from (pdf_offset b) b) xs) as [[x0 t0]|e| | |]; try reflexivity.
  destruct (prev_loop _ _ x0 _ _ []) as [[x t]|e| | |]; try reflexivity.
  destruct (u32_max <=? xref_max_id x); reflexivity.
Qed.

Section Agree.
  Variable decompress : dict -> bytes -> option (dict * bytes).
  Variable can_decompress : dict -> bool.

  Lemma load_ext_front_eq b :
    load_ext decompress can_decompress b =
    of_front (load_front_x decompress can_decompress b) (load_ext_tail decompress can_decompress).
  Proof.
    unfold load_ext, load_front_x, of_front, load_ext_tail, plain_tail, doc_of, rstate0.
    destruct (header (from (pdf_offset b) b)) as [version|]; [|reflexivity].
    destruct (get_xref_start (from (pdf_offset b) b)) as [xs|]; [|reflexivity].
    destruct (xref_and_trailer_x decompress can_decompress (from (pdf_offset b) b) xs) as [[x0 t0]|e| | |]; try reflexivity.
    destruct (prev_loop_x decompress can_decompress _ _ x0 _ _ []) as [[x t]|e| | |]; try reflexivity.
    destruct (u32_max <=? xref_max_id x); reflexivity.
  Qed.

  Lemma load_front_x_agrees b :
    load_front b <> SUnm -> load_front_x decompress can_decompress b = load_front b.
  Proof.
    unfold load_front, load_front_x. intro H.
    destruct (header (from (pdf_offset b) b)) as [version|]; [|reflexivity].
    destruct (get_xref_start (from (pdf_offset b) b)) as [xs|]; [|reflexivity].
    set (buf := from (pdf_offset b) b) in *.
    assert (E1 : xref_and_trailer buf xs <> SUnm).
    { intro E. rewrite E in H. apply H. reflexivity. }
    rewrite (xref_and_trailer_x_agrees decompress can_decompress buf xs E1).
    destruct (xref_and_trailer buf xs) as [[x0 t0]|e| | |]; try reflexivity.
    assert (E2 : prev_loop (S (S (length buf))) buf x0 (dict_swap_remove t0 K_Prev) (dict_get t0 K_Prev) [] <> SUnm).
    { intro E. rewrite E in H. apply H. reflexivity. }
    rewrite (prev_loop_x_agrees decompress can_decompress buf _ _ _ _ _ E2). reflexivity.
  Qed.

  (* ---------- no Encrypt entry: the reader of LoaderExt.v, whatever the decrypt attempt would do ---------- *)
  Section After.
    Variable R : Type.
    Variable ret : lres -> R.
    Variable after : xmap -> doc -> xtype -> R.

    Theorem load_enc_agrees b :
      file_encrypted decompress can_decompress b = false ->
      load_encx decompress can_decompress R ret after b = ret (load_ext decompress can_decompress b).
    Proof.
      unfold file_encrypted, load_encx. rewrite load_ext_front_eq. unfold of_front, load_ext_tail.
      destruct (load_front_x decompress can_decompress b) as [f|e| | |]; try reflexivity.
      intros ->. reflexivity.
    Qed.

    Theorem load_enc_conservative b :
      load_ext decompress can_decompress b <> LUnmodelled ->
      load_encx decompress can_decompress R ret after b = ret (load_ext decompress can_decompress b).
    Proof.
      intro H. apply load_enc_agrees. unfold file_encrypted. rewrite load_ext_front_eq in H.
      unfold of_front, load_ext_tail in H.
      destruct (load_front_x decompress can_decompress b) as [f|e| | |]; try reflexivity.
      destruct (dict_has (f_trailer f) K_Encrypt); [exfalso; apply H; reflexivity | reflexivity].
    Qed.

    (* the encrypted file's objects, when Loader.read_entries reads them *)
    Lemma read_entries_enc_agrees buf x : forall es acc st,
      r_objs st = acc -> st_inv st ->
      match read_entries buf es acc with
      | SOk objs => exists st', read_entries_enc buf x es st = SOk st' /\ r_objs st' = objs /\ st_inv st'
      | SErr e => read_entries_enc buf x es st = SErr e
      | SPanic => read_entries_enc buf x es st = SPanic
      | SOut => read_entries_enc buf x es st = SOut
      | SUnm => True
      end.
    Proof.
      induction es as [|[k e] es IH]; intros acc st Hacc Hinv.
      - cbn [read_entries read_entries_enc]. exists st. split; [reflexivity|]. split; assumption.
      - cbn [read_entries read_entries_enc]. destruct e as [| |off g|c i]; try (apply IH; assumption).
        destruct (Loader.blen buf <? off); [apply IH; assumption|].
        unfold indirect_x.
        pose proof (indirect_with_agrees buf (from off buf) None (get_length (S MAX_LENGTH_CHAIN) buf x [])) as A.
        destruct (indirect_object (from off buf) None) as [id o| | | |].
        + destruct A as [pos [-> Hp]]. destruct o;
            try (apply IH; [cbn [r_objs]; rewrite Hacc; reflexivity | apply st_inv_insert; [exact Hinv | left; reflexivity]]).
          destruct (has_type d K_ObjStm); [exact I|].
          apply IH; [cbn [r_objs]; rewrite Hacc; reflexivity | apply st_inv_insert; assumption].
        + rewrite A. apply IH; assumption.
        + rewrite A. reflexivity.
        + rewrite A. reflexivity.
        + exact I.
    Qed.

    Lemma st_inv0 : st_inv rstate0.
    Proof. split; [reflexivity|]. intros id p Hp. discriminate Hp. Qed.

    Lemma enc_tail_of_entries f objs :
      read_entries (f_buf f) (x_entries (f_xref f)) [] = SOk objs ->
      enc_tail R ret after f = after (x_entries (f_xref f)) (doc_of f objs) (x_type (f_xref f)).
    Proof.
      intro H. unfold enc_tail.
      pose proof (read_entries_enc_agrees (f_buf f) (x_entries (f_xref f)) (x_entries (f_xref f)) [] rstate0 eq_refl st_inv0) as A.
      rewrite H in A. destruct A as [st' [-> [Ho [_ Hs2]]]].
      rewrite zero_pass_id by exact Hs2. rewrite Ho. reflexivity.
    Qed.

    Theorem load_encx_of_front b f objs :
      load_front b = SOk f -> dict_has (f_trailer f) K_Encrypt = true ->
      read_entries (f_buf f) (x_entries (f_xref f)) [] = SOk objs ->
      load_encx decompress can_decompress R ret after b =
      after (x_entries (f_xref f)) (doc_of f objs) (x_type (f_xref f)).
    Proof.
      intros Hf He Hr. unfold load_encx. rewrite load_front_x_agrees by (rewrite Hf; discriminate).
      rewrite Hf, He. apply enc_tail_of_entries. exact Hr.
    Qed.

    (* the same file without looking at Encrypt: whichever branch is taken *)
    Theorem load_encx_of_front_any b f objs :
      load_front b = SOk f ->
      read_entries (f_buf f) (x_entries (f_xref f)) [] = SOk objs ->
      load_encx decompress can_decompress R ret after b =
      if dict_has (f_trailer f) K_Encrypt
      then after (x_entries (f_xref f)) (doc_of f objs) (x_type (f_xref f))
      else ret (LOk (doc_of f objs) (x_type (f_xref f))).
    Proof.
      intros Hf Hr. destruct (dict_has (f_trailer f) K_Encrypt) eqn:He.
      - apply (load_encx_of_front b f objs Hf He Hr).
      - rewrite load_enc_agrees.
        + rewrite load_ext_agrees; rewrite load_front_eq, Hf; unfold of_front, load_tail; rewrite He, Hr; [reflexivity | discriminate].
        + unfold file_encrypted. rewrite load_front_x_agrees by (rewrite Hf; discriminate). rewrite Hf. exact He.
    Qed.

    (* what load_encx can answer: one of the reader's own results, or what the decrypt attempt answers *)
    Theorem load_encx_cases b :
      (exists r, load_encx decompress can_decompress R ret after b = ret r /\
                 (r = LPanic \/ r = LOut ->
                  load_front_x decompress can_decompress b = SPanic \/ load_front_x decompress can_decompress b = SOut \/
                  exists f, load_front_x decompress can_decompress b = SOk f /\
                    (plain_tail decompress can_decompress f = r \/
                     (r = LPanic /\ read_entries_enc (f_buf f) (x_entries (f_xref f)) (x_entries (f_xref f)) rstate0 = SPanic) \/
                     (r = LOut /\ read_entries_enc (f_buf f) (x_entries (f_xref f)) (x_entries (f_xref f)) rstate0 = SOut)))) \/
      (exists x d t, load_encx decompress can_decompress R ret after b = after x d t).
    Proof.
      unfold load_encx.
      destruct (load_front_x decompress can_decompress b) as [f|e| | |] eqn:Ef.
      - destruct (dict_has (f_trailer f) K_Encrypt).
        + unfold enc_tail.
          destruct (read_entries_enc (f_buf f) (x_entries (f_xref f)) (x_entries (f_xref f)) rstate0) as [st|e| | |] eqn:Er.
          * right. eexists _, _, _. reflexivity.
          * left. exists (LErr e). split; [reflexivity|]. intros [H|H]; discriminate H.
          * left. exists LPanic. split; [reflexivity|]. intros _. right. right. exists f. split; [reflexivity|].
            right. left. split; [reflexivity | exact Er].
          * left. exists LOut. split; [reflexivity|]. intros _. right. right. exists f. split; [reflexivity|].
            right. right. split; [reflexivity | exact Er].
          * left. exists LUnmodelled. split; [reflexivity|]. intros [H|H]; discriminate H.
        + left. exists (plain_tail decompress can_decompress f). split; [reflexivity|]. intros _. right. right.
          exists f. split; [reflexivity|]. left. reflexivity.
      - left. exists (LErr e). split; [reflexivity|]. intros [H|H]; discriminate H.
      - left. exists LPanic. split; [reflexivity|]. intros _. left. reflexivity.
      - left. exists LOut. split; [reflexivity|]. intros _. right. left. reflexivity.
      - left. exists LUnmodelled. split; [reflexivity|]. intros [H|H]; discriminate H.
    Qed.
  End After.
End Agree.
