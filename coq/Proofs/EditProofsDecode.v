(* EditProofsDecode.v -- C11 x C09: the decoder of Document::get_page_content (decompressed_content, raw bytes on error)
   as the [decode] parameter of Spec/AbstractDoc.v.  With C09's compress theorem, the stream change_page_content writes
   decodes to the new content, so the page shows EXACTLY the new content.  The two facts assumed about flate2 concern the
   one content that is written (inflate (deflate c) = c, deflate c <> []), as in C09_compress_unfiltered_lossless. *)
From LV Require Import Base.Bytes Model.Obj Model.DocQ Model.PageTree Model.Traverse Model.Edit Model.A85 Model.StreamFilt
  Gen.Consts Spec.AbstractDoc Proofs.RenumberProofsMap Proofs.EditProofs Proofs.EditProofsContent
  Proofs.EditProofsContent2 Proofs.FilterProofsDict Proofs.FilterProofsStream.

Definition decode_c09 (O : oracles) (sd : dict) (b : bytes) : bytes :=
  match get_plain_content (o_inflate O) (o_lzw O) {| s_dict := sd; s_content := b |} with Ok x => x | _ => b end.

Lemma decode_new_stream O c : decode_c09 O (new_dict c) c = c.
Proof.
  unfold decode_c09. rewrite plain_unfiltered; [reflexivity|]. reflexivity.
Qed.

Lemma decode_rewritten O sd c0 c :
  dict_wf sd -> o_inflate O (o_deflate O c) = c -> o_deflate O c <> [] ->
  let s' := rewritten_stream O sd c0 c in decode_c09 O (s_dict s') (s_content s') = c.
Proof.
  intros W HI HE s'. unfold decode_c09, s', rewritten_stream.
  destruct (set_plain_content_spec {| s_dict := sd; s_content := c0 |} c) as [E1 [_ E3]].
  destruct (E3 W) as [[U1 _] [W' _]].
  replace {| s_dict := s_dict (compress (o_deflate O) (set_plain_content {| s_dict := sd; s_content := c0 |} c));
             s_content := s_content (compress (o_deflate O) (set_plain_content {| s_dict := sd; s_content := c0 |} c)) |}
    with (compress (o_deflate O) (set_plain_content {| s_dict := sd; s_content := c0 |} c))
    by (destruct (compress _ _); reflexivity).
  rewrite (compress_unfiltered_lossless (o_inflate O) (o_lzw O) (o_deflate O));
    [exact E1 | exact W' | exact U1 | rewrite E1; exact HI | rewrite E1; exact HE].
Qed.

(* change_page_content on ANY page with a Contents entry, read with the crate's own decoder: the page shows exactly the new
   content, every other page of the document with a defined content shows what it showed *)
Theorem cpc_shows_new_content O d page pd c x :
  alloc_ok d -> (d_max_id d < Renumber.U32_MAX)%N ->
  (forall id sd c0, lookup (d_objects d) id = Some (OStream sd c0) -> dict_wf sd) ->
  o_inflate O (o_deflate O c) = c -> o_deflate O c <> [] ->
  get_dictionary (d_objects d) page = Some pd -> dict_get pd K_Contents = Some x ->
  exists d',
    change_page_content O d page c = (d', OOk) /\
    page_content (decode_c09 O) (d_objects d') page = Some c /\
    (forall q b, In q (page_iter d) -> get_object_mut_id (d_objects d) q <> get_object_mut_id (d_objects d) page ->
                 page_content (decode_c09 O) (d_objects d) q = Some b -> page_content (decode_c09 O) (d_objects d') q = Some b) /\
    d_trailer d' = d_trailer d.
Proof.
  intros A Hmax Wf HI HE Gp Ec.
  destruct (cpc_content (decode_c09 O) O d page pd c x A Hmax Gp Ec) as [d' [sd' [c' [H1 [H2 [H3 [H4 H5]]]]]]].
  exists d'. split; [exact H1|]. split; [|split; [exact H4 | exact H5]].
  rewrite H3. f_equal. destruct H2 as [[id [sd [c0 [_ [_ [Ls E]]]]]]|E].
  - unfold stream_obj in E. inversion E; subst. apply decode_rewritten; [eapply Wf; exact Ls | exact HI | exact HE].
  - unfold new_stream in E. inversion E; subst. apply decode_new_stream.
Qed.
