(* SpellingFileProofs.v -- C02 between rung 2 and rung 3: an indirect object in ANY spelling the reference writer's
   style denotes (fillers after the object number, the generation, "obj" and the object; every spelling of the
   object; streams with "stream" CR LF or LF, an optional end-of-line before "endstream", Length written directly)
   is read by the loader model's parser::_indirect_object (Model/Loader.v indirect_object) as the denoted object,
   whatever follows "endobj"; and the trailer in any spelling by Model/Xref.v trailer. *)
From LV Require Import Base.Bytes Base.Sx Model.Obj Model.Writer Model.Parser Model.Xref Model.Loader Gen.Lex
  Spec.XrefSpec Spec.RefWriter Proofs.LexProofs Proofs.LitStringProofs Proofs.RealProofs Proofs.ObjectRtProofs
  Proofs.SpellingProofs Proofs.SpellingProofsLit Proofs.SpellingNumProofs Proofs.SpellingObjProofs Proofs.LoadProofs.
From Coq Require Import Lia.
Local Open Scope N_scope.

Lemma join_last t more : join [(t, [])] ++ more = t ++ more.
Proof. cbn [join]. change (fill_bytes []) with (@nil byte). rewrite app_nil_r. reflexivity. Qed.

Ltac tok_ne := eexists _, _, _; split; [reflexivity|]; try discriminate.

(* ---------- the head "id gen obj" ---------- *)
Definition head_text (id gen : N) (f1 f2 f3 : filler) (O : bytes) : bytes :=
  let B := bs "obj" ++ sepT (bs "obj") f3 O ++ O in
  let G := N_dec gen ++ sepT (N_dec gen) f2 B ++ B in
  N_dec id ++ sepT (N_dec id) f1 G ++ G.

Lemma tailok_word c t X :
  is_whitespace c = false -> byte_eqb c x25 = false -> is_dec_digit c = false -> byte_eqb x52 c = false ->
  tailok ((c :: t) ++ X).
Proof.
  intros H1 H2 H3 H4. cbn [app].
  assert (Ht : tok_start (c :: t ++ X) = true) by (cbn [tok_start]; rewrite H1, H2; reflexivity).
  split; [exact Ht|]. split.
  - unfold ref_tail. rewrite (space_tok _ Ht). unfold unsigned_int. cbn [take_while]. rewrite H3. reflexivity.
  - unfold noR. rewrite (space_tok _ Ht). cbn [prefixb]. rewrite H4. reflexivity.
Qed.

Lemma last_reg_dec n : last_reg (N_dec n).
Proof. apply last_reg_digits; [apply N_dec_nonempty | apply digits_dop, N_dec_digits]. Qed.

Lemma head_parse id gen f1 f2 f3 O :
  id <= u32_max -> gen <= u16_max -> tok_start O = true ->
  object_id (space (head_text id gen f1 f2 f3 O)) = POk (id, gen) (bs "obj" ++ sepT (bs "obj") f3 O ++ O) /\
  space (sepT (bs "obj") f3 O ++ O) = O.
Proof.
  intros Hi Hg HO. unfold head_text.
  set (B := bs "obj" ++ sepT (bs "obj") f3 O ++ O). set (G := N_dec gen ++ sepT (N_dec gen) f2 B ++ B).
  assert (HB : tok_start B = true) by reflexivity.
  assert (HG : tok_start G = true) by (apply digits_tok; [apply N_dec_nonempty | apply N_dec_digits]).
  split.
  - rewrite (space_tok (N_dec id ++ _)) by (apply digits_tok; [apply N_dec_nonempty | apply N_dec_digits]).
    unfold object_id.
    rewrite (unsigned_int_rt u32_max id _ Hi) by (apply nonreg_nondigit, sepT_nonreg, last_reg_dec).
    cbn [pbind]. rewrite space_sepT, (space_tok G HG). unfold G at 1.
    rewrite (unsigned_int_rt u16_max gen _ Hg) by (apply nonreg_nondigit, sepT_nonreg, last_reg_dec).
    cbn [pbind]. rewrite space_sepT, (space_tok B HB). reflexivity.
  - rewrite space_sepT. apply space_tok. exact HO.
Qed.

(* ---------- an indirect object that is not a stream ---------- *)
Lemma w_indirect_text id gen o (y : istyle) post :
  (forall d c, o <> OStream d c) -> spell_wf o (i_obj y) ->
  w_indirect id gen o y ++ post =
  head_text id gen (i_f1 y) (i_f2 y) (i_f3 y)
    (w_obj o (i_obj y) ++ sepT (w_obj o (i_obj y)) (i_f4 y) (bs "endobj" ++ post) ++ bs "endobj" ++ post).
Proof.
  intros Hns Hw. unfold head_text.
  assert (E : w_indirect id gen o y =
              join [(N_dec id, i_f1 y); (N_dec gen, i_f2 y); (bs "obj", i_f3 y); (w_obj o (i_obj y), i_f4 y); (bs "endobj", [])]).
  { unfold w_indirect. destruct o; try reflexivity. exfalso. eapply Hns. reflexivity. }
  rewrite E.
  rewrite (join_cons' _ _ _ post) by (tok_ne; apply N_dec_nonempty).
  rewrite (join_cons' _ _ _ post) by tok_ne.
  rewrite (join_cons' _ _ _ post) by (tok_ne; apply w_obj_ne; exact Hw).
  rewrite (join_cons' _ _ _ post) by tok_ne.
  rewrite join_last. reflexivity.
Qed.

Lemma tailok_endobj post : tailok (bs "endobj" ++ post).
Proof. apply (tailok_word x65); reflexivity. Qed.

(* a spelled object that is not a dictionary is not taken for one *)
Lemma dictionary_not o y f tail :
  spell_wf o y -> (forall d, o <> ODict d) -> dictionary (S f) (w_obj o y ++ tail) = PErr.
Proof.
  intros Hw Hnd. destruct (w_obj_head o y Hw) as [c [t [E [Hl Hn]]]].
  destruct (byte_eqb c x3c) eqn:Ec.
  2:{ rewrite E. cbn [app]. apply dictionary_not_dict. exact Ec. }
  apply byte_eqb_eq in Ec. subst c.
  destruct o as [|b|z|r|n|s h|l|d|d c0|i g]; cbn [spell_wf] in Hw;
    try (exfalso; cbn [w_obj] in E; discriminate E).
  - exfalso. destruct b; discriminate E.
  - exfalso. cbn [w_obj] in E. destruct (w_int_shape z (match y with YInt p _ => p | _ => false end) (match y with YInt _ lz => lz | _ => 0%nat end))
      as [sg [ds [E2 [Hne [Hds Hsg]]]]].
    assert (E3 : (match y with YInt p lz => w_int z p lz | _ => w_int z false 0 end) =
                 w_int z (match y with YInt p _ => p | _ => false end) (match y with YInt _ lz => lz | _ => 0%nat end))
      by (destruct y; reflexivity).
    rewrite E3, E2 in E. destruct (digits_cons ds Hne Hds) as [c1 [t1 [Ec1 Hc1]]].
    destruct Hsg as [->|[->| ->]]; cbn [app] in E; try discriminate E.
    rewrite Ec1 in E. inversion E; subst c1. discriminate Hc1.
  - exfalso. cbn [w_obj] in E.
    assert (E3 : (match y with YReal ry0 => w_real r ry0 | _ => w_real r default_rstyle end) = w_real r (rstyle_of y))
      by (destruct y; reflexivity).
    rewrite E3 in E. destruct (real_parts_of r (rstyle_of y) Hw) as [neg [ipt [fr [E2 [Hi _]]]]]. rewrite E2 in E.
    unfold sign_bytes in E. destruct neg; [discriminate E|]. destruct (r_plus (rstyle_of y)); [discriminate E|].
    cbn [app] in E. destruct ipt as [|c1 t1]; [discriminate E|]. cbn [forallb] in Hi. apply andb_true_iff in Hi as [Hc1 _].
    inversion E; subst c1. discriminate Hc1.
  - (* a hexadecimal string: '<' then a hex digit, white-space or '>' *)
    cbn [w_obj] in *. unfold w_string in *.
    assert (Hh : exists l tw dl, (match y with
                  | YStr (SLit l0 tc) => w_literal s l0 tc | YStr (SHex l0 tw0 dl0) => w_hexstr s l0 tw0 dl0
                  | _ => if h then w_hexstr s [] [] false else w_literal s (default_lit s) [] end) = w_hexstr s l tw dl).
    { destruct y as [| | | |[l0 tc|l0 tw0 dl0]| | |]; try (destruct h; [eauto|discriminate E]); [discriminate E|eauto]. }
    destruct Hh as [l [tw [dl Eh]]]. rewrite Eh. unfold w_hexstr. cbn [app].
    assert (G : exists c2 t2, w_hex_body s l dl ++ ws_bytes tw ++ [x3e] = c2 :: t2 /\ byte_eqb c2 x3c = false).
    { assert (Gd : forall u d0, d0 < 16 -> byte_eqb (hexd u d0) x3c = false).
      { intros u d0 Hd0. destruct (hexd_val u d0 Hd0) as [Hv _]. destruct (byte_eqb (hexd u d0) x3c) eqn:K; [|reflexivity].
        apply byte_eqb_eq in K. rewrite K in Hv. discriminate Hv. }
      assert (Gw : forall k, byte_eqb (ws_byte k) x3c = false).
      { intro k. pose proof (ws_byte_ws k) as K. destruct (byte_eqb (ws_byte k) x3c) eqn:K2; [|reflexivity].
        apply byte_eqb_eq in K2. rewrite K2 in K. discriminate K. }
      assert (Gt : exists c2 t2, ws_bytes tw ++ [x3e] = c2 :: t2 /\ byte_eqb c2 x3c = false).
      { destruct tw as [|k tw']; cbn [ws_bytes map app]; eexists _, _; (split; [reflexivity|]); [reflexivity|apply Gw]. }
      destruct s as [|b s']; [exact Gt|]. cbn [w_hex_body].
      destruct l as [|p l']; destruct s' as [|b2 s2];
        try destruct (dl && (N_of_byte b mod 16 =? 0));
        try (cbn [default_hpos h_ws1 ws_bytes map app]; eexists _, _; split; [reflexivity|apply Gd, hi_lt]);
        destruct (h_ws1 p) as [|k ws1]; cbn [ws_bytes map app]; eexists _, _; (split; [reflexivity|]);
          first [apply Gd, hi_lt | apply Gw]. }
    destruct G as [c2 [t2 [E2 H2]]]. rewrite E2. cbn [app].
    apply dictionary_hex. exact H2.
  - exfalso. rewrite w_obj_arr in E. destruct (arr_toks_hd l (arr_sts y)) as [t2 [f2 [toks E2]]]. rewrite E2 in E.
    cbn [join] in E. discriminate E.
  - exfalso. eapply Hnd. reflexivity.
  - contradiction.
  - exfalso. pose proof (w_ref_text i g y []) as E3. rewrite app_nil_r in E3. cbn [w_obj] in E. rewrite E3 in E.
    unfold ref_text in E. destruct (ref_parts y) as [[[z1 z2] f1] f2].
    destruct (digits_cons _ (padded_ne z1 i) (padded_digits_all z1 i)) as [c1 [t1 [Ec1 Hc1]]]. rewrite Ec1 in E.
    cbn [app] in E. inversion E; subst c1. discriminate Hc1.
Qed.

Theorem indirect_any_spelling id gen o (y : istyle) post :
  id <= u32_max -> gen <= u16_max -> (forall d c, o <> OStream d c) ->
  spell_wf o (i_obj y) -> (nest o <= MAX_DEPTH)%nat ->
  indirect_object (w_indirect id gen o y ++ post) None = IOk (id, gen) (denote o (i_obj y)).
Proof.
  intros Hi Hg Hns Hw Hd. rewrite (w_indirect_text id gen o y post Hns Hw).
  set (E := bs "endobj" ++ post). set (t := w_obj o (i_obj y)). set (R := sepT t (i_f4 y) E ++ E).
  pose proof (tailok_endobj post) as HE. fold E in HE.
  assert (HO : tok_start (t ++ R) = true).
  { destruct (w_obj_head o _ Hw) as [c [t0 [Ec [Hl _]]]]. unfold t. rewrite Ec. apply lead2_tok. exact Hl. }
  destruct (head_parse id gen (i_f1 y) (i_f2 y) (i_f3 y) (t ++ R) Hi Hg HO) as [P1 P2].
  unfold indirect_object. rewrite P1. rewrite ptag_app. rewrite P2.
  set (whole := head_text id gen (i_f1 y) (i_f2 y) (i_f3 y) (t ++ R)).
  assert (Hlen : (length (t ++ R) <= length whole)%nat).
  { unfold whole, head_text. cbv zeta. rewrite !app_length. lia. }
  assert (Hdo : direct_objects (fuel_for whole) (t ++ R) = POk (denote o (i_obj y)) R).
  { apply direct_objects_spelled; [exact Hw | apply follow_tok; assumption | unfold fuel_for; fold t; lia | exact Hd]. }
  assert (Hst : stream_p (fuel_for whole) (t ++ R) = StErr).
  { unfold stream_p. destruct o as [| | | | | | |d| |]; try (unfold t; unfold fuel_for; rewrite dictionary_not; [reflexivity|exact Hw|intros d0 K; discriminate K]).
    unfold t. rewrite dictionary_any_spelling; [|exact Hw|unfold fuel_for; fold t; lia|exact Hd].
    unfold R. rewrite (space_sep_tok _ _ E HE). reflexivity. }
  rewrite Hst, Hdo. reflexivity.
Qed.

(* ---------- streams whose Length is written directly ---------- *)
Definition stream_body (y : istyle) (c : bytes) : bytes :=
  bs "stream" ++ (if i_crlf y then [x0d; x0a] else [x0a]) ++ c ++ opt_eol (i_eeol y) ++ bs "endstream".

Lemma w_indirect_stream_text id gen d c (y : istyle) post :
  spell_wf (ODict d) (i_obj y) ->
  w_indirect id gen (OStream d c) y ++ post =
  head_text id gen (i_f1 y) (i_f2 y) (i_f3 y)
    (let E := bs "endobj" ++ post in
     let S1 := stream_body y c ++ sepT (stream_body y c) (i_f4 y) E ++ E in
     w_obj (ODict d) (i_obj y) ++ sepT (w_obj (ODict d) (i_obj y)) (i_fs y) S1 ++ S1).
Proof.
  intro Hw. unfold head_text, w_indirect. cbv zeta. fold (stream_body y c).
  rewrite (join_cons' _ _ _ post) by (tok_ne; apply N_dec_nonempty).
  rewrite (join_cons' _ _ _ post) by tok_ne.
  rewrite (join_cons' _ _ _ post) by (tok_ne; apply w_obj_ne; exact Hw).
  rewrite (join_cons' _ _ _ post) by tok_ne.
  rewrite (join_cons' _ _ _ post) by tok_ne.
  rewrite join_last. reflexivity.
Qed.

Lemma dict_get_denote : forall d sts k z,
  dict_get d k = Some (OInt z) -> dict_get (denote_dict d sts) k = Some (OInt z).
Proof.
  induction d as [|[k0 v] d IH]; intros sts k z H; [discriminate H|].
  cbn [denote_dict dict_get] in *. destruct (bytes_eqb k0 k).
  - inversion H; subst. reflexivity.
  - apply IH. exact H.
Qed.

Theorem indirect_stream_any_spelling id gen d c (y : istyle) post :
  id <= u32_max -> gen <= u16_max ->
  spell_wf (ODict d) (i_obj y) -> (nest (ODict d) <= MAX_DEPTH)%nat ->
  dict_get d K_Length = Some (OInt (Z.of_nat (length c))) ->
  indirect_object (w_indirect id gen (OStream d c) y ++ post) None =
  IOk (id, gen) (stream_new (denote_dict d (dict_sts (i_obj y))) c).
Proof.
  intros Hi Hg Hw Hd HL. rewrite (w_indirect_stream_text id gen d c y post Hw). cbv zeta.
  set (E := bs "endobj" ++ post). set (SB := stream_body y c). set (S1 := SB ++ sepT SB (i_f4 y) E ++ E).
  set (t := w_obj (ODict d) (i_obj y)). set (R := sepT t (i_fs y) S1 ++ S1).
  assert (HO : tok_start (t ++ R) = true).
  { destruct (w_obj_head (ODict d) _ Hw) as [c0 [t0 [Ec [Hl _]]]]. unfold t. rewrite Ec. apply lead2_tok. exact Hl. }
  destruct (head_parse id gen (i_f1 y) (i_f2 y) (i_f3 y) (t ++ R) Hi Hg HO) as [P1 P2].
  unfold indirect_object. rewrite P1. rewrite ptag_app. rewrite P2.
  set (whole := head_text id gen (i_f1 y) (i_f2 y) (i_f3 y) (t ++ R)).
  assert (Hlen : (length (t ++ R) <= length whole)%nat).
  { unfold whole, head_text. cbv zeta. rewrite !app_length. lia. }
  assert (Hst : stream_p (fuel_for whole) (t ++ R) = StOk (stream_new (denote_dict d (dict_sts (i_obj y))) c)
                                                        (sepT SB (i_f4 y) E ++ E)).
  { unfold stream_p. unfold t at 1. rewrite dictionary_any_spelling; [|exact Hw|unfold fuel_for; fold t; lia|exact Hd].
    assert (HS1 : tok_start S1 = true) by reflexivity.
    unfold R. rewrite space_sepT, (space_tok S1 HS1).
    unfold S1, SB, stream_body. rewrite <- !app_assoc. rewrite ptag_app.
    rewrite (dict_get_denote d _ K_Length _ HL).
    assert (Hneg : (Z.of_nat (length c) <? 0)%Z = false) by lia. 
    assert (Heol : forall X, eol (skip_while is_space_tab ((if i_crlf y then [x0d; x0a] else [x0a]) ++ X)) = POk tt X)
      by (intro X; destruct (i_crlf y); reflexivity).
    rewrite Heol, Hneg. rewrite take_N_app.
    assert (Hend : forall X, ptag (bs "endstream")
                     (match eol (opt_eol (i_eeol y) ++ bs "endstream" ++ X) with POk _ r => r | _ => opt_eol (i_eeol y) ++ bs "endstream" ++ X end)
                     = POk tt X).
    { intro X. destruct (i_eeol y) as [[| |]|]; cbn [opt_eol eol_bytes app]; try (rewrite <- (ptag_app (bs "endstream") X); reflexivity). }
    rewrite Hend. reflexivity. }
  rewrite Hst. reflexivity.
Qed.

(* ---------- the trailer ---------- *)
Theorem trailer_any_spelling (f1 f2 : filler) d (y : ostyle) next post :
  spell_wf (ODict d) y -> (nest (ODict d) <= MAX_DEPTH)%nat -> next <> [] -> tok_start (next ++ post) = true ->
  trailer (join [(bs "trailer", f1); (w_obj (ODict d) y, f2); (next, [])] ++ post) =
  POk (denote_dict d (dict_sts y)) (next ++ post).
Proof.
  intros Hw Hd Hne Ht.
  rewrite (join_cons' _ _ _ post) by (tok_ne; apply w_obj_ne; exact Hw).
  rewrite (join_cons' _ _ _ post) by (tok_ne; exact Hne).
  rewrite join_last. unfold trailer. rewrite ptag_app. cbn [pbind].
  rewrite space_sepT. set (fuel := fuel_for _).
  assert (HO : tok_start (w_obj (ODict d) y ++ sepT (w_obj (ODict d) y) f2 (next ++ post) ++ next ++ post) = true).
  { destruct (w_obj_head (ODict d) _ Hw) as [c0 [t0 [Ec [Hl _]]]]. rewrite Ec. apply lead2_tok. exact Hl. }
  rewrite (space_tok _ HO).
  rewrite dictionary_any_spelling; [|exact Hw| |exact Hd].
  - cbn [pbind]. rewrite space_sepT, (space_tok _ Ht). reflexivity.
  - unfold fuel, fuel_for. rewrite !app_length. cbn [length]. lia.
Qed.
