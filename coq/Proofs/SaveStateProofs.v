(* SaveStateProofs.v -- what a failed save leaves behind (C19, resave clause).  No axioms. *)
From LV Require Import Base.Bytes Model.Obj Model.Sink Model.SaveState Proofs.SinkProofs.

Local Open Scope N_scope.

(* ---- the state model rides on the sink model: result and delivered bytes of [save_with] are those
        of the plain run over pre ++ post ---- *)
Lemma save_with_rd wa mode ids top pre post st s :
  let '(r, d, _) := save_with wa mode ids top pre post st s in
  (r, d) = rd (run wa (pre ++ post) s).
Proof.
  unfold save_with, run, rd. cbv zeta. rewrite run_cw_app.
  destruct (run_cw wa pre _) as [[r1 d1] c1]. destruct r1; [|reflexivity].
  destruct (run_cw wa post c1) as [[r2 d2] c2]. reflexivity.
Qed.

Section Residue.
  Variable wa : script -> bytes -> wres * bytes * script.
  Hypothesis wa_ok : wa_sound wa.

  (* T9: a save that fails leaves the document either untouched -- up to the raise of max_id to the
     largest object number, which every plain save begins with -- or exactly as a successful save
     leaves it; which of the two is decided by whether the failure came before or after the
     mutation point, i.e. by how many bytes were delivered.  A successful save always mutates. *)
  Theorem failed_save_residue mode ids top pre post st s r d st' :
    save_with wa mode ids top pre post st s = (r, d, st') ->
    ((length d < length (concat pre))%nat /\ st' = raise_max_id top st /\ r <> WOk) \/
    ((length (concat pre) <= length d)%nat /\ st' = mutate mode ids (raise_max_id top st)).
  Proof.
    unfold save_with. cbv zeta. destruct (run_cw wa pre _) as [[r1 d1] c1] eqn:E1.
    destruct (run_cw_sound wa wa_ok _ _ _ _ _ E1) as [rest [Hc [Hok Herr]]].
    destruct r1 as [|e1].
    - destruct (run_cw wa post c1) as [[r2 d2] c2]. intro H. injection H as <- <- <-.
      right. destruct (Hok eq_refl) as [-> _]. rewrite app_nil_r in Hc. rewrite Hc, app_length. split; [lia | reflexivity].
    - intro H. injection H as <- <- <-. left. specialize (Herr e1 eq_refl).
      rewrite Hc, app_length. destruct rest; [congruence|]. cbn [length]. repeat split; [lia | discriminate].
  Qed.

  Corollary ok_save_mutates mode ids top pre post st s d st' :
    save_with wa mode ids top pre post st s = (WOk, d, st') -> st' = mutate mode ids (raise_max_id top st).
  Proof.
    intro H. destruct (failed_save_residue _ _ _ _ _ _ _ _ _ _ H) as [[_ [_ Hr]] | [_ Hm]]; [congruence | exact Hm].
  Qed.
End Residue.

(* ---- dictionary facts ---- *)
Lemma dict_set_idem d k v : dict_set (dict_set d k v) k v = dict_set d k v.
Proof.
  induction d as [|[k0 v0] d IH]; cbn [dict_set].
  - rewrite bytes_eqb_refl. reflexivity.
  - destruct (bytes_eqb k0 k) eqn:E; cbn [dict_set]; rewrite E; [reflexivity | rewrite IH; reflexivity].
Qed.

Lemma dict_get_set_other d k v k' : k <> k' -> dict_get (dict_set d k v) k' = dict_get d k'.
Proof.
  intro Hk. induction d as [|[k0 v0] d IH]; cbn [dict_set dict_get].
  - destruct (bytes_eqb k k') eqn:E; [apply bytes_eqb_eq in E; contradiction | reflexivity].
  - destruct (bytes_eqb k0 k) eqn:E; cbn [dict_get].
    + apply bytes_eqb_eq in E. subst k0.
      destruct (bytes_eqb k k') eqn:E'; [apply bytes_eqb_eq in E'; contradiction | reflexivity].
    + rewrite IH. reflexivity.
Qed.

Lemma dict_get_set_same d k v : dict_get (dict_set d k v) k = Some v.
Proof.
  induction d as [|[k0 v0] d IH]; cbn [dict_set dict_get].
  - rewrite bytes_eqb_refl. reflexivity.
  - destruct (bytes_eqb k0 k) eqn:E; cbn [dict_get]; rewrite E; [reflexivity | exact IH].
Qed.

(* ---- the raise of max_id ---- *)
Definition top_le (top : option N) (st : sstate) : Prop :=
  match top with None => True | Some t => t <= s_max_id st end.

Lemma raise_top_le top st : top_le top (raise_max_id top st).
Proof. destruct top as [t|]; cbn; [lia | exact I]. Qed.

(* once max_id bounds the object numbers the raise does nothing: in particular it is idempotent *)
Lemma raise_noop top st : top_le top st -> raise_max_id top st = st.
Proof.
  destruct top as [t|]; cbn; [|reflexivity]. intro H. destruct st as [m tr]. cbn in *. f_equal. lia.
Qed.

Theorem raise_idem top st : raise_max_id top (raise_max_id top st) = raise_max_id top st.
Proof. apply raise_noop, raise_top_le. Qed.

Lemma top_le_mutate mode ids top st : top_le top st -> top_le top (mutate mode ids st).
Proof. destruct top as [t|]; [|trivial]. destruct mode; cbn; lia. Qed.

(* ---- table format ---- *)
(* T10: the table path's mutation is idempotent and touches nothing but Size: after any number of
   failed saves the document is in the state ONE successful save would have produced *)
Theorem mutate_table_idem st : mutate_table (mutate_table st) = mutate_table st.
Proof. unfold mutate_table. cbn [s_max_id s_trailer]. rewrite dict_set_idem. reflexivity. Qed.

Theorem mutate_table_frame st :
  s_max_id (mutate_table st) = s_max_id st /\
  dict_get (s_trailer (mutate_table st)) K_Size = Some (OInt (Z.of_N (s_max_id st + 1))) /\
  forall k, k <> K_Size -> dict_get (s_trailer (mutate_table st)) k = dict_get (s_trailer st) k.
Proof.
  unfold mutate_table. cbn [s_max_id s_trailer]. split; [reflexivity|]. split; [apply dict_get_set_same|].
  intros k Hk. apply dict_get_set_other. congruence.
Qed.

(* T11: hence a re-save in table format issues exactly the calls of a pristine save.  The calls are
   written as the source's data flow dictates: everything before the mutation point reads max_id
   (xref table size) but not the trailer; everything after it reads the MUTATED document. *)
Section ResaveTable.
  Variable pre_of : N -> list bytes.          (* header, mark, objects, xref table *)
  Variable post_of : sstate -> list bytes.    (* "trailer\n", the trailer dictionary, startxref *)
  Variable top : option N.                    (* largest object number (plain save) *)
  Definition table_calls (st : sstate) : list bytes :=
    let st0 := raise_max_id top st in pre_of (s_max_id st0) ++ post_of (mutate_table st0).

  (* st' = what a failed save leaves behind (failed_save_residue) *)
  Theorem resave_table_same_calls st st' :
    st' = raise_max_id top st \/ st' = mutate_table (raise_max_id top st) -> table_calls st' = table_calls st.
  Proof.
    unfold table_calls. cbv zeta. intros [-> | ->].
    - rewrite raise_idem. reflexivity.
    - rewrite (raise_noop top (mutate_table _)) by (apply (top_le_mutate XTable []), raise_top_le).
      rewrite mutate_table_idem. reflexivity.
  Qed.
End ResaveTable.

(* ---- stream format ---- *)
(* T12: each save that reaches the cross-reference stream consumes one object number *)
Theorem mutate_stream_max_id ids st : s_max_id (mutate_stream ids st) = s_max_id st + 1.
Proof. reflexivity. Qed.

Fixpoint iter {A} (n : nat) (f : A -> A) (x : A) : A := match n with O => x | S m => f (iter m f x) end.
Theorem stream_residue_after_n ids st n :
  s_max_id (iter n (mutate_stream ids) st) = s_max_id st + N.of_nat n.
Proof.
  induction n as [|n IH]; cbn [iter]; [lia|]. rewrite mutate_stream_max_id, IH. lia.
Qed.

(* the same with the raise each save begins with: from the first save on it is the identity *)
Theorem stream_residue_after_n_raised ids top st n :
  iter n (fun x => mutate_stream ids (raise_max_id top x)) (raise_max_id top st) =
  iter n (mutate_stream ids) (raise_max_id top st).
Proof.
  assert (G : forall n, top_le top (iter n (mutate_stream ids) (raise_max_id top st))).
  { intro k. induction k as [|k IH]; cbn [iter]; [apply raise_top_le | exact (top_le_mutate XStream ids top _ IH)]. }
  induction n as [|n IH]; cbn [iter]; [reflexivity|]. rewrite IH, (raise_noop top _ (G n)). reflexivity.
Qed.

(* everything written before the mutation point is independent of the document state, so a
   re-save starts with the same bytes at the same offsets (all objects); only the
   cross-reference stream object differs (its number is the new max_id) *)
Section ResaveStream.
  Variable pre : list bytes.                              (* header, mark, objects *)
  Variable post_of : sstate -> list bytes.                (* the xref stream object, startxref *)
  Variable ids : list N.
  Definition stream_calls (st : sstate) : list bytes := pre ++ post_of (mutate_stream ids st).

  Theorem resave_stream_same_body st st' :
    firstn (length (concat pre)) (concat (stream_calls st')) = firstn (length (concat pre)) (concat (stream_calls st)).
  Proof.
    unfold stream_calls. rewrite !concat_app, !firstn_app, !Nat.sub_diag, !firstn_all. reflexivity.
  Qed.
End ResaveStream.

(* keys a save regenerates *)
Definition bookkeeping (k : bytes) : Prop :=
  k = K_Type \/ k = K_Size \/ k = K_W \/ k = K_Index \/ k = K_Filter \/ k = K_Length.

Lemma dict_has_set_other d k v k' : k <> k' -> dict_has (dict_set d k v) k' = dict_has d k'.
Proof. intro H. unfold dict_has. rewrite dict_get_set_other by exact H. reflexivity. Qed.

(* T13: the stream path's mutation leaves every non-bookkeeping trailer entry alone (stated for
   trailers without a Filter entry, where swap_remove is the identity; with a Filter entry the
   same holds by IndexMap's unique-key invariant, which this list model does not carry) *)
Theorem mutate_stream_frame ids st k :
  dict_has (s_trailer st) K_Filter = false -> ~ bookkeeping k ->
  dict_get (s_trailer (mutate_stream ids st)) k = dict_get (s_trailer st) k.
Proof.
  intros HF Hk. unfold mutate_stream. cbn [s_trailer].
  assert (Hne : forall k0, bookkeeping k0 -> k0 <> k) by (intros k0 H0 ->; exact (Hk H0)).
  rewrite dict_get_set_other by (apply Hne; unfold bookkeeping; tauto).
  unfold dict_swap_remove.
  rewrite !dict_has_set_other by (vm_compute; discriminate). rewrite HF.
  rewrite !dict_get_set_other by (apply Hne; unfold bookkeeping; tauto). reflexivity.
Qed.

(* ---- non-vacuity ---- *)
Definition ex_state : sstate :=
  {| s_max_id := 4; s_trailer := [(K_Root, ORef 1 0)] |}.
Example ex_mutate_table :
  mutate_table ex_state = {| s_max_id := 4; s_trailer := [(K_Root, ORef 1 0); (K_Size, OInt 5)] |}.
Proof. reflexivity. Qed.
Example ex_mutate_stream :
  mutate_stream [1; 2; 4] ex_state =
  {| s_max_id := 5;
     s_trailer := [(K_Root, ORef 1 0); (K_Type, OName K_XRef); (K_Size, OInt 6); (K_W, OArr [OInt 1; OInt 4; OInt 2]);
                   (K_Index, OArr [OInt 1; OInt 2; OInt 4; OInt 2]); (K_Length, OInt 28)] |}.
Proof. vm_compute. reflexivity. Qed.
Example ex_residue :
  save_with qwrite_all XStream [1; 2; 4] (Some 4) [bs "%PDF-1.5"; bs "objects"] [bs "xrefstream"] ex_state [Accept 9; Fail EStorageFull]
  = (WErr EStorageFull, bs "%PDF-1.5o", ex_state) /\
  save_with write_all XStream [1; 2; 4] (Some 4) [bs "%PDF-1.5"; bs "objects"] [bs "xrefstream"] ex_state [Accept 8; Accept 7; Accept 3; Zero]
  = (WErr EWriteZero, bs "%PDF-1.5objectsxre", mutate_stream [1; 2; 4] ex_state) /\
  (* an object above max_id: the raise survives a save that fails at the first byte *)
  save_with write_all XTable [1; 2; 9] (Some 9) [bs "%PDF-1.5"; bs "objects"] [bs "trailer"] ex_state [Fail EBrokenPipe]
  = (WErr EBrokenPipe, [], {| s_max_id := 9; s_trailer := s_trailer ex_state |}).
Proof. repeat split; vm_compute; reflexivity. Qed.
