(* C07BytesMaxId.v -- C07, byte level, part 5: the max_id of a reloaded incremental file, EXACTLY.
   The loader sets max_id to the largest key of the merged cross-reference table.  Here:
     xmap_max_fold_xins       largest key of (new entries over old table) = max of the two largest keys
     table_step_max           a table-format update: largest key of the new merged table
                              = max (largest key before) (largest number among the new objects)
     stream_step_max          a stream-format update: = max_id of the new document + 1 (the number of the new
                              cross-reference stream object, which the section lists), given that the loaded max_id is
                              not above the new document's (new_from_prev copies it)
     mixed_step_max_id        in terms of what load returns, for any step of any mixed-format history:
                              load (inc_save s) = LOk d' with d_objects d' = step_objs .. and
                              d_max_id d' = step_max fmt (d_max_id pd) nd, pd = what load returned for the previous bytes
     history_step_max_id      the same for the one-format histories (lopdf_history) *)
From LV Require Import Base.Bytes Base.Sx Model.Obj Model.DocQ Model.Writer Model.Parser Model.Save Model.Xref Model.Loader
  Model.Incremental Model.Utf Gen.Lex Gen.SaveFmt Gen.Inc Proofs.IncrementalProofs Proofs.LexProofs Proofs.RealProofs
  Proofs.ObjectRtProofs Proofs.SaveProofs Proofs.FilterProofsDict Spec.SaveSpec Proofs.LoadProofs Proofs.LoadProofsFile
  Proofs.LoadProofsXref Proofs.LoadProofsTable Proofs.LoadProofsAgain Proofs.LoadProofsStream Proofs.LoadProofsFull
  Proofs.StrictLoadProofs Proofs.StrictRevisionProofs Proofs.StrictIncrementalProofs Proofs.C07Bytes Proofs.C07BytesTable
  Proofs.C07BytesStream Proofs.C07BytesHistory Proofs.C07BytesMixed.

Local Open Scope N_scope.

(* ---------- largest key ---------- *)
Lemma fold_xmax_acc : forall (m : Xref.xmap) a,
  fold_left (fun a (ke : N * Xref.xentry) => N.max a (fst ke)) m a = N.max a (xmap_max m).
Proof.
  unfold xmap_max. induction m as [|ke m IH]; intro a; cbn [fold_left]; [lia|].
  rewrite (IH (N.max a (fst ke))), (IH (N.max 0 (fst ke))). lia.
Qed.

Lemma xmap_max_cons ke (m : Xref.xmap) : xmap_max (ke :: m) = N.max (fst ke) (xmap_max m).
Proof. unfold xmap_max at 1. cbn [fold_left]. rewrite fold_xmax_acc. lia. Qed.

Lemma xmap_max_xinsert : forall (m : Xref.xmap) k e, xmap_max (Xref.xinsert m k e) = N.max (xmap_max m) k.
Proof.
  induction m as [|[k0 e0] m IH]; intros k e; cbn [Xref.xinsert].
  - rewrite xmap_max_cons. cbn [fst]. unfold xmap_max. cbn [fold_left]. lia.
  - destruct (k0 =? k) eqn:E.
    + apply N.eqb_eq in E. subst k0. rewrite !xmap_max_cons. cbn [fst]. lia.
    + destruct (k <? k0); rewrite !xmap_max_cons; cbn [fst]; [lia|].
      rewrite (IH k e). lia.
Qed.

Lemma xmap_max_fold_xins : forall (l m : Xref.xmap), xmap_max (fold_left xins l m) = N.max (xmap_max m) (xmap_max l).
Proof.
  induction l as [|ke l IH]; intro m; cbn [fold_left].
  - unfold xmap_max at 3. cbn [fold_left]. lia.
  - rewrite (IH (xins m ke)). unfold xins. rewrite xmap_max_xinsert, xmap_max_cons. lia.
Qed.

Lemma xmap_max_app (a b : Xref.xmap) : xmap_max (a ++ b) = N.max (xmap_max a) (xmap_max b).
Proof. unfold xmap_max at 1. rewrite fold_left_app. fold (xmap_max a). apply fold_xmax_acc. Qed.

(* ---------- largest object number of a revision ---------- *)
Definition nums_max (objs : objmap) : N := fold_left (fun a (io : oid * obj) => N.max a (fst (fst io))) objs 0.

Lemma entries_max : forall objs pos a,
  Forall (fun io : oid * obj => skipped (snd io) = false) objs ->
  fold_left (fun a (ke : N * Xref.xentry) => N.max a (fst ke)) (conv_map (entries_of pos objs)) a =
  fold_left (fun a (io : oid * obj) => N.max a (fst (fst io))) objs a.
Proof.
  induction objs as [|[[id g] o] rest IH]; intros pos a Hok; [reflexivity|].
  inversion Hok as [|? ? Hsk Hok']; subst. cbn [snd] in Hsk.
  cbn [entries_of]. rewrite Hsk. cbn [conv_map map fold_left]. unfold conv_entry at 1. cbn [fst snd].
  apply (IH (pos + Save.blen (write_indirect_object id g o)) (N.max a id) Hok').
Qed.

Lemma rev_xmap_max nd pos : rev_dom nd -> xmap_max (conv_map (rev_xmap nd pos)) = nums_max (d_objects nd).
Proof.
  intro Hr. unfold xmap_max, nums_max, rev_xmap. apply entries_max.
  pose proof (rd_objects nd Hr) as H. eapply Forall_impl; [|exact H]. intros io [_ [_ [_ H4]]]. exact H4.
Qed.

Lemma nums_max_le nd : rev_dom nd -> nums_max (d_objects nd) <= d_max_id nd.
Proof.
  intro Hr. unfold nums_max. apply fold_max_le; [lia|].
  pose proof (rd_objects nd Hr) as H. eapply Forall_impl; [|exact H]. intros io [H1 _]. exact H1.
Qed.

(* ---------- the two formats ---------- *)
Theorem table_step_max nd pos entries :
  rev_dom nd -> xmap_max (fold_left xins (conv_map (rev_xmap nd pos)) entries) = N.max (xmap_max entries) (nums_max (d_objects nd)).
Proof. intro Hr. rewrite xmap_max_fold_xins, (rev_xmap_max nd pos Hr). reflexivity. Qed.

Theorem stream_step_max nd pos entries :
  rev_dom nd -> xmap_max entries <= d_max_id nd ->
  xmap_max (fold_left xins (conv_map (str_map nd pos)) entries) = d_max_id nd + 1.
Proof.
  intros Hr Hmx. rewrite xmap_max_fold_xins. unfold str_map, conv_map. rewrite map_app. fold (conv_map (rev_xmap nd pos)).
  rewrite xmap_max_app, (rev_xmap_max nd pos Hr). cbn [map]. rewrite xmap_max_cons. unfold conv_entry at 1. cbn [fst].
  pose proof (nums_max_le nd Hr). unfold xmap_max at 2. cbn [fold_left]. lia.
Qed.

(* max_id after one update, by format: mx = the max_id load returned for the previous bytes *)
Definition step_max (fmt : xref_type) (mx : N) (nd : doc) : N :=
  match fmt with
  | XTable => N.max mx (nums_max (d_objects nd))
  | XStream => d_max_id nd + 1
  end.

(* one update over a file satisfying the invariant, either format, every field of the loaded document that matters *)
Theorem good_step_max_id F v m xs xt entries t objs fmt s :
  good_file F v m xs xt entries t objs ->
  i_bytes s = F -> xd_type (i_prev s) = fmt ->
  let nd := xd_doc (i_new s) in
  upd_dom xs nd ->
  Save.blen (io_bytes (inc_save s)) < u32_mod ->
  Forall (fun io : oid * obj => In (fst io) (map fst objs) \/ ~ In (fst (fst io)) (obj_numbers objs)) (d_objects nd) ->
  xmap_max entries <= d_max_id nd ->
  exists t',
    load (io_bytes (inc_save s)) =
    LOk {| d_version := v; d_binary_mark := m; d_trailer := t';
           d_objects := step_objs fmt objs nd (Save.blen (F ++ inc_lines nd));
           d_max_id := step_max fmt (xmap_max entries) nd |} (xtype_of fmt).
Proof.
  intros G Hb Hty nd Hu Hlen Hids Hmx. destruct fmt; cbn [step_objs step_max xtype_of].
  - destruct (inc_table_good_nums F v m xs xt entries t objs s G Hb Hty Hu Hlen Hids) as [_ G'].
    pose proof (good_file_loads _ _ _ _ _ _ _ _ G') as L. unfold loaded in L.
    fold nd in L. rewrite (table_step_max nd _ entries (ud_rev _ _ Hu)) in L. eexists. exact L.
  - destruct (inc_stream_good_nums F v m xs xt entries t objs s G Hb Hty Hu Hlen Hids Hmx) as [_ G'].
    pose proof (good_file_loads _ _ _ _ _ _ _ _ G') as L. unfold loaded in L.
    fold nd in L. rewrite (stream_step_max nd _ entries (ud_rev _ _ Hu) Hmx) in L. eexists. exact L.
Qed.

(* the same for a step of a mixed-format history, phrased on what load returned before and returns after *)
Theorem mixed_step_max_id base steps F xs objs pd xt fmt s :
  mixed_history base steps F xs objs ->
  load F = LOk pd xt ->
  i_bytes s = F -> i_prev s = {| xd_doc := pd; xd_start := xs; xd_type := fmt |} ->
  let nd := xd_doc (i_new s) in
  upd_dom xs nd -> d_max_id pd <= d_max_id nd ->
  Save.blen (io_bytes (inc_save s)) < u32_mod ->
  Forall (fun io : oid * obj => In (fst io) (map fst (d_objects pd)) \/ ~ In (fst (fst io)) (obj_numbers (d_objects pd))) (d_objects nd) ->
  exists t',
    load (io_bytes (inc_save s)) =
    LOk {| d_version := d_version pd; d_binary_mark := d_binary_mark pd; d_trailer := t';
           d_objects := step_objs fmt (d_objects pd) nd (Save.blen (F ++ inc_lines nd));
           d_max_id := step_max fmt (d_max_id pd) nd |} (xtype_of fmt).
Proof.
  intros H Hload Hb Hprev nd Hu Hmx Hlen Hids.
  destruct (mixed_history_good base steps F xs objs H) as [v [m [entries [t G]]]].
  rewrite (good_file_loads _ _ _ _ _ _ _ _ G) in Hload.
  assert (Epd : loaded v m entries t objs = pd) by (injection Hload; intros; assumption).
  subst pd. cbn [loaded d_version d_binary_mark d_objects d_max_id] in *.
  assert (Hty : xd_type (i_prev s) = fmt) by (rewrite Hprev; reflexivity).
  exact (good_step_max_id F v m xs _ entries t objs fmt s G Hb Hty Hu Hlen Hids Hmx).
Qed.

(* through the modelled API: create_from + edits; max_id of the new document is then >= the loaded one by construction *)
Theorem mixed_edit_step_max_id base steps F xs objs pd xt fmt edits :
  mixed_history base steps F xs objs ->
  load F = LOk pd xt ->
  let s := fold_left apply_edit edits (create_from F {| xd_doc := pd; xd_start := xs; xd_type := fmt |}) in
  let nd := xd_doc (i_new s) in
  rev_dom nd -> known_deep nd = false ->
  Save.blen (io_bytes (inc_save s)) < u32_mod ->
  Forall (fun io : oid * obj => In (fst io) (map fst (d_objects pd)) \/ ~ In (fst (fst io)) (obj_numbers (d_objects pd))) (d_objects nd) ->
  exists t',
    load (io_bytes (inc_save s)) =
    LOk {| d_version := d_version pd; d_binary_mark := d_binary_mark pd; d_trailer := t';
           d_objects := step_objs fmt (d_objects pd) nd (Save.blen (F ++ inc_lines nd));
           d_max_id := step_max fmt (d_max_id pd) nd |} (xtype_of fmt) /\
    d_max_id pd <= step_max fmt (d_max_id pd) nd /\ step_max fmt (d_max_id pd) nd <= d_max_id nd + 1.
Proof.
  intros H Hload s nd Hr K Hlen Hids.
  destruct (mixed_history_good base steps F xs objs H) as [v [m [entries [t G]]]].
  pose proof Hload as Hload'. rewrite (good_file_loads _ _ _ _ _ _ _ _ G) in Hload'.
  assert (Epd : loaded v m entries t objs = pd) by (injection Hload'; intros; assumption).
  destruct (created_frame F {| xd_doc := pd; xd_start := xs; xd_type := fmt |} edits) as (H1 & H2 & _ & _ & H5).
  fold s in H1, H2, H5. fold nd in H5. cbn [xd_doc] in H5.
  assert (Hu : upd_dom xs nd).
  { apply (created_upd_dom F v m xs _ entries t objs pd fmt edits G); [rewrite <- Epd; reflexivity | exact Hr | exact K]. }
  destruct (mixed_step_max_id base steps F xs objs pd xt fmt s H Hload H1 H2 Hu H5 Hlen Hids) as [t' L].
  exists t'. split; [exact L|]. pose proof (nums_max_le nd Hr). destruct fmt; cbn [step_max]; lia.
Qed.

(* the one-format histories *)
Theorem history_step_max_id F xs fmt objs pd s :
  lopdf_history F xs fmt objs ->
  load F = LOk pd (xtype_of fmt) ->
  i_bytes s = F -> i_prev s = {| xd_doc := pd; xd_start := xs; xd_type := fmt |} ->
  let nd := xd_doc (i_new s) in
  upd_dom xs nd -> d_max_id pd <= d_max_id nd ->
  Save.blen (io_bytes (inc_save s)) < u32_mod ->
  Forall (fun io : oid * obj => In (fst io) (map fst (d_objects pd)) \/ ~ In (fst (fst io)) (obj_numbers (d_objects pd))) (d_objects nd) ->
  exists t',
    load (io_bytes (inc_save s)) =
    LOk {| d_version := d_version pd; d_binary_mark := d_binary_mark pd; d_trailer := t';
           d_objects := step_objs fmt (d_objects pd) nd (Save.blen (F ++ inc_lines nd));
           d_max_id := step_max fmt (d_max_id pd) nd |} (xtype_of fmt).
Proof.
  intros H Hload Hb Hprev nd Hu Hmx Hlen Hids. destruct (lopdf_history_mixed F xs fmt objs H) as [n Hm].
  exact (mixed_step_max_id _ _ F xs objs pd (xtype_of fmt) fmt s Hm Hload Hb Hprev Hu Hmx Hlen Hids).
Qed.

Print Assumptions good_step_max_id.
Print Assumptions mixed_step_max_id.
Print Assumptions mixed_edit_step_max_id.
Print Assumptions history_step_max_id.
