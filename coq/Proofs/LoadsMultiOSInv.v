(* LoadsMultiOSInv.v -- C02, files of ref_write_multi WITH OBJECT STREAMS in any number of parts, step 1 of notes/C02.md
   Round 6: the invariant of Proofs/LoadsMultiMixed.v (Inv, inv_step, parts_inv) restated over the writer's step WITH the
   part's containers (type-2 entries for the members, containers as top-level objects).  The text is LoadsMultiMixed.v's
   Section Multi with these changes:
     - [tops] is a parameter (the plain objects and the containers), no hypothesis s_ostms st = [];
     - p_ehere / p_size as in LoadsMultiObjStm.g_ehere / g_size (find_comp over the part's containers, the members count
       for Size);
     - i_nums has the third case XCompressed, i_kn the case SComp, new clause i_mem: every member of a container of a
       finished part is named by the type-2 entry of that container;
     - a table part holds no container (write_parts refuses it) and must not list a type-2 entry again (part_ok). *)
From LV Require Import Base.Bytes Base.Sx Model.Obj Model.Writer Model.Parser Model.Xref Model.ObjStm Model.Loader Model.Utf Gen.Lex
  Spec.XrefSpec Spec.RefWriter Proofs.LexProofs Proofs.LoadProofs Proofs.LoadProofsFile Proofs.XrefProofs
  Proofs.XrefTableProofs Proofs.ObjectRtProofs Proofs.SpellingProofs Proofs.SpellingObjProofs Proofs.SpellingFileProofs
  Proofs.LoadsFrameProofs Proofs.LoadsTableProofs Proofs.FilterProofsDict.
From LV Require Import Model.LoaderExt Proofs.LoaderExtProofs Proofs.LoadsLoopProofs.
From LV Require Proofs.C07Bytes Proofs.LoadProofsStream Model.Png.
From LV Require Import Proofs.LoadsFilterProofs.
From LV Require Proofs.LoadsRefLenProofs Proofs.LengthRefProofs.
From LV Require Import Proofs.LoadsStreamProofs Proofs.LoadsMultiXSec.
From LV Require Import Proofs.LoadsMultiMixed.
From LV Require Proofs.LoadsMultiObjStm.
From Coq Require Import Lia.
Local Open Scope N_scope.

Lemma find_comp_some : forall l n c k, find_comp l n = Some (c, k) ->
  exists s, In s l /\ os_id s = c /\ In n (os_members s) /\ k < N.of_nat (length (os_members s)).
Proof.
  induction l as [|s l IH]; intros n c k H; [discriminate H|]. cbn [find_comp] in H.
  destruct (index_of n (os_members s) 0) as [k0|] eqn:E.
  - inversion H; subst. exists s. split; [left; reflexivity|]. split; [reflexivity|].
    assert (G : forall m x j r, index_of x m j = Some r -> In x m /\ r < j + N.of_nat (length m)).
    { induction m as [|y m IHm]; intros x j r K; [discriminate K|]. cbn [index_of] in K. destruct (x =? y) eqn:Ey.
      - inversion K; subst. apply N.eqb_eq in Ey. subst. split; [left; reflexivity|]. cbn [length]. rewrite Nat2N.inj_succ. lia.
      - destruct (IHm x (j + 1) r K) as [K1 K2]. split; [right; exact K1|]. cbn [length]. rewrite Nat2N.inj_succ. lia. }
    destruct (G _ _ _ _ E) as [G1 G2]. split; [exact G1|lia].
  - destruct (IH n c k H) as [s' [H1 H2]]. exists s'. split; [right; exact H1|exact H2].
Qed.

Lemma find_comp_none : forall l n, find_comp l n = None -> forall s, In s l -> ~ In n (os_members s).
Proof.
  induction l as [|s l IH]; intros n H s' Hs'; [contradiction|]. cbn [find_comp] in H.
  destruct (index_of n (os_members s) 0) as [k0|] eqn:E; [discriminate H|]. destruct Hs' as [<-|Hs'].
  - assert (G : forall m x j, index_of x m j = None -> ~ In x m).
    { induction m as [|y m IHm]; intros x j K; [intros []|]. cbn [index_of] in K. destruct (x =? y) eqn:Ey; [discriminate K|].
      apply N.eqb_neq in Ey. intros [K1|K1]; [symmetry in K1; contradiction|exact (IHm x _ K K1)]. }
    exact (G _ _ _ E).
  - apply IH; assumption.
Qed.

Section MultiOS.
  Variable st : fstyle.
  Variable a : adoc.
  Variable tops : list top.      (* what write_parts works on: the plain objects and the object-stream containers *)
  Variable dec : dict -> bytes -> option (dict * bytes).
  Variable can : dict -> bool.

  Notation comp := (compressed_nums st).
  Notation tnums := (map top_num tops).
  Notation nums := (map top_num tops ++ compressed_nums st).

  Definition p_xid (p : mpart) : list N := match mp_xref p with XStream x => [xs_id x] | XTable _ => [] end.
  Definition p_olds (p : mpart) : list top :=
    flat_map (fun no => match find_obj (a_objs a) (fst no) with
                        | Some (g, _) => [((fst no, g), snd no, find_istyle (s_objs st) (fst no))]
                        | None => []
                        end) (mp_old p).
  Definition p_mine (p : mpart) : list top := filter (fun t => mem_N (fst (fst (fst t))) (mp_nums p)) tops ++ p_olds p.
  Definition p_otops (p : mpart) : list top := ordered (mp_order p) (p_mine p).
  Definition p_hnums (p : mpart) : list N := map (fun t : top => fst (fst (fst t))) (p_mine p).
  Definition p_xpos (p : mpart) (pos : N) : N := pos + N.of_nat (length (body_of (p_otops p))).
  Definition p_offs (p : mpart) (pos : N) : list (N * N * N) :=
    offs_of pos (p_otops p) ++ map (fun i => (i, 0, p_xpos p pos)) (p_xid p).
  Definition p_conts (p : mpart) : list ostm := part_containers st p.
  Definition p_mem (p : mpart) : list N := flat_map os_members (p_conts p).
  Definition p_ehere (p : mpart) (pos n : N) : sentry :=
    match find_off (p_offs p pos) n with
    | Some (g, q) => SInUse q g
    | None => match find_comp (p_conts p) n with Some (c, k) => SComp c k | None => SFree 0 0 end
    end.
  Definition p_here (p : mpart) (pos n : N) : bool := is_used (p_ehere p pos n).
  Definition p_entry (p : mpart) (pos : N) (known : list (N * sentry)) (n : N) : sentry :=
    if p_here p pos n then p_ehere p pos n
    else if mem_N n (mp_relist p) then match lookup_entry known n with Some e => e | None => SFree 0 0 end
    else if n =? 0 then SFree 0 65535 else SFree 0 0.
  Definition p_size (p : mpart) (maxnum : N) : N := 1 + N.max maxnum (max_num (p_hnums p ++ p_xid p ++ p_mem p)).
  Definition p_s0 (p : mpart) : list (N * N) := match mp_xref p with XTable t => t_secs t | XStream x => xs_secs x end.
  Definition p_secs (p : mpart) (pos : N) (prev : option N) (known : list (N * sentry)) (maxnum : N) : list (N * N) :=
    match prev with
    | None => match mp_xref p with
              | XTable t => use_secs (t_secs t) (p_size p maxnum) (fun n => (n =? 0) || p_here p pos n)
              | XStream x => use_secs (xs_secs x) (p_size p maxnum) (p_here p pos)
              end
    | Some _ => if secs_ok_later (p_s0 p) (p_size p maxnum) (p_here p pos) (p_entry p pos known) then p_s0 p
                else runs_of (p_here p pos) 0 (N.to_nat (p_size p maxnum))
    end.
  Definition p_prev (prev : option N) : list (bytes * obj) :=
    match prev with Some q => [(K_PrevW, OInt (Z.of_N q))] | None => [] end.
  Definition p_text (p : mpart) (last : bool) (pos : N) (prev : option N) (known : list (N * sentry)) (maxnum : N) : bytes :=
    body_of (p_otops p) ++
    section_text (with_part st p last) a (p_secs p pos prev known maxnum) (p_entry p pos known) (p_size p maxnum) (p_xpos p pos) (p_prev prev).
  Definition p_known (p : mpart) (pos : N) (known : list (N * sentry)) (maxnum : N) : list (N * sentry) :=
    map (fun n => (n, p_entry p pos known n)) (filter (p_here p pos) (range_N 0 (N.to_nat (p_size p maxnum)))) ++ known.
  Definition p_last (rest : list mpart) : bool := match rest with [] => true | _ => false end.

  Lemma write_parts_step p rest pos prev known maxnum :
    write_parts st a tops (p :: rest) pos prev known maxnum =
    if negb (nodup_N (p_hnums p) && forallb (fun no => mem_N (fst no) (flat_map (part_defines st) rest)) (mp_old p) &&
             Nat.eqb (length (p_olds p)) (length (mp_old p)))
    then None
    else match mp_xref p, p_conts p with
         | XTable _, _ :: _ => None
         | _, _ =>
           if negb (existsb (p_here p pos) (range_N 0 (N.to_nat (p_size p maxnum)))) then None
           else match write_parts st a tops rest (pos + N.of_nat (length (p_text p (p_last rest) pos prev known maxnum)))
                                  (Some (p_xpos p pos)) (p_known p pos known maxnum) (p_size p maxnum - 1) with
                | Some r => Some (p_text p (p_last rest) pos prev known maxnum ++ r)
                | None => None
                end
         end.
  Proof.
    cbn [write_parts]. rewrite emit_objs_eq.
    unfold p_known, p_text, p_secs, p_s0, p_entry, p_here, p_ehere, p_offs, p_size, p_xid, p_mem, p_conts, p_prev, p_last.
    destruct (mp_xref p); destruct (part_containers st p); destruct prev; reflexivity.
  Qed.

  (* ---------- the domain ---------- *)
  Variable xids : list N.        (* the numbers of the cross-reference streams of all parts *)
  Hypothesis Hndx : NoDup (nums ++ xids).
  Hypothesis H0x : ~ In 0 xids.
  (* numbers and generations of the top-level objects *)
  Hypothesis Htb : forall tp, In tp tops -> 1 <= top_num tp /\ snd (fst (fst tp)) <= u16_max.
  (* every object of the document is a plain top-level object or a member *)
  Hypothesis Hab : forall n g o, find_obj (a_objs a) n = Some (g, o) -> 1 <= n /\ g <= u16_max /\ In n nums.
  (* the containers are top-level objects; at most 65536 members each (lopdf's u16 index) *)
  Hypothesis Hcb : forall s, In s (s_ostms st) -> In (os_id s) tnums /\ N.of_nat (length (os_members s)) <= 65536.
  Definition trailer_dom (t : tstyle) : Prop :=
    forall sz prev, sz <= u32_max -> (prev = None \/ exists q, q <= u32_max /\ prev = Some q) ->
      spell_wf (ODict (a_trailer a ++ [(RefWriter.K_Size, OInt (Z.of_N sz))] ++ p_prev prev)) (t_trailer t) /\
      (nest (ODict (a_trailer a ++ [(RefWriter.K_Size, OInt (Z.of_N sz))] ++ p_prev prev)) <= MAX_DEPTH)%nat.
  Hypothesis Htrail : dict_get (a_trailer a) RefWriter.K_Size = None /\ dict_get (a_trailer a) K_Prev = None /\
                      dict_get (a_trailer a) K_Encrypt = None /\ dict_get (a_trailer a) K_XRefStm = None /\
                      dict_get (a_trailer a) Xref.K_Index = None /\ dict_get (a_trailer a) K_Filter = None.
  Hypothesis Hnums32 : 1 + max_num (nums ++ xids) <= u32_max.

  Lemma Hndn : NoDup nums.
  Proof. exact (NoDup_app_l _ _ Hndx). Qed.
  Lemma Hnd : NoDup tnums.
  Proof. exact (NoDup_app_l _ _ Hndn). Qed.
  Lemma Hcnd : NoDup comp.
  Proof. exact (LoadsMultiObjStm.NoDup_app_r' _ _ Hndn). Qed.
  Lemma top_not_comp n : In n tnums -> In n comp -> False.
  Proof. intros H1 H2. exact (LoadsMultiObjStm.NoDup_app_disj _ _ n Hndn H1 H2). Qed.

  (* the structural object of a part: the cross-reference stream, when the part has one *)
  Definition p_xtp (p : mpart) (pos : N) (prev : option N) (known : list (N * sentry)) (maxnum : N) : list top :=
    match mp_xref p with
    | XStream x => [xq_top a x (p_entry p pos known) (p_secs p pos prev known maxnum) (p_size p maxnum) (p_prev prev)]
    | XTable _ => []
    end.
  (* what is asked of one part, at the values its layout has *)
  Definition part_ok (p : mpart) (pos : N) (prev : option N) (known : list (N * sentry)) (maxnum : N) : Prop :=
    match mp_xref p with
    | XTable t => trailer_dom t /\
                  (* a table cannot express a type-2 entry: it lists no member of an object stream again *)
                  (forall n c k, mem_N n (mp_relist p) = true -> lookup_entry known n <> Some (SComp c k))
    | XStream x =>
      (xs_filter x = SfNone \/
       (dec = decompress_ref /\ can = can_ref /\
        N.of_nat (xq_w0 x (p_entry p pos known) (p_secs p pos prev known maxnum) + xq_w1 x (p_entry p pos known) (p_secs p pos prev known maxnum) +
                  xq_w2 x (p_entry p pos known) (p_secs p pos prev known maxnum)) <= Png.USIZE_MAX /\
        dict_get (a_trailer a) K_DecodeParms = None)) /\ In (xs_id x) xids /\
      spell_wf (ODict (xq_d a x (p_entry p pos known) (p_secs p pos prev known maxnum) (p_size p maxnum) (p_prev prev)))
               (i_obj (xs_istyle x)) /\
      (nest (ODict (xq_d a x (p_entry p pos known) (p_secs p pos prev known maxnum) (p_size p maxnum) (p_prev prev))) <= MAX_DEPTH)%nat
    end.
  (* a superseded definition is one of a top-level object
     (LoadsMultiObjStm.part_dom: without it the file need not define the document -- C02_loads_multi_partial_needs_domain) *)
  Definition part_dom (p : mpart) : Prop := forall no, In no (mp_old p) -> In (fst no) tnums.
  (* the startxref block keeps "startxref" within the 25 bytes before %%EOF that Reader::get_xref_start searches *)
  Definition sx_win (stp : fstyle) (xs : N) : Prop :=
    (9 + length (sx_mid (s_sx_eol1 stp) (s_sx_sp1 stp) xs (s_sx_sp2 stp) (s_sx_eol2 stp)) <= 25)%nat.
  Fixpoint parts_ok (parts : list mpart) (pos : N) (prev : option N) (known : list (N * sentry)) (maxnum : N) : Prop :=
    match parts with
    | [] => True
    | p :: rest =>
      part_ok p pos prev known maxnum /\ part_dom p /\
      (rest = [] -> sx_win (with_part st p true) (p_xpos p pos)) /\
      parts_ok rest (pos + N.of_nat (length (p_text p (p_last rest) pos prev known maxnum))) (Some (p_xpos p pos))
               (p_known p pos known maxnum) (p_size p maxnum - 1)
    end.

  Lemma tops_id cur : In cur tops -> 1 <= top_num cur /\ snd (fst (fst cur)) <= u16_max /\ In (top_num cur) tnums /\ True.
  Proof.
    intro H. destruct (Htb cur H) as [K1 K2]. split; [exact K1|]. split; [exact K2|]. split; [apply in_map; exact H|exact I].
  Qed.

  Lemma tops_unique tp tp' : In tp tops -> In tp' tops -> top_num tp = top_num tp' -> tp = tp'.
  Proof. intros H1 H2 E. apply (unique_by_key top_num tops); [exact Hnd|exact H1|exact H2|exact E]. Qed.

  Lemma top_of_num n : In n tnums -> exists tp, In tp tops /\ top_num tp = n.
  Proof. intro H. apply in_map_iff in H as [tp [E Hin]]. exists tp. split; assumption. Qed.

  Lemma nums_not_xid n : In n nums -> In n xids -> False.
  Proof. intros H1 H2. exact (LoadsMultiObjStm.NoDup_app_disj _ _ n Hndx H1 H2). Qed.

  Lemma mine_cases p tp : In tp (p_mine p) ->
    (In tp tops /\ In (top_num tp) (mp_nums p)) \/
    (exists o g o0, In (top_num tp, o) (mp_old p) /\ find_obj (a_objs a) (top_num tp) = Some (g, o0) /\ snd (fst (fst tp)) = g).
  Proof.
    unfold p_mine. intro H. apply in_app_or in H as [H|H].
    - apply filter_In in H as [H1 H2]. left. split; [exact H1|apply mem_N_In; exact H2].
    - right. unfold p_olds in H. apply in_flat_map in H as [[n o] [H1 H2]]. cbn [fst snd] in H2.
      destruct (find_obj (a_objs a) n) as [[g o']|] eqn:Ef; [|contradiction]. destruct H2 as [<-|[]].
      exists o, g, o'. unfold top_num. cbn [fst snd]. split; [exact H1|]. split; [exact Ef|reflexivity].
  Qed.

  Lemma mine_bounds p tp : In tp (p_mine p) -> 1 <= top_num tp /\ snd (fst (fst tp)) <= u16_max /\ In (top_num tp) nums.
  Proof.
    intro H. destruct (mine_cases p tp H) as [[H1 _]|[o [g [o0 [_ [H2 H3]]]]]].
    - destruct (tops_id tp H1) as [K1 [K2 [K3 _]]]. split; [exact K1|]. split; [exact K2|]. apply in_or_app. left. exact K3.
    - destruct (Hab _ _ _ H2) as [K1 [K2 K3]]. rewrite H3. auto.
  Qed.

  Lemma conts_in p s : In s (p_conts p) -> In s (s_ostms st) /\ In (os_id s) (mp_nums p).
  Proof. unfold p_conts, part_containers. intro H. apply filter_In in H as [H1 H2]. split; [exact H1|apply mem_N_In; exact H2]. Qed.

  Lemma mem_comp p n : In n (p_mem p) -> In n comp.
  Proof.
    unfold p_mem. intro H. apply in_flat_map in H as [s [Hs Hn]]. unfold compressed_nums. apply in_flat_map. exists s.
    split; [apply (conts_in p s Hs)|exact Hn].
  Qed.

  Lemma member_unique s s' n : In s (s_ostms st) -> In s' (s_ostms st) -> In n (os_members s) -> In n (os_members s') -> s = s'.
  Proof. intros. apply (LoadsMultiObjStm.flat_member_unique os_members (s_ostms st) s s' n Hcnd); assumption. Qed.

  Lemma max_num_le : forall l B a0, a0 <= B -> (forall x, In x l -> x <= B) -> fold_left N.max l a0 <= B.
  Proof. induction l as [|y l IH]; intros B a0 Ha H; [exact Ha|]. cbn [fold_left]. apply IH; [|intros; apply H; right; assumption]. pose proof (H y (or_introl eq_refl)). lia. Qed.

  Lemma p_size_eq p maxnum : p_conts p = [] -> p_size p maxnum = 1 + N.max maxnum (max_num (p_hnums p ++ p_xid p)).
  Proof. intro H. unfold p_size, p_mem. rewrite H. cbn [flat_map]. rewrite app_nil_r. reflexivity. Qed.

  Lemma p_size_ge p maxnum : maxnum < p_size p maxnum.
  Proof. unfold p_size. lia. Qed.

  (* ---------- runs_of: the maximal runs cover what the part defines ---------- *)
  Lemma secs_increasing_weaken : forall secs lo lo', lo' <= lo -> secs_increasing lo secs = true -> secs_increasing lo' secs = true.
  Proof.
    destruct secs as [|[f c] secs]; intros lo lo' H K; [reflexivity|]. cbn [secs_increasing] in *.
    apply andb_true_iff in K as [K K3]. apply andb_true_iff in K as [K1 K2]. apply N.leb_le in K1.
    rewrite K2, K3. replace (lo' <=? f) with true by (symmetry; apply N.leb_le; lia). reflexivity.
  Qed.

  Lemma runs_of_good (here : N -> bool) : forall count n,
    secs_increasing n (runs_of here n count) = true /\
    (forall f c, In (f, c) (runs_of here n count) -> 1 <= c /\ f + c <= n + N.of_nat count) /\
    (forall k, n <= k < n + N.of_nat count -> here k = true -> exists f c, In (f, c) (runs_of here n count) /\ f <= k < f + c).
  Proof.
    induction count as [|count IH]; intro n.
    - cbn [runs_of]. split; [reflexivity|]. split; [intros f c []|intros k Hk; lia].
    - destruct (IH (n + 1)) as [I1 [I2 I3]]. cbn [runs_of]. destruct (here n) eqn:Eh.
      + destruct (runs_of here (n + 1) count) as [|[f k] tl] eqn:Er.
        * split; [cbn [secs_increasing]; replace (n <=? n) with true by (symmetry; apply N.leb_le; lia); reflexivity|].
          split; [intros f c [E|[]]; inversion E; subst; lia|].
          intros k Hk Hh. destruct (N.eq_dec k n) as [->|Hne]; [exists n, 1; split; [left; reflexivity|lia]|].
          destruct (I3 k) as [f [c [[] _]]]; [lia|exact Hh].
        * cbn [secs_increasing] in I1. apply andb_true_iff in I1 as [I1 I1c]. apply andb_true_iff in I1 as [I1a I1b].
          apply N.leb_le in I1a, I1b. destruct (I2 f k (or_introl eq_refl)) as [B1 B2].
          destruct (f =? n + 1) eqn:Ef.
          -- apply N.eqb_eq in Ef. subst f. split.
             { cbn [secs_increasing]. replace (n <=? n) with true by (symmetry; apply N.leb_le; lia).
               replace (1 <=? k + 1) with true by (symmetry; apply N.leb_le; lia).
               replace (n + (k + 1)) with (n + 1 + k) by lia. exact I1c. }
             split.
             { intros f c [E|Hin]; [inversion E; subst; lia|]. destruct (I2 f c (or_intror Hin)). lia. }
             intros k0 Hk Hh. destruct (N.eq_dec k0 n) as [->|Hne]; [exists n, (k + 1); split; [left; reflexivity|lia]|].
             destruct (I3 k0) as [f [c [[E|Hin] Hr]]]; [lia|exact Hh| |].
             { assert (c = k) by congruence. assert (f = n + 1) by congruence. subst c f. exists n, (k + 1). split; [left; reflexivity|lia]. }
             { exists f, c. split; [right; exact Hin|exact Hr]. }
          -- apply N.eqb_neq in Ef. split.
             { cbn [secs_increasing]. replace (n <=? n) with true by (symmetry; apply N.leb_le; lia).
               replace (n + 1 <=? f) with true by (symmetry; apply N.leb_le; lia).
               replace (1 <=? k) with true by (symmetry; apply N.leb_le; lia). cbn [andb N.leb]. exact I1c. }
             split.
             { intros f0 c [E|Hin]; [inversion E; subst; lia|]. destruct (I2 f0 c Hin). lia. }
             intros k0 Hk Hh. destruct (N.eq_dec k0 n) as [->|Hne]; [exists n, 1; split; [left; reflexivity|lia]|].
             destruct (I3 k0) as [f0 [c [Hin Hr]]]; [lia|exact Hh|]. exists f0, c. split; [right; exact Hin|exact Hr].
      + split; [apply (secs_increasing_weaken _ (n + 1)); [lia|exact I1]|]. split.
        * intros f c Hin. destruct (I2 f c Hin). lia.
        * intros k Hk Hh. destruct (N.eq_dec k n) as [->|Hne]; [rewrite Eh in Hh; discriminate Hh|]. apply I3; [lia|exact Hh].
  Qed.

  Lemma dget_app (d e : dict) k : dict_get (d ++ e) k = match dict_get d k with Some v => Some v | None => dict_get e k end.
  Proof. induction d as [|[k0 v0] d IH]; [reflexivity|]. cbn [app dict_get]. destruct (bytes_eqb k0 k); [reflexivity|exact IH]. Qed.

  Lemma keys_denote : forall d sts, map fst (denote_dict d sts) = map fst d.
  Proof. induction d as [|[k v] d IH]; intro sts; [reflexivity|]. cbn [denote_dict map fst]. f_equal. apply IH. Qed.

  Lemma lookup_entry_map (f : N -> sentry) known : forall l n,
    lookup_entry (map (fun k => (k, f k)) l ++ known) n = if mem_N n l then Some (f n) else lookup_entry known n.
  Proof.
    induction l as [|k l IH]; intro n; [reflexivity|]. cbn [map app lookup_entry mem_N existsb]. rewrite IH. unfold mem_N.
    rewrite (N.eqb_sym n k). destruct (k =? n) eqn:E; [apply N.eqb_eq in E; subst; reflexivity|reflexivity].
  Qed.



  (* ====================================================================================================
     Part 2: the invariant
     ==================================================================================================== *)
  Notation trailer_src := (LoadsMultiMixed.trailer_src a).

  (* [xt]: the cross-reference streams of the parts written so far, as top-level objects *)
  Record Inv (rem : list mpart) (P : bytes) (chain : list csec) (known : list (N * sentry)) (maxnum : N) (xt : list top) : Prop := {
    i_nums : forall n e, fe chain n = Some e -> In n (nums ++ xids) /\ n <= maxnum /\
             ((exists off g, e = XNormal off g) \/ (exists c k, e = XCompressed c k /\ In n comp));
    i_cur : forall n off g, fe chain n = Some (XNormal off g) -> (In n tnums -> ~ In n (flat_map mp_nums rem)) ->
            exists tp pre post, In tp (tops ++ xt) /\ fst (fst tp) = (n, g) /\ P = pre ++ top_text tp ++ post /\ off = blen pre;
    i_all : forall tp, In tp tops -> ~ In (top_num tp) (flat_map mp_nums rem) -> fe chain (top_num tp) <> None;
    i_allx : forall n, In n xids -> ~ In n (part_xids rem) -> fe chain n <> None;
    i_known : forall n, match lookup_entry known n with Some e => entry_meaning e | None => None end = fe chain n;
    i_kn : forall n e, lookup_entry known n = Some e ->
           (exists off g, e = SInUse off g /\ off <= blen P /\ g <= u16_max) \/ (exists c k, e = SComp c k /\ c <= u32_max /\ k < 65536);
    i_chain : forall ext, chain_ok dec can (P ++ ext) (blen P) chain;
    i_max : maxnum <= max_num (nums ++ xids);
    i_xt : forall tp, In tp xt -> top_ok tp /\ In (top_num tp) xids;
    i_pos : 0 < blen P;
    (* every member of a container of a finished part is named by the type-2 entry of that container *)
    i_mem : forall s n, In s (s_ostms st) -> In n (os_members s) -> ~ In (os_id s) (flat_map mp_nums rem) ->
            exists k, fe chain n = Some (XCompressed (os_id s) k)
  }.

  (* BEGIN-PARTS (two instances of one text: table-format part, stream-format part) *)

  Section PartT.
    Variable p : mpart.
    Variable t : tstyle.
    Variable P : bytes.
    Variable chain : list csec.
    Variable known : list (N * sentry).
    Variable maxnum : N.
    Variable rest : list mpart.
    Variable xt : list top.
    Hypothesis Hfmt : mp_xref p = XTable t.
    Hypothesis Hnc : p_conts p = [].
    Hypothesis Hhn : NoDup (p_hnums p).
    Hypothesis Hinv : Inv (p :: rest) P chain known maxnum xt.
    Hypothesis Hex : exists n, p_here p (blen P) n = true.
    Hypothesis Hold : forall no, In no (mp_old p) -> In (fst no) (flat_map mp_nums rest) /\ In (fst no) tnums.
    Hypothesis Hok : part_ok p (blen P) (prev_N chain) known maxnum.

    Notation prev := (prev_N chain).
    Notation last := (p_last rest).
    Notation pos := (blen P).
    Notation sz := (p_size p maxnum).
    Notation secs := (p_secs p pos prev known maxnum).
    Notation en := (p_entry p pos known).
    Notation xpos := (p_xpos p pos).
    Notation T := (p_text p last pos prev known maxnum).
    Notation xtp := (p_xtp p pos prev known maxnum).
    Hypothesis HU : blen (P ++ T) <= u32_max.

    Lemma HknT : forall n e, lookup_entry known n = Some e ->
      (exists off g, e = SInUse off g /\ off <= blen P /\ g <= u16_max) \/ (exists c k, e = SComp c k /\ c <= u32_max /\ k < 65536).
    Proof. exact (i_kn _ _ _ _ _ _ Hinv). Qed.
    Lemma HmaxnT : maxnum <= max_num (nums ++ xids).
    Proof. exact (i_max _ _ _ _ _ _ Hinv). Qed.
    Lemma HprevT : prev = None \/ exists q, q <= u32_max /\ prev = Some q.
    Proof.
      pose proof (i_chain _ _ _ _ _ _ Hinv []) as K.
      assert (G : forall c, chain_ok dec can (P ++ []) (blen P) c -> prev_N c = None \/ exists q, q < blen P /\ prev_N c = Some q).
      { intros [|[off [x0 t0]] r] Hc; [left; reflexivity|right]. exists off. split; [apply Hc|reflexivity]. }
      destruct (G chain K) as [G1|[q [G1 G2]]]; [left; exact G1|right; exists q; split; [|exact G2]].
      assert (blen P <= blen (P ++ T)) by (unfold blen; rewrite app_length; lia). lia.
    Qed.

    Lemma xid_eqT : p_xid p = [].
    Proof. unfold p_xid. rewrite Hfmt. reflexivity. Qed.
    Lemma xtp_eqT : xtp = [].
    Proof. unfold p_xtp. rewrite Hfmt. reflexivity. Qed.
    Lemma xid_inT n : In n (p_xid p) -> In n xids /\ 1 <= n.
    Proof. rewrite xid_eqT. intros []. Qed.
    Lemma xtp_numsT : map top_num xtp = p_xid p.
    Proof. rewrite xtp_eqT, xid_eqT. reflexivity. Qed.
    Lemma xtp_genT tp : In tp xtp -> snd (fst (fst tp)) = 0.
    Proof. rewrite xtp_eqT. cbn [In]. intro H. repeat (destruct H as [<-|H]; [reflexivity|]). destruct H. Qed.
    Lemma HoffsT : offs_of pos (p_otops p ++ xtp) = p_offs p pos.
    Proof. rewrite offs_of_app. unfold p_offs. f_equal. rewrite xtp_eqT, xid_eqT. reflexivity. Qed.
    Lemma Hhn'T : NoDup (map top_num (p_mine p ++ xtp)).
    Proof.
      rewrite map_app, xtp_numsT. apply NoDup_app_disj; [exact Hhn| |].
      - rewrite xid_eqT; repeat constructor; intros [].
      - intros n H1 H2. unfold p_hnums in H1. change (fun t0 : top => fst (fst (fst t0))) with top_num in H1.
        apply in_map_iff in H1 as [tp [<- Hin]]. apply (nums_not_xid (top_num tp)); [apply (mine_bounds p tp Hin)|apply (xid_inT _ H2)].
    Qed.

    Lemma mem_not_mineT n : In n comp -> ~ In n (map top_num (p_mine p ++ xtp)).
    Proof.
      intros Hc H. rewrite map_app, xtp_numsT in H. apply in_app_or in H as [H|H].
      - apply in_map_iff in H as [tp [E Hin]]. destruct (mine_cases p tp Hin) as [[Ht _]|[o [g0 [o0 [Ho _]]]]].
        + apply (top_not_comp n); [rewrite <- E; apply in_map; exact Ht|exact Hc].
        + rewrite E in Ho. apply (top_not_comp n); [apply (proj2 (Hold _ Ho))|exact Hc].
      - apply (nums_not_xid n); [apply in_or_app; right; exact Hc|apply (xid_inT _ H)].
    Qed.
    Lemma sz_boundT : N.max maxnum (max_num (p_hnums p ++ p_xid p ++ p_mem p)) <= max_num (nums ++ xids).
    Proof.
      pose proof HmaxnT. assert (max_num (p_hnums p ++ p_xid p ++ p_mem p) <= max_num (nums ++ xids)); [|lia].
      unfold max_num at 1. apply max_num_le; [lia|]. intros y Hy. apply max_num_ge.
      apply in_app_or in Hy as [Hy|Hy]; [|apply in_app_or in Hy as [Hy|Hy]]; apply in_or_app.
      - left. unfold p_hnums in Hy. apply in_map_iff in Hy as [tp [<- Hin]]. apply (mine_bounds p tp Hin).
      - right. apply (xid_inT _ Hy).
      - left. apply in_or_app. right. apply (mem_comp p y Hy).
    Qed.
    Lemma sz_leT : sz <= u32_max.
    Proof. unfold p_size. pose proof sz_boundT. lia. Qed.

    Lemma otop_mineT tp : In tp (p_otops p ++ xtp) <-> In tp (p_mine p ++ xtp).
    Proof. rewrite !in_app_iff. unfold p_otops. rewrite ordered_In. tauto. Qed.

    Lemma otop_uniqT tp tp' : In tp (p_otops p ++ xtp) -> In tp' (p_otops p ++ xtp) -> top_num tp = top_num tp' -> tp = tp'.
    Proof.
      intros H1 H2 E. apply (unique_by_key top_num (p_mine p ++ xtp)); [exact Hhn'T|apply otop_mineT; exact H1|apply otop_mineT; exact H2|exact E].
    Qed.

    Lemma ehere_inuseT n off g : p_ehere p pos n = SInUse off g ->
      exists pre tp post, p_otops p ++ xtp = pre ++ tp :: post /\ fst (fst tp) = (n, g) /\ off = pos + N.of_nat (length (body_of pre)).
    Proof.
      unfold p_ehere. rewrite <- HoffsT. destruct (find_off (offs_of pos (p_otops p ++ xtp)) n) as [[g0 p0]|] eqn:Ef; [|destruct (find_comp (p_conts p) n) as [[c0 k0]|]; discriminate].
      intro H. inversion H; subst. apply find_off_In in Ef.
      destruct (offs_of_In _ _ _ _ _ Ef) as [pre [o [y [post [E Ep]]]]]. exists pre, ((n, g), o, y), post. auto.
    Qed.

    Lemma ehere_of_topT tp : In tp (p_otops p ++ xtp) ->
      exists pre post, p_otops p ++ xtp = pre ++ tp :: post /\
                       p_ehere p pos (top_num tp) = SInUse (pos + N.of_nat (length (body_of pre))) (snd (fst (fst tp))).
    Proof.
      intro H. destruct (find_off_exists (p_otops p ++ xtp) pos tp H) as [g [q Ef]].
      assert (En : p_ehere p pos (top_num tp) = SInUse q g) by (unfold p_ehere; rewrite <- HoffsT, Ef; reflexivity).
      destruct (ehere_inuseT _ _ _ En) as [pre [tp' [post [E [Ek Ep]]]]].
      assert (tp' = tp).
      { apply otop_uniqT; [rewrite E; apply in_or_app; right; left; reflexivity|exact H|]. unfold top_num. rewrite Ek. reflexivity. }
      subst tp'. exists pre, post. split; [exact E|]. rewrite En, Ep, Ek. reflexivity.
    Qed.

    Lemma HhereT n : p_here p pos n = true ->
      (exists off g, p_ehere p pos n = SInUse off g) \/
      (exists c k, p_ehere p pos n = SComp c k /\ find_off (p_offs p pos) n = None /\ find_comp (p_conts p) n = Some (c, k)).
    Proof.
      intro Eh. unfold p_here in Eh. destruct (p_ehere p pos n) as [a0 b0|off g|c i] eqn:E; cbn [is_used] in Eh; try discriminate Eh; [left; eauto|].
      right. exists c, i. split; [reflexivity|]. unfold p_ehere in E. destruct (find_off (p_offs p pos) n) as [[g0 q0]|]; [discriminate E|].
      split; [reflexivity|]. destruct (find_comp (p_conts p) n) as [[c0 k0]|]; [inversion E; reflexivity|discriminate E].
    Qed.
    Lemma mem_hereT n : In n (p_mem p) -> p_here p pos n = true.
    Proof.
      intro H. unfold p_here, p_ehere. destruct (find_off (p_offs p pos) n) as [[g0 q0]|]; [reflexivity|].
      destruct (find_comp (p_conts p) n) as [[c0 k0]|] eqn:E; [reflexivity|exfalso].
      unfold p_mem in H. apply in_flat_map in H as [s [Hs Hn]]. exact (find_comp_none _ _ E s Hs Hn).
    Qed.

    Lemma here_iffT n : p_here p pos n = true <-> In n (map top_num (p_mine p ++ xtp)) \/ In n (p_mem p).
    Proof.
      split.
      - intro H. destruct (HhereT n H) as [[off [g E]]|[c [k [_ [_ E]]]]].
        + left. destruct (ehere_inuseT _ _ _ E) as [pre [tp [post [Eo [Ek _]]]]].
          apply in_map_iff. exists tp. split; [unfold top_num; rewrite Ek; reflexivity|]. apply otop_mineT. rewrite Eo. apply in_or_app. right. left. reflexivity.
        + right. destruct (find_comp_some _ _ _ _ E) as [s [Hs [_ [Hn _]]]]. unfold p_mem. apply in_flat_map. exists s. split; assumption.
      - intros [H|H]; [|exact (mem_hereT n H)]. apply in_map_iff in H as [tp [E Hin]]. apply otop_mineT in Hin.
        destruct (ehere_of_topT tp Hin) as [pre [post [_ Ee]]]. rewrite E in Ee. unfold p_here. rewrite Ee. reflexivity.
    Qed.

    Lemma here_ltT n : p_here p pos n = true -> n < sz /\ In n (nums ++ xids).
    Proof.
      intro H. apply here_iffT in H. unfold p_size.
      assert (Hm : n <= max_num (p_hnums p ++ p_xid p ++ p_mem p)).
      { apply max_num_ge. destruct H as [H|H].
        - rewrite map_app, xtp_numsT in H. apply in_app_or in H as [H|H]; apply in_or_app; [left; exact H|right; apply in_or_app; left; exact H].
        - apply in_or_app. right. apply in_or_app. right. exact H. }
      split; [lia|].
      destruct H as [H|H]; [|apply in_or_app; left; apply in_or_app; right; apply (mem_comp p n H)].
      rewrite map_app, xtp_numsT in H. apply in_app_or in H as [H|H]; apply in_or_app.
      - left. apply in_map_iff in H as [tp [<- Hin]]. apply (mine_bounds p tp Hin).
      - right. apply (xid_inT _ H).
    Qed.

    Lemma en_hereT n : p_here p pos n = true -> en n = p_ehere p pos n.
    Proof. intro H. unfold p_entry. rewrite H. reflexivity. Qed.

    Definition p_tsecs := build_tsecs secs en (t_eols t) (t_eols t) (t_sec_eols t) (t_sec_sp t).
    Definition p_trd : dict := a_trailer a ++ [(RefWriter.K_Size, OInt (Z.of_N sz))] ++ p_prev prev.
    Definition p_front : bytes :=
      table_text (t_kw_eol t) p_tsecs ++ bs "trailer" ++ sep_bytes (bs "trailer") (t_f1 t) (w_obj (ODict p_trd) (t_trailer t)) ++
      w_obj (ODict p_trd) (t_trailer t) ++ sep_bytes (w_obj (ODict p_trd) (t_trailer t)) (t_f2 t) (startxref_text (with_part st p last) xpos).
    Definition p_tpart : bytes :=
      join [(bs "trailer", t_f1 t); (w_obj (ODict p_trd) (t_trailer t), t_f2 t); (startxref_text (with_part st p last) xpos, [])].
    Definition p_xr : bytes := table_text (t_kw_eol t) p_tsecs ++ p_tpart.

    Lemma T_eqT : T = body_of (p_otops p ++ xtp) ++ p_xr.
    Proof. rewrite xtp_eqT, app_nil_r. unfold p_text, section_text. rewrite s_xref_with_part, Hfmt. reflexivity. Qed.

    (* the object an own entry names, at its byte *)
    Lemma ehere_atT n off g : p_ehere p pos n = SInUse off g ->
      exists tp pre post, In tp (p_mine p ++ xtp) /\ fst (fst tp) = (n, g) /\ P ++ T = pre ++ top_text tp ++ post /\ off = blen pre /\
                          blen P <= off.
    Proof.
      intro H. destruct (ehere_inuseT _ _ _ H) as [pre [tp [post [Eo [Ek Ep]]]]].
      exists tp, (P ++ body_of pre), (body_of post ++ p_xr). split; [apply otop_mineT; rewrite Eo; apply in_or_app; right; left; reflexivity|].
      split; [exact Ek|]. split; [|split].
      - rewrite T_eqT, Eo, body_of_app. change (body_of (tp :: post)) with (top_text tp ++ body_of post). rewrite <- !app_assoc. reflexivity.
      - rewrite Ep. unfold blen. rewrite app_length. lia.
      - rewrite Ep. lia.
    Qed.

    Lemma mine_x_boundsT tp : In tp (p_mine p ++ xtp) -> snd (fst (fst tp)) <= u16_max.
    Proof.
      intro H. apply in_app_or in H as [H|H]; [apply (mine_bounds p tp H)|]. rewrite (xtp_genT tp H). unfold u16_max. lia.
    Qed.

    Lemma en_shapeT k :
      match en k with
      | SInUse off g => off <= blen (P ++ T) /\ g <= u16_max
      | SFree n g => n = 0 /\ g <= 65535
      | SComp c i => c <= u32_max /\ i < 65536
      end.
    Proof.
      unfold p_entry. destruct (p_here p pos k) eqn:Eh.
      - destruct (HhereT k Eh) as [[off [g E]]|[c [i [E [_ Ec]]]]]; rewrite E.
        + destruct (ehere_atT _ _ _ E) as [tp [pre [post [Hin [Ek [EP [Eoff _]]]]]]]. split.
          * rewrite Eoff, EP. unfold blen. rewrite !app_length. lia.
          * pose proof (mine_x_boundsT tp Hin) as Hg. rewrite Ek in Hg. exact Hg.
        + destruct (find_comp_some _ _ _ _ Ec) as [s [Hs [Ec' [_ Hk]]]]. destruct (Hcb s (proj1 (conts_in p s Hs))) as [C1 C2]. split; [|lia].
          rewrite <- Ec'. pose proof (max_num_ge (nums ++ xids) (os_id s) (in_or_app _ _ _ (or_introl (in_or_app _ _ _ (or_introl C1))))). lia.
      - destruct (mem_N k (mp_relist p)).
        + destruct (lookup_entry known k) as [e|] eqn:El; [|split; [reflexivity|lia]].
          destruct (HknT k e El) as [[off [g [-> [H1 H2]]]]|[c [i [-> K]]]]; [|exact K]. split; [|exact H2].
          assert (blen P <= blen (P ++ T)) by (unfold blen; rewrite app_length; lia). lia.
        + destruct (k =? 0); split; try reflexivity; lia.
    Qed.

    Lemma en_no_compT k c i : en k <> SComp c i.
    Proof.
      unfold p_entry. destruct (p_here p pos k) eqn:Eh.
      - destruct (HhereT k Eh) as [[off [g E]]|[c' [i' [_ [_ Ec]]]]]; [rewrite E; discriminate|]. rewrite Hnc in Ec. discriminate Ec.
      - destruct (mem_N k (mp_relist p)) eqn:Erl.
        + destruct (lookup_entry known k) as [e|] eqn:El; [|discriminate]. intro K. subst e.
          unfold part_ok in Hok. rewrite Hfmt in Hok. exact (proj2 Hok k c i Erl El).
        + destruct (k =? 0); discriminate.
    Qed.

    Lemma secs_propsT :
      secs <> [] /\ secs_increasing 0 secs = true /\
      (forall f c, In (f, c) secs -> 1 <= c /\ f + c <= sz) /\
      (forall n, p_here p pos n = true -> exists f c, In (f, c) secs /\ f <= n < f + c).
    Proof.
      assert (Hsz : 1 <= sz) by (unfold p_size; lia).
      assert (Main : secs_increasing 0 secs = true /\ (forall f c, In (f, c) secs -> 1 <= c /\ f + c <= sz) /\
                     (forall n, n < sz -> p_here p pos n = true -> exists f c, In (f, c) secs /\ f <= n < f + c)).
      { unfold p_secs. destruct prev as [q|].
        - destruct (secs_ok_later (p_s0 p) sz (p_here p pos) en) eqn:E.
          + unfold secs_ok_later in E. apply andb_true_iff in E as [E E3]. apply andb_true_iff in E as [E1 E2].
            split; [exact E1|]. split.
            * intros f c Hin. split; [eapply secs_increasing_c; eassumption|].
              rewrite forallb_forall in E3. specialize (E3 (f, c) Hin). cbn [fst snd] in E3. apply andb_true_iff in E3 as [E3 _].
              apply N.leb_le. exact E3.
            * intros n Hn Hu. unfold secs_cover in E2. rewrite forallb_forall in E2.
              assert (Hin : In n (range_N 0 (N.to_nat sz))) by (apply range_N_In; rewrite N2Nat.id; lia).
              specialize (E2 n Hin). rewrite Hu in E2. cbn [negb orb] in E2. apply existsb_exists in E2 as [[f c] [K1 K2]].
              cbn [fst snd] in K2. apply andb_true_iff in K2 as [K2 K3]. apply N.leb_le in K2. apply N.ltb_lt in K3. eauto.
          + destruct (runs_of_good (p_here p pos) (N.to_nat sz) 0) as [R1 [R2 R3]]. rewrite N2Nat.id in R2, R3. split; [exact R1|]. split.
            * intros f c Hin. destruct (R2 f c Hin). split; [assumption|lia].
            * intros n Hn Hu. apply R3; [lia|exact Hu].
        - rewrite Hfmt. destruct (use_secs_good (t_secs t) sz (fun n => (n =? 0) || p_here p pos n) Hsz) as [G1 [G2 G3]].
          split; [exact G1|]. split; [exact G3|]. intros n Hn Hu. apply G2; [exact Hn|]. cbv beta. rewrite Hu. apply orb_true_r. }
      destruct Main as [M1 [M2 M3]]. split; [|split; [exact M1|split; [exact M2|]]].
      - destruct Hex as [n0 Hn0]. destruct (M3 n0 (proj1 (here_ltT n0 Hn0)) Hn0) as [f [c [Hin _]]]. intro E. rewrite E in Hin. contradiction.
      - intros n Hn. apply M3; [apply (here_ltT n Hn)|exact Hn].
    Qed.

    Definition p_numbT := map (fun k => (k, en k)) (keys_of secs).
    Lemma p_numb_nodupT : NoDup (map fst p_numbT).
    Proof. unfold p_numbT. rewrite map_map. cbn [fst]. rewrite map_id. destruct secs_propsT as [_ [H _]]. apply (keys_increasing secs 0 H). Qed.

    Lemma Htr : trailer_dom t.
    Proof. unfold part_ok in Hok. rewrite Hfmt in Hok. exact (proj1 Hok). Qed.

    Lemma tail_frontT : exists fr, p_xr = fr ++ startxref_text (with_part st p last) xpos.
    Proof.
      exists p_front. unfold p_xr, p_tpart, p_front. cbn [join]. change (fill_bytes []) with (@nil byte). rewrite app_nil_r, <- !app_assoc. reflexivity.
    Qed.
    Lemma tail_consT : exists b r, p_xr = b :: r.
    Proof. unfold p_xr, table_text. eexists. eexists. reflexivity. Qed.

    Lemma en_tentry_ok k : tentry_ok (en k).
    Proof.
      pose proof (en_shapeT k) as K. pose proof (en_no_compT k) as NC. destruct (en k) as [n g|off g|c i]; cbn [tentry_ok].
      - destruct K as [-> K]. unfold u32_max. lia.
      - destruct K as [K1 K2]. unfold u16_max in K2. lia.
      - exact (NC c i eq_refl).
    Qed.

    Lemma p_numbered_eq : numbered (tsections_plain p_tsecs) = p_numbT.
    Proof. unfold p_tsecs. rewrite build_tsecs_plain. apply numbered_plain. Qed.

    Definition p_x : xref := {| x_type := XTTable; x_entries := spec_map p_numbT; x_size := i64_as_u32 (Z.of_N sz) |}.
    Definition p_t : dict := denote_dict p_trd (dict_sts (t_trailer t)).
    Lemma px_entriesT : x_entries p_x = spec_map p_numbT. Proof. reflexivity. Qed.

    Lemma xr_parse_p ext : xref_and_trailer_table (p_xr ++ ext) = XOk (p_x, p_t).
    Proof.
      unfold xref_and_trailer_table, p_xr. rewrite <- app_assoc.
      assert (Htk : tok_start (p_tpart ++ ext) = true) by reflexivity.
      rewrite (xref_table_any_sectioning (t_kw_eol t) p_tsecs (p_tpart ++ ext)).
      2:{ apply build_tsecs_ne. apply secs_propsT. }
      2:{ apply (build_tsecs_ok en _ sz en_tentry_ok sz_leT). apply secs_propsT. }
      2:{ reflexivity. }
      rewrite (space_tok _ Htk).
      destruct (Htr sz prev sz_leT HprevT) as [Hw Hn].
      pose proof (trailer_any_spelling (t_f1 t) (t_f2 t) p_trd (t_trailer t) (startxref_text (with_part st p last) xpos) ext Hw Hn) as Et.
      assert (Et' : Xref.trailer (p_tpart ++ ext) = POk p_t (startxref_text (with_part st p last) xpos ++ ext)).
      { apply Et; rewrite startxref_text_block; [discriminate|reflexivity]. }
      rewrite Et'.
      assert (Eg : dict_get p_t Xref.K_Size = Some (OInt (Z.of_N sz))).
      { change Xref.K_Size with RefWriter.K_Size. unfold p_t. apply dict_get_denote. unfold p_trd. rewrite dget_app.
        destruct Htrail as [Hs _]. rewrite Hs. reflexivity. }
      rewrite Eg. cbn [x_type x_entries]. rewrite p_numbered_eq. reflexivity.
    Qed.

    Lemma HparseT ext : xref_and_trailer_x dec can ((P ++ T) ++ ext) xpos = SOk (p_x, p_t).
    Proof.
      unfold xref_and_trailer_x. rewrite T_eqT, xtp_eqT, app_nil_r.
      replace ((P ++ body_of (p_otops p) ++ p_xr) ++ ext) with ((P ++ body_of (p_otops p)) ++ p_xr ++ ext) by (rewrite <- !app_assoc; reflexivity).
      replace xpos with (blen (P ++ body_of (p_otops p))) by (unfold p_xpos, blen; rewrite app_length; lia).
      rewrite from_app, xr_parse_p. reflexivity.
    Qed.

    Lemma Hpt_prevT : dict_get p_t K_Prev = match prev with Some q => Some (OInt (Z.of_N q)) | None => None end.
    Proof.
      destruct Htrail as [_ [Hp _]]. unfold p_t, p_trd. destruct prev as [q|]; cbn [p_prev].
      - apply dict_get_denote. rewrite dget_app, Hp. reflexivity.
      - apply dict_get_denote_none. rewrite dget_app, Hp. reflexivity.
    Qed.

    Lemma p_t_none k : dict_get (a_trailer a) k = None -> bytes_eqb RefWriter.K_Size k = false -> bytes_eqb K_PrevW k = false ->
      dict_get p_t k = None.
    Proof.
      intros H1 H2 H3. unfold p_t, p_trd. apply dict_get_denote_none. rewrite dget_app, H1. cbn [app dict_get]. rewrite H2.
      destruct prev; cbn [p_prev dict_get]; [rewrite H3|]; reflexivity.
    Qed.
    Lemma Hpt_stmT : dict_get p_t K_XRefStm = None.
    Proof. apply p_t_none; [apply Htrail|reflexivity|reflexivity]. Qed.

    Lemma pt_wfT : dict_wf p_t.
    Proof.
      unfold dict_wf, keys, p_t. rewrite keys_denote. destruct (Htr sz prev sz_leT HprevT) as [Hw _]. apply spell_wf_dict in Hw. apply Hw.
    Qed.
    Lemma pt_encT : dict_get p_t K_Encrypt = None.
    Proof. apply p_t_none; [apply Htrail|reflexivity|reflexivity]. Qed.
    Lemma px_typeT : x_type p_x = XTTable. Proof. reflexivity. Qed.

    Lemma Hxtp_okT tp : In tp xtp -> top_ok tp.
    Proof. rewrite xtp_eqT. intros []. Qed.

    Lemma pt_sizeT : dict_get p_t Xref.K_Size = Some (OInt (Z.of_N sz)).
    Proof.
      change Xref.K_Size with RefWriter.K_Size. unfold p_t. apply dict_get_denote. unfold p_trd. rewrite dget_app.
      destruct Htrail as [Hs _]. rewrite Hs. reflexivity.
    Qed.

    Lemma pt_srcT : trailer_src p_t.
    Proof.
      split; [exact pt_wfT|]. exists p_trd, (t_trailer t). split; [apply (Htr sz prev sz_leT HprevT)|].
      intros k Hk. split; [reflexivity|]. unfold p_trd. rewrite dget_app. destruct (dict_get (a_trailer a) k); [reflexivity|].
      cbn [app dict_get]. rewrite (excl_beq RefWriter.K_Size k Hk) by (cbn; tauto).
      destruct prev; cbn [p_prev dict_get]; [rewrite (excl_beq K_PrevW k Hk) by (cbn; tauto)|]; reflexivity.
    Qed.

    (* ---------- generic from here: the invariant after this part ---------- *)
    Lemma xget_p_casesT n :
      (In n (keys_of secs) /\ xget (x_entries p_x) n = entry_meaning (en n)) \/ (~ In n (keys_of secs) /\ xget (x_entries p_x) n = None).
    Proof.
      rewrite px_entriesT.
      destruct (in_dec N.eq_dec n (keys_of secs)) as [Hin|Hn]; [left|right]; (split; [assumption|]).
      - apply (xget_spec_map p_numbT n (en n) p_numb_nodupT). unfold p_numbT. apply in_map_iff. exists n. split; [reflexivity|exact Hin].
      - unfold spec_map. rewrite xget_spec_map_absent; [reflexivity|].
        unfold p_numbT. rewrite map_map. cbn [fst]. rewrite map_id. exact Hn.
    Qed.

    Lemma px_sortedT : C07Bytes.xincr 0 (x_entries p_x).
    Proof. rewrite px_entriesT. apply spec_map_sorted. exact I. Qed.

    Lemma xpos_ltT : xpos < blen (P ++ T).
    Proof.
      rewrite T_eqT. destruct tail_consT as [b [r ->]]. unfold p_xpos, blen. rewrite body_of_app, !app_length. cbn [length]. lia.
    Qed.

    Lemma PT_frontT : exists front, P ++ T = front ++ startxref_text (with_part st p last) xpos /\ xpos <= blen front.
    Proof.
      destruct tail_frontT as [fr E]. exists (P ++ body_of (p_otops p ++ xtp) ++ fr). rewrite T_eqT. rewrite E at 1. split; [rewrite <- !app_assoc; reflexivity|].
      unfold p_xpos, blen. rewrite body_of_app, !app_length. lia.
    Qed.

    Notation chain' := ((xpos, (p_x, p_t)) :: chain).

    Lemma fe_stepT n : fe chain' n = if p_here p pos n then entry_meaning (p_ehere p pos n) else fe chain n.
    Proof.
      unfold fe. cbn [map first_entry fst snd]. change (first_entry (map (fun s : csec => fst (snd s)) chain) n) with (fe chain n).
      destruct (p_here p pos n) eqn:Eh.
      - destruct secs_propsT as [_ [_ [_ Hc]]]. destruct (Hc n Eh) as [f [c [Hin Hr]]].
        destruct (xget_p_casesT n) as [[_ ->]|[Hn _]]; [|exfalso; apply Hn; apply keys_of_In; eauto].
        rewrite (en_hereT n Eh). destruct (HhereT n Eh) as [[off [g ->]]|[c9 [k9 [-> _]]]]; reflexivity.
      - destruct (xget_p_casesT n) as [[_ ->]|[_ ->]]; [|reflexivity].
        unfold p_entry. rewrite Eh. destruct (mem_N n (mp_relist p)).
        + pose proof (i_known _ _ _ _ _ _ Hinv n) as K. destruct (lookup_entry known n) as [e|]; [|reflexivity].
          rewrite <- K. destruct (entry_meaning e); reflexivity.
        + destruct (n =? 0); reflexivity.
    Qed.

    Lemma known_stepT n :
      lookup_entry (p_known p pos known maxnum) n = if p_here p pos n then Some (p_ehere p pos n) else lookup_entry known n.
    Proof.
      unfold p_known. rewrite (lookup_entry_map en known). destruct (p_here p pos n) eqn:Eh.
      - replace (mem_N n (filter (p_here p pos) (range_N 0 (N.to_nat sz)))) with true; [rewrite (en_hereT n Eh); reflexivity|].
        symmetry. apply mem_N_In. apply filter_In. split; [|exact Eh]. apply range_N_In. rewrite N2Nat.id. destruct (here_ltT n Eh). lia.
      - replace (mem_N n (filter (p_here p pos) (range_N 0 (N.to_nat sz)))) with false; [reflexivity|].
        symmetry. destruct (mem_N n (filter (p_here p pos) (range_N 0 (N.to_nat sz)))) eqn:E; [|reflexivity].
        apply mem_N_In in E. apply filter_In in E as [_ E]. congruence.
    Qed.

    Lemma inv_stepT : Inv rest (P ++ T) chain' (p_known p pos known maxnum) (sz - 1) (xtp ++ xt).
    Proof.
      assert (HPT : blen P <= blen (P ++ T)) by (unfold blen; rewrite app_length; lia).
      assert (Hmine : forall tp, In tp tops -> In (top_num tp) (mp_nums p) -> p_here p pos (top_num tp) = true).
      { intros tp Htp K. apply here_iffT. left. apply in_map. apply in_or_app. left. unfold p_mine. apply in_or_app. left.
        apply filter_In. split; [exact Htp|]. apply mem_N_In. exact K. }
      constructor.
      - (* i_nums *) intros n e H. rewrite fe_stepT in H. destruct (p_here p pos n) eqn:Eh.
        + destruct (here_ltT n Eh) as [H1 H2]. split; [exact H2|]. split; [lia|].
          destruct (HhereT n Eh) as [[off [g Ee]]|[c [k [Ee [_ Ec]]]]]; rewrite Ee in H; cbn [entry_meaning] in H; inversion H; subst e; [left; eauto|].
          right. exists c, k. split; [reflexivity|]. destruct (find_comp_some _ _ _ _ Ec) as [s [Hs [_ [Hn _]]]].
          apply (mem_comp p). unfold p_mem. apply in_flat_map. exists s. split; assumption.
        + destruct (i_nums _ _ _ _ _ _ Hinv n e H) as [H1 [H2 H3]]. split; [exact H1|]. split; [pose proof (p_size_ge p maxnum); lia|exact H3].
      - (* i_cur *) intros n off g H Hnr. rewrite fe_stepT in H. destruct (p_here p pos n) eqn:Eh.
        + destruct (HhereT n Eh) as [[off' [g' Ee]]|[c' [k' [Ee _]]]]; [|rewrite Ee in H; discriminate H].
          rewrite Ee in H. cbn [entry_meaning] in H. inversion H; subst off' g'.
          destruct (ehere_atT _ _ _ Ee) as [tp [pre [post [Hin [Ek [EP [Eoff _]]]]]]].
          apply in_app_or in Hin as [Hin|Hin].
          * destruct (mine_cases p tp Hin) as [[Ht _]|[o [g0 [o0 [Ho _]]]]].
            -- exists tp, pre, post. split; [apply in_or_app; left; exact Ht|auto].
            -- exfalso. unfold top_num in Ho. rewrite Ek in Ho. cbn [fst] in Ho. destruct (Hold _ Ho) as [K1 K2]. exact (Hnr K2 K1).
          * exists tp, pre, post. split; [apply in_or_app; right; apply in_or_app; left; exact Hin|auto].
        + assert (Hnp : In n tnums -> ~ In n (mp_nums p)).
          { intros Hn K. destruct (top_of_num n Hn) as [tp [Htp En]].
            rewrite <- En in K. pose proof (Hmine tp Htp K) as K2. rewrite En in K2. congruence. }
          destruct (i_cur _ _ _ _ _ _ Hinv n off g H) as [tp [pre [post [H1 [H2 [H3 H4]]]]]].
          { intros Hn. cbn [flat_map]. intro K. apply in_app_or in K as [K|K]; [apply (Hnp Hn); exact K|apply (Hnr Hn); exact K]. }
          exists tp, pre, (post ++ T). split; [apply in_app_or in H1 as [H1|H1]; apply in_or_app; [left; exact H1|right; apply in_or_app; right; exact H1]|].
          split; [exact H2|]. split; [rewrite H3, <- !app_assoc; reflexivity|exact H4].
      - (* i_all *) intros tp Htp Hnr. rewrite fe_stepT. destruct (p_here p pos (top_num tp)) eqn:Eh.
        + destruct (HhereT _ Eh) as [[off [g ->]]|[c [k [-> _]]]]; discriminate.
        + apply (i_all _ _ _ _ _ _ Hinv tp Htp). cbn [flat_map]. intro K. apply in_app_or in K as [K|K]; [|apply Hnr; exact K].
          pose proof (Hmine tp Htp K). congruence.
      - (* i_allx *) intros n Hn Hnr. rewrite fe_stepT. destruct (p_here p pos n) eqn:Eh.
        + destruct (HhereT _ Eh) as [[off [g ->]]|[c [k [-> _]]]]; discriminate.
        + apply (i_allx _ _ _ _ _ _ Hinv n Hn). change (part_xids (p :: rest)) with (p_xid p ++ part_xids rest). intro K.
          apply in_app_or in K as [K|K]; [|apply Hnr; exact K].
          assert (In n (map top_num (p_mine p ++ xtp))) by (rewrite map_app, xtp_numsT; apply in_or_app; right; exact K).
          pose proof (proj2 (here_iffT n) (or_introl H)). congruence.
      - (* i_known *) intro n. rewrite known_stepT, fe_stepT. destruct (p_here p pos n) eqn:Eh; [|apply (i_known _ _ _ _ _ _ Hinv)].
        reflexivity.
      - (* i_kn *) intros n e H. rewrite known_stepT in H. destruct (p_here p pos n) eqn:Eh.
        + inversion H; subst e. pose proof (en_shapeT n) as Sh. rewrite (en_hereT n Eh) in Sh.
          destruct (HhereT n Eh) as [[off [g Ee]]|[c [k [Ee _]]]]; rewrite Ee in *.
          * left. exists off, g. split; [reflexivity|]. exact Sh.
          * right. exists c, k. split; [reflexivity|]. exact Sh.
        + destruct (HknT n e H) as [[off [g [E1 [E2 E3]]]]|K]; [left; exists off, g; split; [exact E1|]; split; [lia|exact E3]|right; exact K].
      - (* i_chain *) intro ext. cbn [chain_ok]. split; [exact xpos_ltT|]. split; [apply HparseT|]. split; [exact Hpt_stmT|].
        split.
        + rewrite Hpt_prevT.
          assert (G : forall c, match prev_N c with Some q => Some (OInt (Z.of_N q)) | None => None end = prev_of c)
            by (intros [|[off [x0 t0]] r]; reflexivity).
          apply G.
        + rewrite <- app_assoc. apply (chain_ok_weaken dec can _ chain (blen P)); [unfold p_xpos; lia|apply (i_chain _ _ _ _ _ _ Hinv)].
      - (* i_max *) unfold p_size. pose proof sz_boundT. lia.
      - (* i_xt *) intros tp Htp. apply in_app_or in Htp as [Htp|Htp]; [|apply (i_xt _ _ _ _ _ _ Hinv tp Htp)].
        split; [apply Hxtp_okT; exact Htp|]. apply (xid_inT (top_num tp)). rewrite <- xtp_numsT. apply in_map. exact Htp.
      - (* i_pos *) pose proof (i_pos _ _ _ _ _ _ Hinv). lia.
      - (* i_mem *) intros s n Hs Hn Hnr. rewrite fe_stepT.
        assert (Hc : In n comp) by (unfold compressed_nums; apply in_flat_map; exists s; split; assumption).
        destruct (in_dec N.eq_dec (os_id s) (mp_nums p)) as [Hin|Hnin].
        + assert (Hsc : In s (p_conts p)) by (unfold p_conts, part_containers; apply filter_In; split; [exact Hs|apply mem_N_In; exact Hin]).
          assert (Hm : In n (p_mem p)) by (unfold p_mem; apply in_flat_map; exists s; split; assumption).
          rewrite (mem_hereT n Hm). destruct (HhereT n (mem_hereT n Hm)) as [[off [g Ee]]|[c [k [Ee [_ Ec]]]]].
          * exfalso. apply (mem_not_mineT n Hc). destruct (ehere_inuseT _ _ _ Ee) as [pre [tp [post [Eo [Ek _]]]]].
            apply in_map_iff. exists tp. split; [unfold top_num; rewrite Ek; reflexivity|]. apply otop_mineT. rewrite Eo. apply in_or_app. right. left. reflexivity.
          * rewrite Ee. cbn [entry_meaning]. destruct (find_comp_some _ _ _ _ Ec) as [s' [Hs' [Ec' [Hn' _]]]].
            rewrite (member_unique s s' n Hs (proj1 (conts_in p s' Hs')) Hn Hn'). rewrite Ec'. exists k. reflexivity.
        + replace (p_here p pos n) with false.
          * apply (i_mem _ _ _ _ _ _ Hinv s n Hs Hn). cbn [flat_map]. intro K. apply in_app_or in K as [K|K]; [exact (Hnin K)|exact (Hnr K)].
          * symmetry. destruct (p_here p pos n) eqn:Eh; [|reflexivity]. exfalso. apply here_iffT in Eh as [Eh|Eh]; [exact (mem_not_mineT n Hc Eh)|].
            unfold p_mem in Eh. apply in_flat_map in Eh as [s' [Hs' Hn']].
            rewrite <- (member_unique s s' n Hs (proj1 (conts_in p s' Hs')) Hn Hn') in Hs'. exact (Hnin (proj2 (conts_in p s Hs'))).
    Qed.
    Lemma part_resultT :
      Inv rest (P ++ T) chain' (p_known p pos known maxnum) (sz - 1) (xtp ++ xt) /\ C07Bytes.xincr 0 (x_entries p_x) /\
      (exists front, P ++ T = front ++ startxref_text (with_part st p last) xpos /\ xpos <= blen front) /\
      dict_get (dict_swap_remove p_t K_Prev) K_XRefStm = None /\ dict_has (dict_swap_remove p_t K_Prev) K_Encrypt = false /\
      trailer_src p_t /\ dict_get p_t Xref.K_Size = Some (OInt (Z.of_N sz)).
    Proof.
      split; [exact inv_stepT|]. split; [exact px_sortedT|]. split; [exact PT_frontT|]. split; [|split; [|split; [exact pt_srcT|exact pt_sizeT]]].
      - rewrite dict_get_swap_remove_other; [exact Hpt_stmT|exact pt_wfT|intro E; discriminate E].
      - unfold dict_has. rewrite dict_get_swap_remove_other; [rewrite pt_encT; reflexivity|exact pt_wfT|intro E; discriminate E].
    Qed.
  End PartT.

  Section PartS.
    Variable p : mpart.
    Variable x : xsstyle.
    Variable P : bytes.
    Variable chain : list csec.
    Variable known : list (N * sentry).
    Variable maxnum : N.
    Variable rest : list mpart.
    Variable xt : list top.
    Hypothesis Hfmt : mp_xref p = XStream x.
    Hypothesis Hhn : NoDup (p_hnums p).
    Hypothesis Hinv : Inv (p :: rest) P chain known maxnum xt.
    Hypothesis Hex : exists n, p_here p (blen P) n = true.
    Hypothesis Hold : forall no, In no (mp_old p) -> In (fst no) (flat_map mp_nums rest) /\ In (fst no) tnums.
    Hypothesis Hok : part_ok p (blen P) (prev_N chain) known maxnum.

    Notation prev := (prev_N chain).
    Notation last := (p_last rest).
    Notation pos := (blen P).
    Notation sz := (p_size p maxnum).
    Notation secs := (p_secs p pos prev known maxnum).
    Notation en := (p_entry p pos known).
    Notation xpos := (p_xpos p pos).
    Notation T := (p_text p last pos prev known maxnum).
    Notation xtp := (p_xtp p pos prev known maxnum).
    Hypothesis HU : blen (P ++ T) <= u32_max.

    Lemma HknS : forall n e, lookup_entry known n = Some e ->
      (exists off g, e = SInUse off g /\ off <= blen P /\ g <= u16_max) \/ (exists c k, e = SComp c k /\ c <= u32_max /\ k < 65536).
    Proof. exact (i_kn _ _ _ _ _ _ Hinv). Qed.
    Lemma HmaxnS : maxnum <= max_num (nums ++ xids).
    Proof. exact (i_max _ _ _ _ _ _ Hinv). Qed.
    Lemma HprevS : prev = None \/ exists q, q <= u32_max /\ prev = Some q.
    Proof.
      pose proof (i_chain _ _ _ _ _ _ Hinv []) as K.
      assert (G : forall c, chain_ok dec can (P ++ []) (blen P) c -> prev_N c = None \/ exists q, q < blen P /\ prev_N c = Some q).
      { intros [|[off [x0 t0]] r] Hc; [left; reflexivity|right]. exists off. split; [apply Hc|reflexivity]. }
      destruct (G chain K) as [G1|[q [G1 G2]]]; [left; exact G1|right; exists q; split; [|exact G2]].
      assert (blen P <= blen (P ++ T)) by (unfold blen; rewrite app_length; lia). lia.
    Qed.

    Lemma xid_eqS : p_xid p = [xs_id x].
    Proof. unfold p_xid. rewrite Hfmt. reflexivity. Qed.
    Lemma xtp_eqS : xtp = [xq_top a x (p_entry p (blen P) known) (p_secs p (blen P) (prev_N chain) known maxnum) (p_size p maxnum) (p_prev (prev_N chain))].
    Proof. unfold p_xtp. rewrite Hfmt. reflexivity. Qed.
    Lemma xid_inS n : In n (p_xid p) -> In n xids /\ 1 <= n.
    Proof. rewrite xid_eqS. intros [<-|[]]. unfold part_ok in Hok. rewrite Hfmt in Hok. destruct Hok as [_ [Hin _]]. split; [exact Hin|].
      destruct (N.eq_dec (xs_id x) 0) as [E|E]; [rewrite E in Hin; contradiction|lia]. Qed.
    Lemma xtp_numsS : map top_num xtp = p_xid p.
    Proof. rewrite xtp_eqS, xid_eqS. reflexivity. Qed.
    Lemma xtp_genS tp : In tp xtp -> snd (fst (fst tp)) = 0.
    Proof. rewrite xtp_eqS. cbn [In]. intro H. repeat (destruct H as [<-|H]; [reflexivity|]). destruct H. Qed.
    Lemma HoffsS : offs_of pos (p_otops p ++ xtp) = p_offs p pos.
    Proof. rewrite offs_of_app. unfold p_offs. f_equal. rewrite xtp_eqS, xid_eqS. reflexivity. Qed.
    Lemma Hhn'S : NoDup (map top_num (p_mine p ++ xtp)).
    Proof.
      rewrite map_app, xtp_numsS. apply NoDup_app_disj; [exact Hhn| |].
      - rewrite xid_eqS; repeat constructor; intros [].
      - intros n H1 H2. unfold p_hnums in H1. change (fun t0 : top => fst (fst (fst t0))) with top_num in H1.
        apply in_map_iff in H1 as [tp [<- Hin]]. apply (nums_not_xid (top_num tp)); [apply (mine_bounds p tp Hin)|apply (xid_inS _ H2)].
    Qed.

    Lemma mem_not_mineS n : In n comp -> ~ In n (map top_num (p_mine p ++ xtp)).
    Proof.
      intros Hc H. rewrite map_app, xtp_numsS in H. apply in_app_or in H as [H|H].
      - apply in_map_iff in H as [tp [E Hin]]. destruct (mine_cases p tp Hin) as [[Ht _]|[o [g0 [o0 [Ho _]]]]].
        + apply (top_not_comp n); [rewrite <- E; apply in_map; exact Ht|exact Hc].
        + rewrite E in Ho. apply (top_not_comp n); [apply (proj2 (Hold _ Ho))|exact Hc].
      - apply (nums_not_xid n); [apply in_or_app; right; exact Hc|apply (xid_inS _ H)].
    Qed.
    Lemma sz_boundS : N.max maxnum (max_num (p_hnums p ++ p_xid p ++ p_mem p)) <= max_num (nums ++ xids).
    Proof.
      pose proof HmaxnS. assert (max_num (p_hnums p ++ p_xid p ++ p_mem p) <= max_num (nums ++ xids)); [|lia].
      unfold max_num at 1. apply max_num_le; [lia|]. intros y Hy. apply max_num_ge.
      apply in_app_or in Hy as [Hy|Hy]; [|apply in_app_or in Hy as [Hy|Hy]]; apply in_or_app.
      - left. unfold p_hnums in Hy. apply in_map_iff in Hy as [tp [<- Hin]]. apply (mine_bounds p tp Hin).
      - right. apply (xid_inS _ Hy).
      - left. apply in_or_app. right. apply (mem_comp p y Hy).
    Qed.
    Lemma sz_leS : sz <= u32_max.
    Proof. unfold p_size. pose proof sz_boundS. lia. Qed.

    Lemma otop_mineS tp : In tp (p_otops p ++ xtp) <-> In tp (p_mine p ++ xtp).
    Proof. rewrite !in_app_iff. unfold p_otops. rewrite ordered_In. tauto. Qed.

    Lemma otop_uniqS tp tp' : In tp (p_otops p ++ xtp) -> In tp' (p_otops p ++ xtp) -> top_num tp = top_num tp' -> tp = tp'.
    Proof.
      intros H1 H2 E. apply (unique_by_key top_num (p_mine p ++ xtp)); [exact Hhn'S|apply otop_mineS; exact H1|apply otop_mineS; exact H2|exact E].
    Qed.

    Lemma ehere_inuseS n off g : p_ehere p pos n = SInUse off g ->
      exists pre tp post, p_otops p ++ xtp = pre ++ tp :: post /\ fst (fst tp) = (n, g) /\ off = pos + N.of_nat (length (body_of pre)).
    Proof.
      unfold p_ehere. rewrite <- HoffsS. destruct (find_off (offs_of pos (p_otops p ++ xtp)) n) as [[g0 p0]|] eqn:Ef; [|destruct (find_comp (p_conts p) n) as [[c0 k0]|]; discriminate].
      intro H. inversion H; subst. apply find_off_In in Ef.
      destruct (offs_of_In _ _ _ _ _ Ef) as [pre [o [y [post [E Ep]]]]]. exists pre, ((n, g), o, y), post. auto.
    Qed.

    Lemma ehere_of_topS tp : In tp (p_otops p ++ xtp) ->
      exists pre post, p_otops p ++ xtp = pre ++ tp :: post /\
                       p_ehere p pos (top_num tp) = SInUse (pos + N.of_nat (length (body_of pre))) (snd (fst (fst tp))).
    Proof.
      intro H. destruct (find_off_exists (p_otops p ++ xtp) pos tp H) as [g [q Ef]].
      assert (En : p_ehere p pos (top_num tp) = SInUse q g) by (unfold p_ehere; rewrite <- HoffsS, Ef; reflexivity).
      destruct (ehere_inuseS _ _ _ En) as [pre [tp' [post [E [Ek Ep]]]]].
      assert (tp' = tp).
      { apply otop_uniqS; [rewrite E; apply in_or_app; right; left; reflexivity|exact H|]. unfold top_num. rewrite Ek. reflexivity. }
      subst tp'. exists pre, post. split; [exact E|]. rewrite En, Ep, Ek. reflexivity.
    Qed.

    Lemma HhereS n : p_here p pos n = true ->
      (exists off g, p_ehere p pos n = SInUse off g) \/
      (exists c k, p_ehere p pos n = SComp c k /\ find_off (p_offs p pos) n = None /\ find_comp (p_conts p) n = Some (c, k)).
    Proof.
      intro Eh. unfold p_here in Eh. destruct (p_ehere p pos n) as [a0 b0|off g|c i] eqn:E; cbn [is_used] in Eh; try discriminate Eh; [left; eauto|].
      right. exists c, i. split; [reflexivity|]. unfold p_ehere in E. destruct (find_off (p_offs p pos) n) as [[g0 q0]|]; [discriminate E|].
      split; [reflexivity|]. destruct (find_comp (p_conts p) n) as [[c0 k0]|]; [inversion E; reflexivity|discriminate E].
    Qed.
    Lemma mem_hereS n : In n (p_mem p) -> p_here p pos n = true.
    Proof.
      intro H. unfold p_here, p_ehere. destruct (find_off (p_offs p pos) n) as [[g0 q0]|]; [reflexivity|].
      destruct (find_comp (p_conts p) n) as [[c0 k0]|] eqn:E; [reflexivity|exfalso].
      unfold p_mem in H. apply in_flat_map in H as [s [Hs Hn]]. exact (find_comp_none _ _ E s Hs Hn).
    Qed.

    Lemma here_iffS n : p_here p pos n = true <-> In n (map top_num (p_mine p ++ xtp)) \/ In n (p_mem p).
    Proof.
      split.
      - intro H. destruct (HhereS n H) as [[off [g E]]|[c [k [_ [_ E]]]]].
        + left. destruct (ehere_inuseS _ _ _ E) as [pre [tp [post [Eo [Ek _]]]]].
          apply in_map_iff. exists tp. split; [unfold top_num; rewrite Ek; reflexivity|]. apply otop_mineS. rewrite Eo. apply in_or_app. right. left. reflexivity.
        + right. destruct (find_comp_some _ _ _ _ E) as [s [Hs [_ [Hn _]]]]. unfold p_mem. apply in_flat_map. exists s. split; assumption.
      - intros [H|H]; [|exact (mem_hereS n H)]. apply in_map_iff in H as [tp [E Hin]]. apply otop_mineS in Hin.
        destruct (ehere_of_topS tp Hin) as [pre [post [_ Ee]]]. rewrite E in Ee. unfold p_here. rewrite Ee. reflexivity.
    Qed.

    Lemma here_ltS n : p_here p pos n = true -> n < sz /\ In n (nums ++ xids).
    Proof.
      intro H. apply here_iffS in H. unfold p_size.
      assert (Hm : n <= max_num (p_hnums p ++ p_xid p ++ p_mem p)).
      { apply max_num_ge. destruct H as [H|H].
        - rewrite map_app, xtp_numsS in H. apply in_app_or in H as [H|H]; apply in_or_app; [left; exact H|right; apply in_or_app; left; exact H].
        - apply in_or_app. right. apply in_or_app. right. exact H. }
      split; [lia|].
      destruct H as [H|H]; [|apply in_or_app; left; apply in_or_app; right; apply (mem_comp p n H)].
      rewrite map_app, xtp_numsS in H. apply in_app_or in H as [H|H]; apply in_or_app.
      - left. apply in_map_iff in H as [tp [<- Hin]]. apply (mine_bounds p tp Hin).
      - right. apply (xid_inS _ H).
    Qed.

    Lemma en_hereS n : p_here p pos n = true -> en n = p_ehere p pos n.
    Proof. intro H. unfold p_entry. rewrite H. reflexivity. Qed.

    

    Lemma T_eqS : T = body_of (p_otops p ++ xtp) ++ startxref_text (with_part st p last) xpos.
    Proof. rewrite xtp_eqS, body_of_app. unfold p_text. rewrite (section_text_stream a x en secs sz xpos (p_prev prev) _ (eq_trans (s_xref_with_part st p last) Hfmt)).
      change (body_of [xq_top a x en secs sz (p_prev prev)]) with (top_text (xq_top a x en secs sz (p_prev prev)) ++ []).
      rewrite app_nil_r, <- !app_assoc. reflexivity. Qed.

    (* the object an own entry names, at its byte *)
    Lemma ehere_atS n off g : p_ehere p pos n = SInUse off g ->
      exists tp pre post, In tp (p_mine p ++ xtp) /\ fst (fst tp) = (n, g) /\ P ++ T = pre ++ top_text tp ++ post /\ off = blen pre /\
                          blen P <= off.
    Proof.
      intro H. destruct (ehere_inuseS _ _ _ H) as [pre [tp [post [Eo [Ek Ep]]]]].
      exists tp, (P ++ body_of pre), (body_of post ++ startxref_text (with_part st p last) xpos). split; [apply otop_mineS; rewrite Eo; apply in_or_app; right; left; reflexivity|].
      split; [exact Ek|]. split; [|split].
      - rewrite T_eqS, Eo, body_of_app. change (body_of (tp :: post)) with (top_text tp ++ body_of post). rewrite <- !app_assoc. reflexivity.
      - rewrite Ep. unfold blen. rewrite app_length. lia.
      - rewrite Ep. lia.
    Qed.

    Lemma mine_x_boundsS tp : In tp (p_mine p ++ xtp) -> snd (fst (fst tp)) <= u16_max.
    Proof.
      intro H. apply in_app_or in H as [H|H]; [apply (mine_bounds p tp H)|]. rewrite (xtp_genS tp H). unfold u16_max. lia.
    Qed.

    Lemma en_shapeS k :
      match en k with
      | SInUse off g => off <= blen (P ++ T) /\ g <= u16_max
      | SFree n g => n = 0 /\ g <= 65535
      | SComp c i => c <= u32_max /\ i < 65536
      end.
    Proof.
      unfold p_entry. destruct (p_here p pos k) eqn:Eh.
      - destruct (HhereS k Eh) as [[off [g E]]|[c [i [E [_ Ec]]]]]; rewrite E.
        + destruct (ehere_atS _ _ _ E) as [tp [pre [post [Hin [Ek [EP [Eoff _]]]]]]]. split.
          * rewrite Eoff, EP. unfold blen. rewrite !app_length. lia.
          * pose proof (mine_x_boundsS tp Hin) as Hg. rewrite Ek in Hg. exact Hg.
        + destruct (find_comp_some _ _ _ _ Ec) as [s [Hs [Ec' [_ Hk]]]]. destruct (Hcb s (proj1 (conts_in p s Hs))) as [C1 C2]. split; [|lia].
          rewrite <- Ec'. pose proof (max_num_ge (nums ++ xids) (os_id s) (in_or_app _ _ _ (or_introl (in_or_app _ _ _ (or_introl C1))))). lia.
      - destruct (mem_N k (mp_relist p)).
        + destruct (lookup_entry known k) as [e|] eqn:El; [|split; [reflexivity|lia]].
          destruct (HknS k e El) as [[off [g [-> [H1 H2]]]]|[c [i [-> K]]]]; [|exact K]. split; [|exact H2].
          assert (blen P <= blen (P ++ T)) by (unfold blen; rewrite app_length; lia). lia.
        + destruct (k =? 0); split; try reflexivity; lia.
    Qed.

    Lemma secs_propsS :
      secs <> [] /\ secs_increasing 0 secs = true /\
      (forall f c, In (f, c) secs -> 1 <= c /\ f + c <= sz) /\
      (forall n, p_here p pos n = true -> exists f c, In (f, c) secs /\ f <= n < f + c).
    Proof.
      assert (Hsz : 1 <= sz) by (unfold p_size; lia).
      assert (Main : secs_increasing 0 secs = true /\ (forall f c, In (f, c) secs -> 1 <= c /\ f + c <= sz) /\
                     (forall n, n < sz -> p_here p pos n = true -> exists f c, In (f, c) secs /\ f <= n < f + c)).
      { unfold p_secs. destruct prev as [q|].
        - destruct (secs_ok_later (p_s0 p) sz (p_here p pos) en) eqn:E.
          + unfold secs_ok_later in E. apply andb_true_iff in E as [E E3]. apply andb_true_iff in E as [E1 E2].
            split; [exact E1|]. split.
            * intros f c Hin. split; [eapply secs_increasing_c; eassumption|].
              rewrite forallb_forall in E3. specialize (E3 (f, c) Hin). cbn [fst snd] in E3. apply andb_true_iff in E3 as [E3 _].
              apply N.leb_le. exact E3.
            * intros n Hn Hu. unfold secs_cover in E2. rewrite forallb_forall in E2.
              assert (Hin : In n (range_N 0 (N.to_nat sz))) by (apply range_N_In; rewrite N2Nat.id; lia).
              specialize (E2 n Hin). rewrite Hu in E2. cbn [negb orb] in E2. apply existsb_exists in E2 as [[f c] [K1 K2]].
              cbn [fst snd] in K2. apply andb_true_iff in K2 as [K2 K3]. apply N.leb_le in K2. apply N.ltb_lt in K3. eauto.
          + destruct (runs_of_good (p_here p pos) (N.to_nat sz) 0) as [R1 [R2 R3]]. rewrite N2Nat.id in R2, R3. split; [exact R1|]. split.
            * intros f c Hin. destruct (R2 f c Hin). split; [assumption|lia].
            * intros n Hn Hu. apply R3; [lia|exact Hu].
        - rewrite Hfmt. destruct (use_secs_good (xs_secs x) sz (p_here p pos) Hsz) as [G1 [G2 G3]].
          split; [exact G1|]. split; [exact G3|]. intros n Hn Hu. apply G2; assumption. }
      destruct Main as [M1 [M2 M3]]. split; [|split; [exact M1|split; [exact M2|]]].
      - destruct Hex as [n0 Hn0]. destruct (M3 n0 (proj1 (here_ltS n0 Hn0)) Hn0) as [f [c [Hin _]]]. intro E. rewrite E in Hin. contradiction.
      - intros n Hn. apply M3; [apply (here_ltS n Hn)|exact Hn].
    Qed.

    Definition p_numbS := map (fun k => (k, en k)) (keys_of secs).
    Lemma p_numb_nodupS : NoDup (map fst p_numbS).
    Proof. unfold p_numbS. rewrite map_map. cbn [fst]. rewrite map_id. destruct secs_propsS as [_ [H _]]. apply (keys_increasing secs 0 H). Qed.

    Lemma tail_frontS : exists fr, startxref_text (with_part st p last) xpos = fr ++ startxref_text (with_part st p last) xpos.
    Proof. exists []. reflexivity. Qed.
    Lemma tail_consS : exists b r, startxref_text (with_part st p last) xpos = b :: r.
    Proof. rewrite startxref_text_block. unfold sx_block. eexists. eexists. reflexivity. Qed.

    Lemma xq_h : xq_hyps a x en secs sz (p_prev prev) dec can.
    Proof.
      pose proof Hok as Hok'. unfold part_ok in Hok'. rewrite Hfmt in Hok'. destruct Hok' as [Hf [Hxin [Hw Hn]]].
      destruct secs_propsS as [S1 [S2 [S3 S4]]].
      split; [exact Hf|]. split; [exact S2|]. split; [exact S3|]. split; [exact sz_leS|]. split.
      { intros k _. pose proof (en_shapeS k) as K. destruct (en k) as [n g|off g|c i]; cbn [a_of b_of entry_fields fst snd entry_in_range].
        - destruct K as [-> K]. unfold two32. repeat split; lia.
        - destruct K as [K1 K2]. unfold u16_max in K2. unfold u32_max, two32 in *. repeat split; lia.
        - destruct K as [K1 K2]. unfold u32_max, two32 in *. repeat split; lia. }
      split.
      { destruct Hex as [n0 Hn0]. exists n0. destruct (S4 n0 Hn0) as [f [c [Hin Hr]]]. split; [apply keys_of_In; eauto|].
        rewrite (en_hereS n0 Hn0). destruct (HhereS n0 Hn0) as [[off [g E]]|[c0 [k0 [E [_ Ec]]]]]; rewrite E; cbn [a_of entry_fields fst snd].
        - destruct (ehere_atS _ _ _ E) as [tp0 [pre0 [post0 [_ [_ [_ [_ Hb]]]]]]]. pose proof (i_pos _ _ _ _ _ _ Hinv). lia.
        - destruct (find_comp_some _ _ _ _ Ec) as [s0 [Hs0 [Ec' _]]]. destruct (Hcb s0 (proj1 (conts_in p s0 Hs0))) as [C1 _].
          destruct (top_of_num _ C1) as [tp0 [Htp0 En0]]. destruct (Htb tp0 Htp0) as [B1 _]. rewrite En0, Ec' in B1. lia. }
      split; [split; assumption|]. split; [repeat split; apply Htrail|]. split.
      { destruct prev as [q|]; [right; exists q; reflexivity|left; reflexivity]. }
      destruct (xid_inS (xs_id x)) as [K1 K2]; [rewrite xid_eqS; left; reflexivity|]. split; [exact K2|].
      assert (K3 : xs_id x <= max_num (nums ++ xids)) by (apply max_num_ge; apply in_or_app; right; exact K1). lia.
    Qed.

    Lemma px_entriesS : x_entries (xq_x0 en secs sz) = spec_map p_numbS. Proof. reflexivity. Qed.

    Lemma T_eqS0 : T = body_of (p_otops p) ++ top_text (xq_top a x en secs sz (p_prev prev)) ++ startxref_text (with_part st p last) xpos.
    Proof. unfold p_text. rewrite (section_text_stream a x en secs sz xpos (p_prev prev) _ (eq_trans (s_xref_with_part st p last) Hfmt)). reflexivity. Qed.

    Lemma HparseS ext : xref_and_trailer_x dec can ((P ++ T) ++ ext) xpos = SOk (xq_x0 en secs sz, xq_t a x en secs sz (p_prev prev)).
    Proof.
      destruct (xq_all' a x en secs sz (p_prev prev) dec can xq_h) as [_ [F2 _]]. rewrite T_eqS0.
      replace ((P ++ body_of (p_otops p) ++ top_text (xq_top a x en secs sz (p_prev prev)) ++ startxref_text (with_part st p last) xpos) ++ ext)
        with ((P ++ body_of (p_otops p)) ++ top_text (xq_top a x en secs sz (p_prev prev)) ++ (startxref_text (with_part st p last) xpos ++ ext))
        by (rewrite <- !app_assoc; reflexivity).
      replace xpos with (blen (P ++ body_of (p_otops p))) by (unfold p_xpos, blen; rewrite app_length; lia).
      apply F2.
    Qed.

    Lemma Hpt_prevS : dict_get (xq_t a x en secs sz (p_prev prev)) K_Prev = match prev with Some q => Some (OInt (Z.of_N q)) | None => None end.
    Proof. destruct (xq_all' a x en secs sz (p_prev prev) dec can xq_h) as [_ [_ [F3 _]]]. rewrite F3. destruct prev; reflexivity. Qed.
    Lemma Hpt_stmS : dict_get (xq_t a x en secs sz (p_prev prev)) K_XRefStm = None.
    Proof. destruct (xq_all' a x en secs sz (p_prev prev) dec can xq_h) as [_ [_ [_ [F4 _]]]]. apply F4; try reflexivity. apply Htrail. Qed.
    Lemma pt_encS : dict_get (xq_t a x en secs sz (p_prev prev)) K_Encrypt = None.
    Proof. destruct (xq_all' a x en secs sz (p_prev prev) dec can xq_h) as [_ [_ [_ [F4 _]]]]. apply F4; try reflexivity. apply Htrail. Qed.
    Lemma pt_wfS : dict_wf (xq_t a x en secs sz (p_prev prev)).
    Proof. destruct (xq_all' a x en secs sz (p_prev prev) dec can xq_h) as [_ [_ [_ [_ [F5 _]]]]]. exact F5. Qed.
    Lemma px_typeS : x_type (xq_x0 en secs sz) = XTStream. Proof. reflexivity. Qed.

    Lemma Hxtp_okS tp : In tp xtp -> top_ok tp.
    Proof.
      rewrite xtp_eqS. intros [<-|[]]. destruct (xq_all' a x en secs sz (p_prev prev) dec can xq_h) as [F1 _]. exact F1.
    Qed.

    Lemma pt_sizeS : dict_get (xq_t a x en secs sz (p_prev prev)) Xref.K_Size = Some (OInt (Z.of_N sz)).
    Proof. destruct (xq_all' a x en secs sz (p_prev prev) dec can xq_h) as [_ [_ [_ [_ [_ [_ [_ [_ F9]]]]]]]]. exact F9. Qed.

    Lemma pt_srcS : trailer_src (xq_t a x en secs sz (p_prev prev)).
    Proof.
      split; [exact pt_wfS|]. exists (xq_d a x en secs sz (p_prev prev)), (i_obj (xs_istyle x)).
      pose proof xq_h as Hh. destruct Hh as [_ [_ [_ [_ [_ [_ [[Hw _] _]]]]]]]. split; [exact Hw|].
      destruct (xq_all' a x en secs sz (p_prev prev) dec can xq_h) as [_ [_ [_ [_ [_ [_ [F7 [F8 _]]]]]]]].
      intros k Hk. split.
      - apply F7. unfold xq_tkey.
        rewrite (excl_beq' k Xref.K_Index Hk), (excl_beq' k Xref.K_W Hk), (excl_beq' k Obj.K_Length Hk), (excl_beq' k K_Filter Hk),
          (excl_beq' k K_DecodeParms Hk) by (cbn; tauto). reflexivity.
      - rewrite F8; [|first [apply (excl_beq _ k Hk)|apply (excl_beq' k _ Hk)]; cbn; tauto ..].
        destruct (dict_get (a_trailer a) k); [reflexivity|].
        destruct prev; cbn [p_prev dict_get]; [rewrite (excl_beq K_PrevW k Hk) by (cbn; tauto)|]; reflexivity.
    Qed.

    (* ---------- generic from here: the invariant after this part ---------- *)
    Lemma xget_p_casesS n :
      (In n (keys_of secs) /\ xget (x_entries (xq_x0 en secs sz)) n = entry_meaning (en n)) \/ (~ In n (keys_of secs) /\ xget (x_entries (xq_x0 en secs sz)) n = None).
    Proof.
      rewrite px_entriesS.
      destruct (in_dec N.eq_dec n (keys_of secs)) as [Hin|Hn]; [left|right]; (split; [assumption|]).
      - apply (xget_spec_map p_numbS n (en n) p_numb_nodupS). unfold p_numbS. apply in_map_iff. exists n. split; [reflexivity|exact Hin].
      - unfold spec_map. rewrite xget_spec_map_absent; [reflexivity|].
        unfold p_numbS. rewrite map_map. cbn [fst]. rewrite map_id. exact Hn.
    Qed.

    Lemma px_sortedS : C07Bytes.xincr 0 (x_entries (xq_x0 en secs sz)).
    Proof. rewrite px_entriesS. apply spec_map_sorted. exact I. Qed.

    Lemma xpos_ltS : xpos < blen (P ++ T).
    Proof.
      rewrite T_eqS. destruct tail_consS as [b [r ->]]. unfold p_xpos, blen. rewrite body_of_app, !app_length. cbn [length]. lia.
    Qed.

    Lemma PT_frontS : exists front, P ++ T = front ++ startxref_text (with_part st p last) xpos /\ xpos <= blen front.
    Proof.
      destruct tail_frontS as [fr E]. exists (P ++ body_of (p_otops p ++ xtp) ++ fr). rewrite T_eqS. rewrite E at 1. split; [rewrite <- !app_assoc; reflexivity|].
      unfold p_xpos, blen. rewrite body_of_app, !app_length. lia.
    Qed.

    Notation chain' := ((xpos, ((xq_x0 en secs sz), (xq_t a x en secs sz (p_prev prev)))) :: chain).

    Lemma fe_stepS n : fe chain' n = if p_here p pos n then entry_meaning (p_ehere p pos n) else fe chain n.
    Proof.
      unfold fe. cbn [map first_entry fst snd]. change (first_entry (map (fun s : csec => fst (snd s)) chain) n) with (fe chain n).
      destruct (p_here p pos n) eqn:Eh.
      - destruct secs_propsS as [_ [_ [_ Hc]]]. destruct (Hc n Eh) as [f [c [Hin Hr]]].
        destruct (xget_p_casesS n) as [[_ ->]|[Hn _]]; [|exfalso; apply Hn; apply keys_of_In; eauto].
        rewrite (en_hereS n Eh). destruct (HhereS n Eh) as [[off [g ->]]|[c9 [k9 [-> _]]]]; reflexivity.
      - destruct (xget_p_casesS n) as [[_ ->]|[_ ->]]; [|reflexivity].
        unfold p_entry. rewrite Eh. destruct (mem_N n (mp_relist p)).
        + pose proof (i_known _ _ _ _ _ _ Hinv n) as K. destruct (lookup_entry known n) as [e|]; [|reflexivity].
          rewrite <- K. destruct (entry_meaning e); reflexivity.
        + destruct (n =? 0); reflexivity.
    Qed.

    Lemma known_stepS n :
      lookup_entry (p_known p pos known maxnum) n = if p_here p pos n then Some (p_ehere p pos n) else lookup_entry known n.
    Proof.
      unfold p_known. rewrite (lookup_entry_map en known). destruct (p_here p pos n) eqn:Eh.
      - replace (mem_N n (filter (p_here p pos) (range_N 0 (N.to_nat sz)))) with true; [rewrite (en_hereS n Eh); reflexivity|].
        symmetry. apply mem_N_In. apply filter_In. split; [|exact Eh]. apply range_N_In. rewrite N2Nat.id. destruct (here_ltS n Eh). lia.
      - replace (mem_N n (filter (p_here p pos) (range_N 0 (N.to_nat sz)))) with false; [reflexivity|].
        symmetry. destruct (mem_N n (filter (p_here p pos) (range_N 0 (N.to_nat sz)))) eqn:E; [|reflexivity].
        apply mem_N_In in E. apply filter_In in E as [_ E]. congruence.
    Qed.

    Lemma inv_stepS : Inv rest (P ++ T) chain' (p_known p pos known maxnum) (sz - 1) (xtp ++ xt).
    Proof.
      assert (HPT : blen P <= blen (P ++ T)) by (unfold blen; rewrite app_length; lia).
      assert (Hmine : forall tp, In tp tops -> In (top_num tp) (mp_nums p) -> p_here p pos (top_num tp) = true).
      { intros tp Htp K. apply here_iffS. left. apply in_map. apply in_or_app. left. unfold p_mine. apply in_or_app. left.
        apply filter_In. split; [exact Htp|]. apply mem_N_In. exact K. }
      constructor.
      - (* i_nums *) intros n e H. rewrite fe_stepS in H. destruct (p_here p pos n) eqn:Eh.
        + destruct (here_ltS n Eh) as [H1 H2]. split; [exact H2|]. split; [lia|].
          destruct (HhereS n Eh) as [[off [g Ee]]|[c [k [Ee [_ Ec]]]]]; rewrite Ee in H; cbn [entry_meaning] in H; inversion H; subst e; [left; eauto|].
          right. exists c, k. split; [reflexivity|]. destruct (find_comp_some _ _ _ _ Ec) as [s [Hs [_ [Hn _]]]].
          apply (mem_comp p). unfold p_mem. apply in_flat_map. exists s. split; assumption.
        + destruct (i_nums _ _ _ _ _ _ Hinv n e H) as [H1 [H2 H3]]. split; [exact H1|]. split; [pose proof (p_size_ge p maxnum); lia|exact H3].
      - (* i_cur *) intros n off g H Hnr. rewrite fe_stepS in H. destruct (p_here p pos n) eqn:Eh.
        + destruct (HhereS n Eh) as [[off' [g' Ee]]|[c' [k' [Ee _]]]]; [|rewrite Ee in H; discriminate H].
          rewrite Ee in H. cbn [entry_meaning] in H. inversion H; subst off' g'.
          destruct (ehere_atS _ _ _ Ee) as [tp [pre [post [Hin [Ek [EP [Eoff _]]]]]]].
          apply in_app_or in Hin as [Hin|Hin].
          * destruct (mine_cases p tp Hin) as [[Ht _]|[o [g0 [o0 [Ho _]]]]].
            -- exists tp, pre, post. split; [apply in_or_app; left; exact Ht|auto].
            -- exfalso. unfold top_num in Ho. rewrite Ek in Ho. cbn [fst] in Ho. destruct (Hold _ Ho) as [K1 K2]. exact (Hnr K2 K1).
          * exists tp, pre, post. split; [apply in_or_app; right; apply in_or_app; left; exact Hin|auto].
        + assert (Hnp : In n tnums -> ~ In n (mp_nums p)).
          { intros Hn K. destruct (top_of_num n Hn) as [tp [Htp En]].
            rewrite <- En in K. pose proof (Hmine tp Htp K) as K2. rewrite En in K2. congruence. }
          destruct (i_cur _ _ _ _ _ _ Hinv n off g H) as [tp [pre [post [H1 [H2 [H3 H4]]]]]].
          { intros Hn. cbn [flat_map]. intro K. apply in_app_or in K as [K|K]; [apply (Hnp Hn); exact K|apply (Hnr Hn); exact K]. }
          exists tp, pre, (post ++ T). split; [apply in_app_or in H1 as [H1|H1]; apply in_or_app; [left; exact H1|right; apply in_or_app; right; exact H1]|].
          split; [exact H2|]. split; [rewrite H3, <- !app_assoc; reflexivity|exact H4].
      - (* i_all *) intros tp Htp Hnr. rewrite fe_stepS. destruct (p_here p pos (top_num tp)) eqn:Eh.
        + destruct (HhereS _ Eh) as [[off [g ->]]|[c [k [-> _]]]]; discriminate.
        + apply (i_all _ _ _ _ _ _ Hinv tp Htp). cbn [flat_map]. intro K. apply in_app_or in K as [K|K]; [|apply Hnr; exact K].
          pose proof (Hmine tp Htp K). congruence.
      - (* i_allx *) intros n Hn Hnr. rewrite fe_stepS. destruct (p_here p pos n) eqn:Eh.
        + destruct (HhereS _ Eh) as [[off [g ->]]|[c [k [-> _]]]]; discriminate.
        + apply (i_allx _ _ _ _ _ _ Hinv n Hn). change (part_xids (p :: rest)) with (p_xid p ++ part_xids rest). intro K.
          apply in_app_or in K as [K|K]; [|apply Hnr; exact K].
          assert (In n (map top_num (p_mine p ++ xtp))) by (rewrite map_app, xtp_numsS; apply in_or_app; right; exact K).
          pose proof (proj2 (here_iffS n) (or_introl H)). congruence.
      - (* i_known *) intro n. rewrite known_stepS, fe_stepS. destruct (p_here p pos n) eqn:Eh; [|apply (i_known _ _ _ _ _ _ Hinv)].
        reflexivity.
      - (* i_kn *) intros n e H. rewrite known_stepS in H. destruct (p_here p pos n) eqn:Eh.
        + inversion H; subst e. pose proof (en_shapeS n) as Sh. rewrite (en_hereS n Eh) in Sh.
          destruct (HhereS n Eh) as [[off [g Ee]]|[c [k [Ee _]]]]; rewrite Ee in *.
          * left. exists off, g. split; [reflexivity|]. exact Sh.
          * right. exists c, k. split; [reflexivity|]. exact Sh.
        + destruct (HknS n e H) as [[off [g [E1 [E2 E3]]]]|K]; [left; exists off, g; split; [exact E1|]; split; [lia|exact E3]|right; exact K].
      - (* i_chain *) intro ext. cbn [chain_ok]. split; [exact xpos_ltS|]. split; [apply HparseS|]. split; [exact Hpt_stmS|].
        split.
        + rewrite Hpt_prevS.
          assert (G : forall c, match prev_N c with Some q => Some (OInt (Z.of_N q)) | None => None end = prev_of c)
            by (intros [|[off [x0 t0]] r]; reflexivity).
          apply G.
        + rewrite <- app_assoc. apply (chain_ok_weaken dec can _ chain (blen P)); [unfold p_xpos; lia|apply (i_chain _ _ _ _ _ _ Hinv)].
      - (* i_max *) unfold p_size. pose proof sz_boundS. lia.
      - (* i_xt *) intros tp Htp. apply in_app_or in Htp as [Htp|Htp]; [|apply (i_xt _ _ _ _ _ _ Hinv tp Htp)].
        split; [apply Hxtp_okS; exact Htp|]. apply (xid_inS (top_num tp)). rewrite <- xtp_numsS. apply in_map. exact Htp.
      - (* i_pos *) pose proof (i_pos _ _ _ _ _ _ Hinv). lia.
      - (* i_mem *) intros s n Hs Hn Hnr. rewrite fe_stepS.
        assert (Hc : In n comp) by (unfold compressed_nums; apply in_flat_map; exists s; split; assumption).
        destruct (in_dec N.eq_dec (os_id s) (mp_nums p)) as [Hin|Hnin].
        + assert (Hsc : In s (p_conts p)) by (unfold p_conts, part_containers; apply filter_In; split; [exact Hs|apply mem_N_In; exact Hin]).
          assert (Hm : In n (p_mem p)) by (unfold p_mem; apply in_flat_map; exists s; split; assumption).
          rewrite (mem_hereS n Hm). destruct (HhereS n (mem_hereS n Hm)) as [[off [g Ee]]|[c [k [Ee [_ Ec]]]]].
          * exfalso. apply (mem_not_mineS n Hc). destruct (ehere_inuseS _ _ _ Ee) as [pre [tp [post [Eo [Ek _]]]]].
            apply in_map_iff. exists tp. split; [unfold top_num; rewrite Ek; reflexivity|]. apply otop_mineS. rewrite Eo. apply in_or_app. right. left. reflexivity.
          * rewrite Ee. cbn [entry_meaning]. destruct (find_comp_some _ _ _ _ Ec) as [s' [Hs' [Ec' [Hn' _]]]].
            rewrite (member_unique s s' n Hs (proj1 (conts_in p s' Hs')) Hn Hn'). rewrite Ec'. exists k. reflexivity.
        + replace (p_here p pos n) with false.
          * apply (i_mem _ _ _ _ _ _ Hinv s n Hs Hn). cbn [flat_map]. intro K. apply in_app_or in K as [K|K]; [exact (Hnin K)|exact (Hnr K)].
          * symmetry. destruct (p_here p pos n) eqn:Eh; [|reflexivity]. exfalso. apply here_iffS in Eh as [Eh|Eh]; [exact (mem_not_mineS n Hc Eh)|].
            unfold p_mem in Eh. apply in_flat_map in Eh as [s' [Hs' Hn']].
            rewrite <- (member_unique s s' n Hs (proj1 (conts_in p s' Hs')) Hn Hn') in Hs'. exact (Hnin (proj2 (conts_in p s Hs'))).
    Qed.
    Lemma part_resultS :
      Inv rest (P ++ T) chain' (p_known p pos known maxnum) (sz - 1) (xtp ++ xt) /\ C07Bytes.xincr 0 (x_entries (xq_x0 en secs sz)) /\
      (exists front, P ++ T = front ++ startxref_text (with_part st p last) xpos /\ xpos <= blen front) /\
      dict_get (dict_swap_remove (xq_t a x en secs sz (p_prev prev)) K_Prev) K_XRefStm = None /\ dict_has (dict_swap_remove (xq_t a x en secs sz (p_prev prev)) K_Prev) K_Encrypt = false /\
      trailer_src (xq_t a x en secs sz (p_prev prev)) /\ dict_get (xq_t a x en secs sz (p_prev prev)) Xref.K_Size = Some (OInt (Z.of_N sz)).
    Proof.
      split; [exact inv_stepS|]. split; [exact px_sortedS|]. split; [exact PT_frontS|]. split; [|split; [|split; [exact pt_srcS|exact pt_sizeS]]].
      - rewrite dict_get_swap_remove_other; [exact Hpt_stmS|exact pt_wfS|intro E; discriminate E].
      - unfold dict_has. rewrite dict_get_swap_remove_other; [rewrite pt_encS; reflexivity|exact pt_wfS|intro E; discriminate E].
    Qed.
  End PartS.
  (* END-PARTS *)

  (* ====================================================================================================
     Part 3: all parts
     ==================================================================================================== *)
  Lemma part_defines_eq p : part_defines st p = mp_nums p ++ p_mem p.
  Proof. reflexivity. Qed.

  Lemma defines_top : forall l n, In n (flat_map (part_defines st) l) -> In n tnums -> In n (flat_map mp_nums l).
  Proof.
    induction l as [|p l IH]; intros n H Ht; [contradiction|]. cbn [flat_map] in *. apply in_app_or in H as [H|H]; apply in_or_app.
    - rewrite part_defines_eq in H. apply in_app_or in H as [H|H]; [left; exact H|]. exfalso. exact (top_not_comp n Ht (mem_comp p n H)).
    - right. apply IH; assumption.
  Qed.

  Lemma parts_inv : forall parts P chain known maxnum xt r,
    parts_ok parts (blen P) (prev_N chain) known maxnum -> Inv parts P chain known maxnum xt ->
    write_parts st a tops parts (blen P) (prev_N chain) known maxnum = Some r ->
    blen (P ++ r) <= u32_max ->
    exists chainF knownF maxF xtF, Inv [] (P ++ r) chainF knownF maxF xtF /\
      (parts <> [] -> exists xs x0 t0 cr lastp front,
         chainF = (xs, (x0, t0)) :: cr /\ C07Bytes.xincr 0 (x_entries x0) /\ last_part parts = Some lastp /\
         P ++ r = front ++ startxref_text (with_part st lastp true) xs /\ xs <= blen front /\
         match parts with p :: _ => p_xpos p (blen P) <= xs | [] => True end /\
         dict_get (dict_swap_remove t0 K_Prev) K_XRefStm = None /\ dict_has (dict_swap_remove t0 K_Prev) K_Encrypt = false /\
         trailer_src t0 /\ dict_get t0 Xref.K_Size = Some (OInt (Z.of_N (maxF + 1))) /\ sx_win (with_part st lastp true) xs).
  Proof.
    induction parts as [|p rest IH]; intros P chain known maxnum xt r Hdom Hinv Hw HU.
    - cbn [write_parts] in Hw. inversion Hw; subst r. rewrite app_nil_r. exists chain, known, maxnum, xt. split; [exact Hinv|]. intro K. contradiction.
    - cbn [parts_ok] in Hdom. destruct Hdom as [Hok [Hpd [Hwin Hdom']]].
      rewrite (write_parts_step p rest) in Hw.
      destruct (negb (nodup_N (p_hnums p) && forallb (fun no => mem_N (fst no) (flat_map (part_defines st) rest)) (mp_old p) &&
                      Nat.eqb (length (p_olds p)) (length (mp_old p)))) eqn:C1; [discriminate Hw|].
      apply negb_false_iff in C1. apply andb_true_iff in C1 as [C1 _]. apply andb_true_iff in C1 as [C1a C1b].
      assert (Hw' : (if negb (existsb (p_here p (blen P)) (range_N 0 (N.to_nat (p_size p maxnum)))) then None
                     else match write_parts st a tops rest (blen P + N.of_nat (length (p_text p (p_last rest) (blen P) (prev_N chain) known maxnum)))
                                  (Some (p_xpos p (blen P))) (p_known p (blen P) known maxnum) (p_size p maxnum - 1) with
                          | Some r0 => Some (p_text p (p_last rest) (blen P) (prev_N chain) known maxnum ++ r0)
                          | None => None
                          end) = Some r /\ (forall t, mp_xref p = XTable t -> p_conts p = [])).
      { destruct (mp_xref p) as [t|x]; destruct (p_conts p) as [|s0 cs]; try discriminate Hw; (split; [exact Hw|]); intros t' E; try discriminate E; reflexivity. }
      clear Hw. destruct Hw' as [Hw Hnct].
      destruct (negb (existsb (p_here p (blen P)) (range_N 0 (N.to_nat (p_size p maxnum))))) eqn:C2; [discriminate Hw|].
      apply negb_false_iff in C2. apply existsb_exists in C2 as [n0 [_ Hn0]].
      set (T := p_text p (p_last rest) (blen P) (prev_N chain) known maxnum) in *.
      destruct (write_parts st a tops rest (blen P + N.of_nat (length T)) (Some (p_xpos p (blen P))) (p_known p (blen P) known maxnum)
                            (p_size p maxnum - 1)) as [r'|] eqn:Hr; [|discriminate Hw].
      inversion Hw; subst r. clear Hw.
      assert (Hhn : NoDup (p_hnums p)) by (apply nodup_N_spec; exact C1a).
      assert (Hold : forall no, In no (mp_old p) -> In (fst no) (flat_map mp_nums rest) /\ In (fst no) tnums).
      { intros no Hno. rewrite forallb_forall in C1b. specialize (C1b no Hno). apply mem_N_In in C1b.
        split; [apply defines_top; [exact C1b|exact (Hpd no Hno)]|exact (Hpd no Hno)]. }
      assert (Hex : exists n, p_here p (blen P) n = true) by (exists n0; exact Hn0).
      assert (HU1 : blen (P ++ T) <= u32_max).
      { unfold blen in *. rewrite !app_length in *. lia. }
      assert (HTb : p_xpos p (blen P) <= blen (P ++ T)).
      { unfold T, p_text, p_xpos, blen. rewrite !app_length. lia. }
      assert (Hres : exists px pt xtp,
                 Inv rest (P ++ T) ((p_xpos p (blen P), (px, pt)) :: chain) (p_known p (blen P) known maxnum) (p_size p maxnum - 1) (xtp ++ xt) /\
                 C07Bytes.xincr 0 (x_entries px) /\
                 (exists front, P ++ T = front ++ startxref_text (with_part st p (p_last rest)) (p_xpos p (blen P)) /\
                                p_xpos p (blen P) <= blen front) /\
                 dict_get (dict_swap_remove pt K_Prev) K_XRefStm = None /\ dict_has (dict_swap_remove pt K_Prev) K_Encrypt = false /\
                 trailer_src pt /\ dict_get pt Xref.K_Size = Some (OInt (Z.of_N (p_size p maxnum)))).
      { destruct (mp_xref p) as [t|x] eqn:Hfmt.
        - eexists _, _, _. exact (part_resultT p t P chain known maxnum rest xt Hfmt (Hnct t eq_refl) Hhn Hinv Hex Hold Hok HU1).
        - eexists _, _, _. exact (part_resultS p x P chain known maxnum rest xt Hfmt Hhn Hinv Hex Hold Hok HU1). }
      destruct Hres as [px [pt [xtp [Hinv' [Hsort [[front [F1 F2]] [Hstm [Henc [Hsrc Hsize]]]]]]]]].
      destruct rest as [|p2 rest2].
      + cbn [write_parts] in Hr. inversion Hr; subst r'. rewrite app_nil_r.
        eexists _, _, _, _. split; [exact Hinv'|]. intros _.
        exists (p_xpos p (blen P)), px, pt, chain, p, front. split; [reflexivity|]. split; [exact Hsort|]. split; [reflexivity|].
        split; [exact F1|]. split; [exact F2|]. split; [lia|]. split; [exact Hstm|split; [exact Henc|split; [exact Hsrc|]]].
        split; [|exact (Hwin eq_refl)]. rewrite Hsize. f_equal. f_equal. f_equal. pose proof (p_size_ge p maxnum). lia.
      + assert (Epos : blen P + N.of_nat (length T) = blen (P ++ T)) by (unfold blen; rewrite app_length; lia).
        rewrite Epos in Hr, Hdom'.
        destruct (IH (P ++ T) ((p_xpos p (blen P), (px, pt)) :: chain) (p_known p (blen P) known maxnum) (p_size p maxnum - 1) (xtp ++ xt) r' Hdom' Hinv' Hr) as [cF [kF [mF [xF [I1 I2]]]]].
        { rewrite <- app_assoc. exact HU. }
        exists cF, kF, mF, xF. split; [rewrite app_assoc; exact I1|]. intros _.
        destruct I2 as [xs [x0 [t0 [cr [lastp [front' [E1 [E2 [E3 [E4 [E5 [E6 E7]]]]]]]]]]]]; [discriminate|].
        exists xs, x0, t0, cr, lastp, front'. split; [exact E1|]. split; [exact E2|]. split; [exact E3|].
        split; [rewrite app_assoc; exact E4|]. split; [exact E5|]. split; [|exact E7].
        unfold p_xpos in E6 at 1. lia.
  Qed.
End MultiOS.
