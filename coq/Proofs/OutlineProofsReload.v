(* OutlineProofsReload.v -- C17, "also after saving and reloading": composition with C01.
   C01's round trip gives back the objects up to number normalisation (save_to prints an integral
   real without a decimal point, so it is reloaded as an integer; the colour components C of an
   outline item are such reals).  The section is parameterised by that statement: a function
   [nreal] saying what each real becomes (an integer or a real), the object map of the reloaded
   document being the image of the saved one under the induced normalisation [nn], same Root, same
   number of objects.  Under these hypotheses the page enumeration is unchanged and every document
   that holds an outline reads back to the same table of contents.
   Main results: [get_pages_reload], [outline_ok_reload], [toc_reload]. *)
From LV Require Import Base.Bytes Model.Obj Model.DocQ Model.PageTree Model.Outline Model.Toc Gen.QueryC
  Spec.OutlineSpec Proofs.OutlineProofs Proofs.OutlineProofsTitle Proofs.OutlineProofsRead
  Proofs.OutlineProofsOps Proofs.OutlineProofsMain.

Local Open Scope N_scope.

Section Reload.
  Variable nreal : bytes -> obj.
  Hypothesis nreal_num : forall r, (exists z, nreal r = OInt z) \/ (exists r', nreal r = OReal r').

  (* number normalisation of an object: only reals change *)
  Fixpoint nn (o : obj) : obj :=
    match o with
    | OReal r => nreal r
    | OArr l => OArr (map nn l)
    | ODict d => ODict (map (fun kv => (fst kv, nn (snd kv))) d)
    | OStream d c => OStream (map (fun kv => (fst kv, nn (snd kv))) d) c
    | o => o
    end.
  Definition nnd (d : dict) : dict := map (fun kv => (fst kv, nn (snd kv))) d.

  Variables d d' : doc.
  Hypothesis C01_root : dict_get (d_trailer d') K_Root = dict_get (d_trailer d) K_Root.
  Hypothesis C01_objects : forall id, lookup (d_objects d') id = option_map nn (lookup (d_objects d) id).
  Hypothesis C01_count : length (d_objects d') = length (d_objects d).

  Let m := d_objects d.
  Let m' := d_objects d'.

  Ltac nreal_cases r := let z := fresh "z" in let E := fresh "E" in
    destruct (nreal_num r) as [[z E]|[z E]]; rewrite E.

  Lemma dict_get_nnd dd k : dict_get (nnd dd) k = option_map nn (dict_get dd k).
  Proof.
    induction dd as [|[k0 v0] dd IH]; [reflexivity|]. cbn [nnd map dict_get fst snd].
    destruct (bytes_eqb k0 k); [reflexivity | exact IH].
  Qed.

  Lemma dict_has_nnd dd k : dict_has (nnd dd) k = dict_has dd k.
  Proof. unfold dict_has. rewrite dict_get_nnd. destruct (dict_get dd k); reflexivity. Qed.

  Lemma is_ref_nn o : is_ref (nn o) = is_ref o.
  Proof. destruct o; try reflexivity. cbn [nn]. nreal_cases r; reflexivity. Qed.

  Lemma nn_ref o : is_ref o = true -> nn o = o.
  Proof. destruct o; try discriminate. reflexivity. Qed.

  Lemma deref_nn : forall fuel last o,
    deref_aux m' fuel last (nn o) = option_map (fun r => (fst r, nn (snd r))) (deref_aux m fuel last o).
  Proof.
    induction fuel as [|f IH]; intros last o; destruct (is_ref o) eqn:R;
      try (rewrite !deref_nonref by (rewrite ?is_ref_nn; exact R); reflexivity);
      rewrite (nn_ref o R); destruct o; try discriminate; rewrite !deref_ref;
      unfold m', m; rewrite C01_objects; destruct (lookup (d_objects d) (id, gen)) as [o1|]; try reflexivity.
    cbn [option_map]. apply IH.
  Qed.

  Lemma get_object_nn id : get_object m' id = option_map nn (get_object m id).
  Proof.
    unfold get_object, m', m. rewrite C01_objects. destruct (lookup (d_objects d) id) as [o|]; [|reflexivity].
    cbn [option_map]. unfold dereference. fold m m'. rewrite deref_nn.
    destruct (deref_aux m (N.to_nat Gen.Consts.DEREF_LIMIT) None o) as [[l o']|]; reflexivity.
  Qed.

  Lemma dict_of_nn o : match nn o with ODict x => Some x | _ => None end
                       = option_map nnd (match o with ODict x => Some x | _ => None end).
  Proof. destruct o; try reflexivity. cbn [nn]. nreal_cases r; reflexivity. Qed.

  Lemma get_dictionary_nn id : get_dictionary m' id = option_map nnd (get_dictionary m id).
  Proof.
    unfold get_dictionary. rewrite get_object_nn. destruct (get_object m id) as [o|]; [|reflexivity].
    cbn [option_map]. apply dict_of_nn.
  Qed.

  Lemma get_of_nn k : get_of m' k = option_map nnd (get_of m k).
  Proof.
    unfold get_of, m', m. rewrite C01_objects. destruct (lookup (d_objects d) (k, 0)) as [o|]; [|reflexivity].
    cbn [option_map]. apply dict_of_nn.
  Qed.

  Lemma get_deref_nn dd k : get_deref m' (nnd dd) k = option_map nn (get_deref m dd k).
  Proof.
    unfold get_deref. rewrite dict_get_nnd. destruct (dict_get dd k) as [o|]; [|reflexivity].
    cbn [option_map]. unfold dereference. rewrite deref_nn.
    destruct (deref_aux m (N.to_nat Gen.Consts.DEREF_LIMIT) None o) as [[l o']|]; reflexivity.
  Qed.

  Lemma get_type_nnd dd : get_type (nnd dd) = get_type dd.
  Proof.
    unfold get_type. rewrite dict_get_nnd, dict_has_nnd. destruct (dict_get dd K_Type) as [o|]; [|reflexivity].
    cbn [option_map]. destruct o; try reflexivity. cbn [nn]. nreal_cases r; reflexivity.
  Qed.

  Lemma node_type_nn id : node_type m' id = node_type m id.
  Proof.
    unfold node_type. rewrite get_dictionary_nn. destruct (get_dictionary m id) as [dd|]; [|reflexivity].
    cbn [option_map]. rewrite get_type_nnd. reflexivity.
  Qed.

  Lemma kids_of_nn id : kids_of m' id = map nn (kids_of m id).
  Proof.
    unfold kids_of. rewrite get_dictionary_nn. destruct (get_dictionary m id) as [dd|]; [|reflexivity].
    cbn [option_map]. rewrite get_deref_nn. destruct (get_deref m dd K_Kids) as [o|]; [|reflexivity].
    cbn [option_map]. destruct o; try reflexivity. cbn [nn]. nreal_cases r; reflexivity.
  Qed.

  Lemma pop_nonempty_nn : forall st kids,
    pop_nonempty (map nn kids) (map (map nn) st) =
    option_map (fun x => (nn (fst (fst x)), map nn (snd (fst x)), map (map nn) (snd x))) (pop_nonempty kids st).
  Proof.
    induction st as [|s st IH]; intros [|k rest]; cbn [map pop_nonempty]; try reflexivity.
    apply IH.
  Qed.

  Lemma push_rest_nn rest st : push_rest (map nn rest) (map (map nn) st) = map (map nn) (push_rest rest st).
  Proof. destruct rest; reflexivity. Qed.

  Lemma iter_nn : forall limit kids st, iter limit m' (map nn kids) (map (map nn) st) = iter limit m kids st.
  Proof.
    induction limit as [|l IH]; intros kids st; [reflexivity|].
    cbn [iter]. rewrite pop_nonempty_nn. destruct (pop_nonempty kids st) as [[[kid rest] st1]|]; [|reflexivity].
    cbn [option_map fst snd].
    destruct (is_ref kid) eqn:R.
    - rewrite (nn_ref kid R). destruct kid; try discriminate.
      rewrite node_type_nn. destruct (node_type m (id, gen)).
      + rewrite IH. reflexivity.
      + rewrite map_length, kids_of_nn, push_rest_nn, !IH. reflexivity.
      + apply IH.
    - assert (Rn : is_ref (nn kid) = false) by (rewrite is_ref_nn; exact R).
      destruct (nn kid); try discriminate; destruct kid; try discriminate; apply IH.
  Qed.

  Lemma catalog_nn : catalog d' = option_map nnd (catalog d).
  Proof.
    unfold catalog. rewrite C01_root. destruct (dict_get (d_trailer d) K_Root) as [[]|]; try reflexivity.
    apply get_dictionary_nn.
  Qed.

  Theorem get_pages_reload : get_pages d' = get_pages d.
  Proof.
    unfold get_pages, page_iter. rewrite catalog_nn. destruct (catalog d) as [cat|]; [|reflexivity].
    cbn [option_map]. rewrite dict_get_nnd. destruct (dict_get cat K_Pages) as [o|]; [|reflexivity].
    cbn [option_map]. destruct (is_ref o) eqn:R.
    - rewrite (nn_ref o R). destruct o; try discriminate.
      rewrite C01_count. fold m m'. rewrite kids_of_nn.
      change (@nil (list obj)) with (map (map nn) []). rewrite iter_nn. reflexivity.
    - assert (Rn : is_ref (nn o) = false) by (rewrite is_ref_nn; exact R).
      destruct (nn o); try discriminate; destruct o; try discriminate; reflexivity.
  Qed.

  (* ---------- the outline objects ---------- *)
  Lemma item_ok_nn dd p prev next info bd kids :
    item_ok dd p prev next info bd kids -> item_ok (nnd dd) p prev next info bd kids.
  Proof.
    intros []. constructor; rewrite dict_get_nnd;
      match goal with H : dict_get dd ?k = _ |- context [dict_get dd ?k] => rewrite H end;
      try reflexivity.
    - destruct prev; reflexivity.
    - destruct next; reflexivity.
    - destruct (head_id kids); reflexivity.
    - destruct (last_id kids); reflexivity.
    - destruct kids; reflexivity.
  Qed.

  Lemma action_ok_nn a bd : action_ok a bd -> action_ok (nnd a) bd.
  Proof. intros [Hs Hd]. constructor; rewrite dict_get_nnd; [rewrite Hs | rewrite Hd]; reflexivity. Qed.

  Lemma items_ok_nn p prev l : items_ok (get_of m) p prev l -> items_ok (get_of m') p prev l.
  Proof.
    induction 1 as [|parent prev id info bd kids rest dd a Hd Hi Ha Hao Hk IHk Hr IHr]; [constructor|].
    apply (IO_cons _ parent prev id info bd kids rest (nnd dd) (nnd a)).
    - rewrite get_of_nn, Hd. reflexivity.
    - apply item_ok_nn. exact Hi.
    - rewrite get_of_nn, Ha. reflexivity.
    - apply action_ok_nn. exact Hao.
    - exact IHk.
    - exact IHr.
  Qed.

  Theorem outline_ok_reload root f : outline_ok (get_of m) root f -> outline_ok (get_of m') root f.
  Proof.
    intros [Hitems [od [Hod [H1 [H2 [H3 [H4 [H5 H6]]]]]]]]. constructor; [apply items_ok_nn; exact Hitems|].
    exists (nnd od). split; [rewrite get_of_nn, Hod; reflexivity|].
    rewrite !dict_get_nnd, H1, H2, H3, H4, H5, H6.
    repeat split; try reflexivity; [destruct (head_id f) | destruct (last_id f)]; reflexivity.
  Qed.

  (* ---------- the table of contents after the round trip ---------- *)
  Theorem toc_reload cat root (f : list otree) fuel :
    catalog d = Some cat ->
    dict_get cat K_Outlines = Some (ORef root 0) ->
    no_name_trees cat ->
    outline_ok (get_of m) root f ->
    f <> [] ->
    (ofsize f <= fuel)%nat ->
    (ofsize f <= S (length m))%nat ->
    N.of_nat (ofheight f) <= OUTLINE_DEPTH_LIMIT + 1 ->
    NoDup (map row_key (flat_map (orows 1) f)) ->
    Forall (row_ok (get_pages d)) (flat_map (orows 1) f) ->
    get_toc fuel d' = TOk (map (entry_of (get_pages d)) (flat_map (orows 1) f)) 0 /\
    get_toc fuel d' = get_toc fuel d.
  Proof.
    intros Hcat Hout [Hn1 Hn2] Hok Hne Hfuel Hbud Hdeep Hnd Hrows.
    assert (E : get_toc fuel d' = TOk (map (entry_of (get_pages d)) (flat_map (orows 1) f)) 0).
    { rewrite <- get_pages_reload.
      apply (toc_of_outline d' (nnd cat) root f fuel).
      - rewrite catalog_nn, Hcat. reflexivity.
      - rewrite dict_get_nnd, Hout. reflexivity.
      - split; rewrite dict_get_nnd; [rewrite Hn1 | rewrite Hn2]; reflexivity.
      - apply outline_ok_reload. exact Hok.
      - exact Hne.
      - exact Hfuel.
      - fold m'. unfold m'. rewrite C01_count. exact Hbud.
      - exact Hdeep.
      - exact Hnd.
      - rewrite get_pages_reload. exact Hrows. }
    split; [exact E|]. rewrite E. symmetry.
    apply (toc_of_outline d cat root f fuel); try assumption. split; assumption.
  Qed.

  Theorem holds_reload root f : holds_outline d root f -> holds_outline d' root f.
  Proof.
    intros [cat [H1 [H2 [[Hn1 Hn2] [H4 [H5 H6]]]]]]. exists (nnd cat).
    split; [rewrite catalog_nn, H1; reflexivity|].
    split; [rewrite dict_get_nnd, H2; reflexivity|].
    split; [split; rewrite dict_get_nnd; [rewrite Hn1 | rewrite Hn2]; reflexivity|].
    split; [apply outline_ok_reload; exact H4|].
    split; [exact H5|]. rewrite C01_count. exact H6.
  Qed.
End Reload.

(* ---------- add_bookmark calls, build_outline, attach, save + reload, get_toc ---------- *)
Theorem reads_back_ops_reload nreal d ops cid rid cat fuel2 d' :
  (forall r, (exists z, nreal r = OInt z) \/ (exists r', nreal r = OReal r')) ->
  let b := add_all (fresh_bdoc d) ops in
  let f := forest_of_ops (map sop_of ops) in
  let m0 := d_max_id d in
  f <> [] ->
  max_id_bounds d ->
  m0 + 1 + 2 * N.of_nat (fsize f) < U32_LIMIT ->
  root_id d = Some cid ->
  get_object_mut_id (d_objects d) cid = Some (rid, ODict cat) ->
  no_name_trees cat ->
  distinct_titles f -> scalar_titles f ->
  N.of_nat (fheight f) <= OUTLINE_DEPTH_LIMIT + 1 ->
  (fsize f <= fuel2)%nat ->
  exists b',
    build_outline (default_fuel b) b = OOk (Some (m0 + 1, 0), b') /\
    let d2 := attach (base b') cid (m0 + 1, 0) in
    (* the C01 round-trip statement for d2 and the reloaded document d' *)
    dict_get (d_trailer d') K_Root = dict_get (d_trailer d2) K_Root ->
    (forall id, lookup (d_objects d') id = option_map (nn nreal) (lookup (d_objects d2) id)) ->
    length (d_objects d') = length (d_objects d2) ->
    targets_are_pages d2 f ->
    get_pages d' = get_pages d2 /\ get_toc fuel2 d' = TOk (expected_toc d2 f) 0.
Proof.
  intros Hnum b f m0 Hne Hmax Hlim Hroot Hcat Hnn Hdist Hscal Hdeep Hfuel2.
  destruct (add_all_repr d ops) as [Hbase [Hroots [Htr Hdf]]]. fold b f in Hbase, Hroots, Htr, Hdf.
  rewrite Hdf.
  pose proof (build_holds b f cid rid cat (S (length ops)) Hroots Hne Htr) as H.
  cbv zeta in H. rewrite Hbase in H. fold m0 in H.
  destruct (H Hmax Hlim Hroot Hcat Hnn (forest_height ops)) as [b' [f' [Hn [Hbuild Hholds]]]].
  exists b'. split; [exact Hbuild|]. intros d2 C1 C2 C3 Htargets.
  pose proof (get_pages_reload nreal Hnum d2 d' C1 C2 C3) as Hpages.
  split; [exact Hpages|].
  destruct (numbered_conditions _ _ _ _ fuel2 Hn Hdist Hscal Hdeep Hfuel2) as [Hrows [K1 [K2 K3]]].
  unfold expected_toc. rewrite <- Hrows, <- Hpages.
  apply (toc_of_holds d' (m0 + 1) f' fuel2 (holds_reload nreal Hnum d2 d' C1 C2 C3 _ _ Hholds) K1 K2 K3).
  rewrite Hpages, Hrows. apply rows_ok; assumption.
Qed.

(* ====================================================================================================
   The same with named destinations (Model/TocNamed.v): under the exact round-trip statement (every object
   equal up to [nn], same number of objects) get_named_destinations walks the same tree to the same outcome --
   [nn] changes no reference, string, array or dictionary shape and the kid budget is objects.len() --, so the
   reloaded document is readable iff the saved one is, and the table of contents is the same.
   ==================================================================================================== *)
From LV Require Model.Query Model.TocNamed Proofs.OutlineProofsNamed.

Section ReloadNamed.
  Import Model.Query.
  Variable nreal : bytes -> obj.
  Hypothesis nreal_num : forall r, (exists z, nreal r = OInt z) \/ (exists r', nreal r = OReal r').
  Variables d d' : doc.
  Hypothesis C01_root : dict_get (d_trailer d') K_Root = dict_get (d_trailer d) K_Root.
  Hypothesis C01_objects : forall id, lookup (d_objects d') id = option_map (nn nreal) (lookup (d_objects d) id).
  Hypothesis C01_count : length (d_objects d') = length (d_objects d).

  Let m := d_objects d.
  Let m' := d_objects d'.
  Notation nn' := (nn nreal).
  Notation nnd' := (nnd nreal).

  Ltac nreal_cases r := let z := fresh "z" in let E := fresh "E" in
    destruct (nreal_num r) as [[z E]|[z E]]; rewrite E.

  Definition nmn (nm : nmap) : nmap :=
    map (fun kv : bytes * dest => (fst kv, (nn' (fst (fst (snd kv))), nn' (snd (fst (snd kv))), nn' (snd (snd kv))))) nm.

  Lemma nm_insert_nn nm k t p ty : nm_insert (nmn nm) k (nn' t, nn' p, nn' ty) = nmn (nm_insert nm k (t, p, ty)).
  Proof.
    induction nm as [|[k0 [[t0 p0] ty0]] nm IH]; [reflexivity|].
    cbn [nmn map nm_insert fst snd]. destruct (bytes_eqb k0 k); [reflexivity|].
    cbn [map fst snd]. f_equal. exact IH.
  Qed.

  Lemma nm_get_nn nm k :
    nm_get (nmn nm) k = option_map (fun v : dest => (nn' (fst (fst v)), nn' (snd (fst v)), nn' (snd v))) (nm_get nm k).
  Proof.
    induction nm as [|[k0 [[t0 p0] ty0]] nm IH]; [reflexivity|].
    cbn [nmn map nm_get fst snd]. destruct (bytes_eqb k0 k); [reflexivity | exact IH].
  Qed.

  Lemma nd_entry_nn nm key arr : nd_entry (nmn nm) (nn' key) (map nn' arr) = option_map nmn (nd_entry nm key arr).
  Proof.
    destruct arr as [|a0 [|a1 arr]]; try reflexivity. cbn [map nd_entry].
    destruct key; try reflexivity.
    - cbn [nn]. nreal_cases r; reflexivity.
    - cbn [nn option_map]. f_equal. apply (nm_insert_nn nm s (OStr s hex) a0 a1).
  Qed.

  Lemma nd_from_dict_nn nm key dd : nd_from_dict (nmn nm) (nn' key) (nnd' dd) = option_map nmn (nd_from_dict nm key dd).
  Proof.
    unfold nd_from_dict. rewrite (dict_get_nnd nreal). destruct (dict_get dd Q_D) as [o|]; [|reflexivity].
    cbn [option_map]. destruct o; try reflexivity.
    - cbn [nn]. nreal_cases r; reflexivity.
    - cbn [nn]. apply nd_entry_nn.
  Qed.

  Lemma nd_names_nn : forall l nm,
    nd_names m' (map nn' l) (nmn nm) = (nmn (fst (nd_names m l nm)), snd (nd_names m l nm)).
  Proof.
    fix IH 1. intros [|key [|val l]] nm; try reflexivity.
    cbn [map nd_names].
    assert (Step : forall (st : option nmap),
              match option_map nmn st with Some nm' => nd_names m' (map nn' l) nm' | None => (nmn nm, false) end
              = (nmn (fst (match st with Some nm' => nd_names m l nm' | None => (nm, false) end)),
                 snd (match st with Some nm' => nd_names m l nm' | None => (nm, false) end))).
    { intros [nm1|]; [cbn [option_map]; apply IH | reflexivity]. }
    destruct val; cbn [nn]; try exact (Step (Some nm)).
    - nreal_cases r; exact (Step (Some nm)).
    - pose proof (Step (nd_from_dict nm key d0)) as S1. rewrite <- (nd_from_dict_nn nm key d0) in S1. exact S1.
    - unfold m', m. rewrite (get_dictionary_nn nreal nreal_num d d' C01_objects).
      destruct (get_dictionary (d_objects d) (id, gen)) as [dd|]; cbn [option_map].
      + pose proof (Step (nd_from_dict nm key dd)) as S1. rewrite <- (nd_from_dict_nn nm key dd) in S1. exact S1.
      + rewrite (get_object_nn nreal nreal_num d d' C01_objects).
        destruct (get_object (d_objects d) (id, gen)) as [o|]; cbn [option_map]; [|exact (Step (Some nm))].
        destruct o; cbn [nn]; try exact (Step (Some nm)).
        * nreal_cases r; exact (Step (Some nm)).
        * pose proof (Step (nd_entry nm key l0)) as S1. rewrite <- (nd_entry_nn nm key l0) in S1. exact S1.
  Qed.

  Definition ndres_nn (r : ndres) : ndres := (nmn (fst r), snd r).

  Lemma nd_kids_nn (rec rec' : dict -> nmap -> nat -> ndres) depth :
    (forall kd nm b, rec' (nnd' kd) (nmn nm) b = ndres_nn (rec kd nm b)) ->
    forall l nm budget, nd_kids rec' m' depth (map nn' l) (nmn nm) budget = ndres_nn (nd_kids rec m depth l nm budget).
  Proof.
    intros Hrec. induction l as [|kid l IH]; intros nm budget; [reflexivity|].
    cbn [map nd_kids]. destruct kid; cbn [nn]; try apply IH.
    - nreal_cases r; apply IH.
    - unfold m', m. rewrite (get_dictionary_nn nreal nreal_num d d' C01_objects). fold m m'.
      destruct (get_dictionary m (id, gen)) as [kd|]; cbn [option_map]; [|apply IH].
      destruct budget as [|b]; [reflexivity|].
      destruct (NAME_TREE_DEPTH_LIMIT <=? depth)%N; [reflexivity|].
      rewrite Hrec. destruct (rec kd nm b) as [nm1 [b'| | |]]; cbn [ndres_nn fst snd]; try reflexivity. apply IH.
  Qed.

  Lemma nd_node_nn (rec rec' : dict -> nmap -> nat -> ndres) :
    (forall kd nm b, rec' (nnd' kd) (nmn nm) b = ndres_nn (rec kd nm b)) ->
    forall tree nm budget depth,
      nd_node rec' m' (nnd' tree) (nmn nm) budget depth = ndres_nn (nd_node rec m tree nm budget depth).
  Proof.
    intros Hrec tree nm budget depth. unfold nd_node, nd_after_kids. rewrite !(dict_get_nnd nreal).
    assert (Names : forall nm1 (b1 : nat),
      match option_map nn' (dict_get tree Q_Names) with
      | Some (OArr l) => let '(nm2, okb) := nd_names m' l (nmn nm1) in (nm2, if okb then Ok b1 else Err)
      | Some _ => (nmn nm1, Err)
      | None => (nmn nm1, Ok b1)
      end = ndres_nn match dict_get tree Q_Names with
                     | Some (OArr l) => let '(nm2, okb) := nd_names m l nm1 in (nm2, if okb then Ok b1 else Err)
                     | Some _ => (nm1, Err)
                     | None => (nm1, Ok b1)
                     end).
    { intros nm1 b1. destruct (dict_get tree Q_Names) as [o|]; [|reflexivity]. cbn [option_map].
      destruct o; cbn [nn]; try reflexivity; [nreal_cases r; reflexivity|].
      rewrite nd_names_nn. destruct (nd_names m l nm1) as [nm2 okb]. reflexivity. }
    destruct (dict_get tree K_Kids) as [o|]; cbn [option_map]; [|apply Names].
    destruct o; cbn [nn]; try reflexivity; [nreal_cases r; reflexivity|].
    rewrite (nd_kids_nn rec rec' depth Hrec).
    destruct (nd_kids rec m depth l nm budget) as [nm1 [b1| | |]]; cbn [ndres_nn fst snd]; try reflexivity.
    apply Names.
  Qed.

  Lemma nd_walk_nn : forall fuel tree nm budget depth,
    nd_walk fuel m' (nnd' tree) (nmn nm) budget depth = ndres_nn (nd_walk fuel m tree nm budget depth).
  Proof.
    induction fuel as [|f IH]; intros tree nm budget depth; [reflexivity|].
    cbn [nd_walk]. apply nd_node_nn. intros kd nm1 b. apply IH.
  Qed.

  Lemma get_dict_in_dict_nn node k :
    Toc.get_dict_in_dict m' (nnd' node) k = option_map nnd' (Toc.get_dict_in_dict m node k).
  Proof.
    unfold Toc.get_dict_in_dict. rewrite (dict_get_nnd nreal). destruct (dict_get node k) as [o|]; [|reflexivity].
    cbn [option_map]. destruct o; cbn [nn]; try reflexivity.
    - nreal_cases r; reflexivity.
    - apply (get_dictionary_nn nreal nreal_num d d' C01_objects).
  Qed.

  Lemma named_tree_nn cat : Toc.named_tree m' (nnd' cat) = option_map nnd' (Toc.named_tree m cat).
  Proof.
    unfold Toc.named_tree. rewrite get_dict_in_dict_nn. destruct (Toc.get_dict_in_dict m cat Toc.K_Dests); [reflexivity|].
    cbn [option_map]. rewrite get_dict_in_dict_nn. destruct (Toc.get_dict_in_dict m cat Toc.K_Names) as [names|]; [|reflexivity].
    cbn [option_map]. apply get_dict_in_dict_nn.
  Qed.

  Theorem readable_reload : TocNamed.name_tree_readable d' = TocNamed.name_tree_readable d.
  Proof.
    unfold TocNamed.name_tree_readable. rewrite (catalog_nn nreal nreal_num d d' C01_root C01_objects).
    destruct (catalog d) as [cat|]; [|reflexivity]. cbn [option_map].
    unfold TocNamed.named_destinations. fold m m'. rewrite named_tree_nn.
    destruct (Toc.named_tree m cat) as [tree|]; [|reflexivity]. cbn [option_map].
    unfold get_named_destinations, fuel_nd. unfold m' at 1 3. rewrite C01_count. fold m.
    pose proof (nd_walk_nn (length m + 1) tree [] (length m) 0) as W.
    change (nmn []) with (@nil (bytes * dest)) in W. rewrite W.
    destruct (nd_walk (length m + 1) m tree [] (length m) 0) as [nm [b| | |]]; reflexivity.
  Qed.

  Theorem holds_any_reload root f : holds_any d root f -> holds_any d' root f.
  Proof.
    intros [cat [H1 [H2 [H4 [H5 H6]]]]]. exists (nnd' cat).
    split; [rewrite (catalog_nn nreal nreal_num d d' C01_root C01_objects), H1; reflexivity|].
    split; [rewrite (dict_get_nnd nreal), H2; reflexivity|].
    split; [apply (outline_ok_reload nreal nreal_num d d' C01_objects); exact H4|].
    split; [exact H5|]. rewrite C01_count. exact H6.
  Qed.
End ReloadNamed.

(* add_bookmark calls, build_outline, attach, save + reload, get_toc -- ANY catalog *)
Theorem reads_back_ops_reload_nm nreal d ops cid rid cat fuel2 d' :
  (forall r, (exists z, nreal r = OInt z) \/ (exists r', nreal r = OReal r')) ->
  let b := add_all (fresh_bdoc d) ops in
  let f := forest_of_ops (map sop_of ops) in
  let m0 := d_max_id d in
  f <> [] ->
  max_id_bounds d ->
  m0 + 1 + 2 * N.of_nat (fsize f) < U32_LIMIT ->
  root_id d = Some cid ->
  get_object_mut_id (d_objects d) cid = Some (rid, ODict cat) ->
  distinct_titles f -> scalar_titles f ->
  N.of_nat (fheight f) <= OUTLINE_DEPTH_LIMIT + 1 ->
  (fsize f <= fuel2)%nat ->
  exists b',
    build_outline (default_fuel b) b = OOk (Some (m0 + 1, 0), b') /\
    let d2 := attach (base b') cid (m0 + 1, 0) in
    dict_get (d_trailer d') K_Root = dict_get (d_trailer d2) K_Root ->
    (forall id, lookup (d_objects d') id = option_map (nn nreal) (lookup (d_objects d2) id)) ->
    length (d_objects d') = length (d_objects d2) ->
    targets_are_pages d2 f ->
    get_pages d' = get_pages d2 /\ TocNamed.get_toc fuel2 d' = OutlineProofsNamed.toc_or_err d2 f.
Proof.
  intros Hnum b f m0 Hne Hmax Hlim Hroot Hcat Hdist Hscal Hdeep Hfuel2.
  destruct (add_all_repr d ops) as [Hbase [Hroots [Htr Hdf]]]. fold b f in Hbase, Hroots, Htr, Hdf.
  rewrite Hdf.
  pose proof (build_holds_any b f cid rid cat (S (length ops)) Hroots Hne Htr) as H.
  cbv zeta in H. rewrite Hbase in H. fold m0 in H.
  destruct (H Hmax Hlim Hroot Hcat (forest_height ops)) as [b' [f' [Hn [Hbuild [Hholds _]]]]].
  exists b'. split; [exact Hbuild|]. intros d2 C1 C2 C3 Htargets.
  pose proof (get_pages_reload nreal Hnum d2 d' C1 C2 C3) as Hpages.
  split; [exact Hpages|].
  destruct (numbered_conditions _ _ _ _ fuel2 Hn Hdist Hscal Hdeep Hfuel2) as [Hrows [K1 [K2 K3]]].
  unfold OutlineProofsNamed.toc_or_err, expected_toc.
  rewrite <- (readable_reload nreal Hnum d2 d' C1 C2 C3), <- Hrows, <- Hpages.
  apply (OutlineProofsNamed.toc_of_holds_any d' (m0 + 1) f' fuel2 (holds_any_reload nreal Hnum d2 d' C1 C2 C3 _ _ Hholds) K1 K2 K3).
  rewrite Hpages, Hrows. apply rows_ok; assumption.
Qed.
