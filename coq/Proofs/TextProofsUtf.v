(* TextProofsUtf.v -- UTF-16 and UTF-8 round trips over ALL scalar values, by arithmetic
   (no enumeration). *)
From LV Require Import Base.Bytes Model.Utf.
Local Open Scope N_scope.

Ltac Zify.zify_post_hook ::= Z.to_euclidean_division_equations.

Lemma is_scalar_spec c : is_scalar c <-> (c < 0xD800 \/ (0xDFFF < c /\ c < 0x110000)).
Proof.
  unfold is_scalar, is_scalarb, is_surrogate.
  rewrite andb_true_iff, negb_true_iff, andb_false_iff, N.ltb_lt, !N.leb_gt. lia.
Qed.

Lemma not_surrogate c : c < 0xD800 \/ 0xDFFF < c -> is_surrogate c = false.
Proof.
  intro H. unfold is_surrogate. apply andb_false_iff. rewrite !N.leb_gt. lia.
Qed.

Lemma surrogate_true c : 0xD800 <= c <= 0xDFFF -> is_surrogate c = true.
Proof.
  intro H. unfold is_surrogate. apply andb_true_iff. rewrite !N.leb_le. lia.
Qed.

(* ---------------- UTF-16 ---------------- *)

Lemma utf16_decode_char c r :
  is_scalar c -> utf16_decode (utf16_encode_char c ++ r) = option_map (cons c) (utf16_decode r).
Proof.
  intro H. apply is_scalar_spec in H. unfold utf16_encode_char.
  destruct (N.ltb_spec c 0x10000) as [Hlt|Hge].
  - cbn [app utf16_decode]. rewrite not_surrogate by lia. reflexivity.
  - set (hi := 0xD800 + (c - 0x10000) / 1024). set (lo := 0xDC00 + (c - 0x10000) mod 1024).
    assert (Hhi : 0xD800 <= hi < 0xDC00) by (subst hi; lia).
    assert (Hlo : 0xDC00 <= lo <= 0xDFFF) by (subst lo; lia).
    assert (Hc : 0x10000 + (hi - 0xD800) * 1024 + (lo - 0xDC00) = c) by (subst hi lo; lia).
    cbn [app utf16_decode].
    rewrite (surrogate_true hi) by lia. cbn [negb].
    replace (hi <? 0xDC00) with true by (symmetry; apply N.ltb_lt; lia).
    replace ((0xDC00 <=? lo) && (lo <=? 0xDFFF)) with true
      by (symmetry; apply andb_true_iff; rewrite !N.leb_le; lia).
    rewrite Hc. reflexivity.
Qed.

Theorem utf16_rt : forall s, ustring_wf s -> utf16_decode (utf16_encode s) = Some s.
Proof.
  induction s as [|c s IH]; intro H; [reflexivity|].
  inversion H; subst. unfold utf16_encode. cbn [flat_map].
  rewrite utf16_decode_char by assumption.
  fold (utf16_encode s). rewrite IH by assumption. reflexivity.
Qed.

(* every unit of an encoded scalar value is a u16 *)
Lemma utf16_units_u16 s : ustring_wf s -> Forall (fun u => u < 0x10000) (utf16_encode s).
Proof.
  induction s as [|c s IH]; intro H; [constructor|].
  inversion H as [|? ? Hc Hs]; subst. apply is_scalar_spec in Hc.
  change (utf16_encode (c :: s)) with (utf16_encode_char c ++ utf16_encode s).
  apply Forall_app. split; [|apply IH; assumption].
  unfold utf16_encode_char. destruct (N.ltb_spec c 0x10000).
  - constructor; [assumption|constructor].
  - constructor; [lia|]. constructor; [lia|constructor].
Qed.

(* strings below U+10000 without surrogates are their own UTF-16 *)
Lemma utf16_decode_bmp us :
  Forall (fun u => is_surrogate u = false) us -> utf16_decode us = Some us.
Proof.
  induction 1 as [|u us Hu _ IH]; [reflexivity|].
  cbn [utf16_decode]. rewrite Hu. cbn [negb]. rewrite IH. reflexivity.
Qed.

Lemma utf16_encode_bmp s : Forall (fun c => c < 0x10000) s -> utf16_encode s = s.
Proof.
  induction 1 as [|c s Hc _ IH]; [reflexivity|].
  change (utf16_encode (c :: s)) with (utf16_encode_char c ++ utf16_encode s).
  rewrite IH. unfold utf16_encode_char.
  apply N.ltb_lt in Hc. rewrite Hc. reflexivity.
Qed.

(* ---------------- UTF-8 ---------------- *)

Lemma nb n : n < 256 -> N_of_byte (byte_of_N n) = n.
Proof. apply N_of_byte_of_N. Qed.

Lemma is_cont_true n : 128 <= n < 192 -> is_cont n = true.
Proof. intro H. unfold is_cont. apply andb_true_iff. rewrite N.leb_le, N.ltb_lt. lia. Qed.

Lemma ltb_true a b : a < b -> (a <? b) = true.
Proof. apply N.ltb_lt. Qed.
Lemma ltb_false a b : b <= a -> (a <? b) = false.
Proof. apply N.ltb_ge. Qed.
Lemma leb_true a b : a <= b -> (a <=? b) = true.
Proof. apply N.leb_le. Qed.

Lemma utf8_decode_char c r :
  is_scalar c -> utf8_decode (utf8_encode_char c ++ r) = option_map (cons c) (utf8_decode r).
Proof.
  intro H. apply is_scalar_spec in H. unfold utf8_encode_char.
  destruct (N.ltb_spec c 0x80) as [H1|H1].
  { cbn [app utf8_decode]. rewrite nb by lia. rewrite ltb_true by lia. reflexivity. }
  destruct (N.ltb_spec c 0x800) as [H2|H2].
  { set (b0 := 192 + c / 64). set (b1 := 128 + c mod 64).
    assert (192 <= b0 < 224) by (subst b0; lia).
    assert (128 <= b1 < 192) by (subst b1; lia).
    assert (Hc : (b0 - 192) * 64 + (b1 - 128) = c) by (subst b0 b1; lia).
    cbn [app utf8_decode]. rewrite !nb by lia.
    rewrite (ltb_false b0 128), (ltb_false b0 192), (ltb_true b0 224) by lia.
    rewrite Hc, is_cont_true, leb_true by lia. reflexivity. }
  destruct (N.ltb_spec c 0x10000) as [H3|H3].
  { set (b0 := 224 + c / 4096). set (b1 := 128 + (c / 64) mod 64). set (b2 := 128 + c mod 64).
    assert (224 <= b0 < 240) by (subst b0; lia).
    assert (128 <= b1 < 192) by (subst b1; lia).
    assert (128 <= b2 < 192) by (subst b2; lia).
    assert (Hc : (b0 - 224) * 4096 + (b1 - 128) * 64 + (b2 - 128) = c) by (subst b0 b1 b2; lia).
    cbn [app utf8_decode]. rewrite !nb by lia.
    rewrite (ltb_false b0 128), (ltb_false b0 192), (ltb_false b0 224), (ltb_true b0 240) by lia.
    rewrite Hc, !is_cont_true, leb_true, not_surrogate by lia. reflexivity. }
  { set (b0 := 240 + c / 262144). set (b1 := 128 + (c / 4096) mod 64).
    set (b2 := 128 + (c / 64) mod 64). set (b3 := 128 + c mod 64).
    assert (240 <= b0 < 248) by (subst b0; lia).
    assert (128 <= b1 < 192) by (subst b1; lia).
    assert (128 <= b2 < 192) by (subst b2; lia).
    assert (128 <= b3 < 192) by (subst b3; lia).
    assert (Hc : (b0 - 240) * 262144 + (b1 - 128) * 4096 + (b2 - 128) * 64 + (b3 - 128) = c)
      by (subst b0 b1 b2 b3; lia).
    cbn [app utf8_decode]. rewrite !nb by lia.
    rewrite (ltb_false b0 128), (ltb_false b0 192), (ltb_false b0 224), (ltb_false b0 240),
      (ltb_true b0 248) by lia.
    rewrite Hc, !is_cont_true, leb_true, ltb_true by lia. reflexivity. }
Qed.

Theorem utf8_rt : forall s, ustring_wf s -> utf8_decode (utf8_encode s) = Some s.
Proof.
  induction s as [|c s IH]; intro H; [reflexivity|].
  inversion H; subst. unfold utf8_encode. cbn [flat_map].
  rewrite utf8_decode_char by assumption.
  fold (utf8_encode s). rewrite IH by assumption. reflexivity.
Qed.

Lemma utf8_rt_app s r :
  ustring_wf s -> utf8_decode (utf8_encode s ++ r) = option_map (app s) (utf8_decode r).
Proof.
  induction s as [|c s IH]; intro H.
  - cbn. destruct (utf8_decode r); reflexivity.
  - inversion H; subst. unfold utf8_encode. cbn [flat_map]. rewrite <- app_assoc.
    rewrite utf8_decode_char by assumption. fold (utf8_encode s). rewrite IH by assumption.
    destruct (utf8_decode r); reflexivity.
Qed.

(* the first byte of an encoded non-ASCII scalar value is >= 192; of an ASCII one, itself *)
Lemma utf8_encode_char_ascii c : c < 128 -> utf8_encode_char c = [byte_of_N c].
Proof. intro H. unfold utf8_encode_char. rewrite ltb_true by lia. reflexivity. Qed.

Lemma utf8_encode_char_head c :
  is_scalar c -> 128 <= c -> exists b t, utf8_encode_char c = b :: t /\ 192 <= N_of_byte b.
Proof.
  intros H Hc. apply is_scalar_spec in H. unfold utf8_encode_char.
  rewrite (ltb_false c 0x80) by lia.
  destruct (N.ltb_spec c 0x800); [|destruct (N.ltb_spec c 0x10000)];
    eexists; eexists; (split; [reflexivity|]); rewrite nb; lia.
Qed.
