(* XrefLoadProofs.v -- C07, from the merged table to the objects: an object the table lists as Normal
   is the object read at that offset and nothing replaces it; an object the table lists as Compressed
   in container c is the member of THAT container (reader.rs as repaired by 44beb46), whatever older
   object streams hold. *)
From LV Require Import Base.Bytes Base.Sx Model.Obj Model.Save Model.XrefMerge.

Lemma oid_eqb_sym a b : oid_eqb a b = oid_eqb b a.
Proof. unfold oid_eqb. rewrite (N.eqb_sym (fst a)), (N.eqb_sym (snd a)). reflexivity. Qed.

Lemma lookup_insert m id o x :
  lookup (insert m id o) x = if oid_eqb id x then Some o else lookup m x.
Proof.
  induction m as [|[i o'] m IH]; cbn [insert lookup].
  - reflexivity.
  - destruct (oid_eqb i id) eqn:E.
    + apply oid_eqb_eq in E. subst. cbn [lookup]. destruct (oid_eqb id x); reflexivity.
    + destruct (oid_ltb id i).
      * cbn [lookup]. reflexivity.
      * cbn [lookup]. rewrite IH. destruct (oid_eqb i x) eqn:E2; [|reflexivity].
        apply oid_eqb_eq in E2. subst. rewrite oid_eqb_sym, E. reflexivity.
Qed.

Lemma lookup_or_insert m id o x :
  lookup (or_insert m id o) x =
  match lookup m x with Some v => Some v | None => if oid_eqb id x then Some o else None end.
Proof.
  unfold or_insert. destruct (lookup m id) eqn:G.
  - destruct (lookup m x) eqn:G'; [reflexivity|].
    destruct (oid_eqb id x) eqn:E; [|reflexivity]. apply oid_eqb_eq in E; subst. congruence.
  - rewrite lookup_insert. destruct (oid_eqb id x) eqn:E.
    + apply oid_eqb_eq in E; subst. rewrite G. reflexivity.
    + destruct (lookup m x); reflexivity.
Qed.

(* "only add, never replace", pointwise: the first occurrence in the added list, unless already present *)
Lemma lookup_or_insert_all l : forall m x,
  lookup (or_insert_all m l) x = match lookup m x with Some v => Some v | None => lookup l x end.
Proof.
  unfold or_insert_all. induction l as [|[i o] l IH]; intros m x; cbn [fold_left fst snd lookup].
  - destruct (lookup m x); reflexivity.
  - rewrite IH, lookup_or_insert. destruct (lookup m x); [reflexivity|].
    destruct (oid_eqb i x); reflexivity.
Qed.

Lemma lookup_filter_true (f : oid * obj -> bool) l x v :
  lookup l x = Some v -> f (x, v) = true -> (forall w, f (x, w) = f (x, v)) ->
  lookup (filter f l) x = Some v.
Proof.
  induction l as [|[i o] l IH]; cbn [lookup filter]; [discriminate|].
  intros H Hf Hall. destruct (oid_eqb i x) eqn:E.
  - apply oid_eqb_eq in E; subst i. inversion H; subst o. rewrite Hf. cbn [lookup].
    replace (oid_eqb x x) with true by (symmetry; apply oid_eqb_eq; reflexivity). reflexivity.
  - destruct (f (i, o)); [cbn [lookup]; rewrite E|]; apply IH; assumption.
Qed.

Lemma lookup_filter_false (f : oid * obj -> bool) l x :
  (forall w, f (x, w) = false) -> lookup (filter f l) x = None.
Proof.
  intro Hf. induction l as [|[i o] l IH]; cbn [lookup filter]; [reflexivity|].
  destruct (f (i, o)) eqn:F; [|exact IH]. cbn [lookup].
  destruct (oid_eqb i x) eqn:E; [|exact IH]. apply oid_eqb_eq in E; subst i. rewrite Hf in F. discriminate.
Qed.

(* pass B: a member is added only when its NUMBER is not present yet *)
Lemma has_number_insert m id o n :
  has_number (insert m id o) n = has_number m n || (fst id =? n)%N.
Proof.
  unfold has_number. induction m as [|[i o'] m IH]; cbn [insert existsb fst].
  - destruct (fst id =? n)%N; reflexivity.
  - destruct (oid_eqb i id) eqn:E.
    + clear IH. apply oid_eqb_eq in E. subst i. cbn [existsb fst].
      match goal with |- context [existsb ?f m] => generalize (existsb f m) end. intro r. destruct (fst id =? n)%N, r; reflexivity.
    + destruct (oid_ltb id i); cbn [existsb fst].
      * clear IH. match goal with |- context [existsb ?f m] => generalize (existsb f m) end. intro r.
        destruct (fst id =? n)%N, (fst i =? n)%N, r; reflexivity.
      * rewrite IH. match goal with |- context [existsb ?f m] => generalize (existsb f m) end. intro r.
        destruct (fst id =? n)%N, (fst i =? n)%N, r; reflexivity.
Qed.

Lemma lookup_has_number m n g v : lookup m (n, g) = Some v -> has_number m n = true.
Proof.
  unfold has_number. induction m as [|[i o] m IH]; cbn [lookup existsb fst]; [discriminate|].
  destruct (oid_eqb i (n, g)) eqn:E.
  - apply oid_eqb_eq in E. subst i. cbn [fst]. rewrite N.eqb_refl. reflexivity.
  - intro H. rewrite (IH H). apply orb_true_r.
Qed.

Lemma add_new_numbers_keep l : forall m x v, lookup m x = Some v -> lookup (add_new_numbers m l) x = Some v.
Proof.
  unfold add_new_numbers. induction l as [|[i o] l IH]; intros m x v Hm; cbn [fold_left fst snd]; [exact Hm|].
  apply IH. unfold add_new_number. destruct (has_number m (fst i)) eqn:Hn; [exact Hm|].
  rewrite lookup_insert. destruct (oid_eqb i x) eqn:E; [|exact Hm].
  apply oid_eqb_eq in E. subst x. destruct i as [n g]. cbn [fst] in Hn. rewrite (lookup_has_number m n g v Hm) in Hn. discriminate.
Qed.

(* no second generation: once an object of number n is present, pass B changes nothing under that number *)
Lemma add_new_numbers_number l : forall m n, has_number m n = true ->
  has_number (add_new_numbers m l) n = true /\ forall g, lookup (add_new_numbers m l) (n, g) = lookup m (n, g).
Proof.
  unfold add_new_numbers. induction l as [|[i o] l IH]; intros m n Hn; cbn [fold_left fst snd]; [split; [exact Hn | reflexivity]|].
  unfold add_new_number at 2 4. destruct (has_number m (fst i)) eqn:Hi; [apply IH; exact Hn|].
  assert (Hne : (fst i =? n)%N = false).
  { destruct (fst i =? n)%N eqn:E; [|reflexivity]. apply N.eqb_eq in E. rewrite E in Hi. congruence. }
  destruct (IH (insert m i o) n) as [K1 K2]; [rewrite has_number_insert, Hn; reflexivity|].
  split; [exact K1|]. intro g. rewrite K2, lookup_insert.
  replace (oid_eqb i (n, g)) with false; [reflexivity|]. symmetry. unfold oid_eqb. cbn [fst snd]. rewrite Hne. reflexivity.
Qed.

(* ---------- the two results of the first phase ---------- *)
Definition phase1 (L : layout) (enc : bool) (t : xmap) := fold_left (load_entry L enc) t ([], []).
Definition normals (L : layout) (enc : bool) (t : xmap) : objmap := fst (phase1 L enc t).
Definition blocks (L : layout) (enc : bool) (t : xmap) : list (N * objmap) := snd (phase1 L enc t).

(* what one table entry contributes: the object it loads, if any *)
Definition entry_object (L : layout) (enc : bool) (kv : N * xentry) : option placed :=
  match snd kv with
  | XNormal off _ =>
    if (l_buflen L <? Z.of_N off)%Z then None
    else match assocN (l_objs L) off with
         | None => None
         | Some p =>
           if is_objstm (p_obj p) && negb enc then
             match p_members p with None => None | Some _ => Some p end
           else Some p
         end
  | _ => None
  end.
Definition entry_block (L : layout) (enc : bool) (kv : N * xentry) : list (N * objmap) :=
  match entry_object L enc kv with
  | Some p => if is_objstm (p_obj p) && negb enc then
                match p_members p with Some ms => [(fst kv, ms)] | None => [] end
              else []
  | None => []
  end.

Lemma load_entry_split L enc acc kv :
  load_entry L enc acc kv =
  (match entry_object L enc kv with Some p => insert (fst acc) (p_id p) (p_obj p) | None => fst acc end,
   snd acc ++ entry_block L enc kv).
Proof.
  unfold load_entry, entry_block, entry_object. destruct acc as [m bl]. cbn [fst snd].
  destruct (snd kv) as [| |off g|c i]; try (rewrite app_nil_r; reflexivity).
  destruct (l_buflen L <? Z.of_N off)%Z; [rewrite app_nil_r; reflexivity|].
  destruct (assocN (l_objs L) off) as [p|]; [|rewrite app_nil_r; reflexivity].
  destruct (is_objstm (p_obj p) && negb enc) eqn:E.
  - destruct (p_members p) eqn:Em; cbn iota beta; rewrite ?E, ?Em, ?app_nil_r; reflexivity.
  - cbn iota beta. rewrite E, app_nil_r. reflexivity.
Qed.

Lemma phase1_blocks L enc : forall t acc,
  snd (fold_left (load_entry L enc) t acc) = snd acc ++ flat_map (entry_block L enc) t.
Proof.
  induction t as [|kv t IH]; intro acc; cbn [fold_left flat_map]; [rewrite app_nil_r; reflexivity|].
  rewrite IH, load_entry_split. cbn [snd]. rewrite app_assoc. reflexivity.
Qed.

(* an object read through a Normal entry stays unless a LATER entry of the table loads an object that
   carries the same id *)
Lemma phase1_normal L enc : forall t acc x v,
  lookup (fst acc) x = Some v ->
  (forall kv p, In kv t -> entry_object L enc kv = Some p -> p_id p <> x) ->
  lookup (fst (fold_left (load_entry L enc) t acc)) x = Some v.
Proof.
  induction t as [|kv t IH]; intros acc x v Hacc Hno; cbn [fold_left]; [exact Hacc|].
  apply IH.
  - rewrite load_entry_split. cbn [fst].
    destruct (entry_object L enc kv) as [p|] eqn:E; [|exact Hacc].
    rewrite lookup_insert. destruct (oid_eqb (p_id p) x) eqn:E2; [|exact Hacc].
    apply oid_eqb_eq in E2. exfalso. exact (Hno kv p (or_introl eq_refl) E E2).
  - intros kv' p Hin. apply Hno. right. exact Hin.
Qed.

Lemma passB_keep (f : N -> oid * obj -> bool) : forall bl m x v, lookup m x = Some v ->
  lookup (fold_left (fun m b => add_new_numbers m (filter (f (fst b)) (snd b))) bl m) x = Some v.
Proof.
  induction bl as [|b bl IH]; intros m x v Hm; cbn [fold_left]; [exact Hm|].
  apply IH. apply add_new_numbers_keep. exact Hm.
Qed.

Lemma passB_number (f : N -> oid * obj -> bool) : forall bl m n, has_number m n = true ->
  forall g, lookup (fold_left (fun m b => add_new_numbers m (filter (f (fst b)) (snd b))) bl m) (n, g) = lookup m (n, g).
Proof.
  induction bl as [|b bl IH]; intros m n Hn g; cbn [fold_left]; [reflexivity|].
  destruct (add_new_numbers_number (filter (f (fst b)) (snd b)) m n Hn) as [K1 K2].
  rewrite (IH _ n K1 g). apply K2.
Qed.

Theorem load_normal_wins : forall L enc t l1 kv l2 p,
  t = l1 ++ kv :: l2 ->
  entry_object L enc kv = Some p ->
  (forall kv' p', In kv' l2 -> entry_object L enc kv' = Some p' -> p_id p' <> p_id p) ->
  lookup (load_objects L enc t) (p_id p) = Some (p_obj p).
Proof.
  intros L enc t l1 kv l2 p -> He Hno.
  assert (H1 : lookup (normals L enc (l1 ++ kv :: l2)) (p_id p) = Some (p_obj p)).
  { unfold normals, phase1. rewrite fold_left_app. cbn [fold_left].
    apply phase1_normal; [|exact Hno].
    rewrite load_entry_split, He. cbn [fst]. rewrite lookup_insert.
    replace (oid_eqb (p_id p) (p_id p)) with true by (symmetry; apply oid_eqb_eq; reflexivity). reflexivity. }
  unfold load_objects. fold (phase1 L enc (l1 ++ kv :: l2)).
  change (fst (phase1 L enc (l1 ++ kv :: l2))) with (normals L enc (l1 ++ kv :: l2)).
  change (snd (phase1 L enc (l1 ++ kv :: l2))) with (blocks L enc (l1 ++ kv :: l2)).
  (* both passes only add *)
  assert (Keep : forall (f : N -> oid * obj -> bool) bl m x v, lookup m x = Some v ->
            lookup (fold_left (fun m b => or_insert_all m (filter (f (fst b)) (snd b))) bl m) x = Some v).
  { induction bl as [|b bl IH]; intros m x v Hm; cbn [fold_left]; [exact Hm|].
    apply IH. rewrite lookup_or_insert_all, Hm. reflexivity. }
  apply (passB_keep (fun k io => negb (named_by (l1 ++ kv :: l2) k io))).
  apply (Keep (fun k io => named_by (l1 ++ kv :: l2) k io)). exact H1.
Qed.

(* pass A over the blocks, for an id that no Normal entry produced *)
Lemma passA_named t : forall bl m x c i o b1 ms b2,
  lookup m x = None ->
  xget t (fst x) = Some (XCompressed c i) ->
  bl = b1 ++ (c, ms) :: b2 ->
  (forall b, In b b1 -> fst b <> c) ->
  lookup ms x = Some o ->
  lookup (fold_left (fun m b => or_insert_all m (filter (named_by t (fst b)) (snd b))) bl m) x = Some o.
Proof.
  intros bl m x c i o b1 ms b2 Hm Hx -> Hb1 Hms.
  assert (Keep : forall bl m v, lookup m x = Some v ->
            lookup (fold_left (fun m b => or_insert_all m (filter (named_by t (fst b)) (snd b))) bl m) x = Some v).
  { induction bl as [|b bl IH]; intros m0 v Hm0; cbn [fold_left]; [exact Hm0|].
    apply IH. rewrite lookup_or_insert_all, Hm0. reflexivity. }
  revert m Hm. induction b1 as [|b b1 IH]; intros m Hm; cbn [app fold_left].
  - apply Keep. rewrite lookup_or_insert_all, Hm. cbn [fst snd].
    apply lookup_filter_true; [exact Hms| |].
    + unfold named_by. cbn [fst]. rewrite Hx. apply N.eqb_refl.
    + intro w. unfold named_by. cbn [fst]. reflexivity.
  - apply IH.
    + intros b' Hb'. apply Hb1. right. exact Hb'.
    + rewrite lookup_or_insert_all, Hm. apply lookup_filter_false.
      intro w. unfold named_by. cbn [fst]. rewrite Hx. apply N.eqb_neq.
      intro E. apply (Hb1 b (or_introl eq_refl)). symmetry. exact E.
Qed.

(* latest wins inside object streams: the member comes from the container the merged table names, no
   matter which other object streams (older revisions) hold the same number *)
Theorem load_compressed_named : forall L enc t x c i o b1 ms b2,
  lookup (normals L enc t) x = None ->
  xget t (fst x) = Some (XCompressed c i) ->
  blocks L enc t = b1 ++ (c, ms) :: b2 ->
  (forall b, In b b1 -> fst b <> c) ->
  lookup ms x = Some o ->
  lookup (load_objects L enc t) x = Some o.
Proof.
  intros L enc t x c i o b1 ms b2 Hn Hx Hbl Hb1 Hms.
  unfold load_objects. fold (phase1 L enc t).
  change (fst (phase1 L enc t)) with (normals L enc t).
  change (snd (phase1 L enc t)) with (blocks L enc t).
  pose proof (passA_named t (blocks L enc t) (normals L enc t) x c i o b1 ms b2 Hn Hx Hbl Hb1 Hms) as HA.
  apply (passB_keep (fun k io => negb (named_by t k io))). exact HA.
Qed.

(* the objects after pass A: read through Normal entries, plus the members the table places in their container *)
Definition after_named (L : layout) (enc : bool) (t : xmap) : objmap :=
  fold_left (fun m b => or_insert_all m (filter (named_by t (fst b)) (snd b))) (blocks L enc t) (normals L enc t).

(* one generation per object number (commit "fix: ... generation ..."): when the table gives an object of number n --
   plainly or in the object stream it names --, no other generation of n is taken from any object stream *)
Theorem load_one_generation : forall L enc t n g o,
  lookup (after_named L enc t) (n, g) = Some o ->
  forall g', lookup (load_objects L enc t) (n, g') = lookup (after_named L enc t) (n, g').
Proof.
  intros L enc t n g o H g'. unfold load_objects. fold (phase1 L enc t).
  change (fst (phase1 L enc t)) with (normals L enc t).
  change (snd (phase1 L enc t)) with (blocks L enc t). fold (after_named L enc t).
  apply (passB_number (fun k io => negb (named_by t k io))). eapply lookup_has_number. exact H.
Qed.

(* the blocks are those of the table entries, in table order, keyed by the entry's object number *)
Theorem blocks_of_table : forall L enc t, blocks L enc t = flat_map (entry_block L enc) t.
Proof. intros. unfold blocks, phase1. rewrite phase1_blocks. reflexivity. Qed.
