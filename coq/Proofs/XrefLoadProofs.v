(* XrefLoadProofs.v -- C07, from the merged table to the objects: an object the table lists as Normal
   is the object read at that offset and nothing replaces it; an object the table lists as Compressed
   in container c is the member of THAT container (reader.rs as repaired by 44beb46), whatever older
   object streams hold. *)
From LV Require Import Base.Bytes Base.Sx Model.Obj Model.Save Model.XrefMerge.

Lemma oid_eqb_sym a b : oid_eqb a b = oid_eqb b a.
Proof. unfold oid_eqb. rewrite (N.eqb_sym (fst a)), (N.eqb_sym (snd a)). reflexivity. Qed.

Lemma lookup_insert m id o x :
  lookup (insert m id o) x = if oid_eqb id x then Some o else lookup m x.
Proof.
  induction m as [|[i o'] m IH]; cbn [insert lookup].
  - reflexivity.
  - destruct (oid_eqb i id) eqn:E.
    + apply oid_eqb_eq in E. subst. cbn [lookup]. destruct (oid_eqb id x); reflexivity.
    + destruct (oid_ltb id i).
      * cbn [lookup]. reflexivity.
      * cbn [lookup]. rewrite IH. destruct (oid_eqb i x) eqn:E2; [|reflexivity].
        apply oid_eqb_eq in E2. subst. rewrite oid_eqb_sym, E. reflexivity.
Qed.

Lemma lookup_or_insert m id o x :
  lookup (or_insert m id o) x =
  match lookup m x with Some v => Some v | None => if oid_eqb id x then Some o else None end.
Proof.
  unfold or_insert. destruct (lookup m id) eqn:G.
  - destruct (lookup m x) eqn:G'; [reflexivity|].
    destruct (oid_eqb id x) eqn:E; [|reflexivity]. apply oid_eqb_eq in E; subst. congruence.
  - rewrite lookup_insert. destruct (oid_eqb id x) eqn:E.
    + apply oid_eqb_eq in E; subst. rewrite G. reflexivity.
    + destruct (lookup m x); reflexivity.
Qed.

(* "only add, never replace", pointwise: the first occurrence in the added list, unless already present *)
Lemma lookup_or_insert_all l : forall m x,
  lookup (or_insert_all m l) x = match lookup m x with Some v => Some v | None => lookup l x end.
Proof.
  unfold or_insert_all. induction l as [|[i o] l IH]; intros m x; cbn [fold_left fst snd lookup].
  - destruct (lookup m x); reflexivity.
  - rewrite IH, lookup_or_insert. destruct (lookup m x); [reflexivity|].
    destruct (oid_eqb i x); reflexivity.
Qed.

Lemma lookup_filter_true (f : oid * obj -> bool) l x v :
  lookup l x = Some v -> f (x, v) = true -> (forall w, f (x, w) = f (x, v)) ->
  lookup (filter f l) x = Some v.
Proof.
  induction l as [|[i o] l IH]; cbn [lookup filter]; [discriminate|].
  intros H Hf Hall. destruct (oid_eqb i x) eqn:E.
  - apply oid_eqb_eq in E; subst i. inversion H; subst o. rewrite Hf. cbn [lookup].
    replace (oid_eqb x x) with true by (symmetry; apply oid_eqb_eq; reflexivity). reflexivity.
  - destruct (f (i, o)); [cbn [lookup]; rewrite E|]; apply IH; assumption.
Qed.

Lemma lookup_filter_false (f : oid * obj -> bool) l x :
  (forall w, f (x, w) = false) -> lookup (filter f l) x = None.
Proof.
  intro Hf. induction l as [|[i o] l IH]; cbn [lookup filter]; [reflexivity|].
  destruct (f (i, o)) eqn:F; [|exact IH]. cbn [lookup].
  destruct (oid_eqb i x) eqn:E; [|exact IH]. apply oid_eqb_eq in E; subst i. rewrite Hf in F. discriminate.
Qed.

(* ---------- the two results of the first phase ---------- *)
Definition phase1 (L : layout) (enc : bool) (t : xmap) := fold_left (load_entry L enc) t ([], []).
Definition normals (L : layout) (enc : bool) (t : xmap) : objmap := fst (phase1 L enc t).
Definition blocks (L : layout) (enc : bool) (t : xmap) : list (N * objmap) := snd (phase1 L enc t).

(* what one table entry contributes: the object it loads, if any *)
Definition entry_object (L : layout) (enc : bool) (kv : N * xentry) : option placed :=
  match snd kv with
  | XNormal off _ =>
    if (l_buflen L <? Z.of_N off)%Z then None
    else match assocN (l_objs L) off with
         | None => None
         | Some p =>
           if is_objstm (p_obj p) && negb enc then
             match p_members p with None => None | Some _ => Some p end
           else Some p
         end
  | _ => None
  end.
Definition entry_block (L : layout) (enc : bool) (kv : N * xentry) : list (N * objmap) :=
  match entry_object L enc kv with
  | Some p => if is_objstm (p_obj p) && negb enc then
                match p_members p with Some ms => [(fst kv, ms)] | None => [] end
              else []
  | None => []
  end.

Lemma load_entry_split L enc acc kv :
  load_entry L enc acc kv =
  (match entry_object L enc kv with Some p => insert (fst acc) (p_id p) (p_obj p) | None => fst acc end,
   snd acc ++ entry_block L enc kv).
Proof.
  unfold load_entry, entry_block, entry_object. destruct acc as [m bl]. cbn [fst snd].
  destruct (snd kv) as [| |off g|c i]; try (rewrite app_nil_r; reflexivity).
  destruct (l_buflen L <? Z.of_N off)%Z; [rewrite app_nil_r; reflexivity|].
  destruct (assocN (l_objs L) off) as [p|]; [|rewrite app_nil_r; reflexivity].
  destruct (is_objstm (p_obj p) && negb enc) eqn:E.
  - destruct (p_members p) eqn:Em; cbn iota beta; rewrite ?E, ?Em, ?app_nil_r; reflexivity.
  - cbn iota beta. rewrite E, app_nil_r. reflexivity.
Qed.

Lemma phase1_blocks L enc : forall t acc,
  snd (fold_left (load_entry L enc) t acc) = snd acc ++ flat_map (entry_block L enc) t.
Proof.
  induction t as [|kv t IH]; intro acc; cbn [fold_left flat_map]; [rewrite app_nil_r; reflexivity|].
  rewrite IH, load_entry_split. cbn [snd]. rewrite app_assoc. reflexivity.
Qed.

(* an object read through a Normal entry stays unless a LATER entry of the table loads an object that
   carries the same id *)
Lemma phase1_normal L enc : forall t acc x v,
  lookup (fst acc) x = Some v ->
  (forall kv p, In kv t -> entry_object L enc kv = Some p -> p_id p <> x) ->
  lookup (fst (fold_left (load_entry L enc) t acc)) x = Some v.
Proof.
  induction t as [|kv t IH]; intros acc x v Hacc Hno; cbn [fold_left]; [exact Hacc|].
  apply IH.
  - rewrite load_entry_split. cbn [fst].
    destruct (entry_object L enc kv) as [p|] eqn:E; [|exact Hacc].
    rewrite lookup_insert. destruct (oid_eqb (p_id p) x) eqn:E2; [|exact Hacc].
    apply oid_eqb_eq in E2. exfalso. exact (Hno kv p (or_introl eq_refl) E E2).
  - intros kv' p Hin. apply Hno. right. exact Hin.
Qed.

Theorem load_normal_wins : forall L enc t l1 kv l2 p,
  t = l1 ++ kv :: l2 ->
  entry_object L enc kv = Some p ->
  (forall kv' p', In kv' l2 -> entry_object L enc kv' = Some p' -> p_id p' <> p_id p) ->
  lookup (load_objects L enc t) (p_id p) = Some (p_obj p).
Proof.
  intros L enc t l1 kv l2 p -> He Hno.
  assert (H1 : lookup (normals L enc (l1 ++ kv :: l2)) (p_id p) = Some (p_obj p)).
  { unfold normals, phase1. rewrite fold_left_app. cbn [fold_left].
    apply phase1_normal; [|exact Hno].
    rewrite load_entry_split, He. cbn [fst]. rewrite lookup_insert.
    replace (oid_eqb (p_id p) (p_id p)) with true by (symmetry; apply oid_eqb_eq; reflexivity). reflexivity. }
  unfold load_objects. fold (phase1 L enc (l1 ++ kv :: l2)).
  change (fst (phase1 L enc (l1 ++ kv :: l2))) with (normals L enc (l1 ++ kv :: l2)).
  change (snd (phase1 L enc (l1 ++ kv :: l2))) with (blocks L enc (l1 ++ kv :: l2)).
  (* both passes only add *)
  assert (Keep : forall (f : N -> oid * obj -> bool) bl m x v, lookup m x = Some v ->
            lookup (fold_left (fun m b => or_insert_all m (filter (f (fst b)) (snd b))) bl m) x = Some v).
  { induction bl as [|b bl IH]; intros m x v Hm; cbn [fold_left]; [exact Hm|].
    apply IH. rewrite lookup_or_insert_all, Hm. reflexivity. }
  apply (Keep (fun k io => negb (named_by (l1 ++ kv :: l2) k io))).
  apply (Keep (fun k io => named_by (l1 ++ kv :: l2) k io)). exact H1.
Qed.

(* pass A over the blocks, for an id that no Normal entry produced *)
Lemma passA_named t : forall bl m x c i o b1 ms b2,
  lookup m x = None ->
  xget t (fst x) = Some (XCompressed c i) ->
  bl = b1 ++ (c, ms) :: b2 ->
  (forall b, In b b1 -> fst b <> c) ->
  lookup ms x = Some o ->
  lookup (fold_left (fun m b => or_insert_all m (filter (named_by t (fst b)) (snd b))) bl m) x = Some o.
Proof.
  intros bl m x c i o b1 ms b2 Hm Hx -> Hb1 Hms.
  assert (Keep : forall bl m v, lookup m x = Some v ->
            lookup (fold_left (fun m b => or_insert_all m (filter (named_by t (fst b)) (snd b))) bl m) x = Some v).
  { induction bl as [|b bl IH]; intros m0 v Hm0; cbn [fold_left]; [exact Hm0|].
    apply IH. rewrite lookup_or_insert_all, Hm0. reflexivity. }
  revert m Hm. induction b1 as [|b b1 IH]; intros m Hm; cbn [app fold_left].
  - apply Keep. rewrite lookup_or_insert_all, Hm. cbn [fst snd].
    apply lookup_filter_true; [exact Hms| |].
    + unfold named_by. cbn [fst]. rewrite Hx. apply N.eqb_refl.
    + intro w. unfold named_by. cbn [fst]. reflexivity.
  - apply IH.
    + intros b' Hb'. apply Hb1. right. exact Hb'.
    + rewrite lookup_or_insert_all, Hm. apply lookup_filter_false.
      intro w. unfold named_by. cbn [fst]. rewrite Hx. apply N.eqb_neq.
      intro E. apply (Hb1 b (or_introl eq_refl)). symmetry. exact E.
Qed.

(* latest wins inside object streams: the member comes from the container the merged table names, no
   matter which other object streams (older revisions) hold the same number *)
Theorem load_compressed_named : forall L enc t x c i o b1 ms b2,
  lookup (normals L enc t) x = None ->
  xget t (fst x) = Some (XCompressed c i) ->
  blocks L enc t = b1 ++ (c, ms) :: b2 ->
  (forall b, In b b1 -> fst b <> c) ->
  lookup ms x = Some o ->
  lookup (load_objects L enc t) x = Some o.
Proof.
  intros L enc t x c i o b1 ms b2 Hn Hx Hbl Hb1 Hms.
  unfold load_objects. fold (phase1 L enc t).
  change (fst (phase1 L enc t)) with (normals L enc t).
  change (snd (phase1 L enc t)) with (blocks L enc t).
  pose proof (passA_named t (blocks L enc t) (normals L enc t) x c i o b1 ms b2 Hn Hx Hbl Hb1 Hms) as HA.
  assert (Keep : forall bl m v, lookup m x = Some v ->
            lookup (fold_left (fun m b => or_insert_all m (filter (fun io => negb (named_by t (fst b) io)) (snd b))) bl m) x = Some v).
  { induction bl as [|b bl IH]; intros m0 v Hm0; cbn [fold_left]; [exact Hm0|].
    apply IH. rewrite lookup_or_insert_all, Hm0. reflexivity. }
  apply Keep. exact HA.
Qed.

(* the blocks are those of the table entries, in table order, keyed by the entry's object number *)
Theorem blocks_of_table : forall L enc t, blocks L enc t = flat_map (entry_block L enc) t.
Proof. intros. unfold blocks, phase1. rewrite phase1_blocks. reflexivity. Qed.
