(* RenumberProofsTrav.v -- C10, part 2: Document::traverse_objects.
   trav_obj = (rename, push the renamed references in order); loop invariant of the worklist;
   the fuel [trav_fuel] always suffices (termination on cyclic graphs); the result renames exactly
   the objects whose id is reachable in the "mixed" graph (edges lead to the RENAMED id). *)
From LV Require Import Base.Bytes Model.Obj Model.Traverse Spec.RenumberSpec Proofs.RenumberProofsMap.

Definition push_all (refs l : list oid) : list oid := fold_left push_ref l refs.

Lemma NoDup_snoc (l : list oid) x : NoDup l -> ~ In x l -> NoDup (l ++ [x]).
Proof.
  induction l as [|a l IH]; cbn [app]; intros H Hx.
  - constructor; [intros []|constructor].
  - inversion H; subst. constructor.
    + rewrite in_app_iff. cbn [In]. intros [H1|[H1|[]]]; [contradiction|]. subst. apply Hx. left; reflexivity.
    + apply IH; auto. intro. apply Hx. right; assumption.
Qed.

Lemma push_ref_spec refs x :
  exists extra, push_ref refs x = refs ++ extra /\
    (forall y, In y (push_ref refs x) <-> In y refs \/ y = x) /\
    (NoDup refs -> NoDup (push_ref refs x)).
Proof.
  unfold push_ref. destruct (mem_oid x refs) eqn:E.
  - apply mem_oid_In in E. exists []. rewrite app_nil_r. split; [reflexivity|]. split; [|auto].
    intro y. split; [auto | intros [H| ->]; auto].
  - apply mem_oid_nIn in E. exists [x]. split; [reflexivity|]. split.
    + intro y. rewrite in_app_iff. cbn [In]. intuition.
    + intro H. apply NoDup_snoc; auto.
Qed.

Lemma push_all_spec l : forall refs,
  exists extra, push_all refs l = refs ++ extra /\
    (forall y, In y (push_all refs l) <-> In y refs \/ In y l) /\
    (NoDup refs -> NoDup (push_all refs l)).
Proof.
  unfold push_all. induction l as [|x l IH]; intro refs; cbn [fold_left].
  - exists []. rewrite app_nil_r. split; [reflexivity|]. split; [|auto]. intro y. cbn [In]. tauto.
  - destruct (push_ref_spec refs x) as [e1 [E1 [M1 N1]]].
    destruct (IH (push_ref refs x)) as [e2 [E2 [M2 N2]]].
    exists (e1 ++ e2). split; [rewrite E2, E1, app_assoc; reflexivity|]. split.
    + intro y. rewrite M2, M1. cbn [In]. intuition.
    + intro H. auto.
Qed.

Lemma push_all_app refs l1 l2 : push_all refs (l1 ++ l2) = push_all (push_all refs l1) l2.
Proof. unfold push_all. apply fold_left_app. Qed.

(* ---------- trav_obj is rename + push ---------- *)
Fixpoint trav_list (f : oid -> oid) (l : list obj) (refs : list oid) : list obj * list oid :=
  match l with
  | [] => ([], refs)
  | x :: l0 => let '(x', r1) := trav_obj f x refs in let '(l1, r2) := trav_list f l0 r1 in (x' :: l1, r2)
  end.

Lemma trav_obj_arr f l refs :
  trav_obj f (OArr l) refs = let '(l', r') := trav_list f l refs in (OArr l', r').
Proof.
  cbn [trav_obj].
  match goal with |- (let '(_, _) := ?G l refs in _) = _ => assert (HG : forall l refs, G l refs = trav_list f l refs) end.
  { clear. induction l as [|x l IH]; intro refs; cbn [trav_list]; [reflexivity|].
    destruct (trav_obj f x refs) as [x' r1]. rewrite IH. reflexivity. }
  rewrite HG. reflexivity.
Qed.

Lemma trav_obj_dict f d refs :
  trav_obj f (ODict d) refs = let '(d', r') := trav_dict f d refs in (ODict d', r').
Proof.
  cbn [trav_obj].
  match goal with |- (let '(_, _) := ?G d refs in _) = _ => assert (HG : forall d refs, G d refs = trav_dict f d refs) end.
  { clear. induction d as [|[k v] d IH]; intro refs; cbn [trav_dict]; [reflexivity|].
    destruct (trav_obj f v refs) as [x' r1]. rewrite IH. reflexivity. }
  rewrite HG. reflexivity.
Qed.

Lemma trav_obj_stream f d c refs :
  trav_obj f (OStream d c) refs = let '(d', r') := trav_dict f d refs in (OStream d' c, r').
Proof.
  cbn [trav_obj].
  match goal with |- (let '(_, _) := ?G d refs in _) = _ => assert (HG : forall d refs, G d refs = trav_dict f d refs) end.
  { clear. induction d as [|[k v] d IH]; intro refs; cbn [trav_dict]; [reflexivity|].
    destruct (trav_obj f v refs) as [x' r1]. rewrite IH. reflexivity. }
  rewrite HG. reflexivity.
Qed.

Lemma trav_dict_of_values f d :
  Forall (fun kv => forall refs, trav_obj f (snd kv) refs = (rename f (snd kv), push_all refs (map f (refs_of (snd kv))))) d ->
  forall refs, trav_dict f d refs = (rename_dict f d, push_all refs (map f (refs_of_dict d))).
Proof.
  induction 1 as [|[k v] d Hv Hd IH]; intro refs; cbn [trav_dict rename_dict refs_of_dict map flat_map].
  - reflexivity.
  - cbn [snd] in Hv. rewrite Hv. rewrite IH. rewrite map_app, push_all_app. reflexivity.
Qed.

Lemma trav_obj_spec f o : forall refs,
  trav_obj f o refs = (rename f o, push_all refs (map f (refs_of o))).
Proof.
  induction o as [|b|z|r|n|s h|l Hl|d Hd|d c Hd|i g] using obj_ind'; intro refs; try reflexivity.
  - rewrite trav_obj_arr. cbn [rename refs_of].
    assert (HL : forall refs, trav_list f l refs = (map (rename f) l, push_all refs (map f (flat_map refs_of l)))).
    { clear refs. induction Hl as [|x l Hx Hl IH]; intro refs; cbn [trav_list map flat_map]; [reflexivity|].
      rewrite Hx, IH, map_app, push_all_app. reflexivity. }
    rewrite HL. reflexivity.
  - rewrite trav_obj_dict. rewrite (trav_dict_of_values f d Hd). reflexivity.
  - rewrite trav_obj_stream. rewrite (trav_dict_of_values f d Hd). reflexivity.
Qed.

Lemma trav_dict_spec f d refs :
  trav_dict f d refs = (rename_dict f d, push_all refs (map f (refs_of_dict d))).
Proof.
  apply trav_dict_of_values. apply Forall_forall. intros kv _ r. apply trav_obj_spec.
Qed.

(* ---------- counting references ---------- *)
Lemma nrefs_length o : nrefs o = length (refs_of o).
Proof.
  induction o as [|b|z|r|n|s h|l Hl|d Hd|d c Hd|i g] using obj_ind'; try reflexivity; cbn [nrefs refs_of].
  - induction Hl as [|x l Hx Hl IH]; cbn [fold_right flat_map]; [reflexivity|]. rewrite app_length. congruence.
  - induction Hd as [|x l Hx Hl IH]; cbn [fold_right flat_map]; [reflexivity|]. rewrite app_length. congruence.
  - induction Hd as [|x l Hx Hl IH]; cbn [fold_right flat_map]; [reflexivity|]. rewrite app_length. congruence.
Qed.

Definition all_refs (tr : dict) (m : objmap) : list oid :=
  refs_of_dict tr ++ flat_map (fun io => refs_of (snd io)) m.

Lemma all_refs_length tr m : length (all_refs tr m) = nrefs_dict tr + nrefs_map m.
Proof.
  unfold all_refs, nrefs_dict, nrefs_map, refs_of_dict. rewrite app_length. f_equal.
  - induction tr as [|kv tr IH]; cbn [fold_right flat_map]; [reflexivity|]. rewrite app_length, nrefs_length. congruence.
  - induction m as [|kv m IH]; cbn [fold_right flat_map]; [reflexivity|]. rewrite app_length, nrefs_length. congruence.
Qed.

(* ---------- reachability in the mixed graph: an edge leads to the renamed id ---------- *)
Inductive reachf (f : oid -> oid) (tr : dict) (m : objmap) : oid -> Prop :=
| reachf_root r : In r (refs_of_dict tr) -> reachf f tr m (f r)
| reachf_step x o r : reachf f tr m x -> lookup m x = Some o -> In r (refs_of o) -> reachf f tr m (f r).

Lemma reachf_in_all f tr m x : reachf f tr m x -> In x (map f (all_refs tr m)).
Proof.
  intro H. apply in_map_iff. unfold all_refs. destruct H as [r Hr | y o r _ Hl Hr].
  - exists r. split; [reflexivity|]. apply in_app_iff. left; exact Hr.
  - exists r. split; [reflexivity|]. apply in_app_iff. right. apply in_flat_map.
    exists (y, o). split; [apply lookup_In; exact Hl | exact Hr].
Qed.

(* ---------- the worklist loop ---------- *)
Section Loop.
  Variable f : oid -> oid.
  Variable tr : dict.
  Variable m0 : objmap.

  Definition visited (refs : list oid) (index : nat) : list oid := firstn index refs.

  Record Inv (m : objmap) (refs : list oid) (index : nat) : Prop := {
    inv_nodup : NoDup refs;
    inv_reach : forall x, In x refs -> reachf f tr m0 x;
    inv_roots : forall r, In r (refs_of_dict tr) -> In (f r) refs;
    inv_closed : forall x o r, In x (visited refs index) -> lookup m0 x = Some o -> In r (refs_of o) -> In (f r) refs;
    inv_lookup : forall x, lookup m x = if mem_oid x (visited refs index)
                                        then option_map (rename f) (lookup m0 x) else lookup m0 x;
    inv_keys : map fst m = map fst m0;
    inv_index : index <= length refs;
  }.

  Lemma firstn_S_nth (l : list oid) : forall i x,
    nth_error l i = Some x -> firstn (S i) l = firstn i l ++ [x].
  Proof.
    induction l as [|a l IH]; intros [|i] x H; cbn [nth_error] in H; try discriminate.
    - inversion H; subst. reflexivity.
    - cbn [firstn app]. f_equal. change (firstn (S i) l = firstn i l ++ [x]). apply IH. exact H.
  Qed.

  Lemma nth_not_in_firstn (l : list oid) : forall i x,
    NoDup l -> nth_error l i = Some x -> ~ In x (firstn i l).
  Proof.
    induction l as [|a l IH]; intros [|i] x ND H; cbn [nth_error] in H; try discriminate.
    - cbn [firstn]. intros [].
    - inversion ND; subst. cbn [firstn In]. intros [E|Hin].
      + subst. apply nth_error_In in H. contradiction.
      + exact (IH _ _ H3 H Hin).
  Qed.

  Lemma firstn_app_lt (l e : list oid) i : i <= length l -> firstn i (l ++ e) = firstn i l.
  Proof.
    intro H. rewrite firstn_app. replace (i - length l) with 0 by lia. cbn [firstn]. apply app_nil_r.
  Qed.

  Lemma inv_step m refs index id o :
    Inv m refs index -> nth_error refs index = Some id -> lookup m id = Some o ->
    lookup m0 id = Some o /\
    Inv (update m id (rename f o)) (push_all refs (map f (refs_of o))) (S index).
  Proof.
    intros I Hn Hl.
    assert (Hnv : ~ In id (visited refs index)) by (apply nth_not_in_firstn; [apply I | exact Hn]).
    assert (Hl0 : lookup m0 id = Some o).
    { rewrite (inv_lookup _ _ _ I) in Hl. apply mem_oid_nIn in Hnv. rewrite Hnv in Hl. exact Hl. }
    split; [exact Hl0|].
    destruct (push_all_spec (map f (refs_of o)) refs) as [extra [E [M ND]]].
    assert (Hlen : S index <= length refs).
    { apply nth_error_Some. congruence. }
    assert (Hvis : visited (push_all refs (map f (refs_of o))) (S index) = visited refs index ++ [id]).
    { unfold visited. rewrite E, firstn_app_lt by exact Hlen. apply firstn_S_nth. exact Hn. }
    constructor.
    - apply ND. apply I.
    - intros x Hx. apply M in Hx. destruct Hx as [Hx|Hx]; [apply I; exact Hx|].
      apply in_map_iff in Hx. destruct Hx as [r [<- Hr]].
      eapply reachf_step; [|exact Hl0|exact Hr]. apply I. eapply nth_error_In; exact Hn.
    - intros r Hr. apply M. left. apply I. exact Hr.
    - intros x o' r Hx Hl' Hr. rewrite Hvis in Hx. apply in_app_iff in Hx. apply M. destruct Hx as [Hx|[<-|[]]].
      + left. eapply (inv_closed _ _ _ I); eauto.
      + right. rewrite Hl0 in Hl'. inversion Hl'; subst. apply in_map. exact Hr.
    - intro x. rewrite Hvis. rewrite lookup_update, Hl.
      destruct (oid_eqb id x) eqn:Ex.
      + apply oid_eqb_eq in Ex. subst x.
        replace (mem_oid id (visited refs index ++ [id])) with true.
        * rewrite Hl0. reflexivity.
        * symmetry. apply mem_oid_In. apply in_app_iff. right. left. reflexivity.
      + rewrite (inv_lookup _ _ _ I).
        replace (mem_oid x (visited refs index ++ [id])) with (mem_oid x (visited refs index)); [reflexivity|].
        apply oid_eqb_neq in Ex.
        destruct (mem_oid x (visited refs index)) eqn:E1; symmetry.
        * apply mem_oid_In. apply in_app_iff. left. apply mem_oid_In. exact E1.
        * apply mem_oid_nIn. rewrite in_app_iff. cbn [In]. apply mem_oid_nIn in E1. intuition.
    - rewrite keys_update. apply I.
    - rewrite E, app_length. lia.
  Qed.

  Lemma inv_skip m refs index id :
    Inv m refs index -> nth_error refs index = Some id -> lookup m id = None ->
    Inv m refs (S index).
  Proof.
    intros I Hn Hl.
    assert (Hnv : ~ In id (visited refs index)) by (apply nth_not_in_firstn; [apply I | exact Hn]).
    assert (Hl0 : lookup m0 id = None).
    { rewrite (inv_lookup _ _ _ I) in Hl. apply mem_oid_nIn in Hnv. rewrite Hnv in Hl. exact Hl. }
    assert (Hvis : visited refs (S index) = visited refs index ++ [id]) by (apply firstn_S_nth; exact Hn).
    constructor; try apply I.
    - intros x o' r Hx Hl' Hr. rewrite Hvis in Hx. apply in_app_iff in Hx. destruct Hx as [Hx|[<-|[]]].
      + eapply (inv_closed _ _ _ I); eauto.
      + congruence.
    - intro x. rewrite Hvis, (inv_lookup _ _ _ I).
      destruct (oid_eq_dec x id) as [->|Ne].
      + apply mem_oid_nIn in Hnv. rewrite Hnv, Hl0.
        destruct (mem_oid id (visited refs index ++ [id])); reflexivity.
      + replace (mem_oid x (visited refs index ++ [id])) with (mem_oid x (visited refs index)); [reflexivity|].
        destruct (mem_oid x (visited refs index)) eqn:E1; symmetry.
        * apply mem_oid_In. apply in_app_iff. left. apply mem_oid_In. exact E1.
        * apply mem_oid_nIn. rewrite in_app_iff. cbn [In]. apply mem_oid_nIn in E1. intuition.
    - apply nth_error_Some. congruence.
  Qed.

  Lemma inv_bound m refs index : Inv m refs index -> length refs <= length (all_refs tr m0).
  Proof.
    intro I. rewrite <- (map_length f (all_refs tr m0)). apply NoDup_incl_length; [apply I|].
    intros x Hx. apply reachf_in_all. apply I. exact Hx.
  Qed.

  Lemma loop_spec : forall fuel m refs index,
    Inv m refs index -> length (all_refs tr m0) - index < fuel ->
    exists m' refs', trav_loop f fuel m refs index = Some (m', refs') /\ Inv m' refs' (length refs').
  Proof.
    induction fuel as [|k IH]; intros m refs index I Hf; [lia|].
    cbn [trav_loop]. destruct (nth_error refs index) as [id|] eqn:Hn.
    - assert (Hlt : index < length refs) by (apply nth_error_Some; congruence).
      pose proof (inv_bound _ _ _ I) as Hb.
      destruct (lookup m id) as [o|] eqn:Hl.
      + rewrite trav_obj_spec. destruct (inv_step _ _ _ _ _ I Hn Hl) as [_ I'].
        apply IH; [exact I' | lia].
      + apply IH; [eapply inv_skip; eauto | lia].
    - exists m, refs. split; [reflexivity|].
      apply nth_error_None in Hn. pose proof (inv_index _ _ _ I).
      replace (length refs) with index by lia. exact I.
  Qed.
End Loop.

(* ---------- traverse_objects: termination and result ---------- *)
Theorem traverse_spec f tr m fuel :
  trav_fuel tr m <= fuel ->
  exists m' refs,
    traverse_objects f fuel tr m = Some (rename_dict f tr, m', refs) /\
    NoDup refs /\
    (forall x, In x refs <-> reachf f tr m x) /\
    map fst m' = map fst m /\
    (forall x, reachf f tr m x -> lookup m' x = option_map (rename f) (lookup m x)) /\
    (forall x, ~ reachf f tr m x -> lookup m' x = lookup m x).
Proof.
  intro Hf. unfold traverse_objects. rewrite trav_dict_spec.
  destruct (push_all_spec (map f (refs_of_dict tr)) []) as [extra [E [M ND]]].
  set (refs0 := push_all [] (map f (refs_of_dict tr))) in *.
  assert (I0 : Inv f tr m m refs0 0).
  { constructor.
    - apply ND. constructor.
    - intros x Hx. apply M in Hx. destruct Hx as [[]|Hx]. apply in_map_iff in Hx.
      destruct Hx as [r [<- Hr]]. apply reachf_root. exact Hr.
    - intros r Hr. apply M. right. apply in_map. exact Hr.
    - intros x o r Hx. cbn in Hx. destruct Hx.
    - intro x. reflexivity.
    - reflexivity.
    - lia. }
  destruct (loop_spec f tr m fuel m refs0 0 I0) as [m' [refs' [EL I]]].
  { unfold trav_fuel in Hf. rewrite all_refs_length. lia. }
  rewrite EL. exists m', refs'. split; [reflexivity|].
  assert (Hvis : visited refs' (length refs') = refs') by apply firstn_all.
  assert (Hiff : forall x, In x refs' <-> reachf f tr m x).
  { intro x. split; [apply I|]. induction 1 as [r Hr | y o r Hy IHy Hl Hr].
    - apply I. exact Hr.
    - eapply (inv_closed _ _ _ _ _ _ I); [rewrite Hvis; exact IHy | exact Hl | exact Hr]. }
  split; [apply I|]. split; [exact Hiff|]. split; [apply I|]. split.
  - intros x Hx. rewrite (inv_lookup _ _ _ _ _ _ I), Hvis.
    apply Hiff in Hx. apply mem_oid_In in Hx. rewrite Hx. reflexivity.
  - intros x Hx. rewrite (inv_lookup _ _ _ _ _ _ I), Hvis.
    replace (mem_oid x refs') with false; [reflexivity|]. symmetry. apply mem_oid_nIn. rewrite Hiff. exact Hx.
Qed.

(* fuel sufficiency / termination on arbitrary (cyclic) graphs *)
Corollary traverse_terminates f tr m fuel :
  trav_fuel tr m <= fuel -> traverse_objects f fuel tr m <> None.
Proof.
  intro H. destruct (traverse_spec f tr m fuel H) as [m' [refs [E _]]]. congruence.
Qed.

(* more fuel does not change the result *)
Corollary traverse_fuel_irrelevant f tr m fuel1 fuel2 :
  trav_fuel tr m <= fuel1 -> trav_fuel tr m <= fuel2 ->
  option_map (fun r => (fst (fst r), map fst (snd (fst r)))) (traverse_objects f fuel1 tr m) =
  option_map (fun r => (fst (fst r), map fst (snd (fst r)))) (traverse_objects f fuel2 tr m).
Proof.
  intros H1 H2.
  destruct (traverse_spec f tr m fuel1 H1) as [m1 [r1 [E1 [_ [_ [K1 _]]]]]].
  destruct (traverse_spec f tr m fuel2 H2) as [m2 [r2 [E2 [_ [_ [K2 _]]]]]].
  rewrite E1, E2. cbn. congruence.
Qed.
