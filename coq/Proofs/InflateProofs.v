(* InflateProofs.v -- the decoder of Spec/Inflate.v (RFC 1950/1951, written from the RFCs) inverts the stored-block
   encoder of Spec/ZlibStoredSpec.v, for every byte string and every block size:

     inflate_zlib_stored : forall k data, inflate (zlib_stored k data) = Some data
     inflate_stored      : forall data,   inflate (deflate_stored data) = Some data
     zlib_stored_not_nil : forall k data, zlib_stored k data <> []

   Route: the header 78 01 is accepted (computed); a block header byte 00/01 read from a byte boundary gives
   BFINAL, BTYPE = 0 and the five remaining bits are dropped by stored_block_in; LEN/NLEN written by le16 are read
   back by le16_value for every length <= 65535; so one call of [blocks] consumes one [stored_block] and is again at
   a byte boundary (blocks_stored_block); induction on the fuel of [stored_blocks] (blocks_stored_blocks); the fuel
   S (8 * length rest) of [inflate] exceeds the number of blocks because the encoded stream is at least as long as
   the data (stored_blocks_length); the four trailer bytes are be32 (adler32 data).  No axioms. *)
From LV Require Import Base.Bytes Spec.ZlibStoredSpec Spec.Inflate.

Local Open Scope N_scope.

(* ---------- RFC 1950 header ---------- *)
Lemma zlib_header_78_01 : zlib_header_ok x78 x01 = true.
Proof. vm_compute. reflexivity. Qed.

(* ---------- LEN / NLEN ---------- *)
Lemma le16_value_le16 v :
  v < 65536 -> le16_value (byte_of_N (v mod 256)) (byte_of_N (v / 256)) = v.
Proof.
  intro H. unfold le16_value.
  rewrite (N_of_byte_of_N (v mod 256)) by (apply N.mod_lt; lia).
  rewrite (N_of_byte_of_N (v / 256)) by (apply N.div_lt_upper_bound; lia).
  pose proof (N.div_mod' v 256). lia.
Qed.

(* ---------- the block header byte, read from a byte boundary ---------- *)
Lemma blocks_stored_hdr f (final : bool) rest out :
  blocks (S f) ([], (if final then x01 else x00) :: rest) out =
  match stored_block_in ([], rest) out with
  | None => None
  | Some (out', s') => if final then Some (out', s') else blocks f s' out'
  end.
Proof. destruct final; reflexivity. Qed.

Lemma stored_block_in_ok l chunk tail out :
  N.of_nat (length chunk) <= 65535 ->
  stored_block_in (l, le16 (N.of_nat (length chunk)) ++ le16 (65535 - N.of_nat (length chunk)) ++ chunk ++ tail) out
  = Some (rev_append chunk out, ([], tail)).
Proof.
  intro H. unfold stored_block_in, le16. cbn [snd app]. cbv zeta.
  rewrite !le16_value_le16 by lia.
  replace (N.of_nat (length chunk) + (65535 - N.of_nat (length chunk)) =? 65535) with true
    by (symmetry; apply N.eqb_eq; lia).
  rewrite Nat2N.id.
  replace (length chunk <=? length (chunk ++ tail))%nat with true
    by (symmetry; apply Nat.leb_le; rewrite app_length; lia).
  rewrite firstn_app, Nat.sub_diag, firstn_all, firstn_O, app_nil_r.
  rewrite skipn_app, Nat.sub_diag, skipn_all. reflexivity.
Qed.

(* one call of [blocks] consumes one stored block and stops at the byte boundary after it *)
Lemma blocks_stored_block f final chunk tail out :
  N.of_nat (length chunk) <= 65535 ->
  blocks (S f) ([], stored_block final chunk ++ tail) out =
  if final then Some (rev_append chunk out, ([], tail)) else blocks f ([], tail) (rev_append chunk out).
Proof.
  intro H. unfold stored_block. cbv zeta. rewrite <- app_comm_cons. rewrite blocks_stored_hdr.
  rewrite <- !app_assoc. rewrite stored_block_in_ok by exact H. reflexivity.
Qed.

(* ---------- all blocks ---------- *)
Lemma blocks_stored_blocks : forall fuel size data tail out f,
  (1 <= size)%nat -> N.of_nat size <= 65535 -> (length data <= fuel)%nat -> (fuel < f)%nat ->
  blocks f ([], stored_blocks fuel size data ++ tail) out = Some (rev_append data out, ([], tail)).
Proof.
  induction fuel as [|fuel IH]; intros size data tail out f Hs1 Hs2 Hd Hf.
  - destruct data as [|b data]; [|cbn [length] in Hd; lia]. destruct f as [|f]; [lia|].
    cbn [stored_blocks]. rewrite firstn_nil. rewrite blocks_stored_block by (cbn [length]; lia). reflexivity.
  - destruct f as [|f]; [lia|]. cbn [stored_blocks].
    destruct (length data <=? size)%nat eqn:E.
    + apply Nat.leb_le in E. rewrite blocks_stored_block by lia. reflexivity.
    + apply Nat.leb_gt in E. rewrite <- app_assoc.
      rewrite blocks_stored_block by (rewrite firstn_length; lia).
      rewrite IH; [| lia | lia | rewrite skipn_length; lia | lia].
      rewrite !rev_append_rev. rewrite app_assoc, <- rev_app_distr, firstn_skipn. reflexivity.
Qed.

(* ---------- the encoded stream is at least as long as the data ---------- *)
Lemma stored_block_length final chunk : length (stored_block final chunk) = (5 + length chunk)%nat.
Proof. unfold stored_block, le16. cbn [length app]. reflexivity. Qed.

Lemma stored_blocks_length : forall fuel size data,
  (1 <= size)%nat -> (length data <= fuel)%nat -> (length data <= length (stored_blocks fuel size data))%nat.
Proof.
  induction fuel as [|fuel IH]; intros size data Hs Hd.
  - lia.
  - cbn [stored_blocks]. destruct (length data <=? size)%nat eqn:E.
    + rewrite stored_block_length. lia.
    + apply Nat.leb_gt in E. rewrite app_length, stored_block_length, firstn_length.
      pose proof (IH size (skipn size data) Hs) as H. rewrite skipn_length in H. lia.
Qed.

Lemma block_size_bounds k : (1 <= block_size k)%nat /\ N.of_nat (block_size k) <= 65535.
Proof.
  unfold block_size. assert (H : k mod 65535 < 65535) by (apply N.mod_lt; discriminate). rewrite N2Nat.id.
  generalize dependent (k mod 65535). intros m H. split; lia.
Qed.

(* ---------- trailer ---------- *)
Lemma firstn_4_be32 v : firstn 4 (be32 v) = be32 v.
Proof. reflexivity. Qed.

Lemma rev_append_twice (data : bytes) : rev_append (rev_append data []) [] = data.
Proof. rewrite !rev_append_rev, !app_nil_r. apply rev_involutive. Qed.

(* ---------- the theorems ---------- *)
Lemma zlib_stored_not_nil : forall k data, zlib_stored k data <> [].
Proof. intros k data. unfold zlib_stored. discriminate. Qed.

Theorem inflate_zlib_stored : forall k data, inflate (zlib_stored k data) = Some data.
Proof.
  intros k data. destruct (block_size_bounds k) as [Hs1 Hs2].
  unfold zlib_stored, inflate. rewrite zlib_header_78_01.
  rewrite blocks_stored_blocks.
  - cbn [snd]. cbv zeta. rewrite firstn_4_be32, rev_append_twice, bytes_eqb_refl. reflexivity.
  - exact Hs1.
  - exact Hs2.
  - lia.
  - rewrite app_length. pose proof (stored_blocks_length (length data) (block_size k) data Hs1 (le_n _)). lia.
Qed.

Corollary inflate_stored : forall data, inflate (deflate_stored data) = Some data.
Proof. intro data. unfold deflate_stored. apply inflate_zlib_stored. Qed.
