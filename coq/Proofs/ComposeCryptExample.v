(* ComposeCryptExample.v -- non-vacuity of the composition C05 x C01 (Proofs/ComposeCrypt.v): property C05's example
   document (catalog with a string, content stream, array with a hexadecimal string and a dictionary, Metadata
   stream), encrypted under V2 / 128-bit RC4 by the executable model, meets every hypothesis of
   encrypt_save_load_decrypt in both cross-reference formats; the empty password does not open it, so the load returns
   it still encrypted; "user" is a right password.
   [savable_encb]: a boolean test that implies [savable_enc] on documents without reals (enough for the example). *)
From LV Require Import Base.Bytes Base.Sx Model.Obj Model.DocQ Model.Writer Model.Parser Model.Save Model.Xref Model.Utf
  Model.Loader Model.LoaderExt Model.LoaderEnc Model.LoaderCrypt Model.Crypto.Word Model.Crypto.Handler Model.Crypto.Concrete
  Proofs.RealProofs Proofs.ObjectRtProofs Proofs.SaveProofs Spec.SaveSpec Proofs.LoadProofsXref
  Proofs.CryptoProofsObject Proofs.CryptoProofsDoc Proofs.CryptoProofsAuth Proofs.CryptoProofsExamples
  Proofs.CryptoProofsAES Proofs.CryptoProofsSHA Proofs.CryptoProofsRT Proofs.LoadProofsFull Proofs.ComposeCrypt
  Proofs.ComposeCryptDomain.

Local Open Scope N_scope.

Fixpoint nodupb (l : list bytes) : bool :=
  match l with [] => true | x :: r => negb (existsb (bytes_eqb x) r) && nodupb r end.

Lemma nodupb_sound l : nodupb l = true -> NoDup l.
Proof.
  induction l as [|x r IH]; cbn [nodupb]; intro H; [constructor|].
  apply andb_true_iff in H as [H1 H2]. constructor; [|apply IH; exact H2].
  intro Hin. apply negb_true_iff in H1.
  assert (existsb (bytes_eqb x) r = true) by (apply existsb_exists; exists x; split; [exact Hin | apply bytes_eqb_eq; reflexivity]).
  congruence.
Qed.

(* well-formed direct objects without reals *)
Fixpoint wfb (o : obj) : bool :=
  match o with
  | ONull | OBool _ | OName _ | OStr _ _ => true
  | OInt z => in_i64 z
  | OReal _ => false
  | OArr l => forallb wfb l
  | ODict d => nodupb (map fst d) && forallb (fun kv => wfb (snd kv)) d
  | OStream _ _ => false
  | ORef i g => (i <=? Parser.u32_max) && (g <=? u16_max)
  end.

Lemma wfb_sound o : wfb o = true -> obj_wf o.
Proof.
  induction o as [|b|z|r|n|s h|l Hl|d Hd|d c Hd|i g] using obj_ind5; cbn [wfb]; intro H; try discriminate; try constructor.
  - exact H.
  - induction Hl as [|x l Hx _ IH]; [constructor|]. cbn [forallb] in H. apply andb_true_iff in H as [H1 H2].
    constructor; [apply Hx; exact H1 | apply IH; exact H2].
  - apply andb_true_iff in H as [H1 _]. apply nodupb_sound. exact H1.
  - apply andb_true_iff in H as [_ H]. induction Hd as [|[k x] d Hx _ IH]; [constructor|]. cbn [forallb snd] in *.
    apply andb_true_iff in H as [H1 H2]. constructor; [apply Hx; exact H1 | apply IH; exact H2].
  - apply andb_true_iff in H as [H _]. apply N.leb_le. exact H.
  - apply andb_true_iff in H as [_ H]. apply N.leb_le. exact H.
Qed.

Definition top_wfb (o : obj) : bool :=
  match o with
  | OStream d c =>
    wfb (ODict d) &&
    match dict_get d K_Length with Some (OInt z) => (z =? Z.of_nat (length c))%Z | _ => false end
  | _ => wfb o
  end.

Lemma top_wfb_sound o : top_wfb o = true -> top_wf o.
Proof.
  destruct o; cbn [top_wfb top_wf]; try apply wfb_sound.
  intro H. apply andb_true_iff in H as [H1 H2]. split; [apply wfb_sound; exact H1|].
  destruct (dict_get d K_Length) as [v|]; [|discriminate]. destruct v; try discriminate.
  apply Z.eqb_eq in H2. subst z. reflexivity.
Qed.

Fixpoint increasingb (lo : N) (l : list N) : bool :=
  match l with [] => true | n :: l' => (lo <? n) && increasingb n l' end.
Lemma increasingb_sound : forall l lo, increasingb lo l = true -> increasing lo l.
Proof.
  induction l as [|n l IH]; intros lo H; [exact I|]. cbn [increasingb] in H. apply andb_true_iff in H as [H1 H2].
  split; [apply N.ltb_lt; exact H1 | apply IH; exact H2].
Qed.

Definition savable_encb (d : doc) : bool :=
  (N.max (d_max_id d) (last_number (d_objects d)) + 2 <? u32_mod) &&
  binary_mark_ok (d_binary_mark d) &&
  forallb (fun c => negb (is_comment_end c)) (d_version d) &&
  (match utf8_decode (d_version d) with Some _ => true | None => false end) &&
  increasingb 0 (obj_numbers (d_objects d)) &&
  forallb (fun io => (snd (fst io) <=? u16_max) && top_wfb (snd io) && negb (skipped (snd io))) (d_objects d) &&
  wfb (ODict (d_trailer d)) &&
  negb (dict_has (d_trailer d) Save.K_Prev).

Lemma savable_encb_sound d : savable_encb d = true -> savable_enc d.
Proof.
  unfold savable_encb. intro H.
  repeat match type of H with (_ && _) = true => let H' := fresh "H" in apply andb_true_iff in H as [H H'] end.
  constructor.
  - apply N.ltb_lt. exact H.
  - assumption.
  - assumption.
  - intro E. match goal with Hu : match utf8_decode (d_version d) with Some _ => true | None => false end = true |- _ =>
      rewrite E in Hu; discriminate Hu end.
  - apply increasingb_sound. assumption.
  - apply Forall_forall. intros io Hin.
    match goal with Hf : forallb _ (d_objects d) = true |- _ => rewrite forallb_forall in Hf; specialize (Hf io Hin); rename Hf into Hio end.
    apply andb_true_iff in Hio as [Hio Gc]. apply andb_true_iff in Hio as [Ga Gb].
    split; [apply N.leb_le; exact Ga|]. split; [apply top_wfb_sound; exact Gb | apply negb_true_iff; exact Gc].
  - apply wfb_sound. assumption.
  - apply negb_true_iff. assumption.
Qed.

(* ---------- the example ---------- *)
Definition ex_rnd : list bytes := [hex "000102030405060708090a0b0c0d0e0f"].
Definition ex_st : option estate :=
  Eval vm_compute in match try_from_version concrete ex_doc ex_v2 ex_rnd with Ok st => Some st | _ => None end.
Definition ex_d1 : option doc := Eval vm_compute in ex_enc ex_v2.

Definition compose_example_statement (st : estate) (d1 : doc) : Prop :=
  try_from_version concrete ex_doc ex_v2 ex_rnd = Ok st /\ doc_encrypt concrete st ex_doc ex_ivs = DOk d1 tt /\
  version_in_domain ex_v2 /\ max_id_ok ex_doc /\ dict_get (d_trailer ex_doc) Handler.K_Encrypt = None /\
  Forall (fun io : oid * obj => top_wf (snd io) /\ skipped (snd io) = false) (d_objects ex_doc) /\
  savable_enc d1 /\ known_deep d1 = false /\ small_file XTable d1 /\ small_file XStream d1 /\
  authenticate_password concrete d1 [] = Err D_IncorrectPassword /\
  right_password concrete d1 ex_v2 ex_user /\
  load_crypt concrete (fun _ => false) (so_bytes (save XStream d1)) = CLoad (LOk (reloaded XStream d1) XTStream).

(* [ex_st], [ex_d1]: the state try_from_version makes and the document Document::encrypt returns, computed *)
Theorem compose_example :
  match ex_st, ex_d1 with Some st, Some d1 => compose_example_statement st d1 | _, _ => False end.
Proof.
  unfold ex_st, ex_d1.
  cbv iota beta.
  match goal with |- compose_example_statement ?a ?b => set (st := a); set (d1 := b) end.
  unfold compose_example_statement.
  assert (Etry : try_from_version concrete ex_doc ex_v2 ex_rnd = Ok st) by (vm_compute; reflexivity).
  assert (Eenc : doc_encrypt concrete st ex_doc ex_ivs = DOk d1 tt) by (vm_compute; reflexivity).
  assert (Hdom : Forall (fun io : oid * obj => top_wf (snd io) /\ skipped (snd io) = false) (d_objects ex_doc)).
  { apply Forall_forall. intros io Hin.
    assert (Hb : forallb (fun io => top_wfb (snd io) && negb (skipped (snd io))) (d_objects ex_doc) = true) by (vm_compute; reflexivity).
    rewrite forallb_forall in Hb. specialize (Hb io Hin). apply andb_true_iff in Hb as [Ga Gb].
    split; [apply top_wfb_sound; exact Ga | apply negb_true_iff; exact Gb]. }
  assert (S1 : savable_enc d1) by (apply savable_encb_sound; vm_compute; reflexivity).
  assert (K1 : known_deep d1 = false) by (vm_compute; reflexivity).
  assert (Hs1 : small_file XTable d1) by (vm_compute; reflexivity).
  assert (Hs2 : small_file XStream d1) by (vm_compute; reflexivity).
  assert (Hauth : authenticate_password concrete d1 [] = Err D_IncorrectPassword) by (vm_compute; reflexivity).
  destruct ex_hyps as [Hmax [Htr _]]. destruct ex_versions as [_ [Hv2 _]].
  split; [exact Etry|]. split; [exact Eenc|]. split; [exact Hv2|]. split; [exact Hmax|]. split; [exact Htr|].
  split; [exact Hdom|]. split; [exact S1|]. split; [exact K1|]. split; [exact Hs1|]. split; [exact Hs2|].
  split; [exact Hauth|]. split; [left; reflexivity|].
  destruct (encrypt_save_load_decrypt concrete md5_len16 concrete_aes_ok
              Proofs.CryptoProofsSHA.sha256_length Proofs.CryptoProofsSHA.sha384_length Proofs.CryptoProofsSHA.sha512_length
              (fun _ => false) XStream ex_doc ex_v2 ex_rnd ex_ivs st d1 Hv2 Hmax Htr Etry Eenc Hdom S1 K1 Hs2)
    as [x [_ [_ [Hkeep _]]]].
  exact (Hkeep _ Hauth).
Qed.

(* ---------- the same example for the composition WITHOUT a hypothesis on the shape of the encrypted document
   (Proofs/ComposeCryptDomain.v): the PLAIN example document is in C01's domain [savable], outside the known class,
   with room for one more object number; [savable_enc d1] and [known_deep d1 = false] are then CONSEQUENCES
   (encrypt_preserves_savable), not tests on the computed d1 ---------- *)
Definition compose_example_dom_statement (st : estate) (d1 : doc) : Prop :=
  try_from_version concrete ex_doc ex_v2 ex_rnd = Ok st /\ doc_encrypt concrete st ex_doc ex_ivs = DOk d1 tt /\
  version_in_domain ex_v2 /\ max_id_ok ex_doc /\ savable ex_doc /\ known_deep ex_doc = false /\
  d_max_id ex_doc + 3 < u32_mod /\ small_file XTable d1 /\ small_file XStream d1 /\
  st_i64 st /\ savable_enc d1 /\ known_deep d1 = false /\
  authenticate_password concrete d1 [] = Err D_IncorrectPassword /\
  right_password concrete d1 ex_v2 ex_user /\
  load_crypt concrete (fun _ => false) (so_bytes (save XTable d1)) = CLoad (LOk (reloaded XTable d1) XTTable).

Theorem compose_example_dom :
  match ex_st, ex_d1 with Some st, Some d1 => compose_example_dom_statement st d1 | _, _ => False end.
Proof.
  unfold ex_st, ex_d1.
  cbv iota beta.
  match goal with |- compose_example_dom_statement ?a ?b => set (st := a); set (d1 := b) end.
  unfold compose_example_dom_statement.
  assert (Etry : try_from_version concrete ex_doc ex_v2 ex_rnd = Ok st) by (vm_compute; reflexivity).
  assert (Eenc : doc_encrypt concrete st ex_doc ex_ivs = DOk d1 tt) by (vm_compute; reflexivity).
  assert (S0 : savable ex_doc).
  { apply savable_of_enc; [apply savable_encb_sound; vm_compute; reflexivity | vm_compute; reflexivity]. }
  assert (K0 : known_deep ex_doc = false) by (vm_compute; reflexivity).
  assert (Hroom : d_max_id ex_doc + 3 < u32_mod) by (vm_compute; reflexivity).
  assert (Hs1 : small_file XTable d1) by (vm_compute; reflexivity).
  assert (Hs2 : small_file XStream d1) by (vm_compute; reflexivity).
  assert (Hauth : authenticate_password concrete d1 [] = Err D_IncorrectPassword) by (vm_compute; reflexivity).
  destruct ex_hyps as [Hmax [Htr _]]. destruct ex_versions as [_ [Hv2 _]].
  pose proof (try_from_version_i64 concrete ex_doc ex_v2 ex_rnd st Hv2 Etry) as Hst.
  destruct (encrypt_preserves_savable concrete XTable st ex_doc ex_ivs d1 S0 K0 Hmax Hroom Hst Eenc Hs1) as [S1 K1].
  split; [exact Etry|]. split; [exact Eenc|]. split; [exact Hv2|]. split; [exact Hmax|]. split; [exact S0|].
  split; [exact K0|]. split; [exact Hroom|]. split; [exact Hs1|]. split; [exact Hs2|]. split; [exact Hst|].
  split; [exact S1|]. split; [exact K1|]. split; [exact Hauth|]. split; [left; reflexivity|].
  destruct (encrypt_save_load_decrypt_dom concrete md5_len16 concrete_aes_ok
              Proofs.CryptoProofsSHA.sha256_length Proofs.CryptoProofsSHA.sha384_length Proofs.CryptoProofsSHA.sha512_length
              (fun _ => false) XTable ex_doc ex_v2 ex_rnd ex_ivs st d1 Hv2 Hmax S0 K0 Hroom Etry Eenc Hs1)
    as [x [_ [_ [Hkeep _]]]].
  exact (Hkeep _ Hauth).
Qed.
