(* RenumberProofs.v -- C10, part 3: one renumbering pass (re-key the map by `replace`, then rename
   the reachable references) is a graph isomorphism whenever the renaming is one-to-one on the ids
   the document uses; instantiation for the dense pass; dense numbering and max_id. *)
From LV Require Import Base.Bytes Model.Obj Model.DocQ Model.PageTree Model.Traverse Model.Renumber
  Spec.RenumberSpec Proofs.RenumberProofsMap Proofs.RenumberProofsTrav Proofs.RenumberProofsTravO.

(* ---------- rename / refs_of algebra ---------- *)
Lemma refs_of_rename f o : refs_of (rename f o) = map f (refs_of o).
Proof.
  induction o as [|b|z|r|n|s h|l Hl|d Hd|d c Hd|i g] using obj_ind'; try reflexivity; cbn [rename refs_of].
  - induction Hl as [|x l Hx Hl IH]; cbn [map flat_map]; [reflexivity|]. rewrite map_app. congruence.
  - induction Hd as [|x l Hx Hl IH]; cbn [map flat_map]; [reflexivity|]. rewrite map_app. cbn [snd]. congruence.
  - induction Hd as [|x l Hx Hl IH]; cbn [map flat_map]; [reflexivity|]. rewrite map_app. cbn [snd]. congruence.
  - unfold ref_obj. cbn [refs_of map]. destruct (f (i, g)); reflexivity.
Qed.

Lemma refs_of_rename_dict f d : refs_of_dict (rename_dict f d) = map f (refs_of_dict d).
Proof.
  unfold refs_of_dict, rename_dict. induction d as [|x d IH]; cbn [map flat_map fst snd]; [reflexivity|].
  rewrite map_app, refs_of_rename. congruence.
Qed.

Lemma rename_comp f g o : rename g (rename f o) = rename (fun x => g (f x)) o.
Proof.
  induction o as [|b|z|r|n|s h|l Hl|d Hd|d c Hd|i gg] using obj_ind'; try reflexivity; cbn [rename].
  - f_equal. induction Hl as [|x l Hx Hl IH]; cbn [map]; [reflexivity|]. congruence.
  - f_equal. induction Hd as [|x l Hx Hl IH]; cbn [map]; [reflexivity|]. cbn [fst snd]. congruence.
  - f_equal. induction Hd as [|x l Hx Hl IH]; cbn [map]; [reflexivity|]. cbn [fst snd]. congruence.
  - unfold ref_obj. destruct (f (i, gg)) as [a b] eqn:E. cbn [rename fst snd]. unfold ref_obj. reflexivity.
Qed.

Lemma rename_dict_comp f g d : rename_dict g (rename_dict f d) = rename_dict (fun x => g (f x)) d.
Proof.
  unfold rename_dict. induction d as [|x d IH]; cbn [map]; [reflexivity|]. cbn [fst snd]. rewrite rename_comp. congruence.
Qed.

Lemma rename_ext f g o : (forall x, In x (refs_of o) -> f x = g x) -> rename f o = rename g o.
Proof.
  induction o as [|b|z|r|n|s h|l Hl|d Hd|d c Hd|i gg] using obj_ind'; intro H; try reflexivity; cbn [rename].
  - f_equal. cbn [refs_of] in H. induction Hl as [|x l Hx Hl IH]; cbn [map]; [reflexivity|].
    cbn [flat_map] in H. f_equal; [apply Hx | apply IH]; intros; apply H; apply in_app_iff; auto.
  - f_equal. cbn [refs_of] in H. induction Hd as [|x l Hx Hl IH]; cbn [map]; [reflexivity|].
    cbn [flat_map] in H. f_equal; [f_equal; apply Hx | apply IH]; intros; apply H; apply in_app_iff; auto.
  - f_equal. cbn [refs_of] in H. induction Hd as [|x l Hx Hl IH]; cbn [map]; [reflexivity|].
    cbn [flat_map] in H. f_equal; [f_equal; apply Hx | apply IH]; intros; apply H; apply in_app_iff; auto.
  - rewrite H; [reflexivity | left; reflexivity].
Qed.

(* ---------- replace map ---------- *)
Lemma rlookup_in r old new : NoDup (map fst r) -> In (old, new) r -> rlookup r old = Some new.
Proof.
  induction r as [|[a b] r IH]; cbn [map fst rlookup In]; intros ND H; [contradiction|].
  inversion ND; subst. destruct H as [H|H].
  - inversion H; subst. rewrite oid_eqb_refl. reflexivity.
  - destruct (oid_eqb a old) eqn:E; [|auto]. apply oid_eqb_eq in E. subst.
    exfalso. apply H2. apply in_map_iff. exists (old, new). auto.
Qed.

Lemma rlookup_notin r x : ~ In x (map fst r) -> rlookup r x = None.
Proof.
  induction r as [|[a b] r IH]; cbn [map fst rlookup In]; intro H; [reflexivity|].
  destruct (oid_eqb a x) eqn:E; [apply oid_eqb_eq in E; subst; tauto | apply IH; tauto].
Qed.

Lemma rlookup_some r x y : rlookup r x = Some y -> In (x, y) r.
Proof.
  induction r as [|[a b] r IH]; cbn [rlookup In]; [discriminate|].
  destruct (oid_eqb a x) eqn:E; [|auto]. apply oid_eqb_eq in E. subst. intro H; inversion H; auto.
Qed.

(* ---------- moving the objects ---------- *)
Lemma has_obj_lookup m x : has_obj m x <-> lookup m x <> None.
Proof.
  split.
  - intros H E. apply lookup_none in E. contradiction.
  - intro H. destruct (lookup m x) eqn:E; [eapply lookup_has; eauto | congruence].
Qed.

Lemma moves_spec : forall r m c,
  sorted_keys m -> sorted_keys c -> NoDup (map fst r) -> NoDup (map snd r) ->
  (forall old, In old (map fst r) -> has_obj m old) ->
  exists m1 c1, dense_moves r m c = (m1, c1) /\ sorted_keys m1 /\ sorted_keys c1 /\
    (forall x, lookup m1 x = if mem_oid x (map fst r) then None else lookup m x) /\
    (forall old new, In (old, new) r -> lookup c1 new = lookup m old) /\
    (forall x, ~ In x (map snd r) -> lookup c1 x = lookup c x).
Proof.
  induction r as [|[old new] r IH]; intros m c Sm Sc ND1 ND2 Hh; cbn [dense_moves].
  - exists m, c. repeat split; auto. intros ? ? [].
  - cbn [map fst snd] in *. inversion ND1 as [|? ? Hn1 ND1']; inversion ND2 as [|? ? Hn2 ND2']; subst.
    destruct (has_lookup m old (Hh old (or_introl eq_refl))) as [o Ho]. rewrite Ho.
    destruct (IH (remove m old) (insert c new o)) as [m1 [c1 [E [S1 [S2 [L1 [L2 L3]]]]]]]; auto.
    { apply sorted_remove; auto. } { apply sorted_insert; auto. }
    { intros old' Hin. apply has_obj_lookup. rewrite lookup_remove by auto.
      destruct (oid_eqb old old') eqn:Eo; [apply oid_eqb_eq in Eo; subst; contradiction|].
      apply has_obj_lookup. apply Hh. right; exact Hin. }
    exists m1, c1. split; [exact E|]. split; [exact S1|]. split; [exact S2|]. split; [|split].
    + intro x. rewrite L1, lookup_remove by auto. cbn [mem_oid existsb].
      fold (mem_oid x (map fst r)). rewrite (oid_eqb_sym x old).
      destruct (oid_eqb old x); cbn [orb]; [destruct (mem_oid x (map fst r)); reflexivity | reflexivity].
    + intros old' new' [Hin|Hin].
      * inversion Hin; subst. rewrite L3 by exact Hn2. rewrite lookup_insert, oid_eqb_refl. congruence.
      * rewrite (L2 _ _ Hin), lookup_remove by auto.
        destruct (oid_eqb old old') eqn:Eo; [|reflexivity]. apply oid_eqb_eq in Eo. subst.
        exfalso. apply Hn1. apply in_map_iff. exists (old', new'). auto.
    + intros x Hx. cbn [map snd In] in Hx. rewrite L3 by tauto. rewrite lookup_insert.
      destruct (oid_eqb new x) eqn:En; [|reflexivity]. apply oid_eqb_eq in En. subst. tauto.
Qed.

Lemma insert_all_spec : forall c m,
  NoDup (map fst c) -> sorted_keys m ->
  sorted_keys (insert_all c m) /\
  forall x, lookup (insert_all c m) x = match lookup c x with Some o => Some o | None => lookup m x end.
Proof.
  unfold insert_all. induction c as [|[k o] c IH]; intros m ND Sm; cbn [fold_left fst snd].
  - split; auto.
  - inversion ND; subst. destruct (IH (insert m k o)) as [S L]; auto. { apply sorted_insert; auto. }
    split; [exact S|]. intro x. rewrite L, lookup_insert. cbn [lookup].
    destruct (oid_eqb k x) eqn:E; [|reflexivity]. apply oid_eqb_eq in E. subst.
    replace (lookup c x) with (@None obj); [reflexivity|]. symmetry. apply lookup_none. exact H1.
Qed.

(* ---------- one pass ---------- *)
Section Pass.
  Variable tr : dict.
  Variable m : objmap.
  Variable r : rmap.
  Variable P : oid -> Prop.          (* the ids the document uses: objects, reachable references, bookmark targets *)
  Let g := rename_of r.

  Hypothesis Hsorted : sorted_keys m.
  Hypothesis Holds_nodup : NoDup (map fst r).
  Hypothesis Holds_have : forall old, In old (map fst r) -> has_obj m old.
  Hypothesis HP_obj : forall x, has_obj m x -> P x.
  Hypothesis HP_reach : forall x, reach tr m x -> P x.
  Hypothesis Hinj : inj_on P g.

  Lemma g_moved old new : In (old, new) r -> g old = new.
  Proof. intro H. unfold g, rename_of. rewrite (rlookup_in _ _ _ Holds_nodup H). reflexivity. Qed.

  Lemma g_unmoved x : ~ In x (map fst r) -> g x = x.
  Proof. intro H. unfold g, rename_of. rewrite rlookup_notin by exact H. reflexivity. Qed.

  Lemma news_nodup : NoDup (map snd r).
  Proof.
    assert (K : forall r0, incl r0 r -> NoDup (map fst r0) -> NoDup (map snd r0)).
    { induction r0 as [|[a b] r0 IH]; intros Hi ND; cbn [map snd]; [constructor|].
      inversion ND; subst. constructor.
      - intro Hin. apply in_map_iff in Hin. destruct Hin as [[a' b'] [E Hin]]. cbn [snd] in E. subst b'.
        assert (Ha : In (a, b) r) by (apply Hi; left; reflexivity).
        assert (Ha' : In (a', b) r) by (apply Hi; right; exact Hin).
        assert (a = a').
        { apply Hinj.
          - apply HP_obj, Holds_have. apply in_map_iff. exists (a, b). auto.
          - apply HP_obj, Holds_have. apply in_map_iff. exists (a', b). auto.
          - rewrite (g_moved a b Ha), (g_moved a' b Ha'). reflexivity. }
        subst a'. apply H1. apply in_map_iff. exists (a, b). auto.
      - apply IH; auto. intros x Hx. apply Hi. right; exact Hx. }
    apply K; auto. apply incl_refl.
  Qed.

  Lemma rekey_spec :
    exists m1 c1, dense_moves r m [] = (m1, c1) /\
      let m2 := insert_all c1 m1 in
      sorted_keys m2 /\
      (forall id, has_obj m id -> lookup m2 (g id) = lookup m id) /\
      (forall x, has_obj m2 x -> exists id, has_obj m id /\ x = g id).
  Proof.
    destruct (moves_spec r m [] Hsorted) as [m1 [c1 [E [S1 [S2 [L1 [L2 L3]]]]]]]; auto.
    { constructor. } { apply news_nodup. }
    exists m1, c1. split; [exact E|]. cbv zeta.
    destruct (insert_all_spec c1 m1) as [S L]; auto. { apply sorted_nodup. exact S2. }
    split; [exact S|]. split.
    - intros id Hid. rewrite L. destruct (in_dec oid_eq_dec id (map fst r)) as [Hin|Hnin].
      + apply in_map_iff in Hin. destruct Hin as [[a b] [Ea Hin]]. cbn [fst] in Ea. subst a.
        rewrite (g_moved _ _ Hin), (L2 _ _ Hin).
        destruct (has_lookup m id Hid) as [o Ho]. rewrite Ho. reflexivity.
      + rewrite (g_unmoved _ Hnin).
        assert (Hn : ~ In id (map snd r)).
        { intro Hin. apply in_map_iff in Hin. destruct Hin as [[a b] [Eb Hin]]. cbn [snd] in Eb. subst b.
          apply Hnin. replace id with a; [apply in_map_iff; exists (a, id); auto|].
          apply Hinj; [apply HP_obj, Holds_have; apply in_map_iff; exists (a, id); auto | apply HP_obj; exact Hid|].
          rewrite (g_moved _ _ Hin), (g_unmoved _ Hnin). reflexivity. }
        rewrite (L3 _ Hn). cbn [lookup]. rewrite L1.
        apply mem_oid_nIn in Hnin. rewrite Hnin. reflexivity.
    - intros x Hx. apply has_obj_lookup in Hx. rewrite L in Hx.
      destruct (in_dec oid_eq_dec x (map snd r)) as [Hin|Hnin].
      + apply in_map_iff in Hin. destruct Hin as [[a b] [Eb Hin]]. cbn [snd] in Eb. subst b.
        exists a. split; [apply Holds_have; apply in_map_iff; exists (a, x); auto | symmetry; apply g_moved; exact Hin].
      + rewrite (L3 _ Hnin) in Hx. cbn [lookup] in Hx. rewrite L1 in Hx.
        destruct (mem_oid x (map fst r)) eqn:Em; [congruence|]. apply mem_oid_nIn in Em.
        exists x. split; [apply has_obj_lookup; exact Hx | symmetry; apply g_unmoved; exact Em].
  Qed.

  (* the result of the pass: m2 (re-keyed), then traverse with g *)
  Variable m2 : objmap.
  Hypothesis Hm2_sorted : sorted_keys m2.
  Hypothesis Hm2_fwd : forall id, has_obj m id -> lookup m2 (g id) = lookup m id.
  Hypothesis Hm2_bwd : forall x, has_obj m2 x -> exists id, has_obj m id /\ x = g id.

  Lemma m2_dangling id : P id -> ~ has_obj m id -> lookup m2 (g id) = None.
  Proof.
    intros Hp Hn. apply lookup_none. intro Hh. destruct (Hm2_bwd _ Hh) as [id' [Hh' E]].
    apply Hn. replace id with id'; [exact Hh'|]. symmetry. apply Hinj; auto.
  Qed.

  Lemma m2_lookup id : P id -> lookup m2 (g id) = lookup m id.
  Proof.
    intro Hp. destruct (lookup m id) eqn:E.
    - rewrite Hm2_fwd; [exact E | eapply lookup_has; eauto].
    - apply m2_dangling; auto. apply lookup_none. exact E.
  Qed.

  Lemma reachf_iff x : reachf g tr m2 x <-> exists id, reach tr m id /\ x = g id.
  Proof.
    split.
    - induction 1 as [r0 Hr | y o r0 Hy IH Hl Hr].
      + exists r0. split; [apply reach_root; exact Hr | reflexivity].
      + destruct IH as [id [Hid ->]]. exists r0. split; [|reflexivity].
        rewrite m2_lookup in Hl by (apply HP_reach; exact Hid). eapply reach_step; eauto.
    - intros [id [Hid ->]]. induction Hid as [r0 Hr | id o r0 Hid IH Hl Hr].
      + apply reachf_root. exact Hr.
      + eapply reachf_step; [exact IH | | exact Hr]. rewrite m2_lookup by (apply HP_reach; exact Hid). exact Hl.
  Qed.

  Variable tr' : dict.
  Variable m3 : objmap.
  Hypothesis Htr : tr' = rename_dict g tr.
  Hypothesis Hkeys3 : map fst m3 = map fst m2.
  Hypothesis Hm3_in : forall x, reachf g tr m2 x -> lookup m3 x = option_map (rename g) (lookup m2 x).
  Hypothesis Hm3_out : forall x, ~ reachf g tr m2 x -> lookup m3 x = lookup m2 x.

  Lemma pass_reachable id : reach tr m id -> lookup m3 (g id) = option_map (rename g) (lookup m id).
  Proof.
    intro H. rewrite Hm3_in by (apply reachf_iff; eauto). rewrite m2_lookup by auto. reflexivity.
  Qed.

  Lemma pass_unreachable id : P id -> ~ reach tr m id -> lookup m3 (g id) = lookup m id.
  Proof.
    intros Hp H. rewrite Hm3_out.
    - apply m2_lookup. exact Hp.
    - intro K. apply reachf_iff in K. destruct K as [id' [Hr E]]. apply H.
      replace id with id'; [exact Hr|]. symmetry. apply Hinj; auto.
  Qed.

  Lemma pass_has_fwd id : has_obj m id -> has_obj m3 (g id).
  Proof.
    intro H. unfold has_obj. rewrite Hkeys3. apply has_obj_lookup. rewrite Hm2_fwd by exact H.
    apply has_obj_lookup. exact H.
  Qed.

  Lemma pass_has_bwd x : has_obj m3 x -> exists id, has_obj m id /\ x = g id.
  Proof. unfold has_obj at 1. rewrite Hkeys3. apply Hm2_bwd. Qed.

  Lemma pass_sorted : sorted_keys m3.
  Proof. unfold sorted_keys. rewrite Hkeys3. exact Hm2_sorted. Qed.

  Lemma pass_reach x : reach tr' m3 x <-> exists id, reach tr m id /\ x = g id.
  Proof.
    subst tr'. split.
    - induction 1 as [r0 Hr | y o r0 Hy IH Hl Hr].
      + rewrite refs_of_rename_dict in Hr. apply in_map_iff in Hr. destruct Hr as [r1 [<- Hr]].
        exists r1. split; [apply reach_root; exact Hr | reflexivity].
      + destruct IH as [id [Hid ->]]. rewrite pass_reachable in Hl by exact Hid.
        destruct (lookup m id) as [o0|] eqn:E; cbn [option_map] in Hl; [|discriminate].
        inversion Hl; subst o. rewrite refs_of_rename in Hr. apply in_map_iff in Hr. destruct Hr as [r1 [<- Hr]].
        exists r1. split; [eapply reach_step; eauto | reflexivity].
    - intros [id [Hid ->]]. induction Hid as [r0 Hr | id o r0 Hid IH Hl Hr].
      + apply reach_root. rewrite refs_of_rename_dict. apply in_map. exact Hr.
      + eapply reach_step; [exact IH | rewrite pass_reachable by exact Hid; rewrite Hl; reflexivity|].
        rewrite refs_of_rename. apply in_map. exact Hr.
  Qed.
End Pass.

(* ================= the pass that also writes dangling references as null =================
   (dense pass since the repair of C10/dangling-in-range) *)

(* ---------- rename_o / refs_of algebra ---------- *)
Lemma refs_of_rename_o f o : refs_of (rename_o f o) = keep f (refs_of o).
Proof.
  induction o as [|b|z|r|n|s h|l Hl|d Hd|d c Hd|i g] using obj_ind'; try reflexivity; cbn [rename_o refs_of].
  - induction Hl as [|x l Hx Hl IH]; cbn [map flat_map]; [reflexivity|]. rewrite keep_app. congruence.
  - induction Hd as [|x l Hx Hl IH]; cbn [map flat_map]; [reflexivity|]. rewrite keep_app. cbn [snd]. congruence.
  - induction Hd as [|x l Hx Hl IH]; cbn [map flat_map]; [reflexivity|]. rewrite keep_app. cbn [snd]. congruence.
  - unfold keep. cbn [flat_map]. destruct (f (i, g)) as [[a b]|]; reflexivity.
Qed.

Lemma refs_of_rename_dict_o f d : refs_of_dict (rename_dict_o f d) = keep f (refs_of_dict d).
Proof.
  unfold refs_of_dict, rename_dict_o. induction d as [|x d IH]; cbn [map flat_map fst snd]; [reflexivity|].
  rewrite keep_app, refs_of_rename_o. congruence.
Qed.

Lemma rename_o_ext f g o : (forall x, In x (refs_of o) -> f x = g x) -> rename_o f o = rename_o g o.
Proof.
  induction o as [|b|z|r|n|s h|l Hl|d Hd|d c Hd|i gg] using obj_ind'; intro H; try reflexivity; cbn [rename_o].
  - f_equal. cbn [refs_of] in H. induction Hl as [|x l Hx Hl IH]; cbn [map]; [reflexivity|].
    cbn [flat_map] in H. f_equal; [apply Hx | apply IH]; intros; apply H; apply in_app_iff; auto.
  - f_equal. cbn [refs_of] in H. induction Hd as [|x l Hx Hl IH]; cbn [map]; [reflexivity|].
    cbn [flat_map] in H. f_equal; [f_equal; apply Hx | apply IH]; intros; apply H; apply in_app_iff; auto.
  - f_equal. cbn [refs_of] in H. induction Hd as [|x l Hx Hl IH]; cbn [map]; [reflexivity|].
    cbn [flat_map] in H. f_equal; [f_equal; apply Hx | apply IH]; intros; apply H; apply in_app_iff; auto.
  - rewrite H; [reflexivity | left; reflexivity].
Qed.

Lemma rename_dict_o_ext f g d : (forall x, In x (refs_of_dict d) -> f x = g x) -> rename_dict_o f d = rename_dict_o g d.
Proof.
  unfold rename_dict_o, refs_of_dict. induction d as [|x d IH]; cbn [map flat_map]; intro H; [reflexivity|].
  f_equal; [f_equal; apply rename_o_ext | apply IH]; intros; apply H; apply in_app_iff; auto.
Qed.

(* renaming by a total function first, then by a partial one *)
Lemma rename_o_rename f a o : rename_o a (rename f o) = rename_o (fun x => a (f x)) o.
Proof.
  induction o as [|b|z|r|n|s h|l Hl|d Hd|d c Hd|i gg] using obj_ind'; try reflexivity; cbn [rename rename_o].
  - f_equal. induction Hl as [|x l Hx Hl IH]; cbn [map]; [reflexivity|]. congruence.
  - f_equal. induction Hd as [|x l Hx Hl IH]; cbn [map]; [reflexivity|]. cbn [fst snd]. congruence.
  - f_equal. induction Hd as [|x l Hx Hl IH]; cbn [map]; [reflexivity|]. cbn [fst snd]. congruence.
  - unfold ref_obj. destruct (f (i, gg)) as [p q] eqn:E. cbn [rename_o fst snd]. reflexivity.
Qed.

Lemma rename_dict_o_rename f a d : rename_dict_o a (rename_dict f d) = rename_dict_o (fun x => a (f x)) d.
Proof.
  unfold rename_dict_o, rename_dict. induction d as [|x d IH]; cbn [map]; [reflexivity|]. cbn [fst snd].
  rewrite rename_o_rename. congruence.
Qed.

Lemma live_some m rho id : has_obj m id -> live m rho id = Some (rho id).
Proof. intro H. unfold live. destruct (has_lookup m id H) as [o ->]. reflexivity. Qed.

Lemma live_none m rho id : ~ has_obj m id -> live m rho id = None.
Proof. intro H. unfold live. apply lookup_none in H. rewrite H. reflexivity. Qed.

Lemma live_inv m rho id y : live m rho id = Some y -> has_obj m id /\ y = rho id.
Proof.
  unfold live. destruct (lookup m id) eqn:E; intro H; inversion H. split; [eapply lookup_has; eauto | reflexivity].
Qed.

Section PassO.
  Variable tr : dict.
  Variable m : objmap.
  Variable g : oid -> oid.            (* the renaming of the ids that name objects *)
  Variable a : oid -> option oid.     (* the action on references *)
  Hypothesis Ha : forall id, a id = live m g id.
  Hypothesis Hinj : inj_on (has_obj m) g.

  (* the map after re-keying *)
  Variable m2 : objmap.
  Hypothesis Hm2_fwd : forall id, has_obj m id -> lookup m2 (g id) = lookup m id.
  Hypothesis Hm2_bwd : forall x, has_obj m2 x -> exists id, has_obj m id /\ x = g id.

  Lemma a_some id : has_obj m id -> a id = Some (g id).
  Proof. intro H. rewrite Ha. apply live_some. exact H. Qed.

  Lemma a_inv id y : a id = Some y -> has_obj m id /\ y = g id.
  Proof. rewrite Ha. apply live_inv. Qed.

  Lemma reachfo_iff x : reachfo a tr m2 x <-> exists id, reach tr m id /\ has_obj m id /\ x = g id.
  Proof.
    split.
    - induction 1 as [r0 y Hr Er | z o r0 y Hz IH Hl Hr Er].
      + apply a_inv in Er. destruct Er as [Hh ->]. exists r0. split; [apply reach_root; exact Hr | auto].
      + destruct IH as [id [Hid [Hh ->]]]. apply a_inv in Er. destruct Er as [Hh0 ->].
        exists r0. split; [|auto]. rewrite Hm2_fwd in Hl by exact Hh. eapply reach_step; eauto.
    - intros [id [Hid [Hh ->]]]. revert Hh. induction Hid as [r0 Hr | id o r0 Hid IH Hl Hr]; intro Hh.
      + eapply reachfo_root; [exact Hr | apply a_some; exact Hh].
      + assert (Hi : has_obj m id) by (eapply lookup_has; eauto).
        eapply reachfo_step; [exact (IH Hi) | rewrite Hm2_fwd by exact Hi; exact Hl | exact Hr | apply a_some; exact Hh].
  Qed.

  Variable tr' : dict.
  Variable m3 : objmap.
  Hypothesis Htr : tr' = rename_dict_o a tr.
  Hypothesis Hkeys3 : map fst m3 = map fst m2.
  Hypothesis Hm3_in : forall x, reachfo a tr m2 x -> lookup m3 x = option_map (rename_o a) (lookup m2 x).
  Hypothesis Hm3_out : forall x, ~ reachfo a tr m2 x -> lookup m3 x = lookup m2 x.

  Lemma passo_reachable id : reach tr m id -> has_obj m id -> lookup m3 (g id) = option_map (rename_o a) (lookup m id).
  Proof.
    intros H Hh. rewrite Hm3_in by (apply reachfo_iff; eauto). rewrite Hm2_fwd by exact Hh. reflexivity.
  Qed.

  Lemma passo_unreachable id : has_obj m id -> ~ reach tr m id -> lookup m3 (g id) = lookup m id.
  Proof.
    intros Hh H. rewrite Hm3_out.
    - apply Hm2_fwd. exact Hh.
    - intro K. apply reachfo_iff in K. destruct K as [id' [Hr [Hh' E]]]. apply H.
      replace id with id'; [exact Hr|]. symmetry. apply Hinj; auto.
  Qed.

  Lemma passo_has_fwd id : has_obj m id -> has_obj m3 (g id).
  Proof.
    intro H. unfold has_obj. rewrite Hkeys3. apply has_obj_lookup. rewrite Hm2_fwd by exact H.
    apply has_obj_lookup. exact H.
  Qed.

  Lemma passo_has_bwd x : has_obj m3 x -> exists id, has_obj m id /\ x = g id.
  Proof. unfold has_obj at 1. rewrite Hkeys3. apply Hm2_bwd. Qed.

  Lemma passo_reach x : reach tr' m3 x <-> exists id, reach tr m id /\ has_obj m id /\ x = g id.
  Proof.
    subst tr'. split.
    - induction 1 as [r0 Hr | y o r0 Hy IH Hl Hr].
      + rewrite refs_of_rename_dict_o in Hr. apply keep_in in Hr. destruct Hr as [r1 [Hr E]].
        apply a_inv in E. destruct E as [Hh ->]. exists r1. split; [apply reach_root; exact Hr | auto].
      + destruct IH as [id [Hid [Hh ->]]]. rewrite passo_reachable in Hl by assumption.
        destruct (lookup m id) as [o0|] eqn:E; cbn [option_map] in Hl; [|discriminate].
        inversion Hl; subst o. rewrite refs_of_rename_o in Hr. apply keep_in in Hr. destruct Hr as [r1 [Hr Er]].
        apply a_inv in Er. destruct Er as [Hh1 ->]. exists r1. split; [eapply reach_step; eauto | auto].
    - intros [id [Hid [Hh ->]]]. revert Hh. induction Hid as [r0 Hr | id o r0 Hid IH Hl Hr]; intro Hh.
      + apply reach_root. rewrite refs_of_rename_dict_o. apply keep_in. exists r0. split; [exact Hr | apply a_some; exact Hh].
      + assert (Hi : has_obj m id) by (eapply lookup_has; eauto).
        eapply reach_step; [exact (IH Hi) | rewrite passo_reachable by assumption; rewrite Hl; reflexivity|].
        rewrite refs_of_rename_o. apply keep_in. exists r0. split; [exact Hr | apply a_some; exact Hh].
  Qed.

  (* afterwards no reachable reference is dangling *)
  Lemma passo_closed : closed tr' m3.
  Proof. intros x Hx. apply passo_reach in Hx. destruct Hx as [id [_ [Hh ->]]]. apply passo_has_fwd. exact Hh. Qed.
End PassO.
