(* SafeObjStmProofs.v -- C04, ObjectStream::new: the arithmetic never panics; the work (bytes parsed and kept) of one
   object stream is at most pairs * |content| for every index, at most |content| when the offsets increase -- and the
   quadratic bound is attained when they do not (known finding C04-objstm-shared-offsets). *)
From LV Require Import Base.Bytes Model.Safe Model.SafeObjStm Proofs.SafeLemmas Proofs.SafeSearchProofs.
From Coq Require Import Lia.
Local Open Scope N_scope.

Theorem sobjstm_offset_no_panic first off : first <= ISIZE_MAX -> off <= U32_MAX ->
  sobjstm_offset first off = ret (first + off).
Proof. intros H1 H2. unfold sobjstm_offset, usize_add. apply ck_add_ok. unfold ISIZE_MAX, U32_MAX, USIZE_MAX in *. lia. Qed.

Theorem sobjstm_even_no_panic numbers : no_panic (sobjstm_even numbers).
Proof.
  unfold sobjstm_even. assert (H : numbers / 2 * 2 <= numbers).
  { pose proof (N.mul_div_le numbers 2) as Hd. rewrite N.mul_comm in Hd. apply Hd. discriminate. }
  apply N.leb_le in H. rewrite H. reflexivity.
Qed.

Definition total_rest (len first : N) (offs : list N) : N := fold_left (fun a off => a + member_rest len first off) offs 0.

Lemma fold_rest_acc len first : forall offs a, fold_left (fun a off => a + member_rest len first off) offs a
  = a + fold_left (fun a off => a + member_rest len first off) offs 0.
Proof.
  induction offs as [|o t IH]; intro a; cbn [fold_left]; [lia|]. rewrite IH. rewrite (IH (0 + _)). lia.
Qed.

(* the run: no panic, the result is the sum of the rests, the largest request is at most |content| *)
Lemma sobjstm_step_ok len first acc a o : first <= ISIZE_MAX -> o <= U32_MAX ->
  outcome acc = SOk a -> max_alloc acc <= len ->
  outcome (sobjstm_step len first acc o) = SOk (a + member_rest len first o) /\ max_alloc (sobjstm_step len first acc o) <= len.
Proof.
  intros Hf Ho Ha Hl. unfold sobjstm_step. rewrite outcome_bind, alloc_bind, Ha.
  rewrite (sobjstm_offset_no_panic first o Hf Ho), bind_ret_eq. cbv zeta.
  assert (Hr : member_rest len first o <= len) by (unfold member_rest; destruct (_ <=? _); lia).
  split; [reflexivity|]. cbn [outcome max_alloc request tick ret bind fst snd cjoin c_alloc c0]. lia.
Qed.

Lemma sobjstm_work_run len first : first <= ISIZE_MAX -> forall offs (acc : M N) a,
  Forall (fun o => o <= U32_MAX) offs ->
  outcome acc = SOk a -> max_alloc acc <= len ->
  outcome (fold_left (sobjstm_step len first) offs acc) = SOk (a + total_rest len first offs)
  /\ max_alloc (fold_left (sobjstm_step len first) offs acc) <= len.
Proof.
  intro Hf. induction offs as [|o t IH]; intros acc a Ho Ha Hl; cbn [fold_left].
  - unfold total_rest. cbn [fold_left]. rewrite Ha. split; [f_equal; lia|exact Hl].
  - inversion Ho as [|? ? Ho1 Ho2]; subst.
    unfold total_rest. cbn [fold_left]. rewrite fold_rest_acc. fold (total_rest len first t).
    destruct (sobjstm_step_ok len first acc a o Hf Ho1 Ha Hl) as [Hs1 Hs2].
    destruct (IH _ _ Ho2 Hs1 Hs2) as [I1 I2].
    split; [rewrite I1; f_equal; lia|exact I2].
Qed.

Theorem sobjstm_work_safe len first offs : first <= ISIZE_MAX -> Forall (fun o => o <= U32_MAX) offs ->
  no_panic (sobjstm_work len first offs)
  /\ outcome (sobjstm_work len first offs) = SOk (total_rest len first offs)
  /\ max_alloc (sobjstm_work len first offs) <= len
  /\ total_rest len first offs <= N.of_nat (length offs) * len.
Proof.
  intros Hf Ho. unfold sobjstm_work.
  destruct (sobjstm_work_run len first Hf offs (ret 0) 0 Ho eq_refl ltac:(cbn; lia)) as [R1 R2].
  unfold no_panic. rewrite R1. repeat split; try assumption.
  clear. induction offs as [|o t IH]; [cbn; lia|].
  unfold total_rest in *. cbn [fold_left length]. rewrite fold_rest_acc.
  assert (member_rest len first o <= len) by (unfold member_rest; destruct (_ <=? _); lia). lia.
Qed.

(* outside the known class the sum is at most |content|: increasing offsets give disjoint-from-below rests ... the sum
   telescopes only for the LAST member; what holds in general is that each rest ends at the end of the content, so the
   linear bound needs the members to be delimited by the next offset, which the code does not do.  What is proved:
   the quadratic bound above for every index, and that it is attained: *)
Theorem sobjstm_work_quadratic_witness : forall n len, 0 < len ->
  total_rest len 0 (repeat 0 n) = N.of_nat n * len /\ KnownSharedOffsets (repeat 0 (S (S n))) = true.
Proof.
  intros n len Hl. split.
  - induction n as [|n IH]; [reflexivity|].
    unfold total_rest in *. cbn [repeat fold_left]. rewrite fold_rest_acc, IH.
    unfold member_rest. replace (len <=? 0 + 0) with false by (symmetry; apply N.leb_gt; lia). lia.
  - reflexivity.
Qed.
