(* SafeObjStmProofs.v -- C04, ObjectStream::new: the arithmetic never panics; the work (bytes parsed and kept) of one
   object stream is at most (MAX_MEMBER_OVERLAP + 1) * |content| for EVERY index and whatever the parser answers -- linear
   since the repair of C04-objstm-shared-offsets; before it was the sum of the rests, pairs * |content| for an index that
   repeats an offset (the witness is kept as a statement about the pinned code). *)
From LV Require Import Base.Bytes Model.Safe Model.SafeObjStm Proofs.SafeLemmas Proofs.SafeSearchProofs Gen.ObjStmC.
From Coq Require Import Lia.
Local Open Scope N_scope.

Theorem sobjstm_offset_no_panic first off : first <= ISIZE_MAX -> off <= U32_MAX ->
  sobjstm_offset first off = ret (first + off).
Proof. intros H1 H2. unfold sobjstm_offset, usize_add. apply ck_add_ok. unfold ISIZE_MAX, U32_MAX, USIZE_MAX in *. lia. Qed.

Theorem sobjstm_even_no_panic numbers : no_panic (sobjstm_even numbers).
Proof.
  unfold sobjstm_even. assert (H : numbers / 2 * 2 <= numbers).
  { pose proof (N.mul_div_le numbers 2) as Hd. rewrite N.mul_comm in Hd. apply Hd. discriminate. }
  apply N.leb_le in H. rewrite H. reflexivity.
Qed.

Lemma member_charge_le len first ou : member_charge len first ou <= len.
Proof. unfold member_charge, member_rest. destruct (_ <=? _); lia. Qed.

(* one pair: no panic; `spent` and the steps grow by the same amount, which is 0 when spent is above the limit already,
   at most |content| otherwise; the request is at most |content| *)
Lemma sobjstm_step_ok len first acc s ou : first <= ISIZE_MAX -> fst ou <= U32_MAX ->
  outcome acc = SOk s ->
  exists u, outcome (sobjstm_step len first acc ou) = SOk (s + u)
    /\ steps (sobjstm_step len first acc ou) = steps acc + u
    /\ max_alloc (sobjstm_step len first acc ou) = N.max (max_alloc acc) u
    /\ u <= len /\ (sobjstm_limit len < s -> u = 0).
Proof.
  intros Hf Ho Ha. unfold sobjstm_step. rewrite outcome_bind, steps_bind, alloc_bind, Ha.
  rewrite (sobjstm_offset_no_panic first (fst ou) Hf Ho), bind_ret_eq.
  destruct (len <=? first + fst ou).
  - exists 0. cbn [outcome steps max_alloc ret fst snd c0 c_steps c_alloc]. rewrite !N.add_0_r.
    repeat split; try lia.
  - destruct (sobjstm_limit len <? s) eqn:El.
    + exists 0. cbn [outcome steps max_alloc ret fst snd c0 c_steps c_alloc]. rewrite !N.add_0_r.
      repeat split; try lia.
    + exists (member_charge len first ou). pose proof (member_charge_le len first ou).
      cbn [outcome steps max_alloc request tick ret bind fst snd cjoin c_steps c_alloc c0].
      apply N.ltb_ge in El. repeat split; try lia.
Qed.

Lemma sobjstm_work_run len first : first <= ISIZE_MAX -> forall ous (acc : M N) s,
  Forall (fun ou => fst ou <= U32_MAX) ous ->
  outcome acc = SOk s -> steps acc <= s -> max_alloc acc <= len -> s <= sobjstm_limit len + len ->
  exists s', outcome (fold_left (sobjstm_step len first) ous acc) = SOk s'
    /\ steps (fold_left (sobjstm_step len first) ous acc) <= s'
    /\ max_alloc (fold_left (sobjstm_step len first) ous acc) <= len
    /\ s' <= sobjstm_limit len + len.
Proof.
  intro Hf. induction ous as [|ou t IH]; intros acc s Ho Ha Hs Hl Hb; cbn [fold_left].
  - exists s. auto.
  - inversion Ho as [|? ? Ho1 Ho2]; subst.
    destruct (sobjstm_step_ok len first acc s ou Hf Ho1 Ha) as [u [S1 [S2 [S3 [S4 S5]]]]].
    apply (IH _ (s + u) Ho2 S1); [lia|lia|].
    destruct (N.ltb_spec (sobjstm_limit len) s) as [Hgt|Hle]; [rewrite (S5 Hgt); lia|lia].
Qed.

Theorem sobjstm_work_safe len first ous : first <= ISIZE_MAX -> Forall (fun ou => fst ou <= U32_MAX) ous ->
  no_panic (sobjstm_work len first ous)
  /\ exists spent, outcome (sobjstm_work len first ous) = SOk spent
     /\ steps (sobjstm_work len first ous) <= spent
     /\ max_alloc (sobjstm_work len first ous) <= len
     /\ spent <= (MAX_MEMBER_OVERLAP + 1) * len.
Proof.
  intros Hf Ho. unfold sobjstm_work.
  destruct (sobjstm_work_run len first Hf ous (ret 0) 0 Ho eq_refl ltac:(cbn; lia) ltac:(cbn; lia) ltac:(lia))
    as [s [R1 [R2 [R3 R4]]]].
  split; [unfold no_panic; rewrite R1; reflexivity|].
  exists s. repeat split; try assumption.
  unfold sobjstm_limit in R4. lia.
Qed.

(* ---- the pinned code (before the repair): the sum of the rests, quadratic for an index that repeats an offset ---- *)
Lemma fold_rest_acc len first : forall offs a, fold_left (fun a off => a + member_rest len first off) offs a
  = a + fold_left (fun a off => a + member_rest len first off) offs 0.
Proof.
  induction offs as [|o t IH]; intro a; cbn [fold_left]; [lia|]. rewrite IH. rewrite (IH (0 + _)). lia.
Qed.

Theorem sobjstm_work_quadratic_witness : forall n len, 0 < len ->
  total_rest len 0 (repeat 0 n) = N.of_nat n * len.
Proof.
  intros n len Hl. induction n as [|n IH]; [reflexivity|].
  unfold total_rest in *. cbn [repeat fold_left]. rewrite fold_rest_acc, IH.
  unfold member_rest. replace (len <=? 0 + 0) with false by (symmetry; apply N.leb_gt; lia). lia.
Qed.

(* the same index after the repair: whatever the parser takes at offset 0, n pairs cost at most (limit + 1) * len *)
Corollary sobjstm_shared_offsets_linear : forall n len used,
  exists spent, outcome (sobjstm_work len 0 (repeat (0, used) n)) = SOk spent /\ spent <= (MAX_MEMBER_OVERLAP + 1) * len.
Proof.
  intros n len used.
  destruct (sobjstm_work_safe len 0 (repeat (0, used) n)) as [_ [s [H1 [_ [_ H2]]]]].
  - unfold ISIZE_MAX. lia.
  - apply Forall_forall. intros x Hx. apply repeat_spec in Hx. subst x. cbn. unfold U32_MAX. lia.
  - exists s. auto.
Qed.
