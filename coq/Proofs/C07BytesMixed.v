(* C07BytesMixed.v -- C07, byte level, part 4: histories that MIX the two cross-reference formats.
   IncrementalDocument::save_internal takes the format of the appended section from
   prev_documents.reference_table.cross_reference_type (Incremental.inc_save: xd_type (i_prev s)); new_from_prev copies
   it, the loader sets it to the type of the NEWEST section.  reference_table is a public field of Document: the caller
   can change it between load and create_from, and the base file may come from another producer.  So a history can mix
   the formats.
     mixed_history            a base file (written by Document::save in either format, or ANY file satisfying the
                              byte-level invariant good_file) followed by a LIST of incremental saves; every step has its
                              OWN format tag (the type the update was made with) and records the type load returned
     mixed_history_good / mixed_history_loads
                              every file of such a history satisfies good_file, with the type of the newest step, hence
                              loads to the fold of the overlays (generalises history_good / history_loads)
     lopdf_history_mixed      a one-format history is the mixed history whose tags are all the base's
     mixed_loaded_type        in every step the type load returned is the type of the previous step (of the base)
     format_is_inherited      if every step is made with the type load returned (the API used without touching
                              reference_table) then every tag equals the base's format, and the history is a
                              lopdf_history: "one format per history" is a theorem about the untouched API
     mixed_edit_step          create_from + edits + inc_save with ANY format tag is a step of a mixed history *)
From LV Require Import Base.Bytes Base.Sx Model.Obj Model.DocQ Model.Writer Model.Parser Model.Save Model.Xref Model.Loader
  Model.Incremental Model.Utf Gen.Lex Gen.SaveFmt Gen.Inc Proofs.IncrementalProofs Proofs.LexProofs Proofs.RealProofs
  Proofs.ObjectRtProofs Proofs.SaveProofs Proofs.FilterProofsDict Spec.SaveSpec Proofs.LoadProofs Proofs.LoadProofsFile
  Proofs.LoadProofsXref Proofs.LoadProofsTable Proofs.LoadProofsAgain Proofs.LoadProofsStream Proofs.LoadProofsFull
  Proofs.StrictLoadProofs Proofs.StrictRevisionProofs Proofs.StrictIncrementalProofs Proofs.C07Bytes Proofs.C07BytesTable
  Proofs.C07BytesStream Proofs.C07BytesHistory.

Local Open Scope N_scope.

(* one step: the format the update is written in, and the cross-reference type load returned for the previous bytes *)
Definition mstep : Type := (xref_type * xtype)%type.

(* the type of the newest section: that of the newest step, of the base when there is none.  Steps: newest first. *)
Definition newest_type (base : xtype) (steps : list mstep) : xtype :=
  match steps with [] => base | st :: _ => xtype_of (fst st) end.

Inductive mixed_history : xtype -> list mstep -> bytes -> N -> objmap -> Prop :=
| mh_save fmt d :
    savable d -> known_deep d = false -> small_file fmt d -> dict_get (d_trailer d) K_XRefStm = None ->
    mixed_history (xtype_of fmt) [] (so_bytes (save fmt d)) (Save.blen (body_of d)) (d_objects (reloaded fmt d))
| mh_good F v m xs xt entries t objs :                  (* a base of any producer that satisfies the invariant *)
    good_file F v m xs xt entries t objs ->
    mixed_history xt [] F xs objs
| mh_update base steps F xs objs pd xt fmt s :
    mixed_history base steps F xs objs ->
    load F = LOk pd xt ->                                                    (* Document::load_mem on the previous bytes *)
    i_bytes s = F ->
    i_prev s = {| xd_doc := pd; xd_start := xs; xd_type := fmt |} ->        (* fmt: ANY, not tied to xt *)
    upd_dom xs (xd_doc (i_new s)) ->
    d_max_id pd <= d_max_id (xd_doc (i_new s)) ->                            (* new_from_prev copies max_id, add_object raises it *)
    Save.blen (io_bytes (inc_save s)) < u32_mod ->
    Forall (fun io : oid * obj => In (fst io) (map fst (d_objects pd)) \/ ~ In (fst (fst io)) (obj_numbers (d_objects pd)))
           (d_objects (xd_doc (i_new s))) ->
    mixed_history base ((fmt, xt) :: steps) (io_bytes (inc_save s)) (io_start (inc_save s))
                  (step_objs fmt objs (xd_doc (i_new s)) (Save.blen (F ++ inc_lines (xd_doc (i_new s))))).

(* ---------- the invariant ---------- *)
Theorem mixed_history_good base steps F xs objs :
  mixed_history base steps F xs objs ->
  exists v m entries t, good_file F v m xs (newest_type base steps) entries t objs.
Proof.
  induction 1 as [fmt d S K Hs Hstm | F v m xs xt entries t objs G
                  | base steps F xs objs pd xt fmt s H IH Hload Hb Hprev Hu Hmx Hlen Hids].
  - destruct (saved_good_gen fmt d S K Hs Hstm) as [entries G]. do 4 eexists. exact G.
  - do 4 eexists. exact G.
  - destruct IH as [v [m [entries [t G]]]].
    rewrite (good_file_loads _ _ _ _ _ _ _ _ G) in Hload. inversion Hload; subst pd.
    cbn [loaded d_objects d_max_id] in Hids, Hmx.
    assert (Hty : xd_type (i_prev s) = fmt) by (rewrite Hprev; reflexivity).
    destruct fmt; cbn [step_objs newest_type fst xtype_of].
    + destruct (inc_table_good_nums F v m xs _ entries t objs s G Hb Hty Hu Hlen Hids) as [_ G']. do 4 eexists. exact G'.
    + destruct (inc_stream_good_nums F v m xs _ entries t objs s G Hb Hty Hu Hlen Hids Hmx) as [_ G']. do 4 eexists. exact G'.
Qed.

Theorem mixed_history_loads base steps F xs objs :
  mixed_history base steps F xs objs ->
  get_xref_start F = Some xs /\
  exists v m t mx, load F = LOk {| d_version := v; d_binary_mark := m; d_trailer := t; d_objects := objs; d_max_id := mx |}
                                (newest_type base steps).
Proof.
  intro H. destruct (mixed_history_good base steps F xs objs H) as [v [m [entries [t G]]]].
  split; [apply (good_file_start _ _ _ _ _ _ _ _ G)|].
  exists v, m, t, (xmap_max entries). apply (good_file_loads _ _ _ _ _ _ _ _ G).
Qed.

(* every update of a mixed history succeeds, whatever format it is made with *)
Theorem mixed_update_ok base steps F xs objs pd fmt s :
  mixed_history base steps F xs objs -> i_bytes s = F -> i_prev s = {| xd_doc := pd; xd_start := xs; xd_type := fmt |} ->
  upd_dom xs (xd_doc (i_new s)) -> Save.blen (io_bytes (inc_save s)) < u32_mod ->
  io_status (inc_save s) = IncOk.
Proof.
  intros H Hb Hprev Hu Hlen. destruct (mixed_history_good base steps F xs objs H) as [v [m [entries [t G]]]].
  destruct (good_file_offset _ _ _ _ _ _ _ _ G) as [Hoff [Hsep _]].
  pose proof (inc_save_shape_gen fmt s) as Hshape. cbv zeta in Hshape. rewrite Hb in Hshape.
  destruct (Hshape Hoff Hsep) as [Hst _]; try assumption; [rewrite Hprev; reflexivity | apply (ud_rev _ _ Hu) | apply (ud_mark _ _ Hu)].
Qed.

(* ---------- the one-format histories are the special case ---------- *)
Definition same_steps (fmt : xref_type) (n : nat) : list mstep := repeat (fmt, xtype_of fmt) n.

Theorem lopdf_history_mixed F xs fmt objs :
  lopdf_history F xs fmt objs -> exists n, mixed_history (xtype_of fmt) (same_steps fmt n) F xs objs.
Proof.
  induction 1 as [fmt d S K Hs Hstm | F xs fmt objs pd s H IH Hload Hb Hprev Hu Hmx Hlen Hids].
  - exists O. apply (mh_save fmt d S K Hs Hstm).
  - destruct IH as [n IH]. exists (S n). unfold same_steps. cbn [repeat].
    apply (mh_update (xtype_of fmt) (same_steps fmt n) F xs objs pd (xtype_of fmt) fmt s IH Hload Hb Hprev Hu Hmx Hlen Hids).
Qed.

(* ---------- what load returns in a step is the type of the previous step ---------- *)
Fixpoint loaded_types_ok (base : xtype) (steps : list mstep) : Prop :=
  match steps with
  | [] => True
  | (_, xt) :: rest => xt = newest_type base rest /\ loaded_types_ok base rest
  end.

Theorem mixed_loaded_type base steps F xs objs :
  mixed_history base steps F xs objs -> loaded_types_ok base steps.
Proof.
  induction 1 as [fmt d S K Hs Hstm | F v m xs xt entries t objs G
                  | base steps F xs objs pd xt fmt s H IH Hload Hb Hprev Hu Hmx Hlen Hids]; cbn [loaded_types_ok]; try exact I.
  split; [|exact IH].
  destruct (mixed_history_loads base steps F xs objs H) as [_ [v [m [t [mx L]]]]].
  rewrite L in Hload. inversion Hload. reflexivity.
Qed.

(* ---------- the format is inherited when the caller does not touch reference_table ---------- *)
(* the update is made with the type load returned *)
Definition inherits (st : mstep) : Prop := xtype_of (fst st) = snd st.

Lemma xtype_of_inj a b : xtype_of a = xtype_of b -> a = b.
Proof. destruct a, b; cbn; intro H; try reflexivity; discriminate. Qed.

Lemma inherited_steps fmt : forall steps,
  loaded_types_ok (xtype_of fmt) steps -> Forall inherits steps -> Forall (fun st => st = (fmt, xtype_of fmt)) steps.
Proof.
  induction steps as [|[f xt] rest IH]; intros Hl Hi; [constructor|].
  cbn [loaded_types_ok] in Hl. destruct Hl as [Hxt Hl]. inversion Hi as [|? ? Hh Hi']; subst.
  specialize (IH Hl Hi'). unfold inherits in Hh. cbn [fst snd] in Hh.
  assert (Hn : newest_type (xtype_of fmt) rest = xtype_of fmt).
  { destruct rest as [|st rest']; [reflexivity|]. inversion IH as [|? ? E _]; subst. reflexivity. }
  rewrite Hn in *. apply xtype_of_inj in Hh. subst f. constructor; [reflexivity | exact IH].
Qed.

Theorem format_is_inherited fmt steps F xs objs :
  mixed_history (xtype_of fmt) steps F xs objs -> Forall inherits steps ->
  Forall (fun st => fst st = fmt) steps /\ newest_type (xtype_of fmt) steps = xtype_of fmt.
Proof.
  intros H Hi. pose proof (inherited_steps fmt steps (mixed_loaded_type _ _ _ _ _ H) Hi) as Ha. split.
  - eapply Forall_impl; [|exact Ha]. intros st E. rewrite E. reflexivity.
  - destruct steps as [|st rest]; [reflexivity|]. inversion Ha as [|? ? E _]; subst. reflexivity.
Qed.

(* ... and then, over a base written by Document::save, the history is a one-format history.  The base constructor
   mh_good (a foreign base) is excluded by asking for a saved base explicitly. *)
Inductive saved_base : xtype -> list mstep -> bytes -> N -> objmap -> Prop :=
| sb_save fmt d :
    savable d -> known_deep d = false -> small_file fmt d -> dict_get (d_trailer d) K_XRefStm = None ->
    saved_base (xtype_of fmt) [] (so_bytes (save fmt d)) (Save.blen (body_of d)) (d_objects (reloaded fmt d))
| sb_update base steps F xs objs pd xt fmt s :
    saved_base base steps F xs objs ->
    load F = LOk pd xt -> i_bytes s = F -> i_prev s = {| xd_doc := pd; xd_start := xs; xd_type := fmt |} ->
    upd_dom xs (xd_doc (i_new s)) -> d_max_id pd <= d_max_id (xd_doc (i_new s)) ->
    Save.blen (io_bytes (inc_save s)) < u32_mod ->
    Forall (fun io : oid * obj => In (fst io) (map fst (d_objects pd)) \/ ~ In (fst (fst io)) (obj_numbers (d_objects pd)))
           (d_objects (xd_doc (i_new s))) ->
    saved_base base ((fmt, xt) :: steps) (io_bytes (inc_save s)) (io_start (inc_save s))
               (step_objs fmt objs (xd_doc (i_new s)) (Save.blen (F ++ inc_lines (xd_doc (i_new s))))).

Lemma saved_base_mixed base steps F xs objs : saved_base base steps F xs objs -> mixed_history base steps F xs objs.
Proof.
  induction 1 as [fmt d S K Hs Hstm | base steps F xs objs pd xt fmt s H IH Hload Hb Hprev Hu Hmx Hlen Hids].
  - apply (mh_save fmt d S K Hs Hstm).
  - apply (mh_update base steps F xs objs pd xt fmt s IH Hload Hb Hprev Hu Hmx Hlen Hids).
Qed.

Theorem inherited_is_lopdf_history fmt : forall steps F xs objs,
  saved_base (xtype_of fmt) steps F xs objs -> Forall inherits steps -> lopdf_history F xs fmt objs.
Proof.
  intros steps F xs objs H. remember (xtype_of fmt) as base eqn:Eb.
  induction H as [fmt' d S K Hs Hstm | base steps F xs objs pd xt f s H IH Hload Hb Hprev Hu Hmx Hlen Hids]; intro Hi.
  - apply xtype_of_inj in Eb. subst fmt'. apply (hist_save fmt d S K Hs Hstm).
  - subst base. pose proof (Forall_inv Hi) as Hh. pose proof (Forall_inv_tail Hi) as Hi'.
    pose proof (saved_base_mixed _ _ _ _ _ H) as Hm.
    destruct (format_is_inherited fmt steps F xs objs Hm Hi') as [_ Hn].
    destruct (mixed_history_loads _ _ _ _ _ Hm) as [_ [v [m [t [mx L]]]]].
    pose proof Hload as Hload'. rewrite L in Hload'. inversion Hload' as [[Epd Ext]].
    unfold inherits in Hh. cbn [fst snd] in Hh. rewrite <- Ext, Hn in Hh. apply xtype_of_inj in Hh. subst f.
    rewrite <- Ext, Hn in Hload.
    apply (hist_update F xs fmt objs pd s (IH eq_refl Hi') Hload Hb Hprev Hu Hmx Hlen Hids).
Qed.

(* ---------- a step through the modelled API, with ANY format tag ---------- *)
Theorem mixed_edit_step base steps F xs objs pd xt fmt edits :
  mixed_history base steps F xs objs ->
  load F = LOk pd xt ->
  let s := fold_left apply_edit edits (create_from F {| xd_doc := pd; xd_start := xs; xd_type := fmt |}) in
  let nd := xd_doc (i_new s) in
  rev_dom nd -> known_deep nd = false ->
  Save.blen (io_bytes (inc_save s)) < u32_mod ->
  Forall (fun io : oid * obj => In (fst io) (map fst (d_objects pd)) \/ ~ In (fst (fst io)) (obj_numbers (d_objects pd))) (d_objects nd) ->
  io_status (inc_save s) = IncOk /\
  mixed_history base ((fmt, xt) :: steps) (io_bytes (inc_save s)) (io_start (inc_save s))
                (step_objs fmt objs nd (Save.blen (F ++ inc_lines nd))).
Proof.
  intros H Hload s nd Hr K Hlen Hids.
  destruct (mixed_history_good base steps F xs objs H) as [v [m [entries [t G]]]].
  pose proof Hload as Hload'. rewrite (good_file_loads _ _ _ _ _ _ _ _ G) in Hload'.
  assert (Epd : loaded v m entries t objs = pd) by (injection Hload'; intros; assumption).
  destruct (created_frame F {| xd_doc := pd; xd_start := xs; xd_type := fmt |} edits) as (H1 & H2 & _ & _ & H5).
  fold s in H1, H2, H5. fold nd in H5. cbn [xd_doc] in H5.
  assert (Hu : upd_dom xs nd).
  { apply (created_upd_dom F v m xs _ entries t objs pd fmt edits G); [rewrite <- Epd; reflexivity | exact Hr | exact K]. }
  split.
  - apply (mixed_update_ok base steps F xs objs pd fmt s H H1 H2 Hu Hlen).
  - apply (mh_update base steps F xs objs pd xt fmt s H Hload H1 H2 Hu H5 Hlen Hids).
Qed.

Print Assumptions mixed_history_good.
Print Assumptions mixed_history_loads.
Print Assumptions format_is_inherited.
Print Assumptions inherited_is_lopdf_history.
Print Assumptions mixed_edit_step.
