(* EditProofsTree3.v -- C11, part 10: the page tree with exact Counts is an INVARIANT of editing programs.
   [page_doc d t] (Spec/PageTreeEdit.v) survives every operation of Model/Edit.v's [step] except renumber_objects (which
   renames the nodes; C10), provided the explicit object-level calls do not aim at a node of the tree or at the catalog
   (set_object / delete_object of a page-tree node bypass the bookkeeping by design) and add_xobject is not given one of the
   five structural keys as the resource name.  The tree stays the same, except that delete_pages prunes it.
   Method: the tree only reads Type / Kids / Count / Parent of its nodes and Pages of the catalog ([struct_keys]); an
   operation that leaves these entries of every dictionary object alone, keeps keys unique, keeps the trailer's Root and
   removes nothing ([stable]) keeps [page_doc]. *)
From LV Require Import Base.Bytes Model.Obj Model.DocQ Model.PageTree Model.Traverse Model.Edit Model.StreamFilt Model.Writer Gen.Consts
  Spec.Dfs Spec.DfsCounts Spec.RenumberSpec Spec.PageTreeEdit
  Proofs.RenumberProofsMap Proofs.PageTreeProofs Proofs.EditProofs Proofs.EditProofsTrav Proofs.EditProofsDelete
  Proofs.EditProofsCount Proofs.FilterProofsDict Proofs.EditProofsRes Proofs.EditProofsTree Proofs.EditProofsTree2
  Proofs.EditProofsFrame.
From LV Require Model.SaveState.

Definition struct_keys : list bytes := [K_Type; K_Kids; K_Count; K_Parent; K_Pages].

Definition keeps (dx dx' : dict) : Prop :=
  unique_keys dx' /\ forall k, In k struct_keys -> dict_get dx' k = dict_get dx k.

Definition stable (m m' : objmap) (x : oid) : Prop :=
  forall dx, lookup m x = Some (ODict dx) -> unique_keys dx ->
    exists dx', lookup m' x = Some (ODict dx') /\ keeps dx dx'.

Lemma stable_same m m' x : lookup m' x = lookup m x -> stable m m' x.
Proof. intros E dx L W. exists dx. rewrite E. split; [exact L|]. split; [exact W | reflexivity]. Qed.

Lemma stable_trans m1 m2 m3 x : stable m1 m2 x -> stable m2 m3 x -> stable m1 m3 x.
Proof.
  intros S1 S2 dx L W. destruct (S1 dx L W) as [d2 [L2 [W2 K2]]]. destruct (S2 d2 L2 W2) as [d3 [L3 [W3 K3]]].
  exists d3. split; [exact L3|]. split; [exact W3|]. intros k Hk. rewrite (K3 k Hk). apply K2. exact Hk.
Qed.

Lemma stable_update m t td td' x :
  lookup m t = Some (ODict td) -> (unique_keys td -> keeps td td') -> stable m (update m t (ODict td')) x.
Proof.
  intros Lt K dx L W. rewrite lookup_update. destruct (oid_eqb t x) eqn:E.
  - apply oid_eqb_eq in E. subst x. rewrite Lt in *. inversion L; subst dx. exists td'. split; [reflexivity | exact (K W)].
  - exists dx. split; [exact L|]. split; [exact W | reflexivity].
Qed.

Lemma stable_update_nondict m t o x : (forall dx, lookup m t <> Some (ODict dx)) -> stable m (update m t o) x.
Proof.
  intros Hn dx L W. rewrite lookup_update. destruct (oid_eqb t x) eqn:E.
  - apply oid_eqb_eq in E. subst x. exfalso. exact (Hn dx L).
  - exists dx. split; [exact L|]. split; [exact W | reflexivity].
Qed.

Lemma stable_insert_other m id o x : x <> id -> stable m (insert m id o) x.
Proof.
  intro H. apply stable_same. rewrite lookup_insert. replace (oid_eqb id x) with false; [reflexivity|].
  symmetry. apply oid_eqb_neq. congruence.
Qed.

Lemma stable_insert_fresh m id o x : lookup m id = None -> stable m (insert m id o) x.
Proof.
  intro Hn. destruct (oid_eq_dec x id) as [->|Hne]; [|apply stable_insert_other; exact Hne].
  intros dx L. congruence.
Qed.

Lemma keeps_set td k v : ~ In k struct_keys -> unique_keys td -> keeps td (dict_set td k v).
Proof.
  intros Hk W. split; [apply dict_set_wf; exact W|]. intros k' Hk'. apply dict_get_set_other. intro E. subst k'. exact (Hk Hk').
Qed.

Lemma keeps_refl td : unique_keys td -> keeps td td.
Proof. intro W. split; [exact W | reflexivity]. Qed.

(* ---------- page_doc only reads the structural entries ---------- *)
Lemma page_tree_stable m m' :
  (forall t par, (forall x, In x (ids t) -> stable m m' x) -> page_tree m par t -> page_tree m' par t) /\
  (forall f par, (forall x, In x (flat_map ids f) -> stable m m' x) -> Forall (page_tree m par) f -> Forall (page_tree m' par) f).
Proof.
  apply ptree_forest_ind.
  - intros i par S PT. inversion PT as [? ? d L W Ty Pa|]; subst.
    destruct (S i (or_introl eq_refl) d L W) as [d' [L' [W' K]]].
    eapply PTLeaf; [exact L' | exact W' | |].
    + rewrite (K K_Type) by (cbn; tauto). exact Ty.
    + rewrite (K K_Parent) by (cbn; tauto). reflexivity.
  - intros i ks Q par S PT. inversion PT as [|? ? d ? L W Ty Kd Ct Pa F]; subst.
    destruct (S i (or_introl eq_refl) d L W) as [d' [L' [W' K]]].
    eapply PTNode; [exact L' | exact W' | | | | |].
    + rewrite (K K_Type) by (cbn; tauto). exact Ty.
    + rewrite (K K_Kids) by (cbn; tauto). exact Kd.
    + rewrite (K K_Count) by (cbn; tauto). exact Ct.
    + rewrite (K K_Parent) by (cbn; tauto). reflexivity.
    + apply Q; [|exact F]. intros x Hx. apply S. right. exact Hx.
  - intros par _ _. constructor.
  - intros k ks P Q par S F. inversion F as [|? ? Fk Fks]; subst. constructor.
    + apply P; [|exact Fk]. intros x Hx. apply S. cbn [flat_map]. apply in_app_iff. left. exact Hx.
    + apply Q; [|exact Fks]. intros x Hx. apply S. cbn [flat_map]. apply in_app_iff. right. exact Hx.
Qed.

(* a node of the tree, or the catalog *)
Definition tree_or_cat (d : doc) (t : ptree) (x : oid) : Prop :=
  In x (ids t) \/ dict_get (d_trailer d) K_Root = Some (ORef (fst x) (snd x)).

Lemma page_doc_stable d d' t :
  page_doc d t -> unique_keys (d_trailer d') -> dict_get (d_trailer d') K_Root = dict_get (d_trailer d) K_Root ->
  (forall x, tree_or_cat d t x -> stable (d_objects d) (d_objects d') x) ->
  page_doc d' t.
Proof.
  intros [ci [cg [cat [Wt [Rt [Lc [Wc [Pg [Nd [PT [ND Hc]]]]]]]]]]] Wt' Rt' S.
  destruct (S (ci, cg) (or_intror Rt) cat Lc Wc) as [cat' [Lc' [Wc' Kc]]].
  exists ci, cg, cat'. split; [exact Wt'|]. split; [rewrite Rt'; exact Rt|]. split; [exact Lc'|]. split; [exact Wc'|].
  split; [rewrite (Kc K_Pages) by (cbn; tauto); exact Pg|]. split; [exact Nd|]. split; [|split; assumption].
  apply (proj1 (page_tree_stable (d_objects d) (d_objects d')) t None); [|exact PT]. intros x Hx. apply S. left. exact Hx.
Qed.

(* ---------- the operations that leave every dictionary's structural entries alone ---------- *)
Definition all_stable (d d' : doc) : Prop :=
  d_trailer d' = d_trailer d /\ forall x, stable (d_objects d) (d_objects d') x.

Lemma all_stable_refl d : all_stable d d.
Proof. split; [reflexivity|]. intro x. apply stable_same. reflexivity. Qed.

Lemma all_stable_trans d1 d2 d3 : all_stable d1 d2 -> all_stable d2 d3 -> all_stable d1 d3.
Proof. intros [T1 S1] [T2 S2]. split; [congruence|]. intro x. eapply stable_trans; [apply S1 | apply S2]. Qed.

Lemma alloc_fresh_none d : alloc_ok d -> lookup (d_objects d) (fresh_id d) = None.
Proof. intro A. apply lookup_none. intro H. apply A in H. unfold fresh_id in H. cbn [fst] in H. lia. Qed.

Lemma add_object_stable d o d1 nid : alloc_ok d -> add_object d o = Some (d1, nid) -> all_stable d d1.
Proof.
  intros A E. apply add_object_spec in E. destruct E as [Ei [_ [E2 E3]]]. split; [exact E3|].
  intro x. rewrite E2, Ei. apply stable_insert_fresh. apply alloc_fresh_none. exact A.
Qed.

Lemma set_page_entry_stable m page k v m2 x :
  set_page_entry m page k v = Some m2 -> ~ In k struct_keys -> stable m m2 x.
Proof.
  unfold set_page_entry. destruct (get_object_mut_id m page) as [t|]; [|discriminate].
  destruct (lookup m t) as [[| | | | | | |td| |]|] eqn:Lt; try discriminate.
  intros H Hk. inversion H; subst. apply (stable_update m t td _ x Lt). apply keeps_set. exact Hk.
Qed.

Lemma K_Contents_ns : ~ In K_Contents struct_keys.
Proof. cbn. intuition discriminate. Qed.
Lemma K_Annots_ns : ~ In K_Annots struct_keys.
Proof. cbn. intuition discriminate. Qed.
Lemma K_Resources_ns : ~ In K_Resources struct_keys.
Proof. cbn. intuition discriminate. Qed.
Lemma K_XObject_ns : ~ In K_XObject struct_keys.
Proof. cbn. intuition discriminate. Qed.
Lemma K_ExtGState_ns : ~ In K_ExtGState struct_keys.
Proof. cbn. intuition discriminate. Qed.

Lemma add_then_set_stable d o d1 nid page v :
  alloc_ok d -> add_object d o = Some (d1, nid) ->
  forall m2, set_page_entry (d_objects d1) page K_Contents v = Some m2 -> all_stable d (with_objs d1 m2).
Proof.
  intros A E m2 Es. destruct (add_object_stable d o d1 nid A E) as [T1 S1]. split; [exact T1|].
  intro x. cbn [d_objects with_objs]. eapply stable_trans; [apply S1|].
  eapply set_page_entry_stable; [exact Es | exact K_Contents_ns].
Qed.

Lemma ccs_stable O d id c : all_stable d (change_content_stream O d id c).
Proof.
  unfold change_content_stream. destruct (lookup (d_objects d) id) as [[| | | | | | | |sd c0|]|] eqn:L; try apply all_stable_refl.
  split; [reflexivity|]. intro x. cbn [d_objects with_objs]. apply stable_update_nondict. intros dx H. congruence.
Qed.

Lemma add_page_contents_stable d page c d' r : alloc_ok d -> add_page_contents d page c = (d', r) -> all_stable d d'.
Proof.
  intro A. unfold add_page_contents.
  destruct (get_dictionary (d_objects d) page) as [pd|]; [|intro H; inversion H; apply all_stable_refl].
  destruct (add_object d (new_stream c)) as [[d1 nid]|] eqn:E; [|intro H; inversion H; apply all_stable_refl].
  destruct (set_page_entry _ _ _ _) as [m2|] eqn:Es; intro H; inversion H; subst.
  - eapply add_then_set_stable; eassumption.
  - eapply add_object_stable; eassumption.
Qed.

Lemma replace_page_content_stable d page c d' r : alloc_ok d -> replace_page_content d page c = (d', r) -> all_stable d d'.
Proof.
  intro A. unfold replace_page_content.
  destruct (add_object d (new_stream c)) as [[d1 nid]|] eqn:E; [|intro H; inversion H; apply all_stable_refl].
  destruct (set_page_entry _ _ _ _) as [m2|] eqn:Es; intro H; inversion H; subst.
  - eapply add_then_set_stable; eassumption.
  - eapply add_object_stable; eassumption.
Qed.

Lemma change_page_content_stable O d page c d' r : alloc_ok d -> change_page_content O d page c = (d', r) -> all_stable d d'.
Proof.
  intro A. unfold change_page_content.
  destruct (get_dictionary (d_objects d) page) as [pd|]; [|intro H; inversion H; apply all_stable_refl].
  destruct (dict_get pd K_Contents) as [x|]; [|intro H; inversion H; apply all_stable_refl].
  destruct (single_stream (d_objects d) x) as [id|]; [|apply replace_page_content_stable; exact A].
  destruct (is_content_stream_of_another_page d id page); [apply replace_page_content_stable; exact A|].
  intro H; inversion H; subst. apply ccs_stable.
Qed.

Lemma remove_annot_loop_stable target x : forall pages m m' ok,
  remove_annot_loop target pages m = (m', ok) -> stable m m' x.
Proof.
  induction pages as [|p ps IH]; intros m m' ok H; cbn [remove_annot_loop] in H.
  - inversion H; subst. apply stable_same. reflexivity.
  - destruct (get_object_mut_id m p) as [t|]; [|inversion H; subst; apply stable_same; reflexivity].
    destruct (lookup m t) as [[| | | | | | |pd| |]|] eqn:Lt; try (inversion H; subst; apply stable_same; reflexivity).
    destruct (dict_get pd K_Annots) as [[| | | | | |l| | |]|]; try (inversion H; subst; apply stable_same; reflexivity).
    eapply stable_trans; [|eapply IH; exact H].
    apply (stable_update m t pd _ x Lt). apply keeps_set. exact K_Annots_ns.
Qed.

Lemma remove_annot_stable d target d' ok : remove_annot d target = (d', ok) -> all_stable d d'.
Proof.
  unfold remove_annot. destruct (remove_annot_loop _ _ _) as [m ok0] eqn:E. intro H; inversion H; subst.
  split; [reflexivity|]. intro x. cbn [d_objects with_objs]. eapply remove_annot_loop_stable; exact E.
Qed.

Lemma gocr_stable d page d' loc : get_or_create_resources d page = (d', loc) -> all_stable d d'.
Proof.
  unfold get_or_create_resources. destruct (get_object (d_objects d) page) as [[| | | | | | |pd| |]|];
    try (intro H; inversion H; apply all_stable_refl).
  destruct (if dict_has pd K_Resources then as_ref (dict_get pd K_Resources) else None); [intro H; inversion H; apply all_stable_refl|].
  destruct (get_object_mut_id (d_objects d) page) as [t|]; [|intro H; inversion H; apply all_stable_refl].
  destruct (lookup (d_objects d) t) as [[| | | | | | |td| |]|] eqn:Lt; try (intro H; inversion H; apply all_stable_refl).
  intro H; inversion H; subst. split; [reflexivity|]. intro x. cbn [d_objects with_objs].
  apply (stable_update _ t td _ x Lt). destruct (dict_has td K_Resources); [apply keeps_refl|].
  apply keeps_set. exact K_Resources_ns.
Qed.

Lemma stable_loc_set m loc rd rd' x :
  loc_get m loc = Some (ODict rd) -> (unique_keys rd -> keeps rd rd') -> stable m (loc_set m loc (ODict rd')) x.
Proof.
  destruct loc as [t|t]; cbn [loc_get loc_set]; intros L K.
  - apply (stable_update m t rd rd' x L K).
  - destruct (lookup m t) as [[| | | | | | |td| |]|] eqn:Lt; try discriminate.
    apply (stable_update m t td _ x Lt). apply keeps_set. exact K_Resources_ns.
Qed.

Lemma add_resource_stable follow key d page nm x d' r :
  ~ In key struct_keys -> (follow = true -> ~ In nm struct_keys) ->
  add_resource follow key d page nm x = (d', r) -> all_stable d d'.
Proof.
  intros Hkey Hnm. unfold add_resource.
  destruct (get_or_create_resources d page) as [d1 loc] eqn:Eg.
  pose proof (gocr_stable d page d1 loc Eg) as S1.
  destruct loc as [loc|]; [|intro H; injection H as <- _; exact S1].
  assert (Same1 : forall r0, (d1, r0) = (d', r) -> all_stable d d') by (intros r0 H; injection H as <- _; exact S1).
  destruct (loc_get (d_objects d1) loc) as [[| | | | | | |rd| |]|] eqn:El;
    [apply Same1 | apply Same1 | apply Same1 | apply Same1 | apply Same1 | apply Same1 | apply Same1 | | apply Same1 | apply Same1 | apply Same1].
  set (m1 := d_objects d1) in *.
  set (rd1 := if dict_has rd key then rd else dict_set rd key (ODict [])).
  set (m2 := loc_set m1 loc (ODict rd1)).
  assert (K1 : unique_keys rd -> keeps rd rd1).
  { intro W. unfold rd1. destruct (dict_has rd key); [apply keeps_refl; exact W | apply keeps_set; assumption]. }
  assert (S2 : all_stable d (with_objs d1 m2)).
  { eapply all_stable_trans; [exact S1|]. split; [reflexivity|]. intro y. cbn [d_objects with_objs].
    apply (stable_loc_set m1 loc rd rd1 y El K1). }
  assert (El2 : loc_get m2 loc = Some (ODict rd1)) by (eapply loc_get_set; exact El).
  assert (Same : forall r0, (with_objs d1 m2, r0) = (d', r) -> all_stable d d') by (intros r0 H; injection H as <- _; exact S2).
  assert (Step : forall m3 r0, (forall y, stable m2 m3 y) -> (with_objs d1 m3, r0) = (d', r) -> all_stable d d').
  { intros m3 r0 S3 H. injection H as <- _. eapply all_stable_trans; [exact S2|]. split; [reflexivity|]. exact S3. }
  destruct (dict_get rd1 key) as [[| | | | | | |xd| |i g]|] eqn:Ek;
    [apply Same | apply Same | apply Same | apply Same | apply Same | apply Same | apply Same | | apply Same | | apply Same].
  - apply Step. intro y. apply (stable_loc_set m2 loc rd1 _ y El2). apply keeps_set. exact Hkey.
  - destruct follow; [|apply Same].
    destruct (get_object m2 (i, g)); [|apply Same].
    destruct (get_object_mut_id m2 (i, g)) as [t|]; [|apply Same].
    destruct (lookup m2 t) as [[| | | | | | |xd| |]|] eqn:Lt;
      [apply Same | apply Same | apply Same | apply Same | apply Same | apply Same | apply Same | | apply Same | apply Same | apply Same].
    apply Step. intro y. apply (stable_update m2 t xd _ y Lt). apply keeps_set. exact (Hnm eq_refl).
Qed.

Lemma keeps_stream_stable d d' : keeps_objects is_stream d d' -> all_stable d d'.
Proof.
  intros [T [_ [_ L]]]. split; [exact T|]. intros x dx Lx W.
  destruct (L x) as [E|[Hs _]]; [|rewrite Lx in Hs; destruct Hs].
  exists dx. rewrite E. split; [exact Lx | apply keeps_refl; exact W].
Qed.

(* ---------- save: the trailer keeps Root and unique keys ---------- *)
Lemma wf_get_set d k v k' : dict_wf d -> k' <> k ->
  dict_wf (dict_set d k v) /\ dict_get (dict_set d k v) k' = dict_get d k'.
Proof. intros W H. split; [apply dict_set_wf; exact W | apply dict_get_set_other; exact H]. Qed.

Lemma save_effect_trailer stream d :
  dict_wf (d_trailer d) ->
  dict_wf (d_trailer (fst (save_effect stream d))) /\
  dict_get (d_trailer (fst (save_effect stream d))) K_Root = dict_get (d_trailer d) K_Root.
Proof.
  intro W. unfold save_effect. cbv zeta.
  assert (W0 : dict_wf (d_trailer (raise_max d))) by exact W.
  assert (R0 : dict_get (d_trailer (raise_max d)) K_Root = dict_get (d_trailer d) K_Root) by reflexivity.
  revert W0 R0. generalize (raise_max d). intros d0 W0 R0.
  destruct (_ <=? d_max_id d0)%N; [cbn [fst]; split; assumption|].
  destruct (negb _); [cbn [fst]; split; assumption|].
  destruct stream; [destruct (_ <=? d_max_id d0 + 1)%N|]; cbn [fst with_state d_trailer SaveState.s_trailer].
  - rewrite <- R0. apply wf_get_set; [exact W0 | discriminate].
  - unfold SaveState.mutate, SaveState.mutate_stream, state_of. cbn [SaveState.s_trailer SaveState.s_max_id].
    repeat match goal with
    | |- dict_wf (dict_set ?t ?k ?v) /\ dict_get (dict_set ?t ?k ?v) K_Root = _ =>
      let H := fresh in
      assert (H : dict_wf t /\ dict_get t K_Root = dict_get (d_trailer d) K_Root);
      [|destruct H as [? H]; split; [apply dict_set_wf; assumption | rewrite dict_get_set_other by discriminate; exact H]]
    | |- dict_wf (dict_swap_remove ?t ?k) /\ dict_get (dict_swap_remove ?t ?k) K_Root = _ =>
      let H := fresh in
      assert (H : dict_wf t /\ dict_get t K_Root = dict_get (d_trailer d) K_Root);
      [|destruct H as [? H]; split; [apply swap_remove_wf; assumption
                                     | rewrite dict_get_swap_remove_other by (assumption || discriminate); exact H]]
    end.
    split; assumption.
  - unfold SaveState.mutate, SaveState.mutate_table, state_of. cbn [SaveState.s_trailer SaveState.s_max_id].
    rewrite <- R0. apply wf_get_set; [exact W0 | discriminate].
Qed.

(* ---------- delete_object of an object outside the tree ---------- *)
Lemma prune_notin p :
  (forall t, ~ In p (ids t) -> prune p t = t) /\ (forall f, ~ In p (flat_map ids f) -> pkids p f = f).
Proof.
  apply ptree_forest_ind.
  - reflexivity.
  - intros i ks Q H. rewrite prune_node. f_equal. apply Q. intro Hi. apply H. right. exact Hi.
  - reflexivity.
  - intros k ks P Q H. cbn [flat_map] in H. rewrite in_app_iff in H. rewrite pkids_cons.
    replace (oid_eqb (root_id k) p) with false.
    + cbn [app]. rewrite P, Q by tauto. reflexivity.
    + symmetry. apply oid_eqb_neq. intro E. apply H. left. rewrite <- E. destruct k; left; reflexivity.
Qed.

Lemma delete_outside d t p d1 r :
  doc_wf d -> page_doc d t -> ~ tree_or_cat d t p -> delete_object d p = Some (d1, r) -> page_doc d1 t.
Proof.
  intros W [ci [cg [cat [Wt [Rt [Lc [Wc [Pg [Nd [PT [ND Hc]]]]]]]]]]] Hout E.
  assert (Hni : ~ In p (ids t)) by (intro H; apply Hout; left; exact H).
  assert (Hcp : (ci, cg) <> p) by (intro H; apply Hout; right; rewrite <- H; exact Rt).
  assert (Hn : ~ In p (nodes t)) by (intro H; apply Hni; apply (proj1 nodes_ids); exact H).
  assert (Hr : root_id t <> p).
  { intro H. apply Hni. rewrite <- H. destruct t; left; reflexivity. }
  destruct (delete_reaches d t p ci cg cat d1 r W Wt Rt Lc Wc Pg PT Hn Hr Hcp E) as [T1 [Lc1 [M1 _]]].
  rewrite <- (proj1 (prune_notin p) t Hni).
  apply (page_doc_after d t p ci cg cat); try assumption.
  intros x dx Hx Hxp Lx. rewrite chain_nil by (intro H; apply Hni; apply (proj1 leaves_ids); exact H).
  cbn [mem_oid existsb adj]. exact (M1 x dx Hx Hxp Lx).
Qed.

(* ---------- prune_objects: the tree is reachable from the trailer ---------- *)
Lemma reach_tree0 tr m :
  (forall t par, page_tree m par t -> reach tr m (root_id t) -> forall x, In x (ids t) -> reach tr m x) /\
  (forall f par, Forall (page_tree m par) f -> (forall k, In k f -> reach tr m (root_id k)) ->
     forall x, In x (flat_map ids f) -> reach tr m x).
Proof.
  apply ptree_forest_ind.
  - intros i par _ R x [<-|[]]. exact R.
  - intros i ks Q par PT R x Hx. cbn [root_id] in R. destruct Hx as [<-|Hx]; [exact R|].
    inversion PT as [|? ? dd ? L W Ty Kd Ct Pa F]; subst.
    apply (Q (Some i) F); [|exact Hx]. intros k Hk. eapply reach_step; [exact R | exact L|].
    cbn [refs_of]. fold (refs_of_dict dd). eapply dict_get_refs; [exact Kd|].
    cbn [refs_of]. apply in_flat_map. exists (ref_of k). split; [apply in_map; exact Hk|].
    unfold ref_of. cbn [refs_of]. left. destruct (root_id k); reflexivity.
  - intros par _ _ x [].
  - intros k ks P Q par F R x Hx. inversion F as [|? ? Fk Fks]; subst. cbn [flat_map] in Hx. apply in_app_iff in Hx.
    destruct Hx as [Hx|Hx].
    + apply (P par Fk); [apply R; left; reflexivity | exact Hx].
    + apply (Q par Fks); [intros k' Hk'; apply R; right; exact Hk' | exact Hx].
Qed.

Lemma page_doc_reach d t x : page_doc d t -> tree_or_cat d t x -> reach (d_trailer d) (d_objects d) x.
Proof.
  intros [ci [cg [cat [Wt [Rt [Lc [Wc [Pg [Nd [PT [ND Hc]]]]]]]]]]] Hx.
  assert (Rc : reach (d_trailer d) (d_objects d) (ci, cg)).
  { apply reach_root. eapply dict_get_refs; [exact Rt|]. left. reflexivity. }
  destruct Hx as [Hx|Hx].
  - apply (proj1 (reach_tree0 _ _) t None PT); [|exact Hx].
    eapply reach_step; [exact Rc | exact Lc|]. cbn [refs_of]. fold (refs_of_dict cat).
    eapply dict_get_refs; [exact Pg|]. unfold ref_of. cbn [refs_of]. left. destruct (root_id t); reflexivity.
  - rewrite Rt in Hx. inversion Hx; subst. destruct x; exact Rc.
Qed.

(* ---------- one step ---------- *)
Definition tree_op_dom (d : doc) (t : ptree) (o : op) : Prop :=
  match o with
  | SetObject id _ => ~ tree_or_cat d t id /\ (fst id <= d_max_id d)%N
  | DeleteObject id => ~ tree_or_cat d t id
  | RenumberObjects => False
  | AddXObject _ nm _ => ~ In nm struct_keys
  | _ => True
  end.

Definition tree_after (d : doc) (t : ptree) (o : op) : ptree :=
  match o with DeletePages ns => prune_all (sel (get_pages d) ns) t | _ => t end.

Definition hbound (t : ptree) : Prop := (N.of_nat (height t) <= PAGE_TREE_DEPTH_LIMIT + 1)%N.

Lemma page_doc_all_stable d d' t : page_doc d t -> all_stable d d' -> page_doc d' t.
Proof.
  intros PD [T S]. apply (page_doc_stable d d' t PD).
  - rewrite T. destruct PD as [ci [cg [cat [Wt _]]]]. exact Wt.
  - rewrite T. reflexivity.
  - intros x _. apply S.
Qed.

Theorem step_page_doc O d t o :
  doc_wf d -> alloc_ok d -> page_doc d t -> hbound t -> tree_op_dom d t o ->
  page_doc (fst (step O d o)) (tree_after d t o) /\ hbound (tree_after d t o).
Proof.
  intros W A PD Hh Dm.
  assert (Hsame : forall d', all_stable d d' -> page_doc d' t /\ hbound t).
  { intros d' S. split; [eapply page_doc_all_stable; eassumption | exact Hh]. }
  destruct o; cbn [step tree_after tree_op_dom] in *.
  - (* new_object_id *)
    destruct (new_object_id d) as [[d' i]|] eqn:E; cbn [fst]; [|apply Hsame, all_stable_refl].
    apply new_object_id_spec in E. destruct E as [_ [_ [E2 [E3 _]]]]. apply Hsame. split; [exact E3|].
    intro x. apply stable_same. rewrite E2. reflexivity.
  - (* add_object *)
    destruct (add_object d o) as [[d' i]|] eqn:E; cbn [fst]; [|apply Hsame, all_stable_refl].
    apply Hsame. eapply add_object_stable; eassumption.
  - (* set_object *)
    destruct Dm as [Hout _]. cbn [fst]. split; [|exact Hh].
    apply (page_doc_stable d _ t PD).
    + destruct PD as [ci [cg [cat [Wt _]]]]. exact Wt.
    + reflexivity.
    + intros x Hx. unfold set_object. cbn [d_objects with_objs]. apply stable_insert_other. intro E. subst x. exact (Hout Hx).
  - (* delete_object *)
    destruct (delete_object d id) as [[d' r]|] eqn:E; cbn [fst]; [|split; assumption].
    split; [eapply delete_outside; eassumption | exact Hh].
  - (* remove_object *)
    destruct (remove_annot d id) as [d' ok] eqn:E. cbn [fst]. apply Hsame. eapply remove_annot_stable; exact E.
  - (* prune_objects *)
    destruct (prune_objects d) as [[d' r]|] eqn:E; cbn [fst]; [|split; assumption].
    destruct (I_prune d d' r W E) as [_ [L1 [_ [T1 _]]]]. split; [|exact Hh].
    apply (page_doc_stable d d' t PD).
    + rewrite T1. destruct PD as [ci [cg [cat [Wt _]]]]. exact Wt.
    + rewrite T1. reflexivity.
    + intros x Hx. apply stable_same. apply L1. eapply page_doc_reach; eassumption.
  - (* delete_pages *)
    destruct (delete_pages_tree d t nums W PD Hh) as [d' [E [_ [PD' _]]]]. rewrite E. cbn [fst].
    split; [exact PD'|]. unfold hbound in *. pose proof (prune_all_height (sel (get_pages d) nums) t). lia.
  - (* renumber_objects *) destruct Dm.
  - (* compress *) cbn [fst]. apply Hsame. apply keeps_stream_stable. apply compress_frame.
  - (* decompress *)
    destruct (decompress_objs O (d_objects d)) as [m ok] eqn:E. cbn [fst]. apply Hsame. apply keeps_stream_stable.
    eapply decompress_frame; exact E.
  - cbn [fst]. apply Hsame. apply ccs_stable.
  - destruct (change_page_content O d page c) as [d' r] eqn:E. cbn [fst]. apply Hsame. eapply change_page_content_stable; eassumption.
  - destruct (add_page_contents d page c) as [d' r] eqn:E. cbn [fst]. apply Hsame. eapply add_page_contents_stable; eassumption.
  - unfold add_to_page_content. destruct (add_page_contents d page (encode_content ops)) as [d' r] eqn:E. cbn [fst].
    apply Hsame. eapply add_page_contents_stable; eassumption.
  - destruct (get_or_create_resources d page) as [d' loc] eqn:E. cbn [fst]. apply Hsame. eapply gocr_stable; exact E.
  - unfold add_xobject. destruct (add_resource true K_XObject d page name x) as [d' r] eqn:E. cbn [fst].
    apply Hsame. exact (add_resource_stable true K_XObject d page name x d' r K_XObject_ns (fun _ => Dm) E).
  - unfold add_graphics_state. destruct (add_resource false K_ExtGState d page name g) as [d' r] eqn:E. cbn [fst].
    apply Hsame. apply (add_resource_stable false K_ExtGState d page name g d' r K_ExtGState_ns); [intro H0; discriminate H0 | exact E].
  - cbn [fst]. apply Hsame, all_stable_refl.
  - (* save *)
    split; [|exact Hh]. destruct (save_effect_shape stream d) as [Eo _].
    assert (Wt : dict_wf (d_trailer d)) by (destruct PD as [ci [cg [cat [Wt _]]]]; exact Wt).
    destruct (save_effect_trailer stream d Wt) as [Wt' Rt'].
    apply (page_doc_stable d _ t PD); [exact Wt' | exact Rt'|].
    intros x _. apply stable_same. rewrite Eo. reflexivity.
Qed.

(* ---------- whole programs ---------- *)
Fixpoint tree_prog_dom (O : oracles) (d : doc) (t : ptree) (ops : list op) : Prop :=
  match ops with
  | [] => True
  | o :: r => tree_op_dom d t o /\ tree_prog_dom O (fst (step O d o)) (tree_after d t o) r
  end.

Fixpoint tree_end (O : oracles) (d : doc) (t : ptree) (ops : list op) : ptree :=
  match ops with
  | [] => t
  | o :: r => tree_end O (fst (step O d o)) (tree_after d t o) r
  end.

Lemma tree_op_dom_op_dom d t o : tree_op_dom d t o -> op_dom d o.
Proof. destruct o; cbn; tauto. Qed.

Theorem run_ops_page_doc O : forall ops d t,
  doc_wf d -> alloc_ok d -> page_doc d t -> hbound t -> tree_prog_dom O d t ops ->
  let d' := run_ops O d ops in let t' := tree_end O d t ops in
  doc_wf d' /\ alloc_ok d' /\ page_doc d' t' /\ hbound t' /\
  page_iter d' = leaves t' /\ counts_exact (d_objects d') t'.
Proof.
  induction ops as [|o ops IH]; intros d t W A PD Hh Dm; cbn [run_ops fold_left tree_end tree_prog_dom] in *.
  - repeat (split; [assumption|]). split; [apply page_doc_iter; assumption | apply (page_doc_tree_wf d t PD)].
  - destruct Dm as [Do Dr]. destruct (step_page_doc O d t o W A PD Hh Do) as [PD' Hh'].
    apply (IH (fst (step O d o)) (tree_after d t o)); try assumption.
    + apply step_wf; [exact W | apply (tree_op_dom_op_dom d t); exact Do].
    + apply step_alloc; [exact W | exact A | apply (tree_op_dom_op_dom d t); exact Do].
Qed.

(* ---------- non-vacuity: a program on the three-level tree of Proofs/EditProofsTree2.v ---------- *)
Definition O_id : oracles := {| o_inflate := fun b => b; o_lzw := fun _ b => b; o_deflate := fun b => b |}.
Definition K_Im1' := Eval cbv in bs "Im1".
Definition tree_prog : list op :=
  [AddPageContents (3, 0)%N (bs "q Q"); AddObject (OInt 5); AddXObject (6, 0)%N K_Im1' (7, 0)%N; DeletePages [2%N];
   DeleteObject (8, 0)%N; Save false; Compress; DeletePages [1; 1]%N].

Lemma tree_prog_example :
  doc_wf tree_doc /\ alloc_ok tree_doc /\ page_doc tree_doc tree_ex /\ hbound tree_ex /\
  tree_prog_dom O_id tree_doc tree_ex tree_prog /\
  tree_end O_id tree_doc tree_ex tree_prog = PNode (2,0)%N [PNode (4,0)%N []; PLeaf (6,0)%N] /\
  page_iter (run_ops O_id tree_doc tree_prog) = [(6,0)%N].
Proof.
  destruct tree_example as [W [PD [Hh _]]].
  split; [exact W|]. split; [|split; [exact PD|split; [exact Hh|]]].
  - intros id H. cbn in H. repeat (destruct H as [<-|H]; [cbn; lia|]). destruct H.
  - split; [|split; vm_compute; reflexivity].
    cbn [tree_prog tree_prog_dom tree_op_dom]. repeat (split; [exact I|]).
    split; [cbn; intuition discriminate|]. split; [exact I|]. split; [|repeat split].
    intros [H|H]; vm_compute in H; [|discriminate H].
    repeat (destruct H as [H|H]; [discriminate H|]). exact H.
Qed.
