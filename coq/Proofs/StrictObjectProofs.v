(* StrictObjectProofs.v -- C03, part 3: Writer.write_object then the STRICT tokenizer [p_obj] of
   Spec/StrictReader.v (an independent ISO 32000 reader) is the identity up to [norm_obj], for
   every direct object, nested to any depth, with arbitrary bytes in names, strings and keys.

   The structure follows Proofs/ObjectRtProofs.v (the same statement for lopdf's own parser); the
   writer-side facts are reused from there, the reader-side lemmas are new because the strict
   tokenizer shares no definition with Model/Parser.v.

   Interface:
     sfollow            what must follow a written token for the strict tokenizer
     scont, sNoR        the condition every continuation inside a container satisfies
     scont_elem, scont_lead, scont_follow
     strict_object_rt   the round trip at the level of [SR.p_obj], any fuel >= length of the text
     strict_p_object_rt the same for the entry point [SR.p_object]
     skip_ws_object, skip_ws_sep_object   white space skipping removes exactly the separator *)
From LV Require Import Base.Bytes Base.Sx Model.Obj Model.Writer Model.Parser Gen.Lex
  Proofs.LexProofs Proofs.LitStringProofs Proofs.RealProofs Proofs.ObjectRtProofs
  Proofs.StrictReaderProofs Proofs.SaveStrictProofs.
From LV Require Spec.StrictReader.
From Coq Require Import ZifyBool ZifyN ZifyNat.

Local Open Scope N_scope.

(* ---------- one-step unfoldings of the strict tokenizer, by first byte ---------- *)

Lemma p_obj_name f s : SR.p_obj (S f) (x2f :: s) =
  match SR.p_name s with Some (n, r) => Some (OName n, r) | None => None end.
Proof. reflexivity. Qed.

Lemma p_obj_lit f s : SR.p_obj (S f) (x28 :: s) =
  match SR.p_lit s 0 with Some (t, r) => Some (OStr t false, r) | None => None end.
Proof. reflexivity. Qed.

Lemma p_obj_lt f c2 s : SR.p_obj (S f) (x3c :: c2 :: s) =
  if byte_eqb c2 x3c then
    match SR.p_dict f (SR.skip_ws s false) with Some (d, r) => Some (ODict d, r) | None => None end
  else match SR.p_hex (c2 :: s) None with Some (t, r) => Some (OStr t true, r) | None => None end.
Proof. reflexivity. Qed.

Lemma p_obj_arr f s : SR.p_obj (S f) (x5b :: s) =
  match SR.p_arr f (SR.skip_ws s false) with Some (l, r) => Some (OArr l, r) | None => None end.
Proof. reflexivity. Qed.

Lemma p_obj_digit f c s : is_dec_digit c = true -> SR.p_obj (S f) (c :: s) =
  match SR.p_nat (c :: s) with
  | Some (n, r) =>
    match SR.p_ref_tail r with
    | Some (g, r') => Some (ORef n g, r')
    | None => SR.p_number (c :: s)
    end
  | None => None
  end.
Proof. intro H. destruct c; try discriminate H; reflexivity. Qed.

Lemma p_obj_minus f s : SR.p_obj (S f) (x2d :: s) = SR.p_number (x2d :: s).
Proof. reflexivity. Qed.

Lemma p_arr_S f c s : SR.p_arr (S f) (c :: s) =
  if byte_eqb c x5d then Some ([], s)
  else match SR.p_obj f (c :: s) with
       | Some (o, r) =>
         match SR.p_arr f (SR.skip_ws r false) with
         | Some (l, r') => Some (o :: l, r')
         | None => None
         end
       | None => None
       end.
Proof. reflexivity. Qed.

Lemma p_dict_close f s : SR.p_dict (S f) (x3e :: x3e :: s) = Some ([], s).
Proof. reflexivity. Qed.

Lemma p_dict_key f s : SR.p_dict (S f) (x2f :: s) =
  match SR.p_name s with
  | Some (k, r) =>
    match SR.p_obj f (SR.skip_ws r false) with
    | Some (v, r2) =>
      match SR.p_dict f (SR.skip_ws r2 false) with
      | Some (d, r3) => Some ((k, v) :: d, r3)
      | None => None
      end
    | None => None
    end
  | None => None
  end.
Proof. reflexivity. Qed.

(* ---------- keywords ---------- *)

Lemma sobj_null f rest : SR.tok_end rest = true -> SR.p_obj (S f) (bs "null" ++ rest) = Some (ONull, rest).
Proof.
  intro H.
  change (SR.p_obj (S f) (bs "null" ++ rest)) with
    (match (if SR.tok_end rest then Some rest else None) with Some r => Some (ONull, r) | None => None end).
  rewrite H. reflexivity.
Qed.

Lemma sobj_true f rest : SR.tok_end rest = true -> SR.p_obj (S f) (bs "true" ++ rest) = Some (OBool true, rest).
Proof.
  intro H.
  change (SR.p_obj (S f) (bs "true" ++ rest)) with
    (match (if SR.tok_end rest then Some rest else None) with Some r => Some (OBool true, r) | None => None end).
  rewrite H. reflexivity.
Qed.

Lemma sobj_false f rest : SR.tok_end rest = true -> SR.p_obj (S f) (bs "false" ++ rest) = Some (OBool false, rest).
Proof.
  intro H.
  change (SR.p_obj (S f) (bs "false" ++ rest)) with
    (match (if SR.tok_end rest then Some rest else None) with Some r => Some (OBool false, r) | None => None end).
  rewrite H. reflexivity.
Qed.

(* ---------- white space in front of a written object ---------- *)

Lemma skip_ws_tok c s : SR.is_ws c = false -> byte_eqb c x25 = false -> SR.skip_ws (c :: s) false = c :: s.
Proof. intros H1 H2. cbn [SR.skip_ws]. rewrite H1, H2. reflexivity. Qed.

Lemma skip_ws_sp s : SR.skip_ws (x20 :: s) false = SR.skip_ws s false.
Proof. reflexivity. Qed.

(* the first byte of a written object is not white space, not a comment, not R, not a closing
   bracket *)
Definition slead_facts (c : byte) : bool :=
  negb (obj_lead c) ||
  (negb (SR.is_ws c) && negb (byte_eqb c x25) && negb (byte_eqb c x52) && negb (byte_eqb c x5d) &&
   negb (byte_eqb c x3e)).
Lemma slead_sweep : byte_forallb slead_facts = true.
Proof. vm_compute. reflexivity. Qed.

Lemma slead c : obj_lead c = true ->
  SR.is_ws c = false /\ byte_eqb c x25 = false /\ byte_eqb c x52 = false /\ byte_eqb c x5d = false /\
  byte_eqb c x3e = false.
Proof.
  intro H. pose proof (byte_forallb_spec _ slead_sweep c) as K. unfold slead_facts in K.
  rewrite H in K. cbn [negb orb] in K.
  repeat (apply andb_true_iff in K as [K ?]).
  repeat match goal with K : negb _ = true |- _ => apply negb_true_iff in K end.
  repeat split; assumption.
Qed.

Lemma skip_ws_object : forall o rest, obj_wf o ->
  SR.skip_ws (write_object o ++ rest) false = write_object o ++ rest.
Proof.
  intros o rest Hw. destruct (write_object_lead o Hw) as [c [t [E Hl]]]. rewrite E. cbn [app].
  destruct (slead c Hl) as [H1 [H2 _]]. apply skip_ws_tok; assumption.
Qed.

Lemma skip_ws_sep_object : forall o rest, obj_wf o ->
  SR.skip_ws (sp_if (need_separator o) ++ write_object o ++ rest) false = write_object o ++ rest.
Proof.
  intros o rest Hw. destruct (need_separator o); cbn [sp_if app]; [rewrite skip_ws_sp|];
    apply skip_ws_object; exact Hw.
Qed.

(* ---------- names ---------- *)

Definition sname_byte_ok (b : byte) : bool :=
  name_escaped b || (SR.is_regular b && negb (byte_eqb b x23)).
Lemma sname_byte_sweep : byte_forallb sname_byte_ok = true.
Proof. vm_compute. reflexivity. Qed.

Lemma sname_plain b : name_escaped b = false -> SR.is_regular b = true /\ byte_eqb b x23 = false.
Proof.
  intro H. pose proof (byte_forallb_spec _ sname_byte_sweep b) as K. unfold sname_byte_ok in K.
  rewrite H in K. cbn [orb] in K. apply andb_true_iff in K as [K1 K2]. apply negb_true_iff in K2. auto.
Qed.

Definition snibble_ok (d : N) : bool :=
  match SR.hexv (hex_upper d) with Some v => v =? d | None => false end
  && negb (SR.is_ws (hex_upper d)) && negb (byte_eqb (hex_upper d) x3c) && negb (byte_eqb (hex_upper d) x3e).
Lemma snibble_sweep : below_nat 16 snibble_ok = true.
Proof. vm_compute. reflexivity. Qed.

Lemma snibble d : d < 16 ->
  SR.hexv (hex_upper d) = Some d /\ SR.is_ws (hex_upper d) = false /\
  byte_eqb (hex_upper d) x3c = false /\ byte_eqb (hex_upper d) x3e = false.
Proof.
  intro H. pose proof (below_nat_spec 16 _ snibble_sweep d H) as K. unfold snibble_ok in K.
  repeat (apply andb_true_iff in K as [K ?]).
  repeat match goal with K : negb _ = true |- _ => apply negb_true_iff in K end.
  repeat split; try assumption.
  destruct (SR.hexv (hex_upper d)); [|discriminate]. apply N.eqb_eq in K. congruence.
Qed.

Lemma p_name_stop rest : SR.tok_end rest = true -> SR.p_name rest = Some ([], rest).
Proof.
  destruct rest as [|c t]; [reflexivity|]. cbn [SR.tok_end SR.p_name]. intro H.
  apply negb_true_iff in H. rewrite H. reflexivity.
Qed.

Lemma p_name_rt n rest : SR.tok_end rest = true ->
  SR.p_name (flat_map write_name_byte n ++ rest) = Some (n, rest).
Proof.
  intro Hr. induction n as [|b n IH]; cbn [flat_map app].
  - apply p_name_stop. exact Hr.
  - unfold write_name_byte at 1. destruct (name_escaped b) eqn:E.
    + unfold hex2_upper. cbn [app SR.p_name].
      change (SR.is_regular x23) with true. change (byte_eqb x23 x23) with true. cbv iota.
      destruct (snibble _ (hi_lt b)) as [-> _]. destruct (snibble _ (lo_lt b)) as [-> _].
      rewrite IH, byte_nibbles. reflexivity.
    + destruct (sname_plain b E) as [H1 H2]. cbn [app SR.p_name]. rewrite H1, H2, IH. reflexivity.
Qed.

Lemma sobj_name f n rest : SR.tok_end rest = true ->
  SR.p_obj (S f) (write_name n ++ rest) = Some (OName n, rest).
Proof.
  intro H. unfold write_name. cbn [app]. rewrite p_obj_name, (p_name_rt n rest H). reflexivity.
Qed.

(* ---------- hexadecimal strings ---------- *)

Lemma p_hex_rt s rest : SR.p_hex (flat_map hex2_upper s ++ x3e :: rest) None = Some (s, rest).
Proof.
  induction s as [|b s IH]; cbn [flat_map app].
  - reflexivity.
  - unfold hex2_upper at 1. cbn [app SR.p_hex].
    destruct (snibble _ (hi_lt b)) as [V1 [W1 [_ G1]]]. destruct (snibble _ (lo_lt b)) as [V2 [W2 [_ G2]]].
    rewrite G1, W1, V1, G2, W2, V2, IH, byte_nibbles. reflexivity.
Qed.

Lemma sobj_hex f s rest : SR.p_obj (S f) (write_hex s ++ rest) = Some (OStr s true, rest).
Proof.
  unfold write_hex. cbn [app]. rewrite <- app_assoc. cbn [app].
  pose proof (p_hex_rt s rest) as E.
  destruct s as [|b s].
  - reflexivity.
  - cbn [flat_map] in *. unfold hex2_upper at 1 in E. unfold hex2_upper at 1. cbn [app] in *.
    rewrite p_obj_lt. destruct (snibble _ (hi_lt b)) as [_ [_ [L _]]]. rewrite L, E. reflexivity.
Qed.

(* ---------- literal strings ---------- *)

Local Open Scope nat_scope.

Definition oapp (t : bytes) (o : option (bytes * bytes)) : option (bytes * bytes) :=
  match o with Some (a, r) => Some (t ++ a, r) | None => None end.

Lemma oapp_nil o : oapp [] o = o.
Proof. destruct o as [[a r]|]; reflexivity. Qed.

Lemma ocons_oapp c t o : SR.ocons c (oapp t o) = oapp (c :: t) o.
Proof. destruct o as [[a r]|]; reflexivity. Qed.

Lemma oapp_app t1 t2 o : oapp t1 (oapp t2 o) = oapp (t1 ++ t2) o.
Proof. destruct o as [[a r]|]; cbn [oapp]; [rewrite app_assoc|]; reflexivity. Qed.

(* a byte the writer never escapes and the strict reader copies (LF included) *)
Definition sdirect (c : byte) : bool :=
  negb (byte_eqb c x28) && negb (byte_eqb c x29) && negb (byte_eqb c x5c) && negb (byte_eqb c x0d).

(* the four escapes the writer uses: byte c is written as backslash c' *)
Definition sesc (c c' : byte) : Prop :=
  (c = x28 /\ c' = x28) \/ (c = x29 /\ c' = x29) \/ (c = x5c /\ c' = x5c) \/ (c = x0d /\ c' = x72).

(* text t is written as b: unescaped parentheses are balanced (no depth bound: the strict
   reader counts open parentheses without limit) *)
Inductive SEmit : bytes -> bytes -> Prop :=
| SE_nil : SEmit [] []
| SE_direct c t b : sdirect c = true -> SEmit t b -> SEmit (c :: t) (c :: b)
| SE_esc c c' t b : sesc c c' -> SEmit t b -> SEmit (c :: t) (x5c :: c' :: b)
| SE_nest t1 b1 t2 b2 :
    SEmit t1 b1 -> SEmit t2 b2 -> SEmit (x28 :: t1 ++ x29 :: t2) (x28 :: b1 ++ x29 :: b2).

Fixpoint SEmitK (c : nat) (t b : bytes) : Prop :=
  match c with
  | O => SEmit t b
  | S c' => exists t0 b0 t' b',
      t = t0 ++ x29 :: t' /\ b = b0 ++ x29 :: b' /\ SEmit t0 b0 /\ SEmitK c' t' b'
  end.

Lemma SEmitK_prefix (pt pb : bytes) :
  (forall t b, SEmit t b -> SEmit (pt ++ t) (pb ++ b)) ->
  forall c t b, SEmitK c t b -> SEmitK c (pt ++ t) (pb ++ b).
Proof.
  intros Hp c t b H. destruct c as [|c]; cbn [SEmitK] in *; [apply Hp; exact H|].
  destruct H as [t0 [b0 [t' [b' [-> [-> [H0 Hk]]]]]]].
  exists (pt ++ t0), (pb ++ b0), t', b'. rewrite <- !app_assoc. repeat split; auto.
Qed.

Lemma SEmitK_direct c k t b : sdirect c = true -> SEmitK k t b -> SEmitK k (c :: t) (c :: b).
Proof. intros Hc. apply (SEmitK_prefix [c] [c]). intros. cbn [app]. constructor; assumption. Qed.

Lemma SEmitK_esc c c' k t b : sesc c c' -> SEmitK k t b -> SEmitK k (c :: t) (x5c :: c' :: b).
Proof. intros Hc. apply (SEmitK_prefix [c] [x5c; c']). intros. cbn [app]. apply SE_esc; assumption. Qed.

Lemma SEmitK_nest c t0 b0 t b :
  SEmit t0 b0 -> SEmitK c t b -> SEmitK c (x28 :: t0 ++ x29 :: t) (x28 :: b0 ++ x29 :: b).
Proof.
  intros H0 H. destruct c as [|c]; cbn [SEmitK] in *; [apply SE_nest; assumption|].
  destruct H as [u0 [v0 [u' [v' [-> [-> [Hu Hk]]]]]]].
  exists (x28 :: t0 ++ x29 :: u0), (x28 :: b0 ++ x29 :: v0), u', v'.
  cbn [app]. rewrite <- !app_assoc. cbn [app]. repeat split; auto.
  apply SE_nest; assumption.
Qed.

Lemma sesc_open : sesc x28 x28.  Proof. unfold sesc. auto. Qed.
Lemma sesc_close : sesc x29 x29. Proof. unfold sesc. auto. Qed.
Lemma sesc_backslash : sesc x5c x5c. Proof. unfold sesc. auto. Qed.
Lemma sesc_cr : sesc x0d x72. Proof. unfold sesc. auto 6. Qed.

(* the writer's scan ([go], LitStringProofs.v) emits an SEmit text *)
Lemma sgo_emit : forall t k, SEmitK (snd (go t k)) t (emit_mask t (fst (go t k))).
Proof.
  induction t as [|b t IH]; intros k.
  - cbn. constructor.
  - cbn [go]. destruct (byte_eqb b x28) eqn:E28.
    + apply byte_eqb_eq in E28. subst b. destruct (MAXB <=? k) eqn:EM.
      * specialize (IH k). destruct (go t k) as [m c]. cbn [fst snd emit_mask] in *.
        change (if byte_eqb x28 x0d then x72 else x28) with x28.
        apply SEmitK_esc; [exact sesc_open|exact IH].
      * specialize (IH (S k)).
        destruct (go t (S k)) as [m c]. cbn [fst snd] in *.
        destruct c as [|c]; cbn [pred emit_mask].
        -- change (if byte_eqb x28 x0d then x72 else x28) with x28.
           cbn [SEmitK] in *. apply SE_esc; [exact sesc_open|exact IH].
        -- cbn [SEmitK] in IH. destruct IH as [t0 [b0 [t' [b' [Et [Eb [H0 Hk2]]]]]]].
           rewrite Eb, Et. apply SEmitK_nest; assumption.
    + destruct (byte_eqb b x29) eqn:E29.
      * apply byte_eqb_eq in E29. subst b. destruct k as [|k'].
        -- specialize (IH 0). destruct (go t 0) as [m c]. cbn [fst snd emit_mask] in *.
           change (if byte_eqb x29 x0d then x72 else x29) with x29.
           apply SEmitK_esc; [exact sesc_close|exact IH].
        -- specialize (IH k').
           destruct (go t k') as [m c]. cbn [fst snd emit_mask SEmitK] in *.
           exists [], [], t, (emit_mask t m). repeat split; [constructor|exact IH].
      * destruct (byte_eqb b x5c || byte_eqb b x0d) eqn:E5.
        -- specialize (IH k). destruct (go t k) as [m c]. cbn [fst snd emit_mask] in *.
           apply orb_true_iff in E5 as [E5|E5]; apply byte_eqb_eq in E5; subst b.
           ++ change (if byte_eqb x5c x0d then x72 else x5c) with x5c.
              apply SEmitK_esc; [exact sesc_backslash|exact IH].
           ++ change (if byte_eqb x0d x0d then x72 else x0d) with x72.
              apply SEmitK_esc; [exact sesc_cr|exact IH].
        -- specialize (IH k). destruct (go t k) as [m c]. cbn [fst snd emit_mask] in *.
           apply SEmitK_direct; [|exact IH]. apply orb_false_iff in E5 as [E5 E6].
           unfold sdirect. rewrite E28, E29, E5, E6. reflexivity.
Qed.

Theorem write_literal_semit t : SEmit t (emit_mask t (fst (go t 0))).
Proof.
  pose proof (sgo_emit t 0) as H. pose proof (go_count t 0) as Hc.
  assert (snd (go t 0) = 0) as E by lia. rewrite E in H. exact H.
Qed.

(* the strict reader inverts SEmit *)
Lemma p_lit_direct c X depth : sdirect c = true -> SR.p_lit (c :: X) depth = SR.ocons c (SR.p_lit X depth).
Proof.
  unfold sdirect. intro H. repeat (apply andb_true_iff in H as [H ?]).
  repeat match goal with K : negb _ = true |- _ => apply negb_true_iff in K end.
  cbn [SR.p_lit]. rewrite H, H0, H1, H2. reflexivity.
Qed.

Lemma p_lit_esc c c' X depth : sesc c c' -> SR.p_lit (x5c :: c' :: X) depth = SR.ocons c (SR.p_lit X depth).
Proof. intros [[-> ->]|[[-> ->]|[[-> ->]|[-> ->]]]]; reflexivity. Qed.

Lemma p_lit_open X depth : SR.p_lit (x28 :: X) depth = SR.ocons x28 (SR.p_lit X (S depth)).
Proof. reflexivity. Qed.

Lemma p_lit_close X depth : SR.p_lit (x29 :: X) (S depth) = SR.ocons x29 (SR.p_lit X depth).
Proof. reflexivity. Qed.

Lemma p_lit_end X : SR.p_lit (x29 :: X) 0 = Some ([], X).
Proof. reflexivity. Qed.

Lemma p_lit_semit : forall t b, SEmit t b ->
  forall depth R, SR.p_lit (b ++ R) depth = oapp t (SR.p_lit R depth).
Proof.
  induction 1 as [|c t b Hc H IH|c c' t b He H IH|t1 b1 t2 b2 H1 IH1 H2 IH2]; intros depth R.
  - rewrite oapp_nil. reflexivity.
  - cbn [app]. rewrite (p_lit_direct _ _ _ Hc), IH, ocons_oapp. reflexivity.
  - cbn [app]. rewrite (p_lit_esc _ _ _ _ He), IH, ocons_oapp. reflexivity.
  - cbn [app]. rewrite <- app_assoc. cbn [app].
    rewrite p_lit_open, IH1, p_lit_close, IH2.
    destruct (SR.p_lit R depth) as [[a r]|]; cbn [oapp SR.ocons app]; [|reflexivity].
    rewrite <- app_assoc. reflexivity.
Qed.

Theorem p_lit_rt t rest : SR.p_lit (emit_mask t (fst (go t 0)) ++ x29 :: rest) 0 = Some (t, rest).
Proof.
  rewrite (p_lit_semit _ _ (write_literal_semit t)), p_lit_end. cbn [oapp]. rewrite app_nil_r. reflexivity.
Qed.

Lemma sobj_literal f t rest : SR.p_obj (S f) (write_literal t ++ rest) = Some (OStr t false, rest).
Proof.
  rewrite write_literal_go. cbn [app]. rewrite <- app_assoc. cbn [app].
  rewrite p_obj_lit, p_lit_rt. reflexivity.
Qed.

Local Open Scope N_scope.

(* ---------- numbers ---------- *)

Lemma tok_end_no_digit r : SR.tok_end r = true -> no_digit_ahead r = true.
Proof.
  destruct r as [|c r]; [reflexivity|]. cbn [SR.tok_end no_digit_ahead]. intro H.
  rewrite is_digit_eq. destruct (is_dec_digit c) eqn:E; [|reflexivity].
  destruct (SaveStrictProofs.digit_facts c E) as [_ [_ K]]. rewrite K in H. discriminate.
Qed.

Lemma p_nat_digits ds r : ds <> [] -> forallb is_dec_digit ds = true -> no_digit_ahead r = true ->
  SR.p_nat (ds ++ r) = Some (digits_val ds, r).
Proof.
  intros Hne Hd Hr. unfold SR.p_nat.
  rewrite (span_app SR.is_digit ds r); [|rewrite is_digit_eq; exact Hd|exact Hr].
  destruct ds; [contradiction|]. rewrite dec_val_eq. reflexivity.
Qed.

Lemma frac_no_digit fs rest : SR.tok_end rest = true -> no_digit_ahead (frac_text fs ++ rest) = true.
Proof. intro H. destruct fs; [apply tok_end_no_digit; exact H|reflexivity]. Qed.

(* [p_number] after the optional sign *)
Definition p_number_body (sign : bytes) (neg : bool) (s1 : bytes) : option (obj * bytes) :=
  let '(ip, s2) := SR.span SR.is_digit s1 in
  let int_case :=
    match ip with
    | [] => None
    | _ => if SR.tok_end s2
           then Some (OInt (if neg then Z.opp (Z.of_N (SR.dec_val ip)) else Z.of_N (SR.dec_val ip)), s2)
           else None
    end in
  match s2 with
  | c :: s3 =>
    if byte_eqb c x2e then
      let '(fp, s4) := SR.span SR.is_digit s3 in
      match ip, fp with
      | [], [] => None
      | _, _ => if SR.tok_end s4 then Some (OReal (sign ++ ip ++ x2e :: fp), s4) else None
      end
    else int_case
  | [] => int_case
  end.

Lemma p_number_minus s : SR.p_number (x2d :: s) = p_number_body [x2d] true s.
Proof. reflexivity. Qed.

Lemma p_number_digit c s : is_dec_digit c = true -> SR.p_number (c :: s) = p_number_body [] false (c :: s).
Proof. intro H. destruct c; try discriminate H; reflexivity. Qed.

Definition num_result (neg : bool) (ds fs : bytes) : obj :=
  match fs with [] => OInt (int_of_text neg ds) | _ => OReal (real_text neg ds fs) end.

Lemma tok_end_not_point c r : SR.tok_end (c :: r) = true -> byte_eqb c x2e = false.
Proof.
  cbn [SR.tok_end]. intro H. apply negb_true_iff in H. apply byte_eqb_neq. intro E. subst c. discriminate H.
Qed.

Lemma p_number_body_text (neg : bool) ds fs rest :
  ds <> [] -> forallb is_dec_digit ds = true -> forallb is_dec_digit fs = true -> SR.tok_end rest = true ->
  p_number_body (if neg then [x2d] else []) neg (ds ++ frac_text fs ++ rest) =
  Some (num_result neg ds fs, rest).
Proof.
  intros Hne Hd Hf Hr. unfold p_number_body.
  rewrite (span_app SR.is_digit ds (frac_text fs ++ rest));
    [|rewrite is_digit_eq; exact Hd|apply frac_no_digit; exact Hr].
  destruct ds as [|d0 ds']; [contradiction|]. clear Hne.
  destruct fs as [|f0 fs']; cbn [frac_text app num_result].
  - rewrite Hr, dec_val_eq. unfold int_of_text.
    destruct rest as [|c r]; [reflexivity|]. rewrite (tok_end_not_point c r Hr). reflexivity.
  - change (byte_eqb x2e x2e) with true. cbv iota.
    change (f0 :: fs' ++ rest) with ((f0 :: fs') ++ rest).
    rewrite (span_app SR.is_digit (f0 :: fs') rest);
      [|rewrite is_digit_eq; exact Hf|apply tok_end_no_digit; exact Hr].
    rewrite Hr. unfold real_text. destruct neg; reflexivity.
Qed.

Lemma p_number_text neg ds fs rest :
  ds <> [] -> forallb is_dec_digit ds = true -> forallb is_dec_digit fs = true -> SR.tok_end rest = true ->
  SR.p_number (real_text neg ds fs ++ rest) = Some (num_result neg ds fs, rest).
Proof.
  intros Hne Hd Hf Hr. pose proof (p_number_body_text neg ds fs rest Hne Hd Hf Hr) as E.
  rewrite real_text_app. destruct neg; cbn [app].
  - rewrite p_number_minus. exact E.
  - destruct (digits_cons ds Hne Hd) as [c [t [Eds Hc]]]. subst ds. cbn [app] in *.
    rewrite (p_number_digit c _ Hc). exact E.
Qed.

Lemma ws1_point s : SR.ws1 (x2e :: s) = None.
Proof. reflexivity. Qed.

Lemma p_ref_tail_frac f0 fs rest : SR.p_ref_tail (frac_text (f0 :: fs) ++ rest) = None.
Proof. reflexivity. Qed.

(* a number text through the tokenizer *)
Lemma sobj_number f neg ds fs rest :
  ds <> [] -> forallb is_dec_digit ds = true -> forallb is_dec_digit fs = true ->
  SR.tok_end rest = true -> SR.p_ref_tail rest = None ->
  SR.p_obj (S f) (real_text neg ds fs ++ rest) = Some (num_result neg ds fs, rest).
Proof.
  intros Hne Hd Hf Hr Ht. pose proof (p_number_text neg ds fs rest Hne Hd Hf Hr) as E.
  rewrite real_text_app in *. destruct neg; cbn [app] in *.
  - rewrite p_obj_minus. exact E.
  - pose proof (p_nat_digits ds (frac_text fs ++ rest) Hne Hd (frac_no_digit fs rest Hr)) as En.
    destruct (digits_cons ds Hne Hd) as [c [t [Eds Hc]]]. subst ds. cbn [app] in *.
    rewrite (p_obj_digit f c _ Hc), En.
    assert (SR.p_ref_tail (frac_text fs ++ rest) = None) as ->
      by (destruct fs; [exact Ht|apply p_ref_tail_frac]).
    exact E.
Qed.

Lemma int_of_text_abs z : int_of_text (z <? 0)%Z (N_dec (Z.abs_N z)) = z.
Proof. unfold int_of_text. rewrite N_dec_val. destruct z; reflexivity || (cbn; lia). Qed.

Lemma sobj_int f z rest : SR.tok_end rest = true -> SR.p_ref_tail rest = None ->
  SR.p_obj (S f) (Z_dec z ++ rest) = Some (OInt z, rest).
Proof.
  intros Hr Ht. rewrite Z_dec_text.
  rewrite (sobj_number f _ _ [] rest (N_dec_nonempty _) (N_dec_digits _) eq_refl Hr Ht).
  cbn [num_result]. rewrite int_of_text_abs. reflexivity.
Qed.

Lemma sobj_real f r rest : real_wf r -> SR.tok_end rest = true -> SR.p_ref_tail rest = None ->
  SR.p_obj (S f) (write_real r ++ rest) = Some (norm_real r, rest).
Proof.
  intros [neg [ds [fs [-> [Hne [Hd Hf]]]]]] Hr Ht. unfold write_real. destruct fs as [|f0 fs'].
  - rewrite (needs_point_text neg ds Hne Hd), (norm_real_int neg ds Hne Hd).
    destruct (REAL_POINT_DISPLAY_THRESHOLD <=? digits_val ds) eqn:ET.
    + replace (real_text neg ds [] ++ [x2e; x30]) with (real_text neg ds [x30])
        by (unfold real_text; rewrite <- !app_assoc; reflexivity).
      rewrite (sobj_number f neg ds [x30] rest Hne Hd eq_refl Hr Ht). reflexivity.
    + rewrite (sobj_number f neg ds [] rest Hne Hd eq_refl Hr Ht). reflexivity.
  - rewrite (needs_point_frac neg ds (f0 :: fs') Hne Hd) by discriminate.
    rewrite (norm_real_frac neg ds (f0 :: fs') Hne Hd) by discriminate.
    rewrite (sobj_number f neg ds (f0 :: fs') rest Hne Hd Hf Hr Ht). reflexivity.
Qed.

(* ---------- references ---------- *)

Lemma ws1_sp s : SR.ws1 (x20 :: s) = Some (SR.skip_sp s).
Proof. reflexivity. Qed.

Lemma sobj_ref f i g rest : SR.tok_end rest = true ->
  SR.p_obj (S f) (write_object (ORef i g) ++ rest) = Some (ORef i g, rest).
Proof.
  intro Hr. cbn [write_object]. rewrite <- app_assoc. cbn [app]. rewrite <- app_assoc. cbn [app].
  pose proof (p_nat_N_dec i (x20 :: N_dec g ++ x20 :: x52 :: rest) eq_refl) as En.
  destruct (N_dec_cons i) as [c [t [E Hc]]]. rewrite E in *. cbn [app] in *.
  rewrite (p_obj_digit f c _ Hc), En.
  unfold SR.p_ref_tail. rewrite ws1_sp. cbn [SR.obnd].
  rewrite (skip_sp_digits _ _ (N_dec_nonempty g) (N_dec_digits g)).
  rewrite (p_nat_N_dec g (x20 :: x52 :: rest) eq_refl). cbn [SR.obnd snd fst].
  change (SR.ws1 (x20 :: x52 :: rest)) with (Some (x52 :: rest)). cbn [SR.obnd].
  change (byte_eqb x52 x52) with true. rewrite Hr. reflexivity.
Qed.

(* ---------- what may follow a token, and the separator rule ---------- *)

(* what must follow a written token for the strict tokenizer *)
Definition sfollow (o : obj) (rest : bytes) : Prop :=
  match o with
  | ONull | OBool _ | OName _ | ORef _ _ => SR.tok_end rest = true
  | OInt _ | OReal _ => SR.tok_end rest = true /\ SR.p_ref_tail rest = None
  | _ => True
  end.

(* after optional white space [s] does not begin with the letter R *)
Definition sNoR (s : bytes) : bool :=
  match SR.skip_sp s with c :: _ => negb (byte_eqb c x52) | [] => true end.

(* the condition every continuation produced inside an array or a dictionary satisfies *)
Definition scont (rest : bytes) : Prop :=
  SR.tok_end rest = true /\ SR.p_ref_tail rest = None /\ sNoR rest = true.

Lemma scont_follow o rest : scont rest -> sfollow o rest.
Proof. intros [H1 [H2 H3]]. destruct o; cbn [sfollow]; auto. Qed.

Lemma scont_nil : scont [].
Proof. repeat split; reflexivity. Qed.

Lemma scont_lead c s : delim_lead c = true -> scont (c :: s).
Proof. intro H. destruct c; try discriminate H; repeat split; reflexivity. Qed.

Lemma scont_keyword rest :
  scont (x20 :: bs "null" ++ rest) /\ scont (x20 :: bs "true" ++ rest) /\ scont (x20 :: bs "false" ++ rest).
Proof. repeat split; reflexivity. Qed.

(* the last step of [p_ref_tail] fails when no R follows the optional white space *)
Lemma ws1_noR (v : N) rest : sNoR rest = true ->
  SR.obnd (SR.ws1 rest) (fun s3 =>
    match s3 with
    | c :: s4 => if byte_eqb c x52 && SR.tok_end s4 then Some (v, s4) else None
    | [] => None
    end) = None.
Proof.
  unfold sNoR. destruct rest as [|c r]; [reflexivity|]. cbn [SR.ws1 SR.skip_sp].
  destruct (SR.is_ws c); [|reflexivity]. cbn [SR.obnd].
  destruct (SR.skip_sp r) as [|c' r']; [reflexivity|]. intro H. apply negb_true_iff in H.
  rewrite H. reflexivity.
Qed.

Lemma digit_or_minus_sfacts c : (c = x2d \/ is_dec_digit c = true) ->
  SR.is_ws c = false /\ byte_eqb c x52 = false.
Proof.
  intros [->|H]; [split; reflexivity|]. destruct c; try discriminate H; split; reflexivity.
Qed.

Lemma p_nat_minus s : SR.p_nat (x2d :: s) = None.
Proof. reflexivity. Qed.

(* a separated number keeps the continuation condition *)
Lemma scont_number neg ds fs rest :
  ds <> [] -> forallb is_dec_digit ds = true -> forallb is_dec_digit fs = true ->
  scont rest -> scont (x20 :: real_text neg ds fs ++ rest).
Proof.
  intros Hne Hd Hfs [H1 [H2 H3]].
  destruct (real_text_lead neg ds fs Hne Hd) as [c [t [E Hc]]].
  destruct (digit_or_minus_sfacts c Hc) as [F1 F2].
  assert (Hsp : SR.skip_sp (real_text neg ds fs ++ rest) = real_text neg ds fs ++ rest).
  { rewrite E. cbn [app SR.skip_sp]. rewrite F1. reflexivity. }
  split; [reflexivity|]. split.
  - unfold SR.p_ref_tail. rewrite ws1_sp. cbn [SR.obnd]. rewrite Hsp, real_text_app.
    destruct neg; cbn [app]; [rewrite p_nat_minus; reflexivity|].
    rewrite (p_nat_digits ds _ Hne Hd (frac_no_digit fs rest H1)). cbn [SR.obnd snd fst].
    destruct fs as [|f0 fs']; cbn [frac_text app]; [|reflexivity].
    apply ws1_noR. exact H3.
  - unfold sNoR. cbn [SR.skip_sp SR.is_ws]. rewrite Hsp, E. cbn [app]. rewrite F2. reflexivity.
Qed.

Lemma scont_ref i g rest : scont (x20 :: write_object (ORef i g) ++ rest).
Proof.
  cbn [write_object]. rewrite <- app_assoc. cbn [app]. rewrite <- app_assoc. cbn [app].
  set (tail := x20 :: N_dec g ++ x20 :: x52 :: rest).
  assert (Hsp : SR.skip_sp (N_dec i ++ tail) = N_dec i ++ tail)
    by (apply skip_sp_digits; [apply N_dec_nonempty|apply N_dec_digits]).
  split; [reflexivity|]. split.
  - unfold SR.p_ref_tail. rewrite ws1_sp. cbn [SR.obnd]. rewrite Hsp.
    rewrite (p_nat_N_dec i tail eq_refl). cbn [SR.obnd snd fst]. unfold tail. rewrite ws1_sp. cbn [SR.obnd].
    rewrite (skip_sp_digits _ _ (N_dec_nonempty g) (N_dec_digits g)).
    destruct (N_dec_cons g) as [c2 [t2 [E2 Hc2]]]. rewrite E2. cbn [app].
    destruct (digit_or_minus_sfacts c2 (or_intror Hc2)) as [_ G2]. rewrite G2. reflexivity.
  - unfold sNoR. cbn [SR.skip_sp SR.is_ws]. rewrite Hsp.
    destruct (N_dec_cons i) as [c [t [E Hc]]]. rewrite E. cbn [app].
    destruct (digit_or_minus_sfacts c (or_intror Hc)) as [_ G]. rewrite G. reflexivity.
Qed.

(* the writer's separator rule establishes the continuation condition *)
Theorem scont_elem x rest :
  obj_wf x -> scont rest -> scont (sp_if (need_separator x) ++ write_object x ++ rest).
Proof.
  intros Hw Hc. destruct (need_sep_cases x Hw) as [[E Hk]|[E [c [t [Ew Hl]]]]]; rewrite E; cbn [sp_if app].
  - destruct Hk as [->|[[b ->]|[[z ->]|[[r ->]|[i [g ->]]]]]].
    + apply scont_keyword.
    + destruct b; apply scont_keyword.
    + cbn [write_object]. rewrite Z_dec_text.
      apply scont_number; auto using N_dec_nonempty, N_dec_digits.
    + inversion Hw; subst. cbn [write_object].
      destruct (write_real_text r H0) as [neg [ds [fs [-> [Hne [Hd Hf]]]]]].
      apply scont_number; auto.
    + apply scont_ref.
  - rewrite Ew. cbn [app]. apply scont_lead. exact Hl.
Qed.

(* ---------- arrays and dictionaries ---------- *)

Lemma scont_arr_tail l rest : Forall obj_wf l -> scont (write_arr_tail l ++ x5d :: rest).
Proof.
  induction 1 as [|x l Hx Hl IH]; cbn [write_arr_tail app]; [apply scont_lead; reflexivity|].
  rewrite <- !app_assoc. apply scont_elem; assumption.
Qed.

Lemma skip_ws_arr_tail l rest :
  Forall obj_wf l -> SR.skip_ws (write_arr_tail l ++ x5d :: rest) false = arr_items l ++ x5d :: rest.
Proof.
  intro H. destruct H as [|x l Hx Hl]; [reflexivity|].
  cbn [write_arr_tail arr_items]. rewrite <- !app_assoc. apply skip_ws_sep_object. exact Hx.
Qed.

Lemma skip_ws_arr_items l rest :
  Forall obj_wf l -> SR.skip_ws (arr_items l ++ x5d :: rest) false = arr_items l ++ x5d :: rest.
Proof.
  intro H. destruct H as [|x l Hx Hl]; [reflexivity|].
  cbn [arr_items]. rewrite <- !app_assoc. apply skip_ws_object. exact Hx.
Qed.

Lemma scont_dict_body d rest : scont (write_dict_body d ++ x3e :: x3e :: rest).
Proof. destruct d as [|[k v] d]; apply scont_lead; reflexivity. Qed.

Lemma skip_ws_dict_body d rest :
  SR.skip_ws (write_dict_body d ++ x3e :: x3e :: rest) false = write_dict_body d ++ x3e :: x3e :: rest.
Proof. destruct d as [|[k v] d]; reflexivity. Qed.

(* the property of one element that the loops need: any continuation of a container, any fuel
   not smaller than the element's own text *)
Definition selem_rt (x : obj) : Prop :=
  forall rest f, scont rest -> (length (write_object x) <= f)%nat ->
                 SR.p_obj f (write_object x ++ rest) = Some (norm_obj x, rest).

(* one unit of fuel per element, and every element is at least one byte long *)
Lemma sarr_loop : forall l rest F,
  Forall selem_rt l -> Forall obj_wf l -> (1 + length (arr_items l) <= F)%nat ->
  SR.p_arr F (arr_items l ++ x5d :: rest) = Some (map norm_obj l, rest).
Proof.
  induction l as [|x l IH]; intros rest F He Hw HF.
  - destruct F as [|f]; [lia|]. reflexivity.
  - inversion He as [|? ? Hex Hel]; subst. inversion Hw as [|? ? Hwx Hwl]; subst.
    cbn [arr_items] in *. rewrite <- app_assoc.
    pose proof (write_object_nonempty x Hwx) as H1.
    pose proof (arr_items_le l) as H2.
    rewrite app_length in HF.
    destruct F as [|f]; [lia|].
    pose proof (Hex (write_arr_tail l ++ x5d :: rest) f (scont_arr_tail l rest Hwl) ltac:(lia)) as Ex.
    destruct (write_object_lead x Hwx) as [c [t [E Hl]]]. rewrite E in *. cbn [app] in *.
    destruct (slead c Hl) as [_ [_ [_ [Hc _]]]].
    rewrite p_arr_S, Hc, Ex, (skip_ws_arr_tail l rest Hwl), IH by (assumption || lia).
    reflexivity.
Qed.

Lemma sobj_arr f l rest :
  Forall selem_rt l -> Forall obj_wf l -> (length (write_object (OArr l)) <= S f)%nat ->
  SR.p_obj (S f) (write_object (OArr l) ++ rest) = Some (OArr (map norm_obj l), rest).
Proof.
  intros He Hw HF. rewrite write_arr_eq in *. cbn [app length] in *. rewrite <- app_assoc. cbn [app].
  rewrite app_length in HF. cbn [length] in HF.
  rewrite p_obj_arr, (skip_ws_arr_items l rest Hw), sarr_loop by (assumption || lia). reflexivity.
Qed.

Lemma sdict_loop : forall d rest F,
  Forall (fun kv => selem_rt (snd kv)) d -> Forall (fun kv => obj_wf (snd kv)) d ->
  (1 + length (write_dict_body d) <= F)%nat ->
  SR.p_dict F (write_dict_body d ++ x3e :: x3e :: rest) = Some (norm_dict d, rest).
Proof.
  induction d as [|[k v] d IH]; intros rest F He Hw HF.
  - destruct F as [|f]; [lia|]. reflexivity.
  - inversion He as [|? ? Hex Hel]; subst. inversion Hw as [|? ? Hwx Hwl]; subst. cbn [fst snd] in *.
    cbn [write_dict_body] in *. unfold write_name in *. cbn [app] in *. rewrite <- !app_assoc.
    pose proof (write_object_nonempty v Hwx) as H1.
    cbn [length] in HF. rewrite !app_length in HF.
    destruct F as [|f]; [lia|].
    pose proof (scont_dict_body d rest) as Hc.
    pose proof (scont_elem v _ Hwx Hc) as [Hte _].
    rewrite p_dict_key, (p_name_rt k _ Hte), (skip_ws_sep_object v _ Hwx).
    rewrite (Hex _ f Hc) by lia.
    rewrite skip_ws_dict_body, IH by (assumption || lia).
    reflexivity.
Qed.

Lemma sobj_dict f d rest :
  Forall (fun kv => selem_rt (snd kv)) d -> Forall (fun kv => obj_wf (snd kv)) d ->
  (length (write_object (ODict d)) <= S f)%nat ->
  SR.p_obj (S f) (write_object (ODict d) ++ rest) = Some (ODict (norm_dict d), rest).
Proof.
  intros He Hw HF. rewrite write_dict_eq in *. cbn [app length] in *. rewrite <- app_assoc. cbn [app].
  rewrite app_length in HF. cbn [length] in HF.
  rewrite p_obj_lt. change (byte_eqb x3c x3c) with true. cbv iota.
  rewrite skip_ws_dict_body, sdict_loop by (assumption || lia). reflexivity.
Qed.

(* ---------- the round trip ---------- *)

Theorem strict_object_rt : forall o rest f,
  obj_wf o -> sfollow o rest -> (length (write_object o) <= f)%nat ->
  SR.p_obj f (write_object o ++ rest) = Some (norm_obj o, rest).
Proof.
  induction o as [|b|z|r|n|s h|l Hl|d Hd|d c Hd|i g] using obj_rt_ind; intros rest f Hw Hf Hlen;
    pose proof (write_object_nonempty _ Hw) as Hne;
    (destruct f as [|f]; [lia|]); inversion Hw; subst; cbn [sfollow norm_obj] in *.
  - apply sobj_null. exact Hf.
  - destruct b; [apply sobj_true|apply sobj_false]; exact Hf.
  - apply sobj_int; apply Hf.
  - apply sobj_real; [assumption|apply Hf|apply Hf].
  - apply sobj_name. exact Hf.
  - destruct h; [apply sobj_hex|apply sobj_literal].
  - apply sobj_arr; [|assumption|exact Hlen].
    clear - Hl H0. induction Hl as [|x l Hx Hl IH]; constructor.
    + inversion H0; subst. intros rest f Hc Hlen. apply Hx; [assumption|apply scont_follow; exact Hc|exact Hlen].
    + inversion H0; subst. apply IH; assumption.
  - apply sobj_dict; [|assumption|exact Hlen].
    clear - Hd H1. induction Hd as [|[k x] d Hx Hdd IH]; constructor.
    + inversion H1; subst. cbn [snd] in *. intros rest f Hc Hlen.
      apply Hx; [assumption|apply scont_follow; exact Hc|exact Hlen].
    + inversion H1; subst. apply IH; assumption.
  - apply sobj_ref. exact Hf.
Qed.

Corollary strict_p_object_rt : forall o rest,
  obj_wf o -> sfollow o rest -> SR.p_object (write_object o ++ rest) = Some (norm_obj o, rest).
Proof.
  intros o rest Hw Hf. unfold SR.p_object. apply strict_object_rt; [assumption|assumption|].
  rewrite app_length. lia.
Qed.

