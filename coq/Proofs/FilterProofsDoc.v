(* FilterProofsDoc.v -- Document::compress / Document::decompress (src/processor.rs) over all objects. *)
From LV Require Import Base.Bytes Model.Obj Gen.Filters Model.A85 Model.Png Model.StreamFilt
  Spec.StreamSpec Proofs.FilterProofsDict Proofs.FilterProofsStream.
From Coq Require Import Lia List.
Import ListNotations.

Lemma Forall2_map_r {A B} (R : A -> B -> Prop) (f : A -> B) l : (forall x, R x (f x)) -> Forall2 R l (map f l).
Proof. intro H. induction l; cbn [map]; constructor; auto. Qed.

Definition mk (d : dict) (c : bytes) : stream := {| s_dict := d; s_content := c |}.

Section Oracles.
  Variable inflate : bytes -> bytes.
  Variable lzw : bool -> bytes -> bytes.
  Variable deflate : bytes -> bytes.

  (* what Document::compress does to one object *)
  Definition compressed_obj (nocomp : list oid) (io io' : oid * obj) : Prop :=
    fst io' = fst io /\
    match snd io with
    | OStream d c =>
      exists d' c', snd io' = OStream d' c' /\
        (existsb (oid_eqb (fst io)) nocomp = true -> d' = d /\ c' = c) /\
        length c' <= length c /\
        (mk d' c' = mk d c \/ length_ok (mk d' c')) /\
        (dict_wf d -> inflate (deflate c) = c -> deflate c <> [] ->
         get_plain_content inflate lzw (mk d' c') = get_plain_content inflate lzw (mk d c))
    | o => snd io' = o
    end.

  Theorem doc_compress_spec nocomp m : Forall2 (compressed_obj nocomp) m (doc_compress deflate nocomp m).
  Proof.
    unfold doc_compress. apply Forall2_map_r. intros [id o]. unfold compressed_obj. cbn [fst snd].
    destruct o as [|b|z|r0|n|s0 hex|l|dd|d content|i g]; try (split; reflexivity).
    destruct (existsb (oid_eqb id) nocomp) eqn:E; cbn [fst snd].
    - split; [reflexivity|]. exists d, content. repeat split; auto.
    - split; [reflexivity|].
      exists (s_dict (compress deflate (mk d content))), (s_content (compress deflate (mk d content))).
      split; [reflexivity|]. split; [discriminate|].
      split; [apply (compress_never_longer deflate (mk d content))|].
      assert (mk (s_dict (compress deflate (mk d content))) (s_content (compress deflate (mk d content)))
              = compress deflate (mk d content)) as -> by (destruct (compress deflate (mk d content)); reflexivity).
      split; [apply compress_length|].
      intros W H1 H2. apply compress_lossless; assumption.
  Qed.

  (* what Document::decompress does to one object: a stream that fails to decode is left alone *)
  Definition decompressed_obj (io io' : oid * obj) : Prop :=
    fst io' = fst io /\
    match snd io with
    | OStream d c =>
      match decompress inflate lzw (mk d c) with
      | Ok s' => snd io' = OStream (s_dict s') (s_content s')
      | _ => snd io' = snd io
      end
    | o => snd io' = o
    end.

  Theorem doc_decompress_spec : forall m m',
    doc_decompress inflate lzw m = Ok m' -> Forall2 decompressed_obj m m'.
  Proof.
    induction m as [|[id o] m IH]; intros m' H.
    - inversion H. constructor.
    - cbn [doc_decompress snd fst] in H.
      assert (K : forall x, rbind (doc_decompress inflate lzw m) (fun r => Ok (x :: r)) = Ok m' ->
                            exists r, m' = x :: r /\ Forall2 decompressed_obj m r).
      { intros x Hx. destruct (doc_decompress inflate lzw m) as [r| | |]; try discriminate.
        cbn [rbind] in Hx. inversion Hx. exists r. split; [reflexivity | apply IH; reflexivity]. }
      unfold decompressed_obj at 1.
      destruct o as [|b|z|r0|n|s0 hex|l|dd|d content|i g];
        try (apply K in H as (r & -> & F); constructor; [split; reflexivity | exact F]).
      fold (mk d content) in H.
      destruct (decompress inflate lzw (mk d content)) as [s'|e| |] eqn:E; try discriminate;
        apply K in H as (r & -> & F); (constructor; [|exact F]); unfold decompressed_obj; cbn [fst snd];
        fold (mk d content); rewrite E; split; reflexivity.
  Qed.
End Oracles.
