(* SafeSearchProofs.v -- C04, Reader::search_substring / Reader::get_xref_start (src/reader.rs) for EVERY buffer:
   the scan loop never reaches a panic site (buffer[seek_pos], pattern[index], seek_pos -= index, seek_pos - index),
   stops within (|buffer| + 1) * (|pattern| + 1) iterations (the candidate position seek_pos - index never moves back);
   search_substring recurses once per occurrence, every activation starts behind the previous match, so the depth is at
   most |buffer| - start_pos; get_xref_start starts 512 bytes before the end, resp. 25 bytes before the last %%EOF of
   that window: the recursion is at most 512 resp. 537 deep WHATEVER the file contains. *)
From LV Require Import Base.Bytes Model.Safe Model.SafeXref Proofs.SafeLemmas.
From Coq Require Import Lia.
Local Open Scope N_scope.

Lemma cjoin_c0_l c : cjoin c0 c = c.
Proof. destruct c as [s a d]. unfold cjoin, c0. cbn [c_steps c_alloc c_depth]. f_equal; lia. Qed.

Lemma bind_ret_eq {A B} (a : A) (f : A -> M B) : bind (ret a) f = f a.
Proof. unfold bind, ret. cbn [fst snd]. rewrite cjoin_c0_l. destruct (f a); reflexivity. Qed.

Lemma idx_ok {A} (l : list A) i a : nth_error l (N.to_nat i) = Some a -> idx l i = ret a.
Proof. intro H. unfold idx. rewrite H. reflexivity. Qed.

Lemma nth_error_lt {A} (l : list A) i : i < N.of_nat (length l) -> exists a, nth_error l (N.to_nat i) = Some a.
Proof.
  intro H. destruct (nth_error l (N.to_nat i)) eqn:E; [eauto|].
  apply nth_error_None in E. lia.
Qed.

(* observations of `tick 1 ;;; m` *)
Lemma tick_bind {A} (m : M A) :
  outcome (tick 1 ;;; m) = outcome m /\ steps (tick 1 ;;; m) = 1 + steps m
  /\ max_alloc (tick 1 ;;; m) = max_alloc m /\ max_depth (tick 1 ;;; m) = max_depth m.
Proof.
  unfold outcome, steps, max_alloc, max_depth, bind, tick. cbn [fst snd cjoin c_steps c_alloc c_depth].
  repeat split; lia.
Qed.

(* the measure of the scan loop: K = |pattern| + 1 iterations at most per candidate position *)
(* the product is kept behind a constant so that lia sees it as an atom *)
Definition pr (a b : N) : N := a * b.
Definition mu (len K seek index : N) : N := pr (len - (seek - index)) K - index.

Lemma mul_succ_sub (len c K : N) : c < len -> pr (len - c) K = pr (len - (c + 1)) K + K.
Proof. intro H. unfold pr. replace (len - c) with ((len - (c + 1)) + 1) by lia. lia. Qed.

Section Scan.
  Variables buffer pattern : bytes.
  Let len := blen buffer.
  Let plen := blen pattern.
  Hypothesis Hlen : len < USIZE_MAX.

  Definition scan_post (seek index : N) (m : M (option N)) : Prop :=
    no_panic m /\ terminates m /\ max_depth m = 0 /\ max_alloc m = 0
    /\ steps m <= mu len (plen + 1) seek index
    /\ forall r, outcome m = SOk (Some r) -> seek - index <= r /\ r + plen <= len.

  Lemma scan_safe : forall fuel seek index,
    index <= seek -> seek <= len -> index <= plen ->
    mu len (plen + 1) seek index < N.of_nat fuel ->
    scan_post seek index (scan fuel buffer pattern seek index).
  Proof.
    induction fuel as [|f IH]; intros seek index Hi Hs Hp Hf; [lia|].
    cbn [scan]. fold len plen.
    destruct ((seek <? len) && (index <? plen))%bool eqn:G.
    2:{ unfold scan_post. repeat split; try reflexivity; try discriminate; cbn; try lia. }
    apply andb_prop in G. destruct G as [G1 G2]. apply N.ltb_lt in G1, G2.
    destruct (nth_error_lt buffer seek G1) as [b Eb]. destruct (nth_error_lt pattern index G2) as [p Ep].
    rewrite (idx_ok _ _ _ Eb), (idx_ok _ _ _ Ep).
    set (c := seek - index) in *.
    assert (Hc : c < len) by lia.
    pose proof (mul_succ_sub len c (plen + 1) Hc) as Hmu.
    unfold mu in Hf. fold c in Hf.
    (* the three branches of the loop body; [st] is (seek_pos, index) before `seek_pos += 1` *)
    assert (Hbody : forall s' i' (m : M (option N)),
              s' + 1 <= USIZE_MAX -> i' <= s' + 1 -> c <= s' + 1 - i' ->
              (i' = plen -> s' + 1 - i' = c /\ c + plen <= len) ->
              (i' <> plen -> scan_post (s' + 1) i' (scan f buffer pattern (s' + 1) i')
                              /\ mu len (plen + 1) (s' + 1) i' + 1 <= mu len (plen + 1) seek index) ->
              m = (s1 <- usize_add s' 1 ;;
                   if i' =? plen then r <- ck_sub s1 i' ;; ret (Some r) else scan f buffer pattern s1 i') ->
              scan_post seek index (tick 1 ;;; m)).
    { intros s' i' m H1 H2 H2c H3 H4 ->.
      unfold usize_add. rewrite (ck_add_ok _ _ _ H1), bind_ret_eq.
      destruct (tick_bind (if i' =? plen then r <- ck_sub (s' + 1) i';; ret (Some r) else scan f buffer pattern (s' + 1) i'))
        as [To [Ts [Ta Td]]].
      unfold scan_post, no_panic, terminates. rewrite To, Ts, Ta, Td.
      destruct (i' =? plen) eqn:E.
      - apply N.eqb_eq in E. rewrite (ck_sub_ok _ _ H2), bind_ret_eq. destruct (H3 E) as [H3a H3b].
        repeat split; try reflexivity; try discriminate.
        + change (steps (ret (Some (s' + 1 - i')))) with 0. unfold mu. fold c. lia.
        + cbn in H. injection H as <-. lia.
        + cbn in H. injection H as <-. lia.
      - apply N.eqb_neq in E. destruct (H4 E) as [[P1 [P2 [P3 [P4 [P5 P6]]]]] Hm].
        repeat split; try assumption.
        + lia.
        + specialize (P6 r H). unfold mu in Hm. lia.
        + specialize (P6 r H). lia. }
    rewrite !bind_ret_eq.
    destruct (byte_eqb b p).
    - (* buffer[seek_pos] == pattern[index]: index += 1 *)
      unfold usize_add at 1. rewrite (ck_add_ok USIZE_MAX index 1) by (unfold plen, blen in *; lia).
      rewrite !bind_ret_eq. cbn [fst snd].
      apply (Hbody seek (index + 1)); try lia; [|reflexivity].
      intro Hne. split.
      + apply IH; try lia. unfold mu. replace (seek + 1 - (index + 1)) with c by lia. lia.
      + unfold mu. replace (seek + 1 - (index + 1)) with c by lia. fold c. lia.
    - destruct (0 <? index) eqn:E0.
      + (* mismatch after a partial match: seek_pos -= index; index = 0 *)
        apply N.ltb_lt in E0. rewrite (ck_sub_ok seek index) by lia. rewrite !bind_ret_eq. cbn [fst snd]. fold c.
        apply (Hbody c 0); try lia; [|reflexivity].
        intro Hne. split.
        * apply IH; try lia. unfold mu. replace (c + 1 - 0) with (c + 1) by lia. lia.
        * unfold mu. fold c. replace (c + 1 - 0) with (c + 1) by lia. lia.
      + (* mismatch at index 0 *)
        apply N.ltb_ge in E0. assert (index = 0) by lia. subst index. rewrite !bind_ret_eq. cbn [fst snd].
        assert (c = seek) by lia.
        apply (Hbody seek 0); try lia; [|reflexivity].
        intro Hne. split.
        * apply IH; try lia. unfold mu. replace (seek + 1 - 0) with (c + 1) by lia. lia.
        * unfold mu. fold c. replace (seek + 1 - 0) with (c + 1) by lia. lia.
  Qed.

  (* search_substring: [scan_fuel] at least (|buffer| + 1) * (|pattern| + 1) + 1, one unit of [depth_fuel] per
     byte between the start position and the end of the buffer *)
  Definition search_post (start : N) (m : M (option N)) : Prop :=
    no_panic m /\ terminates m /\ max_depth m <= len - start /\ max_alloc m = 0
    /\ forall r, outcome m = SOk (Some r) -> start <= r /\ r + plen <= len.

  Lemma ssearch_safe : forall depth_fuel scan_fuel start,
    start <= len -> len - start < N.of_nat depth_fuel ->
    (len + 1) * (plen + 1) < N.of_nat scan_fuel ->
    search_post start (ssearch depth_fuel scan_fuel buffer pattern start).
  Proof.
    induction depth_fuel as [|d IH]; intros scan_fuel start Hs Hd Hsf; [lia|].
    cbn [ssearch].
    assert (Hmu : mu len (plen + 1) start 0 < N.of_nat scan_fuel).
    { unfold mu, pr. replace (start - 0) with start by lia.
      assert ((len - start) * (plen + 1) <= (len + 1) * (plen + 1)) by (apply N.mul_le_mono_r; lia). lia. }
    destruct (scan_safe scan_fuel start 0 ltac:(lia) Hs ltac:(lia) Hmu) as [P1 [P2 [P3 [P4 [P5 P6]]]]].
    set (sc := scan scan_fuel buffer pattern start 0) in *.
    unfold search_post, no_panic, terminates in *.
    rewrite outcome_bind, depth_bind, alloc_bind. rewrite P3, P4.
    destruct (outcome sc) as [[res|]| | |] eqn:Eo; try (repeat split; try reflexivity; try discriminate; try (cbn; lia); congruence).
    destruct (P6 res eq_refl) as [Q1 Q2]. replace (start - 0) with start in Q1 by lia.
    destruct (N.eq_dec plen 0) as [Hz|Hnz].
    { (* an empty pattern never matches: the loop guard index < pattern.len() fails at once *)
      exfalso. subst sc. destruct scan_fuel as [|sf]; [lia|]. cbn [scan] in Eo. fold len plen in Eo.
      rewrite Hz in Eo. replace (0 <? 0) with false in Eo by reflexivity. rewrite Bool.andb_false_r in Eo. discriminate. }
    assert (Hr : res + 1 <= len) by lia.
    unfold usize_add. rewrite (ck_add_ok USIZE_MAX res 1) by lia. rewrite bind_ret_eq.
    destruct (IH scan_fuel (res + 1) Hr ltac:(lia) Hsf) as [R1 [R2 [R3 [R4 R5]]]].
    set (inner := ssearch d scan_fuel buffer pattern (res + 1)) in *.
    rewrite outcome_bind, depth_bind, alloc_bind.
    assert (Hdo : outcome (deeper inner) = outcome inner) by reflexivity.
    assert (Hdd : max_depth (deeper inner) = 1 + max_depth inner) by reflexivity.
    assert (Hda : max_alloc (deeper inner) = max_alloc inner) by reflexivity.
    rewrite Hdo, Hdd, Hda, R4.
    destruct (outcome inner) as [[x|]| | |] eqn:Ei;
      try (exfalso; cbn in R1; discriminate); try (exfalso; apply R2; reflexivity);
      cbn [outcome ret fst max_depth max_alloc snd c_depth c_alloc c0];
      (split; [reflexivity|split; [discriminate|split; [lia|split; [reflexivity|]]]]);
      intros r Hx; try discriminate; injection Hx as <-; try (destruct (R5 x eq_refl)); lia.
  Qed.
End Scan.

(* ---------------- get_xref_start ---------------- *)
Lemma blen_K_EOF : blen K_EOF = 5. Proof. reflexivity. Qed.
Lemma blen_K_STARTXREF : blen K_STARTXREF = 9. Proof. reflexivity. Qed.

Lemma scan_fuel_ok buffer pattern : (blen buffer + 1) * (blen pattern + 1) < N.of_nat (SCAN_FUEL buffer pattern).
Proof. unfold SCAN_FUEL. lia. Qed.

Ltac fin :=
  change (max_depth (@fail N)) with 0 in *; change (max_alloc (@fail N)) with 0 in *;
  repeat split; try reflexivity; try discriminate; try (unfold XREF_WINDOW, XREF_BACK in *; lia).

Theorem sget_xref_start_safe : forall buffer, blen buffer < USIZE_MAX ->
  no_panic (sget_xref_start buffer) /\ terminates (sget_xref_start buffer)
  /\ max_depth (sget_xref_start buffer) <= XREF_WINDOW + XREF_BACK
  /\ max_alloc (sget_xref_start buffer) = 0
  /\ forall p, outcome (sget_xref_start buffer) = SOk p -> p <= blen buffer.
Proof.
  intros buffer Hlen. unfold sget_xref_start.
  set (len := blen buffer) in *.
  rewrite (ck_sub_ok len (N.min len XREF_WINDOW)) by lia. rewrite bind_ret_eq.
  set (seek := len - N.min len XREF_WINDOW).
  assert (Hseek : seek <= len) by (unfold seek; lia).
  assert (Hwin : len - seek <= XREF_WINDOW) by (unfold seek, XREF_WINDOW; lia).
  destruct (ssearch_safe buffer K_EOF Hlen (S (N.to_nat XREF_WINDOW)) (SCAN_FUEL buffer K_EOF) seek Hseek
              ltac:(unfold XREF_WINDOW in *; fold len; lia) (scan_fuel_ok buffer K_EOF)) as [P1 [P2 [P3 [P4 P5]]]].
  fold len in P3, P5.
  set (s1 := ssearch (S (N.to_nat XREF_WINDOW)) (SCAN_FUEL buffer K_EOF) buffer K_EOF seek) in *.
  unfold no_panic, terminates in *.
  rewrite outcome_bind, depth_bind, alloc_bind, P4.
  destruct (outcome s1) as [[eof_pos|]| | |] eqn:E1;
    try (fin; congruence).
  destruct (P5 eof_pos eq_refl) as [Q1 Q2]. rewrite blen_K_EOF in Q2.
  destruct (XREF_BACK <? eof_pos) eqn:Eb.
  2:{ fin. }
  apply N.ltb_lt in Eb. rewrite (ck_sub_ok eof_pos XREF_BACK) by lia. rewrite bind_ret_eq.
  set (start := eof_pos - XREF_BACK).
  assert (Hstart : start <= len) by (unfold start; lia).
  assert (Hwin2 : len - start <= XREF_WINDOW + XREF_BACK) by (unfold start, XREF_BACK in *; lia).
  destruct (ssearch_safe buffer K_STARTXREF Hlen (S (N.to_nat (XREF_WINDOW + XREF_BACK))) (SCAN_FUEL buffer K_STARTXREF) start Hstart
              ltac:(fold len; lia) (scan_fuel_ok buffer K_STARTXREF)) as [R1 [R2 [R3 [R4 R5]]]].
  fold len in R3, R5. unfold no_panic, terminates in R1, R2.
  set (s2 := ssearch (S (N.to_nat (XREF_WINDOW + XREF_BACK))) (SCAN_FUEL buffer K_STARTXREF) buffer K_STARTXREF start) in *.
  rewrite outcome_bind, depth_bind, alloc_bind, R4.
  destruct (outcome s2) as [[xref_pos|]| | |] eqn:E2;
    try (fin; congruence).
  destruct (R5 xref_pos eq_refl) as [S1 S2].
  destruct (xref_pos <=? len) eqn:El.
  2:{ fin. }
  apply N.leb_le in El. rewrite (slice_from_ok buffer xref_pos) by (unfold len, blen in *; lia). rewrite bind_ret_eq.
  change (max_depth (ret xref_pos)) with 0. change (max_alloc (ret xref_pos)) with 0. change (outcome (ret xref_pos)) with (SOk xref_pos).
  repeat split; try reflexivity; try discriminate; try (unfold XREF_WINDOW, XREF_BACK in *; lia).
  intros p Hp. injection Hp as <-. exact El.
Qed.
