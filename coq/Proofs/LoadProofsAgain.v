(* LoadProofsAgain.v -- the second save/load cycle for the table format: the reloaded document is
   again in the domain, outside the known class, and a further cycle returns the same objects. *)
From LV Require Import Base.Bytes Base.Sx Model.Obj Model.Writer Model.Parser Model.Save Model.Xref Model.Loader
  Model.Utf Gen.Lex Proofs.LexProofs Proofs.RealProofs Proofs.ObjectRtProofs Proofs.SaveProofs
  Proofs.FilterProofsDict Spec.SaveSpec Proofs.LoadProofs Proofs.LoadProofsFile Proofs.LoadProofsXref
  Proofs.LoadProofsTable.

Local Open Scope N_scope.

(* ---------- normalisation keeps nesting, types, well-formedness ---------- *)
Lemma norm_real_shape r : (exists z, norm_real r = OInt z) \/ (exists r', norm_real r = OReal r').
Proof.
  unfold norm_real. destruct (strip_minus r) as [neg t].
  destruct (forallb is_dec_digit t); [destruct (REAL_POINT_DISPLAY_THRESHOLD <=? digits_val t)|]; eauto.
Qed.

Lemma nest_norm o : nest (norm_obj o) = nest o.
Proof.
  induction o as [|b|z|r|n|s h|l Hl|d Hd|d c Hd|i g] using obj_rt_ind; cbn [norm_obj nest]; try reflexivity.
  - destruct (norm_real_shape r) as [[z ->]|[r' ->]]; reflexivity.
  - f_equal. induction Hl as [|x l Hx Hl IH]; [reflexivity|]. cbn [map fold_right]. rewrite Hx, IH. reflexivity.
  - f_equal. induction Hd as [|[k x] d Hx Hd IH]; [reflexivity|]. cbn [map fold_right snd] in *. rewrite Hx, IH. reflexivity.
  - f_equal. induction Hd as [|[k x] d Hx Hd IH]; [reflexivity|]. cbn [map fold_right snd] in *. rewrite Hx, IH. reflexivity.
Qed.

Lemma top_wf_direct x : obj_wf x -> top_wf x.
Proof. intro H. destruct x; cbn [top_wf]; try exact H. inversion H. Qed.

Lemma top_wf_norm o : top_wf o -> top_wf (norm_obj o) /\ norm_obj (norm_obj o) = norm_obj o.
Proof.
  destruct o as [|b|z|r|n|s h|l|d|d c|i g]; cbn [top_wf]; intro H.
  9:{ destruct H as [Hw Hlen]. destruct (norm_obj_wf (ODict d) Hw) as [W1 W2].
      change (norm_obj (ODict d)) with (ODict (norm_dict d)) in W1, W2.
      change (norm_obj (ODict (norm_dict d))) with (ODict (norm_dict (norm_dict d))) in W2.
      inversion W2 as [E].
      change (norm_obj (OStream d c)) with (OStream (norm_dict d) c).
      change (norm_obj (OStream (norm_dict d) c)) with (OStream (norm_dict (norm_dict d)) c).
      split; [cbn [top_wf]; split; [exact W1 | rewrite dict_get_norm, Hlen; reflexivity] | rewrite E; reflexivity]. }
  all: destruct (norm_obj_wf _ H) as [W1 W2]; split; [apply top_wf_direct; exact W1 | exact W2].
Qed.

Lemma get_type_norm d : get_type (norm_dict d) = get_type d.
Proof.
  unfold get_type, dict_has. rewrite !dict_get_norm.
  destruct (dict_get d K_Linearized); destruct (dict_get d K_Type) as [v|]; cbn [option_map]; try reflexivity.
  all: destruct (norm_obj v) as [| | | |n| | | | |] eqn:E;
    try (apply norm_obj_name_inv in E; subst v; reflexivity).
  all: destruct v; try reflexivity; cbn [norm_obj] in E; try discriminate E.
Qed.

Lemma skipped_norm o : skipped (norm_obj o) = skipped o.
Proof.
  destruct o as [|b|z|r|n|s h|l|d|d c|i g]; cbn [norm_obj]; try reflexivity.
  - destruct (norm_real_shape r) as [[z ->]|[r' ->]]; reflexivity.
  - unfold skipped, type_name. fold (norm_dict d). rewrite get_type_norm. reflexivity.
  - unfold skipped, type_name. fold (norm_dict d). rewrite get_type_norm. reflexivity.
Qed.

Lemma obj_numbers_norm objs : obj_numbers (norm_objects objs) = obj_numbers objs.
Proof. unfold obj_numbers, norm_objects. rewrite map_map. reflexivity. Qed.

Lemma fold_max_ge : forall (objs : objmap) a, a <= fold_left (fun a (io : oid * obj) => N.max a (fst (fst io))) objs a.
Proof.
  induction objs as [|io objs IH]; intro a; [cbn; lia|]. cbn [fold_left].
  eapply N.le_trans; [|apply IH]. apply N.le_max_l.
Qed.

Lemma le_last_number : forall (objs : objmap) io a,
  In io objs -> fst (fst io) <= fold_left (fun a (io : oid * obj) => N.max a (fst (fst io))) objs a.
Proof.
  induction objs as [|x objs IH]; intros io a Hin; [contradiction|]. cbn [fold_left]. destruct Hin as [->|Hin].
  - eapply N.le_trans; [|apply fold_max_ge]. apply N.le_max_r.
  - apply IH. exact Hin.
Qed.

Lemma last_number_norm objs : last_number (norm_objects objs) = last_number objs.
Proof.
  unfold last_number, norm_objects. generalize 0 as a. induction objs as [|io objs IH]; intro a; [reflexivity|].
  cbn [map fold_left fst]. apply IH.
Qed.

(* ---------- the reloaded document is in the domain again ---------- *)
Lemma savable_reloaded_enc d : savable_core_enc d -> savable_core_enc (reloaded_table d).
Proof.
  intro S. pose proof (se_max_id d S) as Hm. pose proof (se_objects d S) as Ho.
  assert (Hlast : last_number (d_objects d) <= d_max_id d).
  { unfold last_number. apply fold_max_le; [lia|]. eapply Forall_impl; [|exact Ho]. intros io [H1 _]. exact H1. }
  constructor; cbn [reloaded_table d_max_id d_binary_mark d_version d_objects d_trailer].
  - lia.
  - apply (se_mark d S).
  - apply (se_version_eol d S).
  - apply (se_version_utf8 d S).
  - rewrite obj_numbers_norm. apply (se_numbers d S).
  - unfold norm_objects. apply Forall_forall. intros io' Hin. apply in_map_iff in Hin as [io [<- Hin]].
    rewrite Forall_forall in Ho. destruct (Ho io Hin) as [H1 [H2 [H3 H4]]]. cbn [fst snd].
    split; [unfold last_number; apply le_last_number; exact Hin|]. split; [exact H2|].
    split; [apply top_wf_norm; exact H3 | rewrite skipped_norm; exact H4].
  - apply (norm_obj_wf (ODict (trailer_table d))). apply trailer_table_wf_enc. exact S.
  - unfold dict_has. rewrite dict_get_norm. unfold trailer_table. rewrite dict_get_set_other by discriminate.
    rewrite (dict_has_false_get _ _ (se_no_prev d S)). reflexivity.
Qed.

Lemma savable_reloaded d : savable_core d -> savable_core (reloaded_table d).
Proof.
  intro S. apply core_of_enc; [apply savable_reloaded_enc, core_enc; exact S|].
  cbn [reloaded_table d_trailer].
  unfold dict_has. rewrite dict_get_norm. unfold trailer_table. rewrite dict_get_set_other by discriminate.
  rewrite (dict_has_false_get _ _ (sv_no_encrypt d S)). reflexivity.
Qed.

Lemma known_deep_reloaded d : known_deep d = false -> known_deep (reloaded_table d) = false.
Proof.
  intro K. pose proof (trailer_table_nest d K) as Ht.
  unfold known_deep in *. apply orb_false_iff in K as [K1 K2]. apply orb_false_iff. split.
  - cbn [reloaded_table d_objects]. unfold norm_objects.
    apply not_true_is_false. intro E. apply existsb_exists in E as [io' [Hin E]].
    apply in_map_iff in Hin as [io [<- Hin]]. cbn [snd] in E. rewrite nest_norm in E.
    assert (existsb (fun io => (MAX_DEPTH <? nest (snd io))%nat) (d_objects d) = true)
      by (apply existsb_exists; exists io; split; assumption). congruence.
  - cbn [reloaded_table d_trailer]. apply Nat.ltb_ge. apply Nat.ltb_ge in K2.
    change (ODict (norm_dict (trailer_table d))) with (norm_obj (ODict (trailer_table d))). rewrite nest_norm.
    pose proof (Nat.le_max_l 2 (nest (ODict (d_trailer d)))).
    apply Nat.max_lub; [lia | exact Ht].
Qed.

Lemma norm_objects_idem objs :
  Forall (fun io : oid * obj => top_wf (snd io)) objs -> norm_objects (norm_objects objs) = norm_objects objs.
Proof.
  induction 1 as [|io objs Hw _ IH]; [reflexivity|]. unfold norm_objects in *. cbn [map fst snd]. rewrite IH.
  destruct (top_wf_norm _ Hw) as [_ E]. rewrite E. reflexivity.
Qed.

(* ---------- the second cycle ---------- *)
Theorem load_save_table_again d :
  savable_core d -> known_deep d = false -> small_file_core XTable d -> small_file_core XTable (reloaded_table d) ->
  load (so_bytes (save_core XTable d)) = LOk (reloaded_table d) XTTable /\
  load (so_bytes (save_core XTable (reloaded_table d))) = LOk (reloaded_table (reloaded_table d)) XTTable /\
  d_version (reloaded_table (reloaded_table d)) = d_version d /\
  d_objects (reloaded_table (reloaded_table d)) = d_objects (reloaded_table d) /\
  d_max_id (reloaded_table (reloaded_table d)) = d_max_id (reloaded_table d).
Proof.
  intros S K H1 H2. split; [apply load_save_table; assumption|]. split.
  - apply load_save_table; [apply savable_reloaded; exact S | apply known_deep_reloaded; exact K | exact H2].
  - split; [reflexivity|]. split.
    + cbn [reloaded_table d_objects]. apply norm_objects_idem.
      pose proof (sv_objects d S) as Ho. eapply Forall_impl; [|exact Ho]. intros io [_ [_ [Hw _]]]. exact Hw.
    + cbn [reloaded_table d_max_id d_objects]. apply last_number_norm.
Qed.
