(* SaveProofs.v -- facts about the save model (Model/Save.v) that hold for EVERY document:
   the byte-counter invariant of the object loop, exactness of the recorded offsets and of
   startxref, the 20-byte shape of cross-reference table entries, and the characterisation of
   the sectioning loop (which entry is printed for which object number). *)
From LV Require Import Base.Bytes Base.Sx Model.Obj Model.Writer Model.Save Gen.Lex Gen.SaveFmt.

Local Open Scope N_scope.

(* ---------- the xref map ---------- *)
Lemma xget_xinsert x i e j : xget (xinsert x i e) j = if i =? j then Some e else xget x j.
Proof.
  induction x as [|[i' e'] x IH]; cbn [xinsert xget].
  - destruct (i =? j); reflexivity.
  - destruct (i' =? i) eqn:E1.
    + apply N.eqb_eq in E1; subst i'. cbn [xget]. destruct (i =? j); reflexivity.
    + destruct (i <? i') eqn:E2; cbn [xget].
      * reflexivity.
      * rewrite IH. destruct (i' =? j) eqn:E3; [|reflexivity].
        apply N.eqb_eq in E3; subst j. rewrite N.eqb_sym, E1. reflexivity.
Qed.

Lemma blen_app a b : blen (a ++ b) = blen a + blen b.
Proof. unfold blen. rewrite app_length. lia. Qed.

(* ---------- byte counter ---------- *)
(* the counter after the loop is the counter before plus the number of bytes written *)
Lemma write_objects_counter : forall objs pos x,
  snd (fst (write_objects pos objs x)) = pos + blen (fst (fst (write_objects pos objs x))).
Proof.
  induction objs as [|[[id g] o] rest IH]; intros pos x; cbn [write_objects].
  - cbn. unfold blen. cbn. lia.
  - destruct (skipped o); [apply IH|].
    specialize (IH (pos + blen (write_indirect_object id g o))
                   (xinsert x id (XNormal (pos mod u32_mod) g))).
    destruct (write_objects _ rest _) as [[b p] x'] eqn:E. cbn [fst snd] in *.
    rewrite blen_app. lia.
Qed.

(* soundness: every Normal entry of the final map that was not there before is the position of
   the indirect object it names, counted from the start of the loop *)
Lemma write_objects_entries : forall objs pos x id off g,
  xget (snd (write_objects pos objs x)) id = Some (XNormal off g) ->
  xget x id = Some (XNormal off g) \/
  exists o pre post,
    In ((id, g), o) objs /\ skipped o = false /\
    fst (fst (write_objects pos objs x)) = pre ++ write_indirect_object id g o ++ post /\
    off = (pos + blen pre) mod u32_mod.
Proof.
  induction objs as [|[[i gi] o] rest IH]; intros pos x id off g H; cbn [write_objects] in *.
  - left. exact H.
  - destruct (skipped o) eqn:Sk.
    + destruct (IH _ _ _ _ _ H) as [Hx | [o' [pre [post [Hin [Hs [Hb Ho]]]]]]]; [left; exact Hx|].
      right. exists o', pre, post. repeat split; try assumption. right; exact Hin.
    + pose proof (IH (pos + blen (write_indirect_object i gi o))
                     (xinsert x i (XNormal (pos mod u32_mod) gi)) id off g) as IH'.
      destruct (write_objects _ rest _) as [[b p] x'] eqn:E. cbn [fst snd] in *.
      destruct (IH' H) as [Hx | [o' [pre [post [Hin [Hs [Hb Ho]]]]]]].
      * rewrite xget_xinsert in Hx. destruct (i =? id) eqn:Ei.
        -- apply N.eqb_eq in Ei; subst i. inversion Hx; subst.
           right. exists o, [], b. repeat split; try assumption.
           ++ left; reflexivity.
           ++ unfold blen; cbn [length]. f_equal. lia.
        -- left; exact Hx.
      * right. exists o', (write_indirect_object i gi o ++ pre), post. repeat split; try assumption.
        -- right; exact Hin.
        -- rewrite Hb, <- !app_assoc. reflexivity.
        -- rewrite Ho, blen_app. f_equal. lia.
Qed.

(* completeness: with pairwise distinct object numbers, every object that is not skipped is
   written, and its number maps to exactly the offset of its "id gen obj" header *)
Definition obj_numbers (objs : objmap) : list N := map (fun io => fst (fst io)) objs.

Lemma write_objects_keeps : forall objs pos x id,
  ~ In id (obj_numbers objs) -> xget (snd (write_objects pos objs x)) id = xget x id.
Proof.
  induction objs as [|[[i gi] o] rest IH]; intros pos x id Hn; cbn [write_objects]; [reflexivity|].
  cbn [obj_numbers map fst] in Hn.
  destruct (skipped o).
  - apply IH. intro; apply Hn; right; assumption.
  - pose proof (IH (pos + blen (write_indirect_object i gi o))
                   (xinsert x i (XNormal (pos mod u32_mod) gi)) id) as IH'.
    destruct (write_objects _ rest _) as [[b p] x'] eqn:E. cbn [fst snd] in *.
    rewrite IH' by (intro; apply Hn; right; assumption).
    rewrite xget_xinsert. destruct (i =? id) eqn:Ei; [|reflexivity].
    apply N.eqb_eq in Ei. exfalso; apply Hn; left; exact Ei.
Qed.

Lemma write_objects_complete : forall objs pos x id g o,
  NoDup (obj_numbers objs) -> In ((id, g), o) objs -> skipped o = false ->
  exists pre post,
    fst (fst (write_objects pos objs x)) = pre ++ write_indirect_object id g o ++ post /\
    xget (snd (write_objects pos objs x)) id = Some (XNormal ((pos + blen pre) mod u32_mod) g).
Proof.
  induction objs as [|[[i gi] o'] rest IH]; intros pos x id g o Hnd Hin Hs; [contradiction|].
  cbn [obj_numbers map fst] in Hnd. inversion Hnd as [|? ? Hni Hnd']; subst.
  cbn [write_objects]. destruct Hin as [Heq | Hin].
  - inversion Heq; subst. rewrite Hs.
    pose proof (write_objects_keeps rest (pos + blen (write_indirect_object id g o))
                  (xinsert x id (XNormal (pos mod u32_mod) g)) id Hni) as Hk.
    destruct (write_objects _ rest _) as [[b p] x'] eqn:E. cbn [fst snd] in *.
    exists [], b. split; [reflexivity|].
    rewrite Hk, xget_xinsert, N.eqb_refl. unfold blen; cbn [length]. replace (pos + N.of_nat 0) with pos by lia. reflexivity.
  - destruct (skipped o') eqn:Sk.
    + apply IH; assumption.
    + pose proof (IH (pos + blen (write_indirect_object i gi o'))
                     (xinsert x i (XNormal (pos mod u32_mod) gi)) id g o Hnd' Hin Hs) as IH'.
      destruct (write_objects _ rest _) as [[b p] x'] eqn:E. cbn [fst snd] in *.
      destruct IH' as [pre [post [Hb Hx]]].
      exists (write_indirect_object i gi o' ++ pre), post. split.
      * rewrite Hb, <- !app_assoc. reflexivity.
      * rewrite Hx, blen_app. rewrite N.add_assoc. reflexivity.
Qed.

(* only object numbers of the document get an entry *)
Lemma write_objects_domain : forall objs pos x id e,
  xget (snd (write_objects pos objs x)) id = Some e -> xget x id = Some e \/ In id (obj_numbers objs).
Proof.
  intros objs pos x id e H. destruct (in_dec N.eq_dec id (obj_numbers objs)) as [Hi|Hn]; [right; exact Hi|].
  left. rewrite <- (write_objects_keeps objs pos x id Hn). exact H.
Qed.

(* ---------- whole-file statements ---------- *)
Definition body_of (d : doc) : bytes := fst (fst (save_body d)).
Definition xref_start_of (d : doc) : N := snd (fst (save_body d)).
Definition xmap_of (d : doc) : xmap := snd (save_body d).

Lemma save_body_eq d :
  save_body d =
  let h := header_bytes d ++ mark_bytes d in
  (h ++ fst (fst (write_objects (blen h) (d_objects d) [])),
   snd (fst (write_objects (blen h) (d_objects d) [])),
   snd (write_objects (blen h) (d_objects d) [])).
Proof.
  unfold save_body. cbv zeta.
  destruct (write_objects _ (d_objects d) []) as [[b p] x]. reflexivity.
Qed.

(* xref_start (the value of CountingWrite.bytes_written after the objects) is the length of
   everything written so far *)
Lemma xref_start_is_length d : xref_start_of d = blen (body_of d).
Proof.
  unfold xref_start_of, body_of. rewrite save_body_eq. cbv zeta. cbn [fst snd].
  rewrite write_objects_counter. rewrite (blen_app (header_bytes d ++ mark_bytes d)). reflexivity.
Qed.

(* every entry of the xref map points at the header of the object it names *)
Lemma offsets_sound d id off g :
  xget (xmap_of d) id = Some (XNormal off g) ->
  exists o pre post,
    In ((id, g), o) (d_objects d) /\ skipped o = false /\
    body_of d = pre ++ write_indirect_object id g o ++ post /\
    off = blen pre mod u32_mod.
Proof.
  unfold xmap_of, body_of. rewrite save_body_eq. cbv zeta. cbn [fst snd]. intro H.
  destruct (write_objects_entries _ _ _ _ _ _ H) as [Hx | [o [pre [post [Hin [Hs [Hb Ho]]]]]]]; [discriminate|].
  exists o, ((header_bytes d ++ mark_bytes d) ++ pre), post. repeat split; try assumption.
  - rewrite Hb, <- !app_assoc. reflexivity.
  - rewrite Ho, (blen_app (header_bytes d ++ mark_bytes d) pre). reflexivity.
Qed.

Lemma offsets_complete d id g o :
  NoDup (obj_numbers (d_objects d)) -> In ((id, g), o) (d_objects d) -> skipped o = false ->
  exists pre post,
    body_of d = pre ++ write_indirect_object id g o ++ post /\
    xget (xmap_of d) id = Some (XNormal (blen pre mod u32_mod) g).
Proof.
  intros Hnd Hin Hs. unfold xmap_of, body_of. rewrite save_body_eq. cbv zeta. cbn [fst snd].
  destruct (write_objects_complete _ (blen (header_bytes d ++ mark_bytes d)) [] _ _ _ Hnd Hin Hs)
    as [pre [post [Hb Hx]]].
  exists ((header_bytes d ++ mark_bytes d) ++ pre), post. split.
  - rewrite Hb, <- !app_assoc. reflexivity.
  - rewrite Hx, (blen_app (header_bytes d ++ mark_bytes d) pre). reflexivity.
Qed.

Lemma xmap_domain d id e : xget (xmap_of d) id = Some e -> In id (obj_numbers (d_objects d)).
Proof.
  unfold xmap_of. rewrite save_body_eq. cbv zeta. cbn [snd]. intro H.
  destruct (write_objects_domain _ _ _ _ _ H) as [Hx|Hi]; [discriminate | exact Hi].
Qed.

(* shape of the saved file: body, cross-reference part, startxref with the body length *)
Lemma save_core_shape xt d :
  so_status (save_core xt d) = SaveOk ->
  exists mid,
    so_bytes (save_core xt d) = body_of d ++ mid ++ startxref_bytes (blen (body_of d)) /\
    match xt with
    | XTable => mid = write_xref (xmap_of d) (d_max_id d + 1) ++ trailer_bytes (trailer_table d)
    | XStream =>
      let p := xstream_parts d (xmap_of d) (blen (body_of d) mod u32_mod) in
      mid = write_indirect_object (d_max_id d + 1) 0 (OStream (fst (fst p)) (snd (fst p)))
    end.
Proof.
  unfold save_core. intro H.
  destruct (u32_top <=? d_max_id d); [discriminate|].
  destruct (negb (binary_mark_ok (d_binary_mark d))); [discriminate|].
  pose proof (xref_start_is_length d) as Hl. unfold xref_start_of, body_of, xmap_of in *.
  destruct (save_body d) as [[body xs] x] eqn:E. cbn [fst snd] in *. subst xs.
  destruct xt.
  - eexists. cbn [so_bytes]. split; [|reflexivity]. rewrite <- !app_assoc. reflexivity.
  - destruct (u32_top <=? d_max_id d + 1); [discriminate|].
    destruct (xstream_parts d x (blen body mod u32_mod)) as [[t c] x1] eqn:E2. cbn [so_bytes fst snd].
    eexists. split; reflexivity.
Qed.

(* save = save_core after max_id has been raised to the largest object number; header, binary mark, objects
   and the recorded offsets do not depend on max_id *)
Lemma body_of_raise d : body_of (raise_max_id d) = body_of d.
Proof. reflexivity. Qed.
Lemma xmap_of_raise d : xmap_of (raise_max_id d) = xmap_of d.
Proof. reflexivity. Qed.

Lemma save_ok_shape xt d :
  so_status (save xt d) = SaveOk ->
  exists mid,
    so_bytes (save xt d) = body_of d ++ mid ++ startxref_bytes (blen (body_of d)) /\
    match xt with
    | XTable => mid = write_xref (xmap_of d) (d_max_id (raise_max_id d) + 1) ++ trailer_bytes (trailer_table (raise_max_id d))
    | XStream =>
      let p := xstream_parts (raise_max_id d) (xmap_of d) (blen (body_of d) mod u32_mod) in
      mid = write_indirect_object (d_max_id (raise_max_id d) + 1) 0 (OStream (fst (fst p)) (snd (fst p)))
    end.
Proof. intro H. exact (save_core_shape xt (raise_max_id d) H). Qed.

(* ---------- decimal widths ---------- *)
Lemma dec_digits_length : forall fuel k n acc,
  (0 < k)%nat -> n < 10 ^ N.of_nat k -> (length (dec_digits fuel n acc) <= length acc + k)%nat.
Proof.
  induction fuel as [|f IH]; intros k n acc Hk Hn; cbn [dec_digits]; [lia|].
  destruct (n <? 10) eqn:E.
  - cbn [length]. lia.
  - apply N.ltb_ge in E.
    destruct k as [|k]; [lia|]. destruct k as [|k].
    + change (10 ^ N.of_nat 1) with 10 in Hn. lia.
    + specialize (IH (S k) (n / 10) (digit_byte (n mod 10) :: acc)).
      cbn [length] in IH. assert (Hd : n / 10 < 10 ^ N.of_nat (S k)).
      { apply N.div_lt_upper_bound; [lia|].
        replace (N.of_nat (S (S k))) with (N.succ (N.of_nat (S k))) in Hn by lia.
        rewrite N.pow_succ_r' in Hn. exact Hn. }
      specialize (IH ltac:(lia) Hd). lia.
Qed.

Lemma N_dec_length k n : (0 < k)%nat -> n < 10 ^ N.of_nat k -> (length (N_dec n) <= k)%nat.
Proof. intros Hk Hn. unfold N_dec. pose proof (dec_digits_length (S (N.to_nat (N.log2 n))) k n [] Hk Hn). cbn [length] in H. lia. Qed.

Lemma pad0_length w s : (length s <= w)%nat -> length (pad0 w s) = w.
Proof. intro H. unfold pad0. rewrite app_length, repeat_length. lia. Qed.

(* every cross-reference table entry the writer can produce is 20 bytes long and ends with
   a space and a line feed: "nnnnnnnnnn ggggg n \n" *)
Definition xentry_in_range (e : xentry) : Prop :=
  match e with
  | XNormal off g => off < u32_mod /\ g < 65536
  | _ => True
  end.

Lemma xentry_line_length a b k : a < u32_mod -> b < 65536 -> length (xentry_line a b k) = 20%nat.
Proof.
  intros Ha Hb. unfold xentry_line.
  rewrite !app_length. cbn [length].
  rewrite !pad0_length.
  - reflexivity.
  - apply N_dec_length; [unfold XREF_ENTRY_W2; lia|]. unfold XREF_ENTRY_W2. change (10 ^ N.of_nat 5) with 100000. lia.
  - apply N_dec_length; [unfold XREF_ENTRY_W1; lia|]. unfold XREF_ENTRY_W1, u32_mod in *.
    change (10 ^ N.of_nat 10) with 10000000000. lia.
Qed.

Lemma xref_entry_20 e : xentry_in_range e -> length (write_xref_entry e) = 20%nat.
Proof.
  destruct e; cbn [xentry_in_range write_xref_entry]; intro H;
    try (apply xentry_line_length; unfold u32_mod, XREF_FREE_GEN_UNUSABLE; lia).
  destruct H. apply xentry_line_length; assumption.
Qed.

Lemma xentry_line_tail a b k : exists p, xentry_line a b k = p ++ [x20; k; x20; x0a].
Proof.
  unfold xentry_line, XREF_ENTRY_SEP2, XREF_ENTRY_TAIL.
  exists (pad0 XREF_ENTRY_W1 (N_dec a) ++ XREF_ENTRY_SEP1 ++ pad0 XREF_ENTRY_W2 (N_dec b)).
  rewrite <- !app_assoc. reflexivity.
Qed.

(* ---------- the sectioning loop ---------- *)
(* the entry printed for object number j by a list of sections *)
Fixpoint sections_get (secs : list xsection) (j : N) : option xentry :=
  match secs with
  | [] => None
  | (s, es) :: rest =>
    if (s <=? j) && (j <? s + N.of_nat (length es)) then nth_error es (N.to_nat (j - s)) else sections_get rest j
  end.

Lemma nth_error_snoc {A} (l : list A) a k :
  nth_error (l ++ [a]) k = if (k <? length l)%nat then nth_error l k
                           else if (k =? length l)%nat then Some a else None.
Proof.
  destruct (k <? length l)%nat eqn:E.
  - apply Nat.ltb_lt in E. apply nth_error_app1; exact E.
  - apply Nat.ltb_ge in E. rewrite nth_error_app2 by exact E.
    destruct (k =? length l)%nat eqn:E2.
    + apply Nat.eqb_eq in E2. subst. rewrite Nat.sub_diag. reflexivity.
    + apply Nat.eqb_neq in E2. destruct (k - length l)%nat as [|m] eqn:E3; [lia|]. cbn. destruct m; reflexivity.
Qed.

(* Invariant of the loop.  The open section (start, cur) ends just before [id]; the loop still
   visits id .. id+n-1.  Object number j gets: its slot in the open section, or the (converted)
   entry of the map when the loop reaches it, or nothing. *)
Lemma sections_loop_get : forall n id x conv start cur j,
  (cur = [] \/ start + N.of_nat (length cur) = id) ->
  sections_get (sections_loop n id x conv start cur) j =
    if negb (match cur with [] => true | _ => false end) && (start <=? j) && (j <? id)
    then nth_error cur (N.to_nat (j - start))
    else if (id <=? j) && (j <? id + N.of_nat n) then option_map conv (xget x j) else None.
Proof.
  induction n as [|n IH]; intros id x conv start cur j Hinv.
  - cbn [sections_loop]. destruct cur as [|c cur'].
    + cbn [sections_get negb andb]. destruct ((id <=? j) && (j <? id + N.of_nat 0)) eqn:E; [|reflexivity].
      apply andb_true_iff in E as [E1 E2]. apply N.leb_le in E1. apply N.ltb_lt in E2. lia.
    + destruct Hinv as [Hc|Hinv]; [discriminate|].
      cbn [sections_get negb andb]. rewrite Hinv.
      destruct ((start <=? j) && (j <? id)) eqn:E; [reflexivity|].
      destruct ((id <=? j) && (j <? id + N.of_nat 0)) eqn:E'; [|reflexivity].
      apply andb_true_iff in E' as [E1 E2]. apply N.leb_le in E1. apply N.ltb_lt in E2. lia.
  - cbn [sections_loop].
    replace (id + N.of_nat (S n)) with (id + 1 + N.of_nat n) by lia.
    destruct (xget x id) as [e|] eqn:Eg.
    + (* entry present: it joins the open section *)
      rewrite IH.
      2:{ right. rewrite app_length. cbn [length]. destruct cur; [cbn; lia|]. destruct Hinv as [Hc|Hinv]; [discriminate|]. lia. }
      assert (Hne : match cur ++ [conv e] with [] => true | _ => false end = false) by (destruct cur; reflexivity).
      rewrite Hne. cbn [negb andb].
      destruct cur as [|c cur'].
      * (* the section opens at id *)
        cbn [app negb andb length].
        destruct ((id <=? j) && (j <? id + 1)) eqn:E.
        -- apply andb_true_iff in E as [E1 E2]. apply N.leb_le in E1. apply N.ltb_lt in E2.
           assert (j = id) by lia. subst j. rewrite N.sub_diag. cbn [N.to_nat nth_error].
           replace (id <=? id) with true by (symmetry; apply N.leb_refl).
           replace (id <? id + 1 + N.of_nat n) with true by (symmetry; apply N.ltb_lt; lia).
           cbn [andb]. rewrite Eg. reflexivity.
        -- destruct ((id + 1 <=? j) && (j <? id + 1 + N.of_nat n)) eqn:E2.
           ++ apply andb_true_iff in E2 as [E3 E4]. apply N.leb_le in E3. apply N.ltb_lt in E4.
              replace (id <=? j) with true by (symmetry; apply N.leb_le; lia).
              replace (j <? id + 1 + N.of_nat n) with true by (symmetry; apply N.ltb_lt; lia).
              reflexivity.
           ++ destruct ((id <=? j) && (j <? id + 1 + N.of_nat n)) eqn:E3; [|reflexivity].
              apply andb_true_iff in E3 as [E4 E5]. apply N.leb_le in E4. apply N.ltb_lt in E5.
              apply andb_false_iff in E. apply andb_false_iff in E2.
              rewrite N.leb_gt, N.ltb_ge in E, E2. lia.
      * destruct Hinv as [Hc|Hinv]; [discriminate|].
        cbn [negb andb].
        destruct ((start <=? j) && (j <? id + 1)) eqn:E.
        -- apply andb_true_iff in E as [E1 E2]. apply N.leb_le in E1. apply N.ltb_lt in E2.
           rewrite nth_error_snoc.
           destruct (N.eq_dec j id) as [->|Hne'].
           ++ replace (N.to_nat (id - start) <? length (c :: cur'))%nat with false by (symmetry; apply Nat.ltb_ge; lia).
              replace (N.to_nat (id - start) =? length (c :: cur'))%nat with true by (symmetry; apply Nat.eqb_eq; lia).
              replace ((start <=? id) && (id <? id)) with false by (rewrite N.ltb_irrefl, andb_false_r; reflexivity).
              replace (id <=? id) with true by (symmetry; apply N.leb_refl).
              replace (id <? id + 1 + N.of_nat n) with true by (symmetry; apply N.ltb_lt; lia).
              cbn [andb]. rewrite Eg. reflexivity.
           ++ replace (N.to_nat (j - start) <? length (c :: cur'))%nat with true by (symmetry; apply Nat.ltb_lt; lia).
              replace (start <=? j) with true by (symmetry; apply N.leb_le; lia).
              replace (j <? id) with true by (symmetry; apply N.ltb_lt; lia).
              reflexivity.
        -- assert (Hf : (start <=? j) && (j <? id) = false).
           { apply andb_false_iff in E. apply andb_false_iff. rewrite N.leb_gt, N.ltb_ge in *. lia. }
           rewrite Hf.
           destruct ((id + 1 <=? j) && (j <? id + 1 + N.of_nat n)) eqn:E2.
           ++ apply andb_true_iff in E2 as [E3 E4]. apply N.leb_le in E3. apply N.ltb_lt in E4.
              replace (id <=? j) with true by (symmetry; apply N.leb_le; lia).
              replace (j <? id + 1 + N.of_nat n) with true by (symmetry; apply N.ltb_lt; lia).
              reflexivity.
           ++ destruct ((id <=? j) && (j <? id + 1 + N.of_nat n)) eqn:E3; [|reflexivity].
              apply andb_true_iff in E3 as [E4 E5]. apply N.leb_le in E4. apply N.ltb_lt in E5.
              apply andb_false_iff in E. apply andb_false_iff in E2.
              rewrite N.leb_gt, N.ltb_ge in E, E2. lia.
    + (* no entry: the open section, if any, is finished *)
      destruct cur as [|c cur'].
      * rewrite IH by (left; reflexivity). cbn [negb andb].
        destruct ((id + 1 <=? j) && (j <? id + 1 + N.of_nat n)) eqn:E2.
        -- apply andb_true_iff in E2 as [E3 E4]. apply N.leb_le in E3. apply N.ltb_lt in E4.
           replace (id <=? j) with true by (symmetry; apply N.leb_le; lia).
           replace (j <? id + 1 + N.of_nat n) with true by (symmetry; apply N.ltb_lt; lia).
           reflexivity.
        -- destruct ((id <=? j) && (j <? id + 1 + N.of_nat n)) eqn:E3; [|reflexivity].
           apply andb_true_iff in E3 as [E4 E5]. apply N.leb_le in E4. apply N.ltb_lt in E5.
           apply andb_false_iff in E2. rewrite N.leb_gt, N.ltb_ge in E2.
           assert (j = id) by lia. subst j. rewrite Eg. reflexivity.
      * destruct Hinv as [Hc|Hinv]; [discriminate|].
        cbn [sections_get negb andb]. rewrite Hinv.
        destruct ((start <=? j) && (j <? id)) eqn:E; [reflexivity|].
        rewrite IH by (left; reflexivity). cbn [negb andb].
        destruct ((id + 1 <=? j) && (j <? id + 1 + N.of_nat n)) eqn:E2.
        -- apply andb_true_iff in E2 as [E3 E4]. apply N.leb_le in E3. apply N.ltb_lt in E4.
           replace (id <=? j) with true by (symmetry; apply N.leb_le; lia).
           replace (j <? id + 1 + N.of_nat n) with true by (symmetry; apply N.ltb_lt; lia).
           reflexivity.
        -- destruct ((id <=? j) && (j <? id + 1 + N.of_nat n)) eqn:E3; [|reflexivity].
           apply andb_true_iff in E3 as [E4 E5]. apply N.leb_le in E4. apply N.ltb_lt in E5.
           apply andb_false_iff in E2. rewrite N.leb_gt, N.ltb_ge in E2.
           assert (j = id) by lia. subst j. rewrite Eg. reflexivity.
Qed.

(* cross-reference table: entry 0 is the unusable free entry; object number j in 1..size-1 is
   printed iff the map has it (a Compressed entry as unusable free); nothing at or above size *)
Lemma table_sections_get x size j :
  1 <= size ->
  sections_get (table_sections x size) j =
    if j =? 0 then Some XUnusable
    else if j <? size then option_map table_conv (xget x j) else None.
Proof.
  intro Hs. unfold table_sections. rewrite sections_loop_get by (right; reflexivity).
  cbn [negb andb]. rewrite N2Nat.id.
  destruct (j =? 0) eqn:E0.
  - apply N.eqb_eq in E0; subst j. reflexivity.
  - apply N.eqb_neq in E0.
    replace ((0 <=? j) && (j <? 1)) with false by (symmetry; apply andb_false_iff; right; apply N.ltb_ge; lia).
    replace (1 <=? j) with true by (symmetry; apply N.leb_le; lia).
    replace (1 + (size - 1)) with size by lia. reflexivity.
Qed.

(* cross-reference stream: object numbers 1..size (size itself is the stream object) *)
Lemma stream_sections_get x size j :
  sections_get (stream_sections x size) j =
    if (1 <=? j) && (j <=? size) then xget x j else None.
Proof.
  unfold stream_sections. rewrite sections_loop_get by (left; reflexivity).
  cbn [negb andb]. rewrite N2Nat.id.
  replace (j <? 1 + size) with (j <=? size).
  2:{ destruct (j <=? size) eqn:E; symmetry; [apply N.leb_le in E; apply N.ltb_lt; lia | apply N.leb_gt in E; apply N.ltb_ge; lia]. }
  destruct ((1 <=? j) && (j <=? size)); [|reflexivity]. destruct (xget x j); reflexivity.
Qed.
