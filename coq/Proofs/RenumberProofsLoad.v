(* RenumberProofsLoad.v -- C10 composed with C01: renumbering a document whose objects and trailer are
   writable gives a document in the domain of the save / load round trip (Spec/SaveSpec.v [savable]) --
   whatever the old numbers were: the new numbers start .. start+n-1 are increasing and above 0, so even
   a document that had one number under several generations becomes savable -- and therefore
   renumber ; save ; load returns the renumbered document (same_doc), by C01_full (load_save_full). *)
From LV Require Import Base.Bytes Base.Sx Model.Obj Model.DocQ Model.PageTree Model.Traverse Model.Renumber
  Spec.RenumberSpec Proofs.RenumberProofsMap Proofs.RenumberProofsTrav Proofs.RenumberProofsTravO Proofs.RenumberProofs
  Proofs.RenumberProofsDense Proofs.RenumberProofsTop Proofs.RenumberProofsPage Proofs.RenumberProofsIter
  Proofs.RenumberProofsMain.
From LV Require Import Model.Parser Model.Save Model.Xref Model.Loader Proofs.ObjectRtProofs Proofs.SaveProofs Spec.SaveSpec
  Proofs.LoadProofsFull.

Local Open Scope N_scope.

(* ---------- writability is preserved by renaming ---------- *)
Section Wf.
  Variable a : oid -> option oid.
  Hypothesis Ha : forall id y, a id = Some y -> fst y <= u32_max /\ snd y <= u16_max.

  Lemma obj_wf_rename_o o : obj_wf o -> obj_wf (rename_o a o).
  Proof.
    induction o as [|b|z|r|n|s h|l Hl|d Hd|d c Hd|i g] using obj_ind'; intro H; cbn [rename_o]; try exact H.
    - inversion H as [| | | | | |l0 HF| |]; subst. constructor. clear H.
      induction Hl as [|x l Hx Hl IH]; cbn [map]; [constructor|]. inversion HF; subst. constructor; [apply Hx; assumption | apply IH; assumption].
    - inversion H as [| | | | | | |d0 ND HF|]; subst. constructor.
      + rewrite map_map. cbn [fst]. exact ND.
      + clear ND H. induction Hd as [|x l Hx Hl IH]; cbn [map]; [constructor|]. inversion HF; subst.
        constructor; [cbn [snd]; apply Hx; assumption | apply IH; assumption].
    - inversion H.
    - destruct (a (i, g)) as [y|] eqn:E; [|constructor]. apply Ha in E. destruct E. unfold ref_obj. constructor; assumption.
  Qed.

  Lemma top_wf_rename_o o : top_wf o -> top_wf (rename_o a o).
  Proof.
    destruct o; try (intro H; apply (obj_wf_rename_o _ H)).
    - (* stream *) intros [H1 H2]. cbn [rename_o top_wf]. split.
      + exact (obj_wf_rename_o (ODict d) H1).
      + change (map (fun kv => (fst kv, rename_o a (snd kv))) d) with (rename_dict_o a d).
        rewrite dict_get_rename_o, H2. reflexivity.
    - (* reference *) intro H. cbn [top_wf] in H. pose proof (obj_wf_rename_o _ H) as K. cbn [rename_o] in *.
      destruct (a (id, gen)); exact K.
  Qed.

  Lemma skipped_rename_o o : skipped (rename_o a o) = skipped o.
  Proof.
    unfold skipped, type_name. destruct o; try reflexivity; cbn [rename_o].
    - change (map (fun kv => (fst kv, rename_o a (snd kv))) d) with (rename_dict_o a d). rewrite get_type_rename_o. reflexivity.
    - change (map (fun kv => (fst kv, rename_o a (snd kv))) d) with (rename_dict_o a d). rewrite get_type_rename_o. reflexivity.
    - destruct (a (id, gen)); reflexivity.
  Qed.

  Lemma nest_rename_o o : nest (rename_o a o) = nest o.
  Proof.
    induction o as [|b|z|r|n|s h|l Hl|d Hd|d c Hd|i g] using obj_ind'; try reflexivity; cbn [rename_o nest].
    - f_equal. induction Hl as [|x l Hx Hl IH]; cbn [map fold_right]; [reflexivity|]. congruence.
    - f_equal. induction Hd as [|x l Hx Hl IH]; cbn [map fold_right]; [reflexivity|]. cbn [snd]. congruence.
    - f_equal. induction Hd as [|x l Hx Hl IH]; cbn [map fold_right]; [reflexivity|]. cbn [snd]. congruence.
    - destruct (a (i, g)); reflexivity.
  Qed.
End Wf.

(* ---------- small facts ---------- *)
Lemma In_lookup (m : objmap) k o : NoDup (map fst m) -> In (k, o) m -> lookup m k = Some o.
Proof.
  induction m as [|[k0 o0] m IH]; cbn [map fst In lookup]; intros ND H; [contradiction|].
  inversion ND; subst. destruct H as [H|H].
  - inversion H; subst. rewrite oid_eqb_refl. reflexivity.
  - destruct (oid_eqb k0 k) eqn:E; [|auto]. apply oid_eqb_eq in E. subst. exfalso. apply H2. apply in_map_iff. exists (k, o). auto.
Qed.

Lemma nums_from_range : forall n s x, In x (nums_from s n) -> s <= x < s + N.of_nat n.
Proof.
  induction n as [|n IH]; intros s x H; cbn [nums_from] in H; [destruct H|].
  destruct H as [<-|H]; [lia|]. apply IH in H. lia.
Qed.

Lemma nums_from_increasing : forall n s lo, lo < s -> increasing lo (nums_from s n).
Proof.
  induction n as [|n IH]; intros s lo H; cbn [nums_from increasing]; [exact I|]. split; [exact H|]. apply IH. lia.
Qed.

Lemma last_number_le (m : objmap) B : Forall (fun io => fst (fst io) <= B) m -> last_number m <= B.
Proof.
  unfold last_number. assert (G : forall acc, acc <= B -> Forall (fun io : oid * obj => fst (fst io) <= B) m ->
                                     fold_left (fun a io => N.max a (fst (fst io))) m acc <= B).
  { induction m as [|io m IH]; intros acc Ha H; cbn [fold_left]; [exact Ha|]. inversion H; subst. apply IH; [apply N.max_lub; assumption | assumption]. }
  intro H. apply G; [lia | exact H].
Qed.

(* the part of [savable] that does not speak about object numbers or max_id *)
Record writable (d : doc) : Prop := {
  wr_mark : binary_mark_ok (d_binary_mark d) = true;
  wr_version_eol : no_eol (d_version d);
  wr_version_utf8 : Utf.utf8_decode (d_version d) <> None;
  wr_objects : Forall (fun io => snd (fst io) <= u16_max /\ top_wf (snd io) /\ skipped (snd io) = false) (d_objects d);
  wr_trailer : obj_wf (ODict (d_trailer d));
  wr_no_prev : dict_has (d_trailer d) K_Prev = false;
  wr_no_encrypt : dict_has (d_trailer d) K_Encrypt = false;
}.

Lemma savable_writable d : savable d -> writable d.
Proof. intros [A B C D E F G H J]. constructor; assumption. Qed.

(* ---------- renumbering establishes the domain of the round trip ---------- *)
Theorem renumber_savable start d :
  sorted_keys (d_objects (base d)) -> 1 <= start ->
  start + N.of_nat (length (d_objects (base d))) + 1 < u32_mod ->
  writable (base d) ->
  exists d', renumber_objects_with start d = Done d' /\ savable (base d') /\
             (known_deep (base d) = false -> known_deep (base d') = false).
Proof.
  intros Sm H1 Hb W.
  assert (F : fits start d) by (unfold fits; unfold u32_mod in Hb; lia).
  destruct (renumber_main start d Sm F) as [d' [rho [E Post]]]. exists d'. split; [exact E|].
  destruct Post as [Inj [Hhas [Htr [Pin [Pout [_ [_ [_ [_ [_ [_ [_ [Nm [G [Mx [S' [V B]]]]]]]]]]]]]]]]].
  unfold doc_m, doc_tr in *.
  set (m := d_objects (base d)) in *. set (m' := d_objects (base d')) in *. set (a := live m rho) in *.
  set (n := length m) in *.
  assert (Hnum : forall k, In k (map fst m') -> start <= fst k < start + N.of_nat n).
  { intros k Hk. apply nums_from_range. rewrite <- Nm. apply in_map. exact Hk. }
  assert (Hgen : forall k, In k (map fst m') -> snd k <= u16_max).
  { intros k Hk. assert (Hs : In (snd k) (map snd (map fst m'))) by (apply in_map; exact Hk).
    rewrite G in Hs. apply in_map_iff in Hs. destruct Hs as [k0 [Es Hk0]]. apply in_map_iff in Hk0. destruct Hk0 as [io [Ek Hio]].
    pose proof (wr_objects _ W) as Ho. rewrite Forall_forall in Ho. destruct (Ho io Hio) as [Hg _]. subst k0. rewrite <- Es. exact Hg. }
  assert (Ha : forall id y, a id = Some y -> fst y <= u32_max /\ snd y <= u16_max).
  { intros id y Ey. apply live_inv in Ey. destruct Ey as [Hh ->].
    assert (Hk : In (rho id) (map fst m')) by (apply Hhas; exists id; auto).
    split; [|apply Hgen; exact Hk]. apply Hnum in Hk. unfold u32_max. unfold u32_mod in Hb. lia. }
  assert (ND' : NoDup (map fst m')) by (apply sorted_nodup; exact S').
  assert (Hobj : forall k o', In (k, o') m' ->
            exists id o, In (id, o) m /\ k = rho id /\ (o' = rename_o a o \/ o' = o)).
  { intros k o' Hin. pose proof (In_lookup m' k o' ND' Hin) as L.
    assert (Hk : has_obj m' k) by (apply in_map_iff; exists (k, o'); auto).
    apply Hhas in Hk. destruct Hk as [id [Hid ->]]. destruct (has_lookup m id Hid) as [o Lo].
    exists id, o. split; [apply lookup_In; exact Lo|]. split; [reflexivity|].
    destruct (in_dec oid_eq_dec id (reach_list (d_trailer (base d)) m)) as [R|R].
    - left. apply reach_list_spec in R. rewrite (Pin id R Hid), Lo in L. cbn in L. congruence.
    - right. rewrite Pout in L; [congruence | exact Hid|]. intro K. apply R. apply reach_list_spec. exact K. }
  split.
  - constructor.
    + (* max_id *)
      assert (Hl : last_number m' <= start + N.of_nat n - 1).
      { apply last_number_le. apply Forall_forall. intros io Hio.
        assert (Hk : In (fst io) (map fst m')) by (apply in_map; exact Hio). apply Hnum in Hk. lia. }
      assert (Hm : d_max_id (base d') <= start + N.of_nat n - 1).
      { rewrite Mx. unfold dense_max. fold m. fold n. destruct m; [destruct (start =? 0); lia | lia]. }
      fold m'. pose proof (N.max_lub _ _ _ Hm Hl) as Hx. unfold u32_mod in *. lia.
    + rewrite B. apply W.
    + rewrite V. apply W.
    + rewrite V. apply W.
    + (* numbers *) fold m'. replace (obj_numbers m') with (map fst (map fst m')) by (unfold obj_numbers; apply map_map).
      rewrite Nm. apply nums_from_increasing. lia.
    + (* objects *) fold m'. apply Forall_forall. intros [k o'] Hin. cbn [fst snd].
      split; [apply Hgen; apply in_map_iff; exists (k, o'); auto|].
      destruct (Hobj k o' Hin) as [id [o [Hio [_ Ho']]]].
      pose proof (wr_objects _ W) as Ho. rewrite Forall_forall in Ho. destruct (Ho (id, o) Hio) as [_ [T Sk]]. cbn [snd] in T, Sk.
      destruct Ho' as [-> | ->]; [|auto]. split; [apply top_wf_rename_o; assumption | rewrite skipped_rename_o; exact Sk].
    + (* trailer *) rewrite Htr. exact (obj_wf_rename_o a Ha (ODict (d_trailer (base d))) (wr_trailer _ W)).
    + rewrite Htr, dict_has_rename_o. apply W.
    + rewrite Htr, dict_has_rename_o. apply W.
  - (* nesting depth *)
    unfold known_deep. intro K. apply orb_false_iff in K. destruct K as [K1 K2]. apply orb_false_iff. split.
    + fold m'. fold m in K1. destruct (existsb (fun io => (MAX_DEPTH <? nest (snd io))%nat) m') eqn:Ex; [|reflexivity]. exfalso.
      apply existsb_exists in Ex. destruct Ex as [[k o'] [Hin Hd]]. cbn [snd] in Hd.
      destruct (Hobj k o' Hin) as [id [o [Hio [_ Ho']]]].
      assert (Hn : nest o' = nest o) by (destruct Ho' as [-> | ->]; [apply nest_rename_o | reflexivity]).
      rewrite Hn in Hd. assert (Ke : existsb (fun io => (MAX_DEPTH <? nest (snd io))%nat) m = true).
      { apply existsb_exists. exists (id, o). auto. }
      congruence.
    + rewrite Htr. change (ODict (rename_dict_o a (d_trailer (base d)))) with (rename_o a (ODict (d_trailer (base d)))).
      rewrite nest_rename_o. exact K2.
Qed.

(* ---------- renumber ; save ; load ---------- *)
Theorem renumber_save_load xt start d :
  sorted_keys (d_objects (base d)) -> 1 <= start ->
  start + N.of_nat (length (d_objects (base d))) + 1 < u32_mod ->
  writable (base d) -> known_deep (base d) = false ->
  exists d', renumber_objects_with start d = Done d' /\
    (small_file xt (base d') -> cycles_fit xt (base d') ->
     load (so_bytes (save xt (base d'))) = LOk (reloaded xt (base d')) (xtype_of xt) /\
     same_doc (base d') (reloaded xt (base d'))).
Proof.
  intros Sm H1 Hb W K. destruct (renumber_savable start d Sm H1 Hb W) as [d' [E [S Kd]]].
  exists d'. split; [exact E|]. intros Hs Hc.
  destruct (load_save_full xt (base d') S (Kd K) Hs Hc) as [L [D _]]. split; assumption.
Qed.

(* ---------- non-vacuity: a document that is NOT savable (number 5 under two generations, pages out of id
   order) is writable; renumbering makes it savable, and the saved file loads back as the renumbered document ---------- *)
Lemma ex_gens_writable : writable (base ex_gens).
Proof.
  constructor.
  - vm_compute. reflexivity.
  - vm_compute. reflexivity.
  - vm_compute. discriminate.
  - repeat (apply Forall_cons || apply Forall_nil); cbn [fst snd]; (split; [vm_compute; discriminate|]);
      (split; [|vm_compute; reflexivity]); unfold page_of, S_; cbn [top_wf];
      repeat (constructor; try (vm_compute; intuition discriminate); try (vm_compute; discriminate)).
  - cbn. repeat (constructor; try (vm_compute; intuition discriminate); try (vm_compute; discriminate)).
  - vm_compute. reflexivity.
  - vm_compute. reflexivity.
Qed.

Theorem ex_gens_save_load :
  writable (base ex_gens) /\ ~ savable (base ex_gens) /\ known_deep (base ex_gens) = false /\
  exists d', renumber_objects_with 1 ex_gens = Done d' /\ savable (base d') /\
    map fst (d_objects (base d')) = [(1,0); (2,0); (3,0); (4,1); (5,0); (6,0)] /\
    load (so_bytes (save XTable (base d'))) = LOk (reloaded XTable (base d')) XTTable /\
    same_doc (base d') (reloaded XTable (base d')).
Proof.
  split; [exact ex_gens_writable|]. split.
  { intro S. pose proof (sd_numbers _ S) as H. vm_compute in H. intuition discriminate. }
  split; [vm_compute; reflexivity|].
  assert (Sm : sorted_keys (d_objects (base ex_gens))) by (unfold sorted_keys; vm_compute; repeat constructor).
  destruct (renumber_savable 1 ex_gens Sm) as [d' [E [S K]]]; [lia | vm_compute; reflexivity | exact ex_gens_writable|].
  exists d'. split; [exact E|]. split; [exact S|].
  assert (X1 : match renumber_objects_with 1 ex_gens with Done x => map fst (d_objects (base x)) | _ => [] end =
               [(1,0); (2,0); (3,0); (4,1); (5,0); (6,0)]) by (vm_compute; reflexivity).
  assert (X2 : match renumber_objects_with 1 ex_gens with
               | Done x => (blen (so_bytes (save XTable (base x))) <? u32_mod) | _ => false end = true) by (vm_compute; reflexivity).
  rewrite E in X1, X2. split; [exact X1|].
  destruct (renumber_save_load XTable 1 ex_gens Sm) as [d'' [E2 H]]; [lia | vm_compute; reflexivity | exact ex_gens_writable | vm_compute; reflexivity|].
  rewrite E in E2. inversion E2; subst d''. apply H; [unfold small_file; apply N.ltb_lt; exact X2 | exact I].
Qed.
