(* LoadsRefLenProofs.v -- C02 rung 3, cross-reference TABLE format, streams whose Length is written directly OR as a
   reference to an integer object of the document (the eager path of Proofs/LengthRefProofs.v), against c01's extended
   reader Model/LoaderExt.v load_ext for ANY Stream::decompress.  The layout lemmas are those of
   Proofs/LoadsTableProofs.v (its section is repeated with the wider domain [top_ok2]). *)
From LV Require Import Base.Bytes Base.Sx Model.Obj Model.Writer Model.Parser Model.Xref Model.Loader Model.Utf Gen.Lex
  Spec.XrefSpec Spec.RefWriter Proofs.LexProofs Proofs.LoadProofs Proofs.LoadProofsFile Proofs.XrefProofs
  Proofs.XrefTableProofs Proofs.ObjectRtProofs Proofs.SpellingProofs Proofs.SpellingObjProofs Proofs.SpellingFileProofs
  Proofs.LoadsFrameProofs Proofs.LoadsTableProofs.
From LV Require Import Model.LoaderExt Proofs.LoaderExtProofs Proofs.LengthRefProofs.
From LV Require Gen.SaveFmt Proofs.FilterProofsDict.
From Coq Require Import Lia.
Local Open Scope N_scope.

(* ---------- the loop over the entries of load_ext when no stream is left without content position ---------- *)
Section EntriesX.
  Variable dec : dict -> bytes -> option (dict * bytes).
  Variable can : dict -> bool.
  Variable buf : bytes.
  Variable x : xmap.
  Variable objf : N -> N -> obj.

  Lemma read_entries_x_all : forall es st,
    r_pos st = [] -> r_ostm st = [] ->
    (forall n off g, In (n, XNormal off g) es ->
       off <= blen buf /\ indirect_x buf x (from off buf) None = IxOk (n, g) (objf n g) None /\ no_objstm (objf n g)) ->
    exists zs, read_entries_x dec can buf x es st =
               SOk {| r_objs := fold_left (ins objf) es (r_objs st); r_pos := []; r_ostm := []; r_zero := zs |}.
  Proof.
    induction es as [|[k e] es IH]; intros st Hp Ho H.
    - exists (r_zero st). cbn [read_entries_x fold_left]. destruct st; cbn in *; subst; reflexivity.
    - assert (Ht : forall n off g, In (n, XNormal off g) es ->
                off <= blen buf /\ indirect_x buf x (from off buf) None = IxOk (n, g) (objf n g) None /\ no_objstm (objf n g))
        by (intros; apply H; right; assumption).
      cbn [read_entries_x fold_left]. destruct e as [| |off g|c i]; try (apply IH; assumption).
      destruct (H k off g (or_introl eq_refl)) as [H1 [H2 H3]].
      assert (blen buf <? off = false) as -> by (apply N.ltb_ge; exact H1).
      rewrite H2. unfold ins at 2. cbn [fst snd].
      destruct (objf k g) eqn:Eo;
        try (apply (IH {| r_objs := insert (r_objs st) (k, g) _; r_pos := pos_set (r_pos st) (k, g) None;
                          r_ostm := r_ostm st; r_zero := r_zero st |}); [cbn [r_pos]; rewrite Hp; reflexivity|exact Ho|exact Ht]).
      cbn [no_objstm] in H3. rewrite H3.
      apply (IH {| r_objs := insert (r_objs st) (k, g) (OStream d content); r_pos := pos_set (r_pos st) (k, g) None;
                   r_ostm := r_ostm st; r_zero := match content with [] => r_zero st ++ [(k, g)] | _ => r_zero st end |});
        [cbn [r_pos]; rewrite Hp; reflexivity|exact Ho|exact Ht].
  Qed.

  Theorem load_ext_frame_x (junk F pre : bytes) version x0 t0 :
    pdf_offset (junk ++ F) = blen junk -> F = buf ->
    Loader.header F = Some version ->
    get_xref_start F = Some (blen pre) ->
    xref_and_trailer_x dec can F (blen pre) = SOk (x0, t0) -> x_entries x0 = x ->
    dict_get t0 K_Prev = None -> dict_has t0 K_Encrypt = false ->
    xref_max_id x0 < u32_max ->
    (forall n off g, In (n, XNormal off g) x ->
       off <= blen buf /\ indirect_x buf x (from off buf) None = IxOk (n, g) (objf n g) None /\ no_objstm (objf n g)) ->
    load_ext dec can (junk ++ F) =
    LOk {| d_version := version; d_binary_mark := read_binary_mark F; d_trailer := dict_swap_remove t0 K_Prev;
           d_objects := fold_left (ins objf) x []; d_max_id := xref_max_id x0 |} (x_type x0).
  Proof.
    intros H1 HF H2 H3 H4 Hx H5 H6 H7 H8. unfold load_ext. rewrite H1, from_app, H2, H3, H4.
    rewrite H5. cbn [prev_loop_x].
    assert (u32_max <=? xref_max_id x0 = false) as -> by (apply N.leb_gt; exact H7).
    assert (R : dict_swap_remove t0 K_Prev = t0) by (unfold dict_swap_remove, dict_has; rewrite H5; reflexivity).
    rewrite R, H6. rewrite Hx, HF.
    destruct (read_entries_x_all x {| r_objs := []; r_pos := []; r_ostm := []; r_zero := [] |} eq_refl eq_refl H8) as [zs ->].
    cbn [r_objs r_ostm r_pos r_zero]. unfold merge_object_streams. cbn [fold_left].
    rewrite zero_pass_id by (intros id' q Hq; discriminate Hq). reflexivity.
  Qed.
End EntriesX.

(* ---------- the domain: Length direct, or a reference to an integer object of the document ---------- *)
Definition top_ok2 (a : adoc) (tp : top) : Prop :=
  let '((i, g), o, y) := tp in
  1 <= i /\ g <= u16_max /\
  match o with
  | OStream d c => spell_wf (ODict d) (i_obj y) /\ (nest (ODict d) <= MAX_DEPTH)%nat /\ has_type d K_ObjStm = false /\
                   (dict_get d K_Length = Some (OInt (Z.of_nat (length c))) \/
                    exists li lg, dict_get d K_Length = Some (ORef li lg) /\ In ((li, lg), OInt (Z.of_nat (length c))) (a_objs a))
  | _ => spell_wf o (i_obj y) /\ (nest o <= MAX_DEPTH)%nat
  end.

Section RefLenTable.
  Variable st : fstyle.
  Variable a : adoc.
  Variable t : tstyle.
  Hypothesis Hxt : s_xref st = XTable t.
  Hypothesis Hos : s_ostms st = [].

  Definition nums : list N := map (fun io => fst (fst io)) (a_objs a).
  Definition tops : list top :=
    map (fun io => (fst io, snd io, find_istyle (s_objs st) (fst (fst io)))) (a_objs a).
  Definition otops : list top := ordered (s_order st) tops.
  Definition hdr : bytes := RefWriter.header st (a_version a).
  Definition offs := offs_of (N.of_nat (length hdr)) otops.
  Definition xpos : N := N.of_nat (length hdr + length (body_of otops)).
  Definition size : N := 1 + max_num nums.
  Definition entry : N -> sentry := entry_of offs st.
  Definition usedf (n : N) : bool := (n =? 0) || is_used (entry n).
  Definition secs := use_secs (t_secs t) size usedf.
  Definition tsecs := build_tsecs secs entry (t_eols t) (t_eols t) (t_sec_eols t) (t_sec_sp t).
  Definition trd : dict := a_trailer a ++ [(RefWriter.K_Size, OInt (Z.of_N size))].
  Definition trailer_part : bytes :=
    join [(bs "trailer", t_f1 t); (w_obj (ODict trd) (t_trailer t), t_f2 t); (startxref_text st xpos, [])].
  Definition xr : bytes := table_text (t_kw_eol t) tsecs ++ trailer_part.
  Definition F : bytes := hdr ++ body_of otops ++ xr.

  (* the domain *)
  Hypothesis Hnd : NoDup nums.
  Hypothesis Htops : Forall (top_ok2 a) tops.
  Hypothesis Hver : no_eolb (a_version a) = true /\ utf8_decode (a_version a) <> None.
  Hypothesis Hjunk : contains (bs "%PDF-") (s_junk st) = false.
  Hypothesis Htr : spell_wf (ODict trd) (t_trailer t) /\ (nest (ODict trd) <= MAX_DEPTH)%nat /\
                   dict_get (a_trailer a) RefWriter.K_Size = None /\ dict_get (a_trailer a) K_Prev = None /\
                   dict_get (a_trailer a) K_Encrypt = None.
  Hypothesis Hsmall : xpos <= u32_max /\ size <= u32_max /\ 25 < xpos.
  Hypothesis Hsx : (9 + length (sx_mid (s_sx_eol1 st) (s_sx_sp1 st) xpos (s_sx_sp2 st) (s_sx_eol2 st)) <= 25)%nat.

  Lemma tops_nums : map top_num tops = nums.
  Proof. unfold tops, nums. rewrite map_map. reflexivity. Qed.

  Lemma otop_in tp : In tp otops <-> In tp tops.
  Proof. apply ordered_In. Qed.

  Lemma otop_unique tp tp' : In tp otops -> In tp' otops -> top_num tp = top_num tp' -> tp = tp'.
  Proof.
    intros H1 H2 E. apply (unique_by_key top_num tops); [rewrite tops_nums; exact Hnd|apply otop_in; exact H1|apply otop_in; exact H2|exact E].
  Qed.

  Lemma otop_ok tp : In tp otops -> top_ok2 a tp /\ 1 <= top_num tp /\ top_num tp <= max_num nums.
  Proof.
    intro H. apply otop_in in H. pose proof (proj1 (Forall_forall _ _) Htops tp H) as Hk. split; [exact Hk|].
    split.
    - destruct tp as [[[i g] o] y]. cbn in Hk. unfold top_num. cbn [fst]. tauto.
    - apply max_num_ge. rewrite <- tops_nums. apply in_map. exact H.
  Qed.

  (* an entry in use names an object of the file, at the position where it is *)
  Lemma entry_inuse n off g : entry n = SInUse off g ->
    exists pre tp post, otops = pre ++ tp :: post /\ fst (fst tp) = (n, g) /\
                        off = N.of_nat (length hdr) + N.of_nat (length (body_of pre)).
  Proof.
    unfold entry, entry_of. destruct (n =? 0); [discriminate|].
    destruct (find_off offs n) as [[g0 p0]|] eqn:Ef.
    - intro H. inversion H; subst. apply find_off_In in Ef. unfold offs in Ef.
      destruct (offs_of_In _ _ _ _ _ Ef) as [pre [o [y [post [E Ep]]]]]. exists pre, ((n, g), o, y), post. auto.
    - rewrite Hos. cbn [find_comp]. discriminate.
  Qed.

  Lemma entry_of_top tp : In tp otops -> exists off, entry (top_num tp) = SInUse off (snd (fst (fst tp))).
  Proof.
    intro H. destruct (otop_ok tp H) as [_ [H1 _]].
    destruct (find_off_exists otops (N.of_nat (length hdr)) tp H) as [g [p Ef]].
    assert (En : entry (top_num tp) = SInUse p g).
    { unfold entry, entry_of. fold offs in Ef. replace (top_num tp =? 0) with false by (symmetry; apply N.eqb_neq; lia).
      rewrite Ef. reflexivity. }
    destruct (entry_inuse _ _ _ En) as [pre [tp' [post [E [Ek _]]]]].
    assert (tp' = tp).
    { apply otop_unique; [rewrite E; apply in_or_app; right; left; reflexivity|exact H|]. unfold top_num. rewrite Ek. reflexivity. }
    subst tp'. exists p. rewrite Ek. cbn [snd]. exact En.
  Qed.

  Lemma entry_tentry_ok k : tentry_ok (entry k).
  Proof.
    destruct (entry k) as [a0 b0|off g|c i] eqn:E.
    - unfold entry, entry_of in E. destruct (k =? 0); [inversion E; subst; cbn; unfold u32_max; lia|].
      destruct (find_off offs k) as [[g0 p0]|]; [discriminate E|]. rewrite Hos in E. cbn [find_comp] in E. inversion E; subst. cbn. unfold u32_max. lia.
    - destruct (entry_inuse _ _ _ E) as [pre [tp [post [Eo [Ek Ep]]]]]. cbn [tentry_ok].
      assert (Hin : In tp otops) by (rewrite Eo; apply in_or_app; right; left; reflexivity).
      destruct (otop_ok tp Hin) as [Hk _]. destruct tp as [[[i g0] o] y]. cbn [fst] in Ek. inversion Ek; subst.
      cbn in Hk. destruct Hk as [_ [Hg _]]. split; [|unfold u16_max in Hg; lia].
      destruct Hsmall as [Hx _]. unfold xpos in Hx. rewrite Eo, body_of_app, app_length in Hx. lia.
    - unfold entry, entry_of in E. destruct (k =? 0); [discriminate E|].
      destruct (find_off offs k) as [[g0 p0]|]; [discriminate E|]. rewrite Hos in E. cbn [find_comp] in E. discriminate E.
  Qed.

  Lemma size_ge : 1 <= size. Proof. unfold size. lia. Qed.
  Lemma secs_are_good : secs_good secs size usedf. Proof. apply use_secs_good, size_ge. Qed.

  Lemma secs_ne : secs <> [].
  Proof.
    destruct secs_are_good as [_ [H _]]. destruct (H 0) as [f [c [Hin _]]]; [pose proof size_ge; lia|reflexivity|].
    intro E. rewrite E in Hin. contradiction.
  Qed.

  Definition numb := map (fun k => (k, entry k)) (keys_of secs).

  Lemma numbered_eq : numbered (tsections_plain tsecs) = numb.
  Proof. unfold tsecs. rewrite build_tsecs_plain. apply numbered_plain. Qed.

  Lemma numb_keys_nodup : NoDup (map fst numb).
  Proof.
    unfold numb. rewrite map_map. cbn [fst]. rewrite map_id.
    destruct secs_are_good as [H _]. apply (keys_increasing secs 0 H).
  Qed.

  Definition x0 : xref := {| x_type := XTTable; x_entries := spec_map numb; x_size := i64_as_u32 (Z.of_N size) |}.
  Definition t0 : dict := denote_dict trd (dict_sts (t_trailer t)).

  Lemma xr_parse : xref_and_trailer_table xr = XOk (x0, t0).
  Proof.
    unfold xref_and_trailer_table, xr.
    assert (Htk : tok_start trailer_part = true) by reflexivity.
    rewrite (xref_table_any_sectioning (t_kw_eol t) tsecs trailer_part).
    2:{ apply build_tsecs_ne, secs_ne. }
    2:{ apply (build_tsecs_ok entry _ size entry_tentry_ok (proj1 (proj2 Hsmall))).
        intros f c Hin. destruct secs_are_good as [_ [_ H]]. apply H. exact Hin. }
    2:{ reflexivity. }
    rewrite (space_tok _ Htk).
    destruct Htr as [Hw [Hn [Hs _]]].
    pose proof (trailer_any_spelling (t_f1 t) (t_f2 t) trd (t_trailer t) (startxref_text st xpos) [] Hw Hn) as Et.
    rewrite !app_nil_r in Et.
    assert (Et' : Xref.trailer trailer_part = POk t0 (startxref_text st xpos)).
    { apply Et; rewrite startxref_text_block; [discriminate|reflexivity]. }
    rewrite Et'.
    assert (Eg : dict_get t0 Xref.K_Size = Some (OInt (Z.of_N size))).
    { change Xref.K_Size with RefWriter.K_Size. unfold t0. apply dict_get_denote. unfold trd. apply dict_get_app_r. exact Hs. }
    rewrite Eg. cbn [x_type x_entries]. rewrite numbered_eq. reflexivity.
  Qed.

  Lemma t0_clean : dict_get t0 K_Prev = None /\ dict_has t0 K_Encrypt = false.
  Proof.
    destruct Htr as [_ [_ [_ [Hp He]]]]. unfold t0, trd. split.
    - apply dict_get_denote_none. rewrite dict_get_app_other by reflexivity. exact Hp.
    - unfold dict_has. rewrite dict_get_denote_none; [reflexivity|]. rewrite dict_get_app_other by reflexivity. exact He.
  Qed.

  (* the entries of the table *)
  Definition E (n : N) : option xentry := entry_meaning (entry n).

  Lemma entries_fun n e : In (n, e) (x_entries x0) -> E n = Some e.
  Proof.
    intro H. cbn [x_entries x0] in H. unfold spec_map in H.
    destruct (spec_map_sound _ _ _ _ H) as [[]|[se [K1 K2]]].
    unfold numb in K1. apply in_map_iff in K1 as [k [Ek _]]. inversion Ek; subst. exact K2.
  Qed.

  Definition objf (n g : N) : obj :=
    match find (fun tp => top_num tp =? n) otops with Some tp => loaded_top tp | None => ONull end.

  Lemma objf_top tp : In tp otops -> objf (top_num tp) (snd (fst (fst tp))) = loaded_top tp.
  Proof.
    intro H. unfold objf. destruct (find (fun tp0 => top_num tp0 =? top_num tp) otops) as [tp'|] eqn:Ef.
    - apply find_some in Ef as [H1 H2]. apply N.eqb_eq in H2. rewrite (otop_unique tp' tp H1 H H2). reflexivity.
    - exfalso. pose proof (find_none _ _ Ef tp H) as K. cbv beta in K. rewrite N.eqb_refl in K. discriminate K.
  Qed.


  Lemma max_id_small : xref_max_id x0 < u32_max.
  Proof.
    unfold xref_max_id. apply N.le_lt_trans with (m := max_num nums).
    - apply max_id_le; [lia|]. intros k v H. pose proof (entries_fun _ _ H) as En. unfold E in En.
      destruct (entry k) as [a0 b0|off g|c i] eqn:Ee; cbn [entry_meaning] in En; try discriminate En.
      + destruct (entry_inuse _ _ _ Ee) as [pre [tp [post [Eo [Ek _]]]]].
        assert (Hin : In tp otops) by (rewrite Eo; apply in_or_app; right; left; reflexivity).
        destruct (otop_ok tp Hin) as [_ [_ H2]]. unfold top_num in H2. rewrite Ek in H2. exact H2.
      + exfalso. pose proof (entry_tentry_ok k) as K. rewrite Ee in K. exact K.
    - destruct Hsmall as [_ [Hs _]]. unfold size in Hs. lia.
  Qed.


  (* ---------- load_ext ---------- *)
  Variable dec : dict -> bytes -> option (dict * bytes).
  Variable can : dict -> bool.

  Lemma xr_parse_x : xref_and_trailer_x dec can F (blen (hdr ++ body_of otops)) = SOk (x0, t0).
  Proof.
    rewrite xref_and_trailer_x_agrees.
    - unfold xref_and_trailer. unfold F at 1. rewrite app_assoc, from_app, xr_parse. reflexivity.
    - unfold xref_and_trailer. unfold F at 1. rewrite app_assoc, from_app, xr_parse. discriminate.
  Qed.

  Lemma xget_top tp : In tp otops -> exists off, xget (x_entries x0) (top_num tp) = Some (XNormal off (snd (fst (fst tp)))) /\
    exists pre post, otops = pre ++ tp :: post /\ off = N.of_nat (length hdr) + N.of_nat (length (body_of pre)).
  Proof.
    intro Hin. destruct (entry_of_top tp Hin) as [off Ee]. destruct (otop_ok tp Hin) as [_ [H1 H2]].
    assert (Hkey : In (top_num tp) (keys_of secs)).
    { apply keys_of_In. destruct secs_are_good as [_ [Hc _]]. apply Hc; [unfold size; lia|].
      unfold usedf. rewrite Ee. apply orb_true_r. }
    exists off. split.
    - cbn [x_entries x0]. rewrite (xget_spec_map numb (top_num tp) (entry (top_num tp)) numb_keys_nodup).
      + rewrite Ee. reflexivity.
      + unfold numb. apply in_map_iff. exists (top_num tp). split; [reflexivity|exact Hkey].
    - destruct (entry_inuse _ _ _ Ee) as [pre [tp' [post [Eo [Ek Ep]]]]].
      assert (tp' = tp).
      { apply otop_unique; [rewrite Eo; apply in_or_app; right; left; reflexivity|exact Hin|]. unfold top_num. rewrite Ek. reflexivity. }
      subst tp'. exists pre, post. split; assumption.
  Qed.

  (* one object at its place, read by Reader::read_object with the table known *)
  Lemma indirect_top2 tp pre post : otops = pre ++ tp :: post ->
    indirect_x F (x_entries x0) (top_text tp ++ body_of post ++ xr) None = IxOk (fst (fst tp)) (loaded_top tp) None /\
    no_objstm (loaded_top tp).
  Proof.
    intro Eo. assert (Hin : In tp otops) by (rewrite Eo; apply in_or_app; right; left; reflexivity).
    destruct (otop_ok tp Hin) as [Hk [H1 H2]].
    assert (Hi : fst (fst (fst tp)) <= u32_max).
    { fold (top_num tp). destruct Hsmall as [_ [Hs _]]. unfold size in Hs. lia. }
    destruct tp as [[[i g] o] y]. unfold top_ok2 in Hk. unfold top_text, loaded_top. cbn [fst snd] in *.
    destruct Hk as [_ [Hg Ho]]. rewrite <- app_assoc. unfold indirect_x.
    destruct o as [| | | | | | | |d c|];
      try (destruct Ho as [Hw Hn]; split; [|exact I];
           match goal with |- indirect_with ?b ?s0 ?e ?l = _ => pose proof (indirect_with_agrees b s0 e l) as A end;
           rewrite indirect_any_spelling in A by (try assumption; intros d0 c0 K; discriminate K);
           destruct A as [pos [-> [->|[d0 [K _]]]]]; [reflexivity|discriminate K]).
    destruct Ho as [Hw [Hn [HT HL]]].
    assert (Hno : no_objstm (stream_new (denote_dict d (dict_sts (i_obj y))) c)).
    { unfold stream_new, no_objstm. unfold has_type. rewrite dict_get_set_other by reflexivity.
      apply (has_type_denote d _ K_ObjStm HT). }
    split; [|exact Hno].
    destruct HL as [HL|[li [lg [HL Hlen]]]].
    - match goal with |- indirect_with ?b ?s0 ?e ?l = _ => pose proof (indirect_with_agrees b s0 e l) as A end.
      rewrite indirect_stream_any_spelling in A by assumption.
      destruct A as [pos [-> [->|[d0 [K Kn]]]]]; [reflexivity|].
      exfalso. unfold stream_new in K. inversion K; subst. unfold no_length in Kn. rewrite FilterProofsDict.dict_get_set_same in Kn. exact Kn.
    - (* the length object is a top of the file *)
      set (tl := ((li, lg), OInt (Z.of_nat (length c)), find_istyle (s_objs st) li)).
      assert (Htl : In tl otops).
      { apply otop_in. unfold tops. apply in_map_iff. exists ((li, lg), OInt (Z.of_nat (length c))). split; [reflexivity|exact Hlen]. }
      destruct (xget_top tl Htl) as [offl [Hx [prel [postl [Eol Eoff]]]]].
      destruct (otop_ok tl Htl) as [Hkl [Hl1 Hl2]]. unfold tl, top_ok2 in Hkl. cbn [fst snd] in Hkl.
      destruct Hkl as [_ [Hlg [Hlw _]]].
      apply (indirect_ref_length_eager i g d c y _ li lg Hi Hg Hw Hn HL); [|exact I].
      apply (get_length_finds _ F (x_entries x0) [] li lg (Z.of_nat (length c)) (find_istyle (s_objs st) li) offl
               (gap_bytes (i_gap (find_istyle (s_objs st) li)) ++ body_of postl ++ xr)).
      + reflexivity.
      + vm_compute. lia.
      + unfold get_offset. unfold top_num, tl in Hx. cbn [fst snd] in *. rewrite Hx, N.eqb_refl. reflexivity.
      + subst offl. unfold F, blen. rewrite Eol, body_of_app, !app_length. lia.
      + subst offl. unfold F. rewrite Eol. replace (N.of_nat (length hdr)) with (blen hdr) by reflexivity.
        rewrite from_at_offset. unfold top_text, tl. cbn [fst snd]. rewrite <- app_assoc. reflexivity.
      + unfold top_num, tl in Hl2. cbn [fst] in Hl2. destruct Hsmall as [_ [Hs _]]. unfold size in Hs. lia.
      + exact Hlg.
      + exact Hlw.
  Qed.

  Lemma entries_read_x : forall n off g, In (n, XNormal off g) (x_entries x0) ->
    off <= blen F /\ indirect_x F (x_entries x0) (from off F) None = IxOk (n, g) (objf n g) None /\ no_objstm (objf n g).
  Proof.
    intros n off g H. pose proof (entries_fun _ _ H) as En. unfold E in En.
    destruct (entry n) as [a0 b0|off' g'|c i] eqn:Ee; cbn [entry_meaning] in En; inversion En; subst off' g'.
    destruct (entry_inuse _ _ _ Ee) as [pre [tp [post [Eo [Ek Ep]]]]].
    assert (Hin : In tp otops) by (rewrite Eo; apply in_or_app; right; left; reflexivity).
    assert (Hn : top_num tp = n) by (unfold top_num; rewrite Ek; reflexivity).
    assert (Hg : snd (fst (fst tp)) = g) by (rewrite Ek; reflexivity).
    split.
    - subst off. unfold F, blen. rewrite Eo, body_of_app, !app_length. lia.
    - subst off. unfold F at 2. rewrite Eo.
      replace (N.of_nat (length hdr)) with (blen hdr) by reflexivity.
      rewrite from_at_offset.
      destruct (indirect_top2 tp pre post Eo) as [P1 P2].
      rewrite <- Hn, <- Hg, (objf_top tp Hin). rewrite P1. split; [|exact P2]. f_equal. clear. destruct tp as [[[? ?] ?] ?]. reflexivity.
  Qed.

  Theorem loads_table_reflen :
    exists d, load_ext dec can (s_junk st ++ F) = LOk d XTTable /\
      d_version d = a_version a /\ d_trailer d = t0 /\
      (forall tp, In tp tops -> lookup (d_objects d) (fst (fst tp)) = Some (loaded_top tp)) /\
      (forall id o, lookup (d_objects d) id = Some o -> exists tp, In tp tops /\ fst (fst tp) = id).
  Proof.
    set (objs := fold_left (ins objf) (x_entries x0) []).
    assert (HF : F = (hdr ++ body_of otops) ++ xr) by (unfold F; rewrite app_assoc; reflexivity).
    assert (Hhdr : exists rest, F = bs "%PDF-" ++ a_version a ++ eol_bytes (s_hdr_eol st) ++ rest).
    { unfold F, hdr, RefWriter.header. rewrite <- !app_assoc. eexists. reflexivity. }
    destruct Hhdr as [rest Er].
    destruct t0_clean as [Hp He]. destruct Hsmall as [Hx [Hs H25]].
    eexists. split.
    - apply (load_ext_frame_x dec can F (x_entries x0) objf (s_junk st) F (hdr ++ body_of otops) (a_version a) x0 t0).
      + rewrite Er. apply pdf_offset_junk. exact Hjunk.
      + reflexivity.
      + rewrite Er. apply header_any_eol; apply Hver.
      + assert (Ex : xr =
                     (table_text (t_kw_eol t) tsecs ++ bs "trailer" ++ sep_bytes (bs "trailer") (t_f1 t) (w_obj (ODict trd) (t_trailer t)) ++
                      w_obj (ODict trd) (t_trailer t) ++ sep_bytes (w_obj (ODict trd) (t_trailer t)) (t_f2 t) (startxref_text st xpos)) ++
                     startxref_text st xpos).
        { unfold xr, trailer_part. cbn [join]. change (fill_bytes []) with (@nil byte). rewrite app_nil_r, <- !app_assoc. reflexivity. }
        rewrite HF, Ex, app_assoc, startxref_text_block.
        assert (Eb : blen (hdr ++ body_of otops) = xpos) by (unfold blen, xpos; rewrite app_length; reflexivity).
        rewrite Eb.
        apply get_xref_start_styled; [|unfold blen in *; rewrite !app_length in *; lia|unfold u32_max in Hx; lia|exact Hsx].
        unfold blen. rewrite !app_length. unfold xpos in *. lia.
      + exact xr_parse_x.
      + reflexivity.
      + exact Hp.
      + exact He.
      + exact max_id_small.
      + exact entries_read_x.
    - cbn [d_version d_trailer d_objects]. split; [reflexivity|]. split.
      { unfold dict_swap_remove, dict_has. rewrite Hp. reflexivity. }
      assert (Hlk : forall id, lookup objs id = if hit E (x_entries x0) id then Some (objf (fst id) (snd id)) else None).
      { intro id. unfold objs. rewrite (lookup_fold_ins objf E _ [] id entries_fun). reflexivity. }
      split.
      + intros tp Hin. apply otop_in in Hin. fold objs. rewrite Hlk.
        destruct (xget_top tp Hin) as [off [Hxg _]]. destruct (entry_of_top tp Hin) as [off' Ee].
        apply xget_In in Hxg.
        unfold hit. change (fst (fst (fst tp))) with (top_num tp).
        rewrite (xget_some_key _ _ _ Hxg). unfold E. rewrite Ee. cbn [entry_meaning andb]. rewrite N.eqb_refl.
        rewrite (objf_top tp Hin). reflexivity.
      + intros id o Hl. fold objs in Hl. rewrite Hlk in Hl. destruct (hit E (x_entries x0) id) eqn:Eh; [|discriminate Hl].
        unfold hit in Eh. apply andb_true_iff in Eh as [Eh1 Eh2].
        unfold E in Eh2. destruct (entry (fst id)) as [a0 b0|off g|c i] eqn:Ee; cbn [entry_meaning] in Eh2; try discriminate Eh2.
        apply N.eqb_eq in Eh2.
        destruct (entry_inuse _ _ _ Ee) as [pre [tp [post [Eo [Ek _]]]]].
        exists tp. split; [apply otop_in; rewrite Eo; apply in_or_app; right; left; reflexivity|].
        rewrite Ek. destruct id; cbn [fst snd] in *. subst. reflexivity.
  Qed.
End RefLenTable.

Theorem loads_table_reflen_file st a t file dec can :
  s_xref st = XTable t -> s_ostms st = [] -> ref_write st a = Some file ->
  Forall (top_ok2 a) (LoadsTableProofs.tops st a) -> utf8_decode (a_version a) <> None ->
  (spell_wf (ODict (LoadsTableProofs.trd a)) (t_trailer t) /\ (nest (ODict (LoadsTableProofs.trd a)) <= MAX_DEPTH)%nat /\
   dict_get (a_trailer a) RefWriter.K_Size = None /\ dict_get (a_trailer a) K_Prev = None /\
   dict_get (a_trailer a) K_Encrypt = None) ->
  (LoadsTableProofs.xpos st a <= u32_max /\ LoadsTableProofs.size a <= u32_max /\ 25 < LoadsTableProofs.xpos st a) ->
  (9 + length (sx_mid (s_sx_eol1 st) (s_sx_sp1 st) (LoadsTableProofs.xpos st a) (s_sx_sp2 st) (s_sx_eol2 st)) <= 25)%nat ->
  exists d, load_ext dec can file = LOk d XTTable /\
    d_version d = a_version a /\ d_trailer d = LoadsTableProofs.t0 a t /\
    (forall tp, In tp (LoadsTableProofs.tops st a) -> lookup (d_objects d) (fst (fst tp)) = Some (loaded_top tp)) /\
    (forall id o, lookup (d_objects d) id = Some o -> exists tp, In tp (LoadsTableProofs.tops st a) /\ fst (fst tp) = id).
Proof.
  intros Hxt Hos Hw Htops Hu Htr Hsmall Hsx.
  destruct (ref_write_table st a t file Hxt Hos Hw) as [-> [Hnd [_ [Hj Hv]]]].
  apply (loads_table_reflen st a t); try assumption. split; assumption.
Qed.
