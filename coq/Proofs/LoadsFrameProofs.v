(* LoadsFrameProofs.v -- C02 rung 3, the file frame: Model/Loader.load (Reader::read, C01) on a file laid out as
   junk ++ header ++ body ++ cross-reference part, reduced to its pieces, and the loop over the cross-reference
   entries (read_entries) when every in-use entry points at an indirect object that parses. *)
From LV Require Import Base.Bytes Base.Sx Model.Obj Model.Writer Model.Parser Model.Xref Model.Loader Gen.Lex
  Proofs.LexProofs Proofs.LoadProofs Proofs.XrefProofs.
From Coq Require Import Lia.
Local Open Scope N_scope.

(* ---------- load, piece by piece ---------- *)
Theorem load_frame (junk F pre xr : bytes) version x0 t0 objs :
  pdf_offset (junk ++ F) = blen junk ->
  F = pre ++ xr ->
  header F = Some version ->
  get_xref_start F = Some (blen pre) ->
  xref_and_trailer_table xr = XOk (x0, t0) ->
  dict_get t0 K_Prev = None -> dict_has t0 K_Encrypt = false ->
  xref_max_id x0 < u32_max ->
  read_entries F (x_entries x0) [] = SOk objs ->
  load (junk ++ F) =
  LOk {| d_version := version; d_binary_mark := read_binary_mark F; d_trailer := dict_swap_remove t0 K_Prev;
         d_objects := objs; d_max_id := xref_max_id x0 |} (x_type x0).
Proof.
  intros H1 HF H2 H3 H4 H5 H6 H7 H8. unfold load. rewrite H1, from_app, H2, H3.
  unfold xref_and_trailer. rewrite HF at 1. rewrite from_app, H4. cbn [of_xres].
  rewrite H5. cbn [prev_loop].
  assert (u32_max <=? xref_max_id x0 = false) as -> by (apply N.leb_gt; exact H7).
  assert (E : dict_has (dict_swap_remove t0 K_Prev) K_Encrypt = false).
  { unfold dict_has in *. destruct (dict_get (dict_swap_remove t0 K_Prev) K_Encrypt) eqn:G; [|reflexivity].
    exfalso. assert (K : dict_get t0 K_Prev = None) by exact H5.
    (* removing an absent key changes nothing *)
    assert (R : dict_swap_remove t0 K_Prev = t0).
    { unfold dict_swap_remove, dict_has. rewrite K. reflexivity. }
    rewrite R in G. rewrite G in H6. discriminate H6. }
  rewrite E, H8. reflexivity.
Qed.

(* ---------- the loop over the entries ---------- *)
Definition no_objstm (o : obj) : Prop :=
  match o with OStream d _ => has_type d K_ObjStm = false | _ => True end.

Lemma oid_eqb_pair a b c d : oid_eqb (a, b) (c, d) = (a =? c) && (b =? d).
Proof. reflexivity. Qed.

Lemma oid_eqb_sym' a b : oid_eqb a b = oid_eqb b a.
Proof. unfold oid_eqb. rewrite (N.eqb_sym (fst a)), (N.eqb_sym (snd a)). reflexivity. Qed.

Lemma lookup_insert_gen m id o x :
  lookup (insert m id o) x = if oid_eqb id x then Some o else lookup m x.
Proof.
  induction m as [|[i o'] m IH]; cbn [insert lookup].
  - reflexivity.
  - destruct (oid_eqb i id) eqn:E.
    + apply oid_eqb_eq in E. subst. cbn [lookup]. destruct (oid_eqb id x); reflexivity.
    + destruct (oid_ltb id i).
      * cbn [lookup]. reflexivity.
      * cbn [lookup]. rewrite IH. destruct (oid_eqb i x) eqn:E2; [|reflexivity].
        apply oid_eqb_eq in E2. subst. rewrite oid_eqb_sym', E. reflexivity.
Qed.

Section Entries.
  Variable buf : bytes.
  Variable objf : N -> N -> obj.      (* the object with this number and generation *)

  Definition ins (acc : objmap) (ke : N * xentry) : objmap :=
    match snd ke with XNormal _ g => insert acc (fst ke, g) (objf (fst ke) g) | _ => acc end.

  Lemma read_entries_all : forall es acc,
    (forall n off g, In (n, XNormal off g) es ->
       off <= blen buf /\ indirect_object (from off buf) None = IOk (n, g) (objf n g) /\ no_objstm (objf n g)) ->
    read_entries buf es acc = SOk (fold_left ins es acc).
  Proof.
    induction es as [|[k e] es IH]; intros acc H; [reflexivity|].
    assert (Ht : forall n off g, In (n, XNormal off g) es ->
              off <= blen buf /\ indirect_object (from off buf) None = IOk (n, g) (objf n g) /\ no_objstm (objf n g))
      by (intros; apply H; right; assumption).
    cbn [read_entries fold_left]. destruct e as [| |off g|c i]; try (apply IH; exact Ht).
    destruct (H k off g (or_introl eq_refl)) as [H1 [H2 H3]].
    assert (blen buf <? off = false) as -> by (apply N.ltb_ge; exact H1).
    rewrite H2. unfold ins at 2. cbn [fst snd].
    destruct (objf k g) eqn:Eo; try (apply IH; exact Ht).
    cbn [no_objstm] in H3. rewrite H3. apply IH. exact Ht.
  Qed.

  (* what the table says about a number is a function of the number *)
  Variable E : N -> option xentry.

  Definition hit (es : xmap) (id : oid) : bool :=
    existsb (fun ke => fst ke =? fst id) es &&
    match E (fst id) with Some (XNormal _ g) => g =? snd id | _ => false end.

  Lemma lookup_fold_ins : forall es acc id,
    (forall n e, In (n, e) es -> E n = Some e) ->
    lookup (fold_left ins es acc) id = if hit es id then Some (objf (fst id) (snd id)) else lookup acc id.
  Proof.
    induction es as [|[k e] es IH]; intros acc id H; [reflexivity|].
    assert (Ht : forall n e0, In (n, e0) es -> E n = Some e0) by (intros; apply H; right; assumption).
    cbn [fold_left]. rewrite (IH _ id Ht). unfold hit. cbn [existsb fst].
    pose proof (H k e (or_introl eq_refl)) as Hk.
    destruct (existsb (fun ke => fst ke =? fst id) es) eqn:Ex.
    - rewrite orb_true_r. cbn [andb].
      destruct (match E (fst id) with Some (XNormal _ g) => g =? snd id | _ => false end) eqn:Ec; [reflexivity|].
      unfold ins. cbn [fst snd]. destruct e as [| |off g|c i]; try reflexivity.
      rewrite lookup_insert_gen. destruct id as [i1 g1]. rewrite oid_eqb_pair. cbn [fst snd] in *.
      destruct (k =? i1) eqn:Ek; [|reflexivity]. apply N.eqb_eq in Ek. subst i1. rewrite Hk in Ec. rewrite Ec. reflexivity.
    - rewrite orb_false_r. unfold ins. cbn [fst snd]. destruct id as [i1 g1]. cbn [fst snd] in *.
      destruct (k =? i1) eqn:Ek.
      + apply N.eqb_eq in Ek. subst i1. rewrite Hk. cbn [andb].
        destruct e as [| |off g|c i]; try reflexivity.
        rewrite lookup_insert_gen, oid_eqb_pair, N.eqb_refl. cbn [andb].
        destruct (g =? g1) eqn:Eg; [|reflexivity]. apply N.eqb_eq in Eg. subst g1. reflexivity.
      + cbn [andb]. destruct e as [| |off g|c i]; try reflexivity.
        rewrite lookup_insert_gen, oid_eqb_pair, Ek. reflexivity.
  Qed.
End Entries.
