(* CryptoProofsRT.v -- C05: the document-level round trip for the executable primitives, with no hypothesis on
   them: the Gallina MD5 returns 16 bytes, the Gallina AES is invertible (CryptoProofsAES.v), the Gallina SHA-2
   return 32 / 48 / 64 bytes (CryptoProofsSHA.v); whatever Stream::decompress does ([concrete_with dec]).
   Non-vacuity: the version / password hypotheses on concrete instances; the object-stream pass on a document that
   holds a stream of Type ObjStm. *)
From LV Require Import Base.Bytes Base.Sx Model.Obj Model.DocQ Model.Crypto.Word Model.Crypto.MD5 Model.Crypto.SHA2
  Model.Crypto.Handler Model.Crypto.Concrete
  Proofs.CryptoProofsFilter Proofs.CryptoProofsObject Proofs.CryptoProofsDoc Proofs.CryptoProofsAES Proofs.CryptoProofsSHA
  Proofs.CryptoProofsExamples Proofs.IsoProofsDoc Proofs.IsoProofsDoc2 Proofs.IsoProofsDoc7 Proofs.CryptoProofsAuth.
Local Open Scope N_scope.

Lemma le_length n x : length (N_to_le n x) = n.
Proof. revert x; induction n as [|n IH]; intro x; cbn [N_to_le length]; [reflexivity|rewrite IH; reflexivity]. Qed.

Lemma md5_len16 m : length (md5 m) = 16%nat.
Proof.
  unfold md5. destruct (fold_left md5_block _ md5_init) as [[[a b] c] d].
  rewrite !app_length, !le_length. reflexivity.
Qed.

Lemma concrete_with_aes_ok dec : aes_ok (concrete_with dec).
Proof. exact concrete_aes_ok. Qed.

Theorem document_rt_concrete dec :
  let P := concrete_with dec in
  forall xr d v rnd ivs st d1 pw,
  version_in_domain v -> max_id_ok d -> dict_get (d_trailer d) K_Encrypt = None ->
  try_from_version P d v rnd = Ok st -> doc_encrypt P st d ivs = DOk d1 tt ->
  right_password P d1 v pw ->
  exists st', doc_decrypt_x P xr d1 pw = DOk (plain_doc P xr st d) st' /\ st_equiv st st'.
Proof.
  intro P. apply (document_rt P); [exact md5_len16|exact (concrete_with_aes_ok dec)|exact sha256_length|exact sha384_length|exact sha512_length].
Qed.

(* ---------- non-vacuity ---------- *)
Definition ex_v5 : eversion :=
  EV5 true [(bs "StdCF", CF_AESV3)] (repeat x07 32) (bs "StdCF") (bs "StdCF") ex_owner ex_user 3900.
Definition ex_v1 : eversion := EV1 [] ex_user 2052.

Lemma ex_versions : version_in_domain ex_v1 /\ version_in_domain ex_v2 /\ version_in_domain ex_v4 /\ version_in_domain ex_v5.
Proof.
  split; [left; reflexivity|]. split; [left; split; [reflexivity|split; [split; cbv; discriminate|reflexivity]]|].
  split.
  - left. cbn [ex_v4 version_ok]. split; [reflexivity|]. split; [repeat constructor; intros []|].
    split; [reflexivity|]. split; [right; vm_compute; discriminate|]. split; [right; vm_compute; discriminate|].
    repeat constructor. discriminate.
  - right. cbn [ex_v5 version_ok6]. split; [reflexivity|]. split; [reflexivity|]. split; [repeat constructor; intros []|].
    split; [reflexivity|]. split; right; vm_compute; discriminate.
Qed.

(* the side condition on the owner password (revisions 2-4) holds on the V2 example: the owner password does not pass the
   user check *)
Definition ex_enc (v : eversion) : option doc :=
  match try_from_version concrete ex_doc v [hex "000102030405060708090a0b0c0d0e0f"] with
  | Ok st => match doc_encrypt concrete st ex_doc ex_ivs with DOk d1 _ => Some d1 | _ => None end
  | _ => None
  end.
Lemma ex_owner_not_user :
  match ex_enc ex_v2 with
  | Some d1 => match authenticate_raw_user_password concrete d1 ex_owner with Err D_IncorrectPassword => true | _ => false end
  | None => false
  end = true.
Proof. vm_compute. reflexivity. Qed.

(* decrypt_raw's object-stream pass: a stream of Type ObjStm (object 4) holding the objects 7 and 5; the document has an
   object 5 of generation 2.  Without Compressed entries in the cross-reference table: 7 is added, 5 is not (its number
   is taken), the stream stays; when the table places object 5 in container 4, (5, 0) is added beside (5, 2); with the
   encryption dictionary under the number 7, the member 7 is not added *)
Definition ex_os : objmap :=
  [((1, 0), ODict [(bs "Type", OName (bs "Catalog"))]);
   ((4, 0), OStream [(bs "Type", OName (bs "ObjStm")); (bs "N", OInt 2); (bs "First", OInt 8); (bs "Length", OInt 21)]
                    (bs "7 0 5 5 (hi) <</A 1>>"));
   ((5, 2), OInt 9)].
Definition no_xr : N -> option N := fun _ => None.
Definition ex_xr : N -> option N := fun n => if n =? 5 then Some 4 else None.
Lemma ex_objstm_pass :
  has_objstm ex_os = true /\
  map fst (objstm_pass concrete no_xr ex_os) = [(1, 0); (4, 0); (5, 2); (7, 0)] /\
  lookup (objstm_pass concrete no_xr ex_os) (7, 0) = Some (OStr (bs "hi") false) /\
  map fst (objstm_pass concrete ex_xr ex_os) = [(1, 0); (4, 0); (5, 0); (5, 2); (7, 0)] /\
  lookup (objstm_pass concrete ex_xr ex_os) (5, 0) = Some (ODict [(bs "A", OInt 1)]) /\
  map fst (opened_objects concrete no_xr ex_os (7, 0) []) = [(1, 0); (4, 0); (5, 2)].
Proof. split; [reflexivity|]. repeat split; vm_compute; reflexivity. Qed.

Print Assumptions document_rt_concrete.
