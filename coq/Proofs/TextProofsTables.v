(* TextProofsTables.v -- finite obligations on the tables REGENERATED from src/encodings
   (Gen/Tables.v): vm_compute sweeps over 256 bytes x the reachable tables, lifted to all bytes by
   byte_forallb_spec and to all byte strings by list induction. *)
From LV Require Import Base.Bytes Model.Utf Model.Obj Model.OneByte Model.TextString Gen.Tables
  Spec.PublishedTables Proofs.TextProofsUtf.
Local Open Scope N_scope.

(* every table a caller can obtain: the five named by get_font_encoding, its fallback, and the one
   decode_text_string uses *)
Definition reachable_tables : list table :=
  map snd FONT_ENCODINGS ++ [FALLBACK_ENCODING; TEXT_STRING_ENCODING; TEXT_STRING_SELF_TABLE].

Lemma sweep_lift (chk : table -> byte -> bool) :
  forallb (fun t => byte_forallb (chk t)) reachable_tables = true ->
  forall t, In t reachable_tables -> forall b, chk t b = true.
Proof.
  intros H t Ht b. rewrite forallb_forall in H. apply (byte_forallb_spec _ (H t Ht)).
Qed.

(* ---- shape: 256 cells, each a u16 ---- *)
Lemma tables_len : forall t, In t reachable_tables -> length t = 256%nat.
Proof.
  assert (H : forallb (fun t => Nat.eqb (length t) 256) reachable_tables = true) by (vm_compute; reflexivity).
  intros t Ht. rewrite forallb_forall in H. apply Nat.eqb_eq, H, Ht.
Qed.

Definition chk_cell (t : table) (b : byte) : bool :=
  match cell t b with
  | None => true
  | Some u =>
    (u <? 0x10000) && negb (is_surrogate u) && negb (u =? 10) &&
    match position t u with
    | Some i => (i <? 256) && opt_N_eqb (cell t (byte_of_N i)) (Some u)
    | None => false
    end
  end.

Lemma chk_cell_sweep : forallb (fun t => byte_forallb (chk_cell t)) reachable_tables = true.
Proof. vm_compute. reflexivity. Qed.

Lemma opt_N_eqb_eq a b : opt_N_eqb a b = true -> a = b.
Proof.
  destruct a, b; cbn; intro H; try discriminate; try reflexivity.
  apply N.eqb_eq in H. congruence.
Qed.

Record cell_good (t : table) (u : N) : Prop := {
  cg_u16 : u < 0x10000;
  cg_nosurr : is_surrogate u = false;
  cg_nonl : u <> 10;
  cg_pos : exists i, position t u = Some i /\ i < 256 /\ cell t (byte_of_N i) = Some u;
}.

Lemma cell_is_good : forall t, In t reachable_tables -> forall b u, cell t b = Some u -> cell_good t u.
Proof.
  intros t Ht b u Hc. pose proof (sweep_lift chk_cell chk_cell_sweep t Ht b) as H.
  unfold chk_cell in H. rewrite Hc in H.
  destruct (position t u) as [i|] eqn:Hp; [|rewrite andb_false_r in H; discriminate].
  repeat (apply andb_true_iff in H; destruct H as [H ?]).
  repeat match goal with
         | H : (_ && _) = true |- _ => apply andb_true_iff in H; destruct H
         end.
  constructor.
  - apply N.ltb_lt. assumption.
  - apply negb_true_iff. assumption.
  - apply N.eqb_neq, negb_true_iff. assumption.
  - exists i. split; [exact Hp|]. split; [apply N.ltb_lt; assumption|apply opt_N_eqb_eq; assumption].
Qed.

(* (1a) no cell of a reachable table is a surrogate *)
Theorem no_surrogate_cell :
  forall t, In t reachable_tables -> forall b u, cell t b = Some u -> is_surrogate u = false.
Proof. intros t Ht b u H. exact (cg_nosurr _ _ (cell_is_good t Ht b u H)). Qed.

(* ---- lifting to byte strings ---- *)
Lemma units_good t bs :
  In t reachable_tables -> Forall (cell_good t) (bytes_to_units t bs).
Proof.
  intro Ht. induction bs as [|b bs IH]; [constructor|].
  unfold bytes_to_units. cbn [filter_map]. destruct (cell t b) as [u|] eqn:Hc; [|exact IH].
  constructor; [exact (cell_is_good t Ht b u Hc) | exact IH].
Qed.

Lemma good_nosurr t us : Forall (cell_good t) us -> Forall (fun u => is_surrogate u = false) us.
Proof. apply Forall_impl. intros u H. exact (cg_nosurr _ _ H). Qed.

Lemma good_bmp t us : Forall (cell_good t) us -> Forall (fun u => u < 0x10000) us.
Proof. apply Forall_impl. intros u H. exact (cg_u16 _ _ H). Qed.

(* so bytes_to_string never reaches the `expect`: it returns exactly the units *)
Theorem bytes_to_string_total :
  forall t, In t reachable_tables -> forall bs, bytes_to_string t bs = Ok (bytes_to_units t bs).
Proof.
  intros t Ht bs. unfold bytes_to_string.
  rewrite (utf16_decode_bmp _ (good_nosurr t _ (units_good t bs Ht))). reflexivity.
Qed.

Lemma reencode_units t us :
  Forall (cell_good t) us ->
  bytes_to_units t (map byte_of_N (filter_map (position t) us)) = us.
Proof.
  induction 1 as [|u us Hu _ IH]; [reflexivity|].
  destruct (cg_pos _ _ Hu) as [i [Hp [_ Hc]]].
  cbn [filter_map]. rewrite Hp. cbn [map]. unfold bytes_to_units. cbn [filter_map]. rewrite Hc.
  f_equal. exact IH.
Qed.

Lemma string_to_bytes_good t s :
  Forall (cell_good t) s -> bytes_to_units t (string_to_bytes t s) = s.
Proof.
  intro H. unfold string_to_bytes. rewrite (utf16_encode_bmp _ (good_bmp t s H)).
  apply reencode_units. exact H.
Qed.

(* (1b) decode (encode (decode bs)) = decode bs, for every reachable table and EVERY byte string *)
Theorem reencode_stable :
  forall t, In t reachable_tables -> forall bs,
    exists s, bytes_to_string t bs = Ok s /\ bytes_to_string t (string_to_bytes t s) = Ok s.
Proof.
  intros t Ht bs. exists (bytes_to_units t bs). split; [apply bytes_to_string_total; exact Ht|].
  rewrite bytes_to_string_total by exact Ht.
  rewrite string_to_bytes_good; [reflexivity|]. apply units_good. exact Ht.
Qed.

(* text over the repertoire of a table is encoded losslessly *)
Definition in_repertoire (t : table) (c : N) : Prop := exists b, cell t b = Some c.

Theorem repertoire_rt :
  forall t, In t reachable_tables -> forall s, Forall (in_repertoire t) s ->
    bytes_to_string t (string_to_bytes t s) = Ok s.
Proof.
  intros t Ht s Hs.
  assert (Hg : Forall (cell_good t) s).
  { eapply Forall_impl; [|exact Hs]. intros c [b Hb]. exact (cell_is_good t Ht b c Hb). }
  rewrite bytes_to_string_total by exact Ht. rewrite string_to_bytes_good by exact Hg. reflexivity.
Qed.

Lemma repertoire_no_newline :
  forall t, In t reachable_tables -> forall c, in_repertoire t c -> c <> 10.
Proof. intros t Ht c [b Hb]. exact (cg_nonl _ _ (cell_is_good t Ht b c Hb)). Qed.

(* get_font_encoding only hands out reachable tables *)
Lemma assoc_bytes_In {A} k (l : list (bytes * A)) v : assoc_bytes k l = Some v -> In v (map snd l).
Proof.
  induction l as [|[k' v'] l IH]; cbn; [discriminate|].
  destruct (bytes_eqb k' k); [intro H; inversion H; auto | auto].
Qed.

Theorem font_encoding_reachable :
  forall font t, get_font_encoding font = Ok (EncOneByte t) -> In t reachable_tables.
Proof.
  intros font t. unfold get_font_encoding, reachable_tables.
  destruct (negb (has_type font K_Font)); [discriminate|].
  destruct (dict_get font K_Encoding) as [[]|] eqn:He;
    try (destruct (dict_get font K_ToUnicode) as [[]|]; intro H; inversion H; subst;
         apply in_or_app; right; left; reflexivity).
  destruct (assoc_bytes n FONT_ENCODINGS) as [t'|] eqn:Ha.
  - intro H. inversion H; subst. apply in_or_app. left. eapply assoc_bytes_In. exact Ha.
  - destruct (bytes_eqb n N_Identity_H || bytes_eqb n N_Identity_V).
    + destruct (dict_get font K_ToUnicode) as [[]|]; discriminate.
    + discriminate.
Qed.

(* ---- (1c) agreement with the published tables ---- *)
Definition table_named (name : String.string) : option table := assoc_bytes (bs name) FONT_ENCODINGS.
Arguments table_named _%string_scope.

Definition chk_pub (t : table) (pub : list (option N)) (b : byte) : bool :=
  match published pub (N_of_byte b) with
  | Some u => opt_N_eqb (cell t b) (Some u)
  | None => true
  end.

Definition chk_extra (t : table) (pub : list (option N)) (extra : list (N * N)) (b : byte) : bool :=
  match published pub (N_of_byte b), cell t b with
  | None, Some u => existsb (fun p => (fst p =? N_of_byte b) && (snd p =? u)) extra
  | _, _ => true
  end.

Definition named_ok (name : String.string) (chk : table -> byte -> bool) : bool :=
  match table_named name with Some t => byte_forallb (chk t) | None => false end.
Arguments named_ok _%string_scope _.

Lemma named_lift name chk :
  named_ok name chk = true -> exists t, table_named name = Some t /\ forall b, chk t b = true.
Proof.
  unfold named_ok. destruct (table_named name) as [t|]; [|discriminate].
  intro H. exists t. split; [reflexivity|]. apply byte_forallb_spec. exact H.
Qed.

Lemma agrees_lift name pub :
  named_ok name (fun t => chk_pub t pub) = true ->
  exists t, table_named name = Some t /\
            forall b u, published pub (N_of_byte b) = Some u -> cell t b = Some u.
Proof.
  intro H. destruct (named_lift _ _ H) as [t [Ht Hc]]. exists t. split; [exact Ht|].
  intros b u Hp. specialize (Hc b). unfold chk_pub in Hc. rewrite Hp in Hc. apply opt_N_eqb_eq. exact Hc.
Qed.

Theorem agrees_with_published :
  (exists t, table_named "WinAnsiEncoding" = Some t /\
     forall b u, published WIN_ANSI_PUBLISHED (N_of_byte b) = Some u -> cell t b = Some u) /\
  (exists t, table_named "MacRomanEncoding" = Some t /\
     forall b u, published MAC_ROMAN_PUBLISHED (N_of_byte b) = Some u -> cell t b = Some u) /\
  (exists t, table_named "PDFDocEncoding" = Some t /\
     forall b u, published PDF_DOC_PUBLISHED (N_of_byte b) = Some u -> cell t b = Some u) /\
  (forall b u, published PDF_DOC_PUBLISHED (N_of_byte b) = Some u -> cell TEXT_STRING_ENCODING b = Some u).
Proof.
  split; [apply agrees_lift; vm_compute; reflexivity|].
  split; [apply agrees_lift; vm_compute; reflexivity|].
  split; [apply agrees_lift; vm_compute; reflexivity|].
  assert (H : byte_forallb (chk_pub TEXT_STRING_ENCODING PDF_DOC_PUBLISHED) = true) by (vm_compute; reflexivity).
  intros b u Hp. pose proof (byte_forallb_spec _ H b) as Hc. unfold chk_pub in Hc. rewrite Hp in Hc.
  apply opt_N_eqb_eq. exact Hc.
Qed.

Lemma extra_lift name pub extra :
  named_ok name (fun t => chk_extra t pub extra) = true ->
  exists t, table_named name = Some t /\
            forall b u, cell t b = Some u -> published pub (N_of_byte b) = None -> In (N_of_byte b, u) extra.
Proof.
  intro H. destruct (named_lift _ _ H) as [t [Ht Hc]]. exists t. split; [exact Ht|].
  intros b u Hu Hp. specialize (Hc b). unfold chk_extra in Hc. rewrite Hp, Hu in Hc.
  apply existsb_exists in Hc. destruct Hc as [[x y] [Hin Hxy]]. cbn [fst snd] in Hxy.
  apply andb_true_iff in Hxy. destruct Hxy as [Hx Hy]. apply N.eqb_eq in Hx, Hy. subst. exact Hin.
Qed.

(* what the code's tables define beyond Table D.2, exactly *)
Theorem beyond_published :
  (exists t, table_named "WinAnsiEncoding" = Some t /\
     forall b u, cell t b = Some u -> published WIN_ANSI_PUBLISHED (N_of_byte b) = None ->
                 In (N_of_byte b, u) WIN_ANSI_BULLET_FILL) /\
  (exists t, table_named "MacRomanEncoding" = Some t /\
     forall b u, cell t b = Some u -> published MAC_ROMAN_PUBLISHED (N_of_byte b) = None ->
                 In (N_of_byte b, u) MAC_OS_ROMAN_EXTRA) /\
  (exists t, table_named "PDFDocEncoding" = Some t /\
     forall b u, cell t b = Some u -> published PDF_DOC_PUBLISHED (N_of_byte b) = None -> In (N_of_byte b, u) []).
Proof.
  split; [apply extra_lift; vm_compute; reflexivity|].
  split; [apply extra_lift; vm_compute; reflexivity|].
  apply extra_lift; vm_compute; reflexivity.
Qed.

(* the same portions stated without any typed table: ASCII and Latin-1 are the identity *)
Definition chk_identity (t : table) (b : byte) : bool :=
  let n := N_of_byte b in
  (if printable_ascii n then opt_N_eqb (cell t b) (Some n) else true).

Definition chk_latin1 (t : table) (b : byte) : bool :=
  let n := N_of_byte b in
  (if latin1_code n && negb (n =? 0xAD) then opt_N_eqb (cell t b) (Some n) else true).

Local Open Scope string_scope.
Theorem ascii_latin1_identity :
  (forall name, In name ["WinAnsiEncoding"; "MacRomanEncoding"; "PDFDocEncoding"] ->
     exists t, table_named name = Some t /\
       forall b, printable_ascii (N_of_byte b) = true -> cell t b = Some (N_of_byte b)) /\
  (forall name, In name ["WinAnsiEncoding"; "PDFDocEncoding"] ->
     exists t, table_named name = Some t /\
       forall b, latin1_code (N_of_byte b) = true -> N_of_byte b <> 0xAD -> cell t b = Some (N_of_byte b)).
Proof.
  split.
  - intros name Hn.
    assert (H : named_ok name chk_identity = true).
    { cbn [In] in Hn. destruct Hn as [<-|[<-|[<-|[]]]]; vm_compute; reflexivity. }
    destruct (named_lift _ _ H) as [t [Ht Hc]]. exists t. split; [exact Ht|].
    intros b Hb. specialize (Hc b). unfold chk_identity in Hc. cbv zeta in Hc. rewrite Hb in Hc.
    apply opt_N_eqb_eq. exact Hc.
  - intros name Hn.
    assert (H : named_ok name chk_latin1 = true).
    { cbn [In] in Hn. destruct Hn as [<-|[<-|[]]]; vm_compute; reflexivity. }
    destruct (named_lift _ _ H) as [t [Ht Hc]]. exists t. split; [exact Ht|].
    intros b Hb Hne. specialize (Hc b). unfold chk_latin1 in Hc. cbv zeta in Hc. rewrite Hb in Hc.
    apply N.eqb_neq in Hne. rewrite Hne in Hc. cbn [negb andb] in Hc.
    apply opt_N_eqb_eq. exact Hc.
Qed.
