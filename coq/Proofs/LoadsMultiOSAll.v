(* LoadsMultiOSAll.v -- C02: files of ref_write_multi WITH OBJECT STREAMS IN ANY OF THEIR PARTS (any number of parts, any number of
   object-stream parts, either cross-reference format for the parts without containers, superseded definitions, entries listed
   again, Length direct / a reference to a top-level integer of any part / a reference to a MEMBER of an object stream of any
   part).  loads_multi_os = LoadsMultiOSInv.parts_inv (the invariant of the parts with type-2 entries) + LoadsMultiOSPasses.tail_loads
   (the reader's three passes on the merged table): load_ext returns the version, exactly the current plain objects
   (loaded_top), the members (member_val), the containers and the cross-reference streams, and the newest trailer. *)
From LV Require Import Base.Bytes Base.Sx Model.Obj Model.Writer Model.Parser Model.Xref Model.ObjStm Model.Loader Model.Utf Gen.Lex
  Spec.XrefSpec Spec.RefWriter Proofs.LexProofs Proofs.LoadProofs Proofs.LoadProofsFile Proofs.XrefProofs
  Proofs.XrefTableProofs Proofs.ObjectRtProofs Proofs.SpellingProofs Proofs.SpellingObjProofs Proofs.SpellingFileProofs
  Proofs.LoadsFrameProofs Proofs.LoadsTableProofs Proofs.FilterProofsDict.
From LV Require Proofs.LoadProofsStream.
From LV Require Import Model.LoaderExt Proofs.LoaderExtProofs Proofs.LengthRefProofs.
From LV Require Import Proofs.LoadsFilterProofs Proofs.LoadsStreamProofs Proofs.LoadsRefLenProofs Proofs.LoadsLoopProofs.
From LV Require Import Proofs.ObjStmSpellProofs Proofs.ObjStmFilterProofs Proofs.LoadsObjStmProofs Proofs.ObjStmPredProofs.
From LV Require Model.Png Spec.StreamCodecSpec Model.StreamFilt Gen.SaveFmt.
From LV Require Import Proofs.LoadsObjStmFile.
From LV Require Proofs.LoadsMultiMixed.
From Coq Require Import Lia.
Local Open Scope N_scope.
From LV Require Import Proofs.LoadsMultiOSAt Proofs.LoadsMultiOSPasses.
From LV Require Proofs.LoadsMultiXSec Proofs.LoadsMultiObjStm Proofs.LoadsMultiOSInv Proofs.C07Bytes.
Import LoadsMultiObjStm.

(* ---------- what ref_write_multi checks before it lays the parts out ---------- *)
Lemma multi_facts st parts a file : ref_write_multi st parts a = Some file ->
  exists conts r,
    containers (a_objs a) (s_ostms st) = Some conts /\
    NoDup (nums a ++ map os_id (s_ostms st) ++ part_xids parts) /\ NoDup (compressed_nums st) /\
    ~ In 0 (nums a ++ map os_id (s_ostms st) ++ part_xids parts) /\
    (forall tp, In tp (rw_tops st a conts) -> In (top_num tp) (flat_map mp_nums parts)) /\
    write_parts st a (rw_tops st a conts) parts (blen (RefWriter.header st (a_version a))) None [] 0 = Some r /\
    parts <> [] /\ file = s_junk st ++ RefWriter.header st (a_version a) ++ r /\
    contains (bs "%PDF-") (s_junk st) = false /\ no_eolb (a_version a) = true.
Proof.
  intro H. unfold ref_write_multi in H.
  destruct (contains (bs "%PDF-") (s_junk st) || contains [x0d] (a_version a) || contains [x0a] (a_version a)) eqn:C1; [discriminate H|].
  apply orb_false_iff in C1 as [C1 C1c]. apply orb_false_iff in C1 as [C1a C1b].
  match type of H with (if ?c then _ else _) = _ => destruct c eqn:C2 end; [discriminate H|].
  apply negb_false_iff in C2. apply andb_true_iff in C2 as [C2 C2c]. apply andb_true_iff in C2 as [C2a C2b].
  apply nodup_N_spec in C2a. apply nodup_N_spec in C2b.
  destruct (containers (a_objs a) (s_ostms st)) as [conts|] eqn:Ec; [|discriminate H].
  fold (rw_tops st a conts) in H.
  match type of H with (if ?c then _ else _) = _ => destruct c eqn:C3 end; [discriminate H|].
  apply negb_false_iff in C3. apply andb_true_iff in C3 as [_ C3].
  match type of H with match ?w with Some _ => _ | None => _ end = _ => destruct w as [r|] eqn:Hr; [|discriminate H] end.
  destruct parts as [|p0 parts0]; [discriminate H|]. inversion H; subst file. exists conts, r.
  split; [reflexivity|]. split; [exact C2a|]. split; [exact C2b|]. split.
  { intro K. apply negb_true_iff in C2c. apply LoadsMultiMixed.mem_N_In in K. unfold nums in K. rewrite K in C2c. discriminate C2c. }
  split; [intros tp Htp; rewrite forallb_forall in C3; apply LoadsMultiMixed.mem_N_In; apply (C3 tp Htp)|].
  split; [exact Hr|]. split; [discriminate|]. split; [reflexivity|]. split; [exact C1a|]. apply version_no_eol; assumption.
Qed.

Lemma xincr_nodup : forall m lo, C07Bytes.xincr lo m -> NoDup (map fst m).
Proof.
  induction m as [|[k e] m IH]; intros lo H; [constructor|]. cbn [C07Bytes.xincr map fst] in *. destruct H as [H1 H2].
  constructor; [|apply (IH _ H2)]. intro K. apply in_map_iff in K as [[k' e'] [E Hin]]. cbn [fst] in E. subst k'.
  pose proof (C07Bytes.xget_in_sorted m (k + 1) k e' H2 Hin) as K1.
  rewrite (C07Bytes.xget_none_xincr m (k + 1) k H2) in K1 by lia. discriminate K1.
Qed.

(* ====================================================================================================
   the facts about numbers that ref_write_multi's own checks give: the hypotheses of LoadsMultiOSInv.MultiOS
   ==================================================================================================== *)
Section Facts.
  Variable st : fstyle.
  Variable a : adoc.
  Variable conts : list top.
  Variable xids : list N.
  Notation osl := (s_ostms st).
  Notation comp := (compressed_nums st).
  Notation cids := (map os_id (s_ostms st)).
  Notation ptops := (ptopsT a (s_ostms st) (find_istyle (s_objs st))).
  Notation tops := (ptops ++ conts).
  Hypothesis Ec : containers (a_objs a) (s_ostms st) = Some conts.
  Hypothesis Hnd3 : NoDup (nums a ++ cids ++ xids).
  Hypothesis Hcn : NoDup comp.
  Hypothesis H0 : ~ In 0 (nums a ++ cids ++ xids).
  Hypothesis Hptops : Forall (top_ok2 a) ptops.
  Hypothesis Hcont : Forall (cont_ok a) (s_ostms st).

  Lemma f_spec : Forall2 (cont_top (a_objs a)) (s_ostms st) conts.
  Proof. apply containers_spec. exact Ec. Qed.
  Lemma f_cnums : map top_num conts = cids.
  Proof. apply (cont_top_nums (a_objs a)). exact f_spec. Qed.
  Lemma f_mem m : In m comp -> In m (nums a).
  Proof. intro K. unfold compressed_nums in K. apply in_flat_map in K as [s [K1 K2]]. apply (containers_members _ _ _ Ec s m K1 K2). Qed.
  Lemma f_isc n : iscT (s_ostms st) n = true <-> In n comp.
  Proof. unfold iscT, compT. apply LoadsMultiMixed.mem_N_In. Qed.
  Lemma f_pmap : map top_num ptops =
    map (fun io : oid * obj => fst (fst io)) (filter (fun io : oid * obj => negb (iscT (s_ostms st) (fst (fst io)))) (a_objs a)).
  Proof. unfold ptopsT. rewrite map_map. reflexivity. Qed.
  Lemma f_pnums n : In n (map top_num ptops) <-> In n (nums a) /\ ~ In n comp.
  Proof.
    rewrite f_pmap. split.
    - intro H. apply in_map_iff in H as [io [E H]]. apply filter_In in H as [H1 H2]. subst n. split.
      + unfold nums. apply in_map_iff. exists io. split; [reflexivity|exact H1].
      + intro K. apply f_isc in K. cbv beta in H2. rewrite K in H2. discriminate H2.
    - intros [H1 H2]. unfold nums in H1. apply in_map_iff in H1 as [io [E H1]]. apply in_map_iff. exists io. split; [exact E|].
      apply filter_In. split; [exact H1|]. cbv beta. subst n. match goal with |- negb ?b = true => destruct b eqn:K end; [|reflexivity]. apply f_isc in K. contradiction.
  Qed.
  Lemma f_tnums n : In n (map top_num tops) <-> (In n (nums a) /\ ~ In n comp) \/ In n cids.
  Proof. rewrite map_app, in_app_iff, f_cnums, f_pnums. tauto. Qed.

  Lemma f_ndx : NoDup ((map top_num tops ++ comp) ++ xids).
  Proof.
    pose proof (NoDup_app_l' _ _ Hnd3) as Hn. pose proof (NoDup_app_r' _ _ Hnd3) as Hcx.
    apply NoDup_app_intro; [apply NoDup_app_intro| |].
    - rewrite map_app. apply NoDup_app_intro.
      + rewrite f_pmap. apply nodup_filter_keys. exact Hn.
      + rewrite f_cnums. exact (NoDup_app_l' _ _ Hcx).
      + intros x K1 K2. apply f_pnums in K1 as [K1 _]. rewrite f_cnums in K2. apply (NoDup_app_disj _ _ x Hnd3 K1). apply in_or_app. left. exact K2.
    - exact Hcn.
    - intros x K1 K2. apply f_tnums in K1 as [[_ K1]|K1]; [exact (K1 K2)|].
      apply (NoDup_app_disj _ _ x Hnd3 (f_mem x K2)). apply in_or_app. left. exact K1.
    - exact (NoDup_app_r' _ _ Hcx).
    - intros x K1 K2. apply in_app_or in K1 as [K1|K1].
      + apply f_tnums in K1 as [[K1 _]|K1].
        * apply (NoDup_app_disj _ _ x Hnd3 K1). apply in_or_app. right. exact K2.
        * apply (NoDup_app_disj _ _ x Hcx K1 K2).
      + apply (NoDup_app_disj _ _ x Hnd3 (f_mem x K1)). apply in_or_app. right. exact K2.
  Qed.

  Lemma f_0x : ~ In 0 xids.
  Proof. intro K. apply H0. apply in_or_app. right. apply in_or_app. right. exact K. Qed.

  Lemma f_cont_top tp : In tp conts -> exists s, In s (s_ostms st) /\ cont_top (a_objs a) s tp.
  Proof. intro H. destruct (Forall2_In_r _ _ _ tp f_spec H) as [s [Hs Hc]]. exists s. split; assumption. Qed.

  Lemma f_tb tp : In tp tops -> 1 <= top_num tp /\ snd (fst (fst tp)) <= u16_max.
  Proof.
    intro H. apply in_app_or in H as [H|H].
    - pose proof (proj1 (Forall_forall _ _) Hptops tp H) as K. destruct tp as [[[i g] o] y]. unfold top_ok2 in K. unfold top_num. cbn [fst snd]. tauto.
    - destruct (f_cont_top tp H) as [s [Hs [o [_ ->]]]]. unfold top_num. cbn [fst snd]. split; [|unfold u16_max; lia].
      destruct (N.eq_dec (os_id s) 0) as [E|E]; [|lia]. exfalso. apply H0. apply in_or_app. right. apply in_or_app. left. rewrite <- E. apply in_map. exact Hs.
  Qed.

  Lemma f_build s : In s (s_ostms st) -> os_build (a_objs a) (os_members s) (os_items s) true = Some (itemsof a s).
  Proof. intro Hs. destruct (Forall2_In_l _ _ _ s f_spec Hs) as [tp [_ Hc]]. exact (cont_top_build a s tp Hc). Qed.

  Lemma f_ab n g o : find_obj (a_objs a) n = Some (g, o) -> 1 <= n /\ g <= u16_max /\ In n (map top_num tops ++ comp).
  Proof.
    intro Ef. pose proof (LoadsMultiMixed.find_obj_In _ _ _ _ Ef) as Hin.
    assert (Hn : In n (nums a)) by (unfold nums; apply in_map_iff; exists ((n, g), o); split; [reflexivity|exact Hin]).
    assert (H1 : 1 <= n).
    { destruct (N.eq_dec n 0) as [E|E]; [|lia]. exfalso. apply H0. apply in_or_app. left. rewrite <- E. exact Hn. }
    split; [exact H1|]. destruct (in_dec N.eq_dec n comp) as [Hc|Hc].
    - split; [|apply in_or_app; right; exact Hc]. unfold compressed_nums in Hc. apply in_flat_map in Hc as [s [Hs Hm]].
      destruct (os_build_find _ _ _ _ _ (f_build s Hs) n Hm) as [o' Ef']. rewrite Ef in Ef'. inversion Ef'. unfold u16_max. lia.
    - assert (Hp : In ((n, g), o, find_istyle (s_objs st) n) ptops).
      { apply ptop_of_obj; [exact Hin|]. destruct (iscT (s_ostms st) n) eqn:K; [|reflexivity]. apply f_isc in K. contradiction. }
      pose proof (proj1 (Forall_forall _ _) Hptops _ Hp) as K. unfold top_ok2 in K. split; [tauto|].
      apply in_or_app. left. apply f_tnums. left. split; assumption.
  Qed.

  Lemma f_cb s : In s (s_ostms st) -> In (os_id s) (map top_num tops) /\ N.of_nat (length (os_members s)) <= 65536.
  Proof.
    intro Hs. split; [apply f_tnums; right; apply in_map; exact Hs|].
    pose proof (proj1 (Forall_forall _ _) Hcont s Hs) as K. unfold cont_ok in K. tauto.
  Qed.
End Facts.

(* ====================================================================================================
   THE FILES OF ref_write_multi WITH OBJECT STREAMS IN ANY OF THEIR PARTS
   ==================================================================================================== *)
Section Final.
  Variable st : fstyle.
  Variable a : adoc.
  Notation tops := (multi_tops st a).
  Notation ptops := (ptopsT a (s_ostms st) (find_istyle (s_objs st))).
  Notation comp := (compressed_nums st).
  Notation hdr := (RefWriter.header st (a_version a)).

  (* the domain: every clause is one of LoadsFullProofs.full_dom / LoadsMultiMixedFull.multi_dom_mixed, per part AT THE VALUES ITS
     LAYOUT HAS (parts_ok), plus part_dom: a superseded definition is one of a top-level object *)
  Definition os_dom (parts : list mpart) : Prop :=
    Forall (top_ok2 a) ptops /\ Forall (cont_ok a) (s_ostms st) /\
    (dict_get (a_trailer a) RefWriter.K_Size = None /\ dict_get (a_trailer a) K_Prev = None /\
     dict_get (a_trailer a) K_Encrypt = None /\ dict_get (a_trailer a) K_XRefStm = None /\
     dict_get (a_trailer a) Xref.K_Index = None /\ dict_get (a_trailer a) K_Filter = None) /\
    1 + max_num ((map top_num tops ++ comp) ++ part_xids parts) <= u32_max /\
    LoadsMultiOSInv.parts_ok st a tops decompress_ref can_ref (part_xids parts) parts (blen hdr) None [] 0 /\
    match parts with p :: _ => 25 < LoadsMultiOSInv.p_xpos st a tops p (blen hdr) | [] => True end.

  Theorem loads_multi_os parts file :
    utf8_decode (a_version a) <> None ->
    ref_write_multi st parts a = Some file -> blen file <= u32_max -> os_dom parts ->
    exists d t xt, load_ext decompress_ref can_ref file = LOk d t /\ d_version d = a_version a /\
      tail_loaded a (s_ostms st) (find_istyle (s_objs st)) xt d /\
      (forall tp, In tp xt -> In (top_num tp) (part_xids parts)) /\
      exists t0, d_trailer d = dict_swap_remove t0 K_Prev /\ LoadsMultiMixed.trailer_src a t0 /\
                 dict_get t0 Xref.K_Size = Some (OInt (Z.of_N (1 + max_num ((map top_num tops ++ comp) ++ part_xids parts)))).
  Proof.
    intros Hu Hwf Hlen [Hptops [Hcont [Htrail [Hn32 [Hdom H25]]]]].
    destruct (multi_facts st parts a file Hwf) as [conts [r [Ec [Hnd3 [Hcn [H0 [Hplaced [Hr [Hne [-> [Hj Hv]]]]]]]]]]].
    set (xids := part_xids parts) in *.
    assert (Etops : multi_tops st a = ptops ++ conts) by (unfold multi_tops; rewrite Ec; reflexivity).
    rewrite Etops in *. change (rw_tops st a conts) with (ptops ++ conts) in *.
    pose proof (f_ndx st a conts xids Ec Hnd3 Hcn) as Hndx.
    pose proof (f_0x st a xids H0) as H0x.
    pose proof (f_tb st a conts xids Ec H0 Hptops) as Htb.
    pose proof (f_ab st a conts xids Ec H0 Hptops) as Hab.
    pose proof (f_cb st a conts Ec Hcont) as Hcb.
    set (TOPS := ptops ++ conts) in *.
    assert (Hhdr : exists b r0, hdr = b :: r0) by (unfold RefWriter.header; eexists; eexists; reflexivity).
    assert (Hinv0 : LoadsMultiOSInv.Inv st TOPS decompress_ref can_ref xids parts hdr [] [] 0 []).
    { constructor.
      - intros n e H. discriminate H.
      - intros n off g H. discriminate H.
      - intros tp Htp Hn. exfalso. apply Hn. apply Hplaced. exact Htp.
      - intros n Hn Hnr. exfalso. apply Hnr. exact Hn.
      - intro n. reflexivity.
      - intros n e H. discriminate H.
      - intro ext. exact I.
      - lia.
      - intros tp [].
      - destruct Hhdr as [b [r0 ->]]. unfold blen. cbn [length]. lia.
      - intros s n Hs Hn Hnr. exfalso. apply Hnr. destruct (Hcb s Hs) as [K _]. apply in_map_iff in K as [tp [E Htp]].
        rewrite <- E. apply Hplaced. exact Htp. }
    assert (HU : blen (hdr ++ r) <= u32_max) by (unfold blen in *; rewrite !app_length in *; lia).
    destruct (LoadsMultiOSInv.parts_inv st a TOPS decompress_ref can_ref xids Hndx H0x Htb Hab Hcb Htrail Hn32 parts hdr [] [] 0 [] r Hdom Hinv0 Hr HU)
      as [cF [kF [mF [xtF [IF HF]]]]].
    destruct (HF Hne) as [xs [x0 [t0 [cr [lastp [front [E1 [E2 [E3 [E4 [E5 [E6 [E7 [E8 [E9 [E10 E11]]]]]]]]]]]]]]]]. subst cF. clear HF.
    pose proof (LoadsMultiOSInv.i_chain _ _ _ _ _ _ _ _ _ _ _ IF []) as Hc. rewrite app_nil_r in Hc. cbn [chain_ok] in Hc.
    destruct Hc as [Hc1 [Hc2 [Hc3 [Hc4 Hc5]]]].
    set (buf := hdr ++ r) in *.
    set (CH := (xs, (x0, t0)) :: cr) in *.
    set (xm := fold_left xref_merge (map (fun s : csec => fst (snd s)) cr) x0).
    set (X := x_entries xm).
    assert (Hsorted : C07Bytes.xincr 0 X) by (apply C07Bytes.fold_merge_sorted; exact E2).
    assert (Hxg : forall n e, In (n, e) X -> xget X n = Some e)
      by (intros n e Hin; apply (C07Bytes.xget_in_sorted _ 0); assumption).
    assert (Hfx : forall n, xget X n = LoadsMultiMixed.fe CH n).
    { intro n. unfold X, xm, LoadsMultiMixed.fe, CH. cbn [map fst snd]. apply xget_merge_chain. }
    assert (Hfe : forall n e, In (n, e) X -> LoadsMultiMixed.fe CH n = Some e) by (intros n e Hin; rewrite <- Hfx; apply Hxg; exact Hin).
    pose proof (LoadsMultiOSInv.i_nums _ _ _ _ _ _ _ _ _ _ _ IF) as Inums.
    pose proof (LoadsMultiOSInv.i_cur _ _ _ _ _ _ _ _ _ _ _ IF) as Icur.
    pose proof (LoadsMultiOSInv.i_all _ _ _ _ _ _ _ _ _ _ _ IF) as Iall.
    pose proof (LoadsMultiOSInv.i_allx _ _ _ _ _ _ _ _ _ _ _ IF) as Iallx.
    pose proof (LoadsMultiOSInv.i_xt _ _ _ _ _ _ _ _ _ _ _ IF) as Ixt.
    pose proof (LoadsMultiOSInv.i_mem _ _ _ _ _ _ _ _ _ _ _ IF) as Imem.
    pose proof (LoadsMultiOSInv.i_max _ _ _ _ _ _ _ _ _ _ _ IF) as Imax.
    set (ALL := (map top_num TOPS ++ comp) ++ xids) in *.
    assert (Hb32 : forall n, In n ALL -> n <= u32_max) by (intros n Hn; pose proof (max_num_ge ALL n Hn); lia).
    assert (Hmax : xref_max_id xm < u32_max).
    { unfold xref_max_id. apply N.le_lt_trans with (m := max_num ALL); [|lia].
      apply max_id_le; [lia|]. intros k v Hin. destruct (Inums k v (Hfe k v Hin)) as [Hk _]. apply max_num_ge. exact Hk. }
    assert (Htnd : NoDup (map top_num TOPS)) by exact (NoDup_app_l' _ _ (NoDup_app_l' _ _ Hndx)).
    assert (Htx : forall n, In n (map top_num TOPS) -> In n xids -> False).
    { intros n K1 K2. apply (NoDup_app_disj _ _ n Hndx); [apply in_or_app; left; exact K1|exact K2]. }
    assert (Htc : forall n, In n (map top_num TOPS) -> In n comp -> False).
    { intros n K1 K2. exact (NoDup_app_disj _ _ n (NoDup_app_l' _ _ Hndx) K1 K2). }
    (* where every current top-level object stands *)
    assert (Hloc : forall tp, In tp TOPS -> exists off, In (top_num tp, XNormal off (snd (fst (fst tp)))) X /\ stands buf tp off).
    { intros tp Htp.
      assert (Hne' : LoadsMultiMixed.fe CH (top_num tp) <> None) by (apply (Iall tp Htp); intros []).
      destruct (LoadsMultiMixed.fe CH (top_num tp)) as [e|] eqn:Ee; [|contradiction].
      destruct (Inums _ _ Ee) as [_ [_ [[off [g ->]]|[c [k [_ Hc]]]]]]; [|exfalso; exact (Htc _ (in_map top_num _ _ Htp) Hc)].
      destruct (Icur _ _ _ Ee) as [tp' [pre [post [H1 [H2 [H3 H4]]]]]]; [intros _ []|].
      assert (tp' = tp).
      { apply in_app_or in H1 as [H1|H1].
        - apply (unique_by_key top_num TOPS); [exact Htnd|exact H1|exact Htp|exact (f_equal fst H2)].
        - exfalso. apply (Htx (top_num tp)); [apply in_map; exact Htp|]. destruct (Ixt tp' H1) as [_ K].
          replace (top_num tp) with (top_num tp') by exact (f_equal fst H2). exact K. }
      subst tp'. exists off. split.
      - apply xget_In. rewrite Hfx, Ee. f_equal. f_equal. exact (eq_sym (f_equal snd H2)).
      - exists pre, post. split; assumption. }
    assert (A5 : forall tp, In tp ptops -> top_num tp <= u32_max).
    { intros tp Htp. apply Hb32. apply in_or_app. left. apply in_or_app. left. apply in_map. apply in_or_app. left. exact Htp. }
    assert (A7 : forall s, In s (s_ostms st) -> os_id s <= u32_max /\ Forall (fun m => m <= u32_max) (os_members s)).
    { intros s Hs. split.
      + apply Hb32. apply in_or_app. left. apply in_or_app. left. apply (Hcb s Hs).
      + apply Forall_forall. intros m Hm. apply Hb32. apply in_or_app. left. apply in_or_app. right.
        unfold compressed_nums. apply in_flat_map. exists s. split; assumption. }
    assert (A8 : forall tp, In tp xtF -> top_ok tp /\ top_num tp <= u32_max).
    { intros tp Htp. destruct (Ixt tp Htp) as [K1 K2]. split; [exact K1|]. apply Hb32. apply in_or_app. right. exact K2. }
    assert (A9 : forall tp, In tp ptops -> ~ In (top_num tp) (cidsT (s_ostms st))).
    { intros tp Htp K. destruct (proj1 (f_pnums st a (top_num tp)) (in_map top_num _ _ Htp)) as [K1 _].
      apply (NoDup_app_disj _ _ _ Hnd3 K1). apply in_or_app. left. exact K. }
    assert (A10 : forall tp, In tp xtF -> ~ In (top_num tp) (cidsT (s_ostms st))).
    { intros tp Htp K. exact (NoDup_app_disj _ _ _ (NoDup_app_r' _ _ Hnd3) K (proj2 (Ixt tp Htp))). }
    assert (A11 : forall tp tp', In tp xtF -> In tp' ptops -> top_num tp <> top_num tp').
    { intros tp tp' Htp Htp' E. destruct (proj1 (f_pnums st a (top_num tp')) (in_map top_num _ _ Htp')) as [K1 _].
      apply (NoDup_app_disj _ _ (top_num tp) Hnd3); [rewrite E; exact K1|apply in_or_app; right; exact (proj2 (Ixt tp Htp))]. }
    assert (A14 : forall n off g, In (n, XNormal off g) X ->
              exists tp : top, fst (fst tp) = (n, g) /\ stands buf tp off /\
                (In tp ptops \/ (exists s, In s (s_ostms st) /\ cont_top (a_objs a) s tp) \/ In tp xtF)).
    { intros n off g Hin. destruct (Icur n off g (Hfe _ _ Hin)) as [tp [pre [post [H1 [H2 [H3 H4]]]]]]; [intros _ []|].
      exists tp. split; [exact H2|]. split; [exists pre, post; split; assumption|].
      apply in_app_or in H1 as [H1|H1]; [|right; right; exact H1]. unfold TOPS in H1.
      apply in_app_or in H1 as [H1|H1]; [left; exact H1|right; left; exact (f_cont_top st a conts Ec tp H1)]. }
    assert (A15 : forall tp, In tp ptops -> exists off, In (top_num tp, XNormal off (snd (fst (fst tp)))) X /\ stands buf tp off).
    { intros tp Htp. apply Hloc. apply in_or_app. left. exact Htp. }
    assert (A16 : forall s, In s (s_ostms st) -> exists tp off, cont_top (a_objs a) s tp /\ In (os_id s, XNormal off 0) X /\ stands buf tp off).
    { intros s Hs. destruct (Forall2_In_l _ _ _ s (f_spec st a conts Ec) Hs) as [tp [Htp Hc]].
      destruct (Hloc tp (in_or_app _ _ _ (or_intror Htp))) as [off [K1 K2]]. exists tp, off. split; [exact Hc|]. split; [|exact K2].
      destruct Hc as [o [_ Eo]]. rewrite Eo in K1. exact K1. }
    assert (A17 : forall s n, In s (s_ostms st) -> In n (os_members s) -> exists k, In (n, XCompressed (os_id s) k) X).
    { intros s n Hs Hn. destruct (Imem s n Hs Hn) as [k Hk]; [intros []|]. exists k. apply xget_In. rewrite Hfx. exact Hk. }
    assert (B1 : pdf_offset (s_junk st ++ buf) = blen (s_junk st)).
    { unfold buf, RefWriter.header. rewrite <- !app_assoc. apply pdf_offset_junk. exact Hj. }
    assert (B2 : Loader.header buf = Some (a_version a)).
    { unfold buf, RefWriter.header. rewrite <- !app_assoc. apply header_any_eol; assumption. }
    assert (B3 : get_xref_start buf = Some xs).
    { assert (Hfb : blen front <= blen buf) by (rewrite E4; unfold blen; rewrite app_length; lia).
      rewrite E4, startxref_text_block.
      apply get_xref_start_styled.
      * exact E5.
      * destruct parts as [|p0 parts0]; [contradiction|]. lia.
      * unfold u32_max in HU. lia.
      * exact E11. }
    destruct (tail_loads a (s_ostms st) (find_istyle (s_objs st)) xtF buf X (NoDup_app_l' _ _ Hnd3) Hcn
                (NoDup_app_l' _ _ (NoDup_app_r' _ _ Hnd3)) Hptops A5 Hcont A7 A8 A9 A10 A11 Hxg (xincr_nodup X 0 Hsorted) A14 A15 A16 A17
                (s_junk st) (a_version a) xs x0 t0 cr B1 B2 B3) as [d [L1 [L2 [L3 L4]]]].
    - lia.
    - exact Hc2.
    - exact E7.
    - exact Hc4.
    - exact Hc5.
    - reflexivity.
    - exact E8.
    - exact Hmax.
    - exists d, (x_type x0), xtF. split; [exact L1|]. split; [exact L2|]. split; [exact L4|].
      split; [intros tp Htp; exact (proj2 (Ixt tp Htp))|].
      exists t0. split; [exact L3|]. split; [exact E9|].
      rewrite E10. f_equal. f_equal. f_equal.
      assert (Hle : max_num ALL <= mF).
      { unfold max_num. apply fold_max_le; [lia|]. intros n Hn.
        assert (Hne' : LoadsMultiMixed.fe CH n <> None).
        { apply in_app_or in Hn as [Hn|Hn]; [apply in_app_or in Hn as [Hn|Hn]|].
          - apply in_map_iff in Hn as [tp [<- Htp]]. apply (Iall tp Htp). intros [].
          - unfold compressed_nums in Hn. apply in_flat_map in Hn as [s [Hs Hm]]. destruct (Imem s n Hs Hm) as [k Hk]; [intros []|]. rewrite Hk. discriminate.
          - apply (Iallx n Hn). intros []. }
        destruct (LoadsMultiMixed.fe CH n) as [e|] eqn:Ee; [|contradiction]. apply (Inums n e Ee). }
      lia.
  Qed.
End Final.
