(* LengthRefProofs.v -- C02: a stream whose Length is an indirect reference, in any spelling, against c01's extended
   reader (Model/LoaderExt.v): BOTH paths of lopdf.
   (1) the EAGER path: while the stream is parsed, Reader::get_object finds the length (the cross-reference table is
       known, the length object is an integer object in use): parser::_indirect_object returns the stream with its data;
       [get_length] on a reference file: the entry of the length object, the object there in any spelling.
   (2) the DEFERRED path: the length cannot be had while parsing (get_object fails: the table is still empty, or the
       length object lives in an object stream): the stream is returned without content and with its start position,
       and Reader::read_stream_content, run after every object is loaded, finds the length among the LOADED objects and
       cuts the content out of the buffer. *)
From LV Require Import Base.Bytes Base.Sx Model.Obj Model.Writer Model.Parser Model.Xref Model.Loader Model.LoaderExt Gen.Lex
  Spec.XrefSpec Spec.RefWriter Proofs.LexProofs Proofs.LitStringProofs Proofs.RealProofs Proofs.ObjectRtProofs
  Proofs.SpellingProofs Proofs.SpellingProofsLit Proofs.SpellingNumProofs Proofs.SpellingObjProofs Proofs.LoadProofs
  Proofs.LoadProofsFile Proofs.SpellingFileProofs Proofs.LoaderExtProofs.
From Coq Require Import Lia.
Local Open Scope N_scope.

Lemma dict_get_denote_ref : forall d sts k i g,
  dict_get d k = Some (ORef i g) -> dict_get (denote_dict d sts) k = Some (ORef i g).
Proof.
  induction d as [|[k0 v] d IH]; intros sts k i g H; [discriminate H|].
  cbn [denote_dict dict_get] in *. destruct (bytes_eqb k0 k).
  - inversion H; subst. reflexivity.
  - apply IH. exact H.
Qed.

Definition stream_tail (y : istyle) (post : bytes) : bytes :=
  opt_eol (i_eeol y) ++ bs "endstream" ++ sepT (stream_body y []) (i_f4 y) (bs "endobj" ++ post) ++ bs "endobj" ++ post.

(* ---------- the stream, whatever the reader answers for the length ---------- *)
Section RefLength.
  Variables (id gen : N) (d : dict) (c : bytes) (y : istyle) (post : bytes) (li lg : N).
  Hypothesis Hi : id <= u32_max.
  Hypothesis Hg : gen <= u16_max.
  Hypothesis Hw : spell_wf (ODict d) (i_obj y).
  Hypothesis Hd : (nest (ODict d) <= MAX_DEPTH)%nat.
  Hypothesis HL : dict_get d K_Length = Some (ORef li lg).

  Definition dd : dict := denote_dict d (dict_sts (i_obj y)).

  (* the text after the data *)
  Definition after_data : bytes :=
    opt_eol (i_eeol y) ++ bs "endstream" ++
    sepT (stream_body y c) (i_f4 y) (bs "endobj" ++ post) ++ bs "endobj" ++ post.

  Lemma stream_px_ref buf lenref fuel :
    let t := w_obj (ODict d) (i_obj y) in
    let E := bs "endobj" ++ post in
    let SB := stream_body y c in
    let S1 := SB ++ sepT SB (i_f4 y) E ++ E in
    let R := sepT t (i_fs y) S1 ++ S1 in
    (length (t ++ R) < fuel)%nat ->
    stream_px fuel buf (t ++ R) lenref =
    match lenref (li, lg) with
    | LnOk z =>
      if (z <? 0)%Z then SxFail
      else match take_N (Z.to_N z) (c ++ after_data) with
           | Some (data, r5) =>
             match ptag (bs "endstream") (match eol r5 with POk _ r => r | _ => r5 end) with
             | POk _ r7 => SxOk (stream_new dd data) None r7
             | _ => SxErr
             end
           | None => SxErr
           end
    | LnNone => SxOk (OStream dd []) (Some (Loader.blen buf - Loader.blen (c ++ after_data))) (c ++ after_data)
    | LnPanic => SxPanic
    | LnOut => SxOut
    end.
  Proof.
    intros t E SB S1 R Hf. unfold stream_px. unfold t at 1.
    rewrite dictionary_any_spelling; [|exact Hw|exact Hf|exact Hd].
    assert (HS1 : tok_start S1 = true) by reflexivity.
    unfold R. rewrite space_sepT, (space_tok S1 HS1).
    unfold S1, SB, stream_body. rewrite <- ?app_assoc. rewrite ptag_app.
    fold dd. unfold dd. rewrite (dict_get_denote_ref d _ K_Length _ _ HL). fold dd.
    assert (Heol : forall X, eol (skip_while is_space_tab ((if i_crlf y then [x0d; x0a] else [x0a]) ++ X)) = POk tt X)
      by (intro X; destruct (i_crlf y); reflexivity).
    rewrite Heol. unfold after_data, stream_body. rewrite <- ?app_assoc.
    destruct (lenref (li, lg)); reflexivity.
  Qed.

  Definition whole : bytes := w_indirect id gen (OStream d c) y ++ post.

  (* the head "id gen obj" for either expectation *)
  Lemma indirect_with_head buf lenref expected O :
    tok_start O = true ->
    match expected with Some e => e = (id, gen) | None => True end ->
    indirect_with buf (head_text id gen (i_f1 y) (i_f2 y) (i_f3 y) O) expected lenref =
    match stream_px (fuel_for (head_text id gen (i_f1 y) (i_f2 y) (i_f3 y) O)) buf O lenref with
    | SxOk o pos _ => IxOk (id, gen) o pos
    | SxErr =>
      match direct_objects (fuel_for (head_text id gen (i_f1 y) (i_f2 y) (i_f3 y) O)) O with
      | POk o _ => IxOk (id, gen) o None
      | PErr | PFail => IxErr
      | PPanic => IxPanic
      | POut => IxOut
      end
    | SxFail => IxErr
    | SxPanic => IxPanic
    | SxOut => IxOut
    end.
  Proof.
    intros HO Hexp. destruct (head_parse id gen (i_f1 y) (i_f2 y) (i_f3 y) O Hi Hg HO) as [P1 P2].
    unfold indirect_with. rewrite P1. rewrite ptag_app. rewrite P2.
    destruct expected as [e|]; [subst e; rewrite oid_eqb_refl|]; reflexivity.
  Qed.

  Definition Otext : bytes :=
    let E := bs "endobj" ++ post in
    let SB := stream_body y c in
    let S1 := SB ++ sepT SB (i_f4 y) E ++ E in
    w_obj (ODict d) (i_obj y) ++ sepT (w_obj (ODict d) (i_obj y)) (i_fs y) S1 ++ S1.

  Lemma whole_head : whole = head_text id gen (i_f1 y) (i_f2 y) (i_f3 y) Otext.
  Proof. unfold whole, Otext. rewrite (w_indirect_stream_text id gen d c y post Hw). reflexivity. Qed.

  Lemma Otext_tok : tok_start Otext = true.
  Proof.
    unfold Otext. cbv zeta. destruct (w_obj_head (ODict d) _ Hw) as [c0 [t0 [Ec [Hl _]]]]. rewrite Ec. apply lead2_tok. exact Hl.
  Qed.

  Lemma Otext_fuel : (length Otext < fuel_for (head_text id gen (i_f1 y) (i_f2 y) (i_f3 y) Otext))%nat.
  Proof. unfold head_text, fuel_for. cbv zeta. rewrite !app_length. lia. Qed.

  Lemma endstream_after X :
    ptag (bs "endstream")
      (match eol (opt_eol (i_eeol y) ++ bs "endstream" ++ X) with POk _ r => r | _ => opt_eol (i_eeol y) ++ bs "endstream" ++ X end)
    = POk tt X.
  Proof. destruct (i_eeol y) as [[| |]|]; cbn [opt_eol eol_bytes app]; try (rewrite <- (ptag_app (bs "endstream") X); reflexivity). Qed.

  (* (1) eager: the reader finds the length *)
  Theorem indirect_ref_length_eager buf lenref expected :
    lenref (li, lg) = LnOk (Z.of_nat (length c)) ->
    match expected with Some e => e = (id, gen) | None => True end ->
    indirect_with buf whole expected lenref = IxOk (id, gen) (stream_new dd c) None.
  Proof.
    intros Hlen Hexp. rewrite whole_head, (indirect_with_head buf lenref expected Otext Otext_tok Hexp).
    pose proof (stream_px_ref buf lenref _ Otext_fuel) as K. cbv zeta in K.
    change (stream_px (fuel_for (head_text id gen (i_f1 y) (i_f2 y) (i_f3 y) Otext)) buf Otext lenref)
      with (stream_px (fuel_for (head_text id gen (i_f1 y) (i_f2 y) (i_f3 y) Otext)) buf
              (w_obj (ODict d) (i_obj y) ++ sepT (w_obj (ODict d) (i_obj y)) (i_fs y)
                 (stream_body y c ++ sepT (stream_body y c) (i_f4 y) (bs "endobj" ++ post) ++ bs "endobj" ++ post) ++
               stream_body y c ++ sepT (stream_body y c) (i_f4 y) (bs "endobj" ++ post) ++ bs "endobj" ++ post) lenref).
    rewrite K, Hlen.
    assert (Hneg : (Z.of_nat (length c) <? 0)%Z = false) by lia. rewrite Hneg.
    rewrite take_N_app. unfold after_data. rewrite endstream_after. reflexivity.
  Qed.

  (* (2) deferred, first half: the reader does not find the length; the stream comes back empty, with the position of
     its data in the buffer *)
  Theorem indirect_ref_length_deferred pre lenref expected :
    lenref (li, lg) = LnNone ->
    match expected with Some e => e = (id, gen) | None => True end ->
    exists before, whole = before ++ c ++ after_data /\
      indirect_with (pre ++ whole) whole expected lenref =
      IxOk (id, gen) (OStream dd []) (Some (Loader.blen (pre ++ before))).
  Proof.
    intros Hlen Hexp.
    assert (H1 : exists hd, head_text id gen (i_f1 y) (i_f2 y) (i_f3 y) Otext = hd ++ Otext).
    { unfold head_text. cbv zeta.
      exists (N_dec id ++ sepT (N_dec id) (i_f1 y) (N_dec gen ++ sepT (N_dec gen) (i_f2 y) (bs "obj" ++ sepT (bs "obj") (i_f3 y) Otext ++ Otext) ++
                                               bs "obj" ++ sepT (bs "obj") (i_f3 y) Otext ++ Otext) ++
              N_dec gen ++ sepT (N_dec gen) (i_f2 y) (bs "obj" ++ sepT (bs "obj") (i_f3 y) Otext ++ Otext) ++
              bs "obj" ++ sepT (bs "obj") (i_f3 y) Otext).
      rewrite <- !app_assoc. reflexivity. }
    assert (H2 : exists mid, Otext = mid ++ c ++ after_data).
    { unfold Otext, after_data. cbv zeta. unfold stream_body at 1 3.
      exists (w_obj (ODict d) (i_obj y) ++
              sepT (w_obj (ODict d) (i_obj y)) (i_fs y)
                (stream_body y c ++ sepT (stream_body y c) (i_f4 y) (bs "endobj" ++ post) ++ bs "endobj" ++ post) ++
              bs "stream" ++ (if i_crlf y then [x0d; x0a] else [x0a])).
      rewrite <- !app_assoc. reflexivity. }
    destruct H1 as [hd E1]. destruct H2 as [mid E2].
    exists (hd ++ mid). split; [rewrite whole_head, E1; rewrite E2 at 1; rewrite <- !app_assoc; reflexivity|].
    assert (Ew : indirect_with (pre ++ whole) whole expected lenref =
                 indirect_with (pre ++ whole) (head_text id gen (i_f1 y) (i_f2 y) (i_f3 y) Otext) expected lenref)
      by (f_equal; exact whole_head).
    rewrite Ew, (indirect_with_head (pre ++ whole) lenref expected Otext Otext_tok Hexp).
    pose proof (stream_px_ref (pre ++ whole) lenref _ Otext_fuel) as K. cbv zeta in K.
    change (stream_px (fuel_for (head_text id gen (i_f1 y) (i_f2 y) (i_f3 y) Otext)) (pre ++ whole) Otext lenref)
      with (stream_px (fuel_for (head_text id gen (i_f1 y) (i_f2 y) (i_f3 y) Otext)) (pre ++ whole)
              (w_obj (ODict d) (i_obj y) ++ sepT (w_obj (ODict d) (i_obj y)) (i_fs y)
                 (stream_body y c ++ sepT (stream_body y c) (i_f4 y) (bs "endobj" ++ post) ++ bs "endobj" ++ post) ++
               stream_body y c ++ sepT (stream_body y c) (i_f4 y) (bs "endobj" ++ post) ++ bs "endobj" ++ post) lenref).
    rewrite K, Hlen.
    f_equal. f_equal. rewrite whole_head, E1. rewrite E2 at 1. unfold Loader.blen. rewrite !app_length. lia.
  Qed.
End RefLength.

(* ---------- (1) the reader's look-up of the length: Reader::get_object on a reference file ---------- *)
Lemma indirect_expected s id o : indirect_object s None = IOk id o -> indirect_object s (Some id) = IOk id o.
Proof.
  unfold indirect_object. destruct (object_id (space s)) as [id' r| | | |]; try discriminate.
  destruct (ptag (bs "obj") r) as [u r1| | | |]; try discriminate.
  intro H.
  assert (E : id' = id).
  { destruct (stream_p (fuel_for s) (space r1)) as [o1 r2| | | | |]; try discriminate H; try (inversion H; reflexivity).
    destruct (direct_objects (fuel_for s) (space r1)) as [o1 r2| | | |]; try discriminate H. inversion H. reflexivity. }
  subst id'. rewrite oid_eqb_refl. exact H.
Qed.

(* the length object: an integer object in use, in any spelling, at the offset its cross-reference entry names *)
Theorem get_length_finds k buf x seen li lg z (yl : istyle) off post :
  existsb (oid_eqb (li, lg)) seen = false -> (S (length seen) <= SaveFmt.MAX_LENGTH_CHAIN)%nat ->
  get_offset x (li, lg) = Some off -> off <= Loader.blen buf ->
  from off buf = w_indirect li lg (OInt z) yl ++ post ->
  li <= u32_max -> lg <= u16_max -> in_i64 z = true ->
  get_length (S k) buf x seen (li, lg) = LnOk z.
Proof.
  intros Hs Hm Ho Hb Hf Hi Hg Hz. cbn [get_length]. rewrite Hs.
  replace (SaveFmt.MAX_LENGTH_CHAIN <? S (length seen))%nat with false by (symmetry; apply Nat.ltb_ge; exact Hm).
  rewrite Ho. replace (Loader.blen buf <? off) with false by (symmetry; apply N.ltb_ge; exact Hb).
  rewrite Hf.
  match goal with |- context [indirect_with ?b ?s0 ?e ?l] => pose proof (indirect_with_agrees b s0 e l) as A end.
  match type of A with match ?t with IOk _ _ => _ | _ => _ end =>
    assert (E : t = IOk (li, lg) (OInt z)) end.
  { apply indirect_expected.
    pose proof (indirect_any_spelling li lg (OInt z) yl post Hi Hg) as K. cbn [denote] in K. apply K.
    - intros d c H. discriminate H.
    - exact Hz.
    - cbn. lia. }
  rewrite E in A. destruct A as [pos [-> _]]. reflexivity.
Qed.

(* ---------- (2) second half of the deferred path: Reader::read_stream_content over the loaded objects ---------- *)
Theorem read_stream_content_sets buf (m : objmap) (p : posmap) id dct li lg start content rest :
  lookup m id = Some (OStream dct []) ->
  dict_get dct Obj.K_Length = Some (ORef li lg) ->
  lookup m (li, lg) = Some (OInt (Z.of_nat (length content))) ->
  pos_get p id = Some start -> start <= Loader.blen buf -> from start buf = content ++ rest ->
  read_stream_content buf m p id =
  insert m id (OStream (dict_set dct Obj.K_Length (OInt (Z.of_nat (length content)))) content).
Proof.
  intros Hl HL Hlen Hp Hs Hf. unfold read_stream_content. rewrite Hl.
  change (dereference_id m id (OStream dct [])) with (Some (id, OStream dct [])). cbv iota. rewrite HL.
  assert (Hd : dereference m (ORef li lg) = Some (OInt (Z.of_nat (length content)))).
  { unfold dereference. cbn [deref]. rewrite Hlen. reflexivity. }
  rewrite Hd, Hp.
  replace (Z.of_nat (length content) <? 0)%Z with false by (symmetry; apply Z.ltb_ge; lia).
  assert (Hb : Loader.blen buf <? start + Z.to_N (Z.of_nat (length content)) = false).
  { apply N.ltb_ge. pose proof (from_length start buf Hs) as K. rewrite Hf in K. unfold Loader.blen in *. rewrite app_length in K.
    rewrite <- nat_N_Z, N2Z.id. lia. }
  rewrite Hb. rewrite Hf, Nat2Z.id, firstn_app, firstn_all, Nat.sub_diag. cbn [firstn]. rewrite app_nil_r. reflexivity.
Qed.
