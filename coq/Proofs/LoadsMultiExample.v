(* LoadsMultiExample.v -- C02: a concrete two-part file (a superseded definition in part 1, an object listed again by part 2)
   meets every hypothesis of the multi-section theorem (non-vacuity of Props/C02.v C02_loads_multi_table). *)
From LV Require Import Base.Bytes Base.Sx Model.Obj Model.Writer Model.Parser Model.Xref Spec.XrefSpec Spec.RefWriter Model.Loader
  Proofs.RealProofs Proofs.SpellingProofs Proofs.SpellingObjProofs Proofs.ObjectRtProofs.
From LV Require Proofs.LoadsTableProofs Proofs.LoadsMultiProofs Proofs.LoadsMultiFull Model.Utf.
From Coq Require Import Lia.
Local Open Scope N_scope.

Definition ex_adoc : adoc :=
  {| a_version := bs "1.4";
     a_trailer := [(bs "Root", ORef 7 0)];
     a_objs := [((7, 0), ODict [(bs "Type", OName (bs "Catalog")); (bs "V", OReal (bs "2.5"))]);
                ((3, 2), OStream [(bs "Length", OInt 5)] (bs "a(b" ++ [x0d; x0a]))] |}.
Definition ex_tstyle : tstyle :=
  {| t_secs := [(0, 1); (3, 1); (7, 1)]; t_eols := [0; 2; 1]; t_kw_eol := ECR; t_sec_eols := [ECRLF; ELF; ECR];
     t_sec_sp := [true; false; true]; t_f1 := [FComment (bs "%%EOF") ELF]; t_trailer := YDefault; t_f2 := [FWs 2] |}.
Definition ex_fstyle : fstyle :=
  {| s_junk := bs "junk %PDF" ++ [x0a]; s_hdr_eol := ECRLF; s_binary := Some ([xe2; xe3], ECR); s_order := [7; 3];
     s_objs := [(3, {| i_f1 := [FWs 1]; i_f2 := [FComment (bs "endobj") ECR]; i_f3 := []; i_f4 := [FWs 0]; i_gap := [];
                       i_obj := YDict [FWs 4] [([NHex true false], [], YInt true 1, [])]; i_fs := [FWs 2]; i_crlf := true; i_eeol := Some ECR |})];
     s_ostms := []; s_xref := XTable ex_tstyle;
     s_sx_eol1 := ECRLF; s_sx_sp1 := 1; s_sx_sp2 := 2; s_sx_eol2 := ECR; s_final_eol := Some ELF |}.
Definition ex_tstyle_m2 : tstyle :=
  {| t_secs := [(3, 1); (7, 1)]; t_eols := [1]; t_kw_eol := ELF; t_sec_eols := [ECR]; t_sec_sp := [false];
     t_f1 := []; t_trailer := YDefault; t_f2 := [] |}.
Definition ex_parts_m : list mpart :=
  [{| mp_nums := [3]; mp_old := [(7, ODict [(bs "Type", OName (bs "Old"))])]; mp_relist := []; mp_order := [7; 3];
      mp_xref := XTable ex_tstyle; mp_sx := (ELF, 0%nat, 0%nat, ELF, None) |};
   {| mp_nums := [7]; mp_old := []; mp_relist := [3]; mp_order := [];
      mp_xref := XTable ex_tstyle_m2; mp_sx := (ECRLF, 1%nat, 2%nat, ECR, Some ELF) |}].

Lemma ex_trailer_dom t : t_trailer t = YDefault -> LoadsMultiProofs.trailer_dom ex_adoc t.
Proof.
  intros Ht sz prev Hsz Hp. rewrite Ht. destruct Hp as [->|[q [Hq ->]]]; cbn [LoadsMultiProofs.p_prev app a_trailer ex_adoc].
  - split; [|cbn; lia]. cbn. split; [constructor; [intros [H|[]]; discriminate|constructor; [intros []|constructor]]|].
    unfold in_i64, i64_min, i64_max, u32_max, u16_max in *.
    repeat split; try lia; try (apply andb_true_iff; split; apply Z.leb_le; lia).
  - split; [|cbn; lia]. cbn. split.
    + constructor; [intros [H|[H|[]]]; discriminate|]. constructor; [intros [H|[]]; discriminate|]. constructor; [intros []|constructor].
    + unfold in_i64, i64_min, i64_max, u32_max, u16_max in *.
      repeat split; try lia; try (apply andb_true_iff; split; apply Z.leb_le; lia).
Qed.

Theorem example_loads_multi_table :
  exists file, ref_write_multi ex_fstyle ex_parts_m ex_adoc = Some file /\ LoadsMultiFull.multi_dom_table ex_fstyle ex_parts_m ex_adoc file.
Proof.
  eexists. split; [vm_compute; reflexivity|].
  assert (Hr : real_wf (bs "2.5")) by (exists false, (bs "2"), (bs "5"); repeat split; try reflexivity; discriminate).
  split; [reflexivity|]. split.
  { constructor; [exists ex_tstyle; split; [reflexivity|apply ex_trailer_dom; reflexivity]|].
    constructor; [exists ex_tstyle_m2; split; [reflexivity|apply ex_trailer_dom; reflexivity]|constructor]. }
  split.
  { unfold LoadsTableProofs.tops. cbn [a_objs ex_adoc map fst snd].
    constructor; [|constructor; [|constructor]].
    + cbn. split; [lia|]. split; [unfold u16_max; lia|]. split; [|lia]. split.
      * constructor; [intros [H|[]]; discriminate|]. constructor; [intros []|constructor].
      * split; [exact I|]. split; [exact Hr|exact I].
    + cbn. split; [lia|]. split; [unfold u16_max; lia|]. split.
      * split; [constructor; [intros []|constructor]|]. split; [reflexivity|exact I].
      * split; [lia|]. split; reflexivity. }
  split; [vm_compute; discriminate|]. split; [repeat split; reflexivity|].
  split; [vm_compute; discriminate|]. split; [vm_compute; discriminate|]. split; [vm_compute; reflexivity|].
  intros lastp xs Hl Hxs. cbn in Hl. inversion Hl; subst lastp. clear Hl.
  assert (Hall : forallb (fun xs => (9 + length (LoadsTableProofs.sx_mid ECRLF 1 xs 2 ECR) <=? 25)%nat) (range_N 0 409) = true)
    by (vm_compute; reflexivity).
  rewrite forallb_forall in Hall. apply Nat.leb_le. apply (Hall xs). apply LoadsTableProofs.range_N_In.
  match type of Hxs with _ <= ?b => let v := eval vm_compute in b in change b with v in Hxs end. lia.
Qed.

(* ---------- a MIXED chain: part 1 ends with a cross-reference STREAM (object 9), part 2 with a table whose Prev names it ---------- *)
From LV Require Proofs.LoadsMultiMixed Proofs.LoadsMultiMixedFull Proofs.LoadsMultiXSec Proofs.LoadsFilterProofs.

Definition ex_xs_m : xsstyle :=
  {| xs_id := 9; xs_w := (0%nat, 1%nat, 0%nat); xs_secs := [(3, 1); (7, 1); (9, 1)]; xs_omit_index := false;
     xs_filter := SfNone; xs_array := false;
     xs_istyle := {| i_f1 := [FWs 1]; i_f2 := []; i_f3 := [FComment (bs "xref") ECR]; i_f4 := [FWs 0]; i_gap := [];
                     i_obj := YDefault; i_fs := [FWs 2]; i_crlf := true; i_eeol := None |} |}.
Definition ex_parts_x : list mpart :=
  [{| mp_nums := [3]; mp_old := [(7, ODict [(bs "Type", OName (bs "Old"))])]; mp_relist := []; mp_order := [7; 3];
      mp_xref := XStream ex_xs_m; mp_sx := (ELF, 0%nat, 0%nat, ELF, None) |};
   {| mp_nums := [7]; mp_old := []; mp_relist := [3]; mp_order := [];
      mp_xref := XTable ex_tstyle_m2; mp_sx := (ECRLF, 1%nat, 2%nat, ECR, Some ELF) |}].

Lemma ex_trailer_dom_x t : t_trailer t = YDefault -> LoadsMultiMixed.trailer_dom ex_adoc t.
Proof.
  intros Ht sz prev Hsz Hp. rewrite Ht. destruct Hp as [->|[q [Hq ->]]]; cbn [LoadsMultiMixed.p_prev app a_trailer ex_adoc].
  - split; [|cbn; lia]. cbn. split; [constructor; [intros [H|[]]; discriminate|constructor; [intros []|constructor]]|].
    unfold in_i64, i64_min, i64_max, u32_max, u16_max in *.
    repeat split; try lia; try (apply andb_true_iff; split; apply Z.leb_le; lia).
  - split; [|cbn; lia]. cbn. split.
    + constructor; [intros [H|[H|[]]]; discriminate|]. constructor; [intros [H|[]]; discriminate|]. constructor; [intros []|constructor].
    + unfold in_i64, i64_min, i64_max, u32_max, u16_max in *.
      repeat split; try lia; try (apply andb_true_iff; split; apply Z.leb_le; lia).
Qed.

Theorem example_loads_multi_mixed :
  exists file, ref_write_multi ex_fstyle ex_parts_x ex_adoc = Some file /\
               LoadsMultiMixedFull.multi_dom_mixed LoadsFilterProofs.decompress_ref LoadsFilterProofs.can_ref ex_fstyle ex_parts_x ex_adoc file.
Proof.
  eexists. split; [vm_compute; reflexivity|].
  assert (Hr : real_wf (bs "2.5")) by (exists false, (bs "2"), (bs "5"); repeat split; try reflexivity; discriminate).
  split; [reflexivity|]. split.
  { cbn [LoadsMultiMixed.parts_ok ex_parts_x].
    split; [|split; [intro K; discriminate K|split; [|split; [intros _; vm_compute; lia|exact I]]]].
    - unfold LoadsMultiMixed.part_ok. cbn [mp_xref]. split; [left; reflexivity|]. split; [left; reflexivity|].
      match goal with |- spell_wf (ODict ?d) _ /\ _ =>
        let v := eval vm_compute in d in assert (Hd : d = v) by (vm_compute; reflexivity); rewrite Hd end.
      split.
      + cbn. split; [|repeat split; reflexivity || (unfold u32_max, u16_max; lia)].
        repeat (constructor; [cbn; intuition discriminate|]). constructor.
      + vm_compute. lia.
    - unfold LoadsMultiMixed.part_ok. cbn [mp_xref]. apply ex_trailer_dom_x. reflexivity. }
  split.
  { apply (Forall_impl _ (LoadsMultiFull.top_ok_ok2 ex_adoc)). unfold LoadsTableProofs.tops. cbn [a_objs ex_adoc map fst snd].
    constructor; [|constructor; [|constructor]].
    + cbn. split; [lia|]. split; [unfold u16_max; lia|]. split; [|lia]. split.
      * constructor; [intros [H|[]]; discriminate|]. constructor; [intros []|constructor].
      * split; [exact I|]. split; [exact Hr|exact I].
    + cbn. split; [lia|]. split; [unfold u16_max; lia|]. split.
      * split; [constructor; [intros []|constructor]|]. split; [reflexivity|exact I].
      * split; [lia|]. split; reflexivity. }
  split; [vm_compute; discriminate|]. split; [repeat split; reflexivity|].
  split; [vm_compute; discriminate|]. split; [vm_compute; discriminate|]. vm_compute; reflexivity.
Qed.

(* ---------- the same chain with a FILTER CHAIN on the cross-reference stream: ASCII85 around Flate with a PNG predictor ---------- *)
Definition ex_xs_f : xsstyle :=
  {| xs_id := 9; xs_w := (0%nat, 1%nat, 0%nat); xs_secs := [(3, 1); (7, 1); (9, 1)]; xs_omit_index := false;
     xs_filter := SfA85Flate 3 (Some {| p_pred := 2; p_cols := 0; p_types := [4; 1; 3]; p_colors := 1; p_bpc16 := false; p_explicit := true |});
     xs_array := true; xs_istyle := xs_istyle ex_xs_m |}.
Definition ex_parts_f : list mpart :=
  [{| mp_nums := [3]; mp_old := [(7, ODict [(bs "Type", OName (bs "Old"))])]; mp_relist := []; mp_order := [7; 3];
      mp_xref := XStream ex_xs_f; mp_sx := (ELF, 0%nat, 0%nat, ELF, None) |};
   {| mp_nums := [7]; mp_old := []; mp_relist := [3]; mp_order := [];
      mp_xref := XTable ex_tstyle_m2; mp_sx := (ECRLF, 1%nat, 2%nat, ECR, Some ELF) |}].

Theorem example_loads_multi_filtered :
  exists file, ref_write_multi ex_fstyle ex_parts_f ex_adoc = Some file /\
               LoadsMultiMixedFull.multi_dom_mixed LoadsFilterProofs.decompress_ref LoadsFilterProofs.can_ref ex_fstyle ex_parts_f ex_adoc file.
Proof.
  eexists. split; [vm_compute; reflexivity|].
  assert (Hr : real_wf (bs "2.5")) by (exists false, (bs "2"), (bs "5"); repeat split; try reflexivity; discriminate).
  split; [reflexivity|]. split.
  { cbn [LoadsMultiMixed.parts_ok ex_parts_f].
    split; [|split; [intro K; discriminate K|split; [|split; [intros _; vm_compute; lia|exact I]]]].
    - unfold LoadsMultiMixed.part_ok. cbn [mp_xref]. split.
      { right. split; [reflexivity|]. split; [reflexivity|]. split; [vm_compute; discriminate|reflexivity]. }
      split; [left; reflexivity|].
      match goal with |- spell_wf (ODict ?d) _ /\ _ =>
        let v := eval vm_compute in d in assert (Hd : d = v) by (vm_compute; reflexivity); rewrite Hd end.
      split.
      + cbn.
        repeat match goal with
               | |- _ /\ _ => split
               | |- NoDup _ => repeat (constructor; [cbn; intuition discriminate|]); constructor
               | |- True => exact I
               | |- _ = true => reflexivity
               | |- _ <= _ => unfold u32_max, u16_max; lia
               end.
      + vm_compute. lia.
    - unfold LoadsMultiMixed.part_ok. cbn [mp_xref]. apply ex_trailer_dom_x. reflexivity. }
  split.
  { apply (Forall_impl _ (LoadsMultiFull.top_ok_ok2 ex_adoc)). unfold LoadsTableProofs.tops. cbn [a_objs ex_adoc map fst snd].
    constructor; [|constructor; [|constructor]].
    + cbn. split; [lia|]. split; [unfold u16_max; lia|]. split; [|lia]. split.
      * constructor; [intros [H|[]]; discriminate|]. constructor; [intros []|constructor].
      * split; [exact I|]. split; [exact Hr|exact I].
    + cbn. split; [lia|]. split; [unfold u16_max; lia|]. split.
      * split; [constructor; [intros []|constructor]|]. split; [reflexivity|exact I].
      * split; [lia|]. split; reflexivity. }
  split; [vm_compute; discriminate|]. split; [repeat split; reflexivity|].
  split; [vm_compute; discriminate|]. split; [vm_compute; discriminate|]. vm_compute; reflexivity.
Qed.

(* ---------- a Length reference ACROSS parts: the stream (object 3) is in part 1, its Length "4 0 R" names the integer object 4
   of part 2; part 1 ends with the filtered cross-reference stream, part 2 with a table ---------- *)
Definition ex_adoc_rl : adoc :=
  {| a_version := bs "1.4";
     a_trailer := [(bs "Root", ORef 7 0)];
     a_objs := [((7, 0), ODict [(bs "Type", OName (bs "Catalog")); (bs "V", OReal (bs "2.5"))]);
                ((3, 2), OStream [(bs "Length", ORef 4 0)] (bs "a(b" ++ [x0d; x0a])); ((4, 0), OInt 5)] |}.
Definition ex_tstyle_m3 : tstyle :=
  {| t_secs := [(3, 2); (7, 1)]; t_eols := [1]; t_kw_eol := ELF; t_sec_eols := [ECR]; t_sec_sp := [false];
     t_f1 := []; t_trailer := YDefault; t_f2 := [] |}.
Definition ex_parts_rl : list mpart :=
  [{| mp_nums := [3]; mp_old := [(7, ODict [(bs "Type", OName (bs "Old"))])]; mp_relist := []; mp_order := [7; 3];
      mp_xref := XStream ex_xs_f; mp_sx := (ELF, 0%nat, 0%nat, ELF, None) |};
   {| mp_nums := [7; 4]; mp_old := []; mp_relist := [3]; mp_order := [];
      mp_xref := XTable ex_tstyle_m3; mp_sx := (ECRLF, 1%nat, 2%nat, ECR, Some ELF) |}].

Lemma ex_trailer_dom_rl t : t_trailer t = YDefault -> LoadsMultiMixed.trailer_dom ex_adoc_rl t.
Proof. exact (ex_trailer_dom_x t). Qed.

Theorem example_loads_multi_reflen :
  exists file, ref_write_multi ex_fstyle ex_parts_rl ex_adoc_rl = Some file /\
               LoadsMultiMixedFull.multi_dom_mixed LoadsFilterProofs.decompress_ref LoadsFilterProofs.can_ref ex_fstyle ex_parts_rl ex_adoc_rl file.
Proof.
  eexists. split; [vm_compute; reflexivity|].
  assert (Hr : real_wf (bs "2.5")) by (exists false, (bs "2"), (bs "5"); repeat split; try reflexivity; discriminate).
  split; [reflexivity|]. split.
  { cbn [LoadsMultiMixed.parts_ok ex_parts_rl].
    split; [|split; [intro K; discriminate K|split; [|split; [intros _; vm_compute; lia|exact I]]]].
    - unfold LoadsMultiMixed.part_ok. cbn [mp_xref]. split.
      { right. split; [reflexivity|]. split; [reflexivity|]. split; [vm_compute; discriminate|reflexivity]. }
      split; [left; reflexivity|].
      match goal with |- spell_wf (ODict ?d) _ /\ _ =>
        let v := eval vm_compute in d in assert (Hd : d = v) by (vm_compute; reflexivity); rewrite Hd end.
      split.
      + cbn.
        repeat match goal with
               | |- _ /\ _ => split
               | |- NoDup _ => repeat (constructor; [cbn; intuition discriminate|]); constructor
               | |- True => exact I
               | |- _ = true => reflexivity
               | |- _ <= _ => unfold u32_max, u16_max; lia
               end.
      + vm_compute. lia.
    - unfold LoadsMultiMixed.part_ok. cbn [mp_xref]. apply ex_trailer_dom_rl. reflexivity. }
  split.
  { unfold LoadsTableProofs.tops. cbn [a_objs ex_adoc_rl map fst snd].
    (constructor; [|constructor; [|constructor; [|constructor]]]); cbn;
      repeat match goal with
             | |- _ /\ _ => split
             | |- NoDup _ => repeat (constructor; [cbn; intuition discriminate|]); constructor
             | |- True => exact I
             | |- real_wf _ => exact Hr
             | |- _ = true => reflexivity
             | |- _ = false => reflexivity
             | |- (_ <= _)%nat => vm_compute; lia
             | |- _ <= _ => unfold u32_max, u16_max; lia
             | |- _ \/ _ => right; exists 4, 0; split; [reflexivity|]; right; right; left; reflexivity
             end. }
  split; [vm_compute; discriminate|]. split; [repeat split; reflexivity|].
  split; [vm_compute; discriminate|]. split; [vm_compute; discriminate|]. vm_compute; reflexivity.
Qed.
