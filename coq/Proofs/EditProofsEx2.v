(* EditProofsEx2.v -- C11: concrete instances of the hypotheses of the content / resource theorems (non-vacuity). *)
From LV Require Import Base.Bytes Model.Obj Model.DocQ Model.PageTree Model.Traverse Model.Edit Model.StreamFilt
  Spec.AbstractDoc Proofs.RenumberProofsMap Proofs.EditProofs Proofs.EditProofsEx Proofs.EditProofsContent
  Proofs.EditProofsContent2 Proofs.EditProofsDecode Proofs.EditProofsRes Proofs.FilterProofsDict.

Definition ex_page3 : dict := [(K_Type, OName K_Page); (K_Parent, ORef 2 0); (K_Contents, ORef 5 0)]%N.

(* change_page_content on page 3 of ex_doc (Contents = 5 0 R, a stream): every hypothesis of cpc_shows_new_content holds
   for the content "BT ET" under the identity codec, and the conclusion is what the model computes *)
Lemma cpc_example :
  doc_wf ex_doc /\ alloc_ok ex_doc /\ (d_max_id ex_doc < Renumber.U32_MAX)%N /\
  (forall id sd c0, lookup (d_objects ex_doc) id = Some (OStream sd c0) -> dict_wf sd) /\
  o_inflate O0 (o_deflate O0 (bs "BT ET")) = bs "BT ET" /\ o_deflate O0 (bs "BT ET") <> [] /\
  lookup (d_objects ex_doc) (3, 0)%N = Some (ODict ex_page3) /\ plain_contents (d_objects ex_doc) ex_page3 /\
  dict_get ex_page3 K_Contents = Some (ORef 5 0) /\
  page_content (decode_c09 O0) (d_objects (fst (change_page_content O0 ex_doc (3, 0)%N (bs "BT ET")))) (3, 0)%N = Some (bs "BT ET").
Proof.
  split; [apply doc_wfb_ok; vm_compute; reflexivity|].
  split; [apply alloc_okb_ok; vm_compute; reflexivity|].
  split; [vm_compute; reflexivity|].
  split.
  { intros [i g] sd c0. cbn [ex_doc d_objects lookup].
    repeat (match goal with |- context [oid_eqb ?a (i, g)] => destruct (oid_eqb a (i, g)) end; try discriminate).
    intro H; inversion H; subst. unfold dict_wf, keys. cbn. repeat constructor. intros []. }
  split; [reflexivity|]. split; [discriminate|].
  split; [reflexivity|].
  split; [exists 5%N, 0%N, [(K_Length, OInt 3)], (bs "q Q"); split; reflexivity|].
  split; [reflexivity|]. vm_compute. reflexivity.
Qed.

(* add_xobject on page 3 (which only inherits Resources): the XObject category is not indirect *)
Lemma res_example : ~ category_indirect ex_doc (3, 0)%N K_XObject.
Proof. vm_compute. intros [i [g H]]. discriminate H. Qed.
