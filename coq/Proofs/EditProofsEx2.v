(* EditProofsEx2.v -- C11: concrete instances of the hypotheses of the content / resource theorems (non-vacuity). *)
From LV Require Import Base.Bytes Model.Obj Model.DocQ Model.PageTree Model.Traverse Model.Edit Model.StreamFilt
  Spec.AbstractDoc Proofs.RenumberProofsMap Proofs.EditProofs Proofs.EditProofsEx Proofs.EditProofsContent
  Proofs.EditProofsContent2 Proofs.EditProofsDecode Proofs.EditProofsRes Proofs.FilterProofsDict Proofs.EditProofsKF.

(* page 3 behind a reference object (9 0 obj 3 0 R), its Contents an indirect array (8 0 obj [5 0 R]) of the stream 5 that no
   other page shows: the shapes the repaired change_page_content / add_page_contents resolve *)
Definition ex_page3 : dict := [(K_Type, OName K_Page); (K_Parent, ORef 2 0); (K_Contents, ORef 8 0)]%N.
Definition ex_doc_solo : doc :=
  {| d_version := d_version ex_doc; d_binary_mark := []; d_trailer := d_trailer ex_doc;
     d_objects := insert (insert (insert (insert (d_objects ex_doc) (3, 0)%N (ODict ex_page3))
                                         (4, 0)%N (ODict [(K_Type, OName K_Page); (K_Parent, ORef 2 0)]))
                                 (8, 0)%N (OArr [ORef 5 0]))
                         (9, 0)%N (ORef 3 0);
     d_max_id := 9 |}.

(* change_page_content on that page: every hypothesis of cpc_shows_new_content holds
   for the content "BT ET" under the identity codec; the stream 5 is rewritten in place and the page shows the new content *)
Lemma cpc_example :
  alloc_ok ex_doc_solo /\ (d_max_id ex_doc_solo < Renumber.U32_MAX)%N /\
  (forall id sd c0, lookup (d_objects ex_doc_solo) id = Some (OStream sd c0) -> dict_wf sd) /\
  o_inflate O0 (o_deflate O0 (bs "BT ET")) = bs "BT ET" /\ o_deflate O0 (bs "BT ET") <> [] /\
  get_dictionary (d_objects ex_doc_solo) (3, 0)%N = Some ex_page3 /\
  dict_get ex_page3 K_Contents = Some (ORef 8 0) /\
  single_stream (d_objects ex_doc_solo) (ORef 8 0) = Some (5, 0)%N /\
  is_content_stream_of_another_page ex_doc_solo (5, 0)%N (3, 0)%N = false /\
  let d' := fst (change_page_content O0 ex_doc_solo (3, 0)%N (bs "BT ET")) in
  page_content (decode_c09 O0) (d_objects d') (3, 0)%N = Some (bs "BT ET") /\
  lookup (d_objects d') (5, 0)%N = Some (OStream [(K_Length, OInt 5)] (bs "BT ET")) /\ d_max_id d' = 9%N.
Proof.
  split; [apply alloc_okb_ok; vm_compute; reflexivity|].
  split; [vm_compute; reflexivity|].
  split.
  { intros [i g] sd c0. unfold ex_doc_solo. cbn [d_objects]. rewrite !lookup_insert. cbn [ex_doc d_objects lookup].
    repeat (match goal with |- context [oid_eqb ?a (i, g)] => destruct (oid_eqb a (i, g)) end; try discriminate).
    intro H; inversion H; subst. unfold dict_wf, keys. cbn. repeat constructor. intros []. }
  split; [reflexivity|]. split; [discriminate|].
  split; [vm_compute; reflexivity|]. split; [reflexivity|]. split; [vm_compute; reflexivity|]. split; [vm_compute; reflexivity|].
  cbv zeta. repeat split; vm_compute; reflexivity.
Qed.

(* add_page_contents on the same page, named through the reference object 9: the hypothesis of add_page_contents_content (a defined content) holds, and the model
   computes the conclusion *)
Lemma apc_example :
  page_content decode0 (d_objects ex_doc_solo) (9, 0)%N = Some (bs "q Q") /\
  let d' := fst (add_page_contents ex_doc_solo (9, 0)%N (bs "BT ET")) in
  page_content decode0 (d_objects d') (9, 0)%N = Some (bs "q Q" ++ bs "BT ET") /\
  page_content decode0 (d_objects d') (3, 0)%N = Some (bs "q Q" ++ bs "BT ET") /\
  page_content decode0 (d_objects d') (4, 0)%N = Some [].
Proof. cbv zeta. repeat split; vm_compute; reflexivity. Qed.

(* add_xobject on page 3 (which only inherits Resources): the XObject category is not indirect *)
Lemma res_example : ~ category_indirect ex_doc (3, 0)%N K_XObject.
Proof. vm_compute. intros [i [g H]]. discriminate H. Qed.
