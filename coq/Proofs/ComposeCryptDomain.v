(* ComposeCryptDomain.v -- Document::encrypt keeps a document inside the writer's domain (property C01's [savable]),
   so that the composition encrypt -> save -> load -> decrypt (Proofs/ComposeCrypt.v) needs no hypothesis on the
   ENCRYPTED document other than its file size.

     enc_wf / enc_top_wf      encrypt_object returns a well-formed object on a well-formed one: strings become strings
                              (any bytes), keys are kept, Stream::set_content writes Length = length of the ciphertext;
     enc_type_name            it does not change Type / Linearized (no object the writer drops appears);
     enc_nest                 it does not deepen the container nesting;
     encode_wf, encode_not_skipped, encode_nest
                              the dictionary EncryptionState::encode writes: i64 integers, names, strings, the CF
                              dictionary of dictionaries (depth 3), no Type entry;
     insert_last              add_object puts the encryption dictionary after every object (max_id_ok);
     stream_content_small     a stream body inside a file below 4 GiB is shorter than 4 GiB (for Length : i64);
     encrypt_preserves_savable, encrypt_save_load_decrypt_dom   the two theorems (statements repeated in Props/C05.v). *)
From LV Require Import Base.Bytes Base.Sx Model.Obj Model.DocQ Model.Writer Model.Parser Model.Save Model.Xref
  Model.Loader Model.LoaderExt Model.LoaderEnc Model.LoaderCrypt Gen.Crypto Model.Crypto.Handler
  Proofs.RealProofs Proofs.ObjectRtProofs Proofs.SaveProofs Spec.SaveSpec Proofs.LoadProofs Proofs.LoadProofsXref
  Proofs.LoadProofsFull Proofs.FilterProofsDict Proofs.CryptoProofsFilter Proofs.CryptoProofsObject Proofs.CryptoProofsDoc
  Proofs.CryptoProofsAuth Proofs.IsoProofs Proofs.IsoProofsDoc Proofs.IsoProofsDoc2 Proofs.IsoProofsDoc7 Proofs.ComposeCrypt.

Local Open Scope N_scope.

(* ---------- small facts about lists ---------- *)
Lemma Forall2_in_r {A B} (R : A -> B -> Prop) l l' b :
  Forall2 R l l' -> In b l' -> exists a, In a l /\ R a b.
Proof.
  induction 1 as [|a0 b0 l l' H0 _ IH]; cbn [In]; [contradiction|]. intros [E|Hin].
  - subst b0. exists a0. split; [left; reflexivity | exact H0].
  - destruct (IH Hin) as [a [Ha HR]]. exists a. split; [right; exact Ha | exact HR].
Qed.

Lemma wf_dict_set d k v : obj_wf (ODict d) -> obj_wf v -> obj_wf (ODict (dict_set d k v)).
Proof.
  intros Hd Hv. inversion Hd as [| | | | | | |d0 ND Wf|]; subst. constructor.
  - apply (dict_set_wf d k v ND).
  - clear ND Hd. induction Wf as [|[k0 x] d Hx Hd' IH]; cbn [dict_set]; [constructor; [exact Hv | constructor]|].
    destruct (bytes_eqb k0 k); constructor; try assumption; try exact Hv.
Qed.

Lemma obj_wf_top_wf o : obj_wf o -> top_wf o.
Proof. destruct o; cbn [top_wf]; try (intro H; exact H). intro H. inversion H. Qed.

Lemma nest_dict_set_le d k v n : (nest_dict d <= n)%nat -> (nest v <= n)%nat -> (nest_dict (dict_set d k v) <= n)%nat.
Proof.
  unfold nest_dict. induction d as [|[k0 x] d IH]; cbn [dict_set fold_right snd]; intros Hd Hv; [lia|].
  destruct (bytes_eqb k0 k); cbn [fold_right snd]; [lia|].
  assert (fold_right (fun kv m => Nat.max (nest (snd kv)) m) 0%nat (dict_set d k v) <= n)%nat by (apply IH; lia). lia.
Qed.

Lemma get_type_view d d' :
  (forall k, option_map namef (dict_get d' k) = option_map namef (dict_get d k)) -> get_type d' = get_type d.
Proof.
  intro H. unfold get_type, dict_has. pose proof (H K_Type) as HT. pose proof (H K_Linearized) as HL.
  assert (EL : match dict_get d' K_Linearized with Some _ => true | None => false end =
               match dict_get d K_Linearized with Some _ => true | None => false end).
  { destruct (dict_get d K_Linearized), (dict_get d' K_Linearized); cbn [option_map] in HL; try discriminate; reflexivity. }
  rewrite EL.
  destruct (dict_get d K_Type) as [y|], (dict_get d' K_Type) as [y'|]; cbn [option_map] in HT; try discriminate; [|reflexivity].
  inversion HT as [E]. destruct y, y'; cbn [namef] in E; try discriminate; try reflexivity. inversion E; reflexivity.
Qed.

Lemma get_type_set_other d k v : k <> K_Type -> k <> K_Linearized -> get_type (dict_set d k v) = get_type d.
Proof. intros H1 H2. unfold get_type, dict_has. rewrite !dget_set_other by assumption. reflexivity. Qed.

(* ---------- encrypt_object on one object ---------- *)
Section EncObj.
  Variables (P : prims) (st : estate) (id : oid).

  Lemma enc_dict_keys d : forall ivs d' ivs', enc_dict P st id d ivs = Ok (d', ivs') -> map fst d' = map fst d.
  Proof.
    induction d as [|[k x] d IH]; intros ivs d' ivs' H.
    - inversion H; reflexivity.
    - cbn [enc_dict] in H. apply rbind_ok in H. destruct H as [[x' ivs1] [H1 H]].
      apply rbind_ok in H. destruct H as [[d1 ivs2] [H2 H]]. inversion H; subst. cbn [fst snd map]. f_equal.
      eapply IH; exact H2.
  Qed.

  Lemma enc_list_wf l :
    Forall (fun x => obj_wf x -> forall ivs x' ivs', encrypt_object P st id x ivs = Ok (x', ivs') -> obj_wf x') l ->
    Forall obj_wf l -> forall ivs l' ivs', enc_list P st id l ivs = Ok (l', ivs') -> Forall obj_wf l'.
  Proof.
    induction 1 as [|x l Hx _ IH]; intros W ivs l' ivs' H.
    - inversion H; constructor.
    - cbn [enc_list] in H. apply rbind_ok in H. destruct H as [[x' ivs1] [H1 H]].
      apply rbind_ok in H. destruct H as [[l1 ivs2] [H2 H]]. inversion H; subst. cbn [fst snd] in *.
      inversion W; subst. constructor; [eapply Hx; eassumption | eapply IH; eassumption].
  Qed.

  Lemma enc_dict_wf_aux d :
    Forall (fun kv => obj_wf (snd kv) -> forall ivs x' ivs', encrypt_object P st id (snd kv) ivs = Ok (x', ivs') -> obj_wf x') d ->
    Forall (fun kv => obj_wf (snd kv)) d ->
    forall ivs d' ivs', enc_dict P st id d ivs = Ok (d', ivs') -> Forall (fun kv => obj_wf (snd kv)) d'.
  Proof.
    induction 1 as [|[k x] d Hx _ IH]; intros W ivs d' ivs' H.
    - inversion H; constructor.
    - cbn [enc_dict] in H. apply rbind_ok in H. destruct H as [[x' ivs1] [H1 H]].
      apply rbind_ok in H. destruct H as [[d1 ivs2] [H2 H]]. inversion H; subst. cbn [fst snd] in *.
      inversion W; subst. constructor; [cbn [snd] in *; eapply Hx; eassumption | eapply IH; eassumption].
  Qed.

  (* a well-formed direct object stays one: ciphertext strings are strings, keys are kept *)
  Lemma enc_wf o : obj_wf o -> forall ivs o' ivs', encrypt_object P st id o ivs = Ok (o', ivs') -> obj_wf o'.
  Proof.
    induction o as [|b|z|r|n|s h|l Hl|d Hd|d c Hd|i g] using obj_ind5; intros W ivs o' ivs' H;
      rewrite encrypt_object_eq in H;
      cbn [skip_object Handler.is_xref_stream is_metadata_stream andb orb enc_body] in H;
      try (inversion H; subst; exact W).
    - apply rbind_ok in H. destruct H as [[ct iv1] [_ H]]. inversion H; subst. constructor.
    - apply rbind_ok in H. destruct H as [[l' iv1] [H1 H]]. inversion H; subst. cbn [fst].
      inversion W; subst. constructor. eapply enc_list_wf; eassumption.
    - apply rbind_ok in H. destruct H as [[d' iv1] [H1 H]]. inversion H; subst. cbn [fst].
      inversion W as [| | | | | | |d0 ND Wf|]; subst. constructor.
      + rewrite (enc_dict_keys _ _ _ _ H1). exact ND.
      + eapply enc_dict_wf_aux; eassumption.
    - inversion W.
  Qed.

  Lemma enc_dict_wf d ivs d' ivs' : obj_wf (ODict d) -> enc_dict P st id d ivs = Ok (d', ivs') -> obj_wf (ODict d').
  Proof.
    intros W H. apply (enc_wf (ODict d) W ivs (ODict d') ivs'). rewrite encrypt_object_eq.
    cbn [skip_object Handler.is_xref_stream is_metadata_stream andb orb enc_body]. rewrite H. reflexivity.
  Qed.

  (* an indirect object: Stream::set_content writes the length of the ciphertext into Length *)
  Lemma enc_top_wf o ivs o' ivs' :
    top_wf o -> encrypt_object P st id o ivs = Ok (o', ivs') ->
    (forall dd c, o' = OStream dd c -> in_i64 (Z.of_nat (length c)) = true) -> top_wf o'.
  Proof.
    intros W H L. destruct o as [|b|z|r|n|s h|l|d|d c|i g];
      try (apply obj_wf_top_wf; eapply enc_wf; [exact W | exact H]).
    rewrite encrypt_object_eq in H. destruct (skip_object st (OStream d c)); [inversion H; subst; exact W|].
    cbn [enc_body] in H. apply rbind_ok in H. destruct H as [[d1 iv1] [H1 H]].
    apply rbind_ok in H. destruct H as [[ct iv2] [_ H]]. inversion H; subst. cbn [fst snd] in *.
    destruct W as [Wd _]. unfold set_content. cbn [top_wf]. split; [|apply dget_set_same].
    apply wf_dict_set; [eapply enc_dict_wf; eassumption|]. constructor. eapply L. reflexivity.
  Qed.

  (* Type / Linearized are not touched: names are not encrypted, keys are kept, set_content writes Length only *)
  Lemma enc_type_name o ivs o' ivs' : encrypt_object P st id o ivs = Ok (o', ivs') -> type_name o' = type_name o.
  Proof.
    rewrite encrypt_object_eq. destruct (skip_object st o); [intro H; inversion H; reflexivity|].
    destruct o as [|b|z|r|n|s h|l|d|d c|i g]; cbn [enc_body]; intro H; try (inversion H; subst; reflexivity).
    - apply rbind_ok in H. destruct H as [a [_ H]]. inversion H; reflexivity.
    - apply rbind_ok in H. destruct H as [a [_ H]]. inversion H; reflexivity.
    - apply rbind_ok in H. destruct H as [[d' iv1] [H1 H]]. inversion H; subst. cbn [fst type_name].
      apply get_type_view. intro k. apply (enc_dict_views _ _ _ _ _ _ _ H1 k).
    - apply rbind_ok in H. destruct H as [[d1 iv1] [H1 H]].
      apply rbind_ok in H. destruct H as [[ct iv2] [_ H]]. inversion H; subst. cbn [fst snd]. unfold set_content. cbn [type_name].
      rewrite get_type_set_other by discriminate.
      apply get_type_view. intro k. apply (enc_dict_views _ _ _ _ _ _ _ H1 k).
  Qed.

  Lemma enc_skipped o ivs o' ivs' : encrypt_object P st id o ivs = Ok (o', ivs') -> skipped o' = skipped o.
  Proof. intro H. unfold skipped. rewrite (enc_type_name _ _ _ _ H). reflexivity. Qed.

  (* the container nesting does not grow *)
  Lemma enc_list_nest l :
    Forall (fun x => forall ivs x' ivs', encrypt_object P st id x ivs = Ok (x', ivs') -> (nest x' <= nest x)%nat) l ->
    forall ivs l' ivs', enc_list P st id l ivs = Ok (l', ivs') -> (nest_list l' <= nest_list l)%nat.
  Proof.
    unfold nest_list. induction 1 as [|x l Hx _ IH]; intros ivs l' ivs' H.
    - inversion H; subst. cbn [fold_right]. lia.
    - cbn [enc_list] in H. apply rbind_ok in H. destruct H as [[x' ivs1] [H1 H]].
      apply rbind_ok in H. destruct H as [[l1 ivs2] [H2 H]]. inversion H; subst. cbn [fst snd fold_right] in *.
      specialize (Hx _ _ _ H1). specialize (IH _ _ _ H2). lia.
  Qed.

  Lemma enc_dict_nest d :
    Forall (fun kv => forall ivs x' ivs', encrypt_object P st id (snd kv) ivs = Ok (x', ivs') -> (nest x' <= nest (snd kv))%nat) d ->
    forall ivs d' ivs', enc_dict P st id d ivs = Ok (d', ivs') -> (nest_dict d' <= nest_dict d)%nat.
  Proof.
    unfold nest_dict. induction 1 as [|[k x] d Hx _ IH]; intros ivs d' ivs' H.
    - inversion H; subst. cbn [fold_right]. lia.
    - cbn [enc_dict] in H. apply rbind_ok in H. destruct H as [[x' ivs1] [H1 H]].
      apply rbind_ok in H. destruct H as [[d1 ivs2] [H2 H]]. inversion H; subst. cbn [fst snd fold_right] in *.
      specialize (Hx _ _ _ H1). specialize (IH _ _ _ H2). lia.
  Qed.

  Lemma enc_nest o : forall ivs o' ivs', encrypt_object P st id o ivs = Ok (o', ivs') -> (nest o' <= nest o)%nat.
  Proof.
    induction o as [|b|z|r|n|s h|l Hl|d Hd|d c Hd|i g] using obj_ind5; intros ivs o' ivs' H;
      rewrite encrypt_object_eq in H;
      (destruct (skip_object st _); [inversion H; subst; lia|]); cbn [enc_body] in H;
      try (inversion H; subst; lia).
    - apply rbind_ok in H. destruct H as [a [_ H]]. inversion H; subst. cbn [nest]. lia.
    - apply rbind_ok in H. destruct H as [[l' iv1] [H1 H]]. inversion H; subst. cbn [fst].
      change (S (nest_list l') <= S (nest_list l))%nat. pose proof (enc_list_nest l Hl _ _ _ H1). lia.
    - apply rbind_ok in H. destruct H as [[d' iv1] [H1 H]]. inversion H; subst. cbn [fst].
      change (S (nest_dict d') <= S (nest_dict d))%nat. pose proof (enc_dict_nest d Hd _ _ _ H1). lia.
    - apply rbind_ok in H. destruct H as [[d1 iv1] [H1 H]].
      apply rbind_ok in H. destruct H as [[ct iv2] [_ H]]. inversion H; subst. cbn [fst snd]. unfold set_content.
      change (S (nest_dict (dict_set d1 K_Length (OInt (Z.of_nat (length ct))))) <= S (nest_dict d))%nat.
      pose proof (enc_dict_nest d Hd _ _ _ H1).
      assert (nest_dict (dict_set d1 K_Length (OInt (Z.of_nat (length ct)))) <= nest_dict d)%nat
        by (apply nest_dict_set_le; [assumption | cbn [nest]; lia]).
      lia.
  Qed.

  (* the loop of Document::encrypt over the objects, object by object *)
  Lemma encrypt_objects_forall2 m : forall ivs m' ivs',
    encrypt_objects P st m ivs = Ok (m', ivs') ->
    Forall2 (fun io io' : oid * obj =>
               fst io' = fst io /\ exists iv iv', encrypt_object P st (fst io) (snd io) iv = Ok (snd io', iv')) m m'.
  Proof.
    induction m as [|[i o] m IH]; intros ivs m' ivs' H.
    - inversion H; constructor.
    - cbn [encrypt_objects] in H. apply rbind_ok in H. destruct H as [[o' ivs1] [H1 H]].
      apply rbind_ok in H. destruct H as [[m1 ivs2] [H2 H]]. inversion H; subst. cbn [fst snd] in *.
      constructor; [|eapply IH; exact H2]. cbn [fst snd]. split; [reflexivity|]. exists ivs, ivs1. exact H1.
  Qed.
End EncObj.

(* ---------- the dictionary EncryptionState::encode writes ---------- *)
(* the integers of the state are i64 values (V, R, Length, P: by type in lopdf) *)
Record st_i64 (st : estate) : Prop := {
  si_version : in_i64 (es_version st) = true;
  si_revision : in_i64 (es_revision st) = true;
  si_length : forall l, es_key_length st = Some l -> in_i64 (Z.of_N l) = true;
  si_perms : in_i64 (p_value_i64 (es_perms st)) = true;
}.

Definition cf_entry (nf : bytes * cfm) : obj :=
  ODict (dict_set (dict_set [] K_Type (OName N_CryptFilter)) K_CFM (OName (cfm_method (snd nf)))).

Lemma wf_empty : obj_wf (ODict []).
Proof. constructor; constructor. Qed.

Lemma cf_entry_wf nf : obj_wf (cf_entry nf).
Proof. unfold cf_entry. apply wf_dict_set; [apply wf_dict_set; [apply wf_empty | constructor] | constructor]. Qed.

Lemma cf_fold_wf (cfs : cfmap) : forall acc,
  obj_wf (ODict acc) -> obj_wf (ODict (fold_left (fun fs nf => dict_set fs (fst nf) (cf_entry nf)) cfs acc)).
Proof.
  induction cfs as [|nf cfs IH]; intros acc H; [exact H|]. cbn [fold_left]. apply IH.
  apply wf_dict_set; [exact H | apply cf_entry_wf].
Qed.

Lemma cf_fold_nest (cfs : cfmap) : forall acc,
  (nest_dict acc <= 1)%nat -> (nest_dict (fold_left (fun fs nf => dict_set fs (fst nf) (cf_entry nf)) cfs acc) <= 1)%nat.
Proof.
  induction cfs as [|nf cfs IH]; intros acc H; [exact H|]. cbn [fold_left]. apply IH.
  apply nest_dict_set_le; [exact H|]. vm_compute. lia.
Qed.

Lemma encode_wf st : st_i64 st -> obj_wf (ODict (encode st)).
Proof.
  intros [Hv Hr Hl Hp]. unfold encode. fold cf_entry. cbv zeta.
  destruct (es_key_length st) as [l|]; [specialize (Hl l eq_refl)|];
  repeat first
    [ apply wf_dict_set
    | match goal with
      | |- obj_wf (ODict (match ?x with Some _ => _ | None => _ end)) => destruct x
      | |- obj_wf (ODict (if ?b then _ else _)) => destruct b
      | |- obj_wf (ODict (fold_left _ _ _)) => apply cf_fold_wf
      | |- obj_wf (ODict []) => apply wf_empty
      | |- obj_wf (OInt _) => constructor; assumption
      | |- obj_wf (OName _) => constructor
      | |- obj_wf (OStr _ _) => constructor
      | |- obj_wf (OBool _) => constructor
      end ].
Qed.

Definition encode_keys : list bytes :=
  [K_Filter; K_V; K_R; K_Length; K_EncryptMetadata; K_O; K_U; K_P; K_CF; K_StmF; K_StrF; K_EFF; K_OE; K_UE; K_Perms].

Lemma encode_get_none st k : ~ In k encode_keys -> dict_get (encode st) k = None.
Proof.
  intro H. unfold encode. cbv zeta.
  repeat first
    [ reflexivity
    | rewrite dget_set_other by (intro E; apply H; rewrite <- E; unfold encode_keys; cbn [In]; repeat first [left; reflexivity | right])
    | match goal with
      | |- dict_get (match ?x with Some _ => _ | None => _ end) _ = _ => destruct x
      | |- dict_get (if ?b then _ else _) _ = _ => destruct b
      end ].
Qed.

(* no Type, no Linearized entry: the writer does not drop the encryption dictionary *)
Lemma encode_not_skipped st : skipped (ODict (encode st)) = false.
Proof.
  unfold skipped, type_name, get_type, dict_has.
  rewrite !encode_get_none by (unfold encode_keys; cbn [In]; intuition discriminate). reflexivity.
Qed.

(* the dictionary, the CF dictionary in it, the crypt filter dictionaries in that one *)
Lemma encode_nest st : (nest (ODict (encode st)) <= 3)%nat.
Proof.
  change (S (nest_dict (encode st)) <= 3)%nat. enough (nest_dict (encode st) <= 2)%nat by lia.
  unfold encode. fold cf_entry. cbv zeta.
  repeat first
    [ apply nest_dict_set_le
    | match goal with
      | |- (nest_dict (match ?x with Some _ => _ | None => _ end) <= _)%nat => destruct x
      | |- (nest_dict (if ?b then _ else _) <= _)%nat => destruct b
      | |- (nest_dict [] <= _)%nat => cbn; lia
      | |- (nest (ODict (fold_left ?f ?l ?a)) <= 2)%nat =>
        change (S (nest_dict (fold_left f l a)) <= 2)%nat; apply le_n_S; apply cf_fold_nest; cbn; lia
      | |- (nest _ <= _)%nat => cbn [nest]; lia
      end ].
Qed.

(* EncryptionState::try_from(version) makes such a state *)
Lemma perms_i64_sweep : below_nat 4096 (fun f => in_i64 (p_value_i64 (N.land f 3900))) = true.
Proof. vm_compute. reflexivity. Qed.

Lemma perms_i64 perms : perms_ok perms -> in_i64 (p_value_i64 perms) = true.
Proof.
  unfold perms_ok. change PERM_FLAGS with 3900. intro H.
  assert (Hlt : perms < 4096) by (rewrite <- H; apply (land_small_mod _ 3900 12); reflexivity).
  pose proof (below_nat_spec _ _ perms_i64_sweep perms Hlt) as Hs. cbv beta in Hs. rewrite H in Hs. exact Hs.
Qed.

Lemma in_i64_small l : l <= 128 -> in_i64 (Z.of_N l) = true.
Proof. intro H. unfold in_i64, i64_min, i64_max. apply andb_true_intro. split; apply Z.leb_le; lia. Qed.

Lemma try_from_r4_i64 P d em len v r perms owner user rnd cfs stmf strf st :
  in_i64 v = true -> in_i64 r = true -> (forall l, len = Some l -> l <= 128) -> perms_ok perms ->
  try_from_r4 P d (palg0 em len v r perms) owner user rnd cfs stmf strf = Ok st -> st_i64 st.
Proof.
  intros Hv Hr Hl Hp H. unfold try_from_r4 in H.
  apply rbind_ok in H. destruct H as [o [_ H]]. apply rbind_ok in H. destruct H as [u [_ H]].
  apply rbind_ok in H. destruct H as [k [_ H]]. inversion H; subst.
  constructor; cbn [es_version es_revision es_key_length es_perms with_O palg0 pa_version pa_revision pa_length pa_perms].
  - exact Hv.
  - exact Hr.
  - intros l E. apply in_i64_small. apply Hl. exact E.
  - apply perms_i64. exact Hp.
Qed.

Lemma try_from_r6_i64 P em v r perms fek owner user rnd cfs stmf strf st :
  in_i64 v = true -> in_i64 r = true -> perms_ok perms ->
  try_from_r6 P (palg0 em None v r perms) fek owner user rnd cfs stmf strf = Ok st -> st_i64 st.
Proof.
  intros Hv Hr Hp H. unfold try_from_r6 in H. destruct (negb (len_is fek 32)); [discriminate|].
  destruct (user_value_r6 P (palg0 em None v r perms) fek user (draw rnd 0)) as [u ue].
  destruct (owner_value_r6 P (with_U (palg0 em None v r perms) u ue) fek owner (draw rnd 1)) as [o oe].
  inversion H; subst.
  constructor; cbn [es_version es_revision es_key_length es_perms with_U palg0 pa_version pa_revision pa_length pa_perms].
  - exact Hv.
  - exact Hr.
  - intros l E. discriminate E.
  - apply perms_i64. exact Hp.
Qed.

Lemma try_from_version_i64 P d v rnd st : version_in_domain v -> try_from_version P d v rnd = Ok st -> st_i64 st.
Proof.
  intros [Hv|Hv] H; destruct v as [owner user perms|owner user kl perms|em cfs stmf strf owner user perms
                                  |em cfs fek stmf strf owner user perms|em cfs fek stmf strf owner user perms];
    cbn [version_ok version_ok6] in Hv; try contradiction; cbn [try_from_version] in H.
  - eapply try_from_r4_i64; [| | | | exact H]; [reflexivity | reflexivity | intros l E; discriminate E | exact Hv].
  - destruct Hv as [Hp [[_ Hk] _]].
    eapply try_from_r4_i64; [| | | | exact H]; [reflexivity | reflexivity | intros l E; inversion E; subst; exact Hk | exact Hp].
  - destruct Hv as [Hp _].
    eapply try_from_r4_i64; [| | | | exact H]; [reflexivity | reflexivity | intros l E; inversion E; subst; lia | exact Hp].
  - destruct Hv as [Hp _]. eapply try_from_r6_i64; [| | | exact H]; [reflexivity | reflexivity | exact Hp].
  - destruct Hv as [Hp _]. eapply try_from_r6_i64; [| | | exact H]; [reflexivity | reflexivity | exact Hp].
Qed.

(* ---------- add_object: the encryption dictionary comes after every object ---------- *)
Lemma insert_last (m : objmap) id o : (forall i, In i (map fst m) -> fst i < fst id) -> insert m id o = m ++ [(id, o)].
Proof.
  induction m as [|[i o'] m IH]; intro H; cbn [insert app]; [reflexivity|].
  assert (Hi : fst i < fst id) by (apply H; left; reflexivity).
  assert (E1 : oid_eqb i id = false).
  { unfold oid_eqb. destruct (N.eqb_spec (fst i) (fst id)); [lia | reflexivity]. }
  assert (E2 : oid_ltb id i = false).
  { unfold oid_ltb. destruct (N.ltb_spec (fst id) (fst i)); [lia|]. destruct (N.eqb_spec (fst id) (fst i)); [lia | reflexivity]. }
  rewrite E1, E2. f_equal. apply IH. intros j Hj. apply H. right. exact Hj.
Qed.

Lemma increasing_snoc l : forall lo n, increasing lo l -> lo < n -> (forall x, In x l -> x < n) -> increasing lo (l ++ [n]).
Proof.
  induction l as [|a l IH]; intros lo n H Hlo Hall; cbn [app increasing] in *.
  - split; [exact Hlo | exact I].
  - destruct H as [H1 H2]. split; [exact H1|]. apply IH; [exact H2 | apply Hall; left; reflexivity |].
    intros x Hx. apply Hall. right. exact Hx.
Qed.

Lemma increasing_above l : forall lo, increasing lo l -> forall x, In x l -> lo < x.
Proof.
  induction l as [|a l IH]; intros lo H x Hx; [contradiction|]. destruct H as [H1 H2]. destruct Hx as [E|Hx]; [subst; exact H1|].
  specialize (IH a H2 x Hx). lia.
Qed.

Lemma increasing_NoDup l : forall lo, increasing lo l -> NoDup l.
Proof.
  induction l as [|a l IH]; intros lo H; [constructor|]. destruct H as [H1 H2]. constructor; [|eapply IH; exact H2].
  intro Hin. pose proof (increasing_above l a H2 a Hin). lia.
Qed.

Lemma last_number_le_bound (m : objmap) b : (forall io, In io m -> fst (fst io) <= b) -> last_number m <= b.
Proof.
  unfold last_number.
  assert (G : forall a, a <= b -> (forall io, In io m -> fst (fst io) <= b) ->
                        fold_left (fun a io => N.max a (fst (fst io))) m a <= b).
  { induction m as [|io m IH]; intros a Ha H; [exact Ha|]. cbn [fold_left]. apply IH.
    - apply N.max_lub; [exact Ha | exact (H io (or_introl eq_refl))].
    - intros j Hj. apply H. right. exact Hj. }
  intro H. apply G; [lia | exact H].
Qed.

Lemma obj_numbers_keys (m : objmap) : obj_numbers m = map fst (map fst m).
Proof. unfold obj_numbers. rewrite map_map. reflexivity. Qed.

(* ---------- the known class of C01 (container nesting above the parser's limit) ---------- *)
Lemma known_deep_false d :
  known_deep d = false <->
  Forall (fun io : oid * obj => (nest (snd io) <= MAX_DEPTH)%nat) (d_objects d) /\
  (Nat.max 2 (nest (ODict (d_trailer d))) <= MAX_DEPTH)%nat.
Proof.
  unfold known_deep. rewrite orb_false_iff, Nat.ltb_ge.
  assert (E : forall m : objmap, existsb (fun io => (MAX_DEPTH <? nest (snd io))%nat) m = false <->
                                 Forall (fun io : oid * obj => (nest (snd io) <= MAX_DEPTH)%nat) m).
  { induction m as [|io m IH]; cbn [existsb]; [split; [constructor | reflexivity]|].
    rewrite orb_false_iff, Nat.ltb_ge, IH. split; [intros [H1 H2]; constructor; assumption | intro H; inversion H; auto]. }
  rewrite E. reflexivity.
Qed.

(* ---------- a stream body inside a file below 4 GiB ---------- *)
Lemma stream_len_le id g dd c : (length c <= length (write_indirect_object id g (OStream dd c)))%nat.
Proof.
  unfold write_indirect_object. cbn [write_object].
  rewrite ?app_length; cbn [length]; rewrite ?app_length; cbn [length]; rewrite ?app_length; cbn [length];
    rewrite ?app_length; cbn [length]. lia.
Qed.

Lemma save_status_ok xt d :
  N.max (d_max_id d) (last_number (d_objects d)) + 2 < u32_mod -> binary_mark_ok (d_binary_mark d) = true ->
  so_status (save xt d) = SaveOk.
Proof.
  intros Hm Hb. unfold save, save_core. cbn [raise_max_id with_trailer d_max_id d_binary_mark].
  change (last_object_number (d_objects d)) with (last_number (d_objects d)).
  destruct (u32_top <=? N.max (d_max_id d) (last_number (d_objects d))) eqn:E1;
    [apply N.leb_le in E1; unfold u32_top, u32_mod in *; lia|].
  rewrite Hb. cbn [negb].
  destruct (save_body _) as [[body xs] x]. destruct xt; [reflexivity|].
  destruct (u32_top <=? N.max (d_max_id d) (last_number (d_objects d)) + 1) eqn:E2;
    [apply N.leb_le in E2; unfold u32_top, u32_mod in *; lia|].
  destruct (xstream_parts _ x (xs mod u32_mod)) as [[t c] x1]. reflexivity.
Qed.

Lemma stream_content_small xt d id g dd c :
  so_status (save xt d) = SaveOk -> NoDup (obj_numbers (d_objects d)) -> small_file xt d ->
  In ((id, g), OStream dd c) (d_objects d) -> skipped (OStream dd c) = false ->
  in_i64 (Z.of_nat (length c)) = true.
Proof.
  intros Hok ND Hs Hin Hsk. destruct (save_ok_shape xt d Hok) as [mid [Hb _]].
  destruct (offsets_complete d id g _ ND Hin Hsk) as [pre [post [Hbody _]]].
  unfold small_file, Save.blen in Hs. rewrite Hb, Hbody in Hs. rewrite !app_length in Hs.
  pose proof (stream_len_le id g dd c) as Hle.
  unfold in_i64, i64_min, i64_max. apply andb_true_intro. unfold u32_mod in Hs. split; apply Z.leb_le; lia.
Qed.

(* ---------- Document::encrypt keeps the document in the writer's domain ---------- *)
(* [d_max_id d + 3 < 2^32]: [savable_enc]'s own bound on the numbers, for the document with one more object (the
   encryption dictionary takes max_id + 1, a save in the stream format max_id + 2, Size is max_id + 3).
   [small_file xt d1]: the only use made of it HERE is that a ciphertext is shorter than 2^63 bytes, so that the
   Length Stream::set_content writes is an i64 (in lopdf: by type). *)
Theorem encrypt_preserves_savable P xt st d ivs d1 :
  savable d -> known_deep d = false -> max_id_ok d -> d_max_id d + 3 < u32_mod -> st_i64 st ->
  doc_encrypt P st d ivs = DOk d1 tt -> small_file xt d1 ->
  savable_enc d1 /\ known_deep d1 = false.
Proof.
  intros Sv K Hmax Hroom Hst Henc Hsmall.
  unfold doc_encrypt in Henc. destruct (is_encrypted d); [discriminate|].
  destruct (encrypt_objects P st (d_objects d) ivs) as [[m' ivs']| |] eqn:Eo; try discriminate.
  destruct (d_max_id d =? Handler.u32_max); [discriminate|]. injection Henc as Hd1.
  set (id := (d_max_id d + 1, 0)) in *.
  assert (Ht1 : d_trailer d1 = dict_set (d_trailer d) Handler.K_Encrypt (ORef (fst id) (snd id))) by (rewrite <- Hd1; reflexivity).
  assert (Ho1 : d_objects d1 = insert m' id (ODict (encode st))) by (rewrite <- Hd1; reflexivity).
  assert (Hv1 : d_version d1 = d_version d) by (rewrite <- Hd1; reflexivity).
  assert (Hm1 : d_binary_mark d1 = d_binary_mark d) by (rewrite <- Hd1; reflexivity).
  assert (Hx1 : d_max_id d1 = d_max_id d + 1) by (rewrite <- Hd1; reflexivity).
  clear Hd1.
  pose proof (encrypt_objects_forall2 P st _ _ _ _ Eo) as F2.
  assert (Hkeys : map fst m' = map fst (d_objects d)) by (eapply encrypt_objects_keys; exact Eo).
  assert (Hlt : forall i, In i (map fst m') -> fst i < fst id).
  { intros i Hi. rewrite Hkeys in Hi. apply Hmax in Hi. subst id. cbn [fst]. lia. }
  rewrite (insert_last m' id _ Hlt) in Ho1.
  pose proof (sd_objects d Sv) as Hobjs. rewrite Forall_forall in Hobjs.
  assert (Hm' : forall io', In io' m' ->
            exists io iv iv', In io (d_objects d) /\ fst io' = fst io /\
                              encrypt_object P st (fst io) (snd io) iv = Ok (snd io', iv')).
  { intros io' Hin. destruct (Forall2_in_r _ _ _ _ F2 Hin) as [io [Hio [Hf [iv [iv' He]]]]]. exists io, iv, iv'. auto. }
  (* the numbers *)
  assert (Hnums : obj_numbers (d_objects d1) = obj_numbers (d_objects d) ++ [fst id]).
  { rewrite Ho1. rewrite !obj_numbers_keys, !map_app, Hkeys. reflexivity. }
  assert (Hbelow : forall x, In x (obj_numbers (d_objects d)) -> x < fst id).
  { intros x Hx. rewrite obj_numbers_keys in Hx. apply in_map_iff in Hx.
    destruct Hx as [i [E Hi]]. subst x. apply Hlt. rewrite Hkeys. exact Hi. }
  assert (Hinc : increasing 0 (obj_numbers (d_objects d1))).
  { rewrite Hnums. apply increasing_snoc; [apply (sd_numbers d Sv) | subst id; cbn [fst]; lia | exact Hbelow]. }
  assert (Hlast : last_number (d_objects d1) <= d_max_id d + 1).
  { apply last_number_le_bound. intros io Hin.
    assert (Hn : In (fst (fst io)) (obj_numbers (d_objects d1))) by (unfold obj_numbers; apply in_map_iff; exists io; auto).
    rewrite Hnums in Hn. apply in_app_or in Hn. destruct Hn as [Hn|[E|[]]].
    - apply Hbelow in Hn. subst id. cbn [fst] in Hn. lia.
    - rewrite <- E. subst id. cbn [fst]. lia. }
  assert (Hmaxid : N.max (d_max_id d1) (last_number (d_objects d1)) + 2 < u32_mod).
  { rewrite Hx1. apply N.max_case_strong; intros; lia. }
  assert (Hmark : binary_mark_ok (d_binary_mark d1) = true) by (rewrite Hm1; apply (sd_mark d Sv)).
  pose proof (save_status_ok xt d1 Hmaxid Hmark) as Hok.
  pose proof (increasing_NoDup _ _ Hinc) as ND.
  (* the objects *)
  assert (Hobjs1 : Forall (fun io : oid * obj => snd (fst io) <= u16_max /\ top_wf (snd io) /\ skipped (snd io) = false) (d_objects d1)).
  { apply Forall_forall. intros io' Hin. pose proof Hin as Hin1. rewrite Ho1 in Hin. apply in_app_or in Hin.
    destruct Hin as [Hin|[E|[]]].
    - destruct (Hm' io' Hin) as [io [iv [iv' [Hio [Hf He]]]]]. destruct (Hobjs io Hio) as [Hg [Hw Hsk]].
      assert (Hsk' : skipped (snd io') = false) by (exact (eq_trans (enc_skipped _ _ _ _ _ _ _ He) Hsk)).
      split; [rewrite Hf; exact Hg|]. split; [|exact Hsk'].
      apply (enc_top_wf _ _ _ _ _ _ _ Hw He). intros dd c Es.
      apply (stream_content_small xt d1 (fst (fst io')) (snd (fst io')) dd c Hok ND Hsmall).
      + rewrite <- Es. destruct io' as [[i g] o']. exact Hin1.
      + rewrite <- Es. exact Hsk'.
    - subst io'. cbn [fst snd]. split; [unfold id, u16_max; cbn [snd]; lia|]. split; [|apply encode_not_skipped].
      cbn [top_wf]. apply encode_wf. exact Hst. }
  split.
  - constructor.
    + exact Hmaxid.
    + exact Hmark.
    + rewrite Hv1. apply (sd_version_eol d Sv).
    + rewrite Hv1. apply (sd_version_utf8 d Sv).
    + exact Hinc.
    + exact Hobjs1.
    + rewrite Ht1. apply wf_dict_set; [apply (sd_trailer d Sv)|]. subst id. cbn [fst snd].
      constructor; [unfold Parser.u32_max, u32_mod in *; lia | unfold u16_max; lia].
    + rewrite Ht1. unfold dict_has. rewrite dget_set_other by discriminate. apply (sd_no_prev d Sv).
  - apply known_deep_false. apply known_deep_false in K. destruct K as [Ko Kt]. split.
    + rewrite Ho1. apply Forall_app. split.
      * apply Forall_forall. intros io' Hin. destruct (Hm' io' Hin) as [io [iv [iv' [Hio [_ He]]]]].
        rewrite Forall_forall in Ko. pose proof (Ko io Hio). pose proof (enc_nest _ _ _ _ _ _ _ He). lia.
      * constructor; [|constructor]. cbn [snd]. pose proof (encode_nest st).
        assert (3 <= MAX_DEPTH)%nat by (vm_compute; lia). lia.
    + rewrite Ht1.
      change (Nat.max 2 (S (nest_dict (dict_set (d_trailer d) Handler.K_Encrypt (ORef (fst id) (snd id))))) <= MAX_DEPTH)%nat.
      change (Nat.max 2 (S (nest_dict (d_trailer d))) <= MAX_DEPTH)%nat in Kt.
      assert (nest_dict (dict_set (d_trailer d) Handler.K_Encrypt (ORef (fst id) (snd id))) <= nest_dict (d_trailer d))%nat
        by (apply nest_dict_set_le; [lia | cbn [nest]; lia]).
      lia.
Qed.

(* ---------- the composition without a hypothesis on the encrypted document's shape ---------- *)
Section MainDom.
  Variable P : prims.
  Hypothesis md5_len : forall m, length (p_md5 P m) = 16%nat.
  Hypothesis HA : aes_ok P.
  Hypothesis s256 : forall m, length (p_sha256 P m) = 32%nat.
  Hypothesis s384 : forall m, length (p_sha384 P m) = 48%nat.
  Hypothesis s512 : forall m, length (p_sha512 P m) = 64%nat.

  Theorem encrypt_save_load_decrypt_dom can xt d v rnd ivs st d1 :
    version_in_domain v -> max_id_ok d -> savable d -> known_deep d = false -> d_max_id d + 3 < u32_mod ->
    try_from_version P d v rnd = Ok st -> doc_encrypt P st d ivs = DOk d1 tt ->
    small_file xt d1 ->
    exists x : Save.xmap, Forall normal_ok x /\
      load_crypt P can (so_bytes (save xt d1)) = after_crypt P (conv_map x) (reloaded xt d1) (xtype_of xt) /\
      (forall e, authenticate_password P d1 [] = Err e ->
         load_crypt P can (so_bytes (save xt d1)) = CLoad (LOk (reloaded xt d1) (xtype_of xt))) /\
      (forall xr pw, right_password P d1 v pw ->
         exists d2 st', doc_decrypt_x P xr (reloaded xt d1) pw = DOk d2 st' /\ st_equiv st st' /\
                        same_doc d d2 /\ dict_get (d_trailer d2) Handler.K_Encrypt = None /\
                        d_binary_mark d2 = d_binary_mark d) /\
      (right_password P d1 v [] ->
         exists d2, load_crypt P can (so_bytes (save xt d1)) = CLoad (LOk d2 (xtype_of xt)) /\
                    same_doc d d2 /\ dict_get (d_trailer d2) Handler.K_Encrypt = None /\
                    d_binary_mark d2 = d_binary_mark d).
  Proof.
    intros Hv Hmax S K Hroom Htry Henc Hsmall.
    destruct (encrypt_preserves_savable P xt st d ivs d1 S K Hmax Hroom (try_from_version_i64 P d v rnd st Hv Htry) Henc Hsmall)
      as [S1 K1].
    apply (encrypt_save_load_decrypt P md5_len HA s256 s384 s512 can xt d v rnd ivs st d1); try assumption.
    - pose proof (sd_no_encrypt d S) as H. unfold dict_has in H. change Save.K_Encrypt with Handler.K_Encrypt in H.
      destruct (dict_get (d_trailer d) Handler.K_Encrypt); [discriminate | reflexivity].
    - eapply Forall_impl; [|exact (sd_objects d S)]. intros io [_ H]. exact H.
  Qed.
End MainDom.
