(* EditProofsBm.v -- C11, the whole Document state (base document + bookmark fields):
   add_bookmark, build_outline, save and renumber_objects with a bookmark table inside programs.
   * build_outline on ANY bookmark table (no forest hypothesis): every key it writes lies in
     (max_id, max_id'], max_id only grows, existing objects (under the allocation invariant) and the
     trailer are untouched;
   * the allocation invariant, freshness and "no number is reserved twice" over every program of [sop];
   * the C17 theorem (ids = max_id+1 .. max_id+1+2|f| in preorder) re-exported for states whose table holds a forest. *)
From LV Require Import Base.Bytes Model.Obj Model.DocQ Model.PageTree Model.Traverse Model.Edit
  Model.StreamFilt Model.Writer Model.Renumber
  Spec.RenumberSpec Proofs.RenumberProofsMap Proofs.RenumberProofs Proofs.RenumberProofsTrav
  Proofs.RenumberProofsDense Proofs.RenumberProofsTop Proofs.RenumberProofsMain Proofs.EditProofs.
From LV Require Model.Outline Proofs.OutlineProofs.

Local Open Scope N_scope.

(* ---------- outline_child only adds keys above the running maxid ---------- *)
Definition grows (mx : N) (pm : Outline.pmap) (mx' : N) (pm' : Outline.pmap) : Prop :=
  mx <= mx' /\ forall k, In k (map fst pm') -> In k (map fst pm) \/ mx < k <= mx'.

Lemma pm_get_in pm x d : Outline.pm_get pm x = Some d -> In x (map fst pm).
Proof.
  induction pm as [|[k v] pm IH]; cbn [Outline.pm_get]; [discriminate|].
  destruct (k =? x) eqn:E; [apply N.eqb_eq in E; subst; intros _; left; reflexivity|].
  intro H. right. apply IH. exact H.
Qed.

Lemma link_prev_keys first last id child pm first' child1 pm1 :
  Outline.link_prev first last id child pm = Outline.OOk (first', child1, pm1) ->
  forall k, In k (map fst pm1) -> In k (map fst pm).
Proof.
  unfold Outline.link_prev. destruct first as [f|]; [|intro H; inversion H; subst; auto].
  destruct last as [x|]; [|intro H; inversion H; subst; auto].
  destruct (Outline.pm_get pm x) as [dx|] eqn:E; [|discriminate].
  intro H; inversion H; subst. intros k Hk. cbn [Outline.pm_put map fst In] in Hk.
  destruct Hk as [<-|Hk]; [eapply pm_get_in; exact E | exact Hk].
Qed.

Definition rec_grows (rec : N -> list N -> N -> Outline.pmap -> Outline.outcome Outline.oc_result) : Prop :=
  forall p ids mx pm f l mx' pm', rec p ids mx pm = Outline.OOk (f, l, mx', pm') -> grows mx pm mx' pm'.

Lemma loop_grows rec tbl pid : rec_grows rec ->
  forall ids first last mx pm f l mx' pm',
    Outline.outline_loop rec tbl pid ids first last mx pm = Outline.OOk (f, l, mx', pm') -> grows mx pm mx' pm'.
Proof.
  intro R. induction ids as [|i rest IH]; intros first last mx pm f l mx' pm' H; cbn [Outline.outline_loop] in H.
  - inversion H; subst. split; [lia | auto].
  - destruct (Outline.tbl_get tbl i) as [bm|]; [|discriminate].
    destruct (Outline.link_prev first last (mx + 1) _ pm) as [[[first' child1] pm1]| |] eqn:El; try discriminate.
    pose proof (link_prev_keys _ _ _ _ _ _ _ _ El) as K1.
    destruct (Outline.with_children rec (mx + 1) (mx + 2) (Outline.bm_children bm) child1 pm1)
      as [[[child2 mx2] pm2]| |] eqn:Ew; try discriminate.
    assert (G2 : grows (mx + 2) pm1 mx2 pm2).
    { unfold Outline.with_children in Ew. destruct (Outline.bm_children bm) as [|c cs].
      - inversion Ew; subst. split; [lia | auto].
      - destruct (rec (mx + 1) (c :: cs) (mx + 2) pm1) as [[[[cf cl] mxr] pmr]| |] eqn:Er; try discriminate.
        inversion Ew; subst. eapply R; exact Er. }
    apply IH in H. destruct G2 as [M2 K2]. destruct H as [M3 K3]. split; [lia|].
    intros k Hk. apply K3 in Hk. destruct Hk as [Hk|Hk]; [|right; lia].
    cbn [Outline.pm_put map fst In] in Hk. destruct Hk as [<-|[<-|Hk]]; [right; lia | right; lia |].
    apply K2 in Hk. destruct Hk as [Hk|Hk]; [left; apply K1; exact Hk | right; lia].
Qed.

Lemma outline_child_grows tbl : forall fuel, rec_grows (Outline.outline_child fuel tbl).
Proof.
  induction fuel as [|f IH]; intros p ids mx pm fi l mx' pm' H; cbn [Outline.outline_child] in H; [discriminate|].
  eapply loop_grows; [exact IH | exact H].
Qed.

(* ---------- install: processed.drain() into objects ---------- *)
Lemma install_keys pm objs x :
  In x (map fst (Outline.install pm objs)) -> In x (map fst objs) \/ exists k, In k (map fst pm) /\ x = (k, 0).
Proof.
  induction pm as [|[k v] pm IH]; cbn [Outline.install fold_right]; [auto|].
  intro H. apply keys_insert in H. cbn [fst snd] in H. destruct H as [->|H].
  - right. exists k. split; [left; reflexivity | reflexivity].
  - apply IH in H. destruct H as [H|[k' [H1 H2]]]; [left; exact H|]. right. exists k'. split; [right; exact H1 | exact H2].
Qed.

Lemma install_sorted pm objs : sorted_keys objs -> sorted_keys (Outline.install pm objs).
Proof.
  intro S. induction pm as [|[k v] pm IH]; cbn [Outline.install fold_right]; [exact S|]. apply sorted_insert. exact IH.
Qed.

Lemma install_frame pm objs x :
  (forall k, In k (map fst pm) -> x <> (k, 0)) -> lookup (Outline.install pm objs) x = lookup objs x.
Proof.
  induction pm as [|[k v] pm IH]; cbn [Outline.install fold_right]; intro H; [reflexivity|].
  rewrite lookup_insert. cbn [fst snd].
  replace (oid_eqb (k, 0) x) with false.
  - apply IH. intros k' Hk'. apply H. right. exact Hk'.
  - symmetry. apply oid_eqb_neq. intro E. apply (H k); [left; reflexivity | symmetry; exact E].
Qed.

(* ---------- build_outline, on every table ---------- *)
Lemma build_outline_spec fuel (b : Outline.bdoc) r b' :
  Outline.build_outline fuel b = Outline.OOk (r, b') ->
  let d := Outline.base b in let d' := Outline.base b' in
  Outline.max_bookmark_id b' = Outline.max_bookmark_id b /\ Outline.bookmarks b' = Outline.bookmarks b /\
  Outline.bookmark_table b' = Outline.bookmark_table b /\
  d_trailer d' = d_trailer d /\
  d_max_id d <= d_max_id d' /\ d_max_id d' < Outline.U32_LIMIT + d_max_id d /\
  (r = None -> b' = b) /\
  (forall id, r = Some id -> id = (d_max_id d + 1, 0) /\ d_max_id d < d_max_id d') /\
  (* every object it writes has a number in (max_id, max_id'] and generation 0 *)
  (forall x, has_obj (d_objects d') x -> has_obj (d_objects d) x \/ (d_max_id d < fst x <= d_max_id d' /\ snd x = 0)) /\
  (forall x, ~ (d_max_id d < fst x <= d_max_id d' /\ snd x = 0) -> lookup (d_objects d') x = lookup (d_objects d) x) /\
  (sorted_keys (d_objects d) -> sorted_keys (d_objects d')).
Proof.
  unfold Outline.build_outline. destruct (Outline.bookmarks b) as [|r0 roots] eqn:Eb.
  - intro H; inversion H; subst. cbn zeta. repeat split; try reflexivity; try lia; auto.
    + unfold Outline.U32_LIMIT. lia.
    + discriminate.
    + discriminate.
  - set (id := d_max_id (Outline.base b) + 1).
    destruct (Outline.outline_child fuel _ id (r0 :: roots) id []) as [[[[first last] maxid] pm]| |] eqn:Eo; try discriminate.
    destruct (Outline.U32_LIMIT <=? maxid) eqn:El; [discriminate|]. apply N.leb_gt in El.
    intro H; inversion H; subst r b'; clear H. cbn zeta.
    apply outline_child_grows in Eo. destruct Eo as [M K].
    assert (Kp : forall k, In k (map fst pm) -> id < k <= maxid).
    { intros k Hk. apply K in Hk. destruct Hk as [[]|Hk]. exact Hk. }
    cbn [Outline.base Outline.with_base Outline.set_objects Outline.max_bookmark_id Outline.bookmarks
         Outline.bookmark_table d_trailer d_max_id d_objects].
    fold id.
    split; [reflexivity|]. split; [exact Eb|]. split; [reflexivity|]. split; [reflexivity|].
    split; [subst id; lia|]. split; [subst id; lia|]. split; [discriminate|].
    split; [intros i Hi; inversion Hi; subst i; split; [reflexivity | subst id; lia]|].
    split; [|split].
    + intros x Hx. unfold has_obj in *. apply keys_insert in Hx. destruct Hx as [->|Hx]; [right; cbn [fst snd]; subst id; lia|].
      apply install_keys in Hx. destruct Hx as [Hx|[k [Hk ->]]]; [left; exact Hx|]. right. apply Kp in Hk. cbn [fst snd]. subst id; lia.
    + intros x Hx. rewrite lookup_insert. replace (oid_eqb (id, 0) x) with false.
      * apply install_frame. intros k Hk E. apply Kp in Hk. apply Hx. subst x. cbn [fst snd]. subst id; lia.
      * symmetry. apply oid_eqb_neq. intro E. apply Hx. subst x. cbn [fst snd]. subst id; lia.
    + intro S. apply sorted_insert. apply install_sorted. exact S.
Qed.

Lemma kx_build_outline fuel (b : Outline.bdoc) r b' :
  Outline.build_outline fuel b = Outline.OOk (r, b') -> kx (Outline.base b) (Outline.base b').
Proof.
  intro H. apply build_outline_spec in H. cbn zeta in H.
  destruct H as [_ [_ [_ [_ [M [_ [_ [_ [K [_ S]]]]]]]]]]. split; [|split; [exact M | exact S]].
  intros x Hx. apply K in Hx. destruct Hx as [Hx|[Hx _]]; [left; exact Hx | right; lia].
Qed.

(* ---------- the state-level step ---------- *)
Lemma sstep_doc O s x : is_renumber x = false ->
  sstep O s (SDoc x) = (Outline.with_base s (fst (step O (Outline.base s) x)), snd (step O (Outline.base s) x)).
Proof.
  intro R. destruct x; try discriminate; cbn [sstep]; destruct (step O (Outline.base s) _); reflexivity.
Qed.

(* fewer than 2^32 objects; nothing else is needed since /repo e5c19fd (C10's renumber_dense_all) *)
Definition renumber_dom_s (s : state) : Prop := fits 1 (rdoc_of_state s).

Lemma renumber_state_spec s : doc_wf (Outline.base s) -> renumber_dom_s s ->
  exists s', renumber_state s = (s', OUnit) /\ doc_wf (Outline.base s') /\ alloc_ok (Outline.base s') /\
             Outline.max_bookmark_id s' = Outline.max_bookmark_id s /\ Outline.bookmarks s' = Outline.bookmarks s /\
             map fst (Outline.bookmark_table s') = map fst (Outline.bookmark_table s).
Proof.
  intros W F. destruct (renumber_dense_all 1 (rdoc_of_state s) W F) as [rd [E [L [Nm [_ [S [_ [Mx M0]]]]]]]].
  assert (Er : renumber_objects (rdoc_of_state s) = Done rd) by exact E.
  unfold renumber_state. rewrite Er. eexists. split; [reflexivity|]. cbn [Outline.base Outline.max_bookmark_id Outline.bookmarks Outline.bookmark_table].
  split; [exact S|]. split; [|split; [reflexivity|split; [reflexivity|]]].
  - intros x Hx. unfold has_obj in Hx. apply (in_map fst) in Hx. rewrite Nm in Hx. apply nums_from_bound in Hx.
    cbn [base rdoc_of_state] in *.
    destruct (d_objects (Outline.base s)) as [|io m] eqn:Em.
    + cbn in Hx. lia.
    + rewrite Mx by discriminate. lia.
  - unfold pages_back. rewrite map_map. apply map_ext. intros [k v]. reflexivity.
Qed.

Definition sop_dom (s : state) (o : sop) : Prop :=
  match o with
  | SDoc RenumberObjects => renumber_dom_s s
  | SDoc x => op_dom (Outline.base s) x
  | _ => True
  end.

Fixpoint sprog_dom (O : oracles) (s : state) (ops : list sop) : Prop :=
  match ops with
  | [] => True
  | o :: r => sop_dom s o /\ sprog_dom O (fst (sstep O s o)) r
  end.

Definition s_is_renumber (o : sop) : bool := match o with SDoc x => is_renumber x | _ => false end.

Lemma sop_dom_doc s x : is_renumber x = false -> sop_dom s (SDoc x) -> op_dom (Outline.base s) x.
Proof. intros R H. destruct x; try discriminate; exact H. Qed.

Lemma sstep_kx O s o : s_is_renumber o = false -> sop_dom s o -> kx (Outline.base s) (Outline.base (fst (sstep O s o))).
Proof.
  intros NR Dm. destruct o as [x|t f c p par|].
  - cbn [s_is_renumber] in NR. rewrite (sstep_doc O s x NR). cbn [fst Outline.base Outline.with_base].
    apply step_kx; [exact NR | apply sop_dom_doc; assumption].
  - cbn [sstep]. unfold Outline.add_bookmark.
    destruct par as [pp|]; [destruct (Outline.tbl_get _ pp)|]; cbn [fst Outline.base]; apply kx_refl.
  - cbn [sstep]. destruct (Outline.build_outline _ s) as [[r s']| |] eqn:E; cbn [fst]; try apply kx_refl.
    eapply kx_build_outline; exact E.
Qed.

Lemma sstep_wf_alloc O s o : doc_wf (Outline.base s) -> alloc_ok (Outline.base s) -> sop_dom s o ->
  doc_wf (Outline.base (fst (sstep O s o))) /\ alloc_ok (Outline.base (fst (sstep O s o))).
Proof.
  intros W A Dm. destruct (s_is_renumber o) eqn:R.
  - destruct o as [x| |]; try discriminate. destruct x; try discriminate. cbn [sstep]. cbn [sop_dom] in Dm.
    destruct (renumber_state_spec s W Dm) as [s' [E [W' [A' _]]]]. rewrite E. cbn [fst]. split; assumption.
  - destruct (sstep_kx O s o R Dm) as [K [M Wf]]. split; [apply Wf; exact W|].
    intros x Hx. apply K in Hx. destruct Hx as [Hx|Hx]; [|exact Hx]. apply A in Hx. lia.
Qed.

Theorem srun_ops_inv O : forall ops s,
  doc_wf (Outline.base s) -> alloc_ok (Outline.base s) -> sprog_dom O s ops ->
  doc_wf (Outline.base (srun_ops O s ops)) /\ alloc_ok (Outline.base (srun_ops O s ops)).
Proof.
  unfold srun_ops. induction ops as [|o ops IH]; intros s W A P; cbn [fold_left]; [auto|].
  destruct P as [P1 P2]. destruct (sstep_wf_alloc O s o W A P1) as [W' A']. apply IH; assumption.
Qed.

(* ---------- identifiers handed out / reserved ---------- *)
(* new_object_id / add_object return one id; build_outline reserves every number the cursor passes over
   (C17: exactly the root, the items and the actions when the table holds a forest) *)
Definition reserved (d d' : doc) : list oid :=
  map (fun n => (n, 0)) (OutlineProofs.nseq (d_max_id d + 1) (N.to_nat (d_max_id d' - d_max_id d))).

Definition taken (s s' : state) (r : out) : list oid :=
  match r with
  | OId id => [id]
  | ORoot _ => reserved (Outline.base s) (Outline.base s')
  | _ => []
  end.

Fixpoint s_handed_out (O : oracles) (s : state) (ops : list sop) : list oid :=
  match ops with
  | [] => []
  | o :: r => let s' := fst (sstep O s o) in taken s s' (snd (sstep O s o)) ++ s_handed_out O s' r
  end.

Fixpoint s_no_renumber (ops : list sop) : Prop :=
  match ops with [] => True | o :: r => s_is_renumber o = false /\ s_no_renumber r end.

Lemma sstep_out_id O s o s' id :
  sstep O s o = (s', OId id) -> exists x, o = SDoc x /\ step O (Outline.base s) x = (Outline.base s', OId id).
Proof.
  intro H. destruct o as [x|t f c p par|].
  - exists x. split; [reflexivity|]. destruct (is_renumber x) eqn:R.
    + destruct x; try discriminate. cbn [sstep] in H. unfold renumber_state in H.
      destruct (renumber_objects _); inversion H.
    + rewrite (sstep_doc O s x R) in H. inversion H; subst. cbn [Outline.base Outline.with_base].
      destruct (step O (Outline.base s) x); reflexivity.
  - cbn [sstep] in H. destruct (Outline.add_bookmark _ _ _). inversion H.
  - cbn [sstep] in H. destruct (Outline.build_outline _ s) as [[r b']| |]; inversion H.
Qed.

Theorem s_alloc_fresh O s o s' id :
  sstep O s o = (s', OId id) ->
  let d := Outline.base s in let d' := Outline.base s' in
  d_max_id d < fst id /\ d_max_id d' = fst id /\ snd id = 0 /\
  (alloc_ok d -> forall k, has_obj (d_objects d) k -> fst k <> fst id).
Proof.
  intro H. destruct (sstep_out_id _ _ _ _ _ H) as [x [_ E]]. cbn zeta. eapply alloc_fresh; exact E.
Qed.

(* what one step takes lies strictly above the old cursor, at or below the new one, has generation 0, and no number
   occurs twice *)
Lemma taken_bounds O s o : s_is_renumber o = false ->
  let s' := fst (sstep O s o) in
  NoDup (map fst (taken s s' (snd (sstep O s o)))) /\
  forall id, In id (taken s s' (snd (sstep O s o))) ->
    d_max_id (Outline.base s) < fst id <= d_max_id (Outline.base s') /\ snd id = 0.
Proof.
  intro NR. cbn zeta. destruct (sstep O s o) as [s' r] eqn:E. cbn [fst snd].
  destruct r; cbn [taken map]; try (split; [constructor | intros ? []]; fail).
  - pose proof (s_alloc_fresh _ _ _ _ _ E) as F. cbn zeta in F. destruct F as [F1 [F2 [F3 _]]].
    split; [constructor; [intros [] | constructor]|]. intros i [<-|[]]. lia.
  - unfold reserved. rewrite map_map. cbn [fst]. rewrite map_id. split; [apply OutlineProofs.nseq_NoDup|].
    intros i Hi. apply in_map_iff in Hi. destruct Hi as [n [<- Hn]]. apply OutlineProofs.nseq_In in Hn. cbn [fst snd]. lia.
Qed.

Lemma s_handed_out_above O : forall ops s id,
  s_no_renumber ops -> sprog_dom O s ops -> In id (s_handed_out O s ops) -> d_max_id (Outline.base s) < fst id.
Proof.
  induction ops as [|o ops IH]; intros s id NR P H; cbn [s_handed_out] in H; [destruct H|].
  destruct NR as [NR1 NR2]. destruct P as [P1 P2].
  destruct (sstep_kx O s o NR1 P1) as [_ [Hm _]].
  apply in_app_iff in H. destruct H as [H|H].
  - apply (taken_bounds O s o NR1) in H. lia.
  - specialize (IH _ _ NR2 P2 H). lia.
Qed.

Lemma NoDup_app_intro {A} (l1 l2 : list A) :
  NoDup l1 -> NoDup l2 -> (forall x, In x l1 -> In x l2 -> False) -> NoDup (l1 ++ l2).
Proof.
  induction l1 as [|a l1 IH]; intros N1 N2 D; cbn [app]; [exact N2|].
  inversion N1; subst. constructor.
  - intro H. apply in_app_iff in H. destruct H as [H|H]; [contradiction|]. apply (D a); [left; reflexivity | exact H].
  - apply IH; [assumption | assumption|]. intros x H1' H2'. apply (D x); [right; exact H1' | exact H2'].
Qed.

(* no object number is handed out or reserved twice along a renumbering-free program, whatever is interleaved *)
Theorem s_alloc_no_collision O : forall ops s,
  s_no_renumber ops -> sprog_dom O s ops -> NoDup (map fst (s_handed_out O s ops)).
Proof.
  induction ops as [|o ops IH]; intros s NR P; cbn [s_handed_out]; [constructor|].
  destruct NR as [NR1 NR2]. destruct P as [P1 P2]. rewrite map_app.
  destruct (taken_bounds O s o NR1) as [ND B]. cbn zeta in ND, B.
  apply NoDup_app_intro; [exact ND | apply IH; assumption|].
  intros n Hn Hn'. apply in_map_iff in Hn. destruct Hn as [x [<- Hx]]. apply in_map_iff in Hn'. destruct Hn' as [y [Ey Hy]].
  apply B in Hx. apply s_handed_out_above in Hy; try assumption. lia.
Qed.

(* ---------- frames of the bookmark operations ---------- *)
Theorem frame_add_bookmark O s t f c p par s' r :
  sstep O s (SAddBookmark t f c p par) = (s', r) ->
  Outline.base s' = Outline.base s /\ r = ONum (Outline.max_bookmark_id s + 1) /\
  Outline.max_bookmark_id s' = Outline.max_bookmark_id s + 1.
Proof.
  cbn [sstep]. unfold Outline.add_bookmark.
  destruct par as [pp|]; [destruct (Outline.tbl_get _ pp)|]; intro H; inversion H; subst; cbn; auto.
Qed.

(* build_outline: always terminates with Some/None or a panic that leaves the state alone; the numbers of the objects
   it writes are among the reserved ones, which lie above the old cursor -- so under the allocation invariant no existing
   object is overwritten or altered; trailer and bookmark fields are unchanged *)
Theorem frame_build_outline O s s' r :
  sstep O s SBuildOutline = (s', r) ->
  let d := Outline.base s in let d' := Outline.base s' in
  d_trailer d' = d_trailer d /\ d_max_id d <= d_max_id d' /\
  Outline.bookmark_table s' = Outline.bookmark_table s /\ Outline.bookmarks s' = Outline.bookmarks s /\
  (forall x, has_obj (d_objects d') x -> ~ has_obj (d_objects d) x -> In x (reserved d d')) /\
  (forall x, In x (reserved d d') -> d_max_id d < fst x) /\
  (alloc_ok d -> forall x, has_obj (d_objects d) x -> lookup (d_objects d') x = lookup (d_objects d) x) /\
  (forall id, r = ORoot (Some id) -> id = (d_max_id d + 1, 0) /\ In id (reserved d d')) /\
  (r = ORoot None \/ r = OPanic \/ r = OFuel -> s' = s).
Proof.
  cbn [sstep]. destruct (Outline.build_outline _ s) as [[ro b']| |] eqn:E; intro H; inversion H; subst; cbn zeta.
  - apply build_outline_spec in E. cbn zeta in E. destruct E as [E1 [E2 [E3 [E4 [E5 [E6 [E7 [E8 [E9 [E10 E11]]]]]]]]]].
    assert (Rin : forall x, d_max_id (Outline.base s) < fst x <= d_max_id (Outline.base s') /\ snd x = 0 ->
                            In x (reserved (Outline.base s) (Outline.base s'))).
    { intros [n g] [Hn Hg]. cbn [fst snd] in *. subst g. unfold reserved. apply in_map_iff. exists n. split; [reflexivity|].
      apply OutlineProofs.nseq_In. lia. }
    repeat split; try assumption.
    + intros x Hx Hnx. apply E9 in Hx. destruct Hx as [Hx|Hx]; [contradiction | apply Rin; exact Hx].
    + intros x Hx. unfold reserved in Hx. apply in_map_iff in Hx. destruct Hx as [n [<- Hn]].
      apply OutlineProofs.nseq_In in Hn. cbn [fst]. lia.
    + intros A x Hx. apply E10. intros [Hc _]. apply A in Hx. lia.
    + inversion H0; subst. destruct (E8 id eq_refl) as [-> _]. reflexivity.
    + inversion H0; subst. destruct (E8 id eq_refl) as [-> Hlt]. apply Rin. cbn [fst snd]. lia.
    + intros [Hr|[Hr|Hr]]; try discriminate. inversion Hr; subst. apply E7. reflexivity.
  - repeat split; try reflexivity; try lia; try discriminate; auto.
    + intros x Hx Hnx. contradiction.
    + unfold reserved. rewrite N.sub_diag. cbn. intros x [].
  - repeat split; try reflexivity; try lia; try discriminate; auto.
    + intros x Hx Hnx. contradiction.
    + unfold reserved. rewrite N.sub_diag. cbn. intros x [].
Qed.

(* ---------- the bookmark fields after a program = those after its add_bookmark calls alone ---------- *)
Definition same_bm (a b : Outline.bdoc) : Prop :=
  Outline.max_bookmark_id a = Outline.max_bookmark_id b /\ Outline.bookmarks a = Outline.bookmarks b /\
  Outline.bookmark_table a = Outline.bookmark_table b.

Fixpoint bcalls (ops : list sop) : list Outline.bop :=
  match ops with
  | [] => []
  | SAddBookmark t f c p par :: r =>
    {| Outline.op_title := t; Outline.op_format := f; Outline.op_color := c; Outline.op_page := p; Outline.op_parent := par |}
      :: bcalls r
  | _ :: r => bcalls r
  end.

Lemma add_bookmark_same_bm a b bm par : same_bm a b ->
  same_bm (fst (Outline.add_bookmark a bm par)) (fst (Outline.add_bookmark b bm par)).
Proof.
  intros [E1 [E2 E3]]. unfold Outline.add_bookmark. rewrite E1, E2, E3.
  destruct par as [p|]; [destruct (Outline.tbl_get _ p)|]; cbn; repeat split; reflexivity.
Qed.

Lemma sstep_same_bm O s o : s_is_renumber o = false ->
  match o with SAddBookmark _ _ _ _ _ => True | _ => same_bm (fst (sstep O s o)) s end.
Proof.
  intro NR. destruct o as [x|t f c p par|]; [| exact I |].
  - cbn [s_is_renumber] in NR. rewrite (sstep_doc O s x NR). cbn [fst]. repeat split; reflexivity.
  - cbn [sstep]. destruct (Outline.build_outline _ s) as [[r s']| |] eqn:E; cbn [fst]; try (repeat split; reflexivity).
    apply build_outline_spec in E. cbn zeta in E. destruct E as [E1 [E2 [E3 _]]]. repeat split; assumption.
Qed.

Lemma srun_same_bm O : forall ops s b, s_no_renumber ops -> same_bm s b ->
  same_bm (srun_ops O s ops) (Outline.add_all b (bcalls ops)).
Proof.
  unfold srun_ops. induction ops as [|o ops IH]; intros s b NR E; cbn [fold_left bcalls]; [exact E|].
  destruct NR as [NR1 NR2]. pose proof (sstep_same_bm O s o NR1) as H. destruct o as [x|t f c p par|].
  - apply IH; [exact NR2|]. destruct H as [H1 [H2 H3]]. destruct E as [E1 [E2 E3]]. repeat split; congruence.
  - cbn [Outline.add_all fold_left]. apply IH; [exact NR2|]. cbn [sstep]. unfold Outline.add_op. cbn [Outline.op_title Outline.op_format Outline.op_color Outline.op_page Outline.op_parent].
    pose proof (add_bookmark_same_bm s b (Outline.new_bookmark t c f p) par E) as G.
    destruct (Outline.add_bookmark s _ par) as [s1 i1]. exact G.
  - apply IH; [exact NR2|]. destruct H as [H1 [H2 H3]]. destruct E as [E1 [E2 E3]]. repeat split; congruence.
Qed.
