(* XrefMergeProofs.v -- C07, abstract core: Xref::merge over a Prev chain gives every object number
   the entry of the NEWEST section that has one; the Prev loop computes exactly that fold on every
   chain, stops on cycles, and never runs out of the fuel [load_fuel]. *)
From LV Require Import Base.Bytes Base.Sx Model.Obj Model.Save Model.XrefMerge Proofs.FilterProofsDict.

(* ---------- the table ---------- *)
Lemma xget_insert m k e k' :
  xget (xinsert m k e) k' = if (k =? k')%N then Some e else xget m k'.
Proof.
  induction m as [|[a ea] m IH]; cbn [xinsert xget].
  - reflexivity.
  - destruct (a =? k)%N eqn:Eak.
    + apply N.eqb_eq in Eak; subst a. cbn [xget]. destruct (k =? k')%N; reflexivity.
    + destruct (k <? a)%N.
      * cbn [xget]. destruct (k =? k')%N; reflexivity.
      * cbn [xget]. rewrite IH. destruct (a =? k')%N eqn:Eak'; [|reflexivity].
        apply N.eqb_eq in Eak'; subst a. rewrite N.eqb_sym, Eak. reflexivity.
Qed.

Lemma xget_or_insert m k e k' :
  xget (xt_or_insert m k e) k' =
  match xget m k' with Some e' => Some e' | None => if (k =? k')%N then Some e else None end.
Proof.
  unfold xt_or_insert. destruct (xget m k) eqn:G.
  - destruct (xget m k') eqn:G'; [reflexivity|].
    destruct (k =? k')%N eqn:E; [|reflexivity]. apply N.eqb_eq in E; subst. congruence.
  - rewrite xget_insert. destruct (k =? k')%N eqn:E.
    + apply N.eqb_eq in E; subst. rewrite G. reflexivity.
    + destruct (xget m k'); reflexivity.
Qed.

(* Xref::merge = "insert if absent", pointwise *)
Lemma xget_merge b : forall a k,
  xget (xt_merge a b) k = match xget a k with Some e => Some e | None => xget b k end.
Proof.
  unfold xt_merge. induction b as [|[kb eb] b IH]; intros a k; cbn [fold_left fst snd xget].
  - destruct (xget a k); reflexivity.
  - rewrite IH, xget_or_insert. destruct (xget a k); [reflexivity|].
    destruct (kb =? k)%N; reflexivity.
Qed.

(* the entry of the newest table (first in the list) that has one *)
Fixpoint first_def (tabs : list xmap) (k : N) : option xentry :=
  match tabs with
  | [] => None
  | t :: tabs' => match xget t k with Some e => Some e | None => first_def tabs' k end
  end.

(* merge_chain_latest: for ALL chains of sections (x0 the newest, then the Prev chain in the order
   the loop reads it) and all object numbers *)
Theorem merge_chain_latest : forall (revs : list xref) (x0 : xref) (k : N),
  xget (xr_entries (fold_left xmerge revs x0)) k = first_def (map xr_entries (x0 :: revs)) k.
Proof.
  induction revs as [|r revs IH]; intros x0 k; cbn [fold_left map first_def].
  - destruct (xget (xr_entries x0) k); reflexivity.
  - rewrite IH. cbn [map first_def xmerge xr_entries]. rewrite xget_merge.
    destruct (xget (xr_entries x0) k); reflexivity.
Qed.

(* the merged table never changes type or declared size: both come from the newest section *)
Lemma fold_xmerge_stream revs : forall x0, xr_stream (fold_left xmerge revs x0) = xr_stream x0.
Proof. induction revs; intros; cbn [fold_left]; [reflexivity|]. rewrite IHrevs. reflexivity. Qed.

(* a free entry is no entry: a section that frees k does not hide an older definition *)
Lemma parse_entries_get_aux stream raw : forall m k,
  xget (fold_left (keep_entry stream) raw m) k =
  fold_left (fun acc kv =>
               if (fst kv =? k)%N then
                 match snd kv with
                 | RFree _ => acc
                 | RNormal off g =>
                   if stream then Some (XNormal off (g mod 65536))
                   else if (g <? 65536)%N then Some (XNormal off g) else acc
                 | RComp c i => if stream then Some (XCompressed c (i mod 65536)) else acc
                 end
               else acc) raw (xget m k).
Proof.
  induction raw as [|[i e] raw IH]; intros m k; cbn [fold_left]; [reflexivity|].
  rewrite IH. f_equal. unfold keep_entry; cbn [fst snd].
  destruct e as [g|off g|c idx].
  - destruct (i =? k)%N; reflexivity.
  - destruct stream.
    + rewrite xget_insert. destruct (i =? k)%N; reflexivity.
    + destruct (g <? 65536)%N; [rewrite xget_insert|]; destruct (i =? k)%N; reflexivity.
  - destruct stream; [rewrite xget_insert|]; destruct (i =? k)%N; reflexivity.
Qed.

Lemma only_free_no_entry stream raw k :
  (forall e, In (k, e) raw -> exists g, e = RFree g) ->
  xget (parse_entries stream raw) k = None.
Proof.
  intro H. unfold parse_entries. rewrite parse_entries_get_aux. cbn [xget].
  assert (G : forall acc, acc = None ->
    fold_left (fun acc kv =>
               if (fst kv =? k)%N then
                 match snd kv with
                 | RFree _ => acc
                 | RNormal off g =>
                   if stream then Some (XNormal off (g mod 65536))
                   else if (g <? 65536)%N then Some (XNormal off g) else acc
                 | RComp c i => if stream then Some (XCompressed c (i mod 65536)) else acc
                 end
               else acc) raw acc = None).
  { induction raw as [|[i e] raw IH]; intros acc Hacc; cbn [fold_left]; [exact Hacc|].
    apply IH.
    - intros e' Hin. apply H. right. exact Hin.
    - cbn [fst snd]. destruct (i =? k)%N eqn:E; [|exact Hacc].
      apply N.eqb_eq in E; subst i. destruct (H e (or_introl eq_refl)) as [g ->]. exact Hacc. }
  apply G. reflexivity.
Qed.

(* ---------- the Prev loop ---------- *)
(* what Reader::merge_xref_stream adds to the table of a section: the entries of the cross-reference stream
   its trailer names by XRefStm (hybrid-reference file).  [stm_ok]: the key is absent / not an integer, or
   names a section inside the buffer. *)
Definition stm_target (L : layout) (tr : dict) : option section :=
  match dict_get tr K_XRefStm with
  | Some (OInt q) => if (q <? 0)%Z || (l_buflen L <? q)%Z then None else assocZ (l_secs L) q
  | _ => None
  end.
Definition stm_ok (L : layout) (tr : dict) : Prop :=
  match dict_get tr K_XRefStm with
  | Some (OInt q) => (0 <= q <= l_buflen L)%Z /\ assocZ (l_secs L) q <> None
  | _ => True
  end.
(* a section with the cross-reference stream of its trailer merged in *)
Definition sec_full (L : layout) (s : section) : xref :=
  match stm_target L (s_trailer s) with
  | Some sx => xmerge (sec_xref s) (sec_xref sx)
  | None => sec_xref s
  end.

Lemma merge_stm_ok L x tr : stm_ok L tr ->
  merge_stm L x (dict_get tr K_XRefStm) =
  LOk (match stm_target L tr with Some sx => xmerge x (sec_xref sx) | None => x end).
Proof.
  unfold stm_ok, stm_target, merge_stm, sec_at.
  destruct (dict_get tr K_XRefStm) as [[| | q | | | | | | |]|]; try reflexivity.
  intros [Hq Hs].
  replace ((q <? 0)%Z || (l_buflen L <? q)%Z) with false
    by (symmetry; apply orb_false_iff; split; apply Z.ltb_ge; lia).
  destruct (assocZ (l_secs L) q); [reflexivity | contradiction].
Qed.

(* A chain: the sections the loop reads, in order, each named by the Prev of the one before. *)
Fixpoint is_chain (L : layout) (prev : option obj) (c : list (Z * section)) : Prop :=
  match c with
  | [] => match prev with Some (OInt _) => False | _ => True end
  | (p, s) :: c' =>
    prev = Some (OInt p) /\ (0 <= p <= l_buflen L)%Z /\ assocZ (l_secs L) p = Some s /\ stm_ok L (s_trailer s) /\
    is_chain L (dict_get (s_trailer s) K_Prev) c'
  end.

Lemma zmem_false p l : zmem p l = false <-> ~ In p l.
Proof.
  unfold zmem. split.
  - intros H Hin. assert (existsb (Z.eqb p) l = true) by (apply existsb_exists; exists p; split; [exact Hin|apply Z.eqb_refl]).
    congruence.
  - intro H. destruct (existsb (Z.eqb p) l) eqn:E; [|reflexivity].
    apply existsb_exists in E. destruct E as [q [Hq Hpq]]. apply Z.eqb_eq in Hpq; subst. contradiction.
Qed.

Lemma dict_get_swap_remove_absent d k :
  dict_get d k = None -> dict_swap_remove d k = d.
Proof. intro H. unfold dict_swap_remove, dict_has. rewrite H. reflexivity. Qed.

(* once the XRefStm key of the newest trailer is gone, the loop is the fold of Xref::merge over the chain,
   every section with the cross-reference stream of ITS trailer merged in *)
Lemma prev_loop_chain L : forall c fuel x tr seen prev,
  is_chain L prev c ->
  dict_get tr K_XRefStm = None ->
  NoDup (map fst c) -> (forall p, In p (map fst c) -> ~ In p seen) ->
  (length c <= fuel)%nat ->
  prev_loop fuel L x tr seen prev = LOk (fold_left xmerge (map (fun ps => sec_full L (snd ps)) c) x, tr).
Proof.
  induction c as [|[p s] c IH]; intros fuel x tr seen prev Hc Hstm Hnd Hseen Hfuel.
  - cbn [is_chain] in Hc. cbn [map fold_left].
    destruct fuel; cbn [prev_loop]; destruct prev as [[]|]; try reflexivity; contradiction.
  - cbn [is_chain] in Hc. destruct Hc as (-> & Hp & Hs & Hok & Hc).
    destruct fuel as [|fuel]; [cbn [length] in Hfuel; lia|].
    cbn [prev_loop].
    assert (Hz : zmem p seen = false) by (apply zmem_false, Hseen; left; reflexivity).
    rewrite Hz.
    replace ((p <? 0)%Z || (l_buflen L <? p)%Z) with false
      by (symmetry; apply orb_false_iff; split; [apply Z.ltb_ge|apply Z.ltb_ge]; lia).
    rewrite Hstm. cbn [merge_stm]. unfold sec_at at 1. rewrite Hs.
    rewrite (merge_stm_ok L (sec_xref s) (s_trailer s) Hok).
    rewrite (dict_get_swap_remove_absent _ _ Hstm).
    cbn [map fold_left snd]. fold (sec_full L s).
    inversion Hnd as [|? ? Hnotin Hnd']; subst.
    apply IH; auto.
    + intros q Hq [Hqp|Hqs].
      * subst q. exact (Hnotin Hq).
      * apply (Hseen q); [right; exact Hq|exact Hqs].
    + cbn [length] in Hfuel. lia.
Qed.

(* a cycle is cut by `already_seen`: a Prev that names a section already read ends the loop *)
Lemma prev_loop_seen fuel L x tr seen p :
  In p seen -> prev_loop fuel L x tr seen (Some (OInt p)) = LOk (x, tr).
Proof.
  intro H. assert (Hz : zmem p seen = true).
  { unfold zmem. apply existsb_exists. exists p. split; [exact H|apply Z.eqb_refl]. }
  destruct fuel; cbn [prev_loop]; rewrite Hz; reflexivity.
Qed.

(* ---------- fuel: the loop always terminates within [load_fuel] ---------- *)
Lemma assocZ_In {A} (l : list (Z * A)) k v : assocZ l k = Some v -> In k (map fst l).
Proof.
  induction l as [|[k' v'] l IH]; cbn [assocZ map fst]; [discriminate|].
  destruct (k' =? k)%Z eqn:E.
  - apply Z.eqb_eq in E. intros _. left. exact E.
  - intro H. right. apply IH. exact H.
Qed.

(* number of distinct section offsets not yet seen *)
Lemma prev_loop_fuel L : forall fuel x tr seen prev,
  NoDup seen -> incl seen (map fst (l_secs L)) ->
  (length (l_secs L) < fuel + length seen)%nat ->
  prev_loop fuel L x tr seen prev <> LOutOfFuel.
Proof.
  induction fuel as [|fuel IH]; intros x tr seen prev Hnd Hincl Hlen.
  - (* fuel 0: seen already covers all offsets; any new p would be a fresh key -- impossible only
       if we get to read it, but with no fuel the loop stops exactly when p is unseen; show p unseen
       cannot have a section... it may not: then the result would be OutOfFuel.  So we need
       length seen > length secs, impossible by NoDup_incl_length. *)
    exfalso. pose proof (NoDup_incl_length Hnd Hincl) as H. rewrite map_length in H. cbn in Hlen. lia.
  - cbn [prev_loop]. destruct prev as [[| | z | | | | | | |]|]; try discriminate.
    destruct (zmem z seen) eqn:Hz; [discriminate|].
    destruct ((z <? 0)%Z || (l_buflen L <? z)%Z); [discriminate|].
    assert (Hm : forall y st, merge_stm L y st <> LOutOfFuel).
    { intros y st. unfold merge_stm. destruct st as [[| | q | | | | | | |]|]; try discriminate.
      destruct ((q <? 0)%Z || (l_buflen L <? q)%Z); [discriminate|]. destruct (sec_at L q) as [[sx ?]|]; discriminate. }
    destruct (merge_stm L x (dict_get tr K_XRefStm)) as [x1|e|] eqn:E1; [|discriminate|exact (fun _ => Hm _ _ E1)].
    unfold sec_at at 1. destruct (assocZ (l_secs L) z) as [s|] eqn:Hs; [|discriminate].
    assert (Hnd' : NoDup (z :: seen)) by (constructor; [apply zmem_false; exact Hz|exact Hnd]).
    assert (Hincl' : incl (z :: seen) (map fst (l_secs L))).
    { intros q [<-|Hq]; [eapply assocZ_In; exact Hs|apply Hincl; exact Hq]. }
    destruct (merge_stm L (sec_xref s) (dict_get (s_trailer s) K_XRefStm)) as [px1|e|] eqn:E2; [|discriminate|exact (fun _ => Hm _ _ E2)].
    apply IH; [exact Hnd'|exact Hincl'|cbn [length]; lia].
Qed.

Theorem load_never_out_of_fuel : forall L, load_abs (load_fuel L) L <> LOutOfFuel.
Proof.
  intro L. unfold load_abs, read_xref.
  destruct ((l_startxref L <? 0)%Z || (l_buflen L <? l_startxref L)%Z); [discriminate|].
  destruct (sec_at L (l_startxref L)) as [[x0 tr0]|]; [|discriminate].
  pose proof (prev_loop_fuel L (load_fuel L) x0 (dict_swap_remove tr0 K_Prev) [] (dict_get tr0 K_Prev)
                (NoDup_nil _) (incl_nil_l _)) as H.
  destruct (prev_loop (load_fuel L) L x0 (dict_swap_remove tr0 K_Prev) [] (dict_get tr0 K_Prev)) as [[x tr]|e|].
  - destruct (4294967296 <=? xt_max_id (xr_entries x) + 1)%N; discriminate.
  - discriminate.
  - exfalso. apply H; [|reflexivity]. unfold load_fuel. cbn [length]. lia.
Qed.

(* ---------- appending a revision: reload and re-loadability ---------- *)
(* A layout whose sections form a proper Prev chain from startxref, without cycle; hybrid-reference sections
   (an XRefStm key naming a cross-reference stream inside the buffer) are allowed anywhere in the chain.
   Trailer keys are unique (IndexMap). *)
Definition chain_layout (L : layout) (s0 : section) (c : list (Z * section)) : Prop :=
  (0 <= l_startxref L <= l_buflen L)%Z /\
  assocZ (l_secs L) (l_startxref L) = Some s0 /\
  dict_wf (s_trailer s0) /\ stm_ok L (s_trailer s0) /\
  is_chain L (dict_get (s_trailer s0) K_Prev) c /\
  NoDup (l_startxref L :: map fst c).

(* the newest section as the loop leaves it: its XRefStm is read in the first iteration, i.e. only when a Prev
   section exists *)
Definition head_xref (L : layout) (s0 : section) (c : list (Z * section)) : xref :=
  match c with [] => sec_xref s0 | _ => sec_full L s0 end.
Definition head_trailer (s0 : section) (c : list (Z * section)) : dict :=
  match c with
  | [] => dict_swap_remove (s_trailer s0) K_Prev
  | _ => dict_swap_remove (dict_swap_remove (s_trailer s0) K_Prev) K_XRefStm
  end.

(* the tables in the order in which an object number is looked up: newest section first, and for every
   section its own table, then the cross-reference stream its trailer names by XRefStm, then Prev *)
Definition sec_tabs (L : layout) (s : section) : list xmap :=
  parse_entries (s_stream s) (s_raw s) ::
  match stm_target L (s_trailer s) with
  | Some sx => [parse_entries (s_stream sx) (s_raw sx)]
  | None => []
  end.
Definition chain_tabs (L : layout) (s0 : section) (c : list (Z * section)) : list xmap :=
  match c with
  | [] => [parse_entries (s_stream s0) (s_raw s0)]
  | _ => flat_map (sec_tabs L) (s0 :: map snd c)
  end.

Lemma first_def_app a b k :
  first_def (a ++ b) k = match first_def a k with Some e => Some e | None => first_def b k end.
Proof. induction a as [|t a IH]; cbn [app first_def]; [reflexivity|]. destruct (xget t k); [reflexivity | exact IH]. Qed.

Lemma sec_full_tabs L s k : xget (xr_entries (sec_full L s)) k = first_def (sec_tabs L s) k.
Proof.
  unfold sec_full, sec_tabs. destruct (stm_target L (s_trailer s)) as [sx|]; cbn [first_def xmerge xr_entries sec_xref].
  - rewrite xget_merge. destruct (xget (parse_entries (s_stream s) (s_raw s)) k); [reflexivity|].
    destruct (xget (parse_entries (s_stream sx) (s_raw sx)) k); reflexivity.
  - destruct (xget (parse_entries (s_stream s) (s_raw s)) k); reflexivity.
Qed.

Lemma first_def_fulls L : forall (l : list section) k,
  first_def (map (fun s => xr_entries (sec_full L s)) l) k = first_def (flat_map (sec_tabs L) l) k.
Proof.
  induction l as [|s l IH]; intro k; cbn [map flat_map first_def]; [reflexivity|].
  rewrite first_def_app, <- sec_full_tabs. destruct (xget (xr_entries (sec_full L s)) k); [reflexivity | apply IH].
Qed.

Lemma stm_target_swap_prev (tr : dict) : dict_wf tr ->
  dict_get (dict_swap_remove tr K_Prev) K_XRefStm = dict_get tr K_XRefStm.
Proof. intro W. apply dict_get_swap_remove_other; [exact W | discriminate]. Qed.

(* the Prev loop started on the newest section *)
Lemma prev_loop_head L s0 c fuel :
  chain_layout L s0 c -> (length c <= fuel)%nat ->
  prev_loop fuel L (sec_xref s0) (dict_swap_remove (s_trailer s0) K_Prev) [] (dict_get (s_trailer s0) K_Prev) =
  LOk (fold_left xmerge (map (fun ps => sec_full L (snd ps)) c) (head_xref L s0 c), head_trailer s0 c).
Proof.
  intros (Hb & Hs & W & Hok & Hc & Hnd) Hfuel.
  destruct c as [|[p s] c].
  - cbn [is_chain] in Hc. cbn [map fold_left head_xref head_trailer].
    destruct fuel; cbn [prev_loop]; destruct (dict_get (s_trailer s0) K_Prev) as [[]|]; try reflexivity; contradiction.
  - cbn [is_chain] in Hc. destruct Hc as (Ep & Hp & Hsp & Hokp & Hc). rewrite Ep.
    destruct fuel as [|fuel]; [cbn [length] in Hfuel; lia|].
    cbn [prev_loop zmem existsb].
    replace ((p <? 0)%Z || (l_buflen L <? p)%Z) with false
      by (symmetry; apply orb_false_iff; split; [apply Z.ltb_ge|apply Z.ltb_ge]; lia).
    rewrite (stm_target_swap_prev _ W).
    rewrite (merge_stm_ok L (sec_xref s0) (s_trailer s0) Hok). fold (sec_full L s0).
    unfold sec_at at 1. rewrite Hsp.
    rewrite (merge_stm_ok L (sec_xref s) (s_trailer s) Hokp). fold (sec_full L s).
    cbn [map fold_left snd head_xref head_trailer].
    inversion Hnd as [|? ? Hnotin Hnd']; subst. inversion Hnd' as [|? ? Hnotin' Hnd'']; subst.
    apply prev_loop_chain; auto.
    + apply dict_get_swap_remove_same. apply swap_remove_wf. exact W.
    + intros q Hq [Hqp|[]]. subst q. exact (Hnotin' Hq).
    + cbn [length] in Hfuel. lia.
Qed.

Theorem read_xref_chain : forall L s0 c fuel,
  chain_layout L s0 c -> (length c <= fuel)%nat ->
  (xt_max_id (xr_entries (fold_left xmerge (map (fun ps => sec_full L (snd ps)) c) (head_xref L s0 c))) + 1 < 4294967296)%N ->
  exists m, read_xref fuel L = LOk m /\
            m_trailer m = head_trailer s0 c /\
            m_start m = Z.to_N (l_startxref L) /\
            xr_stream (m_xref m) = s_stream s0 /\
            forall k, xget (xr_entries (m_xref m)) k = first_def (chain_tabs L s0 c) k.
Proof.
  intros L s0 c fuel HL Hfuel Hmax.
  pose proof (prev_loop_head L s0 c fuel HL Hfuel) as Hloop.
  destruct HL as (Hb & Hs & W & Hok & Hc & Hnd).
  unfold read_xref.
  replace ((l_startxref L <? 0)%Z || (l_buflen L <? l_startxref L)%Z) with false
    by (symmetry; apply orb_false_iff; split; apply Z.ltb_ge; lia).
  unfold sec_at. rewrite Hs, Hloop.
  apply N.ltb_lt in Hmax. rewrite N.leb_antisym, Hmax. cbn [negb].
  eexists. split; [reflexivity|]. cbn [m_trailer m_start m_xref xr_stream xr_entries].
  split; [reflexivity|]. split; [reflexivity|]. split.
  - rewrite fold_xmerge_stream. destruct c; [reflexivity|]. cbn [head_xref]. unfold sec_full.
    destruct (stm_target L (s_trailer s0)); reflexivity.
  - intro k. rewrite merge_chain_latest. destruct c as [|ps c].
    + cbn [map head_xref chain_tabs first_def sec_xref xr_entries]. reflexivity.
    + unfold chain_tabs, head_xref.
      change (map xr_entries (sec_full L s0 :: map (fun ps0 => sec_full L (snd ps0)) (ps :: c)))
        with (map xr_entries (map (sec_full L) (s0 :: map snd (ps :: c)))) at 1 || idtac.
      rewrite <- first_def_fulls. cbn [map]. rewrite !map_map. reflexivity.
Qed.

(* appending one revision: a new section at a fresh offset whose Prev is the old startxref *)
Definition extend_layout (L : layout) (off : Z) (sec : section) (objs : list (N * placed)) (len : Z) : layout :=
  {| l_buflen := len; l_startxref := off; l_secs := (off, sec) :: l_secs L; l_objs := objs ++ l_objs L |}.

Lemma stm_extend L off sec objs len tr :
  (l_buflen L < off)%Z -> (l_buflen L <= len)%Z -> stm_ok L tr ->
  stm_ok (extend_layout L off sec objs len) tr /\ stm_target (extend_layout L off sec objs len) tr = stm_target L tr.
Proof.
  intros Hoff Hlen. unfold stm_ok, stm_target. destruct (dict_get tr K_XRefStm) as [[| | q | | | | | | |]|]; try (intros; split; [exact I | reflexivity]).
  intros [Hq Hs]. cbn [extend_layout l_buflen l_secs assocZ].
  replace (off =? q)%Z with false by (symmetry; apply Z.eqb_neq; lia).
  split; [split; [lia | exact Hs]|].
  replace ((q <? 0)%Z || (len <? q)%Z) with false by (symmetry; apply orb_false_iff; split; apply Z.ltb_ge; lia).
  replace ((q <? 0)%Z || (l_buflen L <? q)%Z) with false by (symmetry; apply orb_false_iff; split; apply Z.ltb_ge; lia).
  reflexivity.
Qed.

Lemma is_chain_extend L off sec objs len : forall c prev,
  (l_buflen L < off)%Z -> (l_buflen L <= len)%Z -> ~ In off (map fst c) ->
  is_chain L prev c -> is_chain (extend_layout L off sec objs len) prev c.
Proof.
  induction c as [|[p s] c IH]; intros prev Hoff0 Hlen Hoff Hc; cbn [is_chain] in *; [exact Hc|].
  destruct Hc as (-> & Hp & Hs & Hok & Hc). cbn [map fst In] in Hoff.
  split; [reflexivity|]. split; [cbn [extend_layout l_buflen]; lia|]. split; [|split].
  - cbn [extend_layout l_secs assocZ]. destruct (off =? p)%Z eqn:E; [|exact Hs].
    apply Z.eqb_eq in E. exfalso. apply Hoff. left. symmetry. exact E.
  - apply (stm_extend L off sec objs len _ Hoff0 Hlen Hok).
  - apply IH; [exact Hoff0 | exact Hlen | |exact Hc]. intro H. apply Hoff. right. exact H.
Qed.

(* the sections of the old chain contribute the same tables in the extended layout *)
Lemma chain_fulls_extend L off sec objs len : forall c prev,
  (l_buflen L < off)%Z -> (l_buflen L <= len)%Z -> is_chain L prev c ->
  map (fun ps => sec_full (extend_layout L off sec objs len) (snd ps)) c = map (fun ps => sec_full L (snd ps)) c.
Proof.
  induction c as [|[p s] c IH]; intros prev Hoff Hlen Hc; [reflexivity|]. cbn [is_chain] in Hc.
  destruct Hc as (_ & _ & _ & Hok & Hc). cbn [map snd]. f_equal; [|apply (IH _ Hoff Hlen Hc)].
  unfold sec_full. destruct (stm_extend L off sec objs len _ Hoff Hlen Hok) as [_ ->]. reflexivity.
Qed.

(* re-loadability: the extended layout is again a chain layout, one section longer *)
Theorem extend_chain_layout : forall L s0 c off sec objs len,
  chain_layout L s0 c ->
  (l_buflen L < off <= len)%Z ->
  (forall p, In p (l_startxref L :: map fst c) -> (p <= l_buflen L)%Z) ->
  dict_get (s_trailer sec) K_Prev = Some (OInt (l_startxref L)) ->
  dict_wf (s_trailer sec) -> stm_ok (extend_layout L off sec objs len) (s_trailer sec) ->
  chain_layout (extend_layout L off sec objs len) sec ((l_startxref L, s0) :: c).
Proof.
  intros L s0 c off sec objs len (Hb & Hs & W & Hok & Hc & Hnd) Hoff Hold Hprev Wn Hx.
  assert (Hfresh : ~ In off (l_startxref L :: map fst c)).
  { intro H. specialize (Hold off H). lia. }
  unfold chain_layout. cbn [extend_layout l_startxref l_buflen l_secs assocZ].
  split; [lia|]. rewrite Z.eqb_refl. split; [reflexivity|]. split; [exact Wn|]. split; [exact Hx|]. split.
  - cbn [is_chain]. split; [exact Hprev|]. split; [cbn [extend_layout l_buflen]; lia|]. split; [|split].
    + cbn [extend_layout l_secs assocZ]. destruct (off =? l_startxref L)%Z eqn:E; [|exact Hs].
      apply Z.eqb_eq in E. exfalso. apply Hfresh. left. symmetry. exact E.
    + apply (stm_extend L off sec objs len); [lia | lia | exact Hok].
    + apply is_chain_extend; [lia | lia | |exact Hc]. intro H. apply Hfresh. right. exact H.
  - cbn [map fst]. constructor; [exact Hfresh|exact Hnd].
Qed.

(* inc_save_reload at the level of the cross-reference table: after appending a revision the merged
   table gives every object number the entry of the NEW section (its own table, then the cross-reference
   stream its trailer names) if it has one, and otherwise exactly the entry the reader found before the
   update.  (A single hybrid-reference section is the one exception the hypothesis excludes: its XRefStm is
   not read as long as it has no Prev, and is read once it is reached through Prev.) *)
Theorem reload_after_append : forall L s0 c off sec objs len m fuel,
  chain_layout L s0 c ->
  read_xref fuel L = LOk m -> (length c <= fuel)%nat ->
  (l_buflen L < off <= len)%Z ->
  (forall p, In p (l_startxref L :: map fst c) -> (p <= l_buflen L)%Z) ->
  dict_get (s_trailer sec) K_Prev = Some (OInt (l_startxref L)) ->
  dict_wf (s_trailer sec) -> stm_ok (extend_layout L off sec objs len) (s_trailer sec) ->
  (c = [] -> stm_target L (s_trailer s0) = None) ->
  (xt_max_id (xr_entries (fold_left xmerge (map (fun ps => sec_full (extend_layout L off sec objs len) (snd ps)) ((l_startxref L, s0) :: c))
                                    (sec_full (extend_layout L off sec objs len) sec))) + 1 < 4294967296)%N ->
  exists m', read_xref (S fuel) (extend_layout L off sec objs len) = LOk m' /\
             m_trailer m' = dict_swap_remove (dict_swap_remove (s_trailer sec) K_Prev) K_XRefStm /\
             m_start m' = Z.to_N off /\
             forall k, xget (xr_entries (m_xref m')) k =
                       match first_def (sec_tabs (extend_layout L off sec objs len) sec) k with
                       | Some e => Some e
                       | None => xget (xr_entries (m_xref m)) k
                       end.
Proof.
  intros L s0 c off sec objs len m fuel HL Hread Hfuel Hoff Hold Hprev Wn Hx Hsingle Hmax.
  pose proof (extend_chain_layout L s0 c off sec objs len HL Hoff Hold Hprev Wn Hx) as HL'.
  set (L' := extend_layout L off sec objs len) in *.
  destruct (read_xref_chain L' sec ((l_startxref L, s0) :: c) (S fuel) HL' ltac:(cbn [length]; lia) Hmax) as (m' & Hr' & Ht' & Hs' & _ & He').
  exists m'. split; [exact Hr'|]. split; [exact Ht'|]. split; [exact Hs'|].
  intro k. rewrite He'. unfold chain_tabs. cbn [flat_map map snd]. rewrite first_def_app.
  destruct (first_def (sec_tabs L' sec) k); [reflexivity|].
  (* the old run *)
  pose proof (prev_loop_head L s0 c fuel HL Hfuel) as Hloop.
  destruct HL as (Hb & Hs & W & Hok & Hc & Hnd).
  unfold read_xref in Hread.
  replace ((l_startxref L <? 0)%Z || (l_buflen L <? l_startxref L)%Z) with false in Hread
    by (symmetry; apply orb_false_iff; split; apply Z.ltb_ge; lia).
  unfold sec_at in Hread. rewrite Hs, Hloop in Hread.
  destruct (4294967296 <=? xt_max_id (xr_entries (fold_left xmerge (map (fun ps => sec_full L (snd ps)) c) (head_xref L s0 c))) + 1)%N;
    [discriminate|].
  inversion Hread; subst m. cbn [m_xref xr_entries].
  rewrite merge_chain_latest.
  (* the old sections contribute the same tables in the new layout *)
  assert (Esame : forall s, stm_ok L (s_trailer s) -> sec_tabs L' s = sec_tabs L s).
  { intros s Hs0. unfold sec_tabs, L'. destruct (stm_extend L off sec objs len _ ltac:(lia) ltac:(lia) Hs0) as [_ ->]. reflexivity. }
  assert (Eold : forall c0 prev, is_chain L prev c0 -> flat_map (sec_tabs L') (map snd c0) = flat_map (sec_tabs L) (map snd c0)).
  { induction c0 as [|[p s] c0 IH]; intros prev H0; [reflexivity|]. cbn [is_chain] in H0. destruct H0 as (_ & _ & _ & Hk & H0).
    cbn [map snd flat_map]. rewrite (Esame s Hk), (IH _ H0). reflexivity. }
  rewrite (Esame s0 Hok), (Eold c _ Hc).
  change (sec_tabs L s0 ++ flat_map (sec_tabs L) (map snd c)) with (flat_map (sec_tabs L) (s0 :: map snd c)).
  rewrite <- first_def_fulls. cbn [map]. rewrite !map_map.
  destruct c as [|ps c]; [|reflexivity].
  cbn [map head_xref first_def]. unfold sec_full. rewrite (Hsingle eq_refl). reflexivity.
Qed.
