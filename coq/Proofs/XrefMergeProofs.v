(* XrefMergeProofs.v -- C07, abstract core: Xref::merge over a Prev chain gives every object number
   the entry of the NEWEST section that has one; the Prev loop computes exactly that fold on every
   chain, stops on cycles, and never runs out of the fuel [load_fuel]. *)
From LV Require Import Base.Bytes Base.Sx Model.Obj Model.Save Model.XrefMerge.

(* ---------- the table ---------- *)
Lemma xget_insert m k e k' :
  xget (xinsert m k e) k' = if (k =? k')%N then Some e else xget m k'.
Proof.
  induction m as [|[a ea] m IH]; cbn [xinsert xget].
  - reflexivity.
  - destruct (a =? k)%N eqn:Eak.
    + apply N.eqb_eq in Eak; subst a. cbn [xget]. destruct (k =? k')%N; reflexivity.
    + destruct (k <? a)%N.
      * cbn [xget]. destruct (k =? k')%N; reflexivity.
      * cbn [xget]. rewrite IH. destruct (a =? k')%N eqn:Eak'; [|reflexivity].
        apply N.eqb_eq in Eak'; subst a. rewrite N.eqb_sym, Eak. reflexivity.
Qed.

Lemma xget_or_insert m k e k' :
  xget (xt_or_insert m k e) k' =
  match xget m k' with Some e' => Some e' | None => if (k =? k')%N then Some e else None end.
Proof.
  unfold xt_or_insert. destruct (xget m k) eqn:G.
  - destruct (xget m k') eqn:G'; [reflexivity|].
    destruct (k =? k')%N eqn:E; [|reflexivity]. apply N.eqb_eq in E; subst. congruence.
  - rewrite xget_insert. destruct (k =? k')%N eqn:E.
    + apply N.eqb_eq in E; subst. rewrite G. reflexivity.
    + destruct (xget m k'); reflexivity.
Qed.

(* Xref::merge = "insert if absent", pointwise *)
Lemma xget_merge b : forall a k,
  xget (xt_merge a b) k = match xget a k with Some e => Some e | None => xget b k end.
Proof.
  unfold xt_merge. induction b as [|[kb eb] b IH]; intros a k; cbn [fold_left fst snd xget].
  - destruct (xget a k); reflexivity.
  - rewrite IH, xget_or_insert. destruct (xget a k); [reflexivity|].
    destruct (kb =? k)%N; reflexivity.
Qed.

(* the entry of the newest table (first in the list) that has one *)
Fixpoint first_def (tabs : list xmap) (k : N) : option xentry :=
  match tabs with
  | [] => None
  | t :: tabs' => match xget t k with Some e => Some e | None => first_def tabs' k end
  end.

(* merge_chain_latest: for ALL chains of sections (x0 the newest, then the Prev chain in the order
   the loop reads it) and all object numbers *)
Theorem merge_chain_latest : forall (revs : list xref) (x0 : xref) (k : N),
  xget (xr_entries (fold_left xmerge revs x0)) k = first_def (map xr_entries (x0 :: revs)) k.
Proof.
  induction revs as [|r revs IH]; intros x0 k; cbn [fold_left map first_def].
  - destruct (xget (xr_entries x0) k); reflexivity.
  - rewrite IH. cbn [map first_def xmerge xr_entries]. rewrite xget_merge.
    destruct (xget (xr_entries x0) k); reflexivity.
Qed.

(* the merged table never changes type or declared size: both come from the newest section *)
Lemma fold_xmerge_stream revs : forall x0, xr_stream (fold_left xmerge revs x0) = xr_stream x0.
Proof. induction revs; intros; cbn [fold_left]; [reflexivity|]. rewrite IHrevs. reflexivity. Qed.

(* a free entry is no entry: a section that frees k does not hide an older definition *)
Lemma parse_entries_get_aux stream raw : forall m k,
  xget (fold_left (keep_entry stream) raw m) k =
  fold_left (fun acc kv =>
               if (fst kv =? k)%N then
                 match snd kv with
                 | RFree _ => acc
                 | RNormal off g =>
                   if stream then Some (XNormal off (g mod 65536))
                   else if (g <? 65536)%N then Some (XNormal off g) else acc
                 | RComp c i => if stream then Some (XCompressed c (i mod 65536)) else acc
                 end
               else acc) raw (xget m k).
Proof.
  induction raw as [|[i e] raw IH]; intros m k; cbn [fold_left]; [reflexivity|].
  rewrite IH. f_equal. unfold keep_entry; cbn [fst snd].
  destruct e as [g|off g|c idx].
  - destruct (i =? k)%N; reflexivity.
  - destruct stream.
    + rewrite xget_insert. destruct (i =? k)%N; reflexivity.
    + destruct (g <? 65536)%N; [rewrite xget_insert|]; destruct (i =? k)%N; reflexivity.
  - destruct stream; [rewrite xget_insert|]; destruct (i =? k)%N; reflexivity.
Qed.

Lemma only_free_no_entry stream raw k :
  (forall e, In (k, e) raw -> exists g, e = RFree g) ->
  xget (parse_entries stream raw) k = None.
Proof.
  intro H. unfold parse_entries. rewrite parse_entries_get_aux. cbn [xget].
  assert (G : forall acc, acc = None ->
    fold_left (fun acc kv =>
               if (fst kv =? k)%N then
                 match snd kv with
                 | RFree _ => acc
                 | RNormal off g =>
                   if stream then Some (XNormal off (g mod 65536))
                   else if (g <? 65536)%N then Some (XNormal off g) else acc
                 | RComp c i => if stream then Some (XCompressed c (i mod 65536)) else acc
                 end
               else acc) raw acc = None).
  { induction raw as [|[i e] raw IH]; intros acc Hacc; cbn [fold_left]; [exact Hacc|].
    apply IH.
    - intros e' Hin. apply H. right. exact Hin.
    - cbn [fst snd]. destruct (i =? k)%N eqn:E; [|exact Hacc].
      apply N.eqb_eq in E; subst i. destruct (H e (or_introl eq_refl)) as [g ->]. exact Hacc. }
  apply G. reflexivity.
Qed.

(* ---------- the Prev loop ---------- *)
(* A chain: the sections the loop reads, in order, each named by the Prev of the one before. *)
Fixpoint is_chain (L : layout) (prev : option obj) (c : list (Z * section)) : Prop :=
  match c with
  | [] => match prev with Some (OInt _) => False | _ => True end
  | (p, s) :: c' =>
    prev = Some (OInt p) /\ (0 <= p <= l_buflen L)%Z /\ assocZ (l_secs L) p = Some s /\
    is_chain L (dict_get (s_trailer s) K_Prev) c'
  end.

Lemma zmem_false p l : zmem p l = false <-> ~ In p l.
Proof.
  unfold zmem. split.
  - intros H Hin. assert (existsb (Z.eqb p) l = true) by (apply existsb_exists; exists p; split; [exact Hin|apply Z.eqb_refl]).
    congruence.
  - intro H. destruct (existsb (Z.eqb p) l) eqn:E; [|reflexivity].
    apply existsb_exists in E. destruct E as [q [Hq Hpq]]. apply Z.eqb_eq in Hpq; subst. contradiction.
Qed.

Lemma dict_get_swap_remove_absent d k :
  dict_get d k = None -> dict_swap_remove d k = d.
Proof. intro H. unfold dict_swap_remove, dict_has. rewrite H. reflexivity. Qed.

(* without an XRefStm key in the newest trailer, the loop is the fold of Xref::merge over the chain *)
Lemma prev_loop_chain L : forall c fuel x tr seen prev,
  is_chain L prev c ->
  dict_get tr K_XRefStm = None ->
  NoDup (map fst c) -> (forall p, In p (map fst c) -> ~ In p seen) ->
  (length c <= fuel)%nat ->
  prev_loop fuel L x tr seen prev = LOk (fold_left xmerge (map (fun ps => sec_xref (snd ps)) c) x, tr).
Proof.
  induction c as [|[p s] c IH]; intros fuel x tr seen prev Hc Hstm Hnd Hseen Hfuel.
  - cbn [is_chain] in Hc. cbn [map fold_left].
    destruct fuel; cbn [prev_loop]; destruct prev as [[]|]; try reflexivity; contradiction.
  - cbn [is_chain] in Hc. destruct Hc as (-> & Hp & Hs & Hc).
    destruct fuel as [|fuel]; [cbn [length] in Hfuel; lia|].
    cbn [prev_loop].
    assert (Hz : zmem p seen = false) by (apply zmem_false, Hseen; left; reflexivity).
    rewrite Hz.
    replace ((p <? 0)%Z || (l_buflen L <? p)%Z) with false
      by (symmetry; apply orb_false_iff; split; [apply Z.ltb_ge|apply Z.ltb_ge]; lia).
    unfold sec_at. rewrite Hs, Hstm.
    rewrite (dict_get_swap_remove_absent _ _ Hstm).
    cbn [map fold_left snd].
    inversion Hnd as [|? ? Hnotin Hnd']; subst.
    apply IH; auto.
    + intros q Hq [Hqp|Hqs].
      * subst q. exact (Hnotin Hq).
      * apply (Hseen q); [right; exact Hq|exact Hqs].
    + cbn [length] in Hfuel. lia.
Qed.

(* a cycle is cut by `already_seen`: a Prev that names a section already read ends the loop *)
Lemma prev_loop_seen fuel L x tr seen p :
  In p seen -> prev_loop fuel L x tr seen (Some (OInt p)) = LOk (x, tr).
Proof.
  intro H. assert (Hz : zmem p seen = true).
  { unfold zmem. apply existsb_exists. exists p. split; [exact H|apply Z.eqb_refl]. }
  destruct fuel; cbn [prev_loop]; rewrite Hz; reflexivity.
Qed.

(* ---------- fuel: the loop always terminates within [load_fuel] ---------- *)
Lemma assocZ_In {A} (l : list (Z * A)) k v : assocZ l k = Some v -> In k (map fst l).
Proof.
  induction l as [|[k' v'] l IH]; cbn [assocZ map fst]; [discriminate|].
  destruct (k' =? k)%Z eqn:E.
  - apply Z.eqb_eq in E. intros _. left. exact E.
  - intro H. right. apply IH. exact H.
Qed.

(* number of distinct section offsets not yet seen *)
Lemma prev_loop_fuel L : forall fuel x tr seen prev,
  NoDup seen -> incl seen (map fst (l_secs L)) ->
  (length (l_secs L) < fuel + length seen)%nat ->
  prev_loop fuel L x tr seen prev <> LOutOfFuel.
Proof.
  induction fuel as [|fuel IH]; intros x tr seen prev Hnd Hincl Hlen.
  - (* fuel 0: seen already covers all offsets; any new p would be a fresh key -- impossible only
       if we get to read it, but with no fuel the loop stops exactly when p is unseen; show p unseen
       cannot have a section... it may not: then the result would be OutOfFuel.  So we need
       length seen > length secs, impossible by NoDup_incl_length. *)
    exfalso. pose proof (NoDup_incl_length Hnd Hincl) as H. rewrite map_length in H. cbn in Hlen. lia.
  - cbn [prev_loop]. destruct prev as [[| | z | | | | | | |]|]; try discriminate.
    destruct (zmem z seen) eqn:Hz; [discriminate|].
    destruct ((z <? 0)%Z || (l_buflen L <? z)%Z); [discriminate|].
    unfold sec_at. destruct (assocZ (l_secs L) z) as [s|] eqn:Hs; [|discriminate].
    assert (Hnd' : NoDup (z :: seen)) by (constructor; [apply zmem_false; exact Hz|exact Hnd]).
    assert (Hincl' : incl (z :: seen) (map fst (l_secs L))).
    { intros q [<-|Hq]; [eapply assocZ_In; exact Hs|apply Hincl; exact Hq]. }
    destruct (dict_get tr K_XRefStm) as [[| | q | | | | | | |]|];
      try (apply IH; [exact Hnd'|exact Hincl'|cbn [length]; lia]).
    destruct ((q <? 0)%Z || (l_buflen L <? q)%Z); [discriminate|].
    destruct (assocZ (l_secs L) q); [|discriminate].
    apply IH; [exact Hnd'|exact Hincl'|cbn [length]; lia].
Qed.

Theorem load_never_out_of_fuel : forall L, load_abs (load_fuel L) L <> LOutOfFuel.
Proof.
  intro L. unfold load_abs, read_xref.
  destruct ((l_startxref L <? 0)%Z || (l_buflen L <? l_startxref L)%Z); [discriminate|].
  destruct (sec_at L (l_startxref L)) as [[x0 tr0]|]; [|discriminate].
  pose proof (prev_loop_fuel L (load_fuel L) x0 (dict_swap_remove tr0 K_Prev) [] (dict_get tr0 K_Prev)
                (NoDup_nil _) (incl_nil_l _)) as H.
  destruct (prev_loop (load_fuel L) L x0 (dict_swap_remove tr0 K_Prev) [] (dict_get tr0 K_Prev)) as [[x tr]|e|].
  - destruct (4294967296 <=? xt_max_id (xr_entries x) + 1)%N; discriminate.
  - discriminate.
  - exfalso. apply H; [|reflexivity]. unfold load_fuel. cbn [length]. lia.
Qed.
