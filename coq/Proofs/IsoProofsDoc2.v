(* IsoProofsDoc2.v -- C06, document level, revisions 2-4, direction lopdf -> standard: a document encrypted by lopdf
   (EncryptionState::try_from(V1 / V2 / V4), Document::encrypt) is opened by the standard's reader
   (Iso.open_document: find the encryption dictionary, read it with the defaults of Tables 20/21/25, Algorithm 6 / 7,
   decrypt every object) with the user and with the owner password; the original objects and trailer come back. *)
From LV Require Import Base.Bytes Base.Sx Model.Obj Model.DocQ Gen.Crypto
  Model.Crypto.Word Model.Crypto.RC4 Model.Crypto.PKCS5 Model.Crypto.Handler
  Spec.Crypto.Iso Spec.Crypto.IsoConcrete
  Proofs.CryptoProofs Proofs.CryptoProofsFilter Proofs.CryptoProofsObject Proofs.CryptoProofsDoc
  Proofs.IsoProofs Proofs.IsoProofsData Proofs.IsoProofsObj Proofs.IsoProofsFilter Proofs.IsoProofsAuth
  Proofs.IsoProofsDoc Proofs.IsoProofsRT.
Local Open Scope N_scope.

(* ---------- the standard's loop over the object map ---------- *)
Definition iso_norm_objs (ip : iparams) (m : objmap) : objmap := map (fun io => (fst io, iso_norm ip (snd io))) m.

Lemma iso_decrypt_objects_insert I ip fek id x m : ~ In id (map fst m) ->
  Iso.decrypt_objects I ip fek (Some id) (insert m id x) =
  option_map (fun r => insert r id x) (Iso.decrypt_objects I ip fek (Some id) m).
Proof.
  induction m as [|[i o] m IH]; cbn [insert map fst In]; intro H.
  - cbn [Iso.decrypt_objects]. rewrite oid_eqb_refl. reflexivity.
  - assert (E : oid_eqb i id = false) by (apply oid_eqb_false; intro E; apply H; left; exact E).
    assert (E' : oid_eqb id i = false) by (apply oid_eqb_false; intro E0; apply H; left; symmetry; exact E0).
    rewrite E. destruct (oid_ltb id i) eqn:L.
    + cbn [Iso.decrypt_objects]. rewrite oid_eqb_refl, E'.
      destruct (decrypt_indirect I ip fek i o) as [o'|]; [|reflexivity].
      destruct (Iso.decrypt_objects I ip fek (Some id) m) as [r|]; [|reflexivity].
      cbn [option_map insert]. rewrite E, L. reflexivity.
    + cbn [Iso.decrypt_objects]. rewrite E'. rewrite IH by (intro Hin; apply H; right; exact Hin).
      destruct (decrypt_indirect I ip fek i o) as [o'|]; [|destruct (Iso.decrypt_objects I ip fek (Some id) m); reflexivity].
      destruct (Iso.decrypt_objects I ip fek (Some id) m) as [r|]; [|reflexivity].
      cbn [option_map insert]. rewrite E, L. reflexivity.
Qed.

Section Doc2.
Variable P : prims.
Hypothesis md5_len : forall m, length (p_md5 P m) = 16%nat.
Hypothesis HA : aes_ok P.
Let I := iprims_of P.

Lemma iso_decrypt_objects_rt ip fek skip m :
  method_ok (string_method ip) fek -> (forall sd, method_ok (stream_method ip sd) fek) ->
  (forall s, skip = Some s -> ~ In s (map fst m)) -> forall ivs,
  Iso.decrypt_objects I ip fek skip (fst (Iso.encrypt_objects I ip fek m ivs)) = Some (iso_norm_objs ip m).
Proof.
  intros H1 H2. induction m as [|[id o] m IH]; intros Hs ivs; [reflexivity|].
  cbn [Iso.encrypt_objects fst snd Iso.decrypt_objects iso_norm_objs map].
  assert (E : (match skip with Some s => oid_eqb s id | None => false end) = false).
  { destruct skip as [s|]; [|reflexivity]. apply oid_eqb_false. intro E. subst s.
    apply (Hs id eq_refl). left. reflexivity. }
  rewrite E. unfold I. rewrite (indirect_rt P md5_len HA ip fek id H1 H2 o ivs).
  fold I. fold (iso_norm_objs ip m). rewrite IH; [reflexivity|].
  intros s Es Hin. apply (Hs s Es). right. exact Hin.
Qed.

(* ---------- reading the dictionary EncryptionState::encode writes ---------- *)
Definition icfm_of (f : cfm) : icfm :=
  match f with CF_Identity => ICF_None | CF_RC4 => ICF_V2 | CF_AESV2 => ICF_AESV2 | CF_AESV3 => ICF_AESV3 end.

Definition enc_cf_entry (nf : bytes * cfm) : bytes * obj :=
  (fst nf, ODict (dict_set (dict_set [] K_Type (OName N_CryptFilter)) K_CFM (OName (cfm_method (snd nf))))).

Lemma dict_set_notin d k v : ~ In k (map fst d) -> dict_set d k v = d ++ [(k, v)].
Proof.
  induction d as [|[k0 v0] d IH]; cbn [dict_set map fst In app]; intro H; [reflexivity|].
  destruct (bytes_eqb k0 k) eqn:E; [apply bytes_eqb_eq in E; exfalso; apply H; left; exact E|].
  rewrite IH by (intro Hin; apply H; right; exact Hin). reflexivity.
Qed.

Lemma encode_cf_fold cfs : NoDup (map fst cfs) -> forall acc, (forall k, In k (map fst cfs) -> ~ In k (map fst acc)) ->
  fold_left (fun fs nf => dict_set fs (fst nf)
               (ODict (dict_set (dict_set [] K_Type (OName N_CryptFilter)) K_CFM (OName (cfm_method (snd nf)))))) cfs acc
  = acc ++ map enc_cf_entry cfs.
Proof.
  induction cfs as [|[n f] cfs IH]; intros ND acc Hacc; [cbn [fold_left map]; rewrite app_nil_r; reflexivity|].
  cbn [map fst] in ND. inversion ND as [|? ? Hn ND']; subst.
  cbn [fold_left fst snd]. rewrite (dict_set_notin acc n) by (apply Hacc; cbn [map fst In]; left; reflexivity).
  rewrite (IH ND').
  - rewrite <- app_assoc. reflexivity.
  - intros k Hk. rewrite map_app. cbn [map fst]. intro Hin. apply in_app_or in Hin. destruct Hin as [Hin|[Hin|[]]].
    + apply (Hacc k); [cbn [map fst In]; right; exact Hk | exact Hin].
    + subst k. apply Hn. exact Hk.
Qed.

Lemma read_cf_entries cfs : read_cf (map enc_cf_entry cfs) = Some (map (fun nf => (fst nf, icfm_of (snd nf))) cfs).
Proof.
  induction cfs as [|[n f] cfs IH]; [reflexivity|]. cbn [map read_cf enc_cf_entry fst snd]. rewrite IH.
  destruct f; reflexivity.
Qed.

(* the parameters the standard reads out of lopdf's dictionary *)
Definition ip_of_st (st : estate) : iparams :=
  let v4 := (4 <=? es_version st)%Z in
  let r4 := (4 <=? es_revision st)%Z in
  {| ip_V := es_version st; ip_R := es_revision st;
     ip_Length := (match es_key_length st with Some l => l | None => 40 end);
     ip_O := es_O st; ip_U := es_U st; ip_OE := []; ip_UE := []; ip_Perms := [];
     ip_P := p_value_i64 (es_perms st);
     ip_EncryptMetadata := (if v4 then es_encrypt_metadata st else true);
     ip_CF := (if v4 && r4 then map (fun nf => (fst nf, icfm_of (snd nf))) (es_crypt_filters st) else []);
     ip_StmF := (if r4 then es_stmf st else iN_Identity);
     ip_StrF := (if r4 then es_strf st else iN_Identity);
     ip_EFF := (if r4 then es_eff st else None) |}.

(* the states EncryptionState::try_from makes for V1, V2, V4 *)
Definition st_shape_r4 (st : estate) : Prop :=
  (es_version st = 1%Z /\ es_revision st = 2%Z /\ es_key_length st = None) \/
  (es_version st = 2%Z /\ es_revision st = 3%Z /\ exists kl, es_key_length st = Some kl) \/
  (es_version st = 4%Z /\ es_revision st = 4%Z /\ es_key_length st = Some 128).

Theorem read_params_encode st : st_shape_r4 st -> NoDup (map fst (es_crypt_filters st)) ->
  read_params (encode st) = Some (ip_of_st st).
Proof.
  intros Hs ND. destruct st as [V R KL em cfs key stmf strf eff O OE U UE perms pe].
  unfold st_shape_r4 in Hs. cbn [es_version es_revision es_key_length] in Hs.
  unfold ip_of_st, encode.
  cbn [es_version es_revision es_key_length es_encrypt_metadata es_crypt_filters es_key es_stmf es_strf es_eff es_O es_OE es_U
       es_UE es_perms es_perms_enc] in *.
  destruct Hs as [(-> & -> & ->)|[(-> & -> & kl & ->)|(-> & -> & ->)]].
  - cbn [Z.leb Z.compare Pos.compare Pos.compare_cont andb dict_set].
    repeat (cbn [dict_set]; keq; cbv iota). unfold read_params. dg. reflexivity.
  - cbn [Z.leb Z.compare Pos.compare Pos.compare_cont andb dict_set].
    repeat (cbn [dict_set]; keq; cbv iota). unfold read_params. dg.
    cbn [Z.eqb Pos.eqb Z.leb Z.compare Pos.compare Pos.compare_cont]. rewrite N2Z.id. reflexivity.
  - cbn [Z.leb Z.compare Pos.compare Pos.compare_cont andb].
    rewrite (encode_cf_fold cfs ND []) by (intros k _ []). cbn [app].
    destruct eff as [e|]; repeat (cbn [dict_set]; keq; cbv iota); unfold read_params; dg;
      cbn [Z.eqb Pos.eqb Z.leb Z.compare Pos.compare Pos.compare_cont negb]; rewrite read_cf_entries;
      cbn [Z.to_N Z.of_N str_or_empty name_or]; dg; reflexivity.
Qed.

(* ---------- lopdf's state and the parameters read back describe the same choices ---------- *)
(* V 4: the crypt filter map has no entry for Identity, the names in use are defined (7.6.6), and the AES-256
   method does not occur with the 128-bit key *)
Record lst_cf_ok (st : estate) : Prop := {
  lo_identity : bt_get (es_crypt_filters st) N_Identity = None;
  lo_stmf : es_stmf st = N_Identity \/ bt_get (es_crypt_filters st) (es_stmf st) <> None;
  lo_strf : es_strf st = N_Identity \/ bt_get (es_crypt_filters st) (es_strf st) <> None;
  lo_eff : forall e, es_eff st = Some e -> e = N_Identity \/ bt_get (es_crypt_filters st) e <> None;
  lo_noaes3 : Forall (fun nf => snd nf <> CF_AESV3) (es_crypt_filters st);
  lo_key16 : length (es_key st) = 16%nat;
}.
Record lst_ok (st : estate) : Prop := {
  lo_shape : st_shape_r4 st;
  lo_key : (1 <= length (es_key st))%nat;
  (* V < 4: what try_from(V1 / V2) sets *)
  lo_v3 : (es_version st <? 4)%Z = true ->
          es_crypt_filters st = [] /\ es_stmf st = [] /\ es_strf st = [] /\ es_eff st = None /\ es_encrypt_metadata st = true;
  (* BTreeMap: one entry per name *)
  lo_nodup : NoDup (map fst (es_crypt_filters st));
  lo_v4 : es_version st = 4%Z -> lst_cf_ok st;
}.

Lemma cfm_icfm f : meth_cfm (method_of_cfm (icfm_of f)) = f.
Proof. destruct f; reflexivity. Qed.

Lemma cf_lookup_map cfs n :
  option_map (fun c => meth_cfm (method_of_cfm c)) (cf_lookup (map (fun nf => (fst nf, icfm_of (snd nf))) cfs) n) = bt_get cfs n.
Proof.
  induction cfs as [|[k f] cfs IH]; [reflexivity|]. cbn [map fst snd cf_lookup bt_get].
  destruct (bytes_eqb k n); [cbn [option_map]; rewrite cfm_icfm; reflexivity|exact IH].
Qed.

Lemma cf_lookup_map_none cfs n :
  cf_lookup (map (fun nf => (fst nf, icfm_of (snd nf))) cfs) n = None <-> bt_get cfs n = None.
Proof.
  rewrite <- cf_lookup_map. destruct (cf_lookup _ n); cbn [option_map]; split; intro H; try discriminate; reflexivity.
Qed.

Lemma no_aesv3_map cfs : Forall (fun nf => snd nf <> CF_AESV3) cfs ->
  Forall (fun nc => snd nc <> ICF_AESV3) (map (fun nf : bytes * cfm => (fst nf, icfm_of (snd nf))) cfs).
Proof.
  induction 1 as [|[k f] cfs Hf _ IH]; cbn [map]; constructor; [|exact IH].
  cbn [fst snd] in *. destruct f; cbn [icfm_of]; try discriminate. exfalso. apply Hf. reflexivity.
Qed.

Lemma state_matches_lst st : lst_ok st -> state_matches st (ip_of_st st) (es_key st).
Proof.
  intro LO. pose proof (lo_shape _ LO) as Hs. unfold st_shape_r4 in Hs.
  assert (H4 : (ip_V (ip_of_st st) <? 4)%Z = false -> es_version st = 4%Z /\ es_revision st = 4%Z).
  { cbn [ip_of_st ip_V]. intro HV. destruct Hs as [(E & _)|[(E & _)|(E & E2 & _)]]; rewrite E in HV; try discriminate HV. split; assumption. }
  assert (HCF : (ip_V (ip_of_st st) <? 4)%Z = false ->
                ip_CF (ip_of_st st) = map (fun nf => (fst nf, icfm_of (snd nf))) (es_crypt_filters st)).
  { intro HV. destruct (H4 HV) as [E E2]. unfold ip_of_st. cbn [ip_CF]. rewrite E, E2. reflexivity. }
  assert (Hdef : (ip_V (ip_of_st st) <? 4)%Z = false -> forall n, (n = N_Identity \/ bt_get (es_crypt_filters st) n <> None) ->
                 defined (ip_of_st st) n).
  { intros HV n [Hn|Hn]; [left; exact Hn|right]. rewrite (HCF HV). intro H. apply cf_lookup_map_none in H. contradiction. }
  constructor.
  - reflexivity.
  - exact (lo_key _ LO).
  - cbn [ip_of_st ip_EncryptMetadata]. destruct (4 <=? es_version st)%Z eqn:E4; [reflexivity|].
    apply (lo_v3 _ LO). apply Z.ltb_lt. apply Z.leb_gt in E4. exact E4.
  - intro HV. cbn [ip_of_st ip_V] in HV. destruct (lo_v3 _ LO HV) as (A & B & C & D & _). repeat split; assumption.
  - intro HV. rewrite (HCF HV). intro n. symmetry. apply cf_lookup_map.
  - intro HV. destruct (H4 HV) as [E E2].
    assert (Es : ip_StmF (ip_of_st st) = es_stmf st) by (cbn [ip_of_st ip_StmF]; rewrite E2; reflexivity).
    rewrite Es. split; [reflexivity|]. apply (Hdef HV). exact (lo_stmf _ (lo_v4 _ LO E)).
  - intro HV. destruct (H4 HV) as [E E2].
    assert (Es : ip_StrF (ip_of_st st) = es_strf st) by (cbn [ip_of_st ip_StrF]; rewrite E2; reflexivity).
    rewrite Es. split; [reflexivity|]. apply (Hdef HV). exact (lo_strf _ (lo_v4 _ LO E)).
  - intro HV. destruct (H4 HV) as [E E2]. rewrite (HCF HV). apply cf_lookup_map_none. exact (lo_identity _ (lo_v4 _ LO E)).
  - intro HV. destruct (H4 HV) as [E E2].
    assert (Es : ip_EFF (ip_of_st st) = es_eff st) by (cbn [ip_of_st ip_EFF]; rewrite E2; reflexivity).
    rewrite Es. split; [reflexivity|]. intros e He. apply (Hdef HV). exact (lo_eff _ (lo_v4 _ LO E) e He).
  - intros HV n. destruct (H4 HV) as [E E2].
    apply resolve_v4_ok; [|exact (lo_key16 _ (lo_v4 _ LO E))]. rewrite (HCF HV). apply no_aesv3_map.
    exact (lo_noaes3 _ (lo_v4 _ LO E)).
Qed.

Lemma remove_plain_set_fresh d k v : dict_get d k = None -> dict_remove_plain (dict_set d k v) k = d.
Proof.
  induction d as [|[k0 v0] d IH]; cbn [dict_get dict_set dict_remove_plain]; intro H.
  - rewrite bytes_eqb_refl. reflexivity.
  - destruct (bytes_eqb k0 k) eqn:E; [discriminate|]. cbn [dict_remove_plain]. rewrite E, IH by exact H. reflexivity.
Qed.

(* the standard's reader opens what lopdf wrote, for ANY state of the shapes try_from(V1 / V2 / V4) makes and any
   password for which the standard's opening procedure yields the key lopdf encrypted with *)
Theorem iso_opens_lopdf_r4 st d ivs d1 pw :
  lst_ok st -> max_id_ok d -> dict_get (d_trailer d) K_Encrypt = None ->
  Forall (fun io => indirect_ok (ip_of_st st) (snd io)) (d_objects d) ->
  doc_encrypt P st d ivs = DOk d1 tt ->
  open_key I (ip_of_st st) (file_id0 (d_trailer d)) pw = Some (es_key st) ->
  open_document I d1 pw =
  Opened {| d_version := d_version d; d_binary_mark := d_binary_mark d; d_trailer := d_trailer d;
            d_objects := iso_norm_objs (ip_of_st st) (d_objects d); d_max_id := d_max_id d + 1 |} (es_key st).
Proof.
  intros LO Hmax Htr Hobjs He Hopen.
  pose proof (state_matches_lst st LO) as SM. pose proof (agree_of_state _ _ _ SM) as AG.
  unfold doc_encrypt in He. destruct (is_encrypted d); [discriminate|].
  rewrite (encrypt_objects_refines P md5_len st _ _ AG _ Hobjs ivs) in He.
  destruct (d_max_id d =? u32_max); [discriminate|]. inversion He as [Hd1]. clear He Hd1.
  set (id := (d_max_id d + 1, 0)).
  set (m' := fst (Iso.encrypt_objects (iprims_of P) (ip_of_st st) (es_key st) (d_objects d) ivs)).
  assert (Hfresh : ~ In id (map fst (d_objects d))).
  { intro Hin. apply Hmax in Hin. subst id. cbn [fst] in Hin. lia. }
  assert (Hkeys : map fst m' = map fst (d_objects d)) by apply iso_encrypt_objects_keys.
  unfold open_document, find_encrypt. cbn [d_trailer d_objects d_version d_binary_mark d_max_id fst snd].
  change iK_Encrypt with K_Encrypt. rewrite dget_set_same.
  change (d_max_id d + 1, 0) with id. rewrite lookup_insert_same.
  rewrite (read_params_encode st (lo_shape _ LO) (lo_nodup _ LO)).
  assert (Hfid : file_id0 (dict_set (d_trailer d) K_Encrypt (ORef (d_max_id d + 1) 0)) = file_id0 (d_trailer d)).
  { unfold file_id0. rewrite dget_set_other by (cbv; discriminate). reflexivity. }
  rewrite Hfid. fold I. rewrite Hopen.
  rewrite iso_decrypt_objects_insert by (rewrite Hkeys; exact Hfresh).
  unfold m'. fold I.
  rewrite (iso_decrypt_objects_rt (ip_of_st st) (es_key st) (Some id) (d_objects d) (ag_str_ok _ _ _ AG) (ag_stm_ok _ _ _ AG)).
  2:{ intros s Es. inversion Es; subst s. exact Hfresh. }
  cbn [option_map].
  assert (Hfresh2 : ~ In id (map fst (iso_norm_objs (ip_of_st st) (d_objects d)))).
  { unfold iso_norm_objs. rewrite map_map. cbn [fst]. exact Hfresh. }
  rewrite remove_insert_fresh by exact Hfresh2.
  rewrite remove_plain_set_fresh by exact Htr. reflexivity.
Qed.

End Doc2.

(* ---------- EncryptionState::try_from(V1 / V2 / V4) ---------- *)
(* Permissions holds defined flag bits only (bitflags; from_bits_truncate) *)
Definition perms_ok (perms : N) : Prop := N.land perms PERM_FLAGS = perms.

Lemma perms_sweep :
  below_nat 4096 (fun f => let p := N.land f 3900 in
                           (perms_of_Z (p_value_i64 p) =? p) && conforming_P (p_value_i64 p)) = true.
Proof. vm_compute. reflexivity. Qed.

Lemma perms_roundtrip perms : perms_ok perms ->
  perms_of_Z (p_value_i64 perms) = perms /\ conforming_P (p_value_i64 perms) = true.
Proof.
  unfold perms_ok. change PERM_FLAGS with 3900. intro H.
  assert (Hlt : perms < 4096) by (rewrite <- H; apply (land_small_mod _ 3900 12); reflexivity).
  pose proof (below_nat_spec _ _ perms_sweep perms Hlt) as Hs. cbv beta zeta in Hs. rewrite H in Hs.
  apply andb_true_iff in Hs. destruct Hs as [H1 H2]. apply N.eqb_eq in H1. split; assumption.
Qed.

Section Try.
Variable P : prims.
Hypothesis md5_len : forall m, length (p_md5 P m) = 16%nat.
Let I := iprims_of P.
Variables (d : doc) (id0 : bytes).
Hypothesis Hid : file_id_0 d = Ok id0.

Lemma matches_with_O a R L O0 U Pz em o : matches_r4 a R L O0 U Pz em -> matches_r4 (with_O a o) R L o U Pz em.
Proof. intros [M1 M2 M3 M4 M5 M6 M7 M8 M9]. constructor; cbn [with_O pa_revision pa_length pa_O pa_U pa_perms pa_encrypt_metadata]; assumption || reflexivity. Qed.

Definition st_r4 (v R : Z) (len : option N) (L : N) (em : bool) (perms : N) (owner user arb : bytes)
           (cfs : cfmap) (stmf strf : bytes) : estate :=
  let Pz := p_value_i64 perms in
  let O := make_O P R L (Some (match owner with [] => user | _ => owner end)) user in
  {| es_version := v; es_revision := R; es_key_length := len; es_encrypt_metadata := em; es_crypt_filters := cfs;
     es_key := alg2 I R L O Pz id0 em user; es_stmf := stmf; es_strf := strf; es_eff := None;
     es_O := O; es_OE := []; es_U := make_U P R L O Pz id0 em user arb; es_UE := [];
     es_perms := perms; es_perms_enc := [] |}.

Lemma try_from_r4_eq v R len L em perms owner user rnd cfs stmf strf :
  matches_r4 (palg0 em len v R perms) R L [] [] (p_value_i64 perms) em ->
  try_from_r4 P d (palg0 em len v R perms) owner user rnd cfs stmf strf =
  Ok (st_r4 v R len L em perms owner user (Handler.draw rnd 0) cfs stmf strf).
Proof.
  intro M. unfold try_from_r4.
  rewrite (alg3_refines P md5_len _ _ _ _ _ _ _ (match owner with [] => user | _ => owner end) user M). cbn [rbind].
  set (o := alg3 (iprims_of P) R L _ user).
  pose proof (matches_with_O _ _ _ _ _ _ _ o M) as M'.
  assert (ER : pa_revision (with_O (palg0 em len v R perms) o) = R) by reflexivity. rewrite ER.
  destruct (Z.eqb_spec R 2) as [E2|E2].
  - subst R. rewrite (alg4_refines P md5_len _ _ _ _ _ _ d id0 user M' Hid). cbn [rbind].
    rewrite (alg2_refines P md5_len _ _ _ _ _ _ _ d id0 user M' Hid). cbn [rbind]. reflexivity.
  - rewrite (alg5_refines P md5_len _ _ _ _ _ _ _ d id0 user (Handler.draw rnd 0) M' Hid). cbn [rbind].
    rewrite (alg2_refines P md5_len _ _ _ _ _ _ _ d id0 user M' Hid). cbn [rbind].
    unfold st_r4, make_U. destruct (Z.eqb_spec R 2); [contradiction|]. reflexivity.
Qed.

(* the versions of EncryptionVersion for revisions 2-4 with the parameters the property quantifies over *)
Definition version_ok (v : eversion) : Prop :=
  match v with
  | EV1 owner user perms => perms_ok perms
  | EV2 owner user kl perms => perms_ok perms /\ key_length_ok kl
  | EV4 em cfs stmf strf owner user perms =>
    perms_ok perms /\ NoDup (map fst cfs) /\ bt_get cfs N_Identity = None /\
    (stmf = N_Identity \/ bt_get cfs stmf <> None) /\ (strf = N_Identity \/ bt_get cfs strf <> None) /\
    Forall (fun nf => snd nf <> CF_AESV3) cfs
  | _ => False
  end.
Definition v_user (v : eversion) : bytes :=
  match v with EV1 _ u _ | EV2 _ u _ _ | EV4 _ _ _ _ _ u _ | ER5 _ _ _ _ _ _ u _ | EV5 _ _ _ _ _ _ u _ => u end.
Definition v_owner (v : eversion) : bytes :=
  match v with EV1 o _ _ | EV2 o _ _ _ | EV4 _ _ _ _ o _ _ | ER5 _ _ _ _ _ o _ _ | EV5 _ _ _ _ _ o _ _ => o end.

Definition st_of_version (v : eversion) (rnd : list bytes) : estate :=
  let arb := Handler.draw rnd 0 in
  match v with
  | EV1 owner user perms => st_r4 1 2 None 40 true perms owner user arb [] [] []
  | EV2 owner user kl perms => st_r4 2 3 (Some kl) kl true perms owner user arb [] [] []
  | EV4 em cfs stmf strf owner user perms => st_r4 4 4 (Some 128) 128 em perms owner user arb cfs stmf strf
  | _ => st_r4 0 0 None 0 true 0 [] [] [] [] [] []
  end.

Lemma matches_palg0 v R len L em perms :
  perms_ok perms -> (2 <= R <= 4)%Z -> (len = if (R =? 2)%Z then len else Some L) ->
  ((R =? 2)%Z = false -> 40 <= L <= 128) ->
  matches_r4 (palg0 em len v R perms) R L [] [] (p_value_i64 perms) em.
Proof.
  intros Hp HR Hl Hlr. destruct (perms_roundtrip perms Hp) as [E1 E2].
  constructor; cbn [palg0 pa_revision pa_length pa_O pa_U pa_perms pa_encrypt_metadata]; try reflexivity; try assumption.
  symmetry. exact E1.
Qed.

Theorem try_from_version_eq v rnd : version_ok v -> try_from_version P d v rnd = Ok (st_of_version v rnd).
Proof.
  destruct v as [owner user perms|owner user kl perms|em cfs stmf strf owner user perms| |]; cbn [version_ok]; try contradiction.
  - intro Hp. cbn [try_from_version st_of_version]. apply try_from_r4_eq.
    apply matches_palg0; [exact Hp|lia|reflexivity|intro H; discriminate H].
  - intros [Hp [HL _]]. cbn [try_from_version st_of_version]. apply try_from_r4_eq.
    apply matches_palg0; [exact Hp|lia|reflexivity|intros _; exact HL].
  - intros [Hp _]. cbn [try_from_version st_of_version]. apply try_from_r4_eq.
    apply matches_palg0; [exact Hp|lia|reflexivity|intros _; lia].
Qed.

Lemma st_of_version_ok v rnd : version_ok v -> lst_ok (st_of_version v rnd).
Proof.
  destruct v as [owner user perms|owner user kl perms|em cfs stmf strf owner user perms| |]; cbn [version_ok]; try contradiction.
  - intro Hp. pose proof (matches_palg0 1 2 None 40 true perms Hp ltac:(lia) eq_refl ltac:(intro H; discriminate H)) as M.
    constructor; cbn [st_of_version st_r4 es_version es_revision es_key_length es_crypt_filters es_stmf es_strf es_eff
                      es_encrypt_metadata es_key map fst].
    + left. repeat split; reflexivity.
    + rewrite (alg2_length P md5_len _ _ _ _ _ _ _ id0 user (matches_with_O _ _ _ _ _ _ _ _ M)). cbv. lia.
    + intros _. repeat split; reflexivity.
    + constructor.
    + intro H. discriminate H.
  - intros [Hp HL].
    pose proof (matches_palg0 2 3 (Some kl) kl true perms Hp ltac:(lia) eq_refl ltac:(intros _; exact (proj1 HL))) as M.
    constructor; cbn [st_of_version st_r4 es_version es_revision es_key_length es_crypt_filters es_stmf es_strf es_eff
                      es_encrypt_metadata es_key map fst].
    + right. left. repeat split; try reflexivity. exists kl. reflexivity.
    + rewrite (alg2_length P md5_len _ _ _ _ _ _ _ id0 user (matches_with_O _ _ _ _ _ _ _ _ M)).
      destruct (key_n_eq P md5_len _ _ _ _ _ _ _ M) as [_ Hr]. lia.
    + intros _. repeat split; reflexivity.
    + constructor.
    + intro H. discriminate H.
  - intros (Hp & ND & Hid' & Hstm & Hstr & Hno).
    pose proof (matches_palg0 4 4 (Some 128) 128 em perms Hp ltac:(lia) eq_refl ltac:(intros _; lia)) as M.
    assert (HL : length (alg2 I 4 128
                   (make_O P 4 128 (Some match owner with [] => user | _ :: _ => owner end) user)
                   (p_value_i64 perms) id0 em user) = 16%nat).
    { unfold I. rewrite (alg2_length P md5_len _ _ _ _ _ _ _ id0 user (matches_with_O _ _ _ _ _ _ _ _ M)). reflexivity. }
    constructor; cbn [st_of_version st_r4 es_version es_revision es_key_length es_crypt_filters es_stmf es_strf es_eff
                      es_encrypt_metadata es_key].
    + right. right. repeat split; reflexivity.
    + rewrite HL. lia.
    + intro H. discriminate H.
    + exact ND.
    + intros _. constructor; cbn [st_r4 es_crypt_filters es_stmf es_strf es_eff es_key]; try assumption.
      intros e H. discriminate H.
Qed.
End Try.

(* ---------- the interoperability statement, direction lopdf -> standard, revisions 2-4 ---------- *)
Section Interop2.
Variable P : prims.
Hypothesis md5_len : forall m, length (p_md5 P m) = 16%nat.
Hypothesis HA : aes_ok P.
Let I := iprims_of P.
Variables (d : doc) (id0 : bytes) (v : eversion) (rnd ivs : list bytes) (st : estate) (d1 : doc).
Hypothesis Hid : file_id_0 d = Ok id0.
Hypothesis Hv : version_ok v.
Hypothesis Hmax : max_id_ok d.
Hypothesis Htr : dict_get (d_trailer d) K_Encrypt = None.
Hypothesis Hobjs : Forall (fun io => indirect_ok (ip_of_st (st_of_version P id0 v rnd)) (snd io)) (d_objects d).
Hypothesis Htry : try_from_version P d v rnd = Ok st.
Hypothesis Henc : doc_encrypt P st d ivs = DOk d1 tt.

Lemma st_is : st = st_of_version P id0 v rnd.
Proof. rewrite (try_from_version_eq P md5_len d id0 Hid v rnd Hv) in Htry. inversion Htry. reflexivity. Qed.

Definition plain_again : doc :=
  {| d_version := d_version d; d_binary_mark := d_binary_mark d; d_trailer := d_trailer d;
     d_objects := iso_norm_objs (ip_of_st st) (d_objects d); d_max_id := d_max_id d + 1 |}.

Lemma opens_with2 pw : open_key I (ip_of_st st) id0 pw = Some (es_key st) ->
  open_document I d1 pw = Opened plain_again (es_key st).
Proof.
  intro Hopen. unfold plain_again.
  apply (iso_opens_lopdf_r4 P md5_len HA st d ivs d1 pw); try assumption.
  - rewrite st_is. apply (st_of_version_ok P md5_len id0 v rnd Hv).
  - rewrite st_is. exact Hobjs.
  - rewrite (file_id0_eq d id0 Hid). exact Hopen.
Qed.

(* with the user password *)
Theorem lopdf_encrypt_iso_decrypt_user_r4 : open_document I d1 (v_user v) = Opened plain_again (es_key st).
Proof.
  apply opens_with2. rewrite st_is. clear Hobjs Htry Henc.
  destruct v as [owner user perms|owner user kl perms|em cfs stmf strf owner user perms| |]; cbn [version_ok] in Hv; try contradiction;
    unfold open_key; cbn [st_of_version st_r4 ip_of_st ip_R ip_Length ip_O ip_U ip_P ip_EncryptMetadata es_version es_revision
                          es_key_length es_O es_U es_perms es_encrypt_metadata es_key v_user
                          Z.leb Z.compare Pos.compare Pos.compare_cont];
    apply (open_key_user_r4 P md5_len); lia.
Qed.

(* with the owner password (non-empty: an empty owner password means there is none; and not taken for the user
   password by Algorithm 6) *)
Theorem lopdf_encrypt_iso_decrypt_owner_r4 : v_owner v <> [] ->
  alg6 I (ip_R (ip_of_st st)) (ip_Length (ip_of_st st)) (ip_O (ip_of_st st)) (ip_U (ip_of_st st)) (ip_P (ip_of_st st)) id0
       (ip_EncryptMetadata (ip_of_st st)) (v_owner v) = None ->
  open_document I d1 (v_owner v) = Opened plain_again (es_key st).
Proof.
  intros Hne H6. apply opens_with2. revert H6. rewrite st_is. clear Hobjs Htry Henc.
  destruct v as [owner user perms|owner user kl perms|em cfs stmf strf owner user perms| |]; cbn [version_ok] in Hv; try contradiction;
    cbn [v_owner] in Hne; (destruct owner as [|ob owner]; [contradiction|]);
    unfold open_key; cbn [st_of_version st_r4 ip_of_st ip_R ip_Length ip_O ip_U ip_P ip_EncryptMetadata es_version es_revision
                          es_key_length es_O es_U es_perms es_encrypt_metadata es_key v_owner
                          Z.leb Z.compare Pos.compare Pos.compare_cont];
    intro H6; apply (open_key_owner_r4 P md5_len); try lia; exact H6.
Qed.
End Interop2.

(* a stream that carries its own Length comes back as it was *)
Definition iso_length_ok (ip : iparams) (o : obj) : Prop :=
  match o with
  | OStream sd c => exempt ip o = true \/ dict_get sd iK_Length = Some (OInt (Z.of_nat (length c)))
  | _ => True
  end.
Lemma iso_norm_objs_id ip m : Forall (fun io => iso_length_ok ip (snd io)) m -> iso_norm_objs ip m = m.
Proof.
  induction 1 as [|[i o] m Ho _ IH]; [reflexivity|]. cbn [iso_norm_objs map fst snd] in *. fold (iso_norm_objs ip m).
  rewrite IH. f_equal. f_equal. unfold iso_norm. destruct (exempt ip o) eqn:Ex; [reflexivity|].
  destruct o; try reflexivity. cbn [iso_length_ok] in Ho. destruct Ho as [Ho|Ho]; [congruence|].
  unfold set_length. rewrite dset_same by exact Ho. reflexivity.
Qed.
