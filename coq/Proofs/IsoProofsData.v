(* IsoProofsData.v -- C06: Algorithm 1 / 1.A.  The crypt filters of lopdf (Handler.cf_compute_key, cf_encrypt,
   cf_decrypt) against the standard's "encryption of data" (Iso.alg1_key, data_encrypt, data_decrypt):
   - what lopdf writes for a string or stream is what the standard defines (same key, same IV placement,
     same padding, same chaining);
   - what the standard writes lopdf decrypts, and what lopdf writes the standard decrypts. *)
From LV Require Import Base.Bytes Base.Sx Model.Obj Model.DocQ Gen.Crypto
  Model.Crypto.Word Model.Crypto.RC4 Model.Crypto.PKCS5 Model.Crypto.Handler
  Spec.Crypto.Iso Spec.Crypto.IsoConcrete Proofs.CryptoProofs Proofs.CryptoProofsFilter Proofs.IsoProofs.
Local Open Scope N_scope.

Definition meth_cfm (m : imethod) : cfm :=
  match m with M_Identity => CF_Identity | M_RC4 => CF_RC4 | M_AESV2 => CF_AESV2 | M_AESV3 => CF_AESV3 end.

(* the key sizes the standard prescribes for each method: RC4 any file key of 5..16 bytes; AESV2 a 128-bit key
   (with V 4 the file key has 16 bytes; min(n + 5, 16) = 16 needs n >= 11); AESV3 the 32-byte key *)
Definition method_ok (m : imethod) (fek : bytes) : Prop :=
  match m with
  | M_Identity => True
  | M_RC4 => True
  | M_AESV2 => (11 <= length fek)%nat
  | M_AESV3 => length fek = 32%nat
  end.

(* ---------- the padding rule ---------- *)
Lemma pkcs5_pad_eq m : pkcs5_pad m = pad_rfc2898 m.
Proof. unfold pkcs5_pad, pad_rfc2898. cbv zeta. rewrite byte_lo_eq. reflexivity. Qed.

Lemma last_app_repeat (m : bytes) b k d : (1 <= k)%nat -> last (m ++ repeat b k) d = b.
Proof.
  intro H. destruct k as [|k]; [lia|].
  replace (repeat b (S k)) with (repeat b k ++ [b]).
  - rewrite app_assoc. apply last_last.
  - clear. induction k as [|k IH]; [reflexivity|]. cbn [repeat app]. rewrite IH. reflexivity.
Qed.

Lemma unpad_pad m : unpad_rfc2898 (pad_rfc2898 m) = Some m.
Proof.
  unfold pad_rfc2898, unpad_rfc2898. cbv zeta.
  pose proof (Nat.mod_upper_bound (length m) 16 ltac:(lia)) as Hm.
  set (k := (16 - length m mod 16)%nat). assert (Hk : (1 <= k <= 16)%nat) by (unfold k; lia).
  rewrite last_app_repeat by lia.
  rewrite N_of_byte_of_N by lia. rewrite Nat2N.id.
  rewrite app_length, repeat_length.
  destruct (Nat.eqb_spec k 0); [lia|]. destruct (Nat.ltb_spec 16 k); [lia|].
  destruct (Nat.ltb_spec (length m + k) k); [lia|]. cbn [orb].
  replace (length m + k - k)%nat with (length m) by lia.
  rewrite skipn_app, skipn_all, Nat.sub_diag. cbn [skipn app]. rewrite bytes_eqb_refl.
  rewrite firstn_app, firstn_all, Nat.sub_diag, firstn_O, app_nil_r. reflexivity.
Qed.

Lemma pad_length m : exists q, length (pad_rfc2898 m) = (16 * S q)%nat.
Proof.
  rewrite <- pkcs5_pad_eq. destruct (pkcs5_pad_length m) as [q [E _]]. exists q. exact E.
Qed.

Lemma cbc_enc_concat_length (E : bytes -> bytes) bs :
  (forall b, length b = 16%nat -> length (E b) = 16%nat) ->
  Forall (fun b => length b = 16%nat) bs -> forall iv, length iv = 16%nat ->
  length (concat (cbc_enc E iv bs)) = length (concat bs).
Proof.
  intros He Hb. induction Hb as [|b bs Hb1 _ IH]; intros iv Hiv; [reflexivity|].
  cbn [cbc_enc concat]. rewrite !app_length.
  assert (Lx : length (E (xor_bytes b iv)) = 16%nat) by (apply He; rewrite xor_bytes_length; lia).
  rewrite (IH _ Lx). lia.
Qed.

Section Data.
Variable P : prims.
Hypothesis md5_len : forall m, length (p_md5 P m) = 16%nat.
Let I := iprims_of P.

(* ---------- Algorithm 1 (a)-(d): the per-object key ---------- *)
Lemma id_bytes_eq id : id_bytes id = le_bytes 3 (fst id) ++ le_bytes 2 (snd id).
Proof. unfold id_bytes. rewrite !le_bytes_eq. reflexivity. Qed.

Theorem alg1_key_refines m fek id :
  cf_compute_key P (meth_cfm m) fek id =
  match m with
  | M_Identity => fek
  | M_RC4 => alg1_key I false fek id
  | M_AESV2 => alg1_key I true fek id
  | M_AESV3 => fek
  end.
Proof.
  destruct m; cbn [meth_cfm cf_compute_key]; try reflexivity; unfold alg1_key, obj_key_len; rewrite id_bytes_eq.
  - rewrite app_nil_r. reflexivity.
  - change AES_SALT with [x73; x41; x6c; x54]. rewrite <- app_assoc. reflexivity.
Qed.

Lemma alg1_key_length aes fek id : length (alg1_key I aes fek id) = Nat.min (length fek + 5) 16.
Proof. unfold alg1_key. rewrite firstn_length. cbn [i_MD5 I iprims_of]. rewrite md5_len. lia. Qed.

(* ---------- the AES case of Algorithms 1 and 1.A ---------- *)
Lemma aes_encrypt_refines key iv pt :
  aes_cbc_encrypt P key (fit 16 iv) pt = aes_data_encrypt I key iv pt.
Proof.
  unfold aes_cbc_encrypt, aes_data_encrypt, cbc_encrypt_padded. cbv zeta.
  change (fit 16 iv) with (sixteen iv). f_equal. rewrite pkcs5_pad_eq.
  destruct (pad_length pt) as [q Hq].
  rewrite (cbc_e_eq _ (S q)) by exact Hq. rewrite Hq.
  replace (16 * S q / 16)%nat with (S q) by (rewrite Nat.mul_comm, Nat.div_mul; lia). reflexivity.
Qed.

(* one string or stream body, with the source of initialization vectors, as the standard's writer proceeds *)
Definition iso_enc_step (m : imethod) (fek : bytes) (id : oid) (s : bytes) (ivs : list bytes) : bytes * list bytes :=
  if uses_iv m then let '(iv, ivs') := next_iv ivs in (data_encrypt I m fek id iv s, ivs')
  else (data_encrypt I m fek id [] s, ivs).

Theorem data_encrypt_refines m fek id s ivs : method_ok m fek -> (1 <= length fek)%nat ->
  cf_encrypt P (meth_cfm m) (cf_compute_key P (meth_cfm m) fek id) s ivs = Ok (iso_enc_step m fek id s ivs).
Proof.
  intros Hok H1. rewrite alg1_key_refines. unfold iso_enc_step.
  destruct m; cbn [meth_cfm cf_encrypt uses_iv data_encrypt method_ok] in *.
  - reflexivity.
  - rewrite rc4_total_ok by (rewrite alg1_key_length; lia). reflexivity.
  - rewrite alg1_key_length. replace (Nat.min (length fek + 5) 16) with 16%nat by lia. cbn [Nat.eqb negb].
    destruct ivs as [|iv r]; cbn [take_iv next_iv].
    + change (zeros 16) with (fit 16 []). rewrite aes_encrypt_refines. reflexivity.
    + rewrite aes_encrypt_refines. reflexivity.
  - rewrite Hok. cbn [Nat.eqb negb].
    destruct ivs as [|iv r]; cbn [take_iv next_iv].
    + change (zeros 16) with (fit 16 []). rewrite aes_encrypt_refines. reflexivity.
    + rewrite aes_encrypt_refines. reflexivity.
Qed.

(* ---------- interoperability of one string or stream body ---------- *)
(* written by the standard's rules, decrypted by lopdf *)
Theorem iso_data_lopdf_decrypt m fek id s ivs : aes_ok P -> method_ok m fek -> (1 <= length fek)%nat ->
  cf_decrypt P (meth_cfm m) (cf_compute_key P (meth_cfm m) fek id) (fst (iso_enc_step m fek id s ivs)) = Ok s.
Proof.
  intros HA Hok H1.
  apply (filter_rt P _ _ s ivs _ (snd (iso_enc_step m fek id s ivs)) HA).
  rewrite (data_encrypt_refines m fek id s ivs Hok H1). rewrite <- surjective_pairing. reflexivity.
Qed.

Lemma rc4_total_involutive key m : rc4_total key (rc4_total key m) = m.
Proof.
  unfold rc4_total. destruct (rc4 key m) as [c|] eqn:E.
  - rewrite (rc4_involutive _ _ _ E). reflexivity.
  - rewrite E. reflexivity.
Qed.

Lemma sixteen_length l : length (sixteen l) = 16%nat.
Proof. unfold sixteen. rewrite firstn_length, app_length, repeat_length. lia. Qed.

Lemma aes_data_rt key iv s : aes_ok P -> (length key = 16 \/ length key = 32)%nat ->
  aes_data_decrypt I key (aes_data_encrypt I key iv s) = Some s.
Proof.
  intros HA Hkey. unfold aes_data_encrypt, aes_data_decrypt. cbv zeta.
  assert (He : forall b, length b = 16%nat -> length (p_aes_enc P key b) = 16%nat) by (intros b Hb; apply (HA key Hkey); exact Hb).
  assert (Hd : forall b, length b = 16%nat -> p_aes_dec P key (p_aes_enc P key b) = b) by (intros b Hb; apply (HA key Hkey); exact Hb).
  destruct (pad_length s) as [q Hq]. rewrite Hq.
  replace (16 * S q / 16)%nat with (S q) by (rewrite Nat.mul_comm, Nat.div_mul; lia).
  cbn [i_AES_E i_AES_D I iprims_of].
  rewrite <- (cbc_e_eq (p_aes_enc P key) (S q)) by exact Hq.
  set (iv16 := sixteen iv). assert (Hiv : length iv16 = 16%nat) by apply sixteen_length.
  pose proof (chunks16_blocks (pad_rfc2898 s)) as Hb.
  assert (Hmod : Nat.modulo (length (pad_rfc2898 s)) 16 = 0%nat).
  { rewrite Hq, Nat.mul_comm. apply Nat.mod_mul. lia. }
  specialize (Hb Hmod).
  pose proof (cbc_enc_blocks _ He iv16 _ Hiv Hb) as Hc.
  set (blocks := cbc_enc (p_aes_enc P key) iv16 (chunks16 (pad_rfc2898 s))) in *.
  assert (Lc : length (concat blocks) = (16 * S q)%nat).
  { assert (G : length (concat blocks) = length (concat (chunks16 (pad_rfc2898 s)))).
    { unfold blocks. apply cbc_enc_concat_length; assumption. }
    rewrite G, chunks16_concat. exact Hq. }
  rewrite app_length, Hiv, Lc.
  destruct (Nat.ltb_spec (16 + 16 * S q) 32); [lia|].
  replace (16 + 16 * S q)%nat with (S (S q) * 16)%nat by lia. rewrite Nat.mod_mul by lia. cbn [Nat.eqb negb orb].
  rewrite firstn_app, Hiv, Nat.sub_diag, firstn_O, app_nil_r, firstn_all2 by lia.
  rewrite skipn_app, Hiv, Nat.sub_diag, skipn_all2 by lia. cbn [skipn app].
  rewrite Lc. replace (16 * S q / 16)%nat with (S q) by (rewrite Nat.mul_comm, Nat.div_mul; lia).
  rewrite <- (cbc_d_eq (p_aes_dec P key) (S q)) by exact Lc.
  rewrite chunks16_of_blocks by exact Hc. unfold blocks.
  rewrite (cbc_dec_enc _ _ Hd He) by assumption.
  rewrite chunks16_concat. apply unpad_pad.
Qed.

(* the standard's own round trip (needed for the direction lopdf -> standard) *)
Theorem iso_data_rt m fek id iv s : aes_ok P -> method_ok m fek ->
  data_decrypt I m fek id (data_encrypt I m fek id iv s) = Some s.
Proof.
  intros HA Hok. destruct m; cbn [data_encrypt data_decrypt method_ok] in *.
  - reflexivity.
  - cbn [i_RC4 I iprims_of]. rewrite rc4_total_involutive. reflexivity.
  - apply aes_data_rt; [exact HA|]. left. rewrite alg1_key_length. lia.
  - apply aes_data_rt; [exact HA|]. right. exact Hok.
Qed.

(* written by lopdf, decrypted by the standard's rules *)
Theorem lopdf_data_iso_decrypt m fek id s ivs ct ivs' : aes_ok P -> method_ok m fek -> (1 <= length fek)%nat ->
  cf_encrypt P (meth_cfm m) (cf_compute_key P (meth_cfm m) fek id) s ivs = Ok (ct, ivs') ->
  data_decrypt I m fek id ct = Some s.
Proof.
  intros HA Hok H1 H. rewrite (data_encrypt_refines m fek id s ivs Hok H1) in H.
  injection H as H. apply (f_equal fst) in H. cbn [fst] in H. subst ct. unfold iso_enc_step.
  destruct (uses_iv m); [destruct (next_iv ivs)|]; cbn [fst]; apply iso_data_rt; assumption.
Qed.

End Data.
