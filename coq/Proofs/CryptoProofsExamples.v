(* CryptoProofsExamples.v -- non-vacuity for C05: concrete documents run through the model with the
   executable primitives (vm_compute): encryption, authentication with the user and with the owner
   password, key recovery, decryption; a wrong password is rejected. *)
From LV Require Import Base.Bytes Base.Sx Model.Obj Model.DocQ Model.Crypto.Word Model.Crypto.Handler
  Model.Crypto.Concrete Proofs.CryptoProofsObject Proofs.CryptoProofsDoc.
Local Open Scope N_scope.

Definition ex_doc : doc :=
  {| d_version := bs "1.7"; d_binary_mark := [];
     d_trailer := [(bs "Root", ORef 1 0);
                   (bs "ID", OArr [OStr (bs "0123456789abcdef") false; OStr (bs "fedcba9876543210") false])];
     d_objects := [((1, 0), ODict [(bs "Type", OName (bs "Catalog")); (bs "Lang", OStr (bs "en-US") false)]);
                   ((2, 0), OStream [(bs "Length", OInt 20)] (bs "BT (Hello World) ET;"));
                   ((3, 0), OArr [OStr (bs "a string of more than sixteen bytes") true;
                                  ODict [(bs "T", OStr [] false); (bs "N", OInt 7)]]);
                   ((5, 0), OStream [(bs "Type", OName (bs "Metadata")); (bs "Length", OInt 5)] (bs "<xml>"))];
     d_max_id := 5 |}.

Definition ex_owner := Eval cbv in bs "owner".
Definition ex_user := Eval cbv in bs "user".

(* V2, 128-bit RC4 *)
Definition ex_v2 : eversion := EV2 ex_owner ex_user 128 3900.
(* V4, AESV2 for strings and streams, metadata left in clear *)
Definition ex_v4 : eversion :=
  EV4 false [(bs "StdCF", CF_AESV2)] (bs "StdCF") (bs "StdCF") ex_owner ex_user 2052.

Definition ex_ivs : list bytes := map (fun k => repeat (byte_lo (N.of_nat k)) 16) (seq 1 8).

Definition run_example (v : eversion) (pw : bytes) : option (bool * bool * bool * bool) :=
  match try_from_version concrete ex_doc v [hex "000102030405060708090a0b0c0d0e0f"] with
  | Ok st =>
    match doc_encrypt concrete st ex_doc ex_ivs with
    | DOk d1 _ =>
      let auth := match authenticate_raw_password concrete d1 pw with Ok _ => true | _ => false end in
      match decode concrete d1 pw, doc_decrypt_raw concrete d1 pw with
      | Ok st', DOk d2 _ =>
        Some (auth,
              bytes_eqb (es_key st) (es_key st') && bytes_eqb (es_stmf st) (es_stmf st')
              && bytes_eqb (es_strf st) (es_strf st') && Bool.eqb (es_encrypt_metadata st) (es_encrypt_metadata st'),
              bytes_eqb (sx_print (objmap_to_sx (d_objects d2))) (sx_print (objmap_to_sx (d_objects ex_doc)))
              && bytes_eqb (sx_print (dict_to_sx (d_trailer d2))) (sx_print (dict_to_sx (d_trailer ex_doc))),
              negb (bytes_eqb (sx_print (objmap_to_sx (d_objects d1))) (sx_print (objmap_to_sx (d_objects ex_doc)))))
      | _, _ => None
      end
    | _ => None
    end
  | _ => None
  end.

(* (authenticated, recovered state agrees, objects and trailer restored, ciphertext differed) *)
Lemma ex_v2_user : run_example ex_v2 ex_user = Some (true, true, true, true).
Proof. vm_compute. reflexivity. Qed.
Lemma ex_v2_owner : run_example ex_v2 ex_owner = Some (true, true, true, true).
Proof. vm_compute. reflexivity. Qed.
Lemma ex_v4_user : run_example ex_v4 ex_user = Some (true, true, true, true).
Proof. vm_compute. reflexivity. Qed.
Lemma ex_v4_owner : run_example ex_v4 ex_owner = Some (true, true, true, true).
Proof. vm_compute. reflexivity. Qed.

Definition run_wrong (v : eversion) (pw : bytes) : option (dres estate) :=
  match try_from_version concrete ex_doc v [hex "000102030405060708090a0b0c0d0e0f"] with
  | Ok st => match doc_encrypt concrete st ex_doc ex_ivs with
             | DOk d1 _ => Some (doc_decrypt_raw concrete d1 pw)
             | _ => None
             end
  | _ => None
  end.

Lemma ex_v2_wrong : run_wrong ex_v2 (bs "guess") = Some (DErr D_IncorrectPassword).
Proof. vm_compute. reflexivity. Qed.
Lemma ex_v4_wrong : run_wrong ex_v4 (bs "guess") = Some (DErr D_IncorrectPassword).
Proof. vm_compute. reflexivity. Qed.

(* the hypotheses of doc_rt hold on the example *)
Lemma ex_hyps :
  max_id_ok ex_doc /\ dict_get (d_trailer ex_doc) K_Encrypt = None /\ has_objstm (d_objects ex_doc) = false.
Proof.
  split; [|split; reflexivity].
  intros id H. cbn in H. destruct H as [<-|[<-|[<-|[<-|[]]]]]; cbn; lia.
Qed.
