(* LoadsMultiObjStm.v -- C02 rung 3: ref_write_multi (Spec/RefWriter.v) with OBJECT STREAMS.
   Part A: a file of ONE part is a single-section file: [ref_write_multi st [p] a = Some file] implies
   [ref_write (with_part st p true) a = Some file] -- whatever object streams the style asks for (the part then holds every
   container, its section lists the members as type-2 entries), so C02_full speaks about it.
   Part B (building blocks for files of several parts with object streams): one step of write_parts in closed form WITH the
   part's containers ([write_parts_step_os]), and the writer-level fact that a member's number is defined by exactly the part
   that holds its container ([member_part]). *)
From LV Require Import Base.Bytes Base.Sx Model.Obj Model.Writer Model.Parser Model.Xref Model.ObjStm Model.Loader Model.Utf Gen.Lex
  Spec.XrefSpec Spec.RefWriter Proofs.LoadsTableProofs.
From Coq Require Import Lia.
Local Open Scope N_scope.

(* ---------- extensionality of the writer's pieces in the entry function ---------- *)
Lemma forallb_ext' {A} (f g : A -> bool) : (forall x, f x = g x) -> forall l, forallb f l = forallb g l.
Proof. intros H l. induction l as [|x l IH]; [reflexivity|]. cbn [forallb]. rewrite H, IH. reflexivity. Qed.

Lemma existsb_ext' {A} (f g : A -> bool) : (forall x, f x = g x) -> forall l, existsb f l = existsb g l.
Proof. intros H l. induction l as [|x l IH]; [reflexivity|]. cbn [existsb]. rewrite H, IH. reflexivity. Qed.

Lemma use_secs_ext secs size u1 u2 : (forall n, u1 n = u2 n) -> use_secs secs size u1 = use_secs secs size u2.
Proof.
  intro H. assert (E : secs_cover secs size u1 = secs_cover secs size u2).
  { unfold secs_cover. apply forallb_ext'. intro n. rewrite H. reflexivity. }
  unfold use_secs, secs_ok. rewrite E. reflexivity.
Qed.

Lemma build_tsecs_ext e1 e2 all : (forall n : N, e1 n = e2 n) -> forall secs eols seols ssp,
  build_tsecs secs e1 eols all seols ssp = build_tsecs secs e2 eols all seols ssp.
Proof.
  intro H. induction secs as [|[f c] secs IH]; intros eols seols ssp; [reflexivity|]. cbn [build_tsecs].
  rewrite IH. rewrite (map_ext e1 e2 H). reflexivity.
Qed.

Lemma xsecs_ext (e1 e2 : N -> sentry) (secs : list (N * N)) : (forall n, e1 n = e2 n) ->
  plain_secs e1 secs = plain_secs e2 secs.
Proof. intro H. unfold plain_secs. apply map_ext. intro fc. rewrite (map_ext e1 e2 H). reflexivity. Qed.

Lemma section_text_ext st a secs e1 e2 size xpos prev : (forall n, e1 n = e2 n) ->
  section_text st a secs e1 size xpos prev = section_text st a secs e2 size xpos prev.
Proof.
  intro H. unfold section_text. destruct (s_xref st) as [t|x].
  - rewrite (build_tsecs_ext e1 e2 _ H). reflexivity.
  - fold (plain_secs e1 secs). fold (plain_secs e2 secs). rewrite (xsecs_ext e1 e2 secs H). reflexivity.
Qed.

Lemma filter_all {A} (f : A -> bool) : forall l, forallb f l = true -> filter f l = l.
Proof.
  induction l as [|x l IH]; intro H; [reflexivity|]. cbn [forallb] in H. apply andb_true_iff in H as [H1 H2].
  cbn [filter]. rewrite H1, (IH H2). reflexivity.
Qed.

(* ---------- ref_write: its tail is [section_text] without Prev ---------- *)
Definition rw_xid (st : fstyle) : list N := match s_xref st with XStream x => [xs_id x] | XTable _ => [] end.
Definition rw_tops (st : fstyle) (a : adoc) (conts : list top) : list top :=
  map (fun io => (fst io, snd io, find_istyle (s_objs st) (fst (fst io))))
      (filter (fun io => negb (mem_N (fst (fst io)) (compressed_nums st))) (a_objs a)) ++ conts.

Lemma ref_write_eq st a :
  ref_write st a =
  if contains (bs "%PDF-") (s_junk st) || contains [x0d] (a_version a) || contains [x0a] (a_version a) then None
  else if negb (nodup_N (map (fun io => fst (fst io)) (a_objs a) ++ map os_id (s_ostms st) ++ rw_xid st) &&
                nodup_N (compressed_nums st) &&
                negb (mem_N 0 (map (fun io => fst (fst io)) (a_objs a) ++ map os_id (s_ostms st) ++ rw_xid st))) then None
  else match s_xref st, compressed_nums st with
  | XTable _, _ :: _ => None
  | _, _ =>
    match containers (a_objs a) (s_ostms st) with
    | None => None
    | Some conts =>
      let hdr := header st (a_version a) in
      let otops := ordered (s_order st) (rw_tops st a conts) in
      let xpos := N.of_nat (length hdr + length (body_of otops)) in
      let size := 1 + max_num (map (fun io => fst (fst io)) (a_objs a) ++ map os_id (s_ostms st) ++ rw_xid st) in
      let entry := entry_of (offs_of (N.of_nat (length hdr)) otops ++ map (fun i => (i, 0, xpos)) (rw_xid st)) st in
      let secs := match s_xref st with
                  | XTable t => use_secs (t_secs t) size (fun n => (n =? 0) || is_used (entry n))
                  | XStream x => use_secs (xs_secs x) size (fun n => is_used (entry n))
                  end in
      Some (s_junk st ++ hdr ++ body_of otops ++ section_text st a secs entry size xpos [])
    end
  end.
Proof.
  unfold ref_write, rw_xid, rw_tops, section_text.
  destruct (contains (bs "%PDF-") (s_junk st) || contains [x0d] (a_version a) || contains [x0a] (a_version a)); [reflexivity|].
  destruct (s_xref st) as [t|x].
  - match goal with |- (if ?c then _ else _) = _ => destruct c end; [reflexivity|].
    destruct (compressed_nums st); (destruct (containers (a_objs a) (s_ostms st)) as [conts|]; [|reflexivity]);
      try reflexivity.
    rewrite emit_objs_eq. cbn [map]. rewrite !app_nil_r. reflexivity.
  - match goal with |- (if ?c then _ else _) = _ => destruct c end; [reflexivity|].
    destruct (containers (a_objs a) (s_ostms st)) as [conts|]; [|reflexivity].
    rewrite emit_objs_eq. destruct (xs_w x) as [[w0 w1] w2]. cbv zeta. cbn [map].
    match goal with |- context [apply_filter ?f ?c ?b ?r] => destruct (apply_filter f c b r) as [dat fe] end.
    reflexivity.
Qed.

(* ======================================================================================================
   One step of write_parts in closed form, WITH the part's object streams (generalises LoadsMultiMixed.write_parts_step)
   ====================================================================================================== *)
Section Step.
  Variable st : fstyle.
  Variable a : adoc.
  Variable tops : list top.

  Definition g_xid (p : mpart) : list N := match mp_xref p with XStream x => [xs_id x] | XTable _ => [] end.
  Definition g_olds (p : mpart) : list top :=
    flat_map (fun no => match find_obj (a_objs a) (fst no) with
                        | Some (g, _) => [((fst no, g), snd no, find_istyle (s_objs st) (fst no))]
                        | None => []
                        end) (mp_old p).
  Definition g_mine (p : mpart) : list top := filter (fun t : top => mem_N (fst (fst (fst t))) (mp_nums p)) tops ++ g_olds p.
  Definition g_otops (p : mpart) : list top := ordered (mp_order p) (g_mine p).
  Definition g_hnums (p : mpart) : list N := map (fun t : top => fst (fst (fst t))) (g_mine p).
  Definition g_xpos (p : mpart) (pos : N) : N := pos + N.of_nat (length (body_of (g_otops p))).
  Definition g_offs (p : mpart) (pos : N) : list (N * N * N) :=
    offs_of pos (g_otops p) ++ map (fun i => (i, 0, g_xpos p pos)) (g_xid p).
  Definition g_conts (p : mpart) : list ostm := part_containers st p.
  Definition g_ehere (p : mpart) (pos n : N) : sentry :=
    match find_off (g_offs p pos) n with
    | Some (g, q) => SInUse q g
    | None => match find_comp (g_conts p) n with Some (c, k) => SComp c k | None => SFree 0 0 end
    end.
  Definition g_here (p : mpart) (pos n : N) : bool := is_used (g_ehere p pos n).
  Definition g_entry (p : mpart) (pos : N) (known : list (N * sentry)) (n : N) : sentry :=
    if g_here p pos n then g_ehere p pos n
    else if mem_N n (mp_relist p) then match lookup_entry known n with Some e => e | None => SFree 0 0 end
    else if n =? 0 then SFree 0 65535 else SFree 0 0.
  Definition g_size (p : mpart) (maxnum : N) : N :=
    1 + N.max maxnum (max_num (g_hnums p ++ g_xid p ++ flat_map os_members (g_conts p))).
  Definition g_s0 (p : mpart) : list (N * N) := match mp_xref p with XTable t => t_secs t | XStream x => xs_secs x end.
  Definition g_secs (p : mpart) (pos : N) (prev : option N) (known : list (N * sentry)) (maxnum : N) : list (N * N) :=
    match prev with
    | None => match mp_xref p with
              | XTable t => use_secs (t_secs t) (g_size p maxnum) (fun n => (n =? 0) || g_here p pos n)
              | XStream x => use_secs (xs_secs x) (g_size p maxnum) (g_here p pos)
              end
    | Some _ => if secs_ok_later (g_s0 p) (g_size p maxnum) (g_here p pos) (g_entry p pos known) then g_s0 p
                else runs_of (g_here p pos) 0 (N.to_nat (g_size p maxnum))
    end.
  Definition g_prev (prev : option N) : list (bytes * obj) :=
    match prev with Some q => [(K_PrevW, OInt (Z.of_N q))] | None => [] end.
  Definition g_last (rest : list mpart) : bool := match rest with [] => true | _ => false end.
  Definition g_text (p : mpart) (last : bool) (pos : N) (prev : option N) (known : list (N * sentry)) (maxnum : N) : bytes :=
    body_of (g_otops p) ++
    section_text (with_part st p last) a (g_secs p pos prev known maxnum) (g_entry p pos known) (g_size p maxnum) (g_xpos p pos) (g_prev prev).
  Definition g_known (p : mpart) (pos : N) (known : list (N * sentry)) (maxnum : N) : list (N * sentry) :=
    map (fun n => (n, g_entry p pos known n)) (filter (g_here p pos) (range_N 0 (N.to_nat (g_size p maxnum)))) ++ known.

  Lemma write_parts_step_os p rest pos prev known maxnum :
    write_parts st a tops (p :: rest) pos prev known maxnum =
    if negb (nodup_N (g_hnums p) && forallb (fun no => mem_N (fst no) (flat_map (part_defines st) rest)) (mp_old p) &&
             Nat.eqb (length (g_olds p)) (length (mp_old p)))
    then None
    else match mp_xref p, g_conts p with
         | XTable _, _ :: _ => None
         | _, _ =>
           if negb (existsb (g_here p pos) (range_N 0 (N.to_nat (g_size p maxnum)))) then None
           else match write_parts st a tops rest (pos + N.of_nat (length (g_text p (g_last rest) pos prev known maxnum)))
                                  (Some (g_xpos p pos)) (g_known p pos known maxnum) (g_size p maxnum - 1) with
                | Some r => Some (g_text p (g_last rest) pos prev known maxnum ++ r)
                | None => None
                end
         end.
  Proof.
    cbn [write_parts]. rewrite emit_objs_eq.
    unfold g_known, g_text, g_secs, g_s0, g_entry, g_here, g_ehere, g_offs, g_size, g_xid, g_conts, g_prev, g_last.
    destruct (mp_xref p); destruct (part_containers st p); destruct prev; reflexivity.
  Qed.

  (* the last part holds no superseded definition (no later part could hold the current one) *)
  Lemma last_part_no_old p pos prev known maxnum r :
    write_parts st a tops [p] pos prev known maxnum = Some r -> mp_old p = [].
  Proof.
    intro H. destruct (mp_old p) as [|no l] eqn:E; [reflexivity|exfalso]. cbn [write_parts flat_map] in H. rewrite E in H.
    cbn [forallb mem_N existsb andb] in H. rewrite andb_false_r in H. cbn [andb negb] in H. discriminate H.
  Qed.
End Step.

(* ---------- facts about containers ---------- *)
Lemma containers_nums objs : forall l conts, containers objs l = Some conts ->
  map (fun t : top => fst (fst (fst t))) conts = map os_id l.
Proof.
  induction l as [|s l IH]; intros conts H; cbn [containers] in H.
  - inversion H; subst. reflexivity.
  - destruct (os_object objs s) as [o|]; [|discriminate H]. destruct (containers objs l) as [r|]; [|discriminate H].
    inversion H; subst. cbn [map fst]. rewrite (IH r eq_refl). reflexivity.
Qed.

Lemma find_obj_num : forall objs n g o, find_obj objs n = Some (g, o) -> In n (map (fun io : oid * obj => fst (fst io)) objs).
Proof.
  induction objs as [|[[i g0] o0] objs IH]; intros n g o H; [discriminate H|]. cbn [find_obj] in H. cbn [map fst].
  destruct (i =? n) eqn:E; [apply N.eqb_eq in E; left; exact E|right; apply (IH n g o); exact H].
Qed.

Lemma os_build_members objs : forall ms sts first items, os_build objs ms sts first = Some items ->
  forall m, In m ms -> In m (map (fun io : oid * obj => fst (fst io)) objs).
Proof.
  induction ms as [|m0 ms IH]; intros sts first items H m Hin; [contradiction|]. cbn [os_build] in H.
  destruct sts as [|[[[sy wa] w1] w2] t].
  - destruct (find_obj objs m0) as [[g o]|] eqn:Ef; [|discriminate H].
    destruct Hin as [<-|Hin]; [apply (find_obj_num objs m0 g o Ef)|].
    destruct g; [|discriminate H]. destruct (os_build objs ms [] false) as [r|] eqn:Er; [|discriminate H].
    apply (IH [] false r Er m Hin).
  - destruct (find_obj objs m0) as [[g o]|] eqn:Ef; [|discriminate H].
    destruct Hin as [<-|Hin]; [apply (find_obj_num objs m0 g o Ef)|].
    destruct g; [|discriminate H]. destruct (os_build objs ms t false) as [r|] eqn:Er; [|discriminate H].
    apply (IH t false r Er m Hin).
Qed.

Lemma containers_members objs : forall l conts, containers objs l = Some conts ->
  forall s m, In s l -> In m (os_members s) -> In m (map (fun io : oid * obj => fst (fst io)) objs).
Proof.
  induction l as [|s0 l IH]; intros conts H s m Hs Hm; [contradiction|]. cbn [containers] in H.
  destruct (os_object objs s0) as [o|] eqn:Eo; [|discriminate H]. destruct (containers objs l) as [r|] eqn:Er; [|discriminate H].
  destruct Hs as [<-|Hs]; [|apply (IH r eq_refl s m Hs Hm)].
  unfold os_object in Eo. destruct (os_build objs (os_members s0) (os_items s0) true) as [items|] eqn:Eb; [|discriminate Eo].
  apply (os_build_members objs _ _ _ _ Eb m Hm).
Qed.

Lemma mem_N_In' x l : mem_N x l = true <-> In x l.
Proof.
  unfold mem_N. rewrite existsb_exists. split.
  - intros [y [H1 H2]]. apply N.eqb_eq in H2. subst. exact H1.
  - intro H. exists x. split; [exact H|apply N.eqb_refl].
Qed.

Lemma fold_max_ge0 : forall l a0, a0 <= fold_left N.max l a0.
Proof. induction l as [|y l IH]; intro a0; [apply N.le_refl|]. cbn [fold_left]. apply (N.le_trans _ (N.max a0 y)); [apply N.le_max_l|apply IH]. Qed.
Lemma fold_max_ge : forall l a0 x, In x l -> x <= fold_left N.max l a0.
Proof.
  induction l as [|y l IH]; intros a0 x H; [contradiction|]. cbn [fold_left]. destruct H as [<-|H]; [|apply IH; exact H].
  apply (N.le_trans _ (N.max a0 y)); [apply N.le_max_r|apply fold_max_ge0].
Qed.
Lemma fold_max_le : forall l B a0, a0 <= B -> (forall x, In x l -> x <= B) -> fold_left N.max l a0 <= B.
Proof.
  induction l as [|y l IH]; intros B a0 Ha H; [exact Ha|]. cbn [fold_left]. apply IH; [|intros; apply H; right; assumption].
  apply N.max_lub; [exact Ha|apply H; left; reflexivity].
Qed.
Lemma max_num_incl l1 l2 : incl l1 l2 -> max_num l1 <= max_num l2.
Proof. intro H. unfold max_num. apply fold_max_le; [lia|]. intros x Hx. apply fold_max_ge. apply H. exact Hx. Qed.
Lemma max_num_same l1 l2 : incl l1 l2 -> incl l2 l1 -> max_num l1 = max_num l2.
Proof. intros H1 H2. pose proof (max_num_incl _ _ H1). pose proof (max_num_incl _ _ H2). lia. Qed.

Lemma find_off_none : forall offs n, ~ In n (map (fun t : N * N * N => fst (fst t)) offs) -> find_off offs n = None.
Proof.
  induction offs as [|[[i g] q] offs IH]; intros n H; [reflexivity|]. cbn [find_off]. cbn [map fst] in H.
  destruct (i =? n) eqn:E; [apply N.eqb_eq in E; exfalso; apply H; left; exact E|apply IH; intro K; apply H; right; exact K].
Qed.
Lemma offs_of_nums : forall tops pos, map (fun t : N * N * N => fst (fst t)) (offs_of pos tops) = map (fun t : top => fst (fst (fst t))) tops.
Proof. induction tops as [|t tops IH]; intro pos; [reflexivity|]. cbn [offs_of map fst]. rewrite IH. reflexivity. Qed.
Lemma index_of_In : forall l x k r, index_of x l k = Some r -> In x l.
Proof.
  induction l as [|y l IH]; intros x k r H; [discriminate H|]. cbn [index_of] in H.
  destruct (x =? y) eqn:E; [apply N.eqb_eq in E; left; symmetry; exact E|right; apply (IH x (k + 1) r H)].
Qed.
Lemma find_comp_In : forall l n c k, find_comp l n = Some (c, k) -> exists s, In s l /\ In n (os_members s).
Proof.
  induction l as [|s l IH]; intros n c k H; [discriminate H|]. cbn [find_comp] in H.
  destruct (index_of n (os_members s) 0) as [r|] eqn:E.
  - exists s. split; [left; reflexivity|apply (index_of_In _ _ _ _ E)].
  - destruct (IH n c k H) as [s' [H1 H2]]. exists s'. split; [right; exact H1|exact H2].
Qed.
Lemma ordered_In order (tops : list top) t : In t (ordered order tops) -> In t tops.
Proof.
  unfold ordered. intro H. apply in_app_or in H as [H|H].
  - apply in_flat_map in H as [n [_ H]]. unfold take_num in H. apply filter_In in H. tauto.
  - apply filter_In in H. tauto.
Qed.

(* ======================================================================================================
   Part A: a file of ONE part is the single-section file of the part's style
   ====================================================================================================== *)
Lemma entry_of_ostms offs st1 st2 n : s_ostms st1 = s_ostms st2 -> entry_of offs st1 n = entry_of offs st2 n.
Proof. intro H. unfold entry_of. rewrite H. reflexivity. Qed.

Theorem multi_single st p a file :
  mem_N 0 (mp_relist p) = false ->
  ref_write_multi st [p] a = Some file -> ref_write (with_part st p true) a = Some file.
Proof.
  intros H0 H.
  destruct (mp_sx p) as [[[[e1 s1] s2] e2] fe] eqn:Esx.
  set (stp := with_part st p true).
  assert (Ej : s_junk stp = s_junk st) by (unfold stp, with_part; rewrite Esx; reflexivity).
  assert (Eo : s_ostms stp = s_ostms st) by (unfold stp, with_part; rewrite Esx; reflexivity).
  assert (Eob : s_objs stp = s_objs st) by (unfold stp, with_part; rewrite Esx; reflexivity).
  assert (Eor : s_order stp = mp_order p) by (unfold stp, with_part; rewrite Esx; reflexivity).
  assert (Ex : s_xref stp = mp_xref p) by (unfold stp, with_part; rewrite Esx; reflexivity).
  assert (Eh : forall v, header stp v = header st v) by (intro v; unfold stp, with_part, header; rewrite Esx; reflexivity).
  assert (Ecn : compressed_nums stp = compressed_nums st) by (unfold compressed_nums; rewrite Eo; reflexivity).
  assert (Etp : forall c, rw_tops stp a c = rw_tops st a c) by (intro c; unfold rw_tops; rewrite Eob, Ecn; reflexivity).
  rewrite ref_write_eq. unfold rw_xid. rewrite Ej, Eo, Eor, Ex, Eh, Ecn.
  unfold ref_write_multi in H. cbn [part_xids flat_map] in H. rewrite !app_nil_r in H. fold (g_xid p) in H |- *.
  set (nums := map (fun io : N * N * obj => fst (fst io)) (a_objs a)) in *.
  set (cids := map os_id (s_ostms st)) in *.
  destruct (contains (bs "%PDF-") (s_junk st) || contains [x0d] (a_version a) || contains [x0a] (a_version a)); [discriminate H|].
  destruct (negb (nodup_N (nums ++ cids ++ g_xid p) && nodup_N (compressed_nums st) && negb (mem_N 0 (nums ++ cids ++ g_xid p)))) eqn:C2;
    [discriminate H|].
  apply negb_false_iff in C2. apply andb_true_iff in C2 as [C2 C2c]. apply andb_true_iff in C2 as [C2a C2b].
  destruct (containers (a_objs a) (s_ostms st)) as [conts|] eqn:Ec; [|destruct (mp_xref p); [destruct (compressed_nums st)|]; discriminate H].
  rewrite Etp. fold (rw_tops st a conts) in H. set (tops := rw_tops st a conts) in *.
  match type of H with (if ?c then _ else _) = _ => destruct c eqn:C3 end; [discriminate H|].
  apply negb_false_iff in C3. apply andb_true_iff in C3 as [C3a C3b].
  destruct (write_parts st a tops [p] (N.of_nat (length (header st (a_version a)))) None [] 0) as [r|] eqn:Ew; [|discriminate H].
  pose proof (last_part_no_old st a tops p _ _ _ _ r Ew) as Eold.
  rewrite write_parts_step_os in Ew. cbn [write_parts g_last] in Ew.
  (* the part's objects are all the top-level objects *)
  assert (Emine : g_mine st a tops p = tops).
  { unfold g_mine, g_olds. rewrite Eold. cbn [flat_map]. rewrite app_nil_r. apply filter_all. exact C3b. }
  (* its containers are all the containers *)
  assert (Ecn2 : map (fun t : top => fst (fst (fst t))) conts = cids) by (apply (containers_nums _ _ _ Ec)).
  assert (Htin : forall n, In n (map (fun t : top => fst (fst (fst t))) tops) <->
                           (In n nums /\ mem_N n (compressed_nums st) = false) \/ In n cids).
  { intro n. unfold tops, rw_tops. rewrite map_app, in_app_iff, map_map. cbn [fst]. split; intros [K|K].
    - left. apply in_map_iff in K as [io [K1 K2]]. apply filter_In in K2 as [K2 K3]. subst n. split; [unfold nums; apply in_map_iff; exists io; split; [reflexivity|exact K2]|].
      apply negb_true_iff in K3. exact K3.
    - right. rewrite <- Ecn2. exact K.
    - left. destruct K as [K Km]. unfold nums in K. apply in_map_iff in K as [io [K1 K2]]. apply in_map_iff. exists io. split; [exact K1|].
      apply filter_In. split; [exact K2|]. rewrite K1, Km. reflexivity.
    - right. rewrite <- Ecn2 in K. exact K. }
  assert (Epc : g_conts st p = s_ostms st).
  { unfold g_conts, part_containers. apply filter_all. apply forallb_forall. intros s Hs.
    assert (K : In (os_id s) (map (fun t : top => fst (fst (fst t))) tops)) by (apply Htin; right; unfold cids; apply in_map; exact Hs).
    apply in_map_iff in K as [t [K1 K2]]. rewrite <- K1. apply (proj1 (forallb_forall _ _) C3b t K2). }
  assert (Ehn : g_hnums st a tops p = map (fun t : top => fst (fst (fst t))) tops) by (unfold g_hnums; rewrite Emine; reflexivity).
  assert (Eot : g_otops st a tops p = ordered (mp_order p) tops) by (unfold g_otops; rewrite Emine; reflexivity).
  match type of Ew with (if ?c then _ else _) = _ => destruct c end; [discriminate Ew|].
  (* numbers *)
  assert (Hmem : forall s m, In s (s_ostms st) -> In m (os_members s) -> In m nums) by (apply (containers_members _ _ _ Ec)).
  assert (H0n : ~ In 0 (nums ++ cids ++ g_xid p)).
  { intro K. apply mem_N_In' in K. rewrite K in C2c. discriminate C2c. }
  assert (Htn : forall n, In n (map (fun t : top => fst (fst (fst t))) tops) -> In n (nums ++ cids)).
  { intros n K. apply Htin in K as [[K _]|K]; apply in_or_app; [left|right]; exact K. }
  assert (Esz : g_size st a tops p 0 = 1 + max_num (nums ++ cids ++ g_xid p)).
  { unfold g_size. rewrite N.max_0_l, Ehn, Epc. f_equal. apply max_num_same.
    - intros n K. apply in_app_or in K as [K|K].
      + apply Htn in K. apply in_app_or in K as [K|K]; apply in_or_app; [left; exact K|right; apply in_or_app; left; exact K].
      + apply in_app_or in K as [K|K]; [apply in_or_app; right; apply in_or_app; right; exact K|].
        apply in_flat_map in K as [s [K1 K2]]. apply in_or_app. left. apply (Hmem s n K1 K2).
    - intros n K. apply in_app_or in K as [K|K].
      + destruct (mem_N n (compressed_nums st)) eqn:Em.
        * apply in_or_app. right. apply in_or_app. right. apply mem_N_In' in Em. exact Em.
        * apply in_or_app. left. apply Htin. left. split; [exact K|exact Em].
      + apply in_app_or in K as [K|K].
        * apply in_or_app. left. apply Htin. right. exact K.
        * apply in_or_app. right. apply in_or_app. left. exact K. }
  assert (Exp : g_xpos st a tops p (N.of_nat (length (header st (a_version a)))) =
                N.of_nat (length (header st (a_version a)) + length (body_of (ordered (mp_order p) tops)))).
  { unfold g_xpos. rewrite Eot, Nat2N.inj_add. reflexivity. }
  set (pos := N.of_nat (length (header st (a_version a)))) in *.
  set (xpos := N.of_nat (length (header st (a_version a)) + length (body_of (ordered (mp_order p) tops)))) in *.
  set (offs := offs_of pos (ordered (mp_order p) tops) ++ map (fun i => (i, 0, xpos)) (g_xid p)).
  assert (Eoffs : g_offs st a tops p pos = offs) by (unfold g_offs; rewrite Eot, Exp; reflexivity).
  (* object 0 is not defined here *)
  assert (Hh0 : g_here st a tops p pos 0 = false).
  { unfold g_here, g_ehere. rewrite Eoffs, Epc. rewrite find_off_none.
    - destruct (find_comp (s_ostms st) 0) as [[c k]|] eqn:Ef; [|reflexivity]. exfalso.
      apply find_comp_In in Ef as [s [K1 K2]]. apply H0n. apply in_or_app. left. apply (Hmem s 0 K1 K2).
    - unfold offs. rewrite map_app, offs_of_nums, map_map. cbn [fst]. rewrite map_id. intro K. apply H0n.
      apply in_app_or in K as [K|K]; [|apply in_or_app; right; apply in_or_app; right; exact K].
      apply in_map_iff in K as [t [K1 K2]]. apply ordered_In in K2.
      assert (K3 : In 0 (nums ++ cids)) by (apply Htn; apply in_map_iff; exists t; split; [exact K1|exact K2]).
      apply in_app_or in K3 as [K3|K3]; apply in_or_app; [left; exact K3|right; apply in_or_app; left; exact K3]. }
  (* the entries *)
  assert (Een : forall n, g_entry st a tops p pos [] n = entry_of offs stp n).
  { intro n. rewrite (entry_of_ostms offs stp st n Eo). unfold g_entry, entry_of.
    destruct (n =? 0) eqn:En.
    - apply N.eqb_eq in En. subst n. rewrite Hh0, H0. reflexivity.
    - unfold g_here, g_ehere. rewrite Eoffs, Epc. destruct (find_off offs n) as [[g q]|]; [reflexivity|].
      destruct (find_comp (s_ostms st) n) as [[c k]|]; [reflexivity|]. cbn [is_used].
      destruct (mem_N n (mp_relist p)); reflexivity. }
  assert (Ehere : forall n, g_here st a tops p pos n = is_used (entry_of offs stp n)).
  { intro n. rewrite <- Een. unfold g_entry. destruct (g_here st a tops p pos n) eqn:E; [symmetry; exact E|].
    destruct (mem_N n (mp_relist p)); [reflexivity|]. destruct (n =? 0); reflexivity. }
  assert (Esecs : g_secs st a tops p pos None [] 0 =
                  match mp_xref p with
                  | XTable t => use_secs (t_secs t) (1 + max_num (nums ++ cids ++ g_xid p)) (fun n => (n =? 0) || is_used (entry_of offs stp n))
                  | XStream x => use_secs (xs_secs x) (1 + max_num (nums ++ cids ++ g_xid p)) (fun n => is_used (entry_of offs stp n))
                  end).
  { unfold g_secs. rewrite Esz. destruct (mp_xref p); apply use_secs_ext; intro n; rewrite Ehere; reflexivity. }
  (* assemble *)
  assert (Etext : Some (s_junk st ++ header st (a_version a) ++
                        body_of (ordered (mp_order p) tops) ++
                        section_text stp a (g_secs st a tops p pos None [] 0) (entry_of offs stp) (1 + max_num (nums ++ cids ++ g_xid p)) xpos []) = Some file).
  { rewrite <- H. destruct (mp_xref p) as [t|x] eqn:Exr.
    - destruct (g_conts st p); [|discriminate Ew].
      match type of Ew with (if ?c then _ else _) = _ => destruct c end; [discriminate Ew|].
      inversion Ew; subst r. rewrite app_nil_r. unfold g_text. rewrite Eot, Esz, Exp. cbn [g_prev].
      rewrite (section_text_ext _ _ _ _ _ _ _ _ Een). fold stp. reflexivity.
    - match type of Ew with (if ?c then _ else _) = _ => destruct c end; [discriminate Ew|].
      inversion Ew; subst r. rewrite app_nil_r. unfold g_text. rewrite Eot, Esz, Exp. cbn [g_prev].
      rewrite (section_text_ext _ _ _ _ _ _ _ _ Een). fold stp. reflexivity. }
  rewrite Esecs in Etext. fold offs.
  destruct (mp_xref p) as [t|x] eqn:Exr.
  - assert (Ecz : compressed_nums st = []).
    { destruct (g_conts st p); [|discriminate Ew]. unfold compressed_nums. rewrite <- Epc. reflexivity. }
    rewrite Ecz. exact Etext.
  - exact Etext.
Qed.

(* ======================================================================================================
   Part B: the table the writer carries along ([known], the merge of the sections written so far, newest first) names every
   member of an object stream in ITS container, whatever later parts supersede: no later part can list a member's number,
   given the domain clause [Hdom] (a part's mp_nums names no member of an object stream).  This is the writer half of the
   hypothesis of C02_merge_object_streams (every member is one the MERGED table places in its container).
   ====================================================================================================== *)
Section Known.
  Variable st : fstyle.
  Variable a : adoc.
  Variable tops : list top.
  Notation comp := (compressed_nums st).

  Fixpoint final_known (parts : list mpart) (pos : N) (prev : option N) (known : list (N * sentry)) (maxnum : N) : list (N * sentry) :=
    match parts with
    | [] => known
    | p :: rest =>
      final_known rest (pos + N.of_nat (length (g_text st a tops p (g_last rest) pos prev known maxnum)))
                  (Some (g_xpos st a tops p pos)) (g_known st a tops p pos known maxnum) (g_size st a tops p maxnum - 1)
    end.

  Hypothesis Hcomp : NoDup comp.
  Hypothesis Htopn : forall t, In t tops -> ~ In (fst (fst (fst t))) comp.

  Definition part_dom (p : mpart) : Prop :=
    (forall n, In n (mp_nums p) -> ~ In n comp) /\ (forall n, In n (g_xid p) -> ~ In n comp).

  Lemma lookup_entry_map' (f : N -> sentry) known : forall l n,
    lookup_entry (map (fun k => (k, f k)) l ++ known) n = if mem_N n l then Some (f n) else lookup_entry known n.
  Proof.
    induction l as [|k l IH]; intro n; [reflexivity|]. cbn [map app lookup_entry mem_N existsb]. rewrite IH. unfold mem_N.
    rewrite (N.eqb_sym n k). destruct (k =? n) eqn:E; [apply N.eqb_eq in E; subst; reflexivity|reflexivity].
  Qed.

  Lemma conts_members p n : In n (flat_map os_members (g_conts st p)) -> In n comp.
  Proof.
    intro H. apply in_flat_map in H as [s [H1 H2]]. unfold g_conts, part_containers in H1. apply filter_In in H1 as [H1 _].
    unfold compressed_nums. apply in_flat_map. exists s. split; assumption.
  Qed.

  Lemma part_defines_eq p : part_defines st p = mp_nums p ++ flat_map os_members (g_conts st p).
  Proof. reflexivity. Qed.

  (* a member's number is not the number of a top-level object written in part [p] *)
  Lemma member_no_offset p rest pos n :
    part_dom p -> Forall part_dom rest ->
    forallb (fun no => mem_N (fst no) (flat_map (part_defines st) rest)) (mp_old p) = true ->
    In n comp -> (forall q, In q rest -> ~ In n (flat_map os_members (g_conts st q))) ->
    find_off (g_offs st a tops p pos) n = None.
  Proof.
    intros [Hd1 Hd2] Hr Hold Hn Hlater. apply find_off_none. unfold g_offs. rewrite map_app, offs_of_nums, map_map. cbn [fst]. rewrite map_id.
    intro K. apply in_app_or in K as [K|K]; [|exact (Hd2 n K Hn)].
    apply in_map_iff in K as [t [K1 K2]]. unfold g_otops in K2. apply ordered_In in K2. unfold g_mine in K2. apply in_app_or in K2 as [K2|K2].
    - apply filter_In in K2 as [K2 _]. apply (Htopn t K2). rewrite K1. exact Hn.
    - unfold g_olds in K2. apply in_flat_map in K2 as [no [K3 K4]]. destruct (find_obj (a_objs a) (fst no)) as [[g o]|]; [|contradiction].
      destruct K4 as [<-|[]]. cbn [fst] in K1.
      pose proof (proj1 (forallb_forall _ _) Hold no K3) as K5. apply mem_N_In' in K5. rewrite K1 in K5.
      apply in_flat_map in K5 as [q [K6 K7]]. rewrite part_defines_eq in K7. apply in_app_or in K7 as [K7|K7].
      + pose proof (proj1 (Forall_forall _ _) Hr q K6) as [Hq _]. exact (Hq n K7 Hn).
      + exact (Hlater q K6 K7).
  Qed.

  (* a member of no remaining part keeps the entry it has *)
  Lemma final_known_keeps : forall parts pos prev known maxnum r,
    write_parts st a tops parts pos prev known maxnum = Some r -> Forall part_dom parts ->
    forall n, In n comp -> (forall q, In q parts -> ~ In n (flat_map os_members (g_conts st q))) ->
    lookup_entry (final_known parts pos prev known maxnum) n = lookup_entry known n.
  Proof.
    induction parts as [|p rest IH]; intros pos prev known maxnum r Hw Hdom n Hn Hnot; [reflexivity|].
    rewrite write_parts_step_os in Hw. cbn [final_known].
    match type of Hw with (if ?c then _ else _) = _ => destruct c eqn:C1 end; [discriminate Hw|].
    apply negb_false_iff in C1. apply andb_true_iff in C1 as [C1 _]. apply andb_true_iff in C1 as [_ C1].
    inversion Hdom as [|? ? Hp Hr]; subst.
    assert (Hw' : exists r', write_parts st a tops rest (pos + N.of_nat (length (g_text st a tops p (g_last rest) pos prev known maxnum)))
                               (Some (g_xpos st a tops p pos)) (g_known st a tops p pos known maxnum) (g_size st a tops p maxnum - 1) = Some r').
    { destruct (mp_xref p); [destruct (g_conts st p); [|discriminate Hw]|];
        (match type of Hw with (if ?c then _ else _) = _ => destruct c end; [discriminate Hw|]);
        (match type of Hw with match ?w with Some _ => _ | None => _ end = _ => destruct w as [r'|] end; [exists r'; reflexivity|discriminate Hw]). }
    destruct Hw' as [r' Hw'].
    rewrite (IH _ _ _ _ r' Hw' Hr n Hn (fun q Hq => Hnot q (or_intror Hq))).
    unfold g_known. rewrite lookup_entry_map'.
    destruct (mem_N n (filter (g_here st a tops p pos) (range_N 0 (N.to_nat (g_size st a tops p maxnum))))) eqn:Em; [exfalso|reflexivity].
    apply mem_N_In' in Em. apply filter_In in Em as [_ Em]. unfold g_here, g_ehere in Em.
    rewrite (member_no_offset p rest pos n Hp Hr C1 Hn (fun q Hq => Hnot q (or_intror Hq))) in Em.
    destruct (find_comp (g_conts st p) n) as [[c k]|] eqn:Ef; [|discriminate Em].
    apply find_comp_In in Ef as [s [K1 K2]]. apply (Hnot p (or_introl eq_refl)). apply in_flat_map. exists s. split; assumption.
  Qed.

  Lemma NoDup_app_r' {A} : forall (l1 l2 : list A), NoDup (l1 ++ l2) -> NoDup l2.
  Proof. induction l1 as [|x l1 IH]; intros l2 H; [exact H|]. cbn [app] in H. inversion H; subst. apply IH. assumption. Qed.

  (* THE MEMBERS: after all parts, the table names every member in the container of the part that holds it *)
  Theorem known_names_members : forall parts pos prev known maxnum r,
    write_parts st a tops parts pos prev known maxnum = Some r -> Forall part_dom parts -> NoDup (flat_map mp_nums parts) ->
    forall p n c k, In p parts -> find_comp (g_conts st p) n = Some (c, k) ->
    lookup_entry (final_known parts pos prev known maxnum) n = Some (SComp c k).
  Proof.
    induction parts as [|p0 rest IH]; intros pos prev known maxnum r Hw Hdom Hnd p n c k Hp Hf; [contradiction|].
    pose proof Hw as Hw0. rewrite write_parts_step_os in Hw. cbn [final_known].
    match type of Hw with (if ?c then _ else _) = _ => destruct c eqn:C1 end; [discriminate Hw|].
    apply negb_false_iff in C1. apply andb_true_iff in C1 as [C1 _]. apply andb_true_iff in C1 as [_ C1].
    inversion Hdom as [|? ? Hp0 Hr]; subst.
    cbn [flat_map] in Hnd. pose proof (NoDup_app_r' _ _ Hnd) as Hnd'.
    assert (Hw' : exists r', write_parts st a tops rest (pos + N.of_nat (length (g_text st a tops p0 (g_last rest) pos prev known maxnum)))
                               (Some (g_xpos st a tops p0 pos)) (g_known st a tops p0 pos known maxnum) (g_size st a tops p0 maxnum - 1) = Some r').
    { destruct (mp_xref p0); [destruct (g_conts st p0); [|discriminate Hw]|];
        (match type of Hw with (if ?c then _ else _) = _ => destruct c end; [discriminate Hw|]);
        (match type of Hw with match ?w with Some _ => _ | None => _ end = _ => destruct w as [r'|] end; [exists r'; reflexivity|discriminate Hw]). }
    destruct Hw' as [r' Hw'].
    destruct Hp as [<-|Hp]; [|apply (IH _ _ _ _ r' Hw' Hr Hnd' p n c k Hp Hf)].
    (* the part that holds the container *)
    pose proof (find_comp_In _ _ _ _ Hf) as [s [Hs Hm]].
    assert (Hn : In n comp) by (apply (conts_members p0); apply in_flat_map; exists s; split; assumption).
    assert (Hlater : forall q, In q rest -> ~ In n (flat_map os_members (g_conts st q))).
    { intros q Hq K. apply in_flat_map in K as [s' [K1 K2]].
      assert (Es : s' = s).
      { unfold g_conts, part_containers in Hs, K1. apply filter_In in Hs as [Hs _]. apply filter_In in K1 as [K1 _].
        clear -Hcomp Hs K1 Hm K2. unfold compressed_nums in Hcomp. induction (s_ostms st) as [|s0 l IHl]; [contradiction|].
        cbn [flat_map] in Hcomp. pose proof (NoDup_app_r' _ _ Hcomp) as Hc'.
        assert (Hx : forall u, In u l -> In n (os_members u) -> In n (os_members s0) -> False).
        { intros u Hu Hnu Hn0. clear -Hcomp Hu Hnu Hn0. induction (os_members s0) as [|m ms IHm]; [contradiction|].
          cbn [app] in Hcomp. inversion Hcomp as [|? ? Hni Hnd]; subst. destruct Hn0 as [->|Hn0]; [|apply IHm; assumption].
          apply Hni. apply in_or_app. right. apply in_flat_map. exists u. split; assumption. }
        destruct Hs as [<-|Hs]; destruct K1 as [<-|K1]; [reflexivity|exfalso; apply (Hx s' K1 K2 Hm)|exfalso; apply (Hx s Hs Hm K2)|apply IHl; assumption]. }
      subst s'. unfold g_conts, part_containers in Hs, K1. apply filter_In in Hs as [_ Hs]. apply filter_In in K1 as [_ K1].
      apply mem_N_In' in Hs. apply mem_N_In' in K1.
      clear -Hnd Hs K1 Hq. induction (mp_nums p0) as [|m ms IHm]; [contradiction|]. cbn [app] in Hnd. inversion Hnd as [|? ? Hni Hnd2]; subst.
      destruct Hs as [->|Hs]; [|apply IHm; assumption]. apply Hni. apply in_or_app. right. apply in_flat_map. exists q. split; assumption. }
    rewrite (final_known_keeps rest _ _ _ _ r' Hw' Hr n Hn Hlater).
    unfold g_known. rewrite lookup_entry_map'.
    assert (Eh : g_ehere st a tops p0 pos n = SComp c k).
    { unfold g_ehere. rewrite (member_no_offset p0 rest pos n Hp0 Hr C1 Hn Hlater), Hf. reflexivity. }
    assert (Ehere : g_here st a tops p0 pos n = true) by (unfold g_here; rewrite Eh; reflexivity).
    assert (Hrange : In n (range_N 0 (N.to_nat (g_size st a tops p0 maxnum)))).
    { apply range_N_In. rewrite N2Nat.id. split; [lia|]. unfold g_size.
      assert (n <= max_num (g_hnums st a tops p0 ++ g_xid p0 ++ flat_map os_members (g_conts st p0))).
      { unfold max_num. apply fold_max_ge. apply in_or_app. right. apply in_or_app. right. apply in_flat_map. exists s. split; assumption. }
      lia. }
    replace (mem_N n (filter (g_here st a tops p0 pos) (range_N 0 (N.to_nat (g_size st a tops p0 maxnum))))) with true.
    - unfold g_entry. rewrite Ehere, Eh. reflexivity.
    - symmetry. apply mem_N_In'. apply filter_In. split; [exact Hrange|exact Ehere].
  Qed.
End Known.

(* ---------- the same for ref_write_multi: its own checks supply everything but the clause on mp_nums ---------- *)
Lemma NoDup_app_disj {A} : forall (l1 l2 : list A) x, NoDup (l1 ++ l2) -> In x l1 -> In x l2 -> False.
Proof.
  induction l1 as [|y l1 IH]; intros l2 x H H1 H2; [contradiction|]. cbn [app] in H. inversion H as [|? ? Hn Hd]; subst.
  destruct H1 as [->|H1]; [apply Hn; apply in_or_app; right; exact H2|apply (IH l2 x Hd H1 H2)].
Qed.

Definition multi_tops (st : fstyle) (a : adoc) : list top :=
  match containers (a_objs a) (s_ostms st) with Some conts => rw_tops st a conts | None => [] end.

Theorem multi_members_named st parts a file :
  ref_write_multi st parts a = Some file ->
  (forall p n, In p parts -> In n (mp_nums p) -> ~ In n (compressed_nums st)) ->
  forall p n c k, In p parts -> find_comp (part_containers st p) n = Some (c, k) ->
    lookup_entry (final_known st a (multi_tops st a) parts (N.of_nat (length (header st (a_version a)))) None [] 0) n = Some (SComp c k).
Proof.
  intros H Hdom p n c k Hp Hf. unfold ref_write_multi in H.
  destruct (contains (bs "%PDF-") (s_junk st) || contains [x0d] (a_version a) || contains [x0a] (a_version a)); [discriminate H|].
  match type of H with (if ?c then _ else _) = _ => destruct c eqn:C2 end; [discriminate H|].
  apply negb_false_iff in C2. apply andb_true_iff in C2 as [C2 _]. apply andb_true_iff in C2 as [C2a C2b].
  apply nodup_N_spec in C2a. apply nodup_N_spec in C2b.
  unfold multi_tops. destruct (containers (a_objs a) (s_ostms st)) as [conts|] eqn:Ec; [|discriminate H].
  fold (rw_tops st a conts) in H.
  match type of H with (if ?c then _ else _) = _ => destruct c eqn:C3 end; [discriminate H|].
  apply negb_false_iff in C3. apply andb_true_iff in C3 as [C3a _]. apply nodup_N_spec in C3a.
  destruct (write_parts st a (rw_tops st a conts) parts (N.of_nat (length (header st (a_version a)))) None [] 0) as [r|] eqn:Ew; [|discriminate H].
  assert (Hmem : forall m, In m (compressed_nums st) -> In m (map (fun io : oid * obj => fst (fst io)) (a_objs a))).
  { intros m K. unfold compressed_nums in K. apply in_flat_map in K as [s [K1 K2]]. apply (containers_members _ _ _ Ec s m K1 K2). }
  apply (known_names_members st a (rw_tops st a conts) C2b) with (r := r) (p := p); try assumption.
  - intros t Ht K. unfold rw_tops in Ht. apply in_app_or in Ht as [Ht|Ht].
    + apply in_map_iff in Ht as [io [E1 E2]]. apply filter_In in E2 as [_ E2]. subst t. cbn [fst] in K.
      apply mem_N_In' in K. rewrite K in E2. discriminate E2.
    + assert (K2 : In (fst (fst (fst t))) (map os_id (s_ostms st))).
      { rewrite <- (containers_nums _ _ _ Ec). apply in_map_iff. exists t. split; [reflexivity|exact Ht]. }
      apply (NoDup_app_disj _ _ _ C2a (Hmem _ K)). apply in_or_app. left. exact K2.
  - apply Forall_forall. intros q Hq. split; [intros m Hm; apply (Hdom q m Hq Hm)|].
    intros m Hm K. apply (NoDup_app_disj _ _ _ C2a (Hmem _ K)). apply in_or_app. right.
    unfold part_xids. apply in_flat_map. exists q. split; [exact Hq|exact Hm].
Qed.

(* ======================================================================================================
   Part C: the writer's merged table after the last part, for EVERY number: what a part currently defines (its top-level objects,
   its cross-reference stream, the members of its object streams: [defs]) keeps the entry that part wrote, whatever follows;
   a superseded definition is overridden by the part that holds the current one.  Hypothesis: the parts define disjoint sets
   (NoDup (flat_map defs parts)): ref_write_multi checks it for the top-level objects; for members and cross-reference streams
   it follows from its other checks once a part's mp_nums names top-level objects only.
   ====================================================================================================== *)
Section KnownAll.
  Variable st : fstyle.
  Variable a : adoc.
  Variable tops : list top.

  Definition defs (p : mpart) : list N := mp_nums p ++ g_xid p ++ flat_map os_members (g_conts st p).

  Lemma find_off_some : forall offs n g q, find_off offs n = Some (g, q) -> In n (map (fun t : N * N * N => fst (fst t)) offs).
  Proof.
    induction offs as [|[[i g0] q0] offs IH]; intros n g q H; [discriminate H|]. cbn [find_off] in H. cbn [map fst].
    destruct (i =? n) eqn:E; [apply N.eqb_eq in E; left; exact E|right; apply (IH n g q H)].
  Qed.

  (* what a part lists as its own is something it defines, or a superseded definition of something a later part defines *)
  Lemma here_defs p rest pos n :
    forallb (fun no => mem_N (fst no) (flat_map (part_defines st) rest)) (mp_old p) = true ->
    g_here st a tops p pos n = true ->
    (In n (g_hnums st a tops p ++ g_xid p ++ flat_map os_members (g_conts st p))) /\ In n (flat_map defs (p :: rest)).
  Proof.
    intros Hold H. unfold g_here, g_ehere in H. cbn [flat_map].
    destruct (find_off (g_offs st a tops p pos) n) as [[g q]|] eqn:Ef.
    - apply find_off_some in Ef. unfold g_offs in Ef. rewrite map_app, offs_of_nums, map_map in Ef. cbn [fst] in Ef. rewrite map_id in Ef.
      apply in_app_or in Ef as [Ef|Ef].
      + apply in_map_iff in Ef as [t [K1 K2]]. unfold g_otops in K2. apply ordered_In in K2.
        split; [apply in_or_app; left; unfold g_hnums; apply in_map_iff; exists t; split; assumption|].
        unfold g_mine in K2. apply in_app_or in K2 as [K2|K2].
        * apply filter_In in K2 as [_ K2]. apply mem_N_In' in K2. rewrite K1 in K2. apply in_or_app. left. unfold defs. apply in_or_app. left. exact K2.
        * unfold g_olds in K2. apply in_flat_map in K2 as [no [K3 K4]]. destruct (find_obj (a_objs a) (fst no)) as [[g1 o]|]; [|contradiction].
          destruct K4 as [<-|[]]. cbn [fst] in K1.
          pose proof (proj1 (forallb_forall _ _) Hold no K3) as K5. apply mem_N_In' in K5. rewrite K1 in K5.
          apply in_or_app. right. apply in_flat_map in K5 as [q0 [K6 K7]]. apply in_flat_map. exists q0. split; [exact K6|].
          unfold part_defines in K7. unfold defs. apply in_app_or in K7 as [K7|K7]; apply in_or_app; [left; exact K7|right; apply in_or_app; right; exact K7].
      + split; [apply in_or_app; right; apply in_or_app; left; exact Ef|]. apply in_or_app. left. unfold defs. apply in_or_app. right. apply in_or_app. left. exact Ef.
    - destruct (find_comp (g_conts st p) n) as [[c k]|] eqn:Ec; [|discriminate H]. apply find_comp_In in Ec as [s [K1 K2]].
      assert (K : In n (flat_map os_members (g_conts st p))) by (apply in_flat_map; exists s; split; assumption).
      split; [apply in_or_app; right; apply in_or_app; right; exact K|]. apply in_or_app. left. unfold defs. apply in_or_app. right. apply in_or_app. right. exact K.
  Qed.

  Lemma write_parts_tail p rest pos prev known maxnum r :
    write_parts st a tops (p :: rest) pos prev known maxnum = Some r ->
    forallb (fun no => mem_N (fst no) (flat_map (part_defines st) rest)) (mp_old p) = true /\
    exists r', write_parts st a tops rest (pos + N.of_nat (length (g_text st a tops p (g_last rest) pos prev known maxnum)))
                 (Some (g_xpos st a tops p pos)) (g_known st a tops p pos known maxnum) (g_size st a tops p maxnum - 1) = Some r'.
  Proof.
    intro Hw. rewrite write_parts_step_os in Hw.
    match type of Hw with (if ?c then _ else _) = _ => destruct c eqn:C1 end; [discriminate Hw|].
    apply negb_false_iff in C1. apply andb_true_iff in C1 as [C1 _]. apply andb_true_iff in C1 as [_ C1]. split; [exact C1|].
    destruct (mp_xref p); [destruct (g_conts st p); [|discriminate Hw]|];
      (match type of Hw with (if ?c then _ else _) = _ => destruct c end; [discriminate Hw|]);
      (match type of Hw with match ?w with Some _ => _ | None => _ end = _ => destruct w as [r'|] end; [exists r'; reflexivity|discriminate Hw]).
  Qed.

  (* a number no remaining part defines keeps its entry *)
  Lemma final_known_untouched : forall parts pos prev known maxnum r,
    write_parts st a tops parts pos prev known maxnum = Some r ->
    forall n, ~ In n (flat_map defs parts) -> lookup_entry (final_known st a tops parts pos prev known maxnum) n = lookup_entry known n.
  Proof.
    induction parts as [|p rest IH]; intros pos prev known maxnum r Hw n Hn; [reflexivity|]. cbn [final_known].
    destruct (write_parts_tail p rest pos prev known maxnum r Hw) as [Hold [r' Hw']].
    rewrite (IH _ _ _ _ r' Hw' n (fun K => Hn (in_or_app _ _ _ (or_intror K)))).
    unfold g_known. rewrite lookup_entry_map'.
    destruct (mem_N n (filter (g_here st a tops p pos) (range_N 0 (N.to_nat (g_size st a tops p maxnum))))) eqn:Em; [exfalso|reflexivity].
    apply mem_N_In' in Em. apply filter_In in Em as [_ Em]. apply Hn. apply (proj2 (here_defs p rest pos n Hold Em)).
  Qed.

  (* THE CURRENT DEFINITIONS: what part [p] lists as its own and no later part defines keeps the entry [p] wrote *)
  Theorem known_keeps_current p rest pos prev known maxnum r n :
    write_parts st a tops (p :: rest) pos prev known maxnum = Some r ->
    g_here st a tops p pos n = true -> ~ In n (flat_map defs rest) ->
    lookup_entry (final_known st a tops (p :: rest) pos prev known maxnum) n = Some (g_ehere st a tops p pos n).
  Proof.
    intros Hw Hh Hn. cbn [final_known]. destruct (write_parts_tail p rest pos prev known maxnum r Hw) as [Hold [r' Hw']].
    rewrite (final_known_untouched rest _ _ _ _ r' Hw' n Hn). unfold g_known. rewrite lookup_entry_map'.
    replace (mem_N n (filter (g_here st a tops p pos) (range_N 0 (N.to_nat (g_size st a tops p maxnum))))) with true.
    - unfold g_entry. rewrite Hh. reflexivity.
    - symmetry. apply mem_N_In'. apply filter_In. split; [|exact Hh]. apply range_N_In. rewrite N2Nat.id. split; [lia|].
      destruct (here_defs p rest pos n Hold Hh) as [K _]. unfold g_size.
      assert (n <= max_num (g_hnums st a tops p ++ g_xid p ++ flat_map os_members (g_conts st p))) by (unfold max_num; apply fold_max_ge; exact K).
      lia.
  Qed.

  (* with disjoint [defs]: every number a part DEFINES keeps the entry that part wrote -- in particular a superseded definition
     (listed by an earlier part) is not the one the final table names *)
  Theorem known_current : forall parts pos prev known maxnum r,
    write_parts st a tops parts pos prev known maxnum = Some r -> NoDup (flat_map defs parts) ->
    forall pre p post n, parts = pre ++ p :: post -> In n (defs p) ->
    exists pos' prev' known' maxnum',
      lookup_entry (final_known st a tops parts pos prev known maxnum) n =
      lookup_entry (final_known st a tops (p :: post) pos' prev' known' maxnum') n /\
      (g_here st a tops p pos' n = true ->
       lookup_entry (final_known st a tops parts pos prev known maxnum) n = Some (g_ehere st a tops p pos' n)).
  Proof.
    intros parts pos prev known maxnum r Hw Hnd pre. revert parts pos prev known maxnum r Hw Hnd.
    induction pre as [|p0 pre IH]; intros parts pos prev known maxnum r Hw Hnd p post n -> Hn.
    - exists pos, prev, known, maxnum. split; [reflexivity|]. intro Hh. cbn [app] in *.
      apply (known_keeps_current p post pos prev known maxnum r n Hw Hh). cbn [flat_map] in Hnd.
      intro K. apply (NoDup_app_disj _ _ n Hnd Hn K).
    - cbn [app] in *. destruct (write_parts_tail p0 (pre ++ p :: post) pos prev known maxnum r Hw) as [_ [r' Hw']].
      cbn [flat_map] in Hnd. destruct (IH _ _ _ _ _ r' Hw' (NoDup_app_r' _ _ Hnd) p post n eq_refl Hn) as [pos' [prev' [known' [maxnum' [E1 E2]]]]].
      exists pos', prev', known', maxnum'. cbn [final_known]. split; [exact E1|exact E2].
  Qed.
End KnownAll.

(* ======================================================================================================
   Part D: the parts of ref_write_multi define disjoint sets (the hypothesis of part C), once a part's mp_nums names
   top-level objects only
   ====================================================================================================== *)
Lemma NoDup_app_intro {A} : forall (l1 l2 : list A), NoDup l1 -> NoDup l2 -> (forall x, In x l1 -> In x l2 -> False) -> NoDup (l1 ++ l2).
Proof.
  induction l1 as [|y l1 IH]; intros l2 H1 H2 Hd; [exact H2|]. cbn [app]. inversion H1 as [|? ? Hn Hd1]; subst. constructor.
  - intro K. apply in_app_or in K as [K|K]; [exact (Hn K)|exact (Hd y (or_introl eq_refl) K)].
  - apply IH; [exact Hd1|exact H2|intros x Hx; apply Hd; right; exact Hx].
Qed.
Lemma NoDup_app_l' {A} : forall (l1 l2 : list A), NoDup (l1 ++ l2) -> NoDup l1.
Proof.
  induction l1 as [|x l1 IH]; intros l2 H; [constructor|]. cbn [app] in H. inversion H as [|? ? Hn Hd]; subst.
  constructor; [intro K; apply Hn; apply in_or_app; left; exact K|apply (IH l2 Hd)].
Qed.
Lemma NoDup_flat_filter {A B} (f : A -> list B) (g : A -> bool) : forall l, NoDup (flat_map f l) -> NoDup (flat_map f (filter g l)).
Proof.
  induction l as [|x l IH]; intro H; [constructor|]. cbn [flat_map] in H. cbn [filter].
  pose proof (NoDup_app_r' _ _ H) as H2. destruct (g x); [|apply IH; exact H2]. cbn [flat_map].
  apply NoDup_app_intro; [apply (NoDup_app_l' _ _ H)|apply IH; exact H2|].
  intros b Hb K. apply (NoDup_app_disj _ _ b H Hb). apply in_flat_map in K as [y [K1 K2]]. apply filter_In in K1 as [K1 _].
  apply in_flat_map. exists y. split; assumption.
Qed.
Lemma flat_member_unique {A B} (f : A -> list B) : forall l x y b, NoDup (flat_map f l) -> In x l -> In y l -> In b (f x) -> In b (f y) -> x = y.
Proof.
  induction l as [|z l IH]; intros x y b H Hx Hy Hbx Hby; [contradiction|]. cbn [flat_map] in H.
  assert (Hz : forall u, In u l -> In b (f u) -> In b (f z) -> False).
  { intros u Hu K1 K2. apply (NoDup_app_disj _ _ b H K2). apply in_flat_map. exists u. split; assumption. }
  destruct Hx as [<-|Hx]; destruct Hy as [<-|Hy]; [reflexivity|exfalso; apply (Hz y Hy Hby Hbx)|exfalso; apply (Hz x Hx Hbx Hby)|].
  apply (IH x y b (NoDup_app_r' _ _ H) Hx Hy Hbx Hby).
Qed.

Section Disjoint.
  Variable st : fstyle.
  Variable T X : N -> Prop.       (* the number of a top-level object / of a cross-reference stream *)
  Notation comp := (compressed_nums st).
  Hypothesis Hcomp : NoDup comp.
  Hypothesis HTX : forall n, T n -> X n -> False.
  Hypothesis HTc : forall n, T n -> In n comp -> False.
  Hypothesis HXc : forall n, X n -> In n comp -> False.

  Lemma defs_nodup : forall parts,
    NoDup (flat_map mp_nums parts) -> NoDup (flat_map g_xid parts) ->
    (forall p n, In p parts -> In n (mp_nums p) -> T n) -> (forall p n, In p parts -> In n (g_xid p) -> X n) ->
    NoDup (flat_map (defs st) parts).
  Proof.
    induction parts as [|p rest IH]; intros Hn Hx HT HX; [constructor|]. cbn [flat_map] in *.
    assert (Hmc : forall q n, In n (flat_map os_members (g_conts st q)) -> In n comp) by (intros q n; apply conts_members).
    apply NoDup_app_intro.
    - unfold defs. apply NoDup_app_intro; [apply (NoDup_app_l' _ _ Hn)| |].
      + apply NoDup_app_intro; [apply (NoDup_app_l' _ _ Hx)|apply NoDup_flat_filter; exact Hcomp|].
        intros n K1 K2. apply (HXc n (HX p n (or_introl eq_refl) K1) (Hmc p n K2)).
      + intros n K1 K2. pose proof (HT p n (or_introl eq_refl) K1) as Kt. apply in_app_or in K2 as [K2|K2].
        * apply (HTX n Kt (HX p n (or_introl eq_refl) K2)).
        * apply (HTc n Kt (Hmc p n K2)).
    - apply IH; [apply (NoDup_app_r' _ _ Hn)|apply (NoDup_app_r' _ _ Hx)|intros q n Hq; apply HT; right; exact Hq|intros q n Hq; apply HX; right; exact Hq].
    - intros n K1 K2. apply in_flat_map in K2 as [q [Hq K2]]. unfold defs in K1, K2.
      apply in_app_or in K1 as [K1|K1]; [|apply in_app_or in K1 as [K1|K1]]; (apply in_app_or in K2 as [K2|K2]; [|apply in_app_or in K2 as [K2|K2]]).
      + apply (NoDup_app_disj _ _ n Hn K1). apply in_flat_map. exists q. split; assumption.
      + apply (HTX n (HT p n (or_introl eq_refl) K1) (HX q n (or_intror Hq) K2)).
      + apply (HTc n (HT p n (or_introl eq_refl) K1) (Hmc q n K2)).
      + apply (HTX n (HT q n (or_intror Hq) K2) (HX p n (or_introl eq_refl) K1)).
      + apply (NoDup_app_disj _ _ n Hx K1). apply in_flat_map. exists q. split; assumption.
      + apply (HXc n (HX p n (or_introl eq_refl) K1) (Hmc q n K2)).
      + apply (HTc n (HT q n (or_intror Hq) K2) (Hmc p n K1)).
      + apply (HXc n (HX q n (or_intror Hq) K2) (Hmc p n K1)).
      + apply in_flat_map in K1 as [s [S1 S2]]. apply in_flat_map in K2 as [s' [S3 S4]].
        unfold g_conts, part_containers in S1, S3. apply filter_In in S1 as [S1 S1m]. apply filter_In in S3 as [S3 S3m].
        assert (Es : s = s') by (apply (flat_member_unique os_members (s_ostms st) s s' n Hcomp S1 S3 S2 S4)). subst s'.
        apply mem_N_In' in S1m. apply mem_N_In' in S3m.
        apply (NoDup_app_disj _ _ (os_id s) Hn S1m). apply in_flat_map. exists q. split; assumption.
  Qed.
End Disjoint.

Theorem multi_defs_nodup st parts a file :
  ref_write_multi st parts a = Some file ->
  (forall p n, In p parts -> In n (mp_nums p) -> In n (map (fun t : top => fst (fst (fst t))) (multi_tops st a))) ->
  NoDup (flat_map (defs st) parts).
Proof.
  intros H Hdom. unfold ref_write_multi in H.
  destruct (contains (bs "%PDF-") (s_junk st) || contains [x0d] (a_version a) || contains [x0a] (a_version a)); [discriminate H|].
  match type of H with (if ?c then _ else _) = _ => destruct c eqn:C2 end; [discriminate H|].
  apply negb_false_iff in C2. apply andb_true_iff in C2 as [C2 _]. apply andb_true_iff in C2 as [C2a C2b].
  apply nodup_N_spec in C2a. apply nodup_N_spec in C2b.
  unfold multi_tops in Hdom. destruct (containers (a_objs a) (s_ostms st)) as [conts|] eqn:Ec; [|discriminate H].
  fold (rw_tops st a conts) in H.
  match type of H with (if ?c then _ else _) = _ => destruct c eqn:C3 end; [discriminate H|].
  apply negb_false_iff in C3. apply andb_true_iff in C3 as [C3a _]. apply nodup_N_spec in C3a.
  set (nums := map (fun io : oid * obj => fst (fst io)) (a_objs a)) in *. set (cids := map os_id (s_ostms st)) in *.
  assert (Hmem : forall m, In m (compressed_nums st) -> In m nums).
  { intros m K. unfold compressed_nums in K. apply in_flat_map in K as [s [K1 K2]]. apply (containers_members _ _ _ Ec s m K1 K2). }
  pose proof (NoDup_app_r' _ _ C2a) as Hcx.
  apply (defs_nodup st (fun n => (In n nums /\ ~ In n (compressed_nums st)) \/ In n cids) (fun n => In n (part_xids parts)) C2b).
  - intros n [[K1 _]|K1] K2.
    + apply (NoDup_app_disj _ _ n C2a K1). apply in_or_app. right. exact K2.
    + apply (NoDup_app_disj _ _ n Hcx K1 K2).
  - intros n [[_ K1]|K1] K2; [exact (K1 K2)|]. apply (NoDup_app_disj _ _ n C2a (Hmem n K2)). apply in_or_app. left. exact K1.
  - intros n K1 K2. apply (NoDup_app_disj _ _ n C2a (Hmem n K2)). apply in_or_app. right. exact K1.
  - exact C3a.
  - exact (NoDup_app_r' _ _ Hcx).
  - intros p n Hp Hn. pose proof (Hdom p n Hp Hn) as K. apply in_map_iff in K as [t [K1 K2]]. unfold rw_tops in K2. apply in_app_or in K2 as [K2|K2].
    + left. apply in_map_iff in K2 as [io [E1 E2]]. apply filter_In in E2 as [E2 E3]. subst t. cbn [fst] in K1. subst n. split.
      * unfold nums. apply in_map_iff. exists io. split; [reflexivity|exact E2].
      * intro K. apply mem_N_In' in K. rewrite K in E3. discriminate E3.
    + right. unfold cids. rewrite <- (containers_nums _ _ _ Ec). apply in_map_iff. exists t. split; assumption.
  - intros p n Hp Hn. unfold part_xids. apply in_flat_map. exists p. split; assumption.
Qed.

(* the position at which the k-th part starts (with the rest of the writer's state there) *)
Fixpoint state_at (st : fstyle) (a : adoc) (tops : list top) (parts : list mpart) (pos : N) (prev : option N)
         (known : list (N * sentry)) (maxnum : N) (k : nat) : N * option N * list (N * sentry) * N :=
  match k, parts with
  | S k', p :: rest =>
    state_at st a tops rest (pos + N.of_nat (length (g_text st a tops p (g_last rest) pos prev known maxnum)))
             (Some (g_xpos st a tops p pos)) (g_known st a tops p pos known maxnum) (g_size st a tops p maxnum - 1) k'
  | _, _ => (pos, prev, known, maxnum)
  end.
Definition pos_at st a tops parts pos prev known maxnum k : N := fst (fst (fst (state_at st a tops parts pos prev known maxnum k))).

(* with disjoint [defs]: EVERY number a part defines ends with the entry that part wrote at the place where the part stands *)
Theorem known_current_at st a tops : forall pre parts pos prev known maxnum r p post n,
  write_parts st a tops parts pos prev known maxnum = Some r -> NoDup (flat_map (defs st) parts) ->
  parts = pre ++ p :: post -> In n (defs st p) ->
  g_here st a tops p (pos_at st a tops parts pos prev known maxnum (length pre)) n = true ->
  lookup_entry (final_known st a tops parts pos prev known maxnum) n =
  Some (g_ehere st a tops p (pos_at st a tops parts pos prev known maxnum (length pre)) n).
Proof.
  induction pre as [|p0 pre IH]; intros parts pos prev known maxnum r p post n Hw Hnd -> Hn Hh.
  - cbn [app length] in *. unfold pos_at in *. cbn [state_at fst] in *.
    apply (known_keeps_current st a tops p post pos prev known maxnum r n Hw Hh). cbn [flat_map] in Hnd.
    intro K. apply (NoDup_app_disj _ _ n Hnd Hn K).
  - cbn [app length] in *. destruct (write_parts_tail st a tops p0 (pre ++ p :: post) pos prev known maxnum r Hw) as [_ [r' Hw']].
    cbn [flat_map] in Hnd. unfold pos_at in *. cbn [state_at] in *. cbn [final_known].
    apply (IH _ _ _ _ _ r' p post n Hw' (NoDup_app_r' _ _ Hnd) eq_refl Hn Hh).
Qed.

(* ---------- ref_write_multi: the run of write_parts it contains ---------- *)
Lemma multi_write_parts st parts a file :
  ref_write_multi st parts a = Some file ->
  exists r, write_parts st a (multi_tops st a) parts (N.of_nat (length (header st (a_version a)))) None [] 0 = Some r /\
            file = s_junk st ++ header st (a_version a) ++ r.
Proof.
  intro H. unfold ref_write_multi in H.
  destruct (contains (bs "%PDF-") (s_junk st) || contains [x0d] (a_version a) || contains [x0a] (a_version a)); [discriminate H|].
  match type of H with (if ?c then _ else _) = _ => destruct c end; [discriminate H|].
  unfold multi_tops. destruct (containers (a_objs a) (s_ostms st)) as [conts|]; [|discriminate H].
  fold (rw_tops st a conts) in H.
  match type of H with (if ?c then _ else _) = _ => destruct c end; [discriminate H|].
  destruct (write_parts st a (rw_tops st a conts) parts (N.of_nat (length (header st (a_version a)))) None [] 0) as [r|]; [|discriminate H].
  exists r. split; [reflexivity|]. destruct parts; [discriminate H|]. inversion H. reflexivity.
Qed.

(* THE MERGED TABLE OF THE WRITER, for ref_write_multi: every number a part defines -- a top-level object, its cross-reference stream,
   a member of one of its object streams -- ends with the entry that part wrote (offset inside the part resp. container and index),
   whatever earlier parts listed under that number (superseded definitions) and whatever later parts list again *)
Theorem multi_known_current st parts a file pre p post n :
  ref_write_multi st parts a = Some file ->
  (forall q m, In q parts -> In m (mp_nums q) -> In m (map (fun t : top => fst (fst (fst t))) (multi_tops st a))) ->
  parts = pre ++ p :: post -> In n (defs st p) ->
  g_here st a (multi_tops st a) p (pos_at st a (multi_tops st a) parts (N.of_nat (length (header st (a_version a)))) None [] 0 (length pre)) n = true ->
  lookup_entry (final_known st a (multi_tops st a) parts (N.of_nat (length (header st (a_version a)))) None [] 0) n =
  Some (g_ehere st a (multi_tops st a) p (pos_at st a (multi_tops st a) parts (N.of_nat (length (header st (a_version a)))) None [] 0 (length pre)) n).
Proof.
  intros H Hdom Ep Hn Hh. destruct (multi_write_parts st parts a file H) as [r [Hw _]].
  apply (known_current_at st a (multi_tops st a) pre parts _ _ _ _ r p post n Hw (multi_defs_nodup st parts a file H Hdom) Ep Hn Hh).
Qed.
