(* IsoProofsRT.v -- C06: the standard's reader undoes the standard's writer, object by object
   (Iso.decrypt_indirect . Iso.encrypt_indirect): strings at every depth, stream dictionaries, stream data, the
   exemptions; the crypt filter a stream selects does not change when its strings are encrypted.  With
   "lopdf writes what the standard's writer writes" (IsoProofsObj) this gives the direction lopdf -> standard. *)
From LV Require Import Base.Bytes Base.Sx Model.Obj Model.DocQ Gen.Crypto
  Model.Crypto.Word Model.Crypto.RC4 Model.Crypto.PKCS5 Model.Crypto.Handler
  Spec.Crypto.Iso Spec.Crypto.IsoConcrete
  Proofs.CryptoProofs Proofs.CryptoProofsFilter Proofs.CryptoProofsObject Proofs.IsoProofs Proofs.IsoProofsData
  Proofs.IsoProofsObj.
Local Open Scope N_scope.

(* an object without the contents of its strings: what crypt filter selection and the exemptions can depend on *)
Fixpoint strip (o : obj) : obj :=
  match o with
  | OStr _ h => OStr [] h
  | OArr l => OArr (map strip l)
  | ODict d => ODict (map (fun kv => (fst kv, strip (snd kv))) d)
  | _ => o
  end.
Definition strip_dict (d : dict) : dict := map (fun kv => (fst kv, strip (snd kv))) d.

Lemma dict_get_strip d k : dict_get (strip_dict d) k = option_map strip (dict_get d k).
Proof.
  induction d as [|[k0 x] d IH]; [reflexivity|]. cbn [strip_dict map fst snd dict_get].
  destruct (bytes_eqb k0 k); [reflexivity|exact IH].
Qed.

Lemma index_of_name_strip n l : index_of_name n (map strip l) = index_of_name n l.
Proof.
  induction l as [|x l IH]; [reflexivity|]. cbn [map].
  destruct x; cbn [strip index_of_name]; rewrite ?IH; reflexivity.
Qed.

Definition name_of (dp : option obj) : bytes :=
  match dp with
  | Some (ODict p) => match dict_get p iK_Name with Some (OName n) => n | _ => iN_Identity end
  | _ => iN_Identity
  end.

Lemma name_of_strip dp : name_of (option_map strip dp) = name_of dp.
Proof.
  destruct dp as [[| | | | | | | p | |]|]; try reflexivity. cbn [option_map strip name_of].
  fold (strip_dict p). rewrite dict_get_strip. destruct (dict_get p iK_Name) as [[| | | | | | | | |]|]; reflexivity.
Qed.

Lemma crypt_filter_name_eq sd :
  crypt_filter_name sd =
  match dict_get sd iK_Filter with
  | Some (OName f) => if bytes_eqb f iN_Crypt then Some (name_of (dict_get sd iK_DecodeParms)) else None
  | Some (OArr fs) =>
    match index_of_name iN_Crypt fs with
    | Some k => Some (match dict_get sd iK_DecodeParms with
                      | Some (OArr ps) => name_of (nth_error ps k)
                      | other => name_of other
                      end)
    | None => None
    end
  | _ => None
  end.
Proof. reflexivity. Qed.

Lemma crypt_filter_name_strip sd : crypt_filter_name (strip_dict sd) = crypt_filter_name sd.
Proof.
  rewrite !crypt_filter_name_eq, !dict_get_strip.
  destruct (dict_get sd iK_Filter) as [[| | | | f | | fs | | |]|]; try reflexivity; cbn [option_map strip].
  - destruct (bytes_eqb f iN_Crypt); [|reflexivity]. rewrite name_of_strip. reflexivity.
  - rewrite index_of_name_strip. destruct (index_of_name iN_Crypt fs) as [k|]; [|reflexivity]. f_equal.
    destruct (dict_get sd iK_DecodeParms) as [[| | | | | | ps | p | |]|]; try reflexivity.
    + cbn [option_map strip]. rewrite nth_error_map. apply name_of_strip.
    + apply (name_of_strip (Some (ODict p))).
Qed.

Lemma dict_type_is_strip sd t : dict_type_is (strip_dict sd) t = dict_type_is sd t.
Proof.
  unfold dict_type_is. rewrite dict_get_strip. destruct (dict_get sd iK_Type) as [[| | | | | | | | |]|]; reflexivity.
Qed.

Lemma stream_method_strip ip sd : stream_method ip (strip_dict sd) = stream_method ip sd.
Proof. unfold stream_method. rewrite crypt_filter_name_strip, dict_type_is_strip. reflexivity. Qed.

Lemma strip_dict_set_int d k z : strip_dict (dict_set d k (OInt z)) = dict_set (strip_dict d) k (OInt z).
Proof.
  induction d as [|[k0 x] d IH]; [reflexivity|]. cbn [dict_set strip_dict map fst snd].
  destruct (bytes_eqb k0 k); cbn [map fst snd strip]; [reflexivity|]. fold (strip_dict (dict_set d k (OInt z))). rewrite IH. reflexivity.
Qed.

Lemma dict_get_set_other d k v k' : k <> k' -> dict_get (dict_set d k v) k' = dict_get d k'.
Proof. apply dget_set_other. Qed.

(* a Length entry does not take part in crypt filter selection or in the exemptions *)
Lemma crypt_filter_name_set_length sd n : crypt_filter_name (set_length sd n) = crypt_filter_name sd.
Proof.
  rewrite !crypt_filter_name_eq. unfold set_length. rewrite !dget_set_other by (cbv; discriminate). reflexivity.
Qed.
Lemma dict_type_is_set_length sd n t : dict_type_is (set_length sd n) t = dict_type_is sd t.
Proof. unfold dict_type_is, set_length. rewrite dget_set_other by (cbv; discriminate). reflexivity. Qed.
Lemma stream_method_set_length ip sd n : stream_method ip (set_length sd n) = stream_method ip sd.
Proof. unfold stream_method. rewrite crypt_filter_name_set_length, dict_type_is_set_length. reflexivity. Qed.

Section RT.
Variable P : prims.
Hypothesis md5_len : forall m, length (p_md5 P m) = 16%nat.
Hypothesis HA : aes_ok P.
Let I := iprims_of P.

(* the standard's nested loops of the reader as top-level functions *)
Fixpoint dec_list_i (ip : iparams) (fek : bytes) (id : oid) (l : list obj) : option (list obj) :=
  match l with
  | [] => Some []
  | x :: l' => match decrypt_strings I ip fek id x, dec_list_i ip fek id l' with
               | Some x', Some r => Some (x' :: r) | _, _ => None end
  end.
Fixpoint dec_dict_i (ip : iparams) (fek : bytes) (id : oid) (d : dict) : option dict :=
  match d with
  | [] => Some []
  | (k, x) :: d' => match decrypt_strings I ip fek id x, dec_dict_i ip fek id d' with
                    | Some x', Some r => Some ((k, x') :: r) | _, _ => None end
  end.

Lemma decrypt_strings_arr ip fek id l :
  decrypt_strings I ip fek id (OArr l) = option_map OArr (dec_list_i ip fek id l).
Proof.
  cbn [decrypt_strings]. f_equal. induction l as [|x l IH]; [reflexivity|]. cbn [dec_list_i]. rewrite IH. reflexivity.
Qed.
Lemma decrypt_strings_dict ip fek id d :
  decrypt_strings I ip fek id (ODict d) = option_map ODict (dec_dict_i ip fek id d).
Proof.
  cbn [decrypt_strings]. f_equal. induction d as [|[k x] d IH]; [reflexivity|]. cbn [dec_dict_i]. rewrite IH. reflexivity.
Qed.

Variables (ip : iparams) (fek : bytes) (id : oid).
Hypothesis Hstr : method_ok (string_method ip) fek.

(* strings at every depth *)
Theorem strings_rt : forall o ivs,
  decrypt_strings I ip fek id (fst (encrypt_strings I ip fek id o ivs)) = Some o /\
  strip (fst (encrypt_strings I ip fek id o ivs)) = strip o.
Proof.
  induction o as [|b|z|r|n|s h|l Hl|d Hd|d c Hd|i g] using obj_ind5; intro ivs; try (split; reflexivity).
  - rewrite (iso_step_str P). cbn [fst decrypt_strings strip]. split; [|reflexivity].
    unfold iso_enc_step. fold I.
    destruct (uses_iv (string_method ip)); [destruct (next_iv ivs)|]; cbn [fst];
      rewrite (iso_data_rt P md5_len _ _ _ _ _ HA Hstr); reflexivity.
  - rewrite (encrypt_strings_arr P). cbn [fst strip]. rewrite decrypt_strings_arr.
    assert (G : forall ivs, dec_list_i ip fek id (fst (iso_list P ip fek id l ivs)) = Some l /\
                            map strip (fst (iso_list P ip fek id l ivs)) = map strip l).
    { induction Hl as [|x l Hx _ IH]; intro ivs0; [split; reflexivity|].
      cbn [iso_list fst snd dec_list_i map]. destruct (Hx ivs0) as [E1 E2]. fold I. rewrite E1, E2.
      destruct (IH (snd (encrypt_strings I ip fek id x ivs0))) as [E3 E4]. rewrite E3, E4. split; reflexivity. }
    destruct (G ivs) as [G1 G2]. rewrite G1, G2. split; reflexivity.
  - rewrite (encrypt_strings_dict P). cbn [fst strip]. rewrite decrypt_strings_dict.
    assert (G : forall ivs, dec_dict_i ip fek id (fst (iso_dict P ip fek id d ivs)) = Some d /\
                            strip_dict (fst (iso_dict P ip fek id d ivs)) = strip_dict d).
    { induction Hd as [|[k x] d Hx _ IH]; intro ivs0; [split; reflexivity|]. cbn [snd] in Hx.
      cbn [iso_dict fst snd dec_dict_i strip_dict map]. destruct (Hx ivs0) as [E1 E2]. fold I. rewrite E1, E2.
      destruct (IH (snd (encrypt_strings I ip fek id x ivs0))) as [E3 E4]. rewrite E3. unfold strip_dict in E4. rewrite E4.
      split; reflexivity. }
    destruct (G ivs) as [G1 G2]. rewrite G1. unfold strip_dict in G2. rewrite G2. split; reflexivity.
Qed.

Lemma dict_rt d ivs :
  dec_dict_i ip fek id (fst (iso_dict P ip fek id d ivs)) = Some d /\
  strip_dict (fst (iso_dict P ip fek id d ivs)) = strip_dict d.
Proof.
  destruct (strings_rt (ODict d) ivs) as [E1 E2]. rewrite (encrypt_strings_dict P) in E1, E2. cbn [fst] in E1, E2.
  rewrite decrypt_strings_dict in E1. cbn [strip] in E2.
  destruct (dec_dict_i ip fek id (fst (iso_dict P ip fek id d ivs))) as [r|]; [|discriminate].
  inversion E1; subst r. inversion E2 as [E3]. split; [reflexivity|exact E3].
Qed.

Lemma dec_dict_i_set_int d k z r :
  dec_dict_i ip fek id d = Some r -> dec_dict_i ip fek id (dict_set d k (OInt z)) = Some (dict_set r k (OInt z)).
Proof.
  revert r. induction d as [|[k0 x] d IH]; intros r H; cbn [dict_set dec_dict_i] in *.
  - inversion H; subst. reflexivity.
  - destruct (decrypt_strings I ip fek id x) as [x'|] eqn:Ex; [|discriminate].
    destruct (dec_dict_i ip fek id d) as [r1|] eqn:Er; [|discriminate]. inversion H; subst r.
    destruct (bytes_eqb k0 k) eqn:E; cbn [dec_dict_i dict_set decrypt_strings].
    + rewrite Er, E. reflexivity.
    + rewrite Ex, (IH r1 eq_refl), E. reflexivity.
Qed.

(* what the reader returns for an object the writer wrote: the object, a stream with its Length entry set *)
Definition iso_norm (o : obj) : obj :=
  if exempt ip o then o
  else match o with OStream sd c => OStream (set_length sd (length c)) c | _ => o end.

Hypothesis Hstm : forall sd, method_ok (stream_method ip sd) fek.

Theorem indirect_rt o ivs :
  decrypt_indirect I ip fek id (fst (encrypt_indirect I ip fek id o ivs)) = Some (iso_norm o).
Proof.
  unfold encrypt_indirect, iso_norm. destruct (exempt ip o) eqn:Ex.
  - cbn [fst]. unfold decrypt_indirect. rewrite Ex. reflexivity.
  - destruct o as [|b|z|r|n|s h|l|d|sd c|i g];
      try (unfold decrypt_indirect;
           match goal with |- context [encrypt_strings I ip fek id ?o ivs] =>
             destruct (strings_rt o ivs) as [E1 E2];
             assert (Ex' : exempt ip (fst (encrypt_strings I ip fek id o ivs)) = false)
               by (destruct (fst (encrypt_strings I ip fek id o ivs)); try reflexivity; discriminate E2);
             rewrite Ex'; destruct (fst (encrypt_strings I ip fek id o ivs)); try exact E1; discriminate E2 end).
    rewrite (encrypt_dict_strings_eq P).
    destruct (dict_rt sd ivs) as [D1 D2].
    destruct (iso_dict P ip fek id sd ivs) as [sd' ivs1] eqn:Ed. cbn [fst] in D1, D2.
    set (m := stream_method ip sd).
    destruct (if uses_iv m then next_iv ivs1 else ([], ivs1)) as [iv ivs2]. cbn [fst].
    set (c' := data_encrypt I m fek id iv c).
    assert (Em : stream_method ip (set_length sd' (length c')) = m).
    { rewrite stream_method_set_length, <- (stream_method_strip ip sd'), D2. apply stream_method_strip. }
    assert (Ex' : exempt ip (OStream (set_length sd' (length c')) c') = false).
    { unfold exempt in *. rewrite !dict_type_is_set_length, <- !(dict_type_is_strip sd'), D2, !dict_type_is_strip. exact Ex. }
    unfold decrypt_indirect. rewrite Ex'. rewrite decrypt_strings_dict.
    unfold set_length at 1. rewrite (dec_dict_i_set_int sd' _ _ sd D1). cbn [option_map].
    rewrite Em. unfold c'. rewrite (iso_data_rt P md5_len _ _ _ _ _ HA (Hstm sd)).
    unfold set_length. rewrite dset_set. reflexivity.
Qed.

End RT.
