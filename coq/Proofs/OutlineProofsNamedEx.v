(* OutlineProofsNamedEx.v -- C17 with named destinations: computed instances.
   [nd_doc]   : the two-page example document of OutlineProofsProps.v whose catalog has a VALID name tree
                (Names -> Dests -> root node with a Kids reference -> leaf with two entries: an indirect
                destination array and a direct dictionary with D); the five example calls read back to the
                same four rows, and get_named_destinations did collect both names.
   [cyc_doc]  : the same document with `Dests 5 0 R`, 5 0 obj << /Kids [5 0 R] >>: a cyclic name tree.
   [bad_doc]  : the same document with a direct `Dests << /Names [(k) << >>] >>` (a value without D): ill-typed.
   On the last two the outline is built exactly as on the first (same objects, shifted numbers), and get_toc
   answers Err: the document is outside the domain of the read-back clause ([name_tree_readable] = false). *)
From LV Require Import Base.Bytes Model.Obj Model.DocQ Model.PageTree Model.Outline Model.Toc Gen.QueryC
  Spec.OutlineSpec Proofs.OutlineProofs Proofs.OutlineProofsTitle Proofs.OutlineProofsRead Proofs.OutlineProofsOps
  Proofs.OutlineProofsMain Proofs.OutlineProofsProps.
From LV Require Model.Query Model.TocNamed Proofs.OutlineProofsNamed.

Local Open Scope N_scope.

Definition K_XYZ := Eval cbv in bs "XYZ".

Definition with_cat (cat : dict) (extra : objmap) (mx : N) : doc :=
  {| d_version := bs "1.5"; d_binary_mark := [];
     d_trailer := [(K_Root, ORef 1 0)];
     d_objects := [((1, 0), ODict cat);
                   ((2, 0), ODict [(K_Type, OName K_Pages); (K_Kids, OArr [ORef 3 0; ORef 4 0]); (K_Count, OInt 2)]);
                   ((3, 0), ODict [(K_Type, OName K_Page); (K_Parent, ORef 2 0)]);
                   ((4, 0), ODict [(K_Type, OName K_Page); (K_Parent, ORef 2 0)])] ++ extra;
     d_max_id := mx |}.

Definition final_of (d : doc) (root : N) : doc :=
  match build_outline 6 (add_all (fresh_bdoc d) ex_ops) with
  | OOk (_, b') => attach (base b') (1, 0) (root, 0)
  | _ => d
  end.

(* ---- a valid tree ---- *)
Definition nd_cat : dict := ex_cat ++ [(K_Names, ODict [(K_Dests, ORef 5 0)])].
Definition nd_doc : doc :=
  with_cat nd_cat
    [((5, 0), ODict [(K_Kids, OArr [ORef 6 0])]);
     ((6, 0), ODict [(K_Names, OArr [OStr (bs "intro") false; ORef 7 0;
                                     OStr (bs "ch1") false; ODict [(K_D, OArr [ORef 4 0; OName K_Fit])]])]);
     ((7, 0), OArr [ORef 3 0; OName K_XYZ; OInt 0; OInt 0; ONull])] 7.
Definition nd_final : doc := final_of nd_doc 8.

Lemma nd_example :
  ex_forest <> [] /\ max_id_bounds nd_doc /\
  d_max_id nd_doc + 1 + 2 * N.of_nat (fsize ex_forest) < U32_LIMIT /\
  root_id nd_doc = Some (1, 0) /\
  get_object_mut_id (d_objects nd_doc) (1, 0) = Some ((1, 0), ODict nd_cat) /\
  (exists b', build_outline (default_fuel (add_all (fresh_bdoc nd_doc) ex_ops)) (add_all (fresh_bdoc nd_doc) ex_ops)
              = OOk (Some (8, 0), b') /\ attach (base b') (1, 0) (8, 0) = nd_final) /\
  targets_are_pages nd_final ex_forest /\
  expected_toc nd_final ex_forest = ex_toc /\
  (exists cat tree, catalog nd_final = Some cat /\ named_tree (d_objects nd_final) cat = Some tree /\
     map fst (fst (Query.get_named_destinations (Query.fuel_nd (d_objects nd_final)) (d_objects nd_final) tree []))
     = [bs "intro"; bs "ch1"]) /\
  TocNamed.name_tree_readable nd_final = true /\
  TocNamed.get_toc 4 nd_final = TOk ex_toc 0.
Proof.
  split; [vm_compute; discriminate|].
  split; [apply max_id_bounds_check; vm_compute; reflexivity|].
  split; [vm_compute; reflexivity|].
  split; [reflexivity|]. split; [vm_compute; reflexivity|].
  split; [eexists; split; vm_compute; reflexivity|].
  split; [apply targets_check; vm_compute; reflexivity|].
  split; [vm_compute; reflexivity|].
  split; [do 2 eexists; split; [vm_compute; reflexivity|]; split; vm_compute; reflexivity|].
  split; vm_compute; reflexivity.
Qed.

Definition first_of (d : doc) (root : N) : option dict :=
  match get_of (d_objects d) root with
  | Some od => get_dict_in_dict (d_objects d) od K_First
  | None => None
  end.

(* ---- a cyclic tree, an ill-typed tree ---- *)
Definition cyc_cat : dict := ex_cat ++ [(K_Dests, ORef 5 0)].
Definition cyc_doc : doc := with_cat cyc_cat [((5, 0), ODict [(K_Kids, OArr [ORef 5 0])])] 5.
Definition cyc_final : doc := final_of cyc_doc 6.

Definition bad_cat : dict := ex_cat ++ [(K_Dests, ODict [(K_Names, OArr [OStr (bs "k") false; ODict []])])].
Definition bad_doc : doc := with_cat bad_cat [] 4.
Definition bad_final : doc := final_of bad_doc 5.

Lemma unreadable_witness :
  (* every other hypothesis of the read-back theorem holds *)
  max_id_bounds cyc_doc /\ root_id cyc_doc = Some (1, 0) /\
  get_object_mut_id (d_objects cyc_doc) (1, 0) = Some ((1, 0), ODict cyc_cat) /\
  (exists b', build_outline (default_fuel (add_all (fresh_bdoc cyc_doc) ex_ops)) (add_all (fresh_bdoc cyc_doc) ex_ops)
              = OOk (Some (6, 0), b') /\ attach (base b') (1, 0) (6, 0) = cyc_final) /\
  targets_are_pages cyc_final ex_forest /\
  max_id_bounds bad_doc /\ root_id bad_doc = Some (1, 0) /\
  get_object_mut_id (d_objects bad_doc) (1, 0) = Some ((1, 0), ODict bad_cat) /\
  (exists b', build_outline (default_fuel (add_all (fresh_bdoc bad_doc) ex_ops)) (add_all (fresh_bdoc bad_doc) ex_ops)
              = OOk (Some (5, 0), b') /\ attach (base b') (1, 0) (5, 0) = bad_final) /\
  targets_are_pages bad_final ex_forest /\
  (* the name tree is refused, and so is the table of contents *)
  TocNamed.name_tree_readable cyc_final = false /\ TocNamed.get_toc 4 cyc_final = TErr /\
  TocNamed.name_tree_readable bad_final = false /\ TocNamed.get_toc 4 bad_final = TErr /\
  (* the outline itself is the one of the example without a name tree (OutlineProofsProps.ex_final, which reads back):
     the First/Next walk alone returns the same outlines *)
  (exists outs b1 b2,
     outs <> [] /\
     option_map (fun first => TocNamed.walk 4 (d_objects cyc_final) first [] (N.of_nat (length (d_objects cyc_final))) 0)
                (first_of cyc_final 6) = Some (WOk (outs, b1, [])) /\
     option_map (fun first => Toc.walk 4 (d_objects ex_final) first (N.of_nat (length (d_objects ex_final))) 0)
                (first_of ex_final 5) = Some (WOk (outs, b2))).
Proof.
  split; [apply max_id_bounds_check; vm_compute; reflexivity|].
  split; [reflexivity|]. split; [vm_compute; reflexivity|].
  split; [eexists; split; vm_compute; reflexivity|].
  split; [apply targets_check; vm_compute; reflexivity|].
  split; [apply max_id_bounds_check; vm_compute; reflexivity|].
  split; [reflexivity|]. split; [vm_compute; reflexivity|].
  split; [eexists; split; vm_compute; reflexivity|].
  split; [apply targets_check; vm_compute; reflexivity|].
  split; [vm_compute; reflexivity|]. split; [vm_compute; reflexivity|].
  split; [vm_compute; reflexivity|]. split; [vm_compute; reflexivity|].
  do 3 eexists. split; [|split; vm_compute; reflexivity]. discriminate.
Qed.

(* ---------- the earlier computed instances (OutlineProofsProps.v), restated over the complete model: their catalogs
   have no name tree, where the two models coincide ([get_toc_no_tree]) ---------- *)
Lemma no_tree_check d : 
  match catalog d with Some cat => match named_tree (d_objects d) cat with None => true | Some _ => false end | None => false end = true ->
  forall fuel, TocNamed.get_toc fuel d = Toc.get_toc fuel d.
Proof.
  intros H fuel. destruct (catalog d) as [cat|] eqn:Hc; [|discriminate].
  destruct (named_tree (d_objects d) cat) eqn:Hn; [discriminate|].
  apply (OutlineProofsNamed.get_toc_no_tree d cat fuel Hc Hn).
Qed.

Lemma ex_hyps_nm :
  ex_forest <> [] /\
  max_id_bounds ex_doc /\
  d_max_id ex_doc + 1 + 2 * N.of_nat (fsize ex_forest) < U32_LIMIT /\
  root_id ex_doc = Some (1, 0) /\
  get_object_mut_id (d_objects ex_doc) (1, 0) = Some ((1, 0), ODict ex_cat) /\
  no_name_trees ex_cat /\
  distinct_titles ex_forest /\ scalar_titles ex_forest /\
  N.of_nat (fheight ex_forest) <= OUTLINE_DEPTH_LIMIT + 1 /\
  (fsize ex_forest <= 4)%nat /\
  build_outline (default_fuel (add_all (fresh_bdoc ex_doc) ex_ops)) (add_all (fresh_bdoc ex_doc) ex_ops)
    = OOk (Some (5, 0), ex_built) /\
  targets_are_pages ex_final ex_forest /\
  expected_toc ex_final ex_forest = ex_toc /\
  TocNamed.name_tree_readable ex_final = true /\
  TocNamed.get_toc 4 ex_final = TOk ex_toc 0.
Proof.
  pose proof ex_hyps as H. rewrite <- (no_tree_check ex_final ltac:(vm_compute; reflexivity) 4) in H.
  destruct H as (H1 & H2 & H3 & H4 & H5 & H6 & H7 & H8 & H9 & H10 & H11 & H12 & H13 & H14).
  assert (R : TocNamed.name_tree_readable ex_final = true) by (vm_compute; reflexivity).
  exact (conj H1 (conj H2 (conj H3 (conj H4 (conj H5 (conj H6 (conj H7 (conj H8 (conj H9 (conj H10 (conj H11 (conj H12 (conj H13 (conj R H14)))))))))))))).
Qed.

Lemma deep_witness_nm :
  too_deep deep_forest = true /\
  fheight deep_forest = 258%nat /\
  deep_forest <> [] /\
  distinct_titles deep_forest /\ scalar_titles deep_forest /\
  targets_are_pages deep_final deep_forest /\
  (exists b', build_outline (default_fuel (add_all (fresh_bdoc ex_doc) deep_ops)) (add_all (fresh_bdoc ex_doc) deep_ops)
              = OOk (Some (5, 0), b') /\ attach (base b') (1, 0) (5, 0) = deep_final) /\
  TocNamed.name_tree_readable deep_final = true /\
  TocNamed.get_toc 1000 deep_final = TErr.
Proof.
  pose proof deep_witness as H. rewrite <- (no_tree_check deep_final ltac:(vm_compute; reflexivity) 1000) in H.
  destruct H as (H1 & H2 & H3 & H4 & H5 & H6 & H7 & H8).
  assert (R : TocNamed.name_tree_readable deep_final = true) by (vm_compute; reflexivity).
  exact (conj H1 (conj H2 (conj H3 (conj H4 (conj H5 (conj H6 (conj H7 (conj R H8)))))))).
Qed.

Lemma zero_example_nm :
  let b := add_all (fresh_bdoc ex_doc) zero_ops in
  adjust_zero_pages (default_fuel b) b = OOk zero_adjusted /\
  (forall i p, In (i, p) (flat_map tree_pages (map fix_tree zero_forest)) <->
               exists bm, tbl_get (bookmark_table zero_adjusted) i = Some bm /\ bm_page bm = p) /\
  flat_map tree_pages (map fix_tree zero_forest) = [(1, (4, 0)); (2, (4, 0)); (4, (4, 0)); (3, (3, 0)); (5, (3, 0)); (6, (3, 0))] /\
  bookmarks zero_adjusted = bookmarks b /\
  (exists b', build_outline (default_fuel zero_adjusted) zero_adjusted = OOk (Some (5, 0), b') /\
              attach (base b') (1, 0) (5, 0) = zero_final) /\
  TocNamed.get_toc 6 zero_final = TOk (expected_toc zero_final (map fix_tree zero_forest)) 0 /\
  map te_page (expected_toc zero_final (map fix_tree zero_forest)) = [2; 2; 2; 1; 1; 1] /\
  map te_level (expected_toc zero_final (map fix_tree zero_forest)) = [1; 2; 3; 2; 1; 2].
Proof.
  pose proof zero_example as H. cbv zeta in H |- *.
  rewrite <- (no_tree_check zero_final ltac:(vm_compute; reflexivity) 6) in H. exact H.
Qed.
